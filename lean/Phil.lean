import Phil.Basic
import Phil.Tok
import Phil.TypeExpr
import Phil.Parse
import Phil.Show
import Phil.Conv
import Phil.Wire
import Phil.Codec
