/-
  Phil.IndexConcrete — the index state machine instantiated with the Fetch model (for the
  correspondence run): merge_phil with its deletion of `.multiple` instances, push_state's re-fetch.
-/
import Phil.Index
import Phil.Fetch
namespace Phil

def joinPath (pfx name : Str) : Str := if pfx.isEmpty then name else pfx ++ '.' :: name

/-- get_all_path_names of a parsed edit (full paths of all objects, first occurrence order) -/
def allPathNames : Nat → Str → List Obj → List Str
  | 0, _, _ => []
  | fuel + 1, pfx, objs =>
    objs.foldl (fun acc o =>
      let fp := joinPath pfx o.name
      let acc := if acc.contains fp then acc else acc ++ [fp]
      match o with
      | .scope _ kids => (allPathNames fuel fp kids).foldl (fun a p => if a.contains p then a else a ++ [p]) acc
      | _ => acc) []

/-- paths of `.multiple = True` objects that build_index(collect_multiple=True) records -/
def multiplePaths : Nat → Str → List Obj → List Str
  | 0, _, _ => []
  | fuel + 1, pfx, objs =>
    objs.flatMap fun o =>
      let fp := joinPath pfx o.name
      if o.meta.tmpl == -1 then [] else
      let here := match o.attr "multiple" with | .bool true => [fp] | _ => []
      match o with
      | .scope _ kids => here ++ multiplePaths fuel fp kids
      | _ => here

/-- interface.delete_phil_objects -/
def deletePhilObjects : Nat → List Str → Str → List Obj → List Obj
  | 0, _, _, objs => objs
  | fuel + 1, paths, pfx, objs =>
    objs.filterMap fun o =>
      let fp := joinPath pfx o.name
      if o.meta.tmpl != 0 then some o
      else if paths.contains fp then none
      else match o with
        | .scope m kids =>
          if paths.any (fun p => startsWith fp p) then some (.scope m (deletePhilObjects fuel paths fp kids)) else some o
        | d => some d

structure IndexCtx where
  envs : Envs
  master : List Obj
  multiple : List Str      -- _multiple_scopes ∪ _multiple_defs


/-- the kernel of the concrete index: working sets are root object lists -/
def concreteKernel (c : IndexCtx) : Index.Kernel (List Obj) PVal Str where
  merge := fun w text =>
    match parseObjs text with
    | .error _ => none
    | .ok edit =>
      match fetchRoot c.envs false c.master [edit] with
      | .error _ => none
      | .ok _ =>
        let newPaths := allPathNames 1000 [] edit
        let redundant := newPaths.filter (fun p => c.multiple.contains p)
        let old := if redundant.isEmpty then w else deletePhilObjects 1000 redundant [] w
        match fetchRoot c.envs false c.master [old, edit] with
        | .error _ => none
        | .ok (r, _) => some r.children
  refetch := fun w =>
    match fetchRoot c.envs false c.master [w] with
    | .ok (r, _) => r.children
    | .error _ => w
  extract := fun w =>
    match extractObj c.envs 1000 (rootOf w) with
    | .ok v => some v
    | .error _ => none
  format := fun p =>
    match formatObj c.envs 1000 (rootOf c.master) p with
    | .ok o => o.children
    | .error _ => []

end Phil
