/-
  Phil.Parse — model of src/freephil/parser.py (collect_assigned_words, collect_objects), of
  scope.adopt, of definition/scope.assign_attribute (common.py) and of `parse()` without includes.
-/
import Phil.Tok
import Phil.TypeExpr
namespace Phil

def tokErr : TokErr → Err
  | .missingClosingQuote l => .runtime "missing_closing_quote" (some l)

/-- try_pop(settings_index) -/
def tryPop (s : Settings) (ci : CI) : R (Option (Word × CI)) :=
  match nextWord s ci with
  | .error e => .error (tokErr e)
  | .ok r => .ok r

/-- pop(settings_index) -/
def pop (s : Settings) (ci : CI) : R (Word × CI) :=
  match tryPop s ci with
  | .error e => .error e
  | .ok none => .error (.runtime "unexpected_end" none)
  | .ok (some r) => .ok r

def unquotedErr (w : Word) : Err := .runtime "unquoted_expected" w.line

def popUnquoted (s : Settings) (ci : CI) : R (Word × CI) :=
  match pop s ci with
  | .error e => .error e
  | .ok (w, ci') => if w.quote.isSome then .error (unquotedErr w) else .ok (w, ci')

def tryPopUnquoted (s : Settings) (ci : CI) : R (Option (Word × CI)) :=
  match tryPop s ci with
  | .error e => .error e
  | .ok none => .ok none
  | .ok (some (w, ci')) => if w.quote.isSome then .error (unquotedErr w) else .ok (some (w, ci'))

def isUnq (w : Word) (s : String) : Bool := w.quote.isNone && w.value == s.toList

/-- parser.collect_assigned_words -/
def collectAssignedAux : Nat → CI → Word → Bool → List Word → R (List Word × CI)
  | 0, _, _, _, _ => .error .outOfFuel
  | fuel + 1, ci, last, haveComment, acc =>
    match tryPop valueSettings ci with
    | .error e => .error e
    | .ok none => .ok (acc.reverse, ci)
    | .ok (some (w, ci')) =>
      if !haveComment && w.quote.isNone &&
          (w.value == ['{'] || w.value == ['}'] || w.value == [';'] || w.value == ['#']) then
        if w.value == [';'] then .ok (acc.reverse, ci')
        else if w.value != ['#'] then .ok (acc.reverse, ci)          -- backup()
        else collectAssignedAux fuel ci' w true acc
      else if w.quote.isSome || isUnq last "\\" then
        collectAssignedAux fuel ci' w haveComment (if haveComment then acc else w :: acc)
      else if w.line != last.line then .ok (acc.reverse, ci)        -- backup()
      else if w.value != ['\\'] || w.quote.isSome then
        collectAssignedAux fuel ci' w haveComment (if haveComment then acc else w :: acc)
      else collectAssignedAux fuel ci' w haveComment acc

def collectAssigned (ci : CI) (lead : Word) : R (List Word × CI) :=
  match collectAssignedAux (ci.rest.length + 1) ci lead false [] with
  | .error e => .error e
  | .ok (ws, ci') =>
    if ws.isEmpty then .error (.runtime "missing_value" lead.line) else .ok (ws, ci')

/-! ### attribute values -/

def isPlainNone (ws : List Word) : Bool :=
  match ws with
  | [w] => w.quote.isNone && lower w.value == "none".toList
  | _ => false
def isPlainAuto (ws : List Word) : Bool :=
  match ws with
  | [w] => w.quote.isNone && lower w.value == "auto".toList
  | _ => false

/-- converters.str_from_words: None | Auto | joined text -/
def strFromWords (ws : List Word) : AttrVal :=
  if isPlainNone ws then .none
  else if isPlainAuto ws then .auto
  else .str (joinWith [' '] (ws.map (·.value)))

def firstLine (ws : List Word) : Option Nat :=
  match ws with
  | w :: _ => w.line
  | [] => none

/-- the spelling tables of converters.bool_from_words — regenerated from the source -/
def boolFalseSpellings : List Str := Gen.boolFalse.map String.toList
def boolTrueSpellings : List Str := Gen.boolTrue.map String.toList

/-- converters.bool_from_words -/
def boolFromWords (ws : List Word) : R AttrVal :=
  match strFromWords ws with
  | .str s =>
    let l := lower s
    if boolFalseSpellings.contains l then .ok (.bool false)
    else if boolTrueSpellings.contains l then .ok (.bool true)
    else if ws.isEmpty then .error (.stray "AssertionError" "bool_from_words")
    else .error (.runtime "bool_expected" (firstLine ws))
  | v => .ok v

def strip (s : Str) : Str := ((s.dropWhile isSpace).reverse.dropWhile isSpace).reverse

/-- converters.int_from_words for attribute values, as far as it does not need `eval` -/
def intFromWordsLit (ws : List Word) : R AttrVal :=
  match strFromWords ws with
  | .str s =>
    let t := lower (strip s)
    if t == "true".toList || t == "false".toList then .error (.runtime "numeric_expected" (firstLine ws))
    else if t == "none".toList then .ok .none
    else if t == "auto".toList then .ok .auto
    else match parseIntLit (strip s) with
      | some i => .ok (.int i)
      | none => .error (.unsupported "attribute value needs eval")
  | v => .ok v

/-- definition.assign_attribute -/
def defAttrValue (name : String) (ws : List Word) : R AttrVal :=
  if name == "optional" || name == "multiple" || name == "deprecated" then boolFromWords ws
  else if name == "type" then
    if isPlainNone ws then .ok .none
    else if isPlainAuto ws then .ok .auto
    else match strFromWords ws with
      | .str s => (convFromExpr (strip s) (firstLine ws)).map AttrVal.conv
      | v => .ok v
  else if name == "input_size" || name == "expert_level" then intFromWordsLit ws
  else .ok (strFromWords ws)

/-- scope.assign_attribute -/
def scopeAttrValue (name : String) (ws : List Word) : R AttrVal :=
  if name == "optional" || name == "multiple" || name == "disable_add" || name == "disable_delete" then
    boolFromWords ws
  else if name == "expert_level" then intFromWordsLit ws
  else if name == "call" then
    if isPlainNone ws then .ok .none
    else if isPlainAuto ws then .ok .auto
    else .error (.unsupported ".call import")
  else if name == "sequential_format" then
    match strFromWords ws with
    | .none => .ok .none
    | _ => .error (.unsupported ".sequential_format % 0")
  else .ok (strFromWords ws)

/-! ### scope.adopt -/

/-- wrap an object whose name is dotted into the chain of scopes `adopt` creates -/
def wrapDotted (o : Obj) : Obj :=
  let comps := splitOn '.' o.name
  match comps.reverse with
  | [] => o
  | [_] => o
  | last :: initRev =>
    let inner := o.withMeta (fun m => { m with name := last, mergeNames := true })
    -- innermost first: fold from the last scope name outwards
    let rec build : List Str → Obj → Obj
      | [], acc => acc
      | n :: more, acc =>
        -- `more` are the names further out; merge_names is False only for the outermost
        build more (.scope { name := n, id := o.meta.id, mergeNames := !more.isEmpty } [acc])
    build initRev inner

def adopt (parent : List Obj) (o : Obj) : List Obj := parent ++ [wrapDotted o]

/-! ### collect_objects -/

def syntaxErr (site : String) (w : Word) : Err := .runtime site w.line

/-- the constructor's own test on the full name (error cites the lead word's line) -/
def reservedFull (isDef : Bool) (name : Str) : Bool :=
  isReserved name ||
  (if isDef then name != "include".toList && (splitOn '.' name).contains "include".toList
   else (splitOn '.' name).contains "include".toList)

/-- scope.adopt builds a scope per leading name component; its constructor refuses a reserved
    component (no source position is attached to that error) -/
def reservedComponent (name : Str) : Bool := ((splitOn '.' name).dropLast).any isReserved

def reservedName (isDef : Bool) (name : Str) : Bool := reservedFull isDef name || reservedComponent name

def reservedLine (isDef : Bool) (name : Str) (line : Option Nat) : Option Nat :=
  if reservedFull isDef name then line else none

structure PState where
  ci : CI
  nextId : Nat
  deriving Repr

/-- flush the active definition into the list of objects of the enclosing scope -/
def flush (acc : List Obj) (pending : Option Obj) : List Obj :=
  match pending with
  | none => acc
  | some d => adopt acc d

def stripBang (w : Word) : Word × Bool :=
  match w.value with
  | '!' :: r => ({ w with value := r }, true)
  | _ => (w, false)

/-- the scope-attribute loop between the scope name and `{` -/
def scopeAttrsLoop : Nat → CI → Word → Attrs → R (Attrs × Word × CI)
  | 0, _, _, _ => .error .outOfFuel
  | fuel + 1, ci, w, attrs =>
    if w.value == ['{'] then .ok (attrs, w, ci)
    else
      let (w, dis) := stripBang w
      let an := String.ofList (w.value.drop 1)
      if w.value.take 1 != ['.'] || !scopeAttrNames.contains an then
        .error (.runtime "unexpected_scope_attribute" w.line)
      else
        match popUnquoted structSettings ci with
        | .error e => .error e
        | .ok (eq, ci1) =>
          if eq.value != ['='] then .error (syntaxErr "expected" eq) else
          match collectAssigned ci1 w with
          | .error e => .error e
          | .ok (ws, ci2) =>
            match (if dis then .ok attrs else (scopeAttrValue an ws).map (fun v => attrs ++ [(an, v)])) with
            | .error e => .error e
            | .ok attrs' =>
              match popUnquoted structSettings ci2 with
              | .error e => .error e
              | .ok (w', ci3) => scopeAttrsLoop fuel ci3 w' attrs'

/-- parser.collect_objects.  Returns the objects adopted by the enclosing scope, the state after the
    stop token (or end of input), in document order.  `stop = some startWord` ⇔ stop_token = "}". -/
def collectObjects : Nat → PState → Option Word → Nat → List Obj → Option Obj → R (List Obj × PState)
  | 0, _, _, _, _, _ => .error .outOfFuel
  | fuel + 1, st, stop, prevLine, acc, pending =>
    match tryPopUnquoted structSettings st.ci with
    | .error e => .error e
    | .ok none =>
      match stop with
      | none => .ok (flush acc pending, st)
      | some sw => .error (.runtime "no_matching_brace" sw.line)
    | .ok (some (lead, ci1)) =>
      if lead.value == "#phil".toList && lead.line != some prevLine then
        match popUnquoted structSettings ci1 with
        | .error e => .error e
        | .ok (w, ci2) =>
          if w.value == "__END__".toList then
            (match stop with
             | none => .ok (flush acc pending, { st with ci := ci2 })
             | some sw => .error (.runtime "no_matching_brace" sw.line))
          else if w.value == "__ON__".toList then
            collectObjects fuel { st with ci := ci2 } stop prevLine acc pending
          else if w.value != "__OFF__".toList then .error (.runtime "unknown_phil" w.line)
          else
            let (i, ci3) := scanForStart "#phil".toList ["__END__".toList, "__ON__".toList]
                              (ci2.rest.length + 1) ci2.rest ci2.line
            if i == 0 then
              (match stop with
               | none => .ok (flush acc pending, { st with ci := ci3 })
               | some sw => .error (.runtime "no_matching_brace" sw.line))
            else collectObjects fuel { st with ci := ci3 } stop prevLine acc pending
      else if stop.isSome && lead.value == ['}'] then .ok (flush acc pending, { st with ci := ci1 })
      else if lead.value == ['{'] then .error (.runtime "unexpected_open_brace" lead.line)
      else
        let (lead, dis) := stripBang lead
        let prevLine' := lead.line.getD 0
        match pop structSettings ci1 with
        | .error e => .error e
        | .ok (w, ci2) =>
          if w.quote.isNone && (w.value == ['{'] || w.value.take 1 == ['.'] || w.value.take 2 == ['!', '.']) then
            -- a scope
            if !isStdIdent lead.value then
              .error (syntaxErr (if lead.value == [';'] then "unexpected" else "improper_scope_name") lead)
            else if reservedName false lead.value then .error (.runtime "reserved" (reservedLine false lead.value lead.line))
            else
              let sid := st.nextId
              match scopeAttrsLoop (ci2.rest.length + 2) ci2 w [] with
              | .error e => .error e
              | .ok (attrs, brace, ci3) =>
                match collectObjects fuel { ci := ci3, nextId := sid + 1 } (some brace) 0 [] none with
                | .error e => .error e
                | .ok (children, st') =>
                  let sc : Obj := .scope { name := lead.value, id := some sid, disabled := dis,
                                           line := lead.line, attrs := attrs } children
                  collectObjects fuel st' stop prevLine' (adopt (flush acc pending) sc) none
          else
            -- backup(): continue from ci1
            if lead.value.take 1 != ['.'] then
              if !isStdIdent lead.value then
                .error (syntaxErr (if lead.value == [';'] then "unexpected" else "improper_definition_name") lead)
              else
                let afterEq : R CI :=
                  if lead.value != "include".toList then
                    match popUnquoted structSettings ci1 with
                    | .error e => .error e
                    | .ok (eq, ci') => if eq.value != ['='] then .error (syntaxErr "expected" eq) else .ok ci'
                  else .ok ci1
                match afterEq with
                | .error e => .error e
                | .ok ci3 =>
                  match collectAssigned ci3 lead with
                  | .error e => .error e
                  | .ok (ws, ci4) =>
                    if reservedName true lead.value then .error (.runtime "reserved" (reservedLine true lead.value lead.line))
                    else
                      let d : Obj := .defn { name := lead.value, id := some st.nextId, disabled := dis,
                                             line := lead.line } ws
                      collectObjects fuel { ci := ci4, nextId := st.nextId + 1 } stop prevLine'
                        (flush acc pending) (some d)
            else
              let an := String.ofList (lead.value.drop 1)
              match pending with
              | none => .error (.runtime "unexpected_definition_attribute" lead.line)
              | some d =>
                if !defAttrNames.contains an then .error (.runtime "unexpected_definition_attribute" lead.line)
                else
                  match popUnquoted structSettings ci1 with
                  | .error e => .error e
                  | .ok (eq, ci3) =>
                    if eq.value != ['='] then .error (syntaxErr "expected" eq) else
                    match collectAssigned ci3 lead with
                    | .error e => .error e
                    | .ok (ws, ci4) =>
                      if dis then collectObjects fuel { st with ci := ci4 } stop prevLine' acc pending
                      else
                        match defAttrValue an ws with
                        | .error e => .error e
                        | .ok v =>
                          collectObjects fuel { st with ci := ci4 } stop prevLine' acc
                            (some (d.withMeta (fun m => { m with attrs := m.attrs ++ [(an, v)] })))

/-- `freephil.parse(input_string=…)`: the root scope's objects -/
def parseObjs (text : Str) : R (List Obj) :=
  match collectObjects (text.length + 2) { ci := ⟨text, 1⟩, nextId := 1 } none 0 [] none with
  | .error e => .error e
  | .ok (objs, _) => .ok objs

/-- the root scope -/
def parse (text : Str) : R Obj := (parseObjs text).map (fun os => .scope { name := [], id := some 0 } os)

end Phil
