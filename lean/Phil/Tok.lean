/-
  Phil.Tok — model of src/freephil/tokenizer.py: escape/quote, character_iterator (as a pair
  `(rest, line)`; every primitive updates the line counter the way the code does), word_iterator.__next__
  for an arbitrary `settings`, scan_for_start, and tokens.tokenize_value_literal.
-/
import Phil.Basic
namespace Phil

/-- tokenizer.escape_python_str: first every backslash is doubled, then the quote char is escaped -/
def escape (q : Char) : Str → Str
  | [] => []
  | c :: cs =>
    if c == '\\' then '\\' :: '\\' :: escape q cs
    else if c == q then '\\' :: q :: escape q cs
    else c :: escape q cs

/-- tokenizer.quote_python_str -/
def quoteStr (q : Quote) (s : Str) : Str := q.token ++ escape q.char s ++ q.token

/-- word.__str__ -/
def Word.str (w : Word) : Str :=
  match w.quote with
  | none => w.value
  | some q => quoteStr q w.value

structure Settings where
  single : List Char := []            -- unquoted_single_character_words
  contig : List Char := []            -- contiguous_word_characters ("" = anything)
  embeddedQuotes : Bool := true
  commentChars : List Char := []
  metaComment : Option Str := none
  deriving Repr

def defaultContig : List Char :=
  "ABCDEFGHIJKLMNOPQRSTUVWXYZabcdefghijklmnopqrstuvwxyz0123456789_".toList

/-- the two settings of `parse()` and the one of `tokenize_value_literal` -/
def structSettings : Settings :=
  { single := Gen.structSingle, commentChars := Gen.structComment, metaComment := some Gen.structMeta.toList }
def valueSettings : Settings := { single := Gen.valueSingle }
def literalSettings : Settings := {}
def defaultSettings : Settings := { contig := defaultContig }

/-- character-iterator state: the text not yet consumed and `line_number` -/
structure CI where
  rest : Str
  line : Nat
  deriving Repr, DecidableEq

def bump (c : Char) (line : Nat) : Nat := if c == '\n' then line + 1 else line

/-- The quoted branch of `word_iterator.__next__` after the opening token has been consumed.
    `esc = true` means the previous character was a backslash whose look-ahead decision is pending
    (the code peeks one character; the model consumes the backslash first and decides on the next
    step, which visits the same characters in the same order).
    Returns value, rest, line; or the line cited by "missing closing quote". -/
def scanQ (q : Char) (triple : Bool) : Bool → Str → Nat → Str → Except Nat (Str × Str × Nat)
  | _, [], line, _ => .error line
  | true, d :: cs, line, acc =>
    if d == '\\' then scanQ q triple false cs line ('\\' :: acc)
    else if d == q then scanQ q triple false cs line (q :: acc)
    else if d == '\n' then scanQ q triple false cs (line + 1) acc
    else scanQ q triple false cs line (d :: '\\' :: acc)
  | false, c :: cs, line, acc =>
    if c == q then
      if !triple then .ok (acc.reverse, cs, line)
      else match cs with
        | a :: b :: cs' =>
          if a == q && b == q then .ok (acc.reverse, cs', line)
          else scanQ q triple false cs line (c :: acc)
        | _ => scanQ q triple false cs line (c :: acc)
    else if c == '\\' then scanQ q triple true cs line acc
    else scanQ q triple false cs (bump c line) (c :: acc)

/-- continuation test of the unquoted branch: does look-ahead character `c` end the word? -/
def endsUnquoted (s : Settings) (c : Char) : Bool :=
  isSpace c || s.single.contains c ||
  (!s.contig.isEmpty && !s.contig.contains c && (!s.embeddedQuotes || !(c == '"' || c == '\'')))

def scanU (s : Settings) : Str → Str → Str × Str
  | [], acc => (acc.reverse, [])
  | c :: cs, acc => if endsUnquoted s c then (acc.reverse, c :: cs) else scanU s cs (c :: acc)

/-- does the first character start a multi-character unquoted word? -/
def startsLong (s : Settings) (c : Char) : Bool :=
  !s.single.contains c && (s.contig.isEmpty || s.contig.contains c)

def isCommentStart (s : Settings) (c : Char) (rest : Str) : Bool :=
  s.commentChars.contains c &&
    (match s.metaComment with
     | none => true
     | some m => rest.take m.length != m)

inductive TokErr | missingClosingQuote (line : Nat)
  deriving Repr, DecidableEq

/-- `char_iter.look_ahead(n=2) == quote_char + quote_char` -/
def isTripleOpen (c : Char) : Str → Bool
  | a :: b :: _ => a == c && b == c
  | _ => false

/-- the word that starts at the non-blank, non-comment character `c` (quoted or unquoted branch of
    `word_iterator.__next__`); `line` is the counter after consuming `c` -/
def wordAt (s : Settings) (c : Char) (cs : Str) (line : Nat) : Except TokErr (Word × CI) :=
  if c == '"' || c == '\'' then
    let triple := isTripleOpen c cs
    let body := if triple then cs.drop 2 else cs
    match scanQ c triple false body line [] with
    | .error l => .error (.missingClosingQuote l)
    | .ok (v, rest, line') =>
      .ok ({ value := v, quote := some (Quote.mk' c triple), line := some line }, ⟨rest, line'⟩)
  else
    if startsLong s c then
      let (v, rest) := scanU s cs [c]
      .ok ({ value := v, quote := none, line := some line }, ⟨rest, line⟩)
    else
      .ok ({ value := [c], quote := none, line := some line }, ⟨cs, line⟩)

/-- `word_iterator.__next__`: `none` = StopIteration.  `inComment` is the inner comment-skipping loop. -/
def nextWordAux (s : Settings) : Bool → Str → Nat → Except TokErr (Option (Word × CI))
  | _, [], _ => .ok none
  | true, c :: cs, line =>
    if c == '\n' then nextWordAux s false cs (line + 1) else nextWordAux s true cs line
  | false, c :: cs, line =>
    if isSpace c then nextWordAux s false cs (bump c line)
    else if isCommentStart s c cs then nextWordAux s true cs line
    else (wordAt s c cs line).map some

def nextWord (s : Settings) (ci : CI) : Except TokErr (Option (Word × CI)) :=
  nextWordAux s false ci.rest ci.line

/-- all words of a text (list(word_iterator(...))) -/
def allWordsAux (s : Settings) : Nat → CI → List Word → Except TokErr (List Word)
  | 0, _, acc => .ok acc.reverse      -- unreachable with fuel > length
  | fuel + 1, ci, acc =>
    match nextWord s ci with
    | .error e => .error e
    | .ok none => .ok acc.reverse
    | .ok (some (w, ci')) => allWordsAux s fuel ci' (w :: acc)

def allWords (s : Settings) (text : Str) : Except TokErr (List Word) :=
  allWordsAux s (text.length + 1) ⟨text, 1⟩ []

/-- tokens.tokenize_value_literal -/
def tokenizeValueLiteral (text : Str) : Except TokErr (List Word) := allWords literalSettings text

/-! ### scan_for_start -/

def dropWhileNotSpace : Str → Str
  | [] => []
  | c :: cs => if isSpace c then c :: cs else dropWhileNotSpace cs

/-- the second inner loop; counts newlines (repaired behaviour, fix ae5361d) -/
def dropSpaceCounting : Str → Nat → Str × Nat
  | [], line => ([], line)
  | c :: cs, line => if isSpace c then dropSpaceCounting cs (bump c line) else (c :: cs, line)

/-- after a matched follow-up: `none` = a non-blank character was met (its successor is returned),
    `some` = end of line or input reached -/
def afterFollowup : Str → Nat → (Bool × Str × Nat)
  | [], line => (true, [], line)
  | c :: cs, line =>
    if c == '\n' then (true, cs, line + 1)
    else if !isSpace c then (false, cs, line)
    else afterFollowup cs line

def matchFollowups (fs : List Str) (cs : Str) : Option (Nat × Str) :=
  let rec go : List Str → Nat → Option (Nat × Str)
    | [], _ => none
    | f :: fs, i => if startsWith f cs then some (i, cs.drop f.length) else go fs (i + 1)
  go fs 0

/-- character_iterator.scan_for_start; the result index with the new state.  `fuel` bounds the outer
    `while True` (every iteration consumes at least one character). -/
def scanForStart (intro : Str) (followups : List Str) : Nat → Str → Nat → Nat × CI
  | 0, cs, line => (0, ⟨cs, line⟩)
  | fuel + 1, cs, line =>
    match cs with
    | [] => (0, ⟨[], line⟩)
    | c :: cs1 =>
      if c != '\n' then scanForStart intro followups fuel cs1 line
      else
        -- inner loop over consecutive newlines
        let rec nl : Str → Nat → Str × Nat
          | [], l => ([], l)
          | d :: ds, l => if d == '\n' then nl ds (l + 1) else (d :: ds, l)
        let (cs2, line2) := nl cs1 (line + 1)
        match cs2 with
        | [] => (0, ⟨[], line2⟩)
        | _ :: ds =>
          if !startsWith intro cs2 then scanForStart intro followups fuel ds line2
          else
            let cs3 := dropWhileNotSpace (cs2.drop intro.length)
            match cs3 with
            | [] => (0, ⟨[], line2⟩)
            | _ =>
              let (cs4, line4) := dropSpaceCounting cs3 line2
              match cs4 with
              | [] => (0, ⟨[], line4⟩)
              | _ =>
                match matchFollowups followups cs4 with
                | none => scanForStart intro followups fuel cs4 line4
                | some (i, cs5) =>
                  let (done, cs6, line6) := afterFollowup cs5 line4
                  if done then (i, ⟨cs6, line6⟩)
                  else scanForStart intro followups fuel cs6 line6

end Phil
