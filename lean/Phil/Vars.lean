/-
  Phil.Vars — model of variable substitution (common.py): variable_substitution_proxy,
  definition.resolve_variables, scope.lexical_get.  `os.environ` is the parameter `env`.
  A definition is addressed by the chain of object lists that enclose it (innermost first), which
  replaces the `primary_parent_scope` pointers.
-/
import Phil.Parse
namespace Phil

inductive Fragment
  | lit (s : Str)
  | var (name : Str)
  deriving Repr, DecidableEq

/-- variable_substitution_proxy.__init__: fragments of a word value; errors carry the site -/
def fragmentsAux : Nat → Str → Str → List Fragment → Except String (List Fragment × Bool)
  | 0, _, _, _ => .error "fuel"
  | fuel + 1, cs, cur, acc =>
    match cs with
    | [] =>
      let acc := if cur.isEmpty then acc else acc ++ [.lit cur]
      .ok (acc, false)
    | c :: rest =>
      if c != '$' then
        match c, rest with
        | '\\', '$' :: rest' => fragmentsAux fuel rest' (cur ++ ['\\', '$']) acc
        | _, _ => fragmentsAux fuel rest (cur ++ [c]) acc
      else
        let acc := if cur.isEmpty then acc else acc ++ [.lit cur]
        match rest with
        | [] => .error "dollar_identifier"
        | '(' :: rest' =>
          if !rest'.contains ')' then .error "missing_paren" else
          let name := rest'.takeWhile (· != ')')
          let after := (rest'.dropWhile (· != ')')).drop 1
          let offs := if name.take 1 == ['.'] then 1 else 0
          if !isStdIdent (name.drop offs) then .error "improper_variable_name"
          else (fragmentsAux fuel after [] (acc ++ [.var name])).map (fun (l, _) => (l, true))
        | d :: rest' =>
          if !isIdStart d then .error "improper_variable_name" else
          let more := rest'.takeWhile (fun x => x != '.' && isIdCont x)
          let after := rest'.drop more.length
          (fragmentsAux fuel after [] (acc ++ [.var (d :: more)])).map (fun (l, _) => (l, true))

/-- fragments and `have_variables` -/
def fragments (value : Str) : Except String (List Fragment × Bool) :=
  match fragmentsAux (value.length + 1) value [] [] with
  | .error e => .error e
  | .ok (l, _) => .ok (l, l.any (fun f => match f with | .var _ => true | _ => false))

abbrev Env := Str → Option Str

/-- chain of enclosing object lists, innermost first; the last element is the root's objects -/
abbrev Chain := List (List Obj)

def stripPrefixDot (name : Str) (path : Str) : Option Str :=
  if startsWith (name ++ ['.']) path then some (path.drop (name.length + 1)) else none

/-- scope.lexical_get on the innermost scope of `chain`.  Returns the object found and the chain of
    the scope that contains it.  `fuel`: the measure `2*|path| + |chain|` strictly decreases in every
    recursive call (a descent consumes at least two characters of the path and adds one level, a step
    outward removes one level), so `2*|path| + |chain| + 1` is always adequate; `resolveWords` calls it
    with exactly that. -/
def lexicalGet : Nat → Chain → Str → Nat → Bool → Option (Obj × Chain)
  | 0, _, _, _, _ => none
  | fuel + 1, chain, path, stopId, searchUp =>
    let (chain, path) :=
      if path.take 1 == ['.'] then ((match chain.reverse with | r :: _ => [r] | [] => []), path.drop 1)
      else (chain, path)
    match chain with
    | [] => none
    | objs :: outer =>
      -- candidates before the first object whose id reaches stop_id
      let visible := objs.takeWhile (fun o => match o.meta.id with | some i => i < stopId | none => true)
      let cands := visible.filter (fun o =>
        if o.isDefn then o.name == path else o.name == path || (stripPrefixDot o.name path).isSome)
      let tryOne : Obj → Option (Obj × Chain) := fun o =>
        if o.name == path then some (o, objs :: outer)
        else
          match stripPrefixDot o.name path with
          | none => none
          | some sub => lexicalGet fuel (o.children :: objs :: outer) sub stopId false
      match cands.reverse.findSome? tryOne with
      | some r => some r
      | none =>
        if !searchUp then none
        else match outer with
          | [] => none
          | _ => lexicalGet fuel outer path stopId true

def wordDq (s : Str) : Word := { value := s, quote := some .d1 }

/-- definition.resolve_variables: the new word list.  `chain` encloses the definition, `id` is its
    primary_id. `fuel` bounds the recursion through referenced definitions. -/
def resolveWords (env : Env) : Nat → Chain → Nat → List Word → Bool → R (List Word)
  | 0, _, _, _, _ => .error .outOfFuel
  | fuel + 1, chain, id, words, diff =>
    words.foldlM (init := ([] : List Word)) fun (acc : List Word) (w : Word) =>
      if w.quote == some .s1 then .ok (acc ++ [w]) else
      match fragments w.value with
      | .error site => .error (.runtime site w.line)
      | .ok (frags, haveVars) =>
        if !haveVars then .ok (acc ++ [w]) else
        let forceString := w.quote.isSome || frags.length > 1
        let resolved : R (List (List Word)) := frags.foldlM (init := ([] : List (List Word)))
          fun (rs : List (List Word)) (f : Fragment) =>
            match f with
            | .lit s => .ok (rs ++ [[wordDq s]])
            | .var name =>
              let found : R (Option (List Word)) :=
                match lexicalGet (2 * name.length + chain.length + 1) chain name id true with
                | some (.defn m ws, ch) =>
                  (match m.id with
                   | some sid => (resolveWords env fuel ch sid ws false).map some
                   | none => .error (.unsupported "referenced definition without id"))
                | some (.scope _ _, _) => .error (.runtime "not_a_definition" w.line)
                | none => .ok none
              match found with
              | .error e => .error e
              | .ok (some vws) => .ok (rs ++ [if forceString then [wordDq (joinWith [' '] (vws.map (·.value)))] else vws])
              | .ok none =>
                let ev : Option Str := if diff then some ('$' :: name) else env name
                match ev with
                | some v =>
                  let vws := [wordDq v]
                  .ok (rs ++ [if forceString then [wordDq (joinWith [' '] (vws.map (·.value)))] else vws])
                | none => .error (.runtime "undefined_variable" w.line)
        match resolved with
        | .error e => .error e
        | .ok rs =>
          if !forceString then .ok (acc ++ (rs.headD []))
          else .ok (acc ++ [wordDq (rs.foldl (fun s r => s ++ (r.headD (wordDq [])).value) [])])

/-- the ids of the definitions `resolve_variables` consults (and marks `tmp = True`), transitively:
    same traversal as `resolveWords`, collecting instead of substituting -/
def resolveRefs : Nat → Chain → Nat → List Word → List Nat
  | 0, _, _, _ => []
  | fuel + 1, chain, id, words =>
    words.flatMap fun (w : Word) =>
      if w.quote == some .s1 then [] else
      match fragments w.value with
      | .error _ => []
      | .ok (frags, _) =>
        frags.flatMap fun (f : Fragment) =>
          match f with
          | .lit _ => []
          | .var name =>
            match lexicalGet (2 * name.length + chain.length + 1) chain name id true with
            | some (.defn m ws, ch) =>
              (match m.id with
               | some sid => sid :: resolveRefs fuel ch sid ws
               | none => [])
            | _ => []

def hasLiveDollar (ws : List Word) : Bool := ws.any (fun w => w.quote != some .s1 && w.value.contains '$')

/-- annotate every definition whose words contain a live `$` with the outcome of
    `resolve_variables(diff_mode)` in its own document (`Meta.varRes`) -/
def preResolveList (env : Env) (diff : Bool) (total : Nat) : Nat → Chain → List Obj → List Obj
  | 0, _, objs => objs
  | fuel + 1, outer, objs =>
    objs.map fun (o : Obj) =>
      match o with
      | .defn m ws =>
        if !hasLiveDollar ws then o else
        (match m.id with
         | none => o
         | some id =>
           let res : VarRes := match resolveWords env (total + 2) (objs :: outer) id ws diff with
             | .ok rws => .ok rws (resolveRefs (total + 2) (objs :: outer) id ws)
             | .error (.runtime site line) => .err site line
             | .error _ => .err "unsupported" none
           .defn { m with varRes := some res } ws)
      | .scope m kids => .scope m (preResolveList env diff total fuel (objs :: outer) kids)

/-- find the chain and id of the definition at an index path from the root -/
def chainAt : List Obj → List Nat → Chain → Option (Obj × Chain)
  | objs, [i], ch => (objs[i]?).map (fun o => (o, objs :: ch))
  | objs, i :: more, ch =>
    (match objs[i]? with
     | some (.scope _ kids) => chainAt kids more (objs :: ch)
     | _ => none)
  | _, [], _ => none

def countObjs : List Obj → Nat
  | [] => 0
  | .defn _ _ :: r => 1 + countObjs r
  | .scope _ k :: r => 1 + countObjs k + countObjs r

def preResolve (env : Env) (diff : Bool) (root : List Obj) : List Obj :=
  preResolveList env diff (countObjs root) (countObjs root + 1) [] root


/-- `definition.resolve_variables()` for the definition at `path` of a parsed document -/
def resolveAt (env : Env) (root : List Obj) (path : List Nat) (diff : Bool) : R (List Word) :=
  match chainAt root path [] with
  | some (.defn m ws, ch) =>
    (match m.id with
     | some id => resolveWords env (countObjs root + 2) ch id ws diff
     | none => .error (.unsupported "definition without id"))
  | _ => .error (.unsupported "no definition at path")

end Phil
