/-
  Phil.CmdLine — model of src/freephil/command_line.py: argument_interpreter.get_path_score,
  process_arg (selection by maximal score, expert-level tie-break, re-rendering under the target path)
  and of scope.all_definitions.
-/
import Phil.Show
import Phil.Conv
namespace Phil

/-- scope.all_definitions(): (path, definition meta, words) of every active definition, in order.
    Disabled objects (and everything below a disabled scope) are skipped, `include` is skipped. -/
def allDefsObj : Obj → Str → List (Str × Meta × List Word)
  | .defn m ws, parentPath =>
    if m.name == "include".toList then [] else [(parentPath ++ m.name, m, ws)]
  | .scope m os, parentPath =>
    let p := parentPath ++ m.name ++ ['.']
    allDefsList os p
where
  allDefsList : List Obj → Str → List (Str × Meta × List Word)
    | [], _ => []
    | o :: os, p => (if o.meta.disabled then [] else allDefsObj o p) ++ allDefsList os p

def allDefinitions (rootObjs : List Obj) : List (Str × Meta × List Word) :=
  allDefsObj.allDefsList rootObjs []

/-- recursive_expert_level of process_arg for every entry of all_definitions, in the same order:
    the definition's own level, else that of the nearest enclosing scope that has one, else 0 -/
def expertsObj : Obj → Int → List Int
  | .defn m _, inh =>
    if m.name == "include".toList then []
    else [match m.attrs.get "expert_level" with | .int e => e | _ => inh]
  | .scope m os, inh =>
    let inh' := match m.attrs.get "expert_level" with | .int e => e | _ => inh
    expertsList os inh'
where
  expertsList : List Obj → Int → List Int
    | [], _ => []
    | o :: os, inh => (if o.meta.disabled then [] else expertsObj o inh) ++ expertsList os inh

def expertLevels (rootObjs : List Obj) : List Int := expertsObj.expertsList rootObjs 0

/-- argument_interpreter.get_path_score -/
def getPathScore (home : Option Str) (src tgt : Str) : Nat :=
  if !findSub src tgt then 0
  else if src == tgt then 8
  else
    let inHome : Option Nat :=
      match home with
      | none => none
      | some h =>
        if h ++ '.' :: src == tgt then some 7
        else if startsWith (h ++ ['.']) tgt then
          (if endsWith ('.' :: src) tgt then some 6
           else if endsWith src tgt then some 5
           else some 2)
        else none
    match inHome with
    | some s => s
    | none =>
      if endsWith ('.' :: src) tgt then 4
      else if endsWith src tgt then 3
      else 1

inductive Choice
  | chosen (idx : Nat) (warned : Bool)
  | unknown
  | ambiguous (best : List Nat)      -- indices of the best matches
  deriving Repr, DecidableEq

def maxNat : List Nat → Nat
  | [] => 0
  | x :: xs => Nat.max x (maxNat xs)

def indicesOf (p : Nat → Bool) (l : List Nat) : List Nat :=
  (l.zipIdx.filter (fun (x, _) => p x)).map (·.2)

/-- the selection step of process_arg for one source path.  `experts` are the recursive expert levels
    aligned with `targets`; the tie-break compares `score - expert/100`, modelled exactly as
    `100*score - expert` (valid for expert levels 0..99). -/
def choosePath (home : Option Str) (targets : List Str) (experts : List Int) (src : Str) : Choice :=
  let scores := targets.map (getPathScore home src)
  let mx := maxNat scores
  if mx == 0 then .unknown
  else
    let best := indicesOf (· == mx) scores
    match best with
    | [i] => .chosen i false
    | _ =>
      -- only the best matches compete in the tie-break (`score - expert/100`, modelled as `100*score - expert`)
      let keys : List (Option Int) := (scores.zip experts).map (fun (s, e) => if s == mx then some (100 * (s : Int) - e) else none)
      let mk : Option Int := keys.foldl (fun a b => match a, b with
        | none, b => b
        | some x, some y => if y > x then some y else some x
        | a, none => a) none
      let bestK := (keys.zipIdx.filter (fun (k, _) => k.isSome && k == mk)).map (·.2)
      match bestK with
      | [i] => .chosen i true
      | _ => .ambiguous best

/-- target paths and their recursive expert levels, one entry per parameter (further occurrences of a
    `.multiple` definition share the path of the first) -/
def targetEntries (rootObjs : List Obj) (experts : List Int) : List (Str × Int) :=
  let all := ((allDefsObj.allDefsList rootObjs []).map (·.1)).zip experts
  all.foldl (fun acc pe => if acc.any (·.1 == pe.1) then acc else acc ++ [pe]) []

inductive ArgOutcome
  | ok (objs : List Obj)
  | sorry_ (kind : String) (paths : List Str)
  | runtime (e : Err)
  deriving Repr

/-- argument_interpreter.process_arg: parse the argument, address every definition in it, re-render
    under the full target path, parse the concatenation. -/
def processArg (home : Option Str) (targets : List Str) (experts : List Int) (arg : Str) : ArgOutcome :=
  match parseObjs arg with
  | .error (.unsupported w) => .runtime (.unsupported w)
  | .error _ => .sorry_ "arg_syntax" []
  | .ok objs =>
    let defs := allDefinitions objs
    let step : Option (Except ArgOutcome Str) → (Str × Meta × List Word) → Option (Except ArgOutcome Str) :=
      fun acc (path, m, ws) =>
        match acc with
        | some (.error e) => some (.error e)
        | some (.ok text) =>
          (match choosePath home targets experts path with
           | .unknown => some (.error (.sorry_ "unknown" []))
           | .ambiguous best => some (.error (.sorry_ "ambiguous" (best.filterMap (targets[·]?))))
           | .chosen i _ =>
             (match targets[i]? with
              | none => some (.error (.runtime (.stray "IndexError" "target_paths")))
              | some tp =>
                (match showDefn {} { m with name := tp, tmpl := 0 } ws [] [] with
                 | .error e => some (.error (.runtime e))
                 | .ok lines => some (.ok (text ++ unlines lines)))))
        | none => none
    match defs.foldl step (some (.ok [])) with
    | some (.error out) => out
    | some (.ok text) =>
      if text.isEmpty then .sorry_ "no_effect" []
      else (match parseObjs text with
        | .ok r => .ok r
        | .error e => .runtime e)
    | none => .runtime (.stray "?" "unreachable")

end Phil
