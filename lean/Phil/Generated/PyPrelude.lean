/-
  Phil.Generated.PyPrelude — HAND-WRITTEN semantics of the restricted Python subset that
  harness/translate.py emits (Phil/Generated/Translated.lean is generated against these names).
  Python `str` = `Str` (`List Char`), `int` = `Int`, `bool` = `Bool`, `None`-able = `Option`,
  list of str = `List Str`; one character of a string (`s[k]`, the variable of `for c in s`) is a
  one-character `Str`, as in Python.  Operations that raise in Python (index out of range) are total here;
  the value outside the Python domain is stated at the definition.
-/
import Phil.Basic
import Phil.Conv
namespace Phil.Py

/-- `len(x)` -/
def len {α : Type} (l : List α) : Int := (l.length : Int)

/-- `s.startswith(p)` / `s.endswith(p)` (one prefix, no start/end arguments) -/
def startswith (s p : Str) : Bool := startsWith p s
def endswith (s p : Str) : Bool := endsWith p s

/-- `pat in s` for strings -/
def isInfix (pat : Str) : Str → Bool
  | [] => pat.isEmpty
  | c :: cs => startsWith pat (c :: cs) || isInfix pat cs
def contains (s pat : Str) : Bool := isInfix pat s

def findFrom (pat : Str) : Str → Nat → Int
  | [], k => if pat.isEmpty then (k : Int) else -1
  | c :: cs, k => if startsWith pat (c :: cs) then (k : Int) else findFrom pat cs (k + 1)
/-- `s.find(pat)`: lowest index of an occurrence, `-1` if there is none -/
def find (s pat : Str) : Int := findFrom pat s 0

/-- `l[k:]`, `l[:k]` (negative `k` counts from the end), strings and lists alike -/
def sliceFrom {α : Type} (l : List α) (k : Int) : List α :=
  if 0 ≤ k then l.drop k.toNat else l.drop (l.length - (-k).toNat)
def sliceTo {α : Type} (l : List α) (k : Int) : List α :=
  if 0 ≤ k then l.take k.toNat else l.take (l.length - (-k).toNat)
/-- `s[k]` as a one-character string.  Python raises IndexError unless `-len(s) ≤ k < len(s)`;
    outside that range this is `""` (k ≥ len) or the first character (k < -len). -/
def index (s : Str) (k : Int) : Str := (sliceFrom s k).take 1
/-- `l[0]` for a list of objects (IndexError on the empty list in Python; the default object here) -/
def first {α : Type} [Inhabited α] (l : List α) : α := l.headD default
/-- `for c in s`: the characters as one-character strings -/
def chars (s : Str) : List Str := s.map (fun c => [c])
/-- `x in S` for a module-level set of characters `S` and a string `x` -/
def inChars (x : Str) (set : List Char) : Bool :=
  match x with
  | [c] => set.contains c
  | _ => false
/-- truth value of a string -/
def truthy (s : Str) : Bool := !s.isEmpty
/-- `s.split(sep)` for a literal one-character separator -/
def split1 (s : Str) (sep : Char) : List Str := splitOn sep s
/-- `s.replace(c, rep)` for a one-character pattern -/
def replace1 (s : Str) (c : Char) (rep : Str) : Str := s.flatMap (fun d => if d == c then rep else [d])
def replaceAux (pat rep : Str) : Nat → Str → Str
  | 0, s => s
  | _ + 1, [] => []
  | n + 1, c :: cs =>
    if startsWith pat (c :: cs) then rep ++ replaceAux pat rep n ((c :: cs).drop pat.length)
    else c :: replaceAux pat rep n cs
/-- `s.replace(pat, rep)`, `pat` non-empty (Python's result for `pat == ""` — `rep` between all characters —
    is outside the subset; this function returns `s` then) -/
def replace (s pat rep : Str) : Str :=
  match pat with
  | [] => s
  | [c] => replace1 s c rep
  | _ => replaceAux pat rep (s.length + 1) s
/-- `s.lower()` on the modelled domain (ASCII) -/
def lower (s : Str) : Str := Phil.lower s
/-- fuel for a recursive function: the translator bounds the recursion depth by the length of the first string
    argument plus one; that the bound suffices is part of the equality proof in Props/Translated -/
def fuel (s : Str) : Nat := s.length + 1

/-! ### spec lemmas -/

theorem startswith_iff (s p : Str) : startswith s p = true ↔ ∃ r, s = p ++ r := by
  unfold startswith startsWith
  constructor
  · intro h
    exact ⟨s.drop p.length, by
      have := (List.take_append_drop p.length s).symm
      rw [beq_iff_eq.mp h] at this; exact this⟩
  · rintro ⟨r, rfl⟩; simp

theorem endswith_iff (s p : Str) : endswith s p = true ↔ ∃ r, s = r ++ p := by
  unfold endswith endsWith
  constructor
  · intro h
    simp only [Bool.and_eq_true, decide_eq_true_eq, beq_iff_eq] at h
    exact ⟨s.take (s.length - p.length), by
      have := List.take_append_drop (s.length - p.length) s
      rw [h.2] at this; exact this.symm⟩
  · rintro ⟨r, rfl⟩; simp

theorem isInfix_iff (pat s : Str) : isInfix pat s = true ↔ ∃ a b, s = a ++ pat ++ b := by
  induction s with
  | nil =>
    simp only [isInfix, List.isEmpty_iff]
    constructor
    · rintro rfl; exact ⟨[], [], rfl⟩
    · rintro ⟨a, b, h⟩
      have := congrArg List.length h
      simp at this
      exact List.eq_nil_of_length_eq_zero (by omega)
  | cons c cs ih =>
    simp only [isInfix, Bool.or_eq_true, ih]
    constructor
    · rintro (h | ⟨a, b, h⟩)
      · obtain ⟨r, hr⟩ := (startswith_iff (c :: cs) pat).mp h
        exact ⟨[], r, by simpa using hr⟩
      · exact ⟨c :: a, b, by simp [h]⟩
    · rintro ⟨a, b, h⟩
      cases a with
      | nil => left; exact (startswith_iff (c :: cs) pat).mpr ⟨b, by simpa using h⟩
      | cons x a =>
        right
        simp only [List.cons_append, List.cons.injEq] at h
        exact ⟨a, b, by simpa using h.2⟩

theorem findFrom_range (pat s : Str) (k : Nat) : findFrom pat s k = -1 ∨ (k : Int) ≤ findFrom pat s k := by
  induction s generalizing k with
  | nil => simp only [findFrom]; split <;> simp
  | cons c cs ih =>
    simp only [findFrom]; split
    · right; exact Int.le_refl _
    · rcases ih (k + 1) with h | h
      · left; exact h
      · right; omega

/-- `find` is negative exactly when there is no occurrence -/
theorem find_neg_iff (s pat : Str) : find s pat < 0 ↔ isInfix pat s = false := by
  unfold find
  suffices ∀ k : Nat, findFrom pat s k < 0 ↔ isInfix pat s = false from this 0
  induction s with
  | nil => intro k; simp only [findFrom, isInfix]; split <;> simp_all <;> omega
  | cons c cs ih =>
    intro k
    simp only [findFrom, isInfix]
    split
    · rename_i h; simp [h] <;> omega
    · rename_i h; simp [h, ih (k + 1)]

/-- `find` is 0 exactly when the string starts with the pattern -/
theorem find_zero_iff (s pat : Str) : find s pat = 0 ↔ startswith s pat = true := by
  unfold find startswith
  cases s with
  | nil =>
    simp only [findFrom, startsWith]
    cases pat <;> simp
  | cons c cs =>
    simp only [findFrom]
    split
    · rename_i h; simp [h]
    · rename_i h
      constructor
      · intro e; rcases findFrom_range pat cs (0 + 1) with h' | h' <;> omega
      · intro e; exact absurd e h

theorem replace_single (s : Str) (c : Char) (rep : Str) : replace s [c] rep = replace1 s c rep := rfl

theorem replace1_nil (c : Char) (rep : Str) : replace1 [] c rep = [] := rfl
theorem replace1_cons (d : Char) (s : Str) (c : Char) (rep : Str) :
    replace1 (d :: s) c rep = (if d == c then rep else [d]) ++ replace1 s c rep := by
  simp [replace1]
theorem replace1_append (a b : Str) (c : Char) (rep : Str) :
    replace1 (a ++ b) c rep = replace1 a c rep ++ replace1 b c rep := by
  simp [replace1]

theorem chars_any (s : Str) (p : Str → Bool) : (chars s).any p = s.any (fun c => p [c]) := by
  simp [chars, List.any_map, Function.comp_def]

theorem inChars_single (c : Char) (set : List Char) : inChars [c] set = set.contains c := rfl

theorem sliceFrom_one {α : Type} (x : α) (l : List α) : sliceFrom (x :: l) 1 = l := by
  simp [sliceFrom]
theorem sliceFrom_nonneg {α : Type} (l : List α) (k : Nat) : sliceFrom l (k : Int) = l.drop k := by
  simp [sliceFrom]
theorem index_zero_cons (c : Char) (s : Str) : index (c :: s) 0 = [c] := by
  simp [index, sliceFrom]
theorem index_zero_nil : index [] 0 = [] := by
  simp [index, sliceFrom]

/-! ### dynamically typed values, numbers, raising (converters' decision logic)

A Python object is a `PVal` (Phil/Conv.lean): `None`, `Auto`, a `bool`, a number (`PNum`: `int` | finite `float` as an
exact ratio | `inf` | `-inf` | `nan`), a `str`, a list.  A function that may raise returns `R α = Except Err α`;
`raise RuntimeError(msg)` is `.error (.runtime site line)` with the harness's SITE name of the message and the line
of `words[0].where_str()` if the message ends with it; a failed `assert` is `.error (.stray "AssertionError" f)`. -/

def isNone : PVal → Bool | .none => true | _ => false
def isAuto : PVal → Bool | .auto => true | _ => false
/-- `isinstance(x, int)` (a `bool` is an `int`) -/
def isinstance_int : PVal → Bool | .num (.int _) => true | .bool _ => true | _ => false
/-- `isinstance(x, float)` -/
def isinstance_float : PVal → Bool
  | .num (.int _) => false | .num _ => true | _ => false
/-- `math.isfinite(x)`; a ratio with denominator 0 is not a number of the domain -/
def isfinite : PVal → Bool
  | .num (.int _) => true | .num (.flt _ d) => d != 0 | .bool _ => true | _ => false
/-- round-half-even of `n / d` (`d > 0`) -/
def roundRatio (n : Int) (d : Nat) : Int :=
  let q := n / (d : Int)
  let r := n % (d : Int)
  if 2 * r < d then q else if 2 * r > d then q + 1 else if q % 2 == 0 then q else q + 1
/-- `round(x)` (one argument: an `int`, ties to even); non-finite / non-numbers raise in Python, unchanged here -/
def round : PVal → PVal
  | .num (.flt n d) => .num (.int (roundRatio n d))
  | .bool b => .num (.int (if b then 1 else 0))
  | v => v
/-- `int(x)`: truncation toward zero -/
def int : PVal → PVal
  | .num (.flt n d) => .num (.int (Int.tdiv n (d : Int)))
  | .bool b => .num (.int (if b then 1 else 0))
  | v => v
/-- the number a value compares as (`True` is 1) -/
def numOf : PVal → Option PNum
  | .num n => some n | .bool b => some (.int (if b then 1 else 0)) | _ => Option.none
/-- `a == b` on numbers: exact (cross-multiplied), `nan` equals nothing; other objects: never (outside the subset) -/
def numEq : PNum → PNum → Bool
  | .int a, .int b => a == b
  | .int a, .flt n d => a * (d : Int) == n
  | .flt n d, .int a => a * (d : Int) == n
  | .flt n d, .flt m e => n * (e : Int) == m * (d : Int)
  | .inf, .inf => true | .ninf, .ninf => true
  | _, _ => false
def veq (a b : PVal) : Bool :=
  match numOf a, numOf b with
  | some x, some y => numEq x y
  | _, _ => false
/-- `a >= b`, `a <= b` on numbers (exact mixed comparison, anything with `nan` is False: `pyLe` of Phil/Conv.lean);
    a non-number operand raises TypeError in Python — outside the subset, False here -/
def ge (a b : PVal) : Bool :=
  match numOf a, numOf b with
  | some x, some y => pyLe y x
  | _, _ => false
def le (a b : PVal) : Bool :=
  match numOf a, numOf b with
  | some x, some y => pyLe x y
  | _, _ => false
/-- a `None`-able number attribute as an object -/
def ofOptNum : Option PNum → PVal | some n => .num n | Option.none => .none
/-- a `None`-able int attribute where it is used as a number (guarded by `is not None`) -/
def getInt (o : Option Int) : Int := o.getD 0
/-- `float(x)` of an int: exact up to 2^53; beyond, CPython rounds or raises OverflowError — outside the modelled
    domain (`.unsupported`, propagated, not caught) -/
def float : PVal → R PVal
  | .num (.int i) => if i.natAbs ≤ 9007199254740992 then .ok (.num (.flt i 1)) else .error (.unsupported "float(int) beyond 2^53")
  | .bool b => .ok (.num (.flt (if b then 1 else 0) 1))
  | v => .ok v
/-- `except Cls:` catches the stray exceptions of that class only -/
def isExc (e : Err) (cls : String) : Bool := match e with | .stray c _ => c == cls | _ => false
/-- `converters.str_from_words(words)` as an object: `None` | `Auto` | the joined text -/
def str_from_words (ws : List Word) : PVal :=
  match strFromWords ws with
  | .none => .none | .auto => .auto | .str s => .str s | _ => .none
/-- the text of a `str` object -/
def strOf : PVal → Str | .str s => s | _ => []
/-- truth value of an object -/
def vtruthy : PVal → Bool
  | .none => false | .auto => true | .bool b => b | .num (.int i) => i != 0 | .num (.flt n _) => n != 0
  | .num _ => true | .str s => !s.isEmpty | .list l => !l.isEmpty | _ => true
/-- `len(x)` / `for v in x` of a list object -/
def vlen : PVal → Int | .list l => (l.length : Int) | _ => 0
def items : PVal → List PVal | .list l => l | _ => []
/-- line of `words[0].where_str()`; `words` never empty where the code evaluates it -/
def where_ (ws : List Word) : Option Nat := firstLine ws
/-- the local `where_str()` helper: `""` if `words is None` else `words[0].where_str()` -/
def where_opt : Option (List Word) → Option Nat | some ws => firstLine ws | Option.none => Option.none

/-! ### third batch: parent chains, printer decisions -/

/-- `sep.join(l)` for a list of strings -/
def join (sep : Str) (l : List Str) : Str := joinWith sep l
/-- `s * n` (a non-positive `n` gives `""`) -/
def repeat_ (s : Str) (n : Int) : Str := (List.replicate n.toNat s).flatten
/-- an attribute value (`None` | `Auto` | str | bool | int | a converter object): `value is None` -/
def attrIsNone : AttrVal → Bool | .none => true | _ => false
/-- truth value of an attribute value (`Auto` and converter objects are true) -/
def attrTruthy : AttrVal → Bool
  | .none => false | .auto => true | .str s => !s.isEmpty | .bool b => b | .int i => i != 0 | .conv _ => true

end Phil.Py
