/-
  Phil.Include — model of include processing (common.py: parse(file_name=…, process_includes=True),
  scope.process_includes) over an abstract file system: absolute, normalised paths are lists of
  components; `os.path.join/abspath/normpath/dirname` are modelled on such lists (no symlinks).
  `include scope <python path> [<phil path>]`: the Python import is a parameter (`IncEnv.imports`: import path ↦ the
  text of the imported scope — a phil string, or the text a scope object / the scope returned by a callable was parsed
  from); a failing import, a `$` in the selection and an imported non-scope are outside the model (`unsupported`).
  The imported scope's own includes are processed first (relative file names against the current directory,
  `reference_directory=None`), then the optional sub-path is selected with `get`.
-/
import Phil.Parse
import Phil.Fetch
namespace Phil

abbrev Path := List Str                         -- absolute path, components root-first
abbrev FS := List (Path × Str)                  -- file contents

def FS.read (fs : FS) (p : Path) : Option Str := (fs.find? (·.1 == p)).map (·.2)

/-- normpath on components: drop "." and "", ".." pops -/
def normComponents : List Str → Path → Path
  | [], acc => acc
  | c :: cs, acc =>
    if c.isEmpty || c == ['.'] then normComponents cs acc
    else if c == ['.', '.'] then normComponents cs acc.dropLast
    else normComponents cs (acc ++ [c])

/-- `normpath(abspath(join(refdir, name)))`: a name starting with '/' is absolute -/
def resolvePath (refdir : Path) (name : Str) : Path :=
  let comps := splitOn '/' name
  if name.take 1 == ['/'] then normComponents comps [] else normComponents comps refdir

def containsDollar (ws : List Word) : Bool := ws.any (fun w => w.value.contains '$' && w.quote != some .s1)

/-- everything `parse(file_name=…, process_includes=True)` reads from outside -/
structure IncEnv where
  fs : FS
  imports : List (Str × Str) := []      -- python import path ↦ text of the imported scope
  cwd : Path := []

def IncEnv.imported (env : IncEnv) (p : Str) : Option Str := (env.imports.find? (·.1 == p)).map (·.2)

/-- a `$` anywhere in a selection: `get` would substitute variables (outside the model) -/
def anyDollar : Nat → Obj → Bool
  | 0, _ => true
  | _ + 1, .defn _ ws => containsDollar ws
  | f + 1, .scope _ kids => kids.any (anyDollar f)

/-- `scope.get(path)` on the root scope holding `objs` (selection part of process_include_scope) -/
def selectPath (objs : List Obj) (path : Str) : List Obj :=
  let root : Obj := .scope { name := [] } objs
  getWithoutSubst (depthObj 1000 root + 2) root path

mutual
/-- parse(file_name=path, process_includes=True, include_stack=stack) → the root's objects.
    `fuel` bounds the include depth (≤ number of files, see `expand_fuel_adequate`). -/
def expandFile (env : IncEnv) : Nat → Path → List Path → R (List Obj)
  | 0, _, _ => .error .outOfFuel
  | fuel + 1, path, stack =>
    match env.fs.read path with
    | none => .error (.stray "FileNotFoundError" "open")
    | some text =>
      match parseObjs text with
      | .error e => .error e
      | .ok objs =>
        if stack.contains path then .error (.runtime "include_cycle" none)
        else processIncludes env fuel path.dropLast (stack ++ [path]) objs

/-- scope.process_includes on a list of objects -/
def processIncludes (env : IncEnv) : Nat → Path → List Path → List Obj → R (List Obj)
  | _, _, _, [] => .ok []
  | fuel, refdir, stack, o :: rest =>
    let here : R (List Obj) :=
      if o.meta.disabled then .ok [o] else
      match o with
      | .defn m ws =>
        if m.name != "include".toList then .ok [o]
        else if containsDollar ws then .error (.unsupported "variable in include")
        else if ws.length < 2 then .error (.runtime "include_two_arguments" m.line)
        else
          let ty := lower (ws.headD default).value
          if ty == "file".toList then
            if ws.length != 2 then .error (.runtime "include_file_one_argument" m.line)
            else
              match fuel with
              | 0 => .error .outOfFuel
              | f + 1 => expandFile env (f + 1) (resolvePath refdir (ws.getD 1 default).value) stack
          else if ty == "scope".toList then
            if ws.length > 3 then .error (.runtime "include_scope_arguments" m.line)
            else
              match env.imported (ws.getD 1 default).value with
              | none => .error (.unsupported "python import")
              | some text =>
                match parseObjs text with
                | .error e => .error e
                | .ok src =>
                  match fuel with
                  | 0 => .error .outOfFuel
                  | f + 1 =>
                    match processIncludes env f env.cwd stack src with
                    | .error e => .error e
                    | .ok expanded =>
                      if ws.length == 2 then .ok expanded
                      else
                        let sel := selectPath expanded (ws.getD 2 default).value
                        if sel.isEmpty then .error (.runtime "include_scope_not_found" m.line)
                        else if sel.any (anyDollar 1000) then .error (.unsupported "variable in included selection")
                        else .ok sel
          else .error (.runtime "unknown_include_type" m.line)
      | .scope m kids =>
        (processIncludes env fuel refdir stack kids).map (fun ks => [Obj.scope { m with tmpl := 0 } ks])
    match here with
    | .error e => .error e
    | .ok l => (processIncludes env fuel refdir stack rest).map (fun r => l ++ r)
end

/-- parse(file_name=root, process_includes=True).  Fuel: the include stack holds distinct files, and between two
    file pushes a chain can hop through at most `imports.length` imported scopes (when imported scopes refer only to
    scopes of lower rank; otherwise Python itself recurses without bound) -/
def expand (env : IncEnv) (root : Path) : R (List Obj) :=
  expandFile env ((env.fs.length + 1) * (env.imports.length + 1) + 1) root []

end Phil
