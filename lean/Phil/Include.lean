/-
  Phil.Include — model of include processing (common.py: parse(file_name=…, process_includes=True),
  scope.process_includes) over an abstract file system: absolute, normalised paths are lists of
  components; `os.path.join/abspath/normpath/dirname` are modelled on such lists (no symlinks).
  `include scope` (Python import) is outside the model.
-/
import Phil.Parse
namespace Phil

abbrev Path := List Str                         -- absolute path, components root-first
abbrev FS := List (Path × Str)                  -- file contents

def FS.read (fs : FS) (p : Path) : Option Str := (fs.find? (·.1 == p)).map (·.2)

/-- normpath on components: drop "." and "", ".." pops -/
def normComponents : List Str → Path → Path
  | [], acc => acc
  | c :: cs, acc =>
    if c.isEmpty || c == ['.'] then normComponents cs acc
    else if c == ['.', '.'] then normComponents cs acc.dropLast
    else normComponents cs (acc ++ [c])

/-- `normpath(abspath(join(refdir, name)))`: a name starting with '/' is absolute -/
def resolvePath (refdir : Path) (name : Str) : Path :=
  let comps := splitOn '/' name
  if name.take 1 == ['/'] then normComponents comps [] else normComponents comps refdir

def containsDollar (ws : List Word) : Bool := ws.any (fun w => w.value.contains '$' && w.quote != some .s1)

mutual
/-- parse(file_name=path, process_includes=True, include_stack=stack) → the root's objects.
    `fuel` bounds the include depth (≤ number of files, see `expand_fuel_adequate`). -/
def expandFile (fs : FS) : Nat → Path → List Path → R (List Obj)
  | 0, _, _ => .error .outOfFuel
  | fuel + 1, path, stack =>
    match fs.read path with
    | none => .error (.stray "FileNotFoundError" "open")
    | some text =>
      match parseObjs text with
      | .error e => .error e
      | .ok objs =>
        if stack.contains path then .error (.runtime "include_cycle" none)
        else processIncludes fs fuel path.dropLast (stack ++ [path]) objs

/-- scope.process_includes on a list of objects -/
def processIncludes (fs : FS) : Nat → Path → List Path → List Obj → R (List Obj)
  | _, _, _, [] => .ok []
  | fuel, refdir, stack, o :: rest =>
    let here : R (List Obj) :=
      if o.meta.disabled then .ok [o] else
      match o with
      | .defn m ws =>
        if m.name != "include".toList then .ok [o]
        else if containsDollar ws then .error (.unsupported "variable in include")
        else if ws.length < 2 then .error (.runtime "include_two_arguments" m.line)
        else
          let ty := lower (ws.headD default).value
          if ty == "file".toList then
            if ws.length != 2 then .error (.runtime "include_file_one_argument" m.line)
            else
              match fuel with
              | 0 => .error .outOfFuel
              | f + 1 => expandFile fs (f + 1) (resolvePath refdir (ws.getD 1 default).value) stack
          else if ty == "scope".toList then .error (.unsupported "include scope")
          else .error (.runtime "unknown_include_type" m.line)
      | .scope m kids =>
        (processIncludes fs fuel refdir stack kids).map (fun ks => [Obj.scope { m with tmpl := 0 } ks])
    match here with
    | .error e => .error e
    | .ok l => (processIncludes fs fuel refdir stack rest).map (fun r => l ++ r)
end

/-- parse(file_name=root, process_includes=True) -/
def expand (fs : FS) (root : Path) : R (List Obj) := expandFile fs (fs.length + 1) root []

end Phil
