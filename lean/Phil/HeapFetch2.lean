/-
  Phil.HeapFetch2 — `scope.fetch` (non-diff) on the object-identity model of Phil/Heap.lean: what the call
  ALLOCATES, WRITES and SHARES.

  Model of: src/freephil/common.py — `scope.fetch` (diff=False, skip_incompatible_objects=False),
  `definition.fetch` / `fetch_value`, `definition.resolve_variables` (variable-free sources), `copy`,
  `customized_copy`.  Line by line:

    source = self.customized_copy(objects=combined_objects)          -- ONE new scope cell; its child list holds
                                                                        the SOURCES' own objects (old cells)
    for master_object in self.master_active_objects():
      matching_sources = source.get(path, with_substitution=False)   -- reads only (`getWS`: ids instead of objects)
      not .multiple, definition:  for every matching source  master_object.fetch(source=…)      (`fetchValueH`)
                                  none fetched / deprecated default: master_object.copy()        -- new cell
      not .multiple, scope:       master_object.fetch(sources=matching…)                         -- recursion
      .multiple:  master_object.fetch()  (scope: for the master key)                             -- recursion, garbage
                  for every candidate (further master instances, then sources):
                        master_object.fetch(source=candidate)                                    -- recursion / fetchValueH
                  obj = master_object.copy()                                                      -- new cell: the TEMPLATE
                        COPY keeps the master's `objects` list (finding D21)
                  mandatory scope: obj = master_object.fetch(); obj.is_template = 0              -- recursion
                  else obj.is_template = 0 / 1 / -1                                               -- write to the NEW cell
    result = self.customized_copy(objects=result_objects)            -- new cell, children = the new objects

    definition.fetch_value:  source.tmp = True                        -- THE ONLY WRITE TO AN EXISTING CELL
                             source = source.resolve_variables()      -- customized_copy(words=new_words): new cell
                             return self.customized_copy(words=source.words)   -- new cell (or type.fetch → the same)

  `tmp` is not a field of `Meta`: the writes `source.tmp = True` are recorded in the component `HS.tmp` (ids of the
  cells written, in order).  Hence "every existing cell is unchanged up to its `tmp` field" reads: the heap only
  grows (`s'.heap = s.heap ++ ext`) and `HS.tmp` lists definition cells only.

  What is shared with the source (checked on the code): `resolve_variables` always returns a NEW definition whose
  `words` is a NEW list (`new_words`); `self.customized_copy(words=source.words)` takes the word list of that
  temporary copy, not of the original source.  The word objects inside may be the source's (single-quoted words
  are appended as they are); words are immutable values in this model (Phil/Heap.lean, stated assumptions).

  Not allocated here (never stored, invisible to `is`): the objects `extract_format` makes for the `.multiple`
  keys.  Not written here: `obj.is_template = 0` on `obj = master_object.fetch()` (mandatory `.multiple` scope) —
  the cell was made by `customized_copy`, which has just stored that very value.  Decisions (which objects are
  active, which sources match, the `.multiple` keys, the fetched words) are computed by the functions of the pure
  model (Phil/Fetch.lean) on the abstractions of the cells.  Sources with variables (`Meta.varRes ≠ none`) are
  answered `unsupported`.  An error drops the state (the Python call raised: there is no result to talk about).
-/
import Phil.Heap
import Phil.HeapFetch
import Phil.Fetch
namespace Phil.Heap
open Phil

/-- heap and the `tmp = True` writes made so far (cell ids, in order) -/
structure HS where
  heap : Heap
  tmp : List Nat
  deriving Repr

def kidsOf (h : Heap) (x : Nat) : List Nat :=
  match h[x]? with
  | some n => n.kids
  | none => []

/-- the object exists and is not disabled (`active_objects`) -/
def liveB (h : Heap) (x : Nat) : Bool :=
  match h[x]? with
  | some n => !n.meta.disabled
  | none => false

def isDefnAt (h : Heap) (x : Nat) : Bool :=
  match h[x]? with
  | some n => !n.isScope
  | none => false

def nameAt (h : Heap) (x : Nat) : Str :=
  match h[x]? with
  | some n => n.meta.name
  | none => []

/-- `get_without_substitution` on cells: the ids of the objects `Phil.getWithoutSubst` returns -/
def getWS : Nat → Heap → Nat → Str → List Nat
  | 0, _, _, _ => []
  | fuel + 1, h, x, path =>
    match h[x]? with
    | none => []
    | some n =>
      if n.meta.disabled then [] else
      match n with
      | .defn m _ _ => if m.name == path then [x] else []
      | .scope m kids _ =>
        if m.name.isEmpty then
          (if path.isEmpty then kids else (kids.filter (liveB h)).flatMap (fun k => getWS fuel h k path))
        else if m.name == path then [x]
        else if startsWith (m.name ++ ['.']) path then
          let sub := path.drop (m.name.length + 1)
          (kids.filter (liveB h)).flatMap (fun k => getWS fuel h k sub)
        else []

/-- a left fold in the error monad, by structural recursion (so that invariants go by induction on the list) -/
def foldH {α σ : Type} (step : σ → α → R σ) : σ → List α → R σ
  | s, [] => .ok s
  | s, a :: as =>
    match step s a with
    | .error e => .error e
    | .ok s' => foldH step s' as

def objWords : Obj → List Word
  | .defn _ ws => ws
  | .scope _ _ => []

/-- `definition.fetch(source)` (non-diff) = `fetch_value`: marks the source, allocates the resolved copy of the
    source and the result (a `customized_copy` of the master definition with the fetched words) -/
def fetchValueH (mid sid : Nat) (s : HS) : R (HS × Option Nat) :=
  match s.heap[mid]?, s.heap[sid]? with
  | some (.defn mm mws _), some (.defn smeta sws _) =>
    if smeta.varRes.isSome then .error (.unsupported "variable in source (heap model)") else
    match fetchValue (.defn mm mws) (.defn smeta sws) with
    | .error err => .error err
    | .ok r =>
      -- source.tmp = True ; source = source.resolve_variables()
      match customizedCopy s.heap sid none (some sws) none with
      | none => .error .outOfFuel
      | some (h2, _) =>
        match r with
        | none => .ok ({ heap := h2, tmp := s.tmp ++ [sid] }, none)
        | some ro =>
          match customizedCopy h2 mid none (some (objWords ro)) none with
          | none => .error .outOfFuel
          | some (h3, c) => .ok ({ heap := h3, tmp := s.tmp ++ [sid] }, some c)
  | some (.defn _ _ _), some (.scope _ _ _) => .error (.runtime "incompatible" none)
  | _, _ => .error (.unsupported "fetchValueH")

/-- `candidate = master_object.fetch(source=matching_source)` for the master object `mid` -/
def candH (rec : Nat → List Nat → HS → R (HS × Nat)) (mid ms : Nat) (s : HS) : R (HS × Option Nat) :=
  match s.heap[mid]? with
  | some (.defn _ _ _) => fetchValueH mid ms s
  | some (.scope _ _ _) =>
    (match s.heap[ms]? with
     | some (.scope _ sk _) =>
       (match rec mid sk s with
        | .error err => .error err
        | .ok (s1, r) => .ok (s1, some r))
     | some (.defn _ _ _) => .error (.runtime "incompatible" none)
     | none => .error .outOfFuel)
  | none => .error .outOfFuel

/-- `master_object.fetch()` of a `.multiple` scope (rendered for the master key); nothing for a definition -/
def selfFetchH (rec : Nat → List Nat → HS → R (HS × Nat)) (mo : Obj) (mid : Nat) (s : HS) : R (HS × Option Nat) :=
  match mo with
  | .scope _ _ =>
    (match rec mid [] s with
     | .error err => .error err
     | .ok (s1, r) => .ok (s1, some r))
  | .defn _ _ => .ok (s, none)

/-- the bookkeeping of `processed_as_str` / `result_objs` for a candidate `c` with key `cs`: dropped when it equals
    the master's key; replaces an earlier candidate with the same key -/
def bookH (robjs : List (Option Nat)) (processed : List (Str × Int)) (cs masterStr : Str) (c : Nat) :
    List (Option Nat) × List (Str × Int) :=
  if cs == masterStr then (robjs, processed)
  else
    let prev : Option (Str × Int) := processed.find? (fun (p : Str × Int) => p.1 == cs)
    if (match prev with | some p => p.2 == -1 | none => false) then (robjs, processed)
    else
      let robjs : List (Option Nat) := match prev with
        | some p => robjs.zipIdx.map (fun (xi : Option Nat × Nat) => if (xi.2 : Int) == p.2 then none else xi.1)
        | none => robjs
      let processed : List (Str × Int) := processed.filter (fun (p : Str × Int) => p.1 != cs)
      (robjs ++ [some c], processed ++ [(cs, (robjs.length : Int))])

/-- `candidate_as_str = master_object.extract_format(source=candidate).as_str()` and the bookkeeping -/
def ctailH (e : Envs) (fuel : Nat) (mo : Obj) (masterStr : Str) (s2 : HS) (robjs : List (Option Nat))
    (processed : List (Str × Int)) (c : Nat) : R (HS × List (Option Nat) × List (Str × Int)) :=
  match abs s2.heap c with
  | none => .error .outOfFuel
  | some co =>
  match extractFormatStr e (fuel + 64) mo co with
  | .error err => .error err
  | .ok cs => .ok (s2, bookH robjs processed cs masterStr c)

/-- one candidate of a `.multiple` master object `mid` (abstraction `mo`): `master_object.fetch(source=candidate)`,
    its key, the bookkeeping of `processed_as_str` / `result_objs`.  `rec` is `scope.fetch` one level down. -/
def cstepH (e : Envs) (rec : Nat → List Nat → HS → R (HS × Nat)) (fuel : Nat) (mo : Obj) (mid : Nat) (masterStr : Str) :
    (HS × List (Option Nat) × List (Str × Int)) → (Bool × Nat) → R (HS × List (Option Nat) × List (Str × Int)) :=
  fun acc fm =>
    let robjs : List (Option Nat) := acc.2.1
    let processed : List (Str × Int) := acc.2.2
    match candH rec mid fm.2 acc.1 with
    | .error err => .error err
    | .ok (s2, none) => .ok (s2, robjs, processed)
    | .ok (s2, some c) => ctailH e fuel mo masterStr s2 robjs processed c

/-- `path = master_object.name` or `self.name + "." + master_object.name` -/
def pathOf (sm : Meta) (mo : Obj) : Str :=
  if sm.name.isEmpty then mo.name else sm.name ++ '.' :: mo.name

/-- the `.multiple` branch after the master key is known: the candidates (further master instances, then the
    matching sources), the template / default instance, the kept candidates -/
def multiTailH (e : Envs) (rec : Nat → List Nat → HS → R (HS × Nat)) (fuel : Nat) (mk : List Nat) (idx : Nat) (mo : Obj)
    (mid : Nat) (masterStr : Str) (matching : List Nat) (s1 : HS) (out : List Nat) : R (HS × List Nat) :=
  let fromMaster : List Nat :=
    (mk.zipIdx.filter (fun (p : Nat × Nat) => liveB s1.heap p.1 && nameAt s1.heap p.1 == mo.name && p.2 != idx)).map (·.1)
  let cands : List (Bool × Nat) := fromMaster.map (fun x => (true, x)) ++ matching.map (fun x => (false, x))
  match foldH (cstepH e rec fuel mo mid masterStr) (s1, ([] : List (Option Nat)), ([] : List (Str × Int))) cands with
  | .error err => .error err
  | .ok (s2, robjs, processed) =>
    let insts : List Nat := robjs.filterMap (fun (x : Option Nat) => x)
    -- obj = master_object.copy() ; obj.is_template = …
    let t : Int := if (mo.attr "optional").mandatory then 0 else if processed.isEmpty then 1 else -1
    match fetchTemplate s2.heap mid t with
    | none => .error .outOfFuel
    | some (h3, c) =>
      if (mo.attr "optional").mandatory && isDefnAt s2.heap mid == false then
        -- obj = master_object.fetch() ; obj.is_template = 0 (the value the cell already holds)
        (match rec mid [] { s2 with heap := h3 } with
         | .error err => .error err
         | .ok (s4, r) => .ok (s4, out ++ [r] ++ insts))
      else .ok ({ s2 with heap := h3 }, out ++ [c] ++ insts)

/-- the body of the loop `for master_object in self.master_active_objects()`: `sm`, `mk` are name slots and child ids
    of `self`, `src` the temporary source scope, `(idx, mo)` the active master object (position, abstraction) -/
def stepH (e : Envs) (rec : Nat → List Nat → HS → R (HS × Nat)) (fuel : Nat) (sm : Meta) (mk : List Nat) (src : Nat) :
    (HS × List Nat) → (Nat × Obj) → R (HS × List Nat) :=
  fun st io =>
    let s0 : HS := st.1
    let out : List Nat := st.2
    let idx : Nat := io.1
    let mo : Obj := io.2
    match mk[idx]? with
    | none => .error .outOfFuel
    | some mid =>
    let path := pathOf sm mo
    let matching : List Nat := (getWS (fuel + 64) s0.heap src path).filter (liveB s0.heap)
    if !isMultiple mo then
      match s0.heap[mid]? with
      | some (.defn mm _ _) =>
        (match foldH (fun (acc : HS × Option Nat) (ms : Nat) => fetchValueH mid ms acc.1) (s0, (none : Option Nat)) matching with
         | .error err => .error err
         | .ok (s1, some r) => .ok (s1, out ++ [r])
         | .ok (s1, none) =>
           if !(mm.attrs.get "deprecated").truthy then
             -- result_objects.append(master_object.copy())
             match copy s1.heap mid with
             | none => .error .outOfFuel
             | some (h2, c) => .ok ({ s1 with heap := h2 }, out ++ [c])
           else .ok (s1, out))
      | some (.scope _ _ _) =>
        if matching.any (isDefnAt s0.heap) then .error (.runtime "incompatible" none) else
        (match rec mid (matching.flatMap (kidsOf s0.heap)) s0 with
         | .error err => .error err
         | .ok (s1, r) => .ok (s1, out ++ [r]))
      | none => .error .outOfFuel
    else
      -- master_object.fetch() of a scope, for the master key
      match selfFetchH rec mo mid s0 with
      | .error err => .error err
      | .ok (s1, selfId) =>
      let selfObj : R (Obj × List Nat) :=
        match selfId with
        | some r => (match abs s1.heap r with | some o => .ok (o, []) | none => .error .outOfFuel)
        | none => .error .outOfFuel
      match masterKeyOf e fuel mo selfObj with
      | .error err => .error err
      | .ok masterStr =>
        multiTailH e rec fuel mk idx mo mid masterStr matching s1 out

/-- `self.fetch(sources=…)` where `combined` are the ids of the sources' objects; answers the new state and the
    id of the result scope -/
def fetchH (e : Envs) : Nat → Nat → List Nat → HS → R (HS × Nat)
  | 0, _, _, _ => .error .outOfFuel
  | fuel + 1, self, combined, s =>
    match s.heap[self]? with
    | some (.scope sm mk _) =>
      -- source = self.customized_copy(objects=combined_objects)
      match customizedCopy s.heap self none none (some combined) with
      | none => .error .outOfFuel
      | some (h1, src) =>
      match mapOpt (abs h1) mk with
      | none => .error .outOfFuel
      | some mobjs =>
      match masterActiveObjects mobjs with
      | .error err => .error err
      | .ok actives =>
        match foldH (stepH e (fetchH e fuel) fuel sm mk src) ({ s with heap := h1 }, ([] : List Nat)) actives with
        | .error err => .error err
        | .ok (s2, out) =>
          -- result = self.customized_copy(objects=result_objects)
          match fetchResult s2.heap self out with
          | none => .error .outOfFuel
          | some (h3, r) => .ok ({ s2 with heap := h3 }, r)
    | _ => .error (.unsupported "fetchH on a non-scope")

/-- the heap of a master document and its source documents, parse-shaped (Phil.Heap.build): the master root is
    cell 0, every source root follows its predecessor's block -/
def buildSources : Heap → List (List Obj) → Heap × List Nat
  | h, [] => (h, [])
  | h, os :: rest =>
    let b := build (.scope { name := [] } os) none h
    let r := buildSources b.1 rest
    (r.1, b.2 :: r.2)

/-- `master.fetch(sources=…)` on parsed roots, on the heap: the start heap, the final state, the result id -/
def fetchRootH (e : Envs) (master : List Obj) (sources : List (List Obj)) : Heap × R (HS × Nat) :=
  let fuel := (master.foldl (fun a k => Nat.max a (depthObj 1000 k)) 0) + 3
  let h0 := (build (.scope { name := [], id := some 0 } master) none []).1
  let hs := buildSources h0 sources
  (hs.1, fetchH e fuel 0 (hs.2.flatMap (kidsOf hs.1)) { heap := hs.1, tmp := [] })

end Phil.Heap
