/-
  Phil.HeapFetchDiff — `scope.fetch(diff=True)` / `scope.fetch_diff` on the object-identity model of Phil/Heap.lean
  (companion of Phil/HeapFetch2.lean, which models `diff=False`): what the call ALLOCATES, WRITES and SHARES.

  Model of: src/freephil/common.py — `scope.fetch` with `diff=True`, `definition.fetch_diff`.  Differences to the
  non-diff run, line by line:

    definition.fetch_diff:  result = self.fetch_value(source, diff_mode=True)     -- the SAME cells as non-diff
                                                                                     (`fetchValueH`: mark, resolved copy,
                                                                                     result copy)
                            result_as_str == self_as_str  ⇒  result = None         -- a decision (pure model); the
                                                                                     objects `extract_format` makes are
                                                                                     never stored (as in HeapFetch2)
    not .multiple, definition:  nothing appended when no result (no `master_object.copy()`)
    not .multiple, scope:       `if diff and len(result_object.objects) == 0: result_object = None`
    .multiple:  master_as_str = …(source=master_object.fetch())                   -- NON-diff fetch (`recN`), garbage
                candidate = master_object.fetch(source=…, diff=True)              -- diff recursion (`recD`)
                scope candidate with no objects / `None` definition: skipped
                `if diff and from_master: processed_as_str[…] = -1`               -- the `-1` marker: not stored
                no template copy, no default instance (`if not diff:`)

  Hence a diff result contains NO template copy: every object below it is a new cell.
-/
import Phil.HeapFetch2
namespace Phil.Heap
open Phil

/-- `result_as_str == self_as_str` of `definition.fetch_diff` -/
def diffSame (e : Envs) (fuel : Nat) (mo co : Obj) : R Bool :=
  match extractFormatStr e fuel mo co, extractFormatStr e fuel mo mo with
  | .error err, _ => .error err
  | _, .error err => .error err
  | .ok a, .ok b => .ok (a == b)

/-- `definition.fetch_diff(source)`: `fetch_value` (the same cells), then dropped when it renders like the master -/
def fetchDiffValueH (e : Envs) (fuel : Nat) (mid sid : Nat) (s : HS) : R (HS × Option Nat) :=
  match fetchValueH mid sid s with
  | .error err => .error err
  | .ok (s1, ro) =>
    match abs s.heap mid with
    | none => .error .outOfFuel
    | some mo =>
      match (match ro with | some r => abs s1.heap r | none => some mo) with
      | none => .error .outOfFuel
      | some co =>
        match diffSame e fuel mo co with
        | .error err => .error err
        | .ok true => .ok (s1, none)
        | .ok false => .ok (s1, ro)

/-- `candidate = master_object.fetch(source=matching_source, diff=True)`; a scope candidate without objects and a
    `None` definition are skipped (`continue`) -/
def candDiffH (e : Envs) (fuel : Nat) (recD : Nat → List Nat → HS → R (HS × Nat)) (mid ms : Nat) (s : HS) :
    R (HS × Option Nat) :=
  match s.heap[mid]? with
  | some (.defn _ _ _) => fetchDiffValueH e fuel mid ms s
  | some (.scope _ _ _) =>
    (match s.heap[ms]? with
     | some (.scope _ sk _) =>
       (match recD mid sk s with
        | .error err => .error err
        | .ok (s1, r) => if (kidsOf s1.heap r).isEmpty then .ok (s1, none) else .ok (s1, some r))
     | some (.defn _ _ _) => .error (.runtime "incompatible" none)
     | none => .error .outOfFuel)
  | none => .error .outOfFuel

/-- the bookkeeping in diff mode: a candidate coming from a further MASTER instance only leaves the marker `-1` -/
def bookDiffH (fromM : Bool) (robjs : List (Option Nat)) (processed : List (Str × Int)) (cs masterStr : Str) (c : Nat) :
    List (Option Nat) × List (Str × Int) :=
  if !fromM then bookH robjs processed cs masterStr c
  else if cs == masterStr then (robjs, processed)
  else
    let prev : Option (Str × Int) := processed.find? (fun (p : Str × Int) => p.1 == cs)
    if (match prev with | some p => p.2 == -1 | none => false) then (robjs, processed)
    else
      let robjs : List (Option Nat) := match prev with
        | some p => robjs.zipIdx.map (fun (xi : Option Nat × Nat) => if (xi.2 : Int) == p.2 then none else xi.1)
        | none => robjs
      let processed : List (Str × Int) := processed.filter (fun (p : Str × Int) => p.1 != cs)
      (robjs, processed ++ [(cs, -1)])

def ctailDiffH (e : Envs) (fuel : Nat) (mo : Obj) (masterStr : Str) (fromM : Bool) (s2 : HS) (robjs : List (Option Nat))
    (processed : List (Str × Int)) (c : Nat) : R (HS × List (Option Nat) × List (Str × Int)) :=
  match abs s2.heap c with
  | none => .error .outOfFuel
  | some co =>
  match extractFormatStr e (fuel + 64) mo co with
  | .error err => .error err
  | .ok cs => .ok (s2, bookDiffH fromM robjs processed cs masterStr c)

def cstepDiffH (e : Envs) (recD : Nat → List Nat → HS → R (HS × Nat)) (fuel : Nat) (mo : Obj) (mid : Nat) (masterStr : Str) :
    (HS × List (Option Nat) × List (Str × Int)) → (Bool × Nat) → R (HS × List (Option Nat) × List (Str × Int)) :=
  fun acc fm =>
    match candDiffH e fuel recD mid fm.2 acc.1 with
    | .error err => .error err
    | .ok (s2, none) => .ok (s2, acc.2.1, acc.2.2)
    | .ok (s2, some c) => ctailDiffH e fuel mo masterStr fm.1 s2 acc.2.1 acc.2.2 c

/-- the `.multiple` branch in diff mode after the master key is known: no template, the kept candidates only -/
def multiTailDiffH (e : Envs) (recD : Nat → List Nat → HS → R (HS × Nat)) (fuel : Nat) (mk : List Nat) (idx : Nat) (mo : Obj)
    (mid : Nat) (masterStr : Str) (matching : List Nat) (s1 : HS) (out : List Nat) : R (HS × List Nat) :=
  let fromMaster : List Nat :=
    (mk.zipIdx.filter (fun (p : Nat × Nat) => liveB s1.heap p.1 && nameAt s1.heap p.1 == mo.name && p.2 != idx)).map (·.1)
  let cands : List (Bool × Nat) := fromMaster.map (fun x => (true, x)) ++ matching.map (fun x => (false, x))
  match foldH (cstepDiffH e recD fuel mo mid masterStr) (s1, ([] : List (Option Nat)), ([] : List (Str × Int))) cands with
  | .error err => .error err
  | .ok (s2, robjs, _) => .ok (s2, out ++ robjs.filterMap (fun (x : Option Nat) => x))

/-- the body of the loop over the active master objects, `diff=True`; `recN` is the non-diff `scope.fetch` one level
    down (for the master key), `recD` the diff one -/
def stepDiffH (e : Envs) (recN recD : Nat → List Nat → HS → R (HS × Nat)) (fuel : Nat) (sm : Meta) (mk : List Nat) (src : Nat) :
    (HS × List Nat) → (Nat × Obj) → R (HS × List Nat) :=
  fun st io =>
    let s0 : HS := st.1
    let out : List Nat := st.2
    let idx : Nat := io.1
    let mo : Obj := io.2
    match mk[idx]? with
    | none => .error .outOfFuel
    | some mid =>
    let path := pathOf sm mo
    let matching : List Nat := (getWS (fuel + 64) s0.heap src path).filter (liveB s0.heap)
    if !isMultiple mo then
      match s0.heap[mid]? with
      | some (.defn _ _ _) =>
        (match foldH (fun (acc : HS × Option Nat) (ms : Nat) => fetchDiffValueH e fuel mid ms acc.1) (s0, (none : Option Nat)) matching with
         | .error err => .error err
         | .ok (s1, some r) => .ok (s1, out ++ [r])
         | .ok (s1, none) => .ok (s1, out))
      | some (.scope _ _ _) =>
        if matching.any (isDefnAt s0.heap) then .error (.runtime "incompatible" none) else
        (match recD mid (matching.flatMap (kidsOf s0.heap)) s0 with
         | .error err => .error err
         | .ok (s1, r) => if (kidsOf s1.heap r).isEmpty then .ok (s1, out) else .ok (s1, out ++ [r]))
      | none => .error .outOfFuel
    else
      match selfFetchH recN mo mid s0 with
      | .error err => .error err
      | .ok (s1, selfId) =>
      let selfObj : R (Obj × List Nat) :=
        match selfId with
        | some r => (match abs s1.heap r with | some o => .ok (o, []) | none => .error .outOfFuel)
        | none => .error .outOfFuel
      match masterKeyOf e fuel mo selfObj with
      | .error err => .error err
      | .ok masterStr =>
        multiTailDiffH e recD fuel mk idx mo mid masterStr matching s1 out

/-- `self.fetch(sources=…, diff=True)` where `combined` are the ids of the sources' objects -/
def fetchDiffH (e : Envs) : Nat → Nat → List Nat → HS → R (HS × Nat)
  | 0, _, _, _ => .error .outOfFuel
  | fuel + 1, self, combined, s =>
    match s.heap[self]? with
    | some (.scope sm mk _) =>
      match customizedCopy s.heap self none none (some combined) with
      | none => .error .outOfFuel
      | some (h1, src) =>
      match mapOpt (abs h1) mk with
      | none => .error .outOfFuel
      | some mobjs =>
      match masterActiveObjects mobjs with
      | .error err => .error err
      | .ok actives =>
        match foldH (stepDiffH e (fetchH e fuel) (fetchDiffH e fuel) fuel sm mk src) ({ s with heap := h1 }, ([] : List Nat)) actives with
        | .error err => .error err
        | .ok (s2, out) =>
          match fetchResult s2.heap self out with
          | none => .error .outOfFuel
          | some (h3, r) => .ok ({ s2 with heap := h3 }, r)
    | _ => .error (.unsupported "fetchDiffH on a non-scope")

/-- `master.fetch_diff(sources=…)` on parsed roots, on the heap -/
def fetchDiffRootH (e : Envs) (master : List Obj) (sources : List (List Obj)) : Heap × R (HS × Nat) :=
  let fuel := (master.foldl (fun a k => Nat.max a (depthObj 1000 k)) 0) + 3
  let h0 := (build (.scope { name := [], id := some 0 } master) none []).1
  let hs := buildSources h0 sources
  (hs.1, fetchDiffH e fuel 0 (hs.2.flatMap (kidsOf hs.1)) { heap := hs.1, tmp := [] })

end Phil.Heap
