/-
  Phil.Show — model of definition.show, scope.show, show_attributes (common.py) and of the part of
  textwrap.wrap they use (break_long_words=False, break_on_hyphens=False, tab-free text).
-/
import Phil.Parse
namespace Phil

/-- textwrap's whitespace set `'\t\n\x0b\x0c\r '` -/
def isTwWs (c : Char) : Bool :=
  c == ' ' || c == '\t' || c == '\n' || c == '\x0b' || c == '\x0c' || c == '\r'

/-- split into maximal runs of whitespace / non-whitespace (after replace_whitespace) -/
def twChunks : Str → List Str
  | [] => []
  | c :: cs =>
    let c' := if isTwWs c then ' ' else c
    match twChunks cs with
    | [] => [[c']]
    | (d :: ds) :: more => if (d == ' ') == (c' == ' ') then (c' :: d :: ds) :: more else [c'] :: (d :: ds) :: more
    | [] :: more => [c'] :: more

def isWsChunk (s : Str) : Bool := s.all (· == ' ')

/-- fill one line: take chunks while they fit -/
def twFill (width : Nat) : List Str → Nat → List Str → List Str × List Str
  | [], _, cur => (cur.reverse, [])
  | ch :: rest, curLen, cur =>
    if curLen + ch.length ≤ width then twFill width rest (curLen + ch.length) (ch :: cur)
    else (cur.reverse, ch :: rest)

/-- TextWrapper._wrap_chunks with drop_whitespace=True, break_long_words=False -/
def twWrapChunks (width : Nat) : Nat → List Str → List Str → List Str
  | 0, _, lines => lines.reverse
  | _, [], lines => lines.reverse
  | fuel + 1, chunks, lines =>
    let chunks := match chunks with
      | ch :: rest => if isWsChunk ch && !lines.isEmpty then rest else chunks
      | [] => chunks
    let (cur, rest) := twFill width chunks 0 []
    -- a chunk longer than the width goes on a line of its own
    let (cur, rest) := match rest with
      | ch :: rest' => if ch.length > width && cur.isEmpty then ([ch], rest') else (cur, rest)
      | [] => (cur, rest)
    let cur := match cur.reverse with
      | last :: initRev => if isWsChunk last then initRev.reverse else cur
      | [] => cur
    let lines := if cur.isEmpty then lines else (cur.foldr (· ++ ·) []) :: lines
    twWrapChunks width fuel rest lines

/-- `textwrap.wrap(text, width, break_long_words=False, break_on_hyphens=False)` for tab-free text -/
def twWrap (text : Str) (width : Nat) : List Str :=
  let chunks := twChunks text
  twWrapChunks width (chunks.length + 1) chunks []

def AttrVal.isNone : AttrVal → Bool
  | .none => true
  | _ => false

/-- Python truthiness of an attribute value -/
def AttrVal.truthy : AttrVal → Bool
  | .none => false
  | .auto => true
  | .str s => !s.isEmpty
  | .bool b => b
  | .int i => i != 0
  | .conv _ => true

/-- `print(..., value)` for a non-string attribute value -/
def AttrVal.pyStr : AttrVal → Str
  | .none => "None".toList
  | .auto => "Auto".toList
  | .str s => s
  | .bool b => if b then "True".toList else "False".toList
  | .int i => intStr i
  | .conv c => c.render

def spaces (n : Nat) : Str := List.replicate n ' '

/-- show_attributes: the printed lines -/
def showAttributes (names : List String) (attrs : Attrs) (prefix_ : Str) (level : Int) (width : Int) :
    R (List Str) :=
  if level ≤ 0 then .ok [] else
  names.foldlM (init := []) fun (out : List Str) name =>
    let value := attrs.get name
    if name == "deprecated" && !value.truthy then .ok out
    else if (name == "help" && !value.isNone) || (name == "alias" && !value.isNone) ||
            (!value.isNone && level > 1) || level > 2 then
      if name == "alias" && value.isNone then .ok out
      else
        let head := prefix_ ++ "  .".toList ++ name.toList ++ " = ".toList
        match value with
        | .str v =>
          let indent := prefix_ ++ spaces (3 + name.length + 3)
          let fits (s : Str) : Bool := decide (((indent ++ s).length : Int) < width)
          let needQuote := !isStdIdent v || lower v == "none".toList || lower v == "auto".toList || !fits v
          let v' := if needQuote then quoteStr .d1 v else v
          if fits v' then .ok (out ++ [head ++ v'])
          else
            let w : Int := width - 2 - indent.length
            if w ≤ 0 then .error (.stray "ValueError" "textwrap_width")
            else if v'.contains '\t' then .error (.unsupported "tab in wrapped attribute")
            else
              let inner := (v'.drop 1).take (v'.length - 2)
              let blocks := twWrap inner w.toNat
              let lines := blocks.zipIdx.map fun (b, i) =>
                if i == 0 then head ++ '"' :: b ++ ['"'] else indent ++ '"' :: b ++ ['"']
              .ok (out ++ lines)
        | v => .ok (out ++ [head ++ v.pyStr])
    else .ok out

/-- the expert-level gate shared by definition.show and scope.show; `none` = shown -/
def expertHidden (own : AttrVal) (k : Option Int) : R Bool :=
  match own, k with
  | .none, _ => .ok false
  | _, none => .ok false
  | .int e, some k => .ok (decide (k ≥ 0) && decide (e > k))
  | _, some k => if k ≥ 0 then .error (.stray "TypeError" "expert_level_compare") else .ok false

structure ShowOpts where
  expert : Option Int := none
  level : Int := 0
  width : Int := Gen.defaultPrintWidth
  deriving Repr

/-- the value lines of definition.show -/
def showWords (width : Int) (indent : Str) : List Word → Str → List Str → List Str
  | [], line, out => out ++ [line]
  | w :: ws, line, out =>
    let linePlus := line ++ ' ' :: w.str
    if decide ((linePlus.length : Int) > width - 2) && decide (line.length > indent.length) then
      showWords width indent ws (indent ++ ' ' :: w.str) (out ++ [line ++ " \\".toList])
    else showWords width indent ws linePlus out

def showDefn (o : ShowOpts) (m : Meta) (words : List Word) (merged : List Str) (prefix_ : Str) :
    R (List Str) :=
  let dep := (m.attrs.get "deprecated").truthy
  if m.tmpl < 0 && o.level < 2 then .ok []
  else if dep && o.level < 3 then .ok []
  else
    match expertHidden (m.attrs.get "expert_level") o.expert with
    | .error e => .error e
    | .ok true => .ok []
    | .ok false =>
      let hash : Str := if m.disabled then ['!'] else []
      let line0 := prefix_ ++ hash ++ joinWith ['.'] (merged ++ [m.name])
      let line := if m.name != "include".toList then line0 ++ " =".toList else line0
      let indent := prefix_ ++ spaces (line.length - prefix_.length)
      let warn := if dep then [prefix_ ++ "# WARNING: deprecated parameter".toList] else []
      let body := showWords o.width indent words line []
      match showAttributes defAttrNames m.attrs prefix_ o.level o.width with
      | .error e => .error e
      | .ok attrs => .ok (warn ++ body ++ attrs)

mutual
/-- definition.show / scope.show → printed lines -/
def showObj (o : ShowOpts) : Obj → List Str → Str → R (List Str)
  | .defn m words, merged, prefix_ => showDefn o m words merged prefix_
  | .scope m objs, merged, prefix_ =>
    if m.tmpl < 0 && o.level < 2 then .ok []
    else
      match expertHidden (m.attrs.get "expert_level") o.expert with
      | .error e => .error e
      | .ok true => .ok []
      | .ok false =>
        if m.name.isEmpty then showObjs o objs merged prefix_
        else
          let firstMerges := match objs with
            | c :: _ => c.meta.mergeNames
            | [] => false
          if firstMerges then showObjs o objs (merged ++ [m.name]) prefix_
          else
            let hash : Str := if m.disabled then ['!'] else []
            match showAttributes scopeAttrNames m.attrs prefix_ o.level o.width with
            | .error e => .error e
            | .ok attrs =>
              let mergedName := joinWith ['.'] (merged ++ [m.name])
              let head := if attrs.isEmpty then [prefix_ ++ hash ++ mergedName ++ " {".toList]
                          else [prefix_ ++ hash ++ mergedName] ++ attrs ++ [prefix_ ++ ['{']]
              match showObjs o objs [] (prefix_ ++ "  ".toList) with
              | .error e => .error e
              | .ok body => .ok (head ++ body ++ [prefix_ ++ ['}']])
def showObjs (o : ShowOpts) : List Obj → List Str → Str → R (List Str)
  | [], _, _ => .ok []
  | x :: xs, merged, prefix_ =>
    match showObj o x merged prefix_ with
    | .error e => .error e
    | .ok l => match showObjs o xs merged prefix_ with
      | .error e => .error e
      | .ok r => .ok (l ++ r)
end

def unlines (ls : List Str) : Str := ls.foldr (fun l acc => l ++ '\n' :: acc) []

/-- scope.as_str -/
def asStr (o : ShowOpts) (root : Obj) (prefix_ : Str := []) : R Str :=
  (showObj o root [] prefix_).map unlines

/-- the root scope `parse` returns for a list of top-level objects -/
def rootOf (objs : List Obj) : Obj := .scope { name := [], id := some 0 } objs

end Phil
