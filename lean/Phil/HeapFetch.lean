/-
  Phil.HeapFetch — the one step of `scope.fetch` (common.py) that creates sharing, on the object-identity
  model of Phil/Heap.lean.

  Model of: the `.multiple` branch of scope.fetch, `if not diff:` —
      obj = master_object.copy()
      obj.is_template = 1      (no instance given)   /   -1   (instances given)   /   0 (mandatory definition)
      result_objects.append(obj)
  and of the last line `result = self.customized_copy(objects=result_objects)`.
  `master_object.fetch(...)` results (instances, non-multiple objects) are built by `customized_copy` of
  fresh lists at every level and are not modelled here.
-/
import Phil.Heap
namespace Phil.Heap

/-- `obj = master_object.copy(); obj.is_template = t` -/
def fetchTemplate (h : Heap) (x : Nat) (t : Int) : Option (Heap × Nat) :=
  match copy h x with
  | none => none
  | some (h1, c) => some (assign h1 c (.slot fun m => { m with tmpl := t }), c)

/-- `result = self.customized_copy(objects = result_objects)` -/
def fetchResult (h : Heap) (self : Nat) (resultObjects : List Nat) : Option (Heap × Nat) :=
  customizedCopy h self none none (some resultObjects)

end Phil.Heap
