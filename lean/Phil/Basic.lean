/-
  Phil.Basic — character classes, words, attribute values and the object tree.
  Model of: src/freephil/tokens.py (identifier classes), tokenizer.word, common.definition / common.scope
  (the data they carry, not their behaviour).  Strings are `List Char`.
-/
import Phil.Generated.Tables
namespace Phil

abbrev Str := List Char

/-- `str.isspace()` for a single character: the exact table of CPython (validated against the
    runtime over all code points by the harness, thorough tier). -/
def isSpace (c : Char) : Bool :=
  let n := c.toNat
  (9 ≤ n && n ≤ 13) || (28 ≤ n && n ≤ 32) || n == 0x85 || n == 0xa0 || n == 0x1680 ||
  (0x2000 ≤ n && n ≤ 0x200a) || n == 0x2028 || n == 0x2029 || n == 0x202f || n == 0x205f ||
  n == 0x3000

def isUpperAscii (c : Char) : Bool := 'A'.toNat ≤ c.toNat && c.toNat ≤ 'Z'.toNat
def isLowerAscii (c : Char) : Bool := 'a'.toNat ≤ c.toNat && c.toNat ≤ 'z'.toNat
def isDigit (c : Char) : Bool := '0'.toNat ≤ c.toNat && c.toNat ≤ '9'.toNat

/-- tokens.standard_identifier_start_characters -/
def isIdStart (c : Char) : Bool := c == '_' || isUpperAscii c || isLowerAscii c
/-- tokens.standard_identifier_continuation_characters -/
def isIdCont (c : Char) : Bool := isIdStart c || c == '.' || isDigit c

/-- ASCII lower-casing; `str.lower()` agrees with it on the modelled domain (ASCII strings). -/
def lowerChar (c : Char) : Char := if isUpperAscii c then Char.ofNat (c.toNat + 32) else c
def lower (s : Str) : Str := s.map lowerChar

/-- `str.split(sep)` for a one-character separator. -/
def splitOn (sep : Char) : Str → List Str
  | [] => [[]]
  | c :: cs =>
    match splitOn sep cs with
    | [] => [[]]            -- unreachable: splitOn never returns []
    | p :: ps => if c == sep then [] :: p :: ps else (c :: p) :: ps

def joinWith (sep : Str) : List Str → Str
  | [] => []
  | [x] => x
  | x :: y :: rest => x ++ sep ++ joinWith sep (y :: rest)

/-- one dot-free component of an identifier -/
def isSimpleIdent (s : Str) : Bool :=
  match s with
  | [] => false
  | c :: cs => isIdStart c && cs.all (fun d => isIdStart d || isDigit d)

/-- tokens.is_standard_identifier -/
def isStdIdent (s : Str) : Bool :=
  match s with
  | [] => false
  | c :: cs =>
    isIdStart c && cs.all isIdCont &&
      (let parts := splitOn '.' s
       parts.length ≤ 1 || parts.all isSimpleIdent)

/-- common.is_reserved_identifier -/
def isReserved (s : Str) : Bool :=
  decide (5 ≤ s.length) && s.take 2 == ['_', '_'] && (s.drop (s.length - 2)) == ['_', '_']

def startsWith (p s : Str) : Bool := s.take p.length == p
def endsWith (p s : Str) : Bool := decide (p.length ≤ s.length) && s.drop (s.length - p.length) == p

inductive Quote | s1 | d1 | s3 | d3
  deriving DecidableEq, Repr, Inhabited

def Quote.char : Quote → Char
  | .s1 | .s3 => '\''
  | .d1 | .d3 => '"'
def Quote.triple : Quote → Bool
  | .s3 | .d3 => true
  | _ => false
def Quote.token (q : Quote) : Str := if q.triple then [q.char, q.char, q.char] else [q.char]
def Quote.mk' (c : Char) (triple : Bool) : Quote :=
  if c == '"' then (if triple then .d3 else .d1) else (if triple then .s3 else .s1)

structure Word where
  value : Str
  quote : Option Quote := none
  line  : Option Nat := none
  deriving DecidableEq, Repr, Inhabited

/-- Outcome classes of the implementation (DESIGN §3): RuntimeError at a named site (with the cited
    line where the message carries one), Sorry, any other exception class (`stray`), and inputs the
    model declares outside its domain (`unsupported`, never compared). -/
inductive Err
  | runtime (site : String) (line : Option Nat)
  | sorry_ (site : String) (payload : List Str)
  | stray (cls : String) (site : String)
  | unsupported (why : String)
  | outOfFuel
  deriving DecidableEq, Repr, Inhabited

abbrev R (α : Type) := Except Err α

/-- A Python number as far as the model follows it: an `int`, or a finite `float` given exactly as
    `num / den` (the harness passes `float.as_integer_ratio()`), or one of the non-finite floats. -/
inductive PNum
  | int (i : Int)
  | flt (num : Int) (den : Nat)
  | inf | ninf | nan
  deriving DecidableEq, Repr, Inhabited

/-- constructor arguments of int/float converters -/
structure NumArgs where
  valueMin : Option PNum := none
  valueMax : Option PNum := none
  allowNone : Bool := true
  deriving DecidableEq, Repr, Inhabited

/-- constructor arguments of ints/floats converters (size already folded into size_min/size_max) -/
structure ListArgs where
  sizeMin : Option Int := none
  sizeMax : Option Int := none
  valueMin : Option PNum := none
  valueMax : Option PNum := none
  allowNoneEl : Bool := false
  allowAutoEl : Bool := false
  deriving DecidableEq, Repr, Inhabited

/-- the built-in converters of `default_converter_registry` -/
inductive Conv
  | words | strings | str | qstr | path | key | bool
  | int (a : NumArgs) | float (a : NumArgs)
  | ints (a : ListArgs) | floats (a : ListArgs)
  | choice (multi : Bool)
  deriving DecidableEq, Repr, Inhabited

/-- value of a scope/definition attribute after `assign_attribute` -/
inductive AttrVal
  | none | auto
  | str (s : Str)
  | bool (b : Bool)
  | int (i : Int)
  | conv (c : Conv)
  deriving DecidableEq, Repr, Inhabited

/-- attributes set on an object, most recent assignment last; unset = `none` -/
abbrev Attrs := List (String × AttrVal)

def Attrs.get (a : Attrs) (name : String) : AttrVal :=
  match a.reverse.find? (fun p => p.1 == name) with
  | some p => p.2
  | Option.none => AttrVal.none

/-- definition.attribute_names / scope.attribute_names — regenerated from src/freephil/common.py -/
def defAttrNames : List String := Gen.defAttrNames
def scopeAttrNames : List String := Gen.scopeAttrNames

/-- result of `definition.resolve_variables()` computed ahead of a fetch (the code resolves lazily,
    when the definition is fetched; the model carries the outcome with the definition and uses it
    at that moment): the resolved words and the ids of the definitions consulted (marked `tmp=True`),
    or the RuntimeError the resolution raises -/
inductive VarRes
  | ok (ws : List Word) (refs : List Nat)
  | err (site : String) (line : Option Nat)
  deriving DecidableEq, Repr, Inhabited

/-- fields common to definitions and scopes -/
structure Meta where
  name : Str
  id : Option Nat := Option.none
  disabled : Bool := false
  line : Option Nat := Option.none      -- where_str
  mergeNames : Bool := false
  tmpl : Int := 0                       -- is_template
  attrs : Attrs := []
  varRes : Option VarRes := Option.none -- see `VarRes`; `none` = words contain no live `$`
  deriving DecidableEq, Repr, Inhabited

inductive Obj
  | defn (m : Meta) (words : List Word)
  | scope (m : Meta) (objs : List Obj)
  deriving Repr, Inhabited

def Obj.meta : Obj → Meta
  | .defn m _ => m
  | .scope m _ => m
def Obj.name (o : Obj) : Str := o.meta.name
def Obj.isDefn : Obj → Bool
  | .defn .. => true
  | _ => false
def Obj.isScope (o : Obj) : Bool := !o.isDefn
def Obj.withMeta (o : Obj) (f : Meta → Meta) : Obj :=
  match o with
  | .defn m w => .defn (f m) w
  | .scope m os => .scope (f m) os
def Obj.attr (o : Obj) (n : String) : AttrVal := o.meta.attrs.get n
def Obj.children : Obj → List Obj
  | .scope _ os => os
  | _ => []

end Phil
