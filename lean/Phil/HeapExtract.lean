/-
  Phil.HeapExtract — extraction on the object-identity model: which objects an extracted value consists
  of (C18, detachment).

  Model of: common.scope.extract, definition.extract, scope_extract.__phil_set__ / __phil_join__ and of
  the converters' `from_words` as far as object identity is concerned: every converter builds its
  result afresh (`strings_from_words`, `numbers_from_words`, the list built by `choice(multi=True)`,
  str / bool / number objects, which are immutable) — EXCEPT `words_converters.from_words`, which ends in
  `return words`: the extracted value IS the definition's `words` list.

  Two steps.  (1) `extractT`: the value tree an extraction builds, read off the PHIL heap — a
  transliteration of scope.extract over heap objects (the functional model Phil.Fetch.extractObj with
  the definition that handed out its word list remembered: `TVal.handout d`).  (2) `reify`: the value
  tree becomes objects of a separate value heap: one new cell per scope_extract, per scope_extract_list
  and per list value; a `handout d` becomes a cell that is an ALIAS of `words` of definition `d`.
  Mutations of value objects act on the value heap, except through an alias, where they act on the
  PHIL heap.
  Stated assumptions: elements of extracted lists are immutable (numbers, strings, None, Auto — true of
  every built-in converter); the extraction result is tree-shaped (no value object is reachable
  twice) — both validated by the identity check of harness/props/C18.py.
-/
import Phil.Heap
import Phil.Fetch
namespace Phil.Heap

/-- the value an extraction builds, with provenance -/
inductive TVal
  | pure (v : PVal)                         -- built afresh by a converter (or immutable)
  | handout (d : Nat) (ws : List Word)      -- `.type = words`: the `words` list of definition `d` itself
  | record (fields : List (Str × TVal))     -- scope_extract
  | multi (optional : AttrVal) (l : List TVal)   -- scope_extract_list
  deriving Repr, Inhabited

inductive XT          -- value handed to __phil_set__
  | disabled
  | val (v : TVal)

def tGet (fs : List (Str × TVal)) (k : Str) : Option TVal := (fs.find? (·.1 == k)).map (·.2)
def tSet (fs : List (Str × TVal)) (k : Str) (v : TVal) : List (Str × TVal) :=
  if fs.any (·.1 == k) then fs.map (fun p => if p.1 == k then (k, v) else p) else fs ++ [(k, v)]

def TVal.isNone : TVal → Bool
  | .pure .none => true
  | _ => false

/-- scope_extract.__phil_join__ (as Phil.Fetch.philJoin) -/
def philJoinT : Nat → List (Str × TVal) → List (Str × TVal) → R (List (Str × TVal))
  | 0, _, _ => .error .outOfFuel
  | fuel + 1, self, other =>
    other.foldlM (init := self) fun (acc : List (Str × TVal)) (kv : Str × TVal) =>
      let (key, ov) := kv
      if isReserved key then .ok acc else
      match tGet acc key with
      | none => .ok (tSet acc key ov)
      | some (.multi opt l) =>
        (match ov with
         | .multi _ l2 =>
           let l' := l ++ l2.filter (fun x => !x.isNone)
           let l'' := match l' with
             | x :: r => if x.isNone && l'.length > 1 then r else l'
             | _ => l'
           .ok (tSet acc key (.multi opt l''))
         | _ => .error (.stray "AssertionError" "phil_join"))
      | some (.record sf) =>
        (match ov with
         | .record of_ => (philJoinT fuel sf of_).map (fun r => tSet acc key (.record r))
         | _ => .error (.stray "AttributeError" "phil_join"))
      | some _ => .ok (tSet acc key ov)

/-- scope_extract.__phil_set__ (as Phil.Fetch.philSet) -/
def philSetT (fs : List (Str × TVal)) (name : Str) (optional : AttrVal) (multiple : Bool) (x : XT) :
    R (List (Str × TVal)) :=
  if !multiple then
    let v := match x with | .disabled => TVal.pure .none | .val v => v
    match tGet fs name, v with
    | some (.record node), .record val =>
      (philJoinT (node.length + val.length + 64) node val).map (fun r => tSet fs name (.record r))
    | _, _ => .ok (tSet fs name v)
  else
    let (fs, node) : List (Str × TVal) × Option TVal := match tGet fs name with
      | none => (tSet fs name (.multi optional []), some (.multi optional []))
      | some n => (fs, some n)
    match node with
    | some (.multi o l) =>
      (match x with
       | .disabled => .ok fs
       | .val v =>
         let optTrue := match optional with | .bool true => true | _ => false
         if !v.isNone || !optTrue then .ok (tSet fs name (.multi o (l ++ [v]))) else .ok fs)
    | _ => (match x with
       | .disabled => .ok fs
       | .val _ => .error (.stray "AttributeError" "phil_set_append"))

/-- definition.extract on the definition object `d`: `from_words` of `.type = words` returns `words` -/
def extractDefnT (e : Envs) (d : Nat) (m : Meta) (ws : List Word) : R TVal :=
  match extractDefn e m ws with
  | .error err => .error err
  | .ok (.words ws') => .ok (.handout d ws')
  | .ok v => .ok (.pure v)

/-- scope.extract / definition.extract on the object `x` of the PHIL heap `ph` -/
def extractT (e : Envs) : Nat → Heap → Nat → R TVal
  | 0, _, _ => .error .outOfFuel
  | fuel + 1, ph, x =>
    match ph[x]? with
    | none => .error (.stray "LookupError" "dangling")
    | some (.defn m ws _) => extractDefnT e x m ws
    | some (.scope _ ks _) =>
      let step : List (Str × TVal) → Nat → R (List (Str × TVal)) := fun fs k =>
        match ph[k]? with
        | none => .error (.stray "LookupError" "dangling")
        | some n =>
          let km := n.meta
          if km.tmpl < 0 then Except.ok fs else
          let xv : R XT :=
            if km.disabled || km.tmpl > 0 then Except.ok XT.disabled
            else (extractT e fuel ph k).map XT.val
          match xv with
          | .error err => Except.error err
          | .ok xv => philSetT fs km.name (km.attrs.get "optional") (km.attrs.get "multiple").truthy xv
      (ks.foldlM step ([] : List (Str × TVal))).map TVal.record

/-! ### the value heap -/

/-- what an attribute or a list element holds -/
inductive VRef
  | atom (v : PVal)        -- an immutable value
  | cell (i : Nat)         -- a mutable value object
  deriving Repr, Inhabited

inductive VCell
  | list (optional : Option AttrVal) (items : List VRef)   -- a Python list / a scope_extract_list
  | record (fields : List (Str × VRef))                    -- a scope_extract
  | wordsOf (d : Nat)          -- not an object of its own: the `words` list of PHIL object `d`
  deriving Repr, Inhabited

abbrev VHeap := List VCell

structure Store where
  phil : Heap
  vals : VHeap

mutual
/-- the objects created for a value tree when the first one gets id `b`: cells (pre-order) and the
    reference to the value -/
def reify : TVal → Nat → List VCell × VRef
  | .pure (.list l), b => ([.list none (l.map VRef.atom)], .cell b)
  | .pure v, _ => ([], .atom v)
  | .handout d _, b => ([.wordsOf d], .cell b)
  | .record fs, b => ((.record (reifyFields fs (b + 1)).2) :: (reifyFields fs (b + 1)).1, .cell b)
  | .multi o l, b => ((.list (some o) (reifyList l (b + 1)).2) :: (reifyList l (b + 1)).1, .cell b)
def reifyFields : List (Str × TVal) → Nat → List VCell × List (Str × VRef)
  | [], _ => ([], [])
  | (k, v) :: rest, b =>
    ((reify v b).1 ++ (reifyFields rest (b + (reify v b).1.length)).1,
     (k, (reify v b).2) :: (reifyFields rest (b + (reify v b).1.length)).2)
def reifyList : List TVal → Nat → List VCell × List VRef
  | [], _ => ([], [])
  | v :: rest, b =>
    ((reify v b).1 ++ (reifyList rest (b + (reify v b).1.length)).1,
     (reify v b).2 :: (reifyList rest (b + (reify v b).1.length)).2)
end

/-- `x.extract()`: the PHIL heap is only read; the value objects are appended to the value heap -/
def extractStore (e : Envs) (fuel : Nat) (s : Store) (x : Nat) : R (Store × VRef) :=
  match extractT e fuel s.phil x with
  | .error err => .error err
  | .ok t => .ok ({ s with vals := s.vals ++ (reify t s.vals.length).1 }, (reify t s.vals.length).2)

/-! ### mutation of extracted values -/

inductive MutOp
  | append (r : VRef)                 -- `v.append(r)`
  | setItem (j : Nat) (r : VRef)      -- `v[j] = r`
  | clear                             -- `del v[:]`
  | setField (k : Str) (r : VRef)     -- `node.k = r` on a scope_extract (also `__inject__`)

def MutOp.onList (items : List VRef) : MutOp → List VRef
  | .append r => items ++ [r]
  | .setItem j r => items.set j r
  | .clear => []
  | .setField _ _ => items

/-- what a reference looks like when it lands in a word list -/
def wordOfRef : VRef → Word
  | .atom (.str s) => { value := s }
  | _ => { value := "MUTATED".toList }

def MutOp.onWords (ws : List Word) : MutOp → List Word
  | .append r => ws ++ [wordOfRef r]
  | .setItem j r => ws.set j (wordOfRef r)
  | .clear => []
  | .setField _ _ => ws

def vSetField (fs : List (Str × VRef)) (k : Str) (r : VRef) : List (Str × VRef) :=
  if fs.any (·.1 == k) then fs.map (fun p => if p.1 == k then (k, r) else p) else fs ++ [(k, r)]

/-- one in-place mutation of the value object `i`.  A list or scope_extract cell is rewritten in the
    value heap.  An alias cell is the `words` list of a PHIL definition: the PHIL heap is rewritten. -/
def mutate (s : Store) (i : Nat) (op : MutOp) : Store :=
  match s.vals[i]? with
  | none => s
  | some (.list o items) => { s with vals := s.vals.set i (.list o (op.onList items)) }
  | some (.record fs) =>
    (match op with
     | .setField k r => { s with vals := s.vals.set i (.record (vSetField fs k r)) }
     | _ => s)
  | some (.wordsOf d) =>
    (match s.phil[d]? with
     | some (.defn _ ws _) => { s with phil := assign s.phil d (.words (op.onWords ws)) }
     | _ => s)

def mutateMany (s : Store) : List (Nat × MutOp) → Store
  | [] => s
  | (i, op) :: rest => mutateMany (mutate s i op) rest

/-- no mutation of the history goes through an alias of a PHIL word list -/
def SafeHist (s : Store) : List (Nat × MutOp) → Prop
  | [] => True
  | (i, op) :: rest => (∀ d, s.vals[i]? ≠ some (.wordsOf d)) ∧ SafeHist (mutate s i op) rest

/-- the value heap has no alias cell (nothing of `.type = words` was extracted) -/
def noAliasB (vh : VHeap) : Bool := vh.all fun c => match c with | .wordsOf _ => false | _ => true

mutual
/-- the value tree contains no handed-out word list -/
def TVal.noHandout : TVal → Bool
  | .pure _ => true
  | .handout _ _ => false
  | .record fs => noHandoutFields fs
  | .multi _ l => noHandoutList l
def noHandoutFields : List (Str × TVal) → Bool
  | [] => true
  | (_, v) :: rest => v.noHandout && noHandoutFields rest
def noHandoutList : List TVal → Bool
  | [] => true
  | v :: rest => v.noHandout && noHandoutList rest
end

end Phil.Heap
