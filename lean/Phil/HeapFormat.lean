/-
  Phil.HeapFormat — `scope.format(python_object)` / `definition.format` on the object-identity model of
  Phil/Heap.lean: what the call ALLOCATES, WRITES and SHARES.  Also `scope.clone` and `definition.resolve_variables`.

  Model of: src/freephil/common.py — `scope.format`, `definition.format`, `copy`, `customized_copy`, `scope.clone`,
  `definition.resolve_variables`.  Line by line:

    definition.format:  words = type.as_words(python_object, master=self)      -- a decision (pure model: `formatDefn`)
                        return self.customized_copy(words=words)               -- ONE new cell, new word list
    scope.format:
      for object in self.master_active_objects():                              -- reads only
        multiple scopes are visited once per name (`multiple_scopes_done`)
        python_object is None / Auto:   result.append(object.format(None / Auto))        -- recursion
        for python_object_i in python_object:
          sub = python_object_i.__phil_get__(object.name)                       -- reads the python object only
          not .multiple:  result.append(object.format(sub))                     -- recursion
          len(sub) == 0:  obj = object.copy(); obj.is_template = 1              -- NEW cell; the write goes to the
                          result.append(obj)                                       NEW cell (seeded fault C19-7 wrote
                                                                                   the master's own object)
          else:           once per name: obj = object.copy(); obj.is_template = -1  -- NEW cell, likewise
                          for sub_i in sub: result.append(object.format(sub_i)) -- recursion
      return self.customized_copy(objects=result)                               -- ONE new cell, children = new objects

  No existing cell is written at all (not even `tmp`): the state is the heap alone.  The template copies
  `object.copy()` keep the master's `objects` list (the SAME child ids: finding D21 applies to `format` as well).
  The python object is a value of the pure model (`PVal`): it is not an object of the PHIL heap, `format` only reads it.
  Decisions (active objects, field lookup, words) are computed by the functions of the pure model (Phil/Fetch.lean)
  on the abstractions of the cells.

    scope.clone:  parse(self.format(python_object).as_str(attributes_level=3)).extract()
                  -- `format` (above), printing (reads), parsing a STRING (a new document: no cell of this heap),
                     extraction (Phil/HeapExtract.lean: writes nothing of the PHIL heap).  On this heap: `formatH`.

    definition.resolve_variables:  for every variable: substitution_source.tmp = True  -- the only writes: `tmp` marks
                                   return self.customized_copy(words=new_words)        -- ONE new cell, new word list
-/
import Phil.Heap
import Phil.HeapFetch
import Phil.HeapFetch2
import Phil.Fetch
namespace Phil.Heap
open Phil

/-- the python objects the loop `for python_object_i in python_object` visits -/
def fmtPobjs (v : PVal) : R (List PVal) :=
  match v with
  | .record _ => .ok [v]
  | .multi _ l => .ok l
  | .list l => .ok l
  | _ => .error (.stray "TypeError" "format_iterate")

/-- the elements `for sub_python_object_i in sub_python_object` visits (`len()` first) -/
def fmtElems (sub : PVal) : R (List PVal) :=
  match sub with
  | .multi _ l => .ok l
  | .list l => .ok l
  | .words ws => .ok (ws.map (fun _ => PVal.none))
  | .str _ => .error (.unsupported "len() of a str")
  | _ => .error (.stray "TypeError" "format_len")

/-- `multiple_scopes_done.get(object.name, True)` is False -/
def fmtNeedTmpl (done : List (Str × Bool)) (name : Str) : Bool :=
  match done.find? (fun (p : Str × Bool) => p.1 == name) with
  | some p => !p.2
  | none => false

/-- `result.append(object.format(x))` -/
def fmtAppH (rec : Nat → PVal → Heap → R (Heap × Nat)) (mid : Nat) : (Heap × List Nat) → PVal → R (Heap × List Nat) :=
  fun acc x =>
    match rec mid x acc.1 with
    | .error err => .error err
    | .ok (h1, r) => .ok (h1, acc.2 ++ [r])

/-- the body of `for python_object_i in python_object` for the master object `mid` (abstraction `o`) -/
def finnerH (rec : Nat → PVal → Heap → R (Heap × Nat)) (o : Obj) (mid : Nat) (mult : Bool) :
    (Heap × List Nat × List (Str × Bool)) → PVal → R (Heap × List Nat × List (Str × Bool)) :=
  fun st pi =>
    let h : Heap := st.1
    let out : List Nat := st.2.1
    let done : List (Str × Bool) := st.2.2
    match pi with
    | .record fs =>
      (match fieldGet fs o.name with
       | none => .ok (h, out, done)
       | some sub =>
         if !mult then
           (match rec mid sub h with
            | .error err => .error err
            | .ok (h1, r) => .ok (h1, out ++ [r], done))
         else
           match fmtElems sub with
           | .error err => .error err
           | .ok [] =>
             -- obj = object.copy() ; obj.is_template = 1
             (match fetchTemplate h mid 1 with
              | none => .error .outOfFuel
              | some (h1, c) => .ok (h1, out ++ [c], done))
           | .ok l =>
             let needTmpl : Bool := fmtNeedTmpl done o.name
             -- obj = object.copy() ; obj.is_template = -1
             let pre : R (Heap × List Nat) :=
               if needTmpl then
                 (match fetchTemplate h mid (-1) with
                  | none => .error .outOfFuel
                  | some (h1, c) => .ok (h1, out ++ [c]))
               else .ok (h, out)
             let done2 : List (Str × Bool) :=
               if needTmpl then done.map (fun (p : Str × Bool) => if p.1 == o.name then (p.1, true) else p) else done
             match pre with
             | .error err => .error err
             | .ok acc =>
               match foldH (fmtAppH rec mid) acc l with
               | .error err => .error err
               | .ok (h3, out3) => .ok (h3, out3, done2))
    | _ => .error (.stray "AttributeError" "phil_get")

/-- the body of `for object in self.master_active_objects()`: `mk` are the child ids of `self`, `v` the python
    object, `(idx, o)` the active master object (position, abstraction) -/
def fstepH (rec : Nat → PVal → Heap → R (Heap × Nat)) (mk : List Nat) (v : PVal) :
    (Heap × List Nat × List (Str × Bool)) → (Nat × Obj) → R (Heap × List Nat × List (Str × Bool)) :=
  fun st io =>
    let h : Heap := st.1
    let out : List Nat := st.2.1
    let done : List (Str × Bool) := st.2.2
    let o : Obj := io.2
    match mk[io.1]? with
    | none => .error .outOfFuel
    | some mid =>
    let mult := isMultiple o
    let skip := mult && o.isScope && done.any (·.1 == o.name)
    if skip then .ok (h, out, done) else
    let done := if mult && o.isScope then done ++ [(o.name, false)] else done
    match v with
    | .none =>
      (match rec mid .none h with
       | .error err => .error err
       | .ok (h1, r) => .ok (h1, out ++ [r], done))
    | .auto =>
      (match rec mid .auto h with
       | .error err => .error err
       | .ok (h1, r) => .ok (h1, out ++ [r], done))
    | _ =>
      match fmtPobjs v with
      | .error err => .error err
      | .ok pobjs => foldH (finnerH rec o mid mult) (h, out, done) pobjs

/-- `x.format(python_object = v)` for the master object `x`; answers the new heap and the id of the result -/
def formatH (e : Envs) : Nat → Nat → PVal → Heap → R (Heap × Nat)
  | 0, _, _, _ => .error .outOfFuel
  | fuel + 1, x, v, h =>
    match h[x]? with
    | none => .error .outOfFuel
    | some (.defn m ws _) =>
      (match formatDefn e m ws v with
       | .error err => .error err
       | .ok o =>
         -- return self.customized_copy(words=words)
         match customizedCopy h x none (some (objWords o)) none with
         | none => .error .outOfFuel
         | some (h1, c) => .ok (h1, c))
    | some (.scope _ mk _) =>
      match mapOpt (abs h) mk with
      | none => .error .outOfFuel
      | some mobjs =>
      match masterActiveObjects mobjs with
      | .error err => .error err
      | .ok actives =>
        match foldH (fstepH (formatH e fuel) mk v) (h, ([] : List Nat), ([] : List (Str × Bool))) actives with
        | .error err => .error err
        | .ok (h2, out, _) =>
          -- return self.customized_copy(objects=result)
          match fetchResult h2 x out with
          | none => .error .outOfFuel
          | some (h3, r) => .ok (h3, r)

/-- `master.format(python_object)` on a parsed root: the start heap (the master document), the final heap, the
    result id -/
def formatRootH (e : Envs) (master : List Obj) (v : PVal) : Heap × R (Heap × Nat) :=
  let fuel := (master.foldl (fun a k => Nat.max a (depthObj 1000 k)) 0) + 3
  let h0 := ofObjs master
  (h0, formatH e fuel 0 v h0)

/-! ### `definition.resolve_variables` -/

/-- `definition.resolve_variables()` on the heap.  The outcome of the substitution (new words, the ids of the
    definitions `lexical_get` found) is computed by the pure model (`Meta.varRes`, Phil/Vars.lean); here: the marks
    `substitution_source.tmp = True` (ids `refs`, recorded in `HS.tmp`) and the ONE new cell
    `self.customized_copy(words=new_words)`. -/
def resolveVarsH (x : Nat) (newWords : List Word) (refs : List Nat) (s : HS) : R (HS × Nat) :=
  match s.heap[x]? with
  | some (.defn _ _ _) =>
    if refs.all (isDefnAt s.heap) then
      match customizedCopy s.heap x none (some newWords) none with
      | none => .error .outOfFuel
      | some (h1, c) => .ok ({ heap := h1, tmp := s.tmp ++ refs }, c)
    else .error (.runtime "Not a definition" none)
  | _ => .error (.unsupported "resolveVarsH on a non-definition")

end Phil.Heap
