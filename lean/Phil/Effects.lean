/-
  Phil.Effects — effect model for purity (C17).  A heap maps (object id, field) to an abstract value;
  every API call has a summary: the set of (pre-existing object, field) pairs it may write and the set
  of pre-existing objects its result shares.  The summaries are read off the code and VALIDATED (not
  proved) by the harness, which snapshots every slot of every reachable object around each call.
-/
namespace Phil.Effects

abbrev ObjId := Nat
abbrev Field := String
abbrev Val := Nat                      -- abstract slot value (the harness hashes real values)
abbrev Heap := ObjId → Field → Val

structure Summary where
  writes : List (ObjId × Field)        -- slots of pre-existing objects the call may assign
  shares : List ObjId                  -- pre-existing objects reachable from the result

/-- a call as the heap sees it: the slots it assigns -/
structure Call where
  assigns : List ((ObjId × Field) × Val)

def applyCall (h : Heap) (c : Call) : Heap :=
  c.assigns.foldl (fun h a => fun o f => if (o, f) = a.1 then a.2 else h o f) h

def within (c : Call) (s : Summary) : Prop := ∀ a ∈ c.assigns, a.1 ∈ s.writes

/-- the slots a caller can observe of the long-lived objects: everything except `tmp` -/
def observable (longLived : List ObjId) (o : ObjId) (f : Field) : Prop := o ∈ longLived ∧ f ≠ "tmp"

def sameObs (longLived : List ObjId) (h1 h2 : Heap) : Prop :=
  ∀ o f, observable longLived o f → h1 o f = h2 o f

/-- a summary is pure w.r.t. the long-lived objects if it writes at most their `tmp` marks -/
def PureSummary (longLived : List ObjId) (s : Summary) : Prop :=
  ∀ w ∈ s.writes, w.1 ∈ longLived → w.2 = "tmp"

def runCalls (h : Heap) : List Call → Heap
  | [] => h
  | c :: cs => runCalls (applyCall h c) cs

end Phil.Effects
