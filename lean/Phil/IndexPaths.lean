/-
  Phil.IndexPaths — the path index of freephil.interface.index (`_full_path_index`) inside the model.

  The Python keeps a dict path ↦ object (or ↦ list of objects for `.multiple` objects).  It is built by
  `build_index` (`index_phil_objects`) in `__init__` and REBUILT by `rebuild_index()`
  (`reindex_phil_objects`) at specific places: `pop_state`, `set_state`, `update_from_python`,
  `merge_phil` (hence `update`, `merge_param_file`) — NOT by `push_state` and not by
  `get_python_object`.

  The model has no object identity.  An object of the working tree is identified by its POSITION in
  the document-order walk of the working tree (pre-order, the root scope is 0, every object counts,
  templates included); an index entry carries the positions of the objects it refers to together with
  the objects themselves.  The correspondence harness numbers the objects of `working_phil` the same
  way and looks every indexed object up by `is`.

    * `visitList`  — the objects `reindex_phil_objects` visits, in order, with full path and position
                     (objects with `is_template < 0` are skipped together with everything below them);
    * `insertVisit`— one dict update (`.multiple is True`: append to / start a list; else overwrite);
    * `reindex`    — `rebuild_index()`; `indexInit` — `build_index()` of `__init__` (it skips
                     `is_template == -1` instead of `< 0`; everything else it does concerns other tables);
    * `IState`, `istep`, `irun` — the state machine of Phil/Index.lean with the index as a further
                     state component, rebuilt exactly where the code rebuilds it.
-/
import Phil.IndexConcrete
namespace Phil

mutual
/-- number of objects of a tree (the object itself and everything below it) -/
def Obj.nodeCount : Obj → Nat
  | .defn _ _ => 1
  | .scope _ kids => 1 + nodeCountL kids
def nodeCountL : List Obj → Nat
  | [] => 0
  | o :: os => o.nodeCount + nodeCountL os
end

/-- one call of `reindex_phil_objects` that got past the template test -/
structure Visit where
  path : Str          -- `phil_object.full_path()`
  pos : Nat           -- position of the object in the document-order walk of the working tree
  obj : Obj

/-- `phil_object.multiple is True` -/
def multipleIsTrue (o : Obj) : Bool :=
  match o.attr "multiple" with
  | .bool true => true
  | _ => false

mutual
/-- the visits of `reindex_phil_objects(o, …)` for an object at position `pos` whose parent has full
    path `pfx`; `skip` is the template test (`is_template < 0` for `reindex_phil_objects`,
    `is_template == -1` for `index_phil_objects`) -/
def visitObj (skip : Int → Bool) (pfx : Str) (pos : Nat) : Obj → List Visit
  | .defn m ws => if skip m.tmpl then [] else [⟨joinPath pfx m.name, pos, .defn m ws⟩]
  | .scope m kids =>
    if skip m.tmpl then []
    else ⟨joinPath pfx m.name, pos, .scope m kids⟩ :: visitList skip (joinPath pfx m.name) (pos + 1) kids
/-- `for object in phil_object.objects: reindex_phil_objects(object, path_index)` -/
def visitList (skip : Int → Bool) (pfx : Str) (pos : Nat) : List Obj → List Visit
  | [] => []
  | o :: os => visitObj skip pfx pos o ++ visitList skip pfx (pos + o.nodeCount) os
end

/-- a value of the dict `_full_path_index` -/
inductive PEntry
  /-- `path_index[path] = phil_object` -/
  | one (pos : Nat) (o : Obj)
  /-- `path_index[path] = [phil_object, …]` (`.multiple` objects, in the order met) -/
  | many (l : List (Nat × Obj))
  /-- the Python has raised here: `path_index[path].append(obj)` on a value that is an object, not a
      list (AttributeError) — a `.multiple` object met after a non-multiple object of the same path.
      From the first `stray` on the model value is not meaningful (the driver answers `unsupported`). -/
  | stray

/-- the dict, in insertion order of its keys -/
abbrev PathIndex := List (Str × PEntry)

def PathIndex.get (ix : PathIndex) (p : Str) : Option PEntry :=
  match ix with
  | [] => none
  | (q, e) :: rest => if q == p then some e else PathIndex.get rest p

/-- `d[p] = e`: an existing key keeps its place, a new key goes last -/
def PathIndex.set (ix : PathIndex) (p : Str) (e : PEntry) : PathIndex :=
  match ix with
  | [] => [(p, e)]
  | (q, e') :: rest => if q == p then (q, e) :: rest else (q, e') :: PathIndex.set rest p e

/-- the new value of `path_index[full_path]` after one visit -/
def entryStep (old : Option PEntry) (v : Visit) : PEntry :=
  if multipleIsTrue v.obj then
    match old with
    | some (.many l) => .many (l ++ [(v.pos, v.obj)])     -- path_index[full_path].append(phil_object)
    | none => .many [(v.pos, v.obj)]                       -- path_index[full_path] = [phil_object]
    | some (.one _ _) => .stray                            -- AttributeError
    | some .stray => .stray
  else .one v.pos v.obj                                    -- path_index[full_path] = phil_object

/-- the dict update of one call of `reindex_phil_objects` -/
def insertVisit (ix : PathIndex) (v : Visit) : PathIndex :=
  ix.set v.path (entryStep (ix.get v.path) v)

/-- the visits of a whole working tree: the root scope (empty name, position 0), then its objects -/
def visitsOf (skip : Int → Bool) (w : List Obj) : List Visit :=
  ⟨[], 0, rootOf w⟩ :: visitList skip [] 1 w

def buildIndex (skip : Int → Bool) (w : List Obj) : PathIndex :=
  (visitsOf skip w).foldl insertVisit []

/-- `rebuild_index()`: `self._full_path_index = {}; reindex_phil_objects(self.working_phil, …)` -/
def reindex (w : List Obj) : PathIndex := buildIndex (fun t => decide (t < 0)) w

/-- `build_index()` as far as `_full_path_index` goes (`index_phil_objects` returns at
    `is_template == -1`) -/
def indexInit (w : List Obj) : PathIndex := buildIndex (fun t => t == -1) w

/-- the document-order walk of the working tree that fixes the positions (every object, templates too) -/
def walkOf (w : List Obj) : List Visit := visitsOf (fun _ => false) w

/-! ### the state machine with the index -/

structure IState where
  base : Index.State (List Obj) PVal
  pathIndex : PathIndex

variable {E : Type}

/-- does the code path of this operation from this state go through `rebuild_index()`?
    (`rebuild_index(only_scope=…)` ignores its argument: it always resets the dict and walks the whole
    working tree, so the edit type `E` may carry an `only_scope` without any effect here) -/
def rebuilds (k : Index.Kernel (List Obj) PVal E) (s : Index.State (List Obj) PVal) :
    Index.Op PVal E → Bool
  | .update e => (k.merge s.working e).isSome          -- merge_phil: `if rebuild_index: self.rebuild_index(…)`
  | .updateFromPython (some _) => true                 -- push_state(); working = format(obj); rebuild_index()
  | .updateFromPython none => s.params.isSome          -- `return False` when there is no cached object
  | .push => false                                     -- push_state: no rebuild
  | .pop => !s.states.isEmpty                          -- pop_state: only when a state was popped
  | .setState i => (s.states[i]?).isSome               -- set_state
  | .getPython => false

def iinit (k : Index.Kernel (List Obj) PVal E) (w : List Obj) : IState :=
  { base := Index.init k w, pathIndex := indexInit w }

/-- one operation: the abstract machine's step, and the index rebuilt from the NEW working tree where
    the code rebuilds it, left alone elsewhere -/
def istep (k : Index.Kernel (List Obj) PVal E) (s : IState) (op : Index.Op PVal E) :
    IState × Option PVal :=
  let r := Index.step k s.base op
  ({ base := r.1, pathIndex := if rebuilds k s.base op then reindex r.1.working else s.pathIndex }, r.2)

def irun (k : Index.Kernel (List Obj) PVal E) (s : IState) : List (Index.Op PVal E) → IState
  | [] => s
  | op :: ops => irun k (istep k s op).1 ops

/-! ### edits with `only_scope` (`index.update(text, only_scope=…)`, `merge_phil(…, only_scope=…)`)

  `only_scope` reaches two places: `delete_phil_objects(old_phil, redundant_paths, only_scope=…)`,
  where it restricts the deletion to objects on, above or below that path, and
  `rebuild_index(only_scope=…)` → `reindex_phil_objects(…, only_scope=…)`, where it is IGNORED. -/

/-- the test of `delete_phil_objects`: the object's path is `only_scope`, a prefix scope of it, or
    below it -/
def inOnlyScope (only fp : Str) : Bool :=
  only == fp || startsWith (fp ++ ['.']) only || startsWith (only ++ ['.']) fp

/-- interface.delete_phil_objects with its `only_scope` argument -/
def deletePhilObjectsScoped : Nat → Option Str → List Str → Str → List Obj → List Obj
  | 0, _, _, _, objs => objs
  | fuel + 1, only, paths, pfx, objs =>
    objs.filterMap fun o =>
      let fp := joinPath pfx o.name
      if (match only with | some s => !inOnlyScope s fp | none => false) then some o
      else if o.meta.tmpl != 0 then some o
      else if paths.contains fp then none
      else match o with
        | .scope m kids =>
          if paths.any (fun p => startsWith fp p) then
            some (.scope m (deletePhilObjectsScoped fuel only paths fp kids))
          else some o
        | d => some d

/-- the concrete kernel whose edits are (text, only_scope); with `only_scope = None` it is
    `concreteKernel c` (`concreteKernelScoped_none` in Phil/Proofs/IndexPathsLemmas.lean) -/
def concreteKernelScoped (c : IndexCtx) : Index.Kernel (List Obj) PVal (Str × Option Str) where
  merge := fun w ed =>
    match parseObjs ed.1 with
    | .error _ => none
    | .ok edit =>
      match fetchRoot c.envs false c.master [edit] with
      | .error _ => none
      | .ok _ =>
        let newPaths := allPathNames 1000 [] edit
        let redundant := newPaths.filter (fun p => c.multiple.contains p)
        let old := if redundant.isEmpty then w else deletePhilObjectsScoped 1000 ed.2 redundant [] w
        match fetchRoot c.envs false c.master [old, edit] with
        | .error _ => none
        | .ok (r, _) => some r.children
  refetch := (concreteKernel c).refetch
  extract := (concreteKernel c).extract
  format := (concreteKernel c).format

/-- `index.get_scope_by_name(path)` without `phil_parent` and prefix: the dict lookup -/
def IState.lookup (s : IState) (p : Str) : Option PEntry := s.pathIndex.get p

/-! ### what travels on the wire: path, kind, positions -/

def PEntry.kind : PEntry → String
  | .one _ _ => "one"
  | .many _ => "many"
  | .stray => "stray"

def PEntry.positions : PEntry → List Nat
  | .one p _ => [p]
  | .many l => l.map (·.1)
  | .stray => []

def PEntry.objs : PEntry → List Obj
  | .one _ o => [o]
  | .many l => l.map (·.2)
  | .stray => []

def PathIndex.hasStray (ix : PathIndex) : Bool :=
  ix.any (fun kv => match kv.2 with | .stray => true | _ => false)

end Phil
