/-
  Phil.Heap — an object-identity (heap) model of the PHIL object graph, for the copy clauses of C17 and
  the detachment clause of C18.

  Model of: src/freephil/common.py — `definition.copy`, `scope.copy` (`cls(**{slot: getattr(self, slot)})`),
  `definition.customized_copy`, `scope.customized_copy`, `scope.adopt` (sets `primary_parent_scope`,
  appends to `objects`), `legacy.slots_getstate_setstate.__getstate__/__setstate__` as used by
  `copy.deepcopy` and `pickle` (the state is the dict of ALL slots, `primary_parent_scope` included),
  slot assignment `o.f = v`; `scope.extract`, `definition.extract`, `scope_extract.__phil_set__`,
  `__phil_join__` and the converters' `from_words` as far as *which objects are fresh* is concerned.

  A heap is a finite map from object ids to nodes: `Heap = List Node`, the id of an object is its
  position, allocation appends (ids are never reused; Python's garbage collection is not observable
  by `is`-comparisons of live objects).  A node is a definition (slots, words, parent id) or a scope
  (slots, child ids, parent id); all scalar slots are carried by `Meta` (Phil.Basic).

  What is NOT an object of this heap (stated assumptions):
  * `list` objects are inlined: the `objects` slot of a scope is the list of child ids, the `words` slot
    of a definition the list of words.  Hence `o.objects = l` (slot assignment) is modelled,
    `o.objects.append(x)` (in-place mutation of the list object) is not — `copy()` hands the SAME list
    object to the copy, so an in-place append through a shallow copy is visible in the original
    (replayed on Python, see REPORT); the property speaks of assigning fields only.
  * `tokenizer.word` objects and converter objects (`.type`) are immutable values here.
  * pickle round trip = deepcopy: both serialise `__getstate__()` of everything reachable with a memo
    (assumption; validated by the identity-graph correspondence of the harness).
-/
import Phil.Basic
namespace Phil.Heap

/-- one PHIL object: `definition` or `scope`; `parent` is the slot `primary_parent_scope` -/
inductive Node
  | defn (m : Meta) (words : List Word) (parent : Option Nat)
  | scope (m : Meta) (kids : List Nat) (parent : Option Nat)
  deriving Repr, Inhabited, DecidableEq

abbrev Heap := List Node

def Node.parent : Node → Option Nat
  | .defn _ _ p => p
  | .scope _ _ p => p
def Node.kids : Node → List Nat
  | .defn .. => []
  | .scope _ ks _ => ks
def Node.meta : Node → Meta
  | .defn m _ _ => m
  | .scope m _ _ => m
def Node.isScope : Node → Bool
  | .scope .. => true
  | _ => false

/-- the object ids a node refers to, in slot order (`objects` comes before `primary_parent_scope`
    in `__slots__`, which is the order `__getstate__` lists them and deepcopy visits them) -/
def Node.succs (n : Node) : List Nat := n.kids ++ n.parent.toList

/-! ### slot assignment -/

/-- the right-hand sides of `o.f = v`: any scalar slot (name, is_disabled, is_template, where_str,
    merge_names, primary_id, every attribute: a function on `Meta`), `words`, `objects`,
    `primary_parent_scope` -/
inductive Assign
  | slot (f : Meta → Meta)
  | words (ws : List Word)
  | objects (ks : List Nat)
  | parent (p : Option Nat)

/-- `__slots__` has no `words` on a scope and no `objects` on a definition: such an assignment raises
    AttributeError and changes nothing -/
def Node.assign : Node → Assign → Node
  | .defn m ws p, .slot f => .defn (f m) ws p
  | .defn m _ p, .words ws => .defn m ws p
  | .defn m ws _, .parent p => .defn m ws p
  | .defn m ws p, .objects _ => .defn m ws p
  | .scope m ks p, .slot f => .scope (f m) ks p
  | .scope m _ p, .objects ks => .scope m ks p
  | .scope m ks _, .parent p => .scope m ks p
  | .scope m ks p, .words _ => .scope m ks p

/-- `o.f = v` on the object with id `x` -/
def assign (h : Heap) (x : Nat) (a : Assign) : Heap :=
  match h[x]? with
  | none => h
  | some n => h.set x (n.assign a)

/-- a finite history of slot assignments -/
def assignMany (h : Heap) : List (Nat × Assign) → Heap
  | [] => h
  | (x, a) :: rest => assignMany (assign h x a) rest

/-! ### shallow copies -/

/-- `definition.copy()` / `scope.copy()`: `cls(**{k: getattr(self, k) for k in __slots__})` — a NEW
    object every slot of which holds the SAME value: same child ids (the same list object even),
    same words, same parent.  The parent does not list the copy. -/
def copy (h : Heap) (x : Nat) : Option (Heap × Nat) :=
  h[x]?.map fun n => (h ++ [n], h.length)

/-- `customized_copy(name=None, words=None)` / `customized_copy(name=None, objects=None)`:
    `copy()`, then the given slots are assigned, then `is_template = 0` -/
def customizedCopy (h : Heap) (x : Nat) (name : Option Str) (words : Option (List Word))
    (objects : Option (List Nat)) : Option (Heap × Nat) :=
  match copy h x with
  | none => none
  | some (h1, c) =>
    let h2 := match name with | some n => assign h1 c (.slot fun m => { m with name := n }) | none => h1
    let h3 := match words with | some ws => assign h2 c (.words ws) | none => h2
    let h4 := match objects with | some ks => assign h3 c (.objects ks) | none => h3
    some (assign h4 c (.slot fun m => { m with tmpl := 0 }), c)

/-! ### deepcopy / pickle -/

/-- the memo-driven traversal of `copy.deepcopy` with an explicit stack: an object not yet in the memo
    is entered in it (`seen`: id and state read, in order of first visit) and its slots are visited in
    order — children, then the parent.  `none`: out of fuel, or a dangling id. -/
def visit : Nat → Heap → List Nat → List (Nat × Node) → Option (List (Nat × Node))
  | 0, _, _, _ => none
  | _ + 1, _, [], seen => some seen
  | f + 1, h, x :: todo, seen =>
    if x ∈ seen.map (·.1) then visit f h todo seen
    else match h[x]? with
      | none => none
      | some n => visit f h (n.succs ++ todo) (seen ++ [(x, n)])

/-- enough fuel for `visit`: one step per stack entry ever pushed -/
def visitFuel (h : Heap) : Nat := (h.map fun n => n.succs.length).sum + h.length + 2

/-- replace every object reference of a node -/
def Node.rename (ρ : Nat → Nat) : Node → Node
  | .defn m ws p => .defn m ws (p.map ρ)
  | .scope m ks p => .scope m (ks.map ρ) (p.map ρ)

structure Copied where
  heap : Heap
  result : Nat
  /-- the objects that were copied, in memo order; the copy of `comp[j]` has id `base + j` -/
  comp : List Nat
  deriving Repr

/-- where the copy of object `i` lives -/
def memo (base : Nat) (comp : List Nat) (i : Nat) : Nat := base + comp.idxOf i

/-- `copy.deepcopy(x)` (and `pickle.loads(pickle.dumps(x))`): every object reachable from `x` through
    `objects` and `primary_parent_scope` is copied once, every reference among them is redirected to
    the copies; nothing else is touched. -/
def deepcopy (h : Heap) (x : Nat) : Option Copied :=
  match visit (visitFuel h) h [x] [] with
  | none => none
  | some comp =>
    let ρ := memo h.length (comp.map (·.1))
    some { heap := h ++ comp.map (fun p => p.2.rename ρ), result := ρ x, comp := comp.map (·.1) }

/-! ### abstraction to the tree of Phil.Basic -/

def mapOpt {α β : Type} (f : α → Option β) : List α → Option (List β)
  | [] => some []
  | a :: as => match f a, mapOpt f as with
    | some b, some bs => some (b :: bs)
    | _, _ => none

/-- the abstract `Obj` the object `x` denotes (children by following ids); `none`: out of fuel or dangling -/
def absF : Nat → Heap → Nat → Option Obj
  | 0, _, _ => none
  | f + 1, h, x =>
    match h[x]? with
    | none => none
    | some (.defn m ws _) => some (.defn m ws)
    | some (.scope m ks _) => (mapOpt (absF f h) ks).map (Obj.scope m)

/-- `x` denotes `o` in `h` -/
def Abs (h : Heap) (x : Nat) (o : Obj) : Prop := ∃ f, absF f h x = some o

/-- executable abstraction (fuel = number of objects + 1 suffices on well-formed heaps) -/
def abs (h : Heap) (x : Nat) : Option Obj := absF (h.length + 1) h x

/-! ### parse-shaped construction: `scope.adopt` -/

mutual
/-- number of objects of a tree -/
def size : Obj → Nat
  | .defn _ _ => 1
  | .scope _ os => 1 + sizeKids os
def sizeKids : List Obj → Nat
  | [] => 0
  | o :: os => size o + sizeKids os
end

/-- ids of the children when the first one is allocated at `b` (each subtree is a contiguous block) -/
def kidIds : List Obj → Nat → List Nat
  | [], _ => []
  | o :: os, b => b :: kidIds os (b + size o)

mutual
/-- the block of objects the parser creates for a tree whose root gets id `b` and parent `p`:
    pre-order allocation; `adopt` sets `child.primary_parent_scope = self` and appends the child to
    `self.objects` -/
def cells : Obj → Option Nat → Nat → List Node
  | .defn m ws, p, _ => [.defn m ws p]
  | .scope m os, p, b => .scope m (kidIds os (b + 1)) p :: kidCells os b (b + 1)
def kidCells : List Obj → Nat → Nat → List Node
  | [], _, _ => []
  | o :: os, p, b => cells o (some p) b ++ kidCells os p (b + size o)
end

/-- allocate a tree in a heap; the root's `primary_parent_scope` is `p` -/
def build (o : Obj) (p : Option Nat) (h : Heap) : Heap × Nat := (h ++ cells o p h.length, h.length)

/-- the heap of one parsed document: the root scope (name "") with the parsed objects -/
def ofObjs (os : List Obj) : Heap := (build (.scope { name := [] } os) none []).1

/-! ### well-formedness (decidable) -/

/-- no dangling reference -/
def closedB (h : Heap) : Bool :=
  h.all fun n => n.succs.all fun k => decide (k < h.length)

/-- `children linked to their own parent`: every child of a scope has that scope as parent -/
def kidsLinkedB (h : Heap) : Bool :=
  (List.range h.length).all fun i =>
    match h[i]? with
    | some n => n.kids.all fun k => (h[k]?.map Node.parent) == some (some i)
    | none => true

/-- every object with a parent is listed by that parent -/
def parentListsB (h : Heap) : Bool :=
  (List.range h.length).all fun i =>
    match h[i]? with
    | some n => (match n.parent with
      | none => true
      | some p => (match h[p]? with
        | some q => q.isScope && q.kids.contains i
        | none => false))
    | none => true

/-- no object occurs twice in one `objects` list (with `kidsLinkedB`: no sharing between scopes either) -/
def nodupKidsB (h : Heap) : Bool := h.all fun n => decide n.kids.Nodup

/-- following `primary_parent_scope` from `x` ends at an object without parent within `f` steps -/
def rootOf : Nat → Heap → Nat → Option Nat
  | 0, _, _ => none
  | f + 1, h, x =>
    match h[x]? with
    | none => none
    | some n => (match n.parent with
      | none => some x
      | some p => rootOf f h p)

def acyclicB (h : Heap) : Bool :=
  (List.range h.length).all fun i => (rootOf (h.length + 1) h i).isSome

/-- parent pointers agree with child lists, no sharing, acyclic, no dangling reference -/
def wfB (h : Heap) : Bool := closedB h && kidsLinkedB h && parentListsB h && nodupKidsB h && acyclicB h

/-! ### the identity graph, as the harness sees it -/

/-- what the harness observes of one object: kind, name, parent, children -/
structure GNode where
  isScope : Bool
  name : Str
  parent : Option Nat
  kids : List Nat
  deriving DecidableEq, Repr

/-- the identity graph: one `GNode` per object, by id -/
def graph (h : Heap) : List GNode :=
  h.map fun n => ⟨n.isScope, n.meta.name, n.parent, n.kids⟩

end Phil.Heap
