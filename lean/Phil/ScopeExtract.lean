/-
  Phil.ScopeExtract — model of common.scope_extract: the parent chain (`__phil_path__`), the
  assignment guard (`__setattr__`) and `__inject__`.  A node is addressed by the chain of
  `__phil_name__`s from itself up to the root (`chain.head` = own name, last = the root's name "").
-/
import Phil.Fetch
namespace Phil

/-- scope_extract.__phil_path__(object_name) on a node whose `__phil_name__` chain (self first, each
    `none` = a name that is None) is `chain`. -/
def philPath : List (Option Str) → Option Str → Str
  | [], objName => objName.getD []                       -- no node: unreachable
  | own :: parents, objName =>
    let parentTrivial := match parents with
      | [] => true                                       -- __phil_parent__ is None
      | p :: _ => (match p with | none => true | some n => n.isEmpty)
    if parentTrivial then
      match objName with
      | none => own.getD []
      | some o => (match own with
        | none => o
        | some n => if n.isEmpty then o else n ++ '.' :: o)
    else
      let base := philPath parents none ++ '.' :: own.getD []
      match objName with
      | none => base
      | some o => base ++ '.' :: o

/-- the dotted path of a chain of names given root-first -/
def dotted : List Str → Str
  | [] => []
  | [n] => n
  | n :: rest => n ++ '.' :: dotted rest

/-- names Python gives every scope_extract besides its parameters -/
def builtinAttrs : List String :=
  ["__phil_name__", "__phil_parent__", "__phil_call__", "__phil_path__", "__phil_path_and_value__",
   "__setattr__", "__inject__", "__phil_join__", "__phil_set__", "__phil_get__", "__call__",
   "__class__", "__dict__", "__doc__", "__module__", "__weakref__", "__init__", "__eq__", "__hash__",
   "__repr__", "__str__", "__dir__", "__getattribute__", "__delattr__", "__new__", "__reduce__",
   "__reduce_ex__", "__sizeof__", "__format__", "__init_subclass__", "__subclasshook__", "__ne__",
   "__lt__", "__le__", "__gt__", "__ge__", "__getstate__"]

inductive SetResult
  | ok (fields : List (Str × PVal))
  | attributeError (path : Str)
  deriving Repr

def hasAttr (fields : List (Str × PVal)) (name : Str) : Bool :=
  fields.any (·.1 == name) || builtinAttrs.contains (String.ofList name)

/-- the text of the path in the AttributeError of __setattr__ / __inject__ -/
def errPath (chain : List (Option Str)) (name : Str) : Str :=
  let pp := philPath chain none
  if pp.isEmpty then name else pp ++ '.' :: name

/-- scope_extract.__setattr__ -/
def setAttr (chain : List (Option Str)) (fields : List (Str × PVal)) (name : Str) (v : PVal) : SetResult :=
  if hasAttr fields name then .ok (fieldSet fields name v) else .attributeError (errPath chain name)

/-- scope_extract.__inject__ -/
def inject (chain : List (Option Str)) (fields : List (Str × PVal)) (name : Str) (v : PVal) : SetResult :=
  if hasAttr fields name then .attributeError (errPath chain name) else .ok (fieldSet fields name v)

/-- `__phil_path__()` of every scope_extract node of an extracted value, pre-order; `chain` is the
    name chain of the node that holds `v` -/
def nodePaths : Nat → List (Option Str) → PVal → List Str
  | 0, _, _ => []
  | fuel + 1, chain, .record fs =>
    philPath chain none :: fs.flatMap (fun kv =>
      match kv.2 with
      | .record _ => nodePaths fuel (some kv.1 :: chain) kv.2
      | .multi _ l => l.flatMap (fun x => match x with
          | .record _ => nodePaths fuel (some kv.1 :: chain) x
          | _ => [])
      | _ => [])
  | _, _, _ => []

end Phil
