/-
  Phil.Conv — model of src/freephil/converters.py: from_words / as_words of every built-in type and
  choice_converters.fetch.  CPython's `int()`/`eval` of a value string and `"%.10g" % x` are
  parameters (`EvalEnv`, `FmtEnv`) answered by the harness on the real runtime (DESIGN §2, §6).
-/
import Phil.Parse
namespace Phil

/-- a Python value as produced by extraction -/
inductive PVal
  | none | auto
  | bool (b : Bool)
  | num (n : PNum)
  | str (s : Str)
  | list (l : List PVal)
  | words (ws : List Word)
  | record (fields : List (Str × PVal))                 -- scope_extract: attribute name → value, insertion order
  | multi (optional : AttrVal) (l : List PVal)       -- scope_extract_list of a `.multiple` object
  deriving Repr, Inhabited

/-- what `int(s)` / `eval(s, math.__dict__, {})` gives for a value string -/
inductive EvalRes
  | num (n : PNum)         -- int or float
  | bool (b : Bool)        -- eval gave a bool (a Python int subclass)
  | noneVal                -- eval gave None
  | other                  -- any other object (complex, str, list, function …)
  | raises                 -- any exception
  deriving Repr, DecidableEq, Inhabited

abbrev EvalEnv := Str → Option EvalRes
abbrev FmtEnv := PNum → Option Str        -- "%.10g" % x

def PNum.toRat? : PNum → Option Rat
  | .int i => some (i : Rat)
  | .flt n d => some ((n : Rat) / (d : Rat))
  | _ => Option.none

/-- Python `a < b` on numbers (int/float mixed compare is exact; anything with nan is False) -/
def pyLt (a b : PNum) : Bool :=
  match a, b with
  | .nan, _ | _, .nan => false
  | .ninf, .ninf => false
  | .ninf, _ => true
  | _, .ninf => false
  | .inf, _ => false
  | _, .inf => true
  | x, y => match x.toRat?, y.toRat? with
    | some p, some q => decide (p < q)
    | _, _ => false

/-- Python `a <= b` on numbers (anything with nan is False) -/
def pyLe (a b : PNum) : Bool :=
  match a, b with
  | .nan, _ | _, .nan => false
  | x, y => !pyLt y x

def wordsErr (site : String) (ws : List Word) : Err := .runtime site (firstLine ws)

/-- converters.number_from_value_string on one value string (`none`/`auto` handled by the caller for
    the word-list level; here the text-level spellings) -/
def numberFromValueString (env : EvalEnv) (ws : List Word) (s : Str) : R PVal :=
  let t := lower (strip s)
  if t == "true".toList || t == "false".toList then .error (wordsErr "numeric_expected" ws)
  else if t == "none".toList then .ok .none
  else if t == "auto".toList then .ok .auto
  else match env s with
    | Option.none => .error (.unsupported "value string without an eval answer")
    | some (.num n) => .ok (.num n)
    | some (.bool b) => .ok (.bool b)
    | some .noneVal => .ok .none
    | some .other => .ok (.str [])        -- a non-number object; rejected by int/float_from_number
    | some .raises => .error (wordsErr "numeric_expected" ws)

/-- converters.int_from_number -/
def intFromNumber (ws : List Word) : PVal → R PVal
  | .num (.int i) => .ok (.num (.int i))
  | .bool b => .ok (.bool b)                               -- isinstance(True, int): returned unchanged
  | .num (.flt n d) =>
    if d != 0 && n % (d : Int) == 0 then .ok (.num (.int (n / (d : Int))))
    else .error (wordsErr "integer_expected" ws)
  | _ => .error (wordsErr "integer_expected" ws)

/-- converters.float_from_number; ints beyond 2^53 are outside the modelled domain (rounding) -/
def floatFromNumber (ws : List Word) : PVal → R PVal
  | .num (.flt n d) => .ok (.num (.flt n d))
  | .num .inf => .ok (.num .inf)
  | .num .ninf => .ok (.num .ninf)
  | .num .nan => .ok (.num .nan)
  | .num (.int i) =>
    if i.natAbs ≤ 9007199254740992 then .ok (.num (.flt i 1))
    else .error (.unsupported "float(int) beyond 2^53")
  | .bool b => .ok (.num (.flt (if b then 1 else 0) 1))
  | _ => .error (wordsErr "float_expected" ws)

/-- _check_value_base._check_value: refuses unless `value >= value_min` and `value <= value_max`
    (so nan is refused whenever a bound is declared) -/
def checkValue (lo hi : Option PNum) (ws : List Word) (withLine : Bool) (v : PNum) : R Unit :=
  let line := if withLine then firstLine ws else Option.none
  match lo with
  | some m => if !pyLe m v then .error (.runtime "value_min" line) else
    (match hi with
     | some M => if !pyLe v M then .error (.runtime "value_max" line) else .ok ()
     | Option.none => .ok ())
  | Option.none =>
    (match hi with
     | some M => if !pyLe v M then .error (.runtime "value_max" line) else .ok ()
     | Option.none => .ok ())

/-- numbers_converters_base._check_size -/
def checkSize (smin smax : Option Int) (ws : List Word) (withLine : Bool) (n : Nat) : R Unit :=
  let line := if withLine then firstLine ws else Option.none
  match smax with
  | some M => if (n : Int) > M then .error (.runtime "too_many" line) else
    (match smin with
     | some m => if (n : Int) < m then .error (.runtime "not_enough" line) else .ok ()
     | Option.none => .ok ())
  | Option.none =>
    (match smin with
     | some m => if (n : Int) < m then .error (.runtime "not_enough" line) else .ok ()
     | Option.none => .ok ())

/-- `str.split()` on whitespace after `, ;` → blanks -/
def splitWs (s : Str) : List Str :=
  let rec go : Str → Str → List Str → List Str
    | [], cur, acc => (if cur.isEmpty then acc else cur.reverse :: acc).reverse
    | c :: cs, cur, acc =>
      if isSpace c then go cs [] (if cur.isEmpty then acc else cur.reverse :: acc)
      else go cs (c :: cur) acc
  go s [] []

/-- the bracket-stripping loop of numbers_from_words; `fuel` ≥ length suffices -/
def stripBrackets : Nat → Str → Str
  | 0, s => s
  | fuel + 1, s =>
    let strip1 (o c : Char) (s : Str) : Option Str :=
      match s, s.reverse with
      | a :: _, b :: _ => if a == o && b == c && s.length ≥ 1 then some (strip ((s.drop 1).take (s.length - 2))) else Option.none
      | _, _ => Option.none
    match strip1 '(' ')' s with
    | some s' => stripBrackets fuel s'
    | Option.none => match strip1 '[' ']' s with
      | some s' => stripBrackets fuel s'
      | Option.none => s

/-- converters.numbers_from_words: None | Auto | list of raw numbers -/
def numbersFromWords (env : EvalEnv) (ws : List Word) : R (Option (List PVal) ⊕ Unit) :=
  match strFromWords ws with
  | .none => .ok (.inl Option.none)
  | .auto => .ok (.inr ())
  | .str s =>
    let s' := stripBrackets (s.length + 1) s
    let s'' := s'.map (fun c => if c == ',' || c == ';' then ' ' else c)
    let r : R (List PVal) := (splitWs s'').foldlM (init := ([] : List PVal)) (fun (acc : List PVal) (piece : Str) =>
        (numberFromValueString env ws piece).map (fun v => acc ++ [v]))
    r.map (fun l => .inl (some l))
  | _ => .error (.unsupported "strFromWords")

def AttrVal.mandatory : AttrVal → Bool      -- `optional is not None and not optional`
  | .bool false => true
  | .str s => s.isEmpty
  | .int i => i == 0
  | _ => false

def stripStar (s : Str) : Str × Bool :=
  match s with
  | '*' :: r => (r, true)
  | _ => (s, false)

/-- `type.from_words(words, master)`; `optional` is the master's `.optional` attribute -/
def fromWords (c : Conv) (env : EvalEnv) (optional : AttrVal) (ws : List Word) : R PVal :=
  match c with
  | .words => if isPlainNone ws then .ok .none else if isPlainAuto ws then .ok .auto else .ok (.words ws)
  | .strings =>
    if isPlainNone ws then .ok .none else if isPlainAuto ws then .ok .auto
    else .ok (.list (ws.map (fun w => .str w.value)))
  | .str | .key =>
    (match strFromWords ws with
     | .none => .ok .none | .auto => .ok .auto | .str s => .ok (.str s)
     | _ => .error (.unsupported "strFromWords"))
  | .path =>
    (match strFromWords ws with
     | .none => .ok .none | .auto => .ok .auto
     | .str s => if s.take 1 == ['~'] then .error (.unsupported "expanduser") else .ok (.str s)
     | _ => .error (.unsupported "strFromWords"))
  | .qstr =>
    if isPlainNone ws then .ok .none else if isPlainAuto ws then .ok .auto
    else .ok (.str (joinWith [' '] (ws.map Word.str)))
  | .bool =>
    (match boolFromWords ws with
     | .error e => .error e
     | .ok .none => .ok .none | .ok .auto => .ok .auto | .ok (.bool b) => .ok (.bool b)
     | .ok _ => .error (.unsupported "boolFromWords"))
  | .int a | .float a =>
    let isInt := match c with | .int _ => true | _ => false
    (match strFromWords ws with
     | .none => if a.allowNone then .ok .none else .error (.runtime "cannot_be_none" Option.none)
     | .auto => .ok .auto
     | .str s =>
       (match numberFromValueString env ws s with
        | .error e => .error e
        | .ok .none => if a.allowNone then .ok .none else .error (.runtime "cannot_be_none" Option.none)
        | .ok .auto => .ok .auto
        | .ok raw =>
          (match (if isInt then intFromNumber ws raw else floatFromNumber ws raw) with
           | .error e => .error e
           | .ok (.num v) => (checkValue a.valueMin a.valueMax ws true v).map (fun _ => .num v)
           | .ok (.bool b) =>
             (checkValue a.valueMin a.valueMax ws true (.int (if b then 1 else 0))).map (fun _ => .bool b)
           | .ok v => .ok v))
     | _ => .error (.unsupported "strFromWords"))
  | .ints a | .floats a =>
    let isInt := match c with | .ints _ => true | _ => false
    (match numbersFromWords env ws with
     | .error e => .error e
     | .ok (.inr ()) => .ok .auto
     | .ok (.inl Option.none) => .ok .none
     | .ok (.inl (some raws)) =>
       (match checkSize a.sizeMin a.sizeMax ws true raws.length with
        | .error e => .error e
        | .ok () =>
          let r : R (List PVal) := raws.foldlM (init := ([] : List PVal)) (fun (acc : List PVal) (raw : PVal) =>
            match (generalizing := false) raw with
            | .none => if a.allowNoneEl then .ok (acc ++ [.none]) else .error (wordsErr "element_none" ws)
            | .auto => if a.allowAutoEl then .ok (acc ++ [.auto]) else .error (wordsErr "element_auto" ws)
            | raw =>
              (match (if isInt then intFromNumber ws raw else floatFromNumber ws raw) with
               | .error e => .error e
               | .ok (.num v) => (checkValue a.valueMin a.valueMax ws true v).map (fun _ => acc ++ [.num v])
               | .ok (.bool b) =>
                 (checkValue a.valueMin a.valueMax ws true (.int (if b then 1 else 0))).map (fun _ => acc ++ [.bool b])
               | .ok v => .ok (acc ++ [v])))
          r.map PVal.list))
  | .choice multi =>
    if isPlainAuto ws then .ok .auto
    else
      let starred := ws.filterMap (fun w => let (v, st) := stripStar w.value; if st then some v else Option.none)
      if multi then
        if starred.isEmpty && optional.mandatory then .error (wordsErr "choice_unspecified" ws)
        else .ok (.list (starred.map PVal.str))
      else
        match starred with
        | [] => if optional.mandatory then .error (wordsErr "choice_unspecified" ws) else .ok .none
        | [v] => .ok (.str v)
        | _ => .error (wordsErr "choice_multiple" ws)

/-! ### as_words (format) -/

def wordOf (s : String) : Word := { value := s.toList }

def numStr (isInt : Bool) (fmt : FmtEnv) (v : PVal) : R Str :=
  match v with
  | .num (.int i) => if isInt then .ok (intStr i) else
      (match fmt (.int i) with | some s => .ok s | Option.none => .error (.unsupported "no %.10g answer"))
  | .num n => if isInt then .error (.unsupported "%d of a float") else
      (match fmt n with | some s => .ok s | Option.none => .error (.unsupported "no %.10g answer"))
  | .bool b => if isInt then .ok (intStr (if b then 1 else 0)) else .error (.unsupported "%.10g of a bool")
  | _ => .error (.stray "TypeError" "value_as_str")

def isStdIdentNotNoneAuto (s : Str) : Bool :=
  isStdIdent s && lower s != "none".toList && lower s != "auto".toList

/-- `type.as_words(python_object, master)`; `mwords` = master.words (choice), `optional` its `.optional` -/
def asWords (c : Conv) (fmt : FmtEnv) (optional : AttrVal) (mwords : List Word) (v : PVal) : R (List Word) :=
  match c, v with
  | .choice _, .auto => .ok [wordOf "Auto"]
  | .choice multi, v =>
    if multi then
      match v with
      | .list vs =>
        let names := vs.filterMap (fun x => match x with | .str s => some s | _ => Option.none)
        if names.length != vs.length then .error (.unsupported "multi choice value") else
        -- walk the master's words, flag each requested name once
        let step := fun (st : List Word × List Str × Bool) (w : Word) =>
          let (out, used, bad) := st
          let (value, _) := stripStar w.value
          if names.contains value then
            if used.contains value then (out, used, true)
            else (out ++ [{ value := '*' :: value, quote := w.quote }], used ++ [value], bad)
          else (out ++ [{ value := value, quote := w.quote }], used, bad)
        let (out, used, bad) := mwords.foldl step ([], [], false)
        if bad then .error (.runtime "improper_master_choice" (firstLine mwords))
        else if names.any (fun n => !used.contains n) then .error (.runtime "invalid_choice" Option.none)
        else if used.isEmpty && optional.mandatory then .error (.runtime "empty_mandatory_choice" Option.none)
        else .ok out
      | .none => .error (.stray "AssertionError" "choice_as_words")
      | _ => .error (.unsupported "multi choice value")
    else
      match v with
      | .none =>
        if optional.mandatory then .error (.runtime "invalid_choice" Option.none)
        else .ok (mwords.map (fun w => { value := (stripStar w.value).1, quote := w.quote }))
      | .str s =>
        let hits := mwords.filter (fun w => (stripStar w.value).1 == s)
        if hits.length > 1 then .error (.runtime "improper_master_choice" (firstLine mwords))
        else if hits.isEmpty then .error (.runtime "invalid_choice" Option.none)
        else .ok (mwords.map (fun w =>
          let value := (stripStar w.value).1
          { value := if value == s then '*' :: value else value, quote := w.quote }))
      | _ => .error (.unsupported "single choice value")
  | .int a, .none | .float a, .none =>
    if a.allowNone then .ok [wordOf "None"] else .error (.runtime "cannot_be_none" Option.none)
  | _, .none => .ok [wordOf "None"]
  | _, .auto => .ok [wordOf "Auto"]
  | .words, .words ws => .ok ws
  | .strings, .list vs =>
    -- strings_as_words: identifier-like elements stay bare unless an earlier element spans lines
    let step : (List Word × Bool) → PVal → R (List Word × Bool) := fun st x =>
      match x with
      | .str s =>
        let bare := isStdIdentNotNoneAuto s && !st.2
        .ok (st.1 ++ [if bare then { value := s } else { value := s, quote := some .d1 }], st.2 || s.contains '\n')
      | _ => .error (.unsupported "strings element")
    (vs.foldlM step (([] : List Word), false)).map (·.1)
  | .str, .str s | .path, .str s | .key, .str s => .ok [{ value := s, quote := some .d1 }]
  | .qstr, .str s =>
    (match tokenizeValueLiteral s with
     | .ok ws => .ok (ws.map (fun w => { w with line := w.line }))
     | .error e => .error (tokErr e))
  | .bool, .bool b => .ok [wordOf (if b then "True" else "False")]
  | .int a, v | .float a, v =>
    let isInt := match c with | .int _ => true | _ => false
    let chk : R Unit := match v with
      | .num n => checkValue a.valueMin a.valueMax [] false n
      | .bool b => checkValue a.valueMin a.valueMax [] false (.int (if b then 1 else 0))
      | _ => .ok ()
    (match chk with
     | .error e => .error e
     | .ok () => (numStr isInt fmt v).map (fun s => [{ value := s }]))
  | .ints a, .list vs | .floats a, .list vs =>
    let isInt := match c with | .ints _ => true | _ => false
    (match checkSize a.sizeMin a.sizeMax [] false vs.length with
     | .error e => .error e
     | .ok () =>
       vs.foldlM (init := ([] : List Word)) (fun (acc : List Word) (x : PVal) => match x with
         | .none => if a.allowNoneEl then .ok (acc ++ [wordOf "None"]) else .error (.runtime "element_none" Option.none)
         | .auto => if a.allowAutoEl then .ok (acc ++ [wordOf "Auto"]) else .error (.runtime "element_auto" Option.none)
         | .num n =>
           (match checkValue a.valueMin a.valueMax [] false n with
            | .error e => .error e
            | .ok () => (numStr isInt fmt (.num n)).map (fun s => acc ++ [{ value := s }]))
         | _ => .error (.unsupported "list element")))
  | _, _ => .error (.unsupported "value outside the type's Python domain")

/-! ### choice_converters.fetch -/

def findSub (pat s : Str) : Bool :=
  match s with
  | [] => pat.isEmpty
  | _ :: cs => startsWith pat s || findSub pat cs

/-- flag table: association list keyed by lower-cased alternative, insertion-ordered like the dict -/
def flagSet (flags : List (Str × Bool)) (k : Str) (v : Bool) : List (Str × Bool) :=
  if flags.any (·.1 == k) then flags.map (fun p => if p.1 == k then (k, v) else p) else flags ++ [(k, v)]

def flagGet (flags : List (Str × Bool)) (k : Str) : Option Bool := (flags.find? (·.1 == k)).map (·.2)

/-- choice_converters.fetch: the result's words, or Sorry with the list of alternatives -/
def choiceFetch (mwords : List Word) (optional : AttrVal) (src : List Word) (ignoreErrors : Bool := false) :
    R (List Word) :=
  if isPlainNone mwords || isPlainAuto mwords then .error (.stray "AssertionError" "choice_fetch") else
  if isPlainAuto src then .ok [wordOf "Auto"] else
  let flags0 : List (Str × Bool) :=
    mwords.foldl (fun fl w => flagSet fl (lower (stripStar w.value).1) false) []
  let alts := mwords.map (·.value)
  let notPossible (w : Word) : Err := .sorry_ "not_a_possible_choice" alts |> fun e => (match w.line with | _ => e)
  let flagsR : R (List (Str × Bool)) :=
    if optional.mandatory || !isPlainNone src then
      -- have_quote_or_star stops the scan; have_plus is only set for words before it
      let rec scan : List Word → Bool → Bool × Bool
        | [], plus => (false, plus)
        | w :: ws, plus =>
          if w.quote.isSome || w.value.take 1 == ['*'] then (true, plus)
          else scan ws (plus || w.value.contains '+')
      let (haveQS, havePlus) := scan src false
      let processPlus :=
        if !haveQS && havePlus then
          let values := splitOn '+' (src.foldr (fun w acc => w.value ++ acc) [])
          (values.drop 1).all (fun v => !(strip v).isEmpty)
        else false
      if processPlus then
        src.foldlM (init := flags0) (fun fl w =>
          (splitOn '+' w.value).foldlM (init := fl) (fun fl value =>
            if value.isEmpty then .ok fl
            else if (flagGet fl value).isNone then .error (notPossible w)
            else .ok (flagSet fl (lower value) true)))
      else
        src.foldlM (init := flags0) (fun fl w =>
          let (value, star) := stripStar w.value
          let flag := star || src.length == 1
          if flag && (flagGet flags0 (lower value)).isNone then
            (if ignoreErrors then .ok fl else .error (notPossible w))
          else .ok (flagSet fl (lower value) flag))
    else .ok flags0
  match flagsR with
  | .error e => .error e
  | .ok flags =>
    .ok (mwords.map (fun w =>
      let value := (stripStar w.value).1
      let on := (flagGet flags (lower value)).getD false
      { value := if on then '*' :: value else value, quote := w.quote, line := w.line }))

end Phil
