/-
  Phil.Wire — the line protocol of the correspondence check: a JSON subset (arrays, integers, null,
  booleans, escape-free strings) and the text codec (`x<hex>` per code point) used in both directions.
  Not part of the model; trusted base of the tie.
-/
import Phil.Basic
namespace Phil

inductive J
  | null
  | bool (b : Bool)
  | num (i : Int)
  | str (s : String)
  | arr (l : List J)
  deriving Repr, Inhabited

def hexDigit (n : Nat) : Char := if n < 10 then Char.ofNat (48 + n) else Char.ofNat (87 + n)

def hexOf : Nat → List Char
  | n => if h : n < 16 then [hexDigit n] else hexOf (n / 16) ++ [hexDigit (n % 16)]
decreasing_by omega

/-- encode a text as `x<hex>x<hex>…` -/
def enc (s : Str) : String := String.ofList (s.flatMap (fun c => 'x' :: hexOf c.toNat))

def hexVal (c : Char) : Option Nat :=
  if '0' ≤ c ∧ c ≤ '9' then some (c.toNat - 48)
  else if 'a' ≤ c ∧ c ≤ 'f' then some (c.toNat - 87)
  else none

def dec (s : String) : Str :=
  let parts := (splitOn 'x' s.toList).drop 1
  parts.map fun p =>
    Char.ofNat (p.foldl (fun acc c => acc * 16 + (hexVal c).getD 0) 0)

partial def J.render : J → String
  | .null => "null"
  | .bool true => "true"
  | .bool false => "false"
  | .num i => toString i
  | .str s => "\"" ++ s ++ "\""
  | .arr l => "[" ++ ", ".intercalate (l.map J.render) ++ "]"

/-- recursive-descent reader; `fuel` bounds nesting + length -/
partial def readJ : List Char → Option (J × List Char)
  | ' ' :: cs => readJ cs
  | 'n' :: 'u' :: 'l' :: 'l' :: cs => some (.null, cs)
  | 't' :: 'r' :: 'u' :: 'e' :: cs => some (.bool true, cs)
  | 'f' :: 'a' :: 'l' :: 's' :: 'e' :: cs => some (.bool false, cs)
  | '"' :: cs =>
    let s := cs.takeWhile (· != '"')
    some (.str (String.ofList s), (cs.dropWhile (· != '"')).drop 1)
  | '[' :: cs =>
    let rec items (cs : List Char) (acc : List J) : Option (J × List Char) :=
      match cs with
      | ' ' :: cs => items cs acc
      | ',' :: cs => items cs acc
      | ']' :: cs => some (.arr acc.reverse, cs)
      | [] => none
      | _ => match readJ cs with
        | none => none
        | some (j, rest) => items rest (j :: acc)
    items cs []
  | '-' :: cs =>
    let ds := cs.takeWhile Char.isDigit
    if ds.isEmpty then none else
    some (.num (- Int.ofNat (ds.foldl (fun a c => a * 10 + (c.toNat - 48)) 0)), cs.dropWhile Char.isDigit)
  | c :: cs =>
    if c.isDigit then
      let ds := (c :: cs).takeWhile Char.isDigit
      some (.num (Int.ofNat (ds.foldl (fun a c => a * 10 + (c.toNat - 48)) 0)), (c :: cs).dropWhile Char.isDigit)
    else none
  | [] => none

def J.text (s : Str) : J := .str (enc s)
def J.optNat : Option Nat → J
  | none => .null
  | some n => .num n
def J.optInt : Option Int → J
  | none => .null
  | some n => .num n

def J.getStr : J → Option Str
  | .str s => some (dec s)
  | _ => none
def J.getInt : J → Option Int
  | .num i => some i
  | _ => none
def J.getOptInt : J → Option (Option Int)
  | .num i => some (some i)
  | .null => some none
  | _ => none
def J.getBool : J → Option Bool
  | .bool b => some b
  | _ => none
def J.getArr : J → Option (List J)
  | .arr l => some l
  | _ => none

end Phil
