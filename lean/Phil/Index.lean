/-
  Phil.Index — model of freephil.interface.index (the GUI parameter index) as a state machine.

  The machine is generic over a `Kernel`: the working-parameter type `W`, the Python-object type `P`,
  and the operations the index calls on them (re-fetch against the master, extract, format, parse of an
  edit text, deletion of the instances of `.multiple` objects an edit mentions).  `Phil.IndexConcrete`
  instantiates it with the Fetch model for the correspondence run.
-/
namespace Phil.Index

structure Kernel (W P E : Type) where
  /-- `master.fetch(sources=[old, edit])` after `delete_phil_objects(old, redundant paths of edit)`;
      `none` = the edit is refused (parse error / fetch error), the state is unchanged -/
  merge : W → E → Option W
  /-- `master_phil.fetch(source=working_phil)`: push_state stores a copy re-fetched against the master -/
  refetch : W → W
  /-- `working_phil.extract()`; `none` = extraction raises (a value the declared type refuses) -/
  extract : W → Option P
  /-- `master_phil.format(python_object)` -/
  format : P → W

structure State (W P : Type) where
  working : W
  params : Option P        -- cached Python object (`self.params`)
  dirty : Bool             -- `_phil_has_changed`
  states : List W          -- `_states`

inductive Op (P E : Type)
  | update (e : E)                 -- update(phil_string) / merge_phil(...)
  | updateFromPython (p : Option P) -- update_from_python(python_object=None uses the cached object)
  | push
  | pop
  | setState (i : Nat)
  | getPython                       -- get_python_object()

variable {W P E : Type}

def init (k : Kernel W P E) (w : W) : State W P :=
  { working := w, params := k.extract w, dirty := false, states := [] }

/-- one operation; the second component is what `get_python_object` returns (for `.getPython`) -/
def step (k : Kernel W P E) (s : State W P) : Op P E → State W P × Option P
  | .update e =>
    match k.merge s.working e with
    | none => (s, none)
    | some w => ({ s with working := w, dirty := true, params := none }, none)
  | .updateFromPython p =>
    let obj : Option P := match p with
      | some x => some x
      | none => s.params
    match obj with
    | none => (s, none)                         -- returns False, nothing happens
    | some x =>
      -- self.params = x; push_state(); working = format(x); rebuild_index()
      ({ working := k.format x, params := some x, dirty := s.dirty,
         states := s.states ++ [k.refetch s.working] }, none)
  | .push => ({ s with states := s.states ++ [k.refetch s.working] }, none)
  | .pop =>
    match s.states.reverse with
    | [] => (s, none)
    | w :: restRev => ({ working := w, params := none, dirty := true, states := restRev.reverse }, none)
  | .setState i =>
    match s.states[i]? with
    | none => (s, none)
    | some w => ({ s with working := k.refetch w, params := none, dirty := true }, none)
  | .getPython =>
    if s.dirty || s.params.isNone then
      match k.extract s.working with
      | some v => ({ s with params := some v, dirty := false }, some v)
      | none => (s, none)                       -- the exception propagates, nothing is cached
    else (s, s.params)

def run (k : Kernel W P E) (s : State W P) : List (Op P E) → State W P
  | [] => s
  | op :: ops => run k (step k s op).1 ops

end Phil.Index
