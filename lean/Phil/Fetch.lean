/-
  Phil.Fetch — model of scope.extract / scope.format / extract_format and of scope.fetch (merge),
  fetch_diff and unused-definition tracking (common.py).  Sources are variable-free here (a `$` in a
  source word makes the model answer `unsupported`); `.alias` is not modelled.
  The runtime's `eval` and `"%.10g"` are the parameters `Envs`.
-/
import Phil.Show
import Phil.Conv
namespace Phil

structure Envs where
  eval : EvalEnv
  fmt : FmtEnv

def isMultiple (o : Obj) : Bool := (o.attr "multiple").truthy

/-- scope.master_active_objects, with the index of each object among the scope's objects -/
def masterActiveObjects (objs : List Obj) : R (List (Nat × Obj)) :=
  let rec go : List (Nat × Obj) → List (Str × Obj) → List (Nat × Obj) → R (List (Nat × Obj))
    | [], _, acc => .ok acc.reverse
    | (i, o) :: rest, seen, acc =>
      if o.meta.disabled then go rest seen acc
      else match seen.find? (·.1 == o.name) with
        | none => go rest (seen ++ [(o.name, o)]) ((i, o) :: acc)
        | some (_, master) =>
          if isMultiple master then go rest seen acc
          else if o.isDefn then .error (.runtime "duplicate_master" o.meta.line)
          else go rest seen ((i, o) :: acc)
  go (objs.zipIdx.map (fun (o, i) => (i, o))) [] []

/-- get_without_substitution of an object for a (relative) path -/
def getWithoutSubst : Nat → Obj → Str → List Obj
  | 0, _, _ => []
  | fuel + 1, o, path =>
    if o.meta.disabled then [] else
    match o with
    | .defn m _ => if m.name == path then [o] else []
    | .scope m kids =>
      if m.name.isEmpty then
        (if path.isEmpty then kids else (kids.filter (fun k => !k.meta.disabled)).flatMap (fun k => getWithoutSubst fuel k path))
      else if m.name == path then [o]
      else if startsWith (m.name ++ ['.']) path then
        let sub := path.drop (m.name.length + 1)
        (kids.filter (fun k => !k.meta.disabled)).flatMap (fun k => getWithoutSubst fuel k sub)
      else []

def depthObj : Nat → Obj → Nat
  | 0, _ => 0
  | f + 1, .scope _ kids => 1 + (kids.foldl (fun a k => Nat.max a (depthObj f k)) 0)
  | _, _ => 1

/-! ### extract -/

inductive XVal          -- value handed to __phil_set__
  | disabled
  | val (v : PVal)

def fieldGet (fs : List (Str × PVal)) (k : Str) : Option PVal := (fs.find? (·.1 == k)).map (·.2)
def fieldSet (fs : List (Str × PVal)) (k : Str) (v : PVal) : List (Str × PVal) :=
  if fs.any (·.1 == k) then fs.map (fun p => if p.1 == k then (k, v) else p) else fs ++ [(k, v)]

/-- scope_extract.__phil_join__ -/
def philJoin : Nat → List (Str × PVal) → List (Str × PVal) → R (List (Str × PVal))
  | 0, _, _ => .error .outOfFuel
  | fuel + 1, self, other =>
    other.foldlM (init := self) fun (acc : List (Str × PVal)) (kv : Str × PVal) =>
      let (key, ov) := kv
      if isReserved key then .ok acc else
      match fieldGet acc key with
      | none | some .none => .ok (fieldSet acc key ov)
      | some (.multi opt l) =>
        (match ov with
         | .multi _ l2 =>
           let l' := l ++ l2.filter (fun x => match x with | .none => false | _ => true)
           let l'' := match l' with
             | .none :: r => if l'.length > 1 then r else l'
             | _ => l'
           .ok (fieldSet acc key (.multi opt l''))
         | _ => .error (.stray "AssertionError" "phil_join"))
      | some (.record sf) =>
        (match ov with
         | .record of_ => (philJoin fuel sf of_).map (fun r => fieldSet acc key (.record r))
         | _ => .error (.stray "AttributeError" "phil_join"))
      | some _ => .ok (fieldSet acc key ov)

/-- scope_extract.__phil_set__ -/
def philSet (fs : List (Str × PVal)) (name : Str) (optional : AttrVal) (multiple : Bool) (x : XVal) :
    R (List (Str × PVal)) :=
  if !multiple then
    let v := match x with | .disabled => PVal.none | .val v => v
    match fieldGet fs name, v with
    | some (.record node), .record val => (philJoin (node.length + val.length + 64) node val).map (fun r => fieldSet fs name (.record r))
    | _, _ => .ok (fieldSet fs name v)
  else
    let (fs, node) : List (Str × PVal) × Option PVal := match fieldGet fs name with
      | none => (fieldSet fs name (.multi optional []), some (.multi optional []))
      | some n => (fs, some n)
    match node with
    | some (.multi o l) =>
      (match x with
       | .disabled => .ok fs
       | .val v =>
         let isNone := match v with | .none => true | _ => false
         let optTrue := match optional with | .bool true => true | _ => false
         if !isNone || !optTrue then .ok (fieldSet fs name (.multi o (l ++ [v]))) else .ok fs)
    | _ => (match x with
       | .disabled => .ok fs
       | .val _ => .error (.stray "AttributeError" "phil_set_append"))

/-- definition.extract -/
def extractDefn (e : Envs) (m : Meta) (ws : List Word) : R PVal :=
  match m.attrs.get "type" with
  | .none => fromWords .strings e.eval (m.attrs.get "optional") ws
  | .conv c => fromWords c e.eval (m.attrs.get "optional") ws
  | .auto => .error (.runtime "no_from_words" m.line)
  | _ => .error (.unsupported "type attribute")

/-- scope.extract (the fields of the scope_extract) / definition.extract -/
def extractObj (e : Envs) : Nat → Obj → R PVal
  | 0, _ => .error .outOfFuel
  | _ + 1, .defn m ws => extractDefn e m ws
  | fuel + 1, .scope _ kids =>
    let step : List (Str × PVal) → Obj → R (List (Str × PVal)) := fun fs o =>
      if o.meta.tmpl < 0 then Except.ok fs else
      let xv : R XVal :=
        if o.meta.disabled || o.meta.tmpl > 0 then Except.ok XVal.disabled
        else (extractObj e fuel o).map XVal.val
      match xv with
      | .error err => Except.error err
      | .ok x => philSet fs o.name (o.attr "optional") (isMultiple o) x
    (kids.foldlM step ([] : List (Str × PVal))).map PVal.record

/-! ### format -/

def withTmpl (o : Obj) (t : Int) : Obj := o.withMeta (fun m => { m with tmpl := t })

/-- definition.format -/
def formatDefn (e : Envs) (m : Meta) (ws : List Word) (v : PVal) : R Obj :=
  let conv : R Conv := match m.attrs.get "type" with
    | .none => .ok .strings
    | .conv c => .ok c
    | .auto => .error (.runtime "no_as_words" m.line)
    | _ => .error (.unsupported "type attribute")
  match conv with
  | .error err => .error err
  | .ok c => (asWords c e.fmt (m.attrs.get "optional") ws v).map (fun nws => Obj.defn { m with tmpl := 0 } nws)

/-- scope.format / definition.format -/
def formatObj (e : Envs) : Nat → Obj → PVal → R Obj
  | 0, _, _ => .error .outOfFuel
  | _ + 1, .defn m ws, v => formatDefn e m ws v
  | fuel + 1, .scope m kids, v =>
    match masterActiveObjects kids with
    | .error err => .error err
    | .ok actives =>
      let step : (List Obj × List (Str × Bool)) → (Nat × Obj) → R (List Obj × List (Str × Bool)) := fun st io =>
        let out : List Obj := st.1
        let done : List (Str × Bool) := st.2
        let o : Obj := io.2
        let mult := isMultiple o
        -- multiple scopes are visited once per name
        let skip := mult && o.isScope && done.any (·.1 == o.name)
        if skip then Except.ok (out, done) else
        let done := if mult && o.isScope then done ++ [(o.name, false)] else done
        match v with
        | .none => (formatObj e fuel o .none).map (fun r => (out ++ [r], done))
        | .auto => (formatObj e fuel o .auto).map (fun r => (out ++ [r], done))
        | _ =>
          let pobjs : R (List PVal) := match v with
            | .record _ => .ok [v]
            | .multi _ l => .ok l
            | .list l => .ok l
            | _ => .error (.stray "TypeError" "format_iterate")
          match pobjs with
          | .error err => .error err
          | .ok pobjs =>
            let inner : (List Obj × List (Str × Bool)) → PVal → R (List Obj × List (Str × Bool)) := fun st pi =>
              let out : List Obj := st.1
              let done : List (Str × Bool) := st.2
              match pi with
              | .record fs =>
                (match fieldGet fs o.name with
                 | none => .ok (out, done)
                 | some sub =>
                   if !mult then (formatObj e fuel o sub).map (fun r => (out ++ [r], done))
                   else
                     let elems : R (List PVal) := match sub with
                       | .multi _ l => .ok l
                       | .list l => .ok l
                       | .words ws => .ok (ws.map (fun _ => PVal.none))   -- len() works, elements are words: outside the model
                       | .str _ => .error (.unsupported "len() of a str")
                       | _ => .error (.stray "TypeError" "format_len")
                     match elems with
                     | .error err => .error err
                     | .ok [] => .ok (out ++ [withTmpl o 1], done)
                     | .ok l =>
                       let needTmpl : Bool := match done.find? (fun (p : Str × Bool) => p.1 == o.name) with
                         | some p => !p.2
                         | none => false
                       let out2 : List Obj := if needTmpl then out ++ [withTmpl o (-1)] else out
                       let done2 : List (Str × Bool) :=
                         if needTmpl then done.map (fun (p : Str × Bool) => if p.1 == o.name then (p.1, true) else p) else done
                       let accStep : List Obj → PVal → R (List Obj) := fun acc x =>
                         (formatObj e fuel o x).map (fun r => acc ++ [r])
                       (l.foldlM accStep out2).map (fun r => (r, done2)))
              | _ => .error (.stray "AttributeError" "phil_get")
            pobjs.foldlM inner (out, done)
      match actives.foldlM step (([] : List Obj), ([] : List (Str × Bool))) with
      | .error err => .error err
      | .ok (out, _) => .ok (.scope { m with tmpl := 0 } out)

/-- `master.extract_format(source=candidate).as_str()` -/
def extractFormatStr (e : Envs) (fuel : Nat) (master cand : Obj) : R Str :=
  match extractObj e fuel cand with
  | .error err => .error err
  | .ok v =>
    match formatObj e fuel master v with
    | .error err => .error err
    | .ok f => (showObj {} f [] []).map unlines

/-! ### fetch -/

def hasDollar (ws : List Word) : Bool := ws.any (fun w => w.quote != some .s1 && w.value.contains '$')

/-- ids marked `tmp = True` while resolving the variables of a source definition -/
def srcRefs (o : Obj) : List Nat :=
  match o.meta.varRes with
  | some (.ok _ refs) => refs
  | _ => []

/-- definition.fetch_value -/
def fetchValue (master : Obj) (src : Obj) : R (Option Obj) :=
  match master, src with
  | .defn mm mws, .defn smeta sws0 =>
    -- `source.resolve_variables(diff_mode)`: the outcome was computed ahead (`Meta.varRes`)
    match (match smeta.varRes with
           | some (.err site line) => (Except.error (.runtime site line) : R (List Word))
           | some (.ok rws _) => .ok rws
           | none => if hasDollar sws0 then .error (.unsupported "variable in source") else .ok sws0) with
    | .error err => .error err
    | .ok sws =>
    let dep := (mm.attrs.get "deprecated").truthy
    if dep && ((isPlainNone sws && isPlainNone mws) || (isPlainAuto sws && isPlainAuto mws) ||
               (!isPlainNone sws && !isPlainAuto sws && !isPlainNone mws && !isPlainAuto mws &&
                sws.map (fun (w : Word) => w.value) == mws.map (fun (w : Word) => w.value))) then
      .ok none
    else
      match mm.attrs.get "type" with
      | .conv (.choice _) =>
        (choiceFetch mws (mm.attrs.get "optional") sws false).map (fun ws => some (.defn { mm with tmpl := 0 } ws))
      | _ => .ok (some (.defn { mm with tmpl := 0 } sws))
  | .defn mm _, .scope _ _ => .error (.runtime "incompatible" none)
  | _, _ => .error (.unsupported "fetchValue on a scope")

/-- definition.fetch (diff or not) -/
def fetchDefn (e : Envs) (fuel : Nat) (diff : Bool) (master src : Obj) : R (Option Obj) :=
  match fetchValue master src with
  | .error err => .error err
  | .ok r =>
    if !diff then .ok r else
    let cand := r.getD master
    match extractFormatStr e fuel master cand, extractFormatStr e fuel master master with
    | .error err, _ => .error err
    | _, .error err => .error err
    | .ok a, .ok b => if a == b then .ok none else .ok r

/-- `master_as_str` of a `.multiple` master object.  A definition is rendered as it stands
    (`master_object.extract_format().as_str()`); a scope is first fetched against itself
    (`master_object.fetch()`, no sources, never in diff mode — `self` is the outcome of that call) so that
    further instances of nested `.multiple` objects declared in its own content are merged before the
    block is extracted: `master_object.extract_format(source=master_object.fetch()).as_str()`.
    For a definition `self` is not looked at. -/
def masterKeyOf (e : Envs) (fuel : Nat) (mo : Obj) (self : R (Obj × List Nat)) : R Str :=
  match mo with
  | .defn _ _ => extractFormatStr e (fuel + 64) mo mo
  | .scope _ _ =>
    match self with
    | .error err => .error err
    | .ok (ro, _) => extractFormatStr e (fuel + 64) mo ro

/-- the default instance a mandatory (`.optional=False`) `.multiple` master object contributes to a
    non-diff result: live content, not a template (`is_template = 0`).  For a definition it is the
    master's copy; for a scope it is the scope's own fetch (`obj = master_object.fetch()`, the same
    call as for the master key — `self`), so that further instances of nested `.multiple` objects
    are merged in it like in any other instance.  (`self` is a success whenever this is used for a
    scope: `masterKeyOf` has failed otherwise.) -/
def defaultInstOf (mo : Obj) (self : R (Obj × List Nat)) : Obj :=
  match mo, self with
  | .scope _ _, .ok (ro, _) => withTmpl ro 0
  | _, _ => withTmpl mo 0

structure FetchOut where
  obj : Obj
  used : List Nat        -- primary ids of source definitions marked tmp=True

/-- scope.fetch.  `master` is the master scope (its meta and children), `sources` the list of source
    scopes' object lists already concatenated. Returns the result scope and the consumed source ids. -/
def fetchScope (e : Envs) : Nat → Bool → Meta → List Obj → List Obj → R (Obj × List Nat)
  | 0, _, _, _, _ => .error .outOfFuel
  | fuel + 1, diff, sm, mkids, combined =>
    match masterActiveObjects mkids with
    | .error err => .error err
    | .ok actives =>
      let srcScope : Obj := .scope { sm with tmpl := 0 } combined
      let step : (List Obj × List Nat) → (Nat × Obj) → R (List Obj × List Nat) := fun st io =>
        let out : List Obj := st.1
        let used : List Nat := st.2
        let idx : Nat := io.1
        let mo : Obj := io.2
        let path := if sm.name.isEmpty then mo.name else sm.name ++ '.' :: mo.name
        let matching : List Obj := (getWithoutSubst (fuel + 64) srcScope path).filter (fun (o : Obj) => !o.meta.disabled)
        if !isMultiple mo then
          match mo with
          | .defn mm _ =>
            -- every matching source is fetched (and marked used); the last one wins
            let one : (Option Obj × List Nat) → Obj → R (Option Obj × List Nat) := fun acc ms =>
              (fetchDefn e fuel diff mo ms).map (fun ro => (ro, acc.2 ++ (match ms.meta.id with | some i => [i] | none => []) ++ srcRefs ms))
            let r : R (Option Obj × List Nat) := matching.foldlM one ((none : Option Obj), used)
            (match r with
             | .error err => .error err
             | .ok (some ro, used) => .ok (out ++ [ro], used)
             | .ok (none, used) =>
               if !diff && !(mm.attrs.get "deprecated").truthy then .ok (out ++ [mo], used) else .ok (out, used))
          | .scope mm kids =>
            -- sources must be scopes
            (match matching.find? (·.isDefn) with
             | some _ => Except.error (.runtime "incompatible" none)
             | none =>
               match fetchScope e fuel diff mm kids (matching.flatMap Obj.children) with
               | .error err => .error err
               | .ok (ro, u2) =>
                 if diff && ro.children.isEmpty then .ok (out, used ++ u2) else .ok (out ++ [ro], used ++ u2))
        else
          -- multiple
          -- `master_object.fetch()` (a scope only): rendered for the master key, and emitted as the
          -- default instance of a mandatory object
          let self : R (Obj × List Nat) :=
            match mo with
            | .scope mm kids => fetchScope e fuel false mm kids []
            | .defn _ _ => .error .outOfFuel
          match masterKeyOf e fuel mo self with
          | .error err => .error err
          | .ok masterStr =>
            let fromMaster : List (Bool × Obj) :=
              ((mkids.zipIdx.filter (fun (p : Obj × Nat) => !p.1.meta.disabled && p.1.name == mo.name && p.2 != idx)).map
                (fun (p : Obj × Nat) => (true, p.1)))
            let cands : List (Bool × Obj) := fromMaster ++ matching.map (fun (o : Obj) => (false, o))
            let cstep : (List (Option Obj) × List (Str × Int) × List Nat) → (Bool × Obj) →
                R (List (Option Obj) × List (Str × Int) × List Nat) := fun acc fm =>
                  let robjs : List (Option Obj) := acc.1
                  let processed : List (Str × Int) := acc.2.1
                  let used : List Nat := acc.2.2
                  let fromM : Bool := fm.1
                  let ms : Obj := fm.2
                  let cand : R (Option Obj × List Nat) :=
                    match mo, ms with
                    | .defn _ _, _ =>
                      (fetchDefn e fuel diff mo ms).map (fun ro =>
                        (ro, (match ms.meta.id with | some i => (if fromM then [] else [i]) | none => []) ++ (if fromM then [] else srcRefs ms)))
                    | .scope mm kids, .scope _ skids =>
                      (fetchScope e fuel diff mm kids skids).map (fun (ro, u) =>
                        ((if diff && ro.children.isEmpty then none else some ro), if fromM then [] else u))
                    | .scope mm _, .defn _ _ => .error (.runtime "incompatible" none)
                  match cand with
                  | .error err => .error err
                  | .ok (none, u) =>
                    -- non-diff fetch of a deprecated default returns None: extract_format(None) = master
                    if diff then .ok (robjs, processed, used ++ u)
                    else .ok (robjs, processed, used ++ u)
                  | .ok (some c, u) =>
                    match extractFormatStr e (fuel + 64) mo c with
                    | .error err => .error err
                    | .ok cs =>
                      if cs == masterStr then .ok (robjs, processed, used ++ u)
                      else
                        let prev : Option (Str × Int) := processed.find? (fun (p : Str × Int) => p.1 == cs)
                        if (match prev with | some p => p.2 == -1 | none => false) then .ok (robjs, processed, used ++ u)
                        else
                          let robjs : List (Option Obj) := match prev with
                            | some p => robjs.zipIdx.map (fun (xi : Option Obj × Nat) => if (xi.2 : Int) == p.2 then none else xi.1)
                            | none => robjs
                          let processed : List (Str × Int) := processed.filter (fun (p : Str × Int) => p.1 != cs)
                          if diff && fromM then .ok (robjs, processed ++ [(cs, -1)], used ++ u)
                          else .ok (robjs ++ [some c], processed ++ [(cs, (robjs.length : Int))], used ++ u)
            let r : R (List (Option Obj) × List (Str × Int) × List Nat) :=
              cands.foldlM cstep (([] : List (Option Obj)), ([] : List (Str × Int)), used)
            match r with
            | .error err => .error err
            | .ok (robjs, processed, used) =>
              let tmplObjs : List Obj :=
                if diff then [] else
                  if (mo.attr "optional").mandatory then [defaultInstOf mo self]
                  else [withTmpl mo (if processed.isEmpty then 1 else -1)]
              .ok (out ++ tmplObjs ++ robjs.filterMap (fun (x : Option Obj) => x), used)
      match actives.foldlM step (([] : List Obj), ([] : List Nat)) with
      | .error err => .error err
      | .ok (out, used) => .ok (.scope { sm with tmpl := 0 } out, used)

/-- `master.fetch(sources=…, diff=…)` on parsed roots -/
def fetchRoot (e : Envs) (diff : Bool) (master : List Obj) (sources : List (List Obj)) : R (Obj × List Nat) :=
  let fuel := (master.foldl (fun a k => Nat.max a (depthObj 1000 k)) 0) + 3
  fetchScope e fuel diff { name := [], id := some 0 } master (sources.flatten)

end Phil
