/-
  Phil.CmdLineAuto — repair of the argument-interpreter model for `.expert_level = Auto`.

  `Phil.CmdLine.expertsObj` treats an `Auto` level like an unset one.  Python does not:
  `recursive_expert_level` returns any level that `is not None` — `Auto` included, inherited by the
  objects below — and the tie-break of an AMBIGUOUS best class evaluates `100 * score - exp_lvl` for
  every best match, which raises `TypeError: unsupported operand type(s) for -: 'int' and 'AutoType'`
  when that level is `Auto`.  (`score == max_score` is tested first, so only best matches count; with a
  unique best match the expression is never evaluated.)

  This file adds the `Auto` flags (`expertAutos`, aligned with `expertLevels`), the selection step with
  the TypeError (`choosePathA`) and `process_arg` on top of it (`processArgA`).  Where no competing
  target carries `Auto` they are `choosePath` / `processArg` (Phil/Proofs/NoStray3.lean), so every
  theorem about those applies unchanged.  The driver (Main.lean) answers with `processArgA`.
-/
import Phil.CmdLine
namespace Phil

/-- the (inherited) level of an object given the inherited flag: an integer level is not `Auto`, an
    `Auto` level is, anything else (unset) inherits -/
def autoFlag (own : AttrVal) (inh : Bool) : Bool :=
  match own with
  | .int _ => false
  | .auto => true
  | _ => inh

/-- "the recursive expert level is `Auto`" for every entry of `all_definitions`, in the same order as
    `expertsObj` -/
def autosObj : Obj → Bool → List Bool
  | .defn m _, inh =>
    if m.name == "include".toList then [] else [autoFlag (m.attrs.get "expert_level") inh]
  | .scope m os, inh => autosList os (autoFlag (m.attrs.get "expert_level") inh)
where
  autosList : List Obj → Bool → List Bool
    | [], _ => []
    | o :: os, inh => (if o.meta.disabled then [] else autosObj o inh) ++ autosList os inh

def expertAutos (rootObjs : List Obj) : List Bool := autosObj.autosList rootObjs false

/-- target paths with their recursive expert levels and `Auto` flags, one entry per parameter (the same
    de-duplication as `targetEntries`) -/
def targetEntriesA (rootObjs : List Obj) (experts : List Int) (autos : List Bool) : List (Str × Int × Bool) :=
  let all := ((allDefsObj.allDefsList rootObjs []).map (·.1)).zip (experts.zip autos)
  all.foldl (fun acc pe => if acc.any (·.1 == pe.1) then acc else acc ++ [pe]) []

/-- "a best match carries `Auto`": the condition under which `100 * score - exp_lvl` raises -/
def autoInBest (scores : List Nat) (autos : List Bool) (mx : Nat) : Bool :=
  (scores.zip autos).any (fun p => p.1 == mx && p.2)

/-- the selection step with the TypeError of the tie-break -/
def choosePathA (home : Option Str) (targets : List Str) (experts : List Int) (autos : List Bool)
    (src : Str) : Except Err Choice :=
  let scores := targets.map (getPathScore home src)
  let mx := maxNat scores
  if mx == 0 then .ok .unknown
  else
    match indicesOf (· == mx) scores with
    | [i] => .ok (.chosen i false)
    | _ =>
      if autoInBest scores autos mx then .error (.stray "TypeError" "expert_tiebreak")
      else .ok (choosePath home targets experts src)

/-- argument_interpreter.process_arg with the repaired selection step -/
def processArgA (home : Option Str) (targets : List Str) (experts : List Int) (autos : List Bool)
    (arg : Str) : ArgOutcome :=
  match parseObjs arg with
  | .error (.unsupported w) => .runtime (.unsupported w)
  | .error _ => .sorry_ "arg_syntax" []
  | .ok objs =>
    let defs := allDefinitions objs
    let step : Option (Except ArgOutcome Str) → (Str × Meta × List Word) → Option (Except ArgOutcome Str) :=
      fun acc (path, m, ws) =>
        match acc with
        | some (.error e) => some (.error e)
        | some (.ok text) =>
          (match choosePathA home targets experts autos path with
           | .error e => some (.error (.runtime e))
           | .ok c =>
             (match c with
              | .unknown => some (.error (.sorry_ "unknown" []))
              | .ambiguous best => some (.error (.sorry_ "ambiguous" (best.filterMap (targets[·]?))))
              | .chosen i _ =>
                (match targets[i]? with
                 | none => some (.error (.runtime (.stray "IndexError" "target_paths")))
                 | some tp =>
                   (match showDefn {} { m with name := tp, tmpl := 0 } ws [] [] with
                    | .error e => some (.error (.runtime e))
                    | .ok lines => some (.ok (text ++ unlines lines))))))
        | none => none
    match defs.foldl step (some (.ok [])) with
    | some (.error out) => out
    | some (.ok text) =>
      if text.isEmpty then .sorry_ "no_effect" []
      else (match parseObjs text with
        | .ok r => .ok r
        | .error e => .runtime e)
    | none => .runtime (.stray "?" "unreachable")

end Phil
