/-
  Phil.Proofs.IndexTreeLemmas2 — the GUI index (C20) on nested masters, continued.

    1. paths: `joinPath`, ownership of a path by a sibling name, prefix lemma for the visits below a scope;
    2. `WellGrouped` working trees (`wuList` / `pairOK`, executable): sibling names non-empty and dot-free,
       two siblings of one name are both `.multiple`, recursively below every scope that is NOT `.multiple`;
       main lemma `uniform_of_wu_it2`: on such a tree every path that is not inside a live `.multiple`
       scope is uniform (all live objects `.multiple`, or exactly one object that is not);
    3. fetch results are well grouped: `treeMultiResult` on `TreeMultiMaster`, `msResult` on `MSMaster`
       (masters whose `.multiple` attributes are booleans, `multBoolL`).
  All names carry the suffix `_it2`.
-/
import Phil.Proofs.IndexTreeLemmas
import Phil.Proofs.IndexPathsLemmas
import Phil.Proofs.FetchTreeMS
set_option linter.unusedVariables false
namespace Phil

/-! ## 1. paths -/

/-- what `joinPath` puts in front of the name -/
def pathPre (pfx : Str) : Str := if pfx.isEmpty then [] else pfx ++ ['.']

theorem joinPath_eq_it2 (pfx n : Str) : joinPath pfx n = pathPre pfx ++ n := by
  unfold joinPath pathPre
  cases pfx with
  | nil => rfl
  | cons c r => simp

theorem joinPath_ne_nil_it2 (pfx n : Str) (hn : n ≠ []) : joinPath pfx n ≠ [] := by
  rw [joinPath_eq_it2]
  intro h
  exact hn (List.append_eq_nil_iff.mp h).2

theorem joinPath_of_ne_nil_it2 (pfx n : Str) (hp : pfx ≠ []) : joinPath pfx n = pfx ++ '.' :: n := by
  unfold joinPath
  cases pfx with
  | nil => exact absurd rfl hp
  | cons c r => rfl

/-- the path `p` is the path of the sibling called `n` (below the prefix `pfx`) or lies below it -/
def Owns (pfx n p : Str) : Prop := p = joinPath pfx n ∨ startsWith (joinPath pfx n ++ ['.']) p = true

theorem owns_disjoint_it2 {pfx n n' p : Str} (hn : '.' ∉ n) (hn' : '.' ∉ n') (h : Owns pfx n p)
    (h' : Owns pfx n' p) : n = n' := by
  unfold Owns at h h'
  rw [joinPath_eq_it2, startsWith_iff_tree] at h h'
  have key : ∀ (a b : Str) (t t' : Str), '.' ∉ a → '.' ∉ b → (t = [] ∨ ∃ r, t = '.' :: r) →
      (t' = [] ∨ ∃ r, t' = '.' :: r) → a ++ t = b ++ t' → a = b := by
    intro a b t t' ha hb ht ht' heq
    rcases ht with rfl | ⟨r, rfl⟩ <;> rcases ht' with rfl | ⟨r', rfl⟩
    · simpa using heq
    · rw [List.append_nil] at heq
      exact absurd (heq ▸ (by simp : '.' ∈ b ++ '.' :: r')) ha
    · rw [List.append_nil] at heq
      exact absurd (heq ▸ (by simp : '.' ∈ a ++ '.' :: r)) hb
    · exact (dotfree_prefix_unique_tree a b r r' ha hb heq).1
  have e1 : ∃ t, (t = [] ∨ ∃ r, t = '.' :: r) ∧ p = pathPre pfx ++ (n ++ t) := by
    rcases h with h | ⟨r, h⟩
    · exact ⟨[], .inl rfl, by rw [h]; simp⟩
    · exact ⟨'.' :: r, .inr ⟨r, rfl⟩, by rw [h]; simp⟩
  have e2 : ∃ t, (t = [] ∨ ∃ r, t = '.' :: r) ∧ p = pathPre pfx ++ (n' ++ t) := by
    rcases h' with h | ⟨r, h⟩
    · exact ⟨[], .inl rfl, by rw [h]; simp⟩
    · exact ⟨'.' :: r, .inr ⟨r, rfl⟩, by rw [h]; simp⟩
  obtain ⟨t, ht, hp⟩ := e1
  obtain ⟨t', ht', hp'⟩ := e2
  rw [hp] at hp'
  exact key n n' t t' hn hn' ht ht' (List.append_cancel_left hp')

theorem startsWith_dot_ne_self_it2 (q : Str) : startsWith (q ++ ['.']) q = false := by
  cases h : startsWith (q ++ ['.']) q with
  | false => rfl
  | true =>
    obtain ⟨r, hr⟩ := (startsWith_iff_tree _ _).mp h
    have := congrArg List.length hr
    simp at this

theorem startsWith_trans_dot_it2 (pfx n x : Str) (h : startsWith ((pfx ++ '.' :: n) ++ ['.']) x = true) :
    startsWith (pfx ++ ['.']) x = true := by
  obtain ⟨r, hr⟩ := (startsWith_iff_tree _ _).mp h
  exact (startsWith_iff_tree _ _).mpr ⟨n ++ '.' :: r, by rw [hr]; simp⟩

mutual
/-- every visit below a scope whose full path is `pfx ≠ []` has a path that starts with `pfx.` -/
theorem visitObj_prefix_it2 (skip : Int → Bool) : ∀ (o : Obj) (pfx : Str) (pos : Nat), pfx ≠ [] →
    ∀ v ∈ visitObj skip pfx pos o, startsWith (pfx ++ ['.']) v.path = true
  | .defn m ws, pfx, pos, hp, v, hv => by
    rw [visitObj] at hv
    split at hv
    · cases hv
    · rw [List.mem_singleton] at hv
      subst hv
      show startsWith (pfx ++ ['.']) (joinPath pfx m.name) = true
      rw [joinPath_of_ne_nil_it2 pfx _ hp]
      exact startsWith_self_dot_tree _ _
  | .scope m kids, pfx, pos, hp, v, hv => by
    rw [visitObj] at hv
    split at hv
    · cases hv
    · rw [List.mem_cons] at hv
      rcases hv with rfl | hv
      · show startsWith (pfx ++ ['.']) (joinPath pfx m.name) = true
        rw [joinPath_of_ne_nil_it2 pfx _ hp]
        exact startsWith_self_dot_tree _ _
      · have hq : joinPath pfx m.name ≠ [] := by
          rw [joinPath_of_ne_nil_it2 pfx _ hp]; simp
        have := visitList_prefix_it2 skip kids _ (pos + 1) hq v hv
        rw [joinPath_of_ne_nil_it2 pfx _ hp] at this
        exact startsWith_trans_dot_it2 pfx m.name v.path this
theorem visitList_prefix_it2 (skip : Int → Bool) : ∀ (l : List Obj) (pfx : Str) (pos : Nat), pfx ≠ [] →
    ∀ v ∈ visitList skip pfx pos l, startsWith (pfx ++ ['.']) v.path = true
  | [], pfx, pos, hp, v, hv => by rw [visitList] at hv; cases hv
  | o :: os, pfx, pos, hp, v, hv => by
    rw [visitList, List.mem_append] at hv
    rcases hv with hv | hv
    · exact visitObj_prefix_it2 skip o pfx pos hp v hv
    · exact visitList_prefix_it2 skip os pfx _ hp v hv
end

/-- the visits of an object lie on or below its own path -/
theorem visitObj_owns_it2 (skip : Int → Bool) (o : Obj) (pfx : Str) (pos : Nat) (hn : o.name ≠ []) :
    ∀ v ∈ visitObj skip pfx pos o, Owns pfx o.name v.path := by
  intro v hv
  cases o with
  | defn m ws =>
    rw [visitObj] at hv
    split at hv
    · cases hv
    · rw [List.mem_singleton] at hv
      subst hv
      exact .inl rfl
  | scope m kids =>
    rw [visitObj] at hv
    split at hv
    · cases hv
    · rw [List.mem_cons] at hv
      rcases hv with rfl | hv
      · exact .inl rfl
      · exact .inr (visitList_prefix_it2 skip kids _ (pos + 1) (joinPath_ne_nil_it2 pfx m.name hn) v hv)

/-- every visit of a list of siblings is a visit of one of them (all of whose visits are in the list) -/
theorem visitList_mem_it2 (skip : Int → Bool) : ∀ (l : List Obj) (pfx : Str) (pos : Nat),
    ∀ v ∈ visitList skip pfx pos l, ∃ o ∈ l, ∃ pos', v ∈ visitObj skip pfx pos' o ∧
      ∀ v' ∈ visitObj skip pfx pos' o, v' ∈ visitList skip pfx pos l
  | [], pfx, pos, v, hv => by rw [visitList] at hv; cases hv
  | o :: os, pfx, pos, v, hv => by
    rw [visitList, List.mem_append] at hv
    rcases hv with hv | hv
    · exact ⟨o, List.mem_cons_self, pos, hv, fun v' hv' => by
        rw [visitList]; exact List.mem_append_left _ hv'⟩
    · obtain ⟨o', ho', pos', h, hsub⟩ := visitList_mem_it2 skip os pfx _ v hv
      exact ⟨o', List.mem_cons_of_mem _ ho', pos', h, fun v' hv' => by
        rw [visitList]; exact List.mem_append_right _ (hsub v' hv')⟩

theorem visitList_append_it2 (skip : Int → Bool) : ∀ (a b : List Obj) (pfx : Str) (pos : Nat),
    visitList skip pfx pos (a ++ b) = visitList skip pfx pos a ++ visitList skip pfx (pos + nodeCountL a) b
  | [], b, pfx, pos => by rw [visitList, nodeCountL]; rfl
  | o :: os, b, pfx, pos => by
    rw [List.cons_append, visitList, visitList, visitList_append_it2 skip os b, nodeCountL,
      List.append_assoc, Nat.add_assoc]

/-! ## 2. well-grouped working trees -/

/-- the template test of `reindex_phil_objects` -/
def skipNegI : Int → Bool := fun t => decide (t < 0)


/-- two siblings of one name are both `.multiple` -/
def pairOK : List Obj → Bool
  | [] => true
  | o :: os => os.all (fun o' => o'.name != o.name || (multipleIsTrue o && multipleIsTrue o')) && pairOK os

mutual
def wuObj : Obj → Bool
  | .defn _ _ => true
  | .scope m kids => multipleIsTrue (.scope m kids) || (wuList kids && pairOK kids)
/-- sibling names are non-empty and dot-free, and below every scope that is not `.multiple` the same
    holds together with `pairOK` -/
def wuList : List Obj → Bool
  | [] => true
  | o :: os => !o.name.isEmpty && !o.name.contains '.' && wuObj o && wuList os
end

/-- **well-grouped working tree** (executable) -/
def wellGroupedB (w : List Obj) : Bool := wuList w && pairOK w

theorem pairOK_iff_it2 : ∀ (l : List Obj), pairOK l = true ↔
    l.Pairwise (fun a b => a.name = b.name → multipleIsTrue a = true ∧ multipleIsTrue b = true)
  | [] => by simp [pairOK]
  | o :: os => by
    rw [pairOK, Bool.and_eq_true, pairOK_iff_it2 os, List.pairwise_cons, List.all_eq_true]
    constructor
    · rintro ⟨h1, h2⟩
      refine ⟨?_, h2⟩
      intro o' ho' hname
      have := h1 o' ho'
      simp only [Bool.or_eq_true, bne_iff_ne, ne_eq, Bool.and_eq_true] at this
      rcases this with h | h
      · exact absurd hname.symm h
      · exact h
    · rintro ⟨h1, h2⟩
      refine ⟨?_, h2⟩
      intro o' ho'
      simp only [Bool.or_eq_true, bne_iff_ne, ne_eq, Bool.and_eq_true]
      by_cases hname : o'.name = o.name
      · exact .inr (h1 o' ho' hname.symm)
      · exact .inl hname

theorem wuList_mem_it2 : ∀ (l : List Obj), wuList l = true → ∀ o ∈ l, o.name ≠ [] ∧ '.' ∉ o.name ∧ wuObj o = true
  | [], _, o, ho => by cases ho
  | a :: os, h, o, ho => by
    rw [wuList] at h
    simp only [Bool.and_eq_true, Bool.not_eq_true', List.isEmpty_eq_false_iff] at h
    rw [List.mem_cons] at ho
    rcases ho with rfl | ho
    · refine ⟨h.1.1.1, ?_, h.1.2⟩
      have := h.1.1.2
      simpa using this
    · exact wuList_mem_it2 os h.2 o ho

theorem wuList_of_forall_it2 : ∀ (l : List Obj),
    (∀ o ∈ l, o.name ≠ [] ∧ '.' ∉ o.name ∧ wuObj o = true) → wuList l = true
  | [], _ => rfl
  | a :: os, h => by
    rw [wuList]
    obtain ⟨h1, h2, h3⟩ := h a List.mem_cons_self
    simp only [Bool.and_eq_true, Bool.not_eq_true', List.isEmpty_eq_false_iff]
    refine ⟨⟨⟨h1, ?_⟩, h3⟩, wuList_of_forall_it2 os (fun o ho => h o (List.mem_cons_of_mem _ ho))⟩
    simpa using h2

/-- the visits at `p`: a visit that is not `.multiple` is alone -/
def Uni (F : List Visit) : Prop := ∀ x ∈ F, multipleIsTrue x.obj = false → F = [x]

/-- no live `.multiple` scope among the visits has `p` strictly below it -/
def NotBelowMulti (vs : List Visit) (p : Str) : Prop :=
  ∀ v ∈ vs, v.obj.isDefn = false → multipleIsTrue v.obj = true → startsWith (v.path ++ ['.']) p = false

theorem uni_nil_it2 : Uni [] := fun x hx => by cases hx
theorem uni_single_it2 (v : Visit) : Uni [v] := fun x hx _ => by
  rw [List.mem_singleton] at hx; rw [hx]

theorem filter_prefix_nil_it2 (vs : List Visit) (q p : Str)
    (hall : ∀ v ∈ vs, startsWith (q ++ ['.']) v.path = true) (hp : startsWith (q ++ ['.']) p = false) :
    vs.filter (fun v => v.path == p) = [] := by
  rw [List.filter_eq_nil_iff]
  intro v hv hvp
  have : v.path = p := by simpa using hvp
  rw [← this, hall v hv] at hp
  cases hp

mutual
theorem uniObj_it2 : ∀ (o : Obj) (pfx : Str) (pos : Nat) (p : Str), o.name ≠ [] → wuObj o = true →
    NotBelowMulti (visitObj skipNegI pfx pos o) p →
    Uni ((visitObj skipNegI pfx pos o).filter (fun v => v.path == p))
  | .defn m ws, pfx, pos, p, hn, hwu, hex => by
    rw [visitObj]
    split
    · exact uni_nil_it2
    · rw [List.filter_cons]
      split
      · exact uni_single_it2 _
      · exact uni_nil_it2
  | .scope m kids, pfx, pos, p, hn, hwu, hex => by
    rw [visitObj] at hex ⊢
    split
    · exact uni_nil_it2
    · rename_i hsk
      simp only [hsk] at hex
      have hq : joinPath pfx m.name ≠ [] := joinPath_ne_nil_it2 pfx m.name hn
      have hkids := visitList_prefix_it2 skipNegI kids _ (pos + 1) hq
      rw [List.filter_cons]
      by_cases hpq : (joinPath pfx m.name == p) = true
      · have hpq' : joinPath pfx m.name = p := by simpa using hpq
        simp only [hpq, if_true]
        rw [filter_prefix_nil_it2 _ (joinPath pfx m.name) p hkids
          (by rw [← hpq']; exact startsWith_dot_ne_self_it2 _)]
        exact uni_single_it2 _
      · simp only [hpq]
        rw [wuObj, Bool.or_eq_true] at hwu
        by_cases hmul : multipleIsTrue (.scope m kids) = true
        · -- a live `.multiple` scope: `p` is not below it, so nothing below it is at `p`
          have := hex ⟨joinPath pfx m.name, pos, .scope m kids⟩ List.mem_cons_self rfl hmul
          rw [filter_prefix_nil_it2 _ (joinPath pfx m.name) p hkids this]
          exact uni_nil_it2
        · rcases hwu with h | h
          · exact absurd h hmul
          · rw [Bool.and_eq_true] at h
            exact uniList_it2 kids _ (pos + 1) p h.1 h.2
              (fun v hv => hex v (List.mem_cons_of_mem _ hv))
theorem uniList_it2 : ∀ (l : List Obj) (pfx : Str) (pos : Nat) (p : Str), wuList l = true → pairOK l = true →
    NotBelowMulti (visitList skipNegI pfx pos l) p →
    Uni ((visitList skipNegI pfx pos l).filter (fun v => v.path == p))
  | [], pfx, pos, p, _, _, _ => by rw [visitList]; exact uni_nil_it2
  | o :: os, pfx, pos, p, hwu, hpair, hex => by
    have hmem := wuList_mem_it2 (o :: os) hwu
    obtain ⟨hon, hod, hou⟩ := hmem o List.mem_cons_self
    rw [wuList, Bool.and_eq_true] at hwu
    rw [pairOK, Bool.and_eq_true, List.all_eq_true] at hpair
    rw [visitList] at hex ⊢
    rw [List.filter_append]
    have hexo : NotBelowMulti (visitObj skipNegI pfx pos o) p :=
      fun v hv => hex v (List.mem_append_left _ hv)
    have hexs : NotBelowMulti (visitList skipNegI pfx (pos + o.nodeCount) os) p :=
      fun v hv => hex v (List.mem_append_right _ hv)
    have ihO := uniObj_it2 o pfx pos p hon hou hexo
    have ihL := uniList_it2 os pfx (pos + o.nodeCount) p hwu.2 hpair.2 hexs
    -- a non-multiple visit `x` below the `.multiple` object `o'` is excluded
    have excl : ∀ (o' : Obj) (pos' : Nat) (vs : List Visit), o'.name ≠ [] → multipleIsTrue o' = true →
        (∀ v ∈ visitObj skipNegI pfx pos' o', v ∈ vs) → NotBelowMulti vs p →
        ∀ x ∈ visitObj skipNegI pfx pos' o', x.path = p → multipleIsTrue x.obj = false → False := by
      intro o' pos' vs hn' hm' hsub hnb x hx hxp hxm
      cases o' with
      | defn m ws =>
        rw [visitObj] at hx
        split at hx
        · cases hx
        · rw [List.mem_singleton] at hx
          subst hx
          rw [hm'] at hxm; cases hxm
      | scope m kids =>
        have hsub' := hsub
        rw [visitObj] at hx hsub'
        split at hx
        · cases hx
        · rename_i hsk
          simp only [hsk] at hsub'
          rw [List.mem_cons] at hx
          rcases hx with rfl | hx
          · rw [hm'] at hxm; cases hxm
          · have h1 := hnb _ (hsub' _ List.mem_cons_self) rfl hm'
            have h2 := visitList_prefix_it2 skipNegI kids _ (pos' + 1)
              (joinPath_ne_nil_it2 pfx m.name hn') x hx
            rw [hxp] at h2
            simp only at h1
            rw [h1] at h2; cases h2
    intro x hx hxm
    rw [List.mem_append] at hx
    rcases hx with hx | hx
    · -- `x` comes from `o`: nothing from the other siblings is at `p`
      have hFo := ihO x hx hxm
      have hxo := (List.mem_filter.mp hx).1
      have hxp : x.path = p := by simpa using (List.mem_filter.mp hx).2
      cases hFs : (visitList skipNegI pfx (pos + o.nodeCount) os).filter (fun v => v.path == p) with
      | nil => rw [hFo, List.append_nil]
      | cons y ys =>
        exfalso
        have hy : y ∈ (visitList skipNegI pfx (pos + o.nodeCount) os).filter (fun v => v.path == p) := by
          rw [hFs]; exact List.mem_cons_self
        have hyp : y.path = p := by simpa using (List.mem_filter.mp hy).2
        obtain ⟨o', ho', pos', hyo', _⟩ := visitList_mem_it2 skipNegI os pfx _ y (List.mem_filter.mp hy).1
        obtain ⟨hn', hd', _⟩ := hmem o' (List.mem_cons_of_mem _ ho')
        have hname : o.name = o'.name := owns_disjoint_it2 hod hd'
          (hxp ▸ visitObj_owns_it2 skipNegI o pfx pos hon x hxo)
          (hyp ▸ visitObj_owns_it2 skipNegI o' pfx pos' hn' y hyo')
        have hb := hpair.1 o' ho'
        simp only [Bool.or_eq_true, bne_iff_ne, ne_eq, Bool.and_eq_true] at hb
        rcases hb with hb | hb
        · exact hb hname.symm
        · exact excl o pos _ hon hb.1 (fun v hv => hv) hexo x hxo hxp hxm
    · have hFs := ihL x hx hxm
      have hxs := (List.mem_filter.mp hx).1
      have hxp : x.path = p := by simpa using (List.mem_filter.mp hx).2
      cases hFo : (visitObj skipNegI pfx pos o).filter (fun v => v.path == p) with
      | nil => rw [hFs, List.nil_append]
      | cons y ys =>
        exfalso
        have hy : y ∈ (visitObj skipNegI pfx pos o).filter (fun v => v.path == p) := by
          rw [hFo]; exact List.mem_cons_self
        have hyp : y.path = p := by simpa using (List.mem_filter.mp hy).2
        obtain ⟨o', ho', pos', hxo', hsub'⟩ := visitList_mem_it2 skipNegI os pfx _ x hxs
        obtain ⟨hn', hd', _⟩ := hmem o' (List.mem_cons_of_mem _ ho')
        have hname : o.name = o'.name := owns_disjoint_it2 hod hd'
          (hyp ▸ visitObj_owns_it2 skipNegI o pfx pos hon y (List.mem_filter.mp hy).1)
          (hxp ▸ visitObj_owns_it2 skipNegI o' pfx pos' hn' x hxo')
        have hb := hpair.1 o' ho'
        simp only [Bool.or_eq_true, bne_iff_ne, ne_eq, Bool.and_eq_true] at hb
        rcases hb with hb | hb
        · exact hb hname.symm
        · exact excl o' pos' _ hn' hb.2 hsub' hexs x hxo' hxp hxm
end

/-! ## 3. fetch results are well grouped -/

theorem multipleIsTrue_congr_it2 {o o' : Obj} (h : o.meta.attrs = o'.meta.attrs) :
    multipleIsTrue o = multipleIsTrue o' := by
  unfold multipleIsTrue Obj.attr
  rw [h]

theorem truthy_of_multipleIsTrue_it2 {o : Obj} (h : multipleIsTrue o = true) : isMultiple o = true := by
  unfold multipleIsTrue at h
  unfold isMultiple
  split at h
  · rename_i heq; rw [heq]; rfl
  · cases h

mutual
/-- `.multiple` attributes are booleans (what `assign_attribute` stores): truthy ⇒ `is True` -/
def multBoolObj : Obj → Bool
  | .defn mm ws => !isMultiple (.defn mm ws) || multipleIsTrue (.defn mm ws)
  | .scope mm kids => (!isMultiple (.scope mm kids) || multipleIsTrue (.scope mm kids)) && multBoolL kids
def multBoolL : List Obj → Bool
  | [] => true
  | o :: os => multBoolObj o && multBoolL os
end

theorem multBoolObj_here_it2 : ∀ (o : Obj), multBoolObj o = true → isMultiple o = true → multipleIsTrue o = true
  | .defn mm ws, h, hm => by
    rw [multBoolObj, hm] at h
    simpa using h
  | .scope mm kids, h, hm => by
    rw [multBoolObj, hm] at h
    simp only [Bool.not_true, Bool.false_or, Bool.and_eq_true] at h
    exact h.1

theorem pairwise_of_forall_it2 {α : Type} {R : α → α → Prop} : ∀ (l : List α),
    (∀ a ∈ l, ∀ b ∈ l, R a b) → l.Pairwise R
  | [], _ => List.Pairwise.nil
  | a :: l, h => List.Pairwise.cons (fun b hb => h a List.mem_cons_self b (List.mem_cons_of_mem _ hb))
      (pairwise_of_forall_it2 l (fun x hx y hy => h x (List.mem_cons_of_mem _ hx) y (List.mem_cons_of_mem _ hy)))

/-- a block is either one object or consists of `.multiple` objects only -/
theorem msBlock_pair_it2 (e : Envs) (mo : Obj) (srcs : List Obj) (hb : multBoolObj mo = true) :
    (msBlock e mo srcs).Pairwise
      (fun a b => a.name = b.name → multipleIsTrue a = true ∧ multipleIsTrue b = true) := by
  cases hm : isMultiple mo with
  | false =>
    have hl := msBlock_plain_length e mo srcs hm
    match hB : msBlock e mo srcs, hl with
    | [x], _ => exact List.pairwise_singleton _ _
  | true =>
    have hmt := multBoolObj_here_it2 mo hb hm
    apply pairwise_of_forall_it2
    intro a ha b hb' _
    exact ⟨by rw [multipleIsTrue_congr_it2 (msBlock_member_attrs_ms e mo srcs a ha)]; exact hmt,
      by rw [multipleIsTrue_congr_it2 (msBlock_member_attrs_ms e mo srcs b hb')]; exact hmt⟩

mutual
theorem wuBlock_ms_it2 (e : Envs) : ∀ (mo : Obj) (srcs : List Obj), MSObj mo → multBoolObj mo = true →
    ∀ o ∈ msBlock e mo srcs, wuObj o = true
  | .defn mm mws, srcs, hms, hb, o, ho => by
    have := (msBlock_member_ms e _ srcs o ho).2.2
    cases o with
    | defn m ws => rfl
    | scope m k => cases this
  | .scope mm kids, srcs, hms, hb, o, ho => by
    have hattr := msBlock_member_attrs_ms e _ srcs o ho
    have hkind := (msBlock_member_ms e _ srcs o ho).2.2
    cases hm : isMultiple (.scope mm kids) with
    | true =>
      have hmt := multBoolObj_here_it2 _ hb hm
      cases o with
      | defn m ws => rfl
      | scope m k =>
        rw [wuObj, multipleIsTrue_congr_it2 hattr, hmt]
        rfl
    | false =>
      have hm' : (mm.attrs.get "multiple").truthy = false := hm
      rw [msBlock] at ho
      simp only [hm', Bool.false_eq_true, if_false, List.mem_singleton] at ho
      subst ho
      rw [MSObj] at hms
      rw [multBoolObj, Bool.and_eq_true] at hb
      have := wuRes_ms_it2 e kids (srcStep srcs mm.name) hms.2.2.2.1 hms.2.2.2.2 hb.2
      rw [wuObj, this.1, this.2]
      simp
theorem wuRes_ms_it2 (e : Envs) : ∀ (l : List Obj) (srcs : List Obj), MSKids l →
    (l.map Obj.name).Pairwise (· ≠ ·) → multBoolL l = true →
    wuList (msResult e l srcs) = true ∧ pairOK (msResult e l srcs) = true
  | [], srcs, _, _, _ => by rw [msResult]; exact ⟨rfl, rfl⟩
  | mo :: rest, srcs, hk, hd, hb => by
    rw [MSKids] at hk
    rw [multBoolL, Bool.and_eq_true] at hb
    rw [List.map_cons, List.pairwise_cons] at hd
    have ih := wuRes_ms_it2 e rest srcs hk.2 hd.2 hb.2
    have hblk := wuBlock_ms_it2 e mo srcs hk.1 hb.1
    rw [msResult]
    constructor
    · apply wuList_of_forall_it2
      intro o ho
      rw [List.mem_append] at ho
      rcases ho with ho | ho
      · have hn := (msBlock_member_ms e mo srcs o ho).1
        exact ⟨by rw [hn]; exact hk.1.name_ne, by rw [hn]; exact hk.1.dotfree, hblk o ho⟩
      · exact wuList_mem_it2 _ ih.1 o ho
    · rw [pairOK_iff_it2, List.pairwise_append]
      refine ⟨msBlock_pair_it2 e mo srcs hb.1, (pairOK_iff_it2 _).mp ih.2, ?_⟩
      intro a ha b hb' hname
      exfalso
      rw [msResult_eq_flatMap, List.mem_flatMap] at hb'
      obtain ⟨mo', hmo', hb''⟩ := hb'
      have h1 := (msBlock_member_ms e mo srcs a ha).1
      have h2 := (msBlock_member_ms e mo' srcs b hb'').1
      exact hd.1 mo'.name (List.mem_map.mpr ⟨mo', hmo', rfl⟩) (by rw [← h1, ← h2, hname])
end

/-- **the result of fetching an `MSMaster` is well grouped** -/
theorem wellGrouped_msResult_it2 (e : Envs) (l srcs : List Obj) (hf : MSMaster l) (hb : multBoolL l = true) :
    wellGroupedB (msResult e l srcs) = true := by
  unfold wellGroupedB
  have := wuRes_ms_it2 e l srcs hf.kids hf.distinct hb
  rw [this.1, this.2]; rfl

mutual
theorem msBlock_eq_tm_it2 (e : Envs) : ∀ (mo : Obj) (srcs : List Obj), TMObj mo →
    msBlock e mo srcs = tmBlock e mo srcs
  | .defn mm mws, srcs, _ => by rw [msBlock]
  | .scope mm kids, srcs, h => by
    rw [TMObj] at h
    rw [msBlock, tmBlock]
    simp only [h.1, Bool.false_eq_true, if_false]
    rw [msResult_eq_tm_it2 e kids _ h.2.2.2.2.1]
/-- on masters without `.multiple` scopes the two closed forms coincide -/
theorem msResult_eq_tm_it2 (e : Envs) : ∀ (l : List Obj) (srcs : List Obj), TMKids l →
    msResult e l srcs = treeMultiResult e l srcs
  | [], srcs, _ => by rw [msResult, treeMultiResult]
  | mo :: rest, srcs, h => by
    rw [TMKids] at h
    rw [msResult, treeMultiResult, msBlock_eq_tm_it2 e mo srcs h.1, msResult_eq_tm_it2 e rest srcs h.2]
end

/-- **the result of fetching a `TreeMultiMaster` is well grouped** -/
theorem wellGrouped_treeMultiResult_it2 (e : Envs) (l srcs : List Obj) (hf : TreeMultiMaster l)
    (hb : multBoolL l = true) : wellGroupedB (treeMultiResult e l srcs) = true := by
  rw [← msResult_eq_tm_it2 e l srcs hf.kids]
  exact wellGrouped_msResult_it2 e l srcs hf.toMS hb

/-! ### no `.multiple` scope at all (results of a `TreeMultiMaster`) -/

mutual
def noMSObj : Obj → Bool
  | .defn _ _ => true
  | .scope m kids => !multipleIsTrue (.scope m kids) && noMSList kids
/-- no scope of the tree is `.multiple` -/
def noMSList : List Obj → Bool
  | [] => true
  | o :: os => noMSObj o && noMSList os
end

theorem noMSList_append_it2 : ∀ (a b : List Obj), noMSList (a ++ b) = (noMSList a && noMSList b)
  | [], b => by rw [noMSList]; rfl
  | o :: os, b => by rw [List.cons_append, noMSList, noMSList, noMSList_append_it2 os b, Bool.and_assoc]

mutual
theorem noMS_visitObj_it2 (skip : Int → Bool) : ∀ (o : Obj) (pfx : Str) (pos : Nat), noMSObj o = true →
    ∀ v ∈ visitObj skip pfx pos o, v.obj.isDefn = false → multipleIsTrue v.obj = false
  | .defn m ws, pfx, pos, _, v, hv, hd => by
    rw [visitObj] at hv
    split at hv
    · cases hv
    · rw [List.mem_singleton] at hv; subst hv; cases hd
  | .scope m kids, pfx, pos, h, v, hv, hd => by
    rw [noMSObj, Bool.and_eq_true] at h
    rw [visitObj] at hv
    split at hv
    · cases hv
    · rw [List.mem_cons] at hv
      rcases hv with rfl | hv
      · simpa using h.1
      · exact noMS_visitList_it2 skip kids _ _ h.2 v hv hd
theorem noMS_visitList_it2 (skip : Int → Bool) : ∀ (l : List Obj) (pfx : Str) (pos : Nat), noMSList l = true →
    ∀ v ∈ visitList skip pfx pos l, v.obj.isDefn = false → multipleIsTrue v.obj = false
  | [], pfx, pos, _, v, hv, _ => by rw [visitList] at hv; cases hv
  | o :: os, pfx, pos, h, v, hv, hd => by
    rw [noMSList, Bool.and_eq_true] at h
    rw [visitList, List.mem_append] at hv
    rcases hv with hv | hv
    · exact noMS_visitObj_it2 skip o pfx pos h.1 v hv hd
    · exact noMS_visitList_it2 skip os pfx _ h.2 v hv hd
end

mutual
theorem noMS_tmBlock_it2 (e : Envs) : ∀ (mo : Obj) (srcs : List Obj), TMObj mo →
    noMSList (tmBlock e mo srcs) = true
  | .defn mm mws, srcs, h => by
    have hall : ∀ (B : List Obj), (∀ o ∈ B, o.isDefn = true) → noMSList B = true := by
      intro B
      induction B with
      | nil => intro _; rfl
      | cons o os ih =>
        intro hB
        rw [noMSList, ih (fun o ho => hB o (List.mem_cons_of_mem _ ho)), Bool.and_true]
        have := hB o List.mem_cons_self
        cases o with
        | defn m ws => rfl
        | scope m k => cases this
    exact hall _ (fun o ho => (tmBlock_member_tm e _ srcs o ho).2.2)
  | .scope mm kids, srcs, h => by
    rw [TMObj] at h
    rw [tmBlock, noMSList, noMSList, noMSObj, noMS_treeMultiResult_it2 e kids _ h.2.2.2.2.1]
    have : multipleIsTrue (.scope { mm with tmpl := 0 } (treeMultiResult e kids (srcStep srcs mm.name))) = false := by
      cases hm : multipleIsTrue (.scope { mm with tmpl := 0 } (treeMultiResult e kids (srcStep srcs mm.name))) with
      | false => rfl
      | true =>
        have := truthy_of_multipleIsTrue_it2 hm
        have h1 : (mm.attrs.get "multiple").truthy = true := this
        rw [h.1] at h1; cases h1
    rw [this]; rfl
theorem noMS_treeMultiResult_it2 (e : Envs) : ∀ (l : List Obj) (srcs : List Obj), TMKids l →
    noMSList (treeMultiResult e l srcs) = true
  | [], srcs, _ => by rw [treeMultiResult]; rfl
  | mo :: rest, srcs, h => by
    rw [TMKids] at h
    rw [treeMultiResult, noMSList_append_it2, noMS_tmBlock_it2 e mo srcs h.1,
      noMS_treeMultiResult_it2 e rest srcs h.2]; rfl
end

/-! ### from `Uni` to the statement used in Phil/Props/C20Paths.lean -/

theorem uni_cases_it2 (F : List Visit) (h : Uni F) :
    (∀ x ∈ F, multipleIsTrue x.obj = true) ∨ (∃ v, F = [v] ∧ multipleIsTrue v.obj = false) := by
  by_cases hall : ∀ x ∈ F, multipleIsTrue x.obj = true
  · exact .inl hall
  · right
    have : ∃ x ∈ F, multipleIsTrue x.obj = false := by
      apply Classical.byContradiction
      intro hne
      apply hall
      intro x hx
      cases hm : multipleIsTrue x.obj with
      | true => rfl
      | false => exact absurd ⟨x, hx, hm⟩ hne
    obtain ⟨x, hx, hm⟩ := this
    exact ⟨x, h x hx hm, hm⟩

theorem multipleIsTrue_rootOf_it2 (w : List Obj) : multipleIsTrue (rootOf w) = false := rfl

/-- **uniformity on a well-grouped working tree**: the live objects at a path that does not lie below a
    live `.multiple` scope are all `.multiple`, or there is exactly one and it is not -/
theorem uniform_of_wu_it2 (w : List Obj) (hw : wellGroupedB w = true) (p : Str)
    (hex : NotBelowMulti (visitList skipNegI [] 1 w) p) :
    (∀ x ∈ visitsAt p (visitsOf skipNegI w), multipleIsTrue x.obj = true) ∨
      (∃ v, visitsAt p (visitsOf skipNegI w) = [v] ∧ multipleIsTrue v.obj = false) := by
  unfold wellGroupedB at hw
  rw [Bool.and_eq_true] at hw
  have hU := uniList_it2 w [] 1 p hw.1 hw.2 hex
  unfold visitsAt visitsOf
  rw [List.filter_cons]
  by_cases hp : p = []
  · subst hp
    have hnil : (visitList skipNegI [] 1 w).filter (fun v => v.path == []) = [] := by
      rw [List.filter_eq_nil_iff]
      intro v hv hvp
      have hvp' : v.path = [] := by simpa using hvp
      obtain ⟨o, ho, pos', hvo, _⟩ := visitList_mem_it2 skipNegI w [] 1 v hv
      have hn := (wuList_mem_it2 w hw.1 o ho).1
      have := visitObj_owns_it2 skipNegI o [] pos' hn v hvo
      rw [hvp'] at this
      rcases this with h | h
      · exact joinPath_ne_nil_it2 [] o.name hn h.symm
      · obtain ⟨r, hr⟩ := (startsWith_iff_tree _ _).mp h
        have := congrArg List.length hr
        simp at this
    simp only [hnil]
    right
    exact ⟨_, rfl, rfl⟩
  · have : ((([] : Str) == p) = false) := by
      cases p with
      | nil => exact absurd rfl hp
      | cons c r => rfl
    simp only [this]
    exact uni_cases_it2 _ hU

/-! ## 4. `delete_phil_objects` on a fetch result of a `TreeMultiMaster` -/

mutual
/-- what `delete_phil_objects(paths)` leaves of the block of one master object: of the block of a
    definition whose full path is listed, the members that are not template-marked go; a scope is
    rebuilt from the pruned blocks of its children -/
def delBlock (e : Envs) (paths : List Str) (pfx : Str) : Obj → List Obj → List Obj
  | .defn mm mws, srcs =>
    (tmBlock e (.defn mm mws) srcs).filter
      (fun o => o.meta.tmpl != 0 || !paths.contains (joinPath pfx mm.name))
  | .scope mm kids, srcs =>
    [.scope { mm with tmpl := 0 } (delResult e paths (joinPath pfx mm.name) kids (srcStep srcs mm.name))]
/-- the fetch result `treeMultiResult e l srcs` after `delete_phil_objects(paths)` -/
def delResult (e : Envs) (paths : List Str) (pfx : Str) : List Obj → List Obj → List Obj
  | [], _ => []
  | mo :: rest, srcs => delBlock e paths pfx mo srcs ++ delResult e paths pfx rest srcs
end

mutual
def pathsOKObj (paths : List Str) (pfx : Str) : Obj → Bool
  | .defn mm mws => !paths.contains (joinPath pfx mm.name) || isMultiple (.defn mm mws)
  | .scope mm kids => !paths.contains (joinPath pfx mm.name) && pathsOKL paths (joinPath pfx mm.name) kids
/-- every listed path that is the path of a master object is the path of a `.multiple` DEFINITION -/
def pathsOKL (paths : List Str) (pfx : Str) : List Obj → Bool
  | [] => true
  | o :: os => pathsOKObj paths pfx o && pathsOKL paths pfx os
end

theorem pathsOKL_mem_it2 (paths : List Str) (pfx : Str) : ∀ (l : List Obj), pathsOKL paths pfx l = true →
    ∀ mo ∈ l, pathsOKObj paths pfx mo = true
  | [], _, mo, h => by cases h
  | a :: os, h, mo, hmo => by
    rw [pathsOKL, Bool.and_eq_true] at h
    rw [List.mem_cons] at hmo
    rcases hmo with rfl | hmo
    · exact h.1
    · exact pathsOKL_mem_it2 paths pfx os h.2 mo hmo

mutual
theorem pathsOKObj_mono_it2 (paths paths' : List Str) (hsub : ∀ p ∈ paths', p ∈ paths) :
    ∀ (o : Obj) (pfx : Str), pathsOKObj paths pfx o = true → pathsOKObj paths' pfx o = true
  | .defn mm mws, pfx, h => by
    rw [pathsOKObj] at h ⊢
    simp only [Bool.or_eq_true, Bool.not_eq_true', List.contains_eq_mem, decide_eq_false_iff_not] at h ⊢
    rcases h with h | h
    · exact .inl (fun hc => h (hsub _ hc))
    · exact .inr h
  | .scope mm kids, pfx, h => by
    rw [pathsOKObj] at h ⊢
    simp only [Bool.and_eq_true, Bool.not_eq_true', List.contains_eq_mem, decide_eq_false_iff_not] at h ⊢
    exact ⟨fun hc => h.1 (hsub _ hc), pathsOKL_mono_it2 paths paths' hsub kids _ h.2⟩
theorem pathsOKL_mono_it2 (paths paths' : List Str) (hsub : ∀ p ∈ paths', p ∈ paths) :
    ∀ (l : List Obj) (pfx : Str), pathsOKL paths pfx l = true → pathsOKL paths' pfx l = true
  | [], pfx, _ => rfl
  | o :: os, pfx, h => by
    rw [pathsOKL, Bool.and_eq_true] at h ⊢
    exact ⟨pathsOKObj_mono_it2 paths paths' hsub o pfx h.1, pathsOKL_mono_it2 paths paths' hsub os pfx h.2⟩
end

theorem delResult_eq_flatMap_it2 (e : Envs) (paths : List Str) (pfx : Str) (srcs : List Obj) :
    ∀ (l : List Obj), delResult e paths pfx l srcs = l.flatMap (fun mo => delBlock e paths pfx mo srcs)
  | [] => by rw [delResult]; rfl
  | mo :: rest => by rw [delResult, delResult_eq_flatMap_it2 e paths pfx srcs rest]; rfl

theorem delBlock_member_it2 (e : Envs) (paths : List Str) (pfx : Str) : ∀ (mo : Obj) (srcs : List Obj),
    ∀ o ∈ delBlock e paths pfx mo srcs,
      o.name = mo.name ∧ o.meta.disabled = mo.meta.disabled ∧ o.isDefn = mo.isDefn
  | .defn mm mws, srcs, o, ho => by
    rw [delBlock] at ho
    exact tmBlock_member_tm e _ srcs o (List.mem_filter.mp ho).1
  | .scope mm kids, srcs, o, ho => by
    rw [delBlock, List.mem_singleton] at ho
    subst ho
    exact ⟨rfl, rfl, rfl⟩

mutual
/-- with no listed path at all nothing is deleted -/
theorem delBlock_nil_it2 (e : Envs) : ∀ (mo : Obj) (pfx : Str) (srcs : List Obj),
    delBlock e [] pfx mo srcs = tmBlock e mo srcs
  | .defn mm mws, pfx, srcs => by
    rw [delBlock, List.filter_eq_self]
    intro o _
    simp
  | .scope mm kids, pfx, srcs => by
    rw [delBlock, tmBlock, delResult_nil_it2 e kids]
theorem delResult_nil_it2 (e : Envs) : ∀ (l : List Obj) (pfx : Str) (srcs : List Obj),
    delResult e [] pfx l srcs = treeMultiResult e l srcs
  | [], pfx, srcs => by rw [delResult, treeMultiResult]
  | mo :: rest, pfx, srcs => by
    rw [delResult, treeMultiResult, delBlock_nil_it2 e mo, delResult_nil_it2 e rest]
end

mutual
/-- below a scope path `fp` that is a string prefix of no listed path nothing is deleted -/
theorem delBlock_noop_it2 (e : Envs) (paths : List Str) : ∀ (mo : Obj) (fp : Str) (srcs : List Obj), fp ≠ [] →
    (∀ p ∈ paths, startsWith fp p = false) → delBlock e paths fp mo srcs = tmBlock e mo srcs
  | .defn mm mws, fp, srcs, hfp, hno => by
    rw [delBlock, List.filter_eq_self]
    intro o _
    have : paths.contains (joinPath fp mm.name) = false := by
      cases hc : paths.contains (joinPath fp mm.name) with
      | false => rfl
      | true =>
        have hm : joinPath fp mm.name ∈ paths := by simpa using hc
        have := hno _ hm
        rw [joinPath_of_ne_nil_it2 fp _ hfp, (startsWith_iff_tree _ _).mpr ⟨_, rfl⟩] at this
        cases this
    rw [this]
    simp
  | .scope mm kids, fp, srcs, hfp, hno => by
    rw [delBlock, tmBlock]
    have hq : joinPath fp mm.name ≠ [] := by rw [joinPath_of_ne_nil_it2 fp _ hfp]; simp
    rw [delResult_noop_it2 e paths kids (joinPath fp mm.name) _ hq]
    intro p hp
    cases hs : startsWith (joinPath fp mm.name) p with
    | false => rfl
    | true =>
      obtain ⟨r, hr⟩ := (startsWith_iff_tree _ _).mp hs
      have := hno p hp
      rw [hr, joinPath_of_ne_nil_it2 fp _ hfp, List.append_assoc,
        (startsWith_iff_tree _ _).mpr ⟨_, rfl⟩] at this
      cases this
theorem delResult_noop_it2 (e : Envs) (paths : List Str) : ∀ (l : List Obj) (fp : Str) (srcs : List Obj), fp ≠ [] →
    (∀ p ∈ paths, startsWith fp p = false) → delResult e paths fp l srcs = treeMultiResult e l srcs
  | [], fp, srcs, _, _ => by rw [delResult, treeMultiResult]
  | mo :: rest, fp, srcs, hfp, hno => by
    rw [delResult, treeMultiResult, delBlock_noop_it2 e paths mo fp srcs hfp hno,
      delResult_noop_it2 e paths rest fp srcs hfp hno]
end

theorem delStep_defn_it2 (fuel : Nat) (paths : List Str) (pfx : Str) (m : Meta) (ws : List Word) :
    delStep fuel paths pfx (.defn m ws) =
      if m.tmpl != 0 then some (.defn m ws)
      else if paths.contains (joinPath pfx m.name) then none else some (.defn m ws) := rfl

theorem delStep_scope_it2 (fuel : Nat) (paths : List Str) (pfx : Str) (m : Meta) (K : List Obj) :
    delStep fuel paths pfx (.scope m K) =
      if m.tmpl != 0 then some (.scope m K)
      else if paths.contains (joinPath pfx m.name) then none
      else if paths.any (fun p => startsWith (joinPath pfx m.name) p) then
        some (.scope m (deletePhilObjects fuel paths (joinPath pfx m.name) K))
      else some (.scope m K) := rfl

theorem filterMap_delStep_defns_it2 (fuel : Nat) (paths : List Str) (pfx n : Str) : ∀ (B : List Obj),
    (∀ o ∈ B, o.isDefn = true ∧ o.name = n) →
    B.filterMap (delStep fuel paths pfx) =
      B.filter (fun o => o.meta.tmpl != 0 || !paths.contains (joinPath pfx n))
  | [], _ => rfl
  | o :: os, h => by
    have ih := filterMap_delStep_defns_it2 fuel paths pfx n os (fun x hx => h x (List.mem_cons_of_mem _ hx))
    obtain ⟨hd, hn⟩ := h o List.mem_cons_self
    cases o with
    | scope m k => cases hd
    | defn m ws =>
      have hn' : m.name = n := hn
      rw [List.filterMap_cons, List.filter_cons, ih, delStep_defn_it2, hn']
      show _ = if (m.tmpl != 0 || !paths.contains (joinPath pfx n)) = true then _ else _
      by_cases h1 : (m.tmpl != 0) = true
      · simp [h1]
      · by_cases h2 : joinPath pfx n ∈ paths
        · simp [h1, h2]
        · simp [h1, h2]

/-- **`delete_phil_objects` on a fetch result, in closed form**: with fuel beyond the nesting depth,
    deleting the listed paths from `treeMultiResult e l D` gives `delResult e paths pfx l D` -/
theorem del_tm_it2 (e : Envs) (paths : List Str) : ∀ (fuel : Nat) (l : List Obj) (pfx : Str) (D : List Obj),
    depthL l < fuel → TMKids l → pathsOKL paths pfx l = true →
    deletePhilObjects fuel paths pfx (treeMultiResult e l D) = delResult e paths pfx l D := by
  intro fuel
  induction fuel with
  | zero => intro l pfx D hd; exact absurd hd (Nat.not_lt_zero _)
  | succ f ih =>
    intro l
    induction l with
    | nil => intro pfx D _ _ _; rw [treeMultiResult, delResult, deletePhil_succ_ick]; rfl
    | cons mo rest ihl =>
      intro pfx D hd ht hp
      rw [TMKids] at ht
      rw [pathsOKL, Bool.and_eq_true] at hp
      rw [depthL] at hd
      have hd2 : depthT mo < f + 1 ∧ depthL rest < f + 1 := Nat.max_lt.mp hd
      have hrest := ihl pfx D hd2.2 ht.2 hp.2
      rw [deletePhil_succ_ick] at hrest
      rw [deletePhil_succ_ick, treeMultiResult, List.filterMap_append, hrest, delResult]
      congr 1
      cases mo with
      | defn mm mws =>
        rw [delBlock]
        exact filterMap_delStep_defns_it2 f paths pfx mm.name _
          (fun o ho => ⟨(tmBlock_member_tm e _ D o ho).2.2, (tmBlock_member_tm e _ D o ho).1⟩)
      | scope mm kids =>
        rw [depthT] at hd2
        have hto := ht.1
        rw [TMObj] at hto
        rw [pathsOKObj, Bool.and_eq_true] at hp
        have hpc : paths.contains (joinPath pfx mm.name) = false := by simpa using hp.1.1
        have hstep : delStep f paths pfx
            (.scope { mm with tmpl := 0 } (treeMultiResult e kids (srcStep D mm.name))) =
            some (.scope { mm with tmpl := 0 }
              (delResult e paths (joinPath pfx mm.name) kids (srcStep D mm.name))) := by
          rw [delStep_scope_it2]
          have h0 : (({ mm with tmpl := 0 } : Meta).tmpl != 0) = false := rfl
          have hnm : ({ mm with tmpl := 0 } : Meta).name = mm.name := rfl
          rw [h0, hnm, hpc]
          simp only [Bool.false_eq_true, if_false]
          by_cases hany : (paths.any fun p => startsWith (joinPath pfx mm.name) p) = true
          · rw [if_pos hany, ih kids _ _ (by omega) hto.2.2.2.2.1 hp.1.2]
          · rw [if_neg hany]
            have hno : ∀ p ∈ paths, startsWith (joinPath pfx mm.name) p = false := by
              intro p hpm
              cases hs : startsWith (joinPath pfx mm.name) p with
              | false => rfl
              | true => exact absurd (List.any_eq_true.mpr ⟨p, hpm, hs⟩) hany
            rw [delResult_noop_it2 e paths kids _ _ (joinPath_ne_nil_it2 pfx mm.name hto.2.1) hno]
        rw [tmBlock, delBlock, List.filterMap_cons, hstep, List.filterMap_nil]

/-! ### the view of the pruned result by master name -/

theorem view_del_it2 (e : Envs) (paths : List Str) (pfx : Str) (l srcs : List Obj) (hf : TreeMultiMaster l) :
    ∀ mo ∈ l, activeNamed mo.name (delResult e paths pfx l srcs) = delBlock e paths pfx mo srcs := by
  rw [delResult_eq_flatMap_it2]
  exact activeNamed_flatMap_distinct (fun mo => delBlock e paths pfx mo srcs) l hf.distinct
    (fun mo hmo o ho => by
      have h := delBlock_member_it2 e paths pfx mo srcs o ho
      exact ⟨h.1, by rw [h.2.1]; exact (hf.obj mo hmo).enabled⟩)

theorem srcStep_del_it2 (e : Envs) (paths : List Str) (pfx : Str) (l srcs : List Obj) (hf : TreeMultiMaster l)
    (mm : Meta) (kids : List Obj) (hmem : Obj.scope mm kids ∈ l) :
    srcStep (delResult e paths pfx l srcs) mm.name =
      delResult e paths (joinPath pfx mm.name) kids (srcStep srcs mm.name) := by
  have hv : activeNamed mm.name (delResult e paths pfx l srcs) = delBlock e paths pfx (.scope mm kids) srcs :=
    view_del_it2 e paths pfx l srcs hf _ hmem
  rw [← activeNamed_children_tree, hv, delBlock]
  simp [Obj.children]

theorem defsNamed_del_it2 (e : Envs) (paths : List Str) (pfx : Str) (l srcs : List Obj) (hf : TreeMultiMaster l)
    (mm : Meta) (mws : List Word) (hmem : Obj.defn mm mws ∈ l) :
    defsNamed mm.name (delResult e paths pfx l srcs) = delBlock e paths pfx (.defn mm mws) srcs := by
  have hv : activeNamed mm.name (delResult e paths pfx l srcs) = delBlock e paths pfx (.defn mm mws) srcs :=
    view_del_it2 e paths pfx l srcs hf _ hmem
  rw [defsNamed_eq_filter_tree, hv, List.filter_eq_self]
  intro o ho
  exact (delBlock_member_it2 e paths pfx _ srcs o ho).2.2

/-! ## 5. the pruned result is a good source; `merge` of an edit that names `.multiple` definitions -/

theorem allActive_filter_it2 (P : Obj → Bool) (q : Obj → Bool) : ∀ (l : List Obj),
    allActive P l = true → allActive P (l.filter q) = true
  | [], _ => by rw [List.filter_nil, allActive]
  | o :: os, h => by
    rw [allActive, Bool.and_eq_true] at h
    rw [List.filter_cons]
    split
    · rw [allActive, Bool.and_eq_true]
      exact ⟨h.1, allActive_filter_it2 P q os h.2⟩
    · exact allActive_filter_it2 P q os h.2

theorem tmKids_toMS_it2 {l : List Obj} (h : TMKids l) : MSKids l :=
  (msKids_iff l).mpr (fun o ho => ((tmKids_iff l).mp h o ho).toMS)

mutual
theorem good_delBlock_it2 (e : Envs) (paths : List Str) : ∀ (mo : Obj) (pfx : Str) (srcs : List Obj), TMObj mo →
    RefetchTree [mo] → SrcNoDollar srcs → allActive srcGoodB (delBlock e paths pfx mo srcs) = true
  | .defn mm mws, pfx, srcs, ht, hr, hdol => by
    rw [delBlock]
    apply allActive_filter_it2
    have := good_msBlock e (.defn mm mws) srcs ht.toMS hr hdol
    rwa [msBlock] at this
  | .scope mm kids, pfx, srcs, ht, hr, hdol => by
    have hk := TreeMultiMaster.of_scope ht
    rw [TMObj] at ht
    rw [delBlock]
    apply allActive_of_forall_ms
    intro o ho
    rw [List.mem_singleton] at ho
    subst ho
    exact allActiveObj_scope_ms _ _ ht.2.1
      (good_delResult_it2 e paths kids _ _ hk.kids (hr.kids ht.2.2.2.1)
        (fun x hx hdef => hdol x (activeIn_srcStep hx) hdef))
theorem good_delResult_it2 (e : Envs) (paths : List Str) : ∀ (l : List Obj) (pfx : Str) (srcs : List Obj), TMKids l →
    RefetchTree l → SrcNoDollar srcs → allActive srcGoodB (delResult e paths pfx l srcs) = true
  | [], pfx, srcs, _, _, _ => by rw [delResult, allActive]
  | mo :: rest, pfx, srcs, ht, hr, hdol => by
    rw [TMKids] at ht
    rw [delResult, allActive_append_ms, good_delBlock_it2 e paths mo pfx srcs ht.1 hr.head hdol,
      good_delResult_it2 e paths rest pfx srcs ht.2 hr.tail hdol]
    rfl
end

theorem srcNoDollar_of_good_it2 (R : List Obj) (h : allActive srcGoodB R = true) : SrcNoDollar R := by
  intro x hx hdef
  have := allActive_sound srcGoodB hx h
  unfold srcGoodB at this
  simp only [hdef, if_true, Bool.and_eq_true, Option.isNone_iff_eq_none, Bool.not_eq_true'] at this
  rw [srcWords_of_varRes_none x this.1]
  exact this.2

theorem goodTreeSrc_delResult_it2 (e : Envs) (paths : List Str) (l : List Obj) (pfx : Str) (srcs : List Obj)
    (hf : TreeMultiMaster l) (hr : RefetchTree l) (hdol : SrcNoDollar srcs) :
    GoodTreeSrc (delResult e paths pfx l srcs) :=
  ⟨srcTree_of_good_ms _ (good_delResult_it2 e paths l pfx srcs hf.kids hr hdol),
   srcNoDollar_of_good_it2 _ (good_delResult_it2 e paths l pfx srcs hf.kids hr hdol)⟩

mutual
theorem noClashObj_del_it2 (e : Envs) (paths : List Str) : ∀ (mo : Obj) (pfx : Str) (srcs R : List Obj), TMObj mo →
    activeNamed mo.name R = delBlock e paths pfx mo srcs → noClashObj mo R = true
  | .defn mm mws, pfx, srcs, R, ht, hv => by
    have hv' : activeNamed mm.name R = delBlock e paths pfx (.defn mm mws) srcs := hv
    rw [noClashObj, scopesNamed_eq_filter_tree, hv']
    have : (delBlock e paths pfx (.defn mm mws) srcs).filter Obj.isScope = [] := by
      rw [List.filter_eq_nil_iff]
      intro o ho
      unfold Obj.isScope
      rw [(delBlock_member_it2 e paths pfx _ srcs o ho).2.2]
      simp [Obj.isDefn]
    rw [this]
    rfl
  | .scope mm kids, pfx, srcs, R, ht, hv => by
    have hk := TreeMultiMaster.of_scope ht
    have hv' : activeNamed mm.name R = delBlock e paths pfx (.scope mm kids) srcs := hv
    have hstep : srcStep R mm.name = delResult e paths (joinPath pfx mm.name) kids (srcStep srcs mm.name) := by
      rw [← activeNamed_children_tree, hv', delBlock]
      simp [Obj.children]
    rw [noClashObj, defsNamed_eq_filter_tree, hv', hstep,
      noClash_del_it2 e paths kids _ (srcStep srcs mm.name) _ hk.kids (view_del_it2 e paths _ kids _ hk), delBlock]
    rfl
theorem noClash_del_it2 (e : Envs) (paths : List Str) : ∀ (l : List Obj) (pfx : Str) (srcs R : List Obj), TMKids l →
    (∀ mo ∈ l, activeNamed mo.name R = delBlock e paths pfx mo srcs) → noClash l R = true
  | [], pfx, srcs, R, _, _ => by rw [noClash]
  | mo :: rest, pfx, srcs, R, ht, hv => by
    rw [TMKids] at ht
    rw [noClash, noClashObj_del_it2 e paths mo pfx srcs R ht.1 (hv mo List.mem_cons_self),
      noClash_del_it2 e paths rest pfx srcs R ht.2 (fun o ho => hv o (List.mem_cons_of_mem _ ho))]
    rfl
end

theorem noClash_delResult_it2 (e : Envs) (paths : List Str) (l : List Obj) (pfx : Str) (srcs : List Obj)
    (hf : TreeMultiMaster l) : noClash l (delResult e paths pfx l srcs) = true :=
  noClash_del_it2 e paths l pfx srcs _ hf.kids (view_del_it2 e paths pfx l srcs hf)

mutual
theorem keysDefinedObj_del_it2 (e : Envs) (paths : List Str) : ∀ (mo : Obj) (pfx : Str) (srcs R : List Obj),
    TMObj mo → RefetchTree [mo] → KeysDefinedObj e mo srcs →
    activeNamed mo.name R = delBlock e paths pfx mo srcs → KeysDefinedObj e mo R
  | .defn mm mws, pfx, srcs, R, ht, hr, hk, hv => by
    rw [TMObj] at ht
    have hr' := hr (.defn mm mws) (.here (List.mem_singleton.mpr rfl) ht.2.2.2) rfl
    rw [KeysDefinedObj] at hk ⊢
    intro hmult
    obtain ⟨hk0, hcand⟩ := hk hmult
    refine ⟨hk0, ?_⟩
    intro d hd
    have hv' : activeNamed mm.name R = delBlock e paths pfx (.defn mm mws) srcs := hv
    have hdn : defsNamed mm.name R = delBlock e paths pfx (.defn mm mws) srcs := by
      rw [defsNamed_eq_filter_tree, hv', List.filter_eq_self]
      intro o ho
      exact (delBlock_member_it2 e paths pfx _ srcs o ho).2.2
    rw [hdn, delBlock] at hd
    have hd := (List.mem_filter.mp hd).1
    rw [tmBlock] at hd
    simp only [hmult, if_true] at hd
    rcases mem_multiBlock_tm hd with ⟨t, rfl⟩ | ⟨d0, hd0, rfl⟩
    · rw [candOfSrc_tmpl mm mws hr'.1 hr'.2.1]
      exact hk0
    · rw [candOfSrc_cand mm mws hr'.2.1]
      exact hcand d0 hd0
  | .scope mm kids, pfx, srcs, R, ht, hr, hk, hv => by
    have hkm := TreeMultiMaster.of_scope ht
    rw [TMObj] at ht
    rw [KeysDefinedObj] at hk ⊢
    have hv' : activeNamed mm.name R = delBlock e paths pfx (.scope mm kids) srcs := hv
    have hstep : srcStep R mm.name = delResult e paths (joinPath pfx mm.name) kids (srcStep srcs mm.name) := by
      rw [← activeNamed_children_tree, hv', delBlock]
      simp [Obj.children]
    rw [hstep]
    exact keysDefinedTree_del_it2 e paths kids _ (srcStep srcs mm.name) _ hkm.kids (hr.kids ht.2.2.2.1) hk
      (view_del_it2 e paths _ kids _ hkm)
theorem keysDefinedTree_del_it2 (e : Envs) (paths : List Str) : ∀ (l : List Obj) (pfx : Str) (srcs R : List Obj),
    TMKids l → RefetchTree l → KeysDefinedTree e l srcs →
    (∀ mo ∈ l, activeNamed mo.name R = delBlock e paths pfx mo srcs) → KeysDefinedTree e l R
  | [], pfx, srcs, R, _, _, _, _ => by rw [KeysDefinedTree]; trivial
  | mo :: rest, pfx, srcs, R, ht, hr, hk, hv => by
    rw [TMKids] at ht
    rw [KeysDefinedTree] at hk ⊢
    exact ⟨keysDefinedObj_del_it2 e paths mo pfx srcs R ht.1 hr.head hk.1 (hv mo List.mem_cons_self),
      keysDefinedTree_del_it2 e paths rest pfx srcs R ht.2 hr.tail hk.2
        (fun o ho => hv o (List.mem_cons_of_mem _ ho))⟩
end

theorem keysDefined_delResult_it2 (e : Envs) (paths : List Str) (l : List Obj) (pfx : Str) (srcs : List Obj)
    (hf : TreeMultiMaster l) (hr : RefetchTree l) (hk : KeysDefinedTree e l srcs) :
    KeysDefinedTree e l (delResult e paths pfx l srcs) :=
  keysDefinedTree_del_it2 e paths l pfx srcs _ hf.kids hr hk (view_del_it2 e paths pfx l srcs hf)

/-- the contexts for edits of `.multiple` definitions: nesting depth below the model's fuel for
    `delete_phil_objects`, and every recorded `.multiple` path that is the path of a master object is
    the path of a `.multiple` definition (what `build_index` records for such a master) -/
structure MultiCtx (c : IndexCtx) : Prop where
  depth : depthL c.master < 1000
  paths : pathsOKL c.multiple [] c.master = true

theorem pathsOK_redundant_it2 {c : IndexCtx} (hm : MultiCtx c) (edit : List Obj) :
    pathsOKL (redundantOf c edit) [] c.master = true := by
  apply pathsOKL_mono_it2 c.multiple _ _ c.master [] hm.paths
  intro p hp
  unfold redundantOf at hp
  have := (List.mem_filter.mp hp).2
  simpa using this

/-- the old working set after `delete_phil_objects`, in closed form -/
theorem oldOf_eq_del_it2 {c : IndexCtx} (hc : TreeCtx c) (hm : MultiCtx c) (edit D : List Obj) :
    oldOf c edit (treeMultiResult c.envs c.master D) =
      delResult c.envs (redundantOf c edit) [] c.master D := by
  unfold oldOf
  split
  · rename_i h
    have : redundantOf c edit = [] := by simpa using h
    rw [this, delResult_nil_it2]
  · exact del_tm_it2 c.envs _ 1000 c.master [] D hm.depth hc.ok.tree.kids (pathsOK_redundant_it2 hm edit)

/-- **a successful merge of ANY good tree edit into a reached working set, in closed form**: the new
    working set is the fetch of (the old one with the instances of the mentioned `.multiple`
    definitions deleted) ++ edit -/
theorem merge_multi_some_it2 {c : IndexCtx} (hc : TreeCtx c) (hm : MultiCtx c) {D : List Obj}
    (hD : GoodTreeSrc D) (hk : KeysDefinedTree c.envs c.master D)
    {text : Str} {edit : List Obj} (hp : parseObjs text = .ok edit) (he : GoodTreeSrc edit)
    (hke : KeysDefinedTree c.envs c.master edit) {w' : List Obj}
    (h : (concreteKernel c).merge (treeMultiResult c.envs c.master D) text = some w') :
    (∃ r, fetchRoot c.envs false c.master [edit] = .ok r) ∧
    noClash c.master (delResult c.envs (redundantOf c edit) [] c.master D ++ edit) = true ∧
      w' = treeMultiResult c.envs c.master (delResult c.envs (redundantOf c edit) [] c.master D ++ edit) := by
  have hgX := goodTreeSrc_delResult_it2 c.envs (redundantOf c edit) c.master [] D hc.ok.tree hc.ok.refetch hD.noDollar
  have hkX := keysDefined_delResult_it2 c.envs (redundantOf c edit) c.master [] D hc.ok.tree hc.ok.refetch hk
  rw [merge_eq_ick, hp] at h
  simp only at h
  cases hr : fetchRoot c.envs false c.master [edit] with
  | error err => rw [hr] at h; cases h
  | ok r0 =>
    rw [hr] at h
    simp only at h
    rw [oldOf_eq_del_it2 hc hm edit D, fetchRoot_two_ick,
      fetchRoot_good_itl hc (hgX.append_itl he) (keysDefinedTree_append_itl _ _ _ _ hkX hke)] at h
    cases hnc : noClash c.master (delResult c.envs (redundantOf c edit) [] c.master D ++ edit) with
    | false => rw [hnc] at h; cases h
    | true =>
      rw [hnc] at h
      simp only [if_true, Option.some.injEq] at h
      exact ⟨⟨r0, rfl⟩, rfl, h.symm⟩

/-- conversely -/
theorem merge_multi_of_noClash_it2 {c : IndexCtx} (hc : TreeCtx c) (hm : MultiCtx c) {D : List Obj}
    (hD : GoodTreeSrc D) (hk : KeysDefinedTree c.envs c.master D)
    {text : Str} {edit : List Obj} (hp : parseObjs text = .ok edit) (he : GoodTreeSrc edit)
    (hke : KeysDefinedTree c.envs c.master edit) {r : Obj × List Nat}
    (hr : fetchRoot c.envs false c.master [edit] = .ok r)
    (hnc : noClash c.master (delResult c.envs (redundantOf c edit) [] c.master D ++ edit) = true) :
    (concreteKernel c).merge (treeMultiResult c.envs c.master D) text =
      some (treeMultiResult c.envs c.master (delResult c.envs (redundantOf c edit) [] c.master D ++ edit)) := by
  have hgX := goodTreeSrc_delResult_it2 c.envs (redundantOf c edit) c.master [] D hc.ok.tree hc.ok.refetch hD.noDollar
  have hkX := keysDefined_delResult_it2 c.envs (redundantOf c edit) c.master [] D hc.ok.tree hc.ok.refetch hk
  rw [merge_eq_ick, hp]
  simp only
  rw [hr]
  simp only
  rw [oldOf_eq_del_it2 hc hm edit D, fetchRoot_two_ick,
    fetchRoot_good_itl hc (hgX.append_itl he) (keysDefinedTree_append_itl _ _ _ _ hkX hke), hnc]
  rfl

/-- **every successful merge of a good tree edit — `.multiple` definitions included — from a reached
    working set yields a reached one** -/
theorem merge_multi_reachedT_it2 {c : IndexCtx} (hc : TreeCtx c) (hm : MultiCtx c) {w : List Obj}
    (hw : ReachedT c w) {text : Str} (ht : TreeEdit c text) {w' : List Obj}
    (h : (concreteKernel c).merge w text = some w') : ReachedT c w' := by
  cases hp : parseObjs text with
  | error err => rw [merge_eq_ick, hp] at h; cases h
  | ok edit =>
    obtain ⟨he, hke⟩ := ht edit hp
    obtain ⟨D, hD, hk, hn, rfl⟩ := hw
    obtain ⟨_, hnc, rfl⟩ := merge_multi_some_it2 hc hm hD hk hp he hke h
    exact ⟨_, (goodTreeSrc_delResult_it2 c.envs _ c.master [] D hc.ok.tree hc.ok.refetch hD.noDollar).append_itl he,
      keysDefinedTree_append_itl _ _ _ _
        (keysDefined_delResult_it2 c.envs _ c.master [] D hc.ok.tree hc.ok.refetch hk) hke, hnc, rfl⟩

/-- histories of the invariant with edits of ANY kind of parameter: every string edit is a tree edit -/
def GoodOpsM (c : IndexCtx) : List (Index.Op PVal Str) → Prop
  | [] => True
  | .update e :: ops => TreeEdit c e ∧ GoodOpsM c ops
  | .updateFromPython _ :: _ => False
  | .push :: ops => GoodOpsM c ops
  | .pop :: ops => GoodOpsM c ops
  | .setState _ :: ops => GoodOpsM c ops
  | .getPython :: ops => GoodOpsM c ops

theorem run_reachedM_it2 {c : IndexCtx} (hc : TreeCtx c) (hm : MultiCtx c) :
    ∀ (ops : List (Index.Op PVal Str)) (s : Index.State (List Obj) PVal),
      GoodOpsM c ops → StateReachedT c s → StateReachedT c (Index.run (concreteKernel c) s ops)
  | [], s, _, hs => hs
  | op :: ops, s, hg, hs => by
    rw [Index.run_cons]
    cases op with
    | update e =>
      refine run_reachedM_it2 hc hm ops _ hg.2 ?_
      cases hmg : (concreteKernel c).merge s.working e with
      | none => rw [Index.update_refused hmg]; exact hs
      | some w' =>
        rw [Index.update_accepted hmg]
        exact ⟨merge_multi_reachedT_it2 hc hm hs.1 hg.1 hmg, hs.2⟩
    | updateFromPython p => exact absurd hg (by simp [GoodOpsM])
    | push => exact run_reachedM_it2 hc hm ops _ hg (step_reachedT_itl hc hs .push trivial)
    | pop => exact run_reachedM_it2 hc hm ops _ hg (step_reachedT_itl hc hs .pop trivial)
    | setState i => exact run_reachedM_it2 hc hm ops _ hg (step_reachedT_itl hc hs (.setState i) trivial)
    | getPython => exact run_reachedM_it2 hc hm ops _ hg (step_reachedT_itl hc hs .getPython trivial)

/-! ## 6. the same edit twice, edits of `.multiple` definitions included -/

mutual
def unlistedObj (paths : List Str) (pfx : Str) : Obj → List Obj → Bool
  | .defn mm mws, A =>
    !isMultiple (.defn mm mws) || paths.contains (joinPath pfx mm.name) || (defsNamed mm.name A).isEmpty
  | .scope mm kids, A => unlistedL paths (joinPath pfx mm.name) kids (srcStep A mm.name)
/-- every `.multiple` master definition to which the sources `A` give a value is listed in `paths`
    (for the paths `merge_phil` computes this holds whenever the index recorded every `.multiple`
    definition of the master; with `paths = []` it is `noMulti`) -/
def unlistedL (paths : List Str) (pfx : Str) : List Obj → List Obj → Bool
  | [], _ => true
  | mo :: rest, A => unlistedObj paths pfx mo A && unlistedL paths pfx rest A
end

theorem unlistedL_mem_it2 (paths : List Str) (pfx : Str) : ∀ (l : List Obj) (A : List Obj),
    unlistedL paths pfx l A = true → ∀ mo ∈ l, unlistedObj paths pfx mo A = true
  | [], _, _, mo, h => by cases h
  | a :: os, A, h, mo, hmo => by
    rw [unlistedL, Bool.and_eq_true] at h
    rw [List.mem_cons] at hmo
    rcases hmo with rfl | hmo
    · exact h.1
    · exact unlistedL_mem_it2 paths pfx os A h.2 mo hmo

/-- the block of a master definition as a function of the enabled source definitions of its name -/
def tbOf (e : Envs) (mo : Obj) (L : List Obj) : List Obj :=
  if isMultiple mo then multiBlock mo (keyOf e 0 mo mo) (candsOf e 0 mo L) else [lastWins mo L]

theorem tmBlock_eq_tbOf_it2 (e : Envs) (mm : Meta) (mws : List Word) (srcs : List Obj) :
    tmBlock e (.defn mm mws) srcs = tbOf e (.defn mm mws) (defsNamed mm.name srcs) := by
  rw [tmBlock]; rfl

/-- template-marked members in front of the candidates do not count: their key is the master's -/
theorem template_drop_it2 (e : Envs) (mm : Meta) (mws : List Word) (ht : mm.tmpl = 0) (hv : mm.varRes = none)
    (F An : List Obj) (hF : ∀ o ∈ F, ∃ t, o = withTmpl (.defn mm mws) t) :
    multiBlock (.defn mm mws) (keyOf e 0 (.defn mm mws) (.defn mm mws)) (candsOf e 0 (.defn mm mws) (F ++ An)) =
    multiBlock (.defn mm mws) (keyOf e 0 (.defn mm mws) (.defn mm mws)) (candsOf e 0 (.defn mm mws) An) := by
  have hfil : (candsOf e 0 (.defn mm mws) (F ++ An)).filter
        (fun y => y.2 != keyOf e 0 (.defn mm mws) (.defn mm mws)) =
      (candsOf e 0 (.defn mm mws) An).filter (fun y => y.2 != keyOf e 0 (.defn mm mws) (.defn mm mws)) := by
    unfold candsOf
    rw [List.map_append, List.filter_append]
    have : (F.map (fun d => (candOfSrc (.defn mm mws) d,
        keyOf e 0 (.defn mm mws) (candOfSrc (.defn mm mws) d)))).filter
        (fun y => y.2 != keyOf e 0 (.defn mm mws) (.defn mm mws)) = [] := by
      rw [List.filter_eq_nil_iff]
      intro y hy
      obtain ⟨o, ho, rfl⟩ := List.mem_map.mp hy
      obtain ⟨t, rfl⟩ := hF o ho
      simp only
      rw [candOfSrc_tmpl mm mws ht hv]
      simp
    rw [this, List.nil_append]
  unfold multiBlock
  rw [hfil]

theorem filtered_templates_it2 (e : Envs) (mm : Meta) (mws : List Word) (L : List Obj)
    (hmult : isMultiple (.defn mm mws) = true) :
    ∀ o ∈ (tbOf e (.defn mm mws) L).filter (fun o => o.meta.tmpl != 0), ∃ t, o = withTmpl (.defn mm mws) t := by
  intro o ho
  obtain ⟨h1, h2⟩ := List.mem_filter.mp ho
  unfold tbOf at h1
  simp only [hmult, if_true] at h1
  rcases mem_multiBlock_tm h1 with ⟨t, rfl⟩ | ⟨d, _, rfl⟩
  · exact ⟨t, rfl⟩
  · have : ((candOfSrc (.defn mm mws) d).meta.tmpl != 0) = false := rfl
    rw [this] at h2; cases h2

/-- one definition block: prune, merge `An`, prune again, merge `An` again — nothing new -/
theorem tbOf_idem_it2 (e : Envs) (paths : List Str) (fp : Str) (mm : Meta) (mws : List Word)
    (ht : mm.tmpl = 0) (hv : mm.varRes = none) (Dn An : List Obj)
    (hplain : isMultiple (.defn mm mws) = false → paths.contains fp = false)
    (hunl : isMultiple (.defn mm mws) = true → paths.contains fp = false → An = []) :
    tbOf e (.defn mm mws)
      ((tbOf e (.defn mm mws) ((tbOf e (.defn mm mws) Dn).filter
          (fun o => o.meta.tmpl != 0 || !paths.contains fp) ++ An)).filter
          (fun o => o.meta.tmpl != 0 || !paths.contains fp) ++ An) =
    tbOf e (.defn mm mws) ((tbOf e (.defn mm mws) Dn).filter
          (fun o => o.meta.tmpl != 0 || !paths.contains fp) ++ An) := by
  cases hc : paths.contains fp with
  | false =>
    have hk : ∀ (L : List Obj), L.filter (fun o => o.meta.tmpl != 0 || !false) = L := by
      intro L; rw [List.filter_eq_self]; intro o _; simp
    rw [hk, hk]
    cases hmult : isMultiple (.defn mm mws) with
    | false =>
      unfold tbOf
      simp only [hmult, Bool.false_eq_true, if_false]
      rw [lastWins_absorb_ick mm mws ht hv [lastWins (.defn mm mws) Dn] An]
    | true =>
      have hA := hunl hmult hc
      subst hA
      simp only [List.append_nil]
      unfold tbOf
      simp only [hmult, if_true]
      exact multiBlock_refetch e 0 mm mws _ ht hv
  | true =>
    cases hmult : isMultiple (.defn mm mws) with
    | false => have := hplain hmult; rw [hc] at this; cases this
    | true =>
      have hk : ∀ (L : List Obj), L.filter (fun o => o.meta.tmpl != 0 || !true) =
          L.filter (fun o => o.meta.tmpl != 0) := by
        intro L; apply List.filter_congr; intro o _; simp
      rw [hk, hk]
      have h1 := template_drop_it2 e mm mws ht hv _ An (filtered_templates_it2 e mm mws Dn hmult)
      have h2 := template_drop_it2 e mm mws ht hv _ An
        (filtered_templates_it2 e mm mws ((tbOf e (.defn mm mws) Dn).filter (fun o => o.meta.tmpl != 0) ++ An) hmult)
      have e1 : ∀ L, tbOf e (.defn mm mws) L =
          multiBlock (.defn mm mws) (keyOf e 0 (.defn mm mws) (.defn mm mws)) (candsOf e 0 (.defn mm mws) L) := by
        intro L; unfold tbOf; simp only [hmult, if_true]
      rw [e1 (_ ++ An), h2, e1 (_ ++ An), h1]

/-- **absorption with deletion**: prune the result of `D`, merge `A`; prune that, merge `A` again — the
    second round reproduces the first -/
theorem del_idem_it2 (e : Envs) (paths : List Str) : ∀ (n : Nat) (l : List Obj) (pfx : Str) (D A : List Obj),
    depthL l < n → TreeMultiMaster l → RefetchTree l → pathsOKL paths pfx l = true →
    unlistedL paths pfx l A = true →
    treeMultiResult e l (delResult e paths pfx l (delResult e paths pfx l D ++ A) ++ A) =
      treeMultiResult e l (delResult e paths pfx l D ++ A) := by
  intro n
  induction n with
  | zero => intro l pfx D A hd; exact absurd hd (Nat.not_lt_zero _)
  | succ n ih =>
    intro l pfx D A hd hf hr hp hu
    have hblocks : ∀ mo ∈ l,
        tmBlock e mo (delResult e paths pfx l (delResult e paths pfx l D ++ A) ++ A) =
          tmBlock e mo (delResult e paths pfx l D ++ A) := by
      intro mo hmo
      have hto := hf.obj mo hmo
      have hdm := depthT_le_depthL l mo hmo
      have hpo := pathsOKL_mem_it2 paths pfx l hp mo hmo
      have huo := unlistedL_mem_it2 paths pfx l A hu mo hmo
      cases mo with
      | defn mm mws =>
        rw [TMObj] at hto
        have hr' := hr (.defn mm mws) (.here hmo hto.2.2.2) rfl
        have e1 : delBlock e paths pfx (.defn mm mws) D =
            (tbOf e (.defn mm mws) (defsNamed mm.name D)).filter
              (fun o => o.meta.tmpl != 0 || !paths.contains (joinPath pfx mm.name)) := by
          rw [delBlock, tmBlock_eq_tbOf_it2]
        have e2 : delBlock e paths pfx (.defn mm mws) (delResult e paths pfx l D ++ A) =
            (tbOf e (.defn mm mws) (delBlock e paths pfx (.defn mm mws) D ++ defsNamed mm.name A)).filter
              (fun o => o.meta.tmpl != 0 || !paths.contains (joinPath pfx mm.name)) := by
          rw [delBlock, tmBlock_eq_tbOf_it2, defsNamed_append_itl, defsNamed_del_it2 e paths pfx l D hf mm mws hmo]
        rw [tmBlock_eq_tbOf_it2, tmBlock_eq_tbOf_it2, defsNamed_append_itl, defsNamed_append_itl,
          defsNamed_del_it2 e paths pfx l _ hf mm mws hmo, defsNamed_del_it2 e paths pfx l D hf mm mws hmo,
          e2, e1]
        apply tbOf_idem_it2 e paths (joinPath pfx mm.name) mm mws hr'.1 hr'.2.1
        · intro hm
          rw [pathsOKObj, hm] at hpo
          simpa using hpo
        · intro hm hc
          rw [unlistedObj, hm, hc] at huo
          simpa using huo
      | scope mm kids =>
        rw [depthT] at hdm
        have hkf := TreeMultiMaster.of_scope hto
        rw [TMObj] at hto
        rw [pathsOKObj, Bool.and_eq_true] at hpo
        rw [unlistedObj] at huo
        have hstep2 : srcStep (delResult e paths pfx l D ++ A) mm.name =
            delResult e paths (joinPath pfx mm.name) kids (srcStep D mm.name) ++ srcStep A mm.name := by
          rw [srcStep_append_itl, srcStep_del_it2 e paths pfx l D hf mm kids hmo]
        have hstep1 : srcStep (delResult e paths pfx l (delResult e paths pfx l D ++ A) ++ A) mm.name =
            delResult e paths (joinPath pfx mm.name) kids
              (delResult e paths (joinPath pfx mm.name) kids (srcStep D mm.name) ++ srcStep A mm.name) ++
              srcStep A mm.name := by
          rw [srcStep_append_itl, srcStep_del_it2 e paths pfx l _ hf mm kids hmo, hstep2]
        rw [tmBlock, tmBlock, hstep1, hstep2,
          ih kids (joinPath pfx mm.name) (srcStep D mm.name) (srcStep A mm.name) (by omega) hkf
            ((refetchTree_of_mem_itl hr hmo).kids hto.2.2.2.1) hpo.2 huo]
    calc treeMultiResult e l (delResult e paths pfx l (delResult e paths pfx l D ++ A) ++ A)
        = l.flatMap (fun mo => tmBlock e mo (delResult e paths pfx l (delResult e paths pfx l D ++ A) ++ A)) :=
          treeMultiResult_eq_flatMap e _ l
      _ = l.flatMap (fun mo => tmBlock e mo (delResult e paths pfx l D ++ A)) := flatMap_congr_mem _ _ l hblocks
      _ = treeMultiResult e l (delResult e paths pfx l D ++ A) := (treeMultiResult_eq_flatMap e _ l).symm

/-- every `.multiple` master definition the edit gives a value to is among the paths `merge_phil`
    deletes (holds when the index recorded every `.multiple` definition of the master) -/
def ListedEdit (c : IndexCtx) (text : Str) : Prop :=
  ∀ edit, parseObjs text = .ok edit → unlistedL (redundantOf c edit) [] c.master edit = true

/-- **the kernel law on reached working sets, edits of `.multiple` definitions included**: merging the
    same edit into its own result changes nothing (the second application deletes the instances the
    first one created and re-adds the same ones) -/
theorem merge_multi_idem_it2 {c : IndexCtx} (hc : TreeCtx c) (hm : MultiCtx c) {w : List Obj}
    (hw : ReachedT c w) {text : Str} (ht : TreeEdit c text) (hl : ListedEdit c text) {w' : List Obj}
    (h : (concreteKernel c).merge w text = some w') : (concreteKernel c).merge w' text = some w' := by
  cases hp : parseObjs text with
  | error err => rw [merge_eq_ick, hp] at h; cases h
  | ok edit =>
    obtain ⟨he, hke⟩ := ht edit hp
    obtain ⟨D, hD, hk, hn, rfl⟩ := hw
    obtain ⟨⟨r0, hr0⟩, hnc, rfl⟩ := merge_multi_some_it2 hc hm hD hk hp he hke h
    have hgX := goodTreeSrc_delResult_it2 c.envs (redundantOf c edit) c.master [] D hc.ok.tree hc.ok.refetch hD.noDollar
    have hkX := keysDefined_delResult_it2 c.envs (redundantOf c edit) c.master [] D hc.ok.tree hc.ok.refetch hk
    have hnc2 : noClash c.master (delResult c.envs (redundantOf c edit) [] c.master
        (delResult c.envs (redundantOf c edit) [] c.master D ++ edit) ++ edit) = true := by
      rw [noClash_append_itl] at hnc ⊢
      rw [Bool.and_eq_true] at hnc
      rw [noClash_delResult_it2 _ _ _ _ _ hc.ok.tree, hnc.2]
      rfl
    rw [merge_multi_of_noClash_it2 hc hm (hgX.append_itl he) (keysDefinedTree_append_itl _ _ _ _ hkX hke)
      hp he hke hr0 hnc2,
      del_idem_it2 c.envs _ _ c.master [] D edit (Nat.lt_succ_self _) hc.ok.tree hc.ok.refetch
        (pathsOK_redundant_it2 hm edit) (hl edit hp)]

/-! ## 7. what the new working set holds at a `.multiple` definition -/

/-- a LISTED `.multiple` definition takes exactly the edit's instances: its block in the new working
    set is the list rule over the edit's definitions alone (template, then the survivors) -/
theorem listed_block_it2 (e : Envs) (paths : List Str) (pfx : Str) (l D A : List Obj) (hf : TreeMultiMaster l)
    (hr : RefetchTree l) (mm : Meta) (mws : List Word) (hmo : Obj.defn mm mws ∈ l)
    (hmult : isMultiple (.defn mm mws) = true) (hc : paths.contains (joinPath pfx mm.name) = true) :
    tmBlock e (.defn mm mws) (delResult e paths pfx l D ++ A) = tmBlock e (.defn mm mws) A := by
  have hto := hf.obj _ hmo
  rw [TMObj] at hto
  have hr' := hr (.defn mm mws) (.here hmo hto.2.2.2) rfl
  rw [tmBlock_eq_tbOf_it2, tmBlock_eq_tbOf_it2, defsNamed_append_itl, defsNamed_del_it2 e paths pfx l D hf mm mws hmo,
    delBlock, tmBlock_eq_tbOf_it2, hc]
  have hk : ∀ (L : List Obj), L.filter (fun o => o.meta.tmpl != 0 || !true) =
      L.filter (fun o => o.meta.tmpl != 0) := by
    intro L; apply List.filter_congr; intro o _; simp
  rw [hk]
  have h1 := template_drop_it2 e mm mws hr'.1 hr'.2.1 _ (defsNamed mm.name A)
    (filtered_templates_it2 e mm mws (defsNamed mm.name D) hmult)
  have e1 : ∀ L, tbOf e (.defn mm mws) L =
      multiBlock (.defn mm mws) (keyOf e 0 (.defn mm mws) (.defn mm mws)) (candsOf e 0 (.defn mm mws) L) := by
    intro L; unfold tbOf; simp only [hmult, if_true]
  rw [e1 (_ ++ _), h1, e1]

/-- a definition that is NOT listed is merged as by a plain edit: the old block, then the edit -/
theorem unlisted_block_it2 (e : Envs) (paths : List Str) (pfx : Str) (l D A : List Obj) (hf : TreeMultiMaster l)
    (mm : Meta) (mws : List Word) (hmo : Obj.defn mm mws ∈ l)
    (hc : paths.contains (joinPath pfx mm.name) = false) :
    tmBlock e (.defn mm mws) (delResult e paths pfx l D ++ A) =
      tmBlock e (.defn mm mws) (treeMultiResult e l D ++ A) := by
  rw [tmBlock_eq_tbOf_it2, tmBlock_eq_tbOf_it2, defsNamed_append_itl, defsNamed_append_itl,
    defsNamed_del_it2 e paths pfx l D hf mm mws hmo, defsNamed_treeMultiResult_tm e l D hf mm mws hmo,
    delBlock, hc, List.filter_eq_self.mpr]
  intro o _; simp

end Phil
