/-
  Phil.Proofs.DiffTreeMS — closed form of `scope.fetch(diff=True)` (fetch_diff) for NESTED masters
  WITH `.multiple` SCOPES (`MSMaster`), and the laws of C08 derived from it.
  Combines Phil/Proofs/FetchTreeMS.lean (non-diff fetch on `MSMaster`) with Phil/Proofs/DiffTree.lean
  (difference on nested masters with `.multiple` definitions).
    1. specification `msDiff` (`mdBlock`), key hypothesis `KeysDiffMS`;  2. members, depth;
    3.-5. the candidate loop in diff mode, `diff_ms_total`: `fetchScope … true …` = specification (or the clash error);
    6. empty self-difference, minimality, no empty scopes;  7. two list rules over the same candidates (`dedup_coherent_md`);
    8. `CohMS`, `msDiff_self`, `msDiff_working` (difference of the working set);  9. side conditions of that difference
       (`keysDiff_msResult`, `diff_working_ms`);  10. views of the difference, `msDiff_idem`, `msDiff_restored`;
    11. closed form of the restored working set (`msRestoredS`, `msRestored_closed`);  12. `cohMSB`;
    13. the restored working set keeps the instances of the working set (`StrongCohAt`, `mrBlock_multi_surv`);
    14. exact restoration (`ExactMS`, `msRestoredS_eq_msResult`).
  All names of this file carry `_md`, `md…`, `msDiff` or `DiffMS`.
-/
import Phil.Proofs.FetchTreeMS
import Phil.Proofs.DiffTree
set_option linter.unusedVariables false
namespace Phil

/-! ## 1. specification -/

mutual
/-- the block one master object contributes to a difference, given the source objects at its level.
    A definition: `diffBlockL` (as in `tdBlock`).  A non-multiple scope: itself with the difference of
    its children against the children of ALL enabled source scopes of its name — dropped if empty.
    A `.multiple` scope: NO template; each enabled source scope `s` of its name gives the candidate
    "the master scope with the difference of its body against that ONE block"; candidates with an
    empty difference are skipped; the others go through the list rule with the keys
    `mo.extract_format(source=candidate).as_str()` OF THE DIFFERENCE CANDIDATES (dropped if equal to
    the key of the master's own fetched block, of equal keys the last stays). -/
def mdBlock (e : Envs) : Obj → List Obj → List Obj
  | .defn mm mws, srcs => diffBlockL e 0 (.defn mm mws) (defsNamed mm.name srcs)
  | .scope mm kids, srcs =>
    if (mm.attrs.get "multiple").truthy then
      survivorsOf (keyMS e (.scope mm kids) (.scope { mm with tmpl := 0 } (msResult e kids [])))
        (((scopesNamed mm.name srcs).filter (fun s => !(msDiff e kids s.children).isEmpty)).map (fun s =>
          (Obj.scope { mm with tmpl := 0 } (msDiff e kids s.children),
           keyMS e (.scope mm kids) (Obj.scope { mm with tmpl := 0 } (msDiff e kids s.children)))))
    else if (msDiff e kids (srcStep srcs mm.name)).isEmpty then []
      else [.scope { mm with tmpl := 0 } (msDiff e kids (srcStep srcs mm.name))]
/-- **the difference**: the children of `master.fetch_diff(sources)` — the blocks of the master
    children, in master order -/
def msDiff (e : Envs) : List Obj → List Obj → List Obj
  | [], _ => []
  | mo :: rest, srcs => mdBlock e mo srcs ++ msDiff e rest srcs
end

/-- the difference candidate the `.multiple` master scope `.scope mm kids` builds from the source
    objects `sk` of ONE source block -/
abbrev mdCand (e : Envs) (mm : Meta) (kids sk : List Obj) : Obj :=
  .scope { mm with tmpl := 0 } (msDiff e kids sk)

/-- … with its key -/
abbrev mdCK (e : Envs) (mm : Meta) (kids : List Obj) (s : Obj) : Obj × Str :=
  (mdCand e mm kids s.children, keyMS e (.scope mm kids) (mdCand e mm kids s.children))

mutual
def KeysDiffMSObj (e : Envs) : Obj → List Obj → Prop
  | .defn mm mws, srcs => KeysDefined e 0 (.defn mm mws) (defsNamed mm.name srcs)
  | .scope mm kids, srcs =>
    if (mm.attrs.get "multiple").truthy then
      KeysDiffMS e kids [] ∧
      KeysDefinedMS e kids [] ∧
      (∃ k, extractFormatStr e (depthL kids + 1 + 64) (.scope mm kids)
              (.scope { mm with tmpl := 0 } (msResult e kids [])) = .ok k) ∧
      ∀ s ∈ scopesNamed mm.name srcs,
        KeysDiffMS e kids s.children ∧
        ((msDiff e kids s.children).isEmpty = false →
          ∃ k, extractFormatStr e (depthL kids + 1 + 64) (.scope mm kids)
              (.scope { mm with tmpl := 0 } (msDiff e kids s.children)) = .ok k)
    else KeysDiffMS e kids (srcStep srcs mm.name)
/-- the keys a difference compares are defined: at EVERY master definition (`.multiple` or not) the
    master's own and those of the candidates (inside `.multiple` scopes too, sources or not); at
    every `.multiple` master scope the key of the master's own fetched block (and the keys that
    block's own fetch needs) and the key of every NON-EMPTY difference candidate -/
def KeysDiffMS (e : Envs) : List Obj → List Obj → Prop
  | [], _ => True
  | mo :: rest, srcs => KeysDiffMSObj e mo srcs ∧ KeysDiffMS e rest srcs
end

mutual
def keysDiffMSObjB (e : Envs) : Obj → List Obj → Bool
  | .defn mm mws, srcs => keysDefinedB e 0 (.defn mm mws) (defsNamed mm.name srcs)
  | .scope mm kids, srcs =>
    if (mm.attrs.get "multiple").truthy then
      keysDiffMSB e kids [] &&
      keysDefinedMSB e kids [] &&
      (errOf (extractFormatStr e (depthL kids + 1 + 64) (.scope mm kids)
              (.scope { mm with tmpl := 0 } (msResult e kids [])))).isNone &&
      (scopesNamed mm.name srcs).all (fun s =>
        keysDiffMSB e kids s.children &&
        ((msDiff e kids s.children).isEmpty ||
         (errOf (extractFormatStr e (depthL kids + 1 + 64) (.scope mm kids)
              (.scope { mm with tmpl := 0 } (msDiff e kids s.children)))).isNone))
    else keysDiffMSB e kids (srcStep srcs mm.name)
/-- executable form of `KeysDiffMS` -/
def keysDiffMSB (e : Envs) : List Obj → List Obj → Bool
  | [], _ => true
  | mo :: rest, srcs => keysDiffMSObjB e mo srcs && keysDiffMSB e rest srcs
end

/-! ## 2. list forms, members, depth -/

theorem msDiff_eq_flatMap (e : Envs) (srcs : List Obj) : ∀ (mkids : List Obj),
    msDiff e mkids srcs = mkids.flatMap (fun mo => mdBlock e mo srcs)
  | [] => by rw [msDiff]; rfl
  | mo :: rest => by rw [msDiff, msDiff_eq_flatMap e srcs rest]; rfl

theorem KeysDiffMS.obj {e : Envs} : ∀ {l : List Obj} {srcs : List Obj}, KeysDiffMS e l srcs →
    ∀ o ∈ l, KeysDiffMSObj e o srcs
  | [], _, _, o, ho => by cases ho
  | a :: os, srcs, h, o, ho => by
    rw [KeysDiffMS] at h
    rw [List.mem_cons] at ho
    rcases ho with rfl | ho
    · exact h.1
    · exact KeysDiffMS.obj h.2 o ho

mutual
theorem keysDiffMSObjB_sound (e : Envs) : ∀ (mo : Obj) (srcs : List Obj),
    keysDiffMSObjB e mo srcs = true → KeysDiffMSObj e mo srcs
  | .defn mm mws, srcs, h => by
    rw [keysDiffMSObjB] at h
    rw [KeysDiffMSObj]
    exact keysDefined_of_B h
  | .scope mm kids, srcs, h => by
    rw [keysDiffMSObjB] at h
    rw [KeysDiffMSObj]
    split
    · rename_i hm
      simp only [hm, if_true, Bool.and_eq_true, List.all_eq_true, Bool.or_eq_true] at h
      refine ⟨keysDiffMSB_sound e kids [] h.1.1.1, keysDefinedMSB_sound e kids [] h.1.1.2,
        ok_of_errOf_none h.1.2, ?_⟩
      intro s hs
      refine ⟨keysDiffMSB_sound e kids s.children (h.2 s hs).1, ?_⟩
      intro hne
      rcases (h.2 s hs).2 with h1 | h1
      · rw [hne] at h1; cases h1
      · exact ok_of_errOf_none h1
    · rename_i hm
      simp only [hm, Bool.false_eq_true, if_false] at h
      exact keysDiffMSB_sound e kids _ h
theorem keysDiffMSB_sound (e : Envs) : ∀ (l : List Obj) (srcs : List Obj),
    keysDiffMSB e l srcs = true → KeysDiffMS e l srcs
  | [], _, _ => by rw [KeysDiffMS]; trivial
  | mo :: rest, srcs, h => by
    rw [keysDiffMSB, Bool.and_eq_true] at h
    rw [KeysDiffMS]
    exact ⟨keysDiffMSObjB_sound e mo srcs h.1, keysDiffMSB_sound e rest srcs h.2⟩
end

theorem mem_survivorsOf_md {k0 : Str} {cks : List (Obj × Str)} {o : Obj} (h : o ∈ survivorsOf k0 cks) :
    ∃ x ∈ cks, o = x.1 ∧ x.2 ≠ k0 := by
  unfold survivorsOf at h
  obtain ⟨x, hx, rfl⟩ := List.mem_map.mp h
  have := List.mem_filter.mp ((dedupKeepLast_sublist _).subset hx)
  exact ⟨x, this.1, rfl, by simpa using this.2⟩

theorem mdBlock_multi_eq (e : Envs) (mm : Meta) (kids srcs : List Obj)
    (hmult : (mm.attrs.get "multiple").truthy = true) :
    mdBlock e (.scope mm kids) srcs =
      survivorsOf (keyMS e (.scope mm kids) (msCand e mm kids []))
        (((scopesNamed mm.name srcs).filter (fun s => !(msDiff e kids s.children).isEmpty)).map
          (mdCK e mm kids)) := by
  rw [mdBlock]; simp only [hmult, if_true]

theorem mdBlock_plain_eq (e : Envs) (mm : Meta) (kids srcs : List Obj)
    (hmult : (mm.attrs.get "multiple").truthy = false) :
    mdBlock e (.scope mm kids) srcs =
      if (msDiff e kids (srcStep srcs mm.name)).isEmpty then []
      else [.scope { mm with tmpl := 0 } (msDiff e kids (srcStep srcs mm.name))] := by
  rw [mdBlock]; simp only [hmult, Bool.false_eq_true, if_false]

mutual
theorem depthL_mdBlock (e : Envs) : ∀ (mo : Obj) (srcs : List Obj), depthL (mdBlock e mo srcs) ≤ depthT mo
  | .defn mm mws, srcs => by
    rw [mdBlock]
    apply depthL_le_of_forall
    intro o ho
    obtain ⟨⟨d, _, rfl⟩, _⟩ := mem_diffBlockL ho
    rw [candOfSrc_defn, depthT]
    exact Nat.zero_le _
  | .scope mm kids, srcs => by
    rw [mdBlock]
    split
    · apply depthL_le_of_forall
      intro o ho
      obtain ⟨x, hx, rfl, _⟩ := mem_survivorsOf_md ho
      obtain ⟨s, _, rfl⟩ := List.mem_map.mp hx
      show depthT (Obj.scope _ _) ≤ _
      rw [depthT, depthT]
      exact Nat.succ_le_succ (depthL_msDiff e kids s.children)
    · split
      · rw [depthL]; exact Nat.zero_le _
      · rw [depthL, depthL, depthT, depthT]
        exact Nat.max_le.mpr ⟨Nat.succ_le_succ (depthL_msDiff e kids _), Nat.zero_le _⟩
/-- the difference is nested no deeper than the master -/
theorem depthL_msDiff (e : Envs) : ∀ (mkids : List Obj) (srcs : List Obj),
    depthL (msDiff e mkids srcs) ≤ depthL mkids
  | [], srcs => by rw [msDiff]; exact Nat.le_refl _
  | mo :: rest, srcs => by
    rw [msDiff, depthL_append_ms, depthL]
    exact Nat.max_le.mpr ⟨Nat.le_trans (depthL_mdBlock e mo srcs) (Nat.le_max_left _ _),
      Nat.le_trans (depthL_msDiff e rest srcs) (Nat.le_max_right _ _)⟩
end

theorem extractFormatStr_dcand_fuel_md (e : Envs) (fuel : Nat) (mm : Meta) (kids sk : List Obj)
    (hdep : depthL kids + 1 ≤ fuel) :
    extractFormatStr e (fuel + 64) (.scope mm kids) (mdCand e mm kids sk) =
      extractFormatStr e (depthL kids + 1 + 64) (.scope mm kids) (mdCand e mm kids sk) := by
  have h1 : depthT (.scope mm kids) = depthL kids + 1 := by rw [depthT]
  have h2 : depthT (mdCand e mm kids sk) ≤ depthL kids + 1 := by
    show depthT (Obj.scope _ _) ≤ _
    rw [depthT]; exact Nat.succ_le_succ (depthL_msDiff e kids sk)
  exact extractFormatStr_fuel_ms e _ _ _ _ (by omega) (by omega) (by omega) (by omega)

/-! ## 3. the candidate loop of a `.multiple` master scope in diff mode -/

/-- what is known about one matching source `ms` of the `.multiple` master object `mo` in diff mode:
    either its difference candidate is empty (`x.1 = none`: the candidate is skipped), or the
    candidate `ck.1` with its key `ck.2`; `x.2` are the ids it consumes -/
def DLink (F : FetchFn) (e : Envs) (fuel : Nat) (mo ms : Obj) (x : Option (Obj × Str) × List Nat) : Prop :=
  (x.1 = none → candOf F e fuel true mo false ms = .ok (none, x.2)) ∧
  (∀ ck, x.1 = some ck → candOf F e fuel true mo false ms = .ok (some ck.1, x.2) ∧
    extractFormatStr e (fuel + 64) mo ck.1 = .ok ck.2)

theorem cstepG_dlink_none_md (F : FetchFn) (e : Envs) (fuel : Nat) (mo : Obj) (k0 : Str) (ms : Obj)
    (u : List Nat) (hl : candOf F e fuel true mo false ms = .ok (none, u))
    (robjs : List (Option Obj)) (processed : List (Str × Int)) (used : List Nat) :
    cstepG F e fuel true mo k0 (robjs, processed, used) (false, ms) = .ok (robjs, processed, used ++ u) := by
  unfold cstepG
  simp only [hl, ite_self]

theorem cstepG_dlink_some_md (F : FetchFn) (e : Envs) (fuel : Nat) (mo : Obj) (k0 : Str) (ms : Obj)
    (c : Obj) (k : Str) (u : List Nat) (hc : candOf F e fuel true mo false ms = .ok (some c, u))
    (hk : extractFormatStr e (fuel + 64) mo c = .ok k)
    (robjs : List (Option Obj)) (processed : List (Str × Int)) (used : List Nat) :
    cstepG F e fuel true mo k0 (robjs, processed, used) (false, ms) =
      if k == k0 then .ok (robjs, processed, used ++ u)
      else cAccept false false k c u robjs processed used := by
  unfold cstepG
  simp only [hc, hk]
  rw [cAccept_diff_src]

theorem multi_fold_md (F : FetchFn) (e : Envs) (fuel : Nat) (mo : Obj) (k0 : Str) :
    ∀ (M : List Obj) (X : List (Option (Obj × Str) × List Nat)), Forall2 (DLink F e fuel mo) M X →
    ∀ (robjs : List (Option Obj)) (processed : List (Str × Int)) (used : List Nat)
      (T : List (Obj × Str × Nat)), MInv robjs processed T →
    ∃ robjs' processed' T',
      (M.map (fun (o : Obj) => (false, o))).foldlM (cstepG F e fuel true mo k0)
        (robjs, processed, used) = .ok (robjs', processed', used ++ X.flatMap (fun x => x.2)) ∧
      MInv robjs' processed' T' ∧
      survOf T' = (X.filterMap (fun x => x.1)).foldl (accStep k0) (survOf T) := by
  intro M X h
  induction h with
  | nil =>
    intro robjs processed used T hinv
    exact ⟨robjs, processed, T, by simp; rfl, hinv, rfl⟩
  | @cons ms x M X hl _ ih =>
    intro robjs processed used T hinv
    obtain ⟨xo, u⟩ := x
    rw [List.map_cons, List.foldlM_cons]
    cases xo with
    | none =>
      rw [cstepG_dlink_none_md F e fuel mo k0 ms u (hl.1 rfl)]
      obtain ⟨r', p', T', hf, hi, hs⟩ := ih robjs processed (used ++ u) T hinv
      refine ⟨r', p', T', ?_, hi, ?_⟩
      · show List.foldlM _ _ _ = _
        rw [hf]; simp
      · rw [hs]; rfl
    | some ck =>
      obtain ⟨hc, hk'⟩ := hl.2 ck rfl
      rw [cstepG_dlink_some_md F e fuel mo k0 ms ck.1 ck.2 u hc hk']
      cases hk : ck.2 == k0 with
      | true =>
        simp only [if_true]
        obtain ⟨r', p', T', hf, hi, hs⟩ := ih robjs processed (used ++ u) T hinv
        refine ⟨r', p', T', ?_, hi, ?_⟩
        · show List.foldlM _ _ _ = _
          rw [hf]; simp
        · rw [hs]
          show _ = List.foldl (accStep k0) (accStep k0 (survOf T) ck) _
          unfold accStep; simp [hk]
      | false =>
        simp only [Bool.false_eq_true, if_false]
        obtain ⟨r1, p1, hacc, hinv1⟩ := cAccept_nodiff ck.2 ck.1 u robjs processed used T hinv
        rw [hacc]
        obtain ⟨r', p', T', hf, hi, hs⟩ := ih r1 p1 (used ++ u) _ hinv1
        refine ⟨r', p', T', ?_, hi, ?_⟩
        · show List.foldlM _ _ _ = _
          rw [hf]; simp
        · rw [hs]
          show _ = List.foldl (accStep k0) (accStep k0 (survOf T) ck) _
          congr 1
          unfold accStep
          simp only [hk, Bool.false_eq_true, if_false]
          unfold survOf
          rw [List.map_append, ← survOf.eq_1, survOf_filter]
          rfl

/-- the whole `.multiple` branch in diff mode for a master SCOPE without further master occurrences,
    all candidates succeeding: no template, the survivors of the non-empty difference candidates -/
theorem multiBranch_scope_diff_md (F : FetchFn) (e : Envs) (fuel : Nat) (mkids : List Obj) (idx : Nat)
    (mm : Meta) (kids : List Obj) (self : Obj) (uself : List Nat) (k0 : Str)
    (M : List Obj) (X : List (Option (Obj × Str) × List Nat)) (out : List Obj) (used : List Nat)
    (hfm : fromMasterOf mkids idx (.scope mm kids) = [])
    (hself : F false mm kids [] = .ok (self, uself))
    (hk0 : extractFormatStr e (fuel + 64) (.scope mm kids) self = .ok k0)
    (hl : Forall2 (DLink F e fuel (.scope mm kids)) M X) :
    multiBranch F e fuel true mkids idx (.scope mm kids) M out used =
      .ok (out ++ survivorsOf k0 (X.filterMap (fun x => x.1)), used ++ X.flatMap (fun x => x.2)) := by
  unfold multiBranch
  rw [masterKeyG_scope, hself]
  simp only
  rw [hk0, hfm, List.nil_append]
  simp only
  obtain ⟨r', p', T', hf, hi, hs⟩ := multi_fold_md F e fuel (.scope mm kids) k0 M X hl [] [] used [] MInv.nil
  rw [hf]
  simp only
  have hs' : survOf T' = dedupKeepLast ((X.filterMap (fun x => x.1)).filter (fun y => y.2 != k0)) := by
    rw [hs]; exact foldl_accStep_nil k0 _
  have h1 : r'.filterMap (fun (x : Option Obj) => x) = survivorsOf k0 (X.filterMap (fun x => x.1)) := by
    unfold survivorsOf
    rw [← someIdx_fst r' 0, hi.idx, ← hs']
    unfold survOf
    simp [List.map_map]
  rw [h1]
  unfold tmplObjsOf
  simp

theorem candOf_scope_diff_md (F : FetchFn) (e : Envs) (fuel : Nat) (mm : Meta) (kids : List Obj)
    (m' : Meta) (sk : List Obj) (ro : Obj) (u : List Nat) (h : F true mm kids sk = .ok (ro, u)) :
    candOf F e fuel true (.scope mm kids) false (.scope m' sk) =
      .ok ((if ro.children.isEmpty then none else some ro), u) := by
  unfold candOf
  simp only [h]
  rfl

theorem cstepG_scope_err_md (F : FetchFn) (e : Envs) (fuel : Nat) (mm : Meta) (kids : List Obj) (k0 : Str)
    (m' : Meta) (sk : List Obj) (E : Err) (h : F true mm kids sk = .error E) (acc : CAcc) :
    cstepG F e fuel true (.scope mm kids) k0 acc (false, .scope m' sk) = .error E := by
  unfold cstepG candOf
  simp only [h]
  rfl

theorem cstepG_scope_defn_md (F : FetchFn) (e : Envs) (fuel : Nat) (mm : Meta) (kids : List Obj) (k0 : Str)
    (dm : Meta) (dws : List Word) (acc : CAcc) :
    cstepG F e fuel true (.scope mm kids) k0 acc (false, .defn dm dws) = .error incompatibleErr := by
  unfold cstepG candOf
  rfl

theorem cstepG_dlink_ok_md (F : FetchFn) (e : Envs) (fuel : Nat) (mo : Obj) (k0 : Str)
    (ms : Obj) (x : Option (Obj × Str) × List Nat) (hl : DLink F e fuel mo ms x) (acc : CAcc) :
    ∃ b', cstepG F e fuel true mo k0 acc (false, ms) = .ok b' := by
  obtain ⟨robjs, processed, used⟩ := acc
  obtain ⟨xo, u⟩ := x
  cases xo with
  | none => exact ⟨_, cstepG_dlink_none_md F e fuel mo k0 ms u (hl.1 rfl) robjs processed used⟩
  | some ck =>
    obtain ⟨hc, hk⟩ := hl.2 ck rfl
    rw [cstepG_dlink_some_md F e fuel mo k0 ms ck.1 ck.2 u hc hk]
    split
    · exact ⟨_, rfl⟩
    · exact cAccept_ok_tm _ _ _ _ _ _

/-- what the source scope `s` contributes to the candidate loop of `.scope mm kids` in diff mode -/
def mdLinkOf (e : Envs) (mm : Meta) (kids : List Obj) (s : Obj) : Option (Obj × Str) × List Nat :=
  (if (msDiff e kids s.children).isEmpty then none else some (mdCK e mm kids s), msUsed kids s.children)

theorem filterMap_mdLinkOf (e : Envs) (mm : Meta) (kids : List Obj) : ∀ (l : List Obj),
    (l.map (mdLinkOf e mm kids)).filterMap (fun x => x.1) =
      (l.filter (fun s => !(msDiff e kids s.children).isEmpty)).map (mdCK e mm kids)
  | [] => rfl
  | s :: l => by
    rw [List.map_cons, List.filter_cons]
    cases h : (msDiff e kids s.children).isEmpty with
    | true =>
      have : (mdLinkOf e mm kids s).1 = none := by unfold mdLinkOf; simp only [h, if_true]
      rw [List.filterMap_cons_none this, filterMap_mdLinkOf e mm kids l]
      simp
    | false =>
      have : (mdLinkOf e mm kids s).1 = some (mdCK e mm kids s) := by
        unfold mdLinkOf; simp only [h, Bool.false_eq_true, if_false]
      rw [List.filterMap_cons_some this, filterMap_mdLinkOf e mm kids l]
      simp

/-! ## 4. one step of the master loop in diff mode -/

/-- **the step of the master loop, diff mode, for a `.multiple` master scope** without further master
    occurrences: no template; the list rule over the NON-EMPTY difference candidates, each the
    difference of the body against ONE source block — or the clash error -/
theorem stepG_multiscope_diff_md (F : FetchFn) (e : Envs) (fuel : Nat) (sm : Meta)
    (mkids combined : List Obj) (st : List Obj × List Nat) (idx : Nat) (mm : Meta) (kids : List Obj)
    (hmult : (mm.attrs.get "multiple").truthy = true)
    (hfm : fromMasterOf mkids idx (.scope mm kids) = [])
    (hmatch : fetchMatching fuel sm combined (.scope mm kids) = activeNamed mm.name combined)
    (hdep : depthL kids + 1 ≤ fuel)
    (hF0 : F false mm kids [] = .ok (msCand e mm kids [], msUsed kids []))
    (hF : ∀ s ∈ scopesNamed mm.name combined, F true mm kids s.children =
      if msNoClash kids s.children then .ok (mdCand e mm kids s.children, msUsed kids s.children)
      else .error incompatibleErr)
    (hk0 : ∃ k, extractFormatStr e (depthL kids + 1 + 64) (.scope mm kids) (msCand e mm kids []) = .ok k)
    (hk : ∀ s ∈ scopesNamed mm.name combined, (msDiff e kids s.children).isEmpty = false →
      ∃ k, extractFormatStr e (depthL kids + 1 + 64) (.scope mm kids) (mdCand e mm kids s.children) = .ok k) :
    stepG F e fuel true sm mkids combined st (idx, .scope mm kids) =
      if msNoClashObj (.scope mm kids) combined then
        .ok (st.1 ++ mdBlock e (.scope mm kids) combined, st.2 ++ msUsedObj (.scope mm kids) combined)
      else .error incompatibleErr := by
  have hm : isMultiple (.scope mm kids) = true := hmult
  obtain ⟨k0, hk0⟩ := hk0
  have hk0' : extractFormatStr e (fuel + 64) (.scope mm kids) (msCand e mm kids []) = .ok k0 := by
    rw [extractFormatStr_cand_fuel_ms e fuel mm kids [] hdep]; exact hk0
  have hstep : stepG F e fuel true sm mkids combined st (idx, .scope mm kids) =
      multiBranch F e fuel true mkids idx (.scope mm kids) (activeNamed mm.name combined) st.1 st.2 := by
    unfold stepG
    simp only [hm, Bool.not_true, Bool.false_eq_true, if_false]
    rw [hmatch]
  -- a source scope that does not clash is linked to its candidate
  have hlink : ∀ s ∈ scopesNamed mm.name combined, msNoClash kids s.children = true →
      DLink F e fuel (.scope mm kids) s (mdLinkOf e mm kids s) := by
    intro s hs hnc
    have hF' := hF s hs
    rw [hnc] at hF'
    simp only [if_true] at hF'
    have hsc := (mem_scopesNamed.mp hs).2.1
    cases s with
    | defn m ws => cases hsc
    | scope m' sk =>
      have hcand := candOf_scope_diff_md F e fuel mm kids m' sk _ _ hF'
      cases hne : (msDiff e kids sk).isEmpty with
      | true =>
        have h1 : mdLinkOf e mm kids (.scope m' sk) = (none, msUsed kids sk) := by
          unfold mdLinkOf; simp only [Obj.children, hne, if_true]
        rw [h1]
        refine ⟨fun _ => ?_, fun ck hck => by cases hck⟩
        rw [hcand]; simp only [Obj.children, hne, if_true]
      | false =>
        have h1 : mdLinkOf e mm kids (.scope m' sk) = (some (mdCK e mm kids (.scope m' sk)), msUsed kids sk) := by
          unfold mdLinkOf; simp only [Obj.children, hne, Bool.false_eq_true, if_false]
        rw [h1]
        refine ⟨(fun h => nomatch h), (fun ck hck => ?_)⟩
        cases hck
        obtain ⟨k, hk'⟩ := hk _ hs hne
        simp only [Obj.children] at hk'
        refine ⟨by rw [hcand]; simp only [Obj.children, hne, Bool.false_eq_true, if_false], ?_⟩
        show extractFormatStr e (fuel + 64) (.scope mm kids) (mdCand e mm kids sk) =
          .ok (keyMS e (.scope mm kids) (mdCand e mm kids sk))
        rw [extractFormatStr_dcand_fuel_md e fuel mm kids sk hdep, keyMS_ok hk']
        exact hk'
  -- every step is a success or the clash error
  have hsteps : ∀ a ∈ (activeNamed mm.name combined).map (fun (o : Obj) => (false, o)), ∀ b,
      (∃ b', cstepG F e fuel true (.scope mm kids) k0 b a = .ok b') ∨
        cstepG F e fuel true (.scope mm kids) k0 b a = .error incompatibleErr := by
    intro a ha b
    obtain ⟨o, ho, rfl⟩ := List.mem_map.mp ha
    have ho' := mem_activeNamed.mp ho
    cases o with
    | defn dm dws => exact .inr (cstepG_scope_defn_md F e fuel mm kids k0 dm dws b)
    | scope m' sk =>
      have hs : Obj.scope m' sk ∈ scopesNamed mm.name combined :=
        mem_scopesNamed.mpr ⟨ho'.1, rfl, ho'.2.1, ho'.2.2⟩
      cases hnc : msNoClash kids sk with
      | true => exact .inl (cstepG_dlink_ok_md F e fuel _ k0 _ _ (hlink _ hs hnc) b)
      | false =>
        have hF' := hF _ hs
        simp only [Obj.children, hnc, Bool.false_eq_true, if_false] at hF'
        exact .inr (cstepG_scope_err_md F e fuel mm kids k0 m' sk _ hF' b)
  have herr : (∃ a ∈ (activeNamed mm.name combined).map (fun (o : Obj) => (false, o)), ∀ b,
      cstepG F e fuel true (.scope mm kids) k0 b a = .error incompatibleErr) →
      multiBranch F e fuel true mkids idx (.scope mm kids) (activeNamed mm.name combined) st.1 st.2 =
        .error incompatibleErr := by
    intro hbad
    unfold multiBranch
    rw [masterKeyG_scope, hF0]
    simp only
    rw [hk0', hfm, List.nil_append]
    simp only
    rw [foldlM_error_of_mem (cstepG F e fuel true (.scope mm kids) k0) incompatibleErr _ hsteps hbad]
  rw [hstep, msNoClashObj, mdBlock_multi_eq e mm kids combined hmult, msUsedObj]
  simp only [hmult, if_true]
  cases hdn : defsNamed mm.name combined with
  | cons d rest =>
    simp only [List.isEmpty_cons, Bool.false_and, Bool.false_eq_true, if_false]
    apply herr
    have hd : d ∈ defsNamed mm.name combined := by rw [hdn]; exact List.mem_cons_self
    have hd' := mem_defsNamed.mp hd
    cases d with
    | scope m k => cases hd'.2.1
    | defn dm dws =>
      exact ⟨(false, .defn dm dws),
        List.mem_map.mpr ⟨_, mem_activeNamed.mpr ⟨hd'.1, hd'.2.2.1, hd'.2.2.2⟩, rfl⟩,
        fun b => cstepG_scope_defn_md F e fuel mm kids k0 dm dws b⟩
  | nil =>
    simp only [List.isEmpty_nil, Bool.true_and]
    have han := activeNamed_eq_scopesNamed_ms mm.name combined hdn
    cases hall : (scopesNamed mm.name combined).all (fun s => msNoClash kids s.children) with
    | false =>
      simp only [Bool.false_eq_true, if_false]
      apply herr
      rw [List.all_eq_false] at hall
      obtain ⟨s, hs, hnc⟩ := hall
      have hnc' : msNoClash kids s.children = false := by simpa using hnc
      have hsc := (mem_scopesNamed.mp hs).2.1
      cases s with
      | defn m ws => cases hsc
      | scope m' sk =>
        have hF' := hF _ hs
        simp only [Obj.children] at hnc'
        simp only [Obj.children, hnc', Bool.false_eq_true, if_false] at hF'
        exact ⟨(false, .scope m' sk), List.mem_map.mpr ⟨_, by rw [han]; exact hs, rfl⟩,
          fun b => cstepG_scope_err_md F e fuel mm kids k0 m' sk _ hF' b⟩
    | true =>
      simp only [if_true]
      rw [List.all_eq_true] at hall
      have hl : Forall2 (DLink F e fuel (.scope mm kids)) (activeNamed mm.name combined)
          ((scopesNamed mm.name combined).map (mdLinkOf e mm kids)) := by
        rw [han]
        apply forall2_map
        intro s hs
        exact hlink s hs (hall s hs)
      rw [multiBranch_scope_diff_md F e fuel mkids idx mm kids _ _ k0 _ _ st.1 st.2 hfm hF0 hk0' hl,
        filterMap_mdLinkOf, List.flatMap_map, keyMS_ok hk0]
      rfl

/-- the step, diff mode, for a non-multiple master scope, given the value of the callee on the next
    level: the scope with the difference of its children — dropped if that difference is empty -/
theorem stepG_scope_diff_md (F : FetchFn) (e : Envs) (fuel : Nat) (sm : Meta)
    (mkids combined : List Obj) (st : List Obj × List Nat) (idx : Nat) (mm : Meta) (kids : List Obj)
    (hmult : (mm.attrs.get "multiple").truthy = false)
    (hmatch : fetchMatching fuel sm combined (.scope mm kids) = activeNamed mm.name combined)
    (hF : F true mm kids (srcStep combined mm.name) =
      if msNoClash kids (srcStep combined mm.name) then
        .ok (mdCand e mm kids (srcStep combined mm.name), msUsed kids (srcStep combined mm.name))
      else .error incompatibleErr) :
    stepG F e fuel true sm mkids combined st (idx, .scope mm kids) =
      if msNoClashObj (.scope mm kids) combined then
        .ok (st.1 ++ mdBlock e (.scope mm kids) combined, st.2 ++ msUsedObj (.scope mm kids) combined)
      else .error incompatibleErr := by
  have hm : isMultiple (.scope mm kids) = false := hmult
  have hstep : stepG F e fuel true sm mkids combined st (idx, .scope mm kids) =
      scopeBranch F true mm kids (activeNamed mm.name combined) st.1 st.2 := by
    unfold stepG
    simp only [hm, Bool.not_false, if_true]
    rw [hmatch]
  rw [hstep, msNoClashObj, mdBlock_plain_eq e mm kids combined hmult, msUsedObj]
  simp only [hmult, Bool.false_eq_true, if_false]
  unfold scopeBranch
  cases hdn : defsNamed mm.name combined with
  | nil =>
    rw [find_isDefn_activeNamed_none _ _ hdn, activeNamed_children_tree, hF]
    simp only [List.isEmpty_nil, Bool.true_and]
    cases msNoClash kids (srcStep combined mm.name) with
    | true =>
      simp only [if_true, Obj.children]
      split
      · rename_i h; simp [h]
      · rename_i h; simp [h]
    | false => simp
  | cons d rest =>
    obtain ⟨x, hx⟩ := find_isDefn_activeNamed_some mm.name combined (by rw [hdn]; exact List.cons_ne_nil _ _)
    rw [hx]
    simp only [List.isEmpty_cons, Bool.false_and, Bool.false_eq_true, if_false]
    rfl

/-! ## 5. the whole difference -/

/-- **closed form of the difference of a nested master with `.multiple` scopes**
    (`scope.fetch(diff=True)`, i.e. `fetch_diff`): with fuel beyond the nesting depth PLUS ONE and
    defined keys, the difference succeeds exactly when there is no clash of kinds (`msNoClash`, the
    test of the non-diff fetch); its children are `msDiff`, the consumed ids are those of the
    non-diff fetch (`msUsed`); a clash makes it fail with RuntimeError ("incompatible"). -/
theorem diff_ms_total (e : Envs) : ∀ (fuel : Nat) (sm : Meta) (mkids srcs : List Obj),
    MSMaster mkids → depthL mkids + 1 < fuel → sm.disabled = false → SrcTree srcs →
    KeysDiffMS e mkids srcs →
    fetchScope e fuel true sm mkids srcs =
      if msNoClash mkids srcs then
        .ok (.scope { sm with tmpl := 0 } (msDiff e mkids srcs), msUsed mkids srcs)
      else .error incompatibleErr := by
  intro fuel
  induction fuel with
  | zero => intro sm mkids srcs _ hd; exact absurd hd (Nat.not_lt_zero _)
  | succ fuel ih =>
    intro sm mkids srcs hf hdepth hsd hsrc hkeys
    obtain ⟨f, rfl⟩ : ∃ f, fuel = f + 1 := ⟨fuel - 1, by omega⟩
    rw [fetchScope_succ, masterActive_ms mkids hf]
    simp only
    have hsc : ∀ m kids, Obj.scope m kids ∈ srcs → m.disabled = false → m.name ≠ [] :=
      fun m kids hm hd => hsrc.named m kids (.here hm hd)
    have hok : ∀ o ∈ srcs, o.meta.disabled = false → o.isDefn = true → SrcOK o :=
      fun o ho hd hdef => hsrc.ok o (.here ho hd) hdef
    rw [foldlM_cond_tree _ (fun io => msNoClashObj io.2 srcs) (fun io => mdBlock e io.2 srcs)
      (fun io => msUsedObj io.2 srcs) incompatibleErr]
    · have hall : (indexed mkids).all (fun io => msNoClashObj io.2 srcs) = msNoClash mkids srcs := by
        rw [msNoClash_eq_all]
        conv => rhs; rw [← indexed_map_snd mkids]
        rw [List.all_map]
        rfl
      rw [hall]
      cases msNoClash mkids srcs with
      | false => rfl
      | true =>
        simp only [if_true, List.nil_append]
        unfold fetchFinish
        rw [flatMap_snd (fun mo => mdBlock e mo srcs),
          flatMap_snd (fun mo => msUsedObj mo srcs), indexed_map_snd,
          ← msDiff_eq_flatMap, ← msUsed_eq_flatMap]
    · intro st a ha
      have hmem : a.2 ∈ mkids := by rw [← indexed_map_snd mkids]; exact List.mem_map.mpr ⟨a, ha, rfl⟩
      have hto := hf.obj _ hmem
      have hko := hkeys.obj _ hmem
      have hmatch := fetchMatching_tree (f + 1) sm srcs a.2 hsd hto.name_ne hto.dotfree hsc
      obtain ⟨i, mo⟩ := a
      simp only at hmem hto hmatch hko ⊢
      cases mo with
      | defn mm mws =>
        rw [MSObj] at hto
        rw [KeysDiffMSObj] at hko
        rw [msNoClashObj, mdBlock, msUsedObj, ← noClashObj, ← treeUsedObj, ← tdBlock]
        cases hmult : isMultiple (.defn mm mws) with
        | false => exact stepG_plain_diff_dt _ e f sm mkids srcs st i mm mws hto.1 hmult hmatch hok hko
        | true =>
          exact stepG_multi_diff_dt _ e f sm mkids srcs st i mm mws hto.1 hmult
            (fromMasterOf_nil mkids hf.distinct i _ ha) hmatch hok hko
      | scope mm kids =>
        have hkids := MSMaster.of_scope hto
        have hd1 := depthT_le_depthL mkids _ hmem
        rw [depthT] at hd1
        rw [MSObj] at hto
        rw [KeysDiffMSObj] at hko
        cases hmult : (mm.attrs.get "multiple").truthy with
        | false =>
          simp only [hmult, Bool.false_eq_true, if_false] at hko
          exact stepG_scope_diff_md _ e (f + 1) sm mkids srcs st i mm kids hmult hmatch
            (ih mm kids (srcStep srcs mm.name) hkids (by omega) hto.2.2.1 (hsrc.step mm.name) hko)
        | true =>
          simp only [hmult, if_true] at hko
          have h0 := fetch_ms_total e (f + 1) mm kids [] hkids (by omega) hto.2.2.1 SrcTree.nil_ms hko.2.1
          rw [msNoClash_nil_src] at h0
          simp only [if_true] at h0
          refine stepG_multiscope_diff_md _ e (f + 1) sm mkids srcs st i mm kids hmult
            (fromMasterOf_nil mkids hf.distinct i _ ha) hmatch (by omega) h0 ?_ hko.2.2.1
            (fun s hs => (hko.2.2.2 s hs).2)
          intro s hs
          have hs' := mem_scopesNamed.mp hs
          exact ih mm kids s.children hkids (by omega) hto.2.2.1
            (hsrc.child_ms hs'.1 hs'.2.2.1) (hko.2.2.2 s hs).1

/-- a successful difference is the specification -/
theorem diff_ms_ok (e : Envs) (fuel : Nat) (sm : Meta) (mkids srcs : List Obj)
    (hf : MSMaster mkids) (hfuel : depthL mkids + 1 < fuel) (hsd : sm.disabled = false)
    (hsrc : SrcTree srcs) (hkeys : KeysDiffMS e mkids srcs) (rm : Meta) (D : List Obj) (used : List Nat)
    (h : fetchScope e fuel true sm mkids srcs = .ok (.scope rm D, used)) :
    msNoClash mkids srcs = true ∧ rm = { sm with tmpl := 0 } ∧ D = msDiff e mkids srcs ∧
      used = msUsed mkids srcs := by
  rw [diff_ms_total e fuel sm mkids srcs hf hfuel hsd hsrc hkeys] at h
  cases hnc : msNoClash mkids srcs with
  | false => rw [hnc] at h; cases h
  | true =>
    rw [hnc] at h
    simp only [if_true] at h
    cases h
    exact ⟨rfl, rfl, rfl, rfl⟩

/-- the fuel `fetchRoot` computes is adequate for the difference as well -/
theorem fetchRoot_diff_ms (e : Envs) (master : List Obj) (ss : List (List Obj))
    (hf : MSMaster master) (hd : depthL master ≤ 1000) (hsrc : SrcTree ss.flatten)
    (hkeys : KeysDiffMS e master ss.flatten) :
    fetchRoot e true master ss =
      if msNoClash master ss.flatten then
        .ok (.scope { name := [], id := some 0 } (msDiff e master ss.flatten), msUsed master ss.flatten)
      else .error incompatibleErr :=
  diff_ms_total e _ _ master ss.flatten hf (fetchRoot_fuel_dt master hd) rfl hsrc hkeys

/-! ## 6. the laws of C08 on the specification: empty self-difference, minimality, no empty scopes -/

mutual
theorem mdBlock_nil_md (e : Envs) : ∀ (mo : Obj), mdBlock e mo [] = []
  | .defn mm mws => by
    rw [mdBlock]
    exact diffBlockL_nil e 0 _
  | .scope mm kids => by
    rw [mdBlock]
    have h1 : srcStep [] mm.name = [] := rfl
    have h2 : scopesNamed mm.name [] = [] := rfl
    rw [h1, h2, msDiff_nil_md e kids]
    split <;> rfl
/-- without sources the difference has no children -/
theorem msDiff_nil_md (e : Envs) : ∀ (l : List Obj), msDiff e l [] = []
  | [] => by rw [msDiff]
  | mo :: rest => by rw [msDiff, mdBlock_nil_md e mo, msDiff_nil_md e rest]; rfl
end

mutual
theorem msUsedObj_nil_md : ∀ (mo : Obj), msUsedObj mo [] = []
  | .defn mm mws => by rw [msUsedObj]; rfl
  | .scope mm kids => by
    rw [msUsedObj]
    have h1 : srcStep [] mm.name = [] := rfl
    have h2 : scopesNamed mm.name [] = [] := rfl
    rw [h1, h2, msUsed_nil_md kids]
    split <;> rfl
theorem msUsed_nil_md : ∀ (l : List Obj), msUsed l [] = []
  | [] => by rw [msUsed]
  | mo :: rest => by rw [msUsed, msUsedObj_nil_md mo, msUsed_nil_md rest]; rfl
end

theorem activeIn_append_md {x : Obj} {a b : List Obj} (h : ActiveIn x (a ++ b)) :
    ActiveIn x a ∨ ActiveIn x b := by
  cases h with
  | here hm hd =>
    rcases List.mem_append.mp hm with h1 | h1
    · exact .inl (.here h1 hd)
    · exact .inr (.here h1 hd)
  | deeper hm hd hk =>
    rcases List.mem_append.mp hm with h1 | h1
    · exact .inl (.deeper h1 hd hk)
    · exact .inr (.deeper h1 hd hk)

/-- the objects of the block of a master scope are scopes with the master's (enabled) meta, flag 0,
    and a NON-EMPTY difference of the body against source objects lying inside `srcs` -/
theorem mem_mdBlock_scope (e : Envs) (mm : Meta) (kids srcs : List Obj) (o : Obj)
    (ho : o ∈ mdBlock e (.scope mm kids) srcs) :
    ∃ S, o = .scope { mm with tmpl := 0 } (msDiff e kids S) ∧ msDiff e kids S ≠ [] ∧
      ∀ d, ActiveIn d S → ActiveIn d srcs := by
  cases hmult : (mm.attrs.get "multiple").truthy with
  | true =>
    rw [mdBlock_multi_eq e mm kids srcs hmult] at ho
    obtain ⟨x, hx, rfl, _⟩ := mem_survivorsOf_md ho
    obtain ⟨s, hs, rfl⟩ := List.mem_map.mp hx
    have hs' := List.mem_filter.mp hs
    have hsn := mem_scopesNamed.mp hs'.1
    refine ⟨s.children, rfl, ?_, ?_⟩
    · intro h0
      have := hs'.2
      rw [h0] at this
      cases this
    · intro d hd
      cases s with
      | defn m ws => exact (not_activeIn_nil_ms hd).elim
      | scope m sk => exact .deeper hsn.1 hsn.2.2.1 hd
  | false =>
    rw [mdBlock_plain_eq e mm kids srcs hmult] at ho
    split at ho
    · cases ho
    · rename_i hne
      rw [List.mem_singleton] at ho
      refine ⟨_, ho, ?_, fun d hd => activeIn_srcStep hd⟩
      intro h0
      rw [h0] at hne
      exact hne rfl

mutual
theorem mdBlock_minimal_md (e : Envs) : ∀ (mo : Obj) (srcs : List Obj), MSObj mo →
    ∀ x, ActiveIn x (mdBlock e mo srcs) → x.isDefn = true →
      ∃ m, ActiveIn m [mo] ∧ m.isDefn = true ∧ (∃ d, ActiveIn d srcs ∧ x = candOfSrc m d) ∧
        keyOf e 0 m x ≠ keyOf e 0 m m
  | .defn mm mws, srcs, ht, x, hx, hdef => by
    rw [MSObj] at ht
    rw [mdBlock] at hx
    cases hx with
    | here hm hd =>
      obtain ⟨⟨d, hd', hxd⟩, hk⟩ := mem_diffBlockL hm
      have hd'' := mem_defsNamed.mp hd'
      exact ⟨_, .here (List.mem_singleton.mpr rfl) ht.2.2.2, rfl, ⟨d, .here hd''.1 hd''.2.2.1, hxd⟩, hk⟩
    | deeper hm hd hk =>
      obtain ⟨⟨d, _, hxd⟩, _⟩ := mem_diffBlockL hm
      rw [candOfSrc_defn] at hxd
      cases hxd
  | .scope mm kids, srcs, ht, x, hx, hdef => by
    have hk := MSMaster.of_scope ht
    rw [MSObj] at ht
    have key : ∀ o ∈ mdBlock e (.scope mm kids) srcs, ActiveIn x o.children →
        ∃ m, ActiveIn m [Obj.scope mm kids] ∧ m.isDefn = true ∧ (∃ d, ActiveIn d srcs ∧ x = candOfSrc m d) ∧
          keyOf e 0 m x ≠ keyOf e 0 m m := by
      intro o ho hxo
      obtain ⟨S, rfl, _, hS⟩ := mem_mdBlock_scope e mm kids srcs o ho
      obtain ⟨m, hm, hmd, ⟨d, hd, hxd⟩, hne⟩ := msDiff_minimal_md e kids S hk.kids x hxo hdef
      exact ⟨m, .deeper (List.mem_singleton.mpr rfl) ht.2.2.1 hm, hmd, ⟨d, hS d hd, hxd⟩, hne⟩
    cases hx with
    | here hm hd =>
      obtain ⟨S, rfl, _, _⟩ := mem_mdBlock_scope e mm kids srcs x hm
      cases hdef
    | deeper hm hd hk' => exact key _ hm hk'
/-- **minimality**: every definition of a difference, at any depth (inside instances of `.multiple`
    scopes too), is the candidate built from an enabled source definition for a master definition
    `mo`, and its key `mo.extract_format(source=x).as_str()` differs from the key of `mo` -/
theorem msDiff_minimal_md (e : Envs) : ∀ (l : List Obj) (srcs : List Obj), MSKids l →
    ∀ x, ActiveIn x (msDiff e l srcs) → x.isDefn = true →
      ∃ mo, ActiveIn mo l ∧ mo.isDefn = true ∧ (∃ d, ActiveIn d srcs ∧ x = candOfSrc mo d) ∧
        keyOf e 0 mo x ≠ keyOf e 0 mo mo
  | [], srcs, _, x, hx, _ => by rw [msDiff] at hx; exact (not_activeIn_nil_ms hx).elim
  | mo :: rest, srcs, ht, x, hx, hdef => by
    rw [MSKids] at ht
    rw [msDiff] at hx
    rcases activeIn_append_md hx with h | h
    · obtain ⟨m, hm, r⟩ := mdBlock_minimal_md e mo srcs ht.1 x h hdef
      exact ⟨m, hm.mono (fun y hy => by rw [List.mem_singleton] at hy; subst hy; exact List.mem_cons_self), r⟩
    · obtain ⟨m, hm, r⟩ := msDiff_minimal_md e rest srcs ht.2 x h hdef
      exact ⟨m, hm.mono (fun y hy => List.mem_cons_of_mem _ hy), r⟩
end

mutual
theorem mdBlock_no_empty_md (e : Envs) : ∀ (mo : Obj) (srcs : List Obj),
    ∀ m k, ActiveIn (.scope m k) (mdBlock e mo srcs) → k ≠ []
  | .defn mm mws, srcs, m, k, hx => by
    rw [mdBlock] at hx
    cases hx with
    | here hm hd =>
      obtain ⟨⟨d, _, hxd⟩, _⟩ := mem_diffBlockL hm
      rw [candOfSrc_defn] at hxd
      cases hxd
    | deeper hm hd hk =>
      obtain ⟨⟨d, _, hxd⟩, _⟩ := mem_diffBlockL hm
      rw [candOfSrc_defn] at hxd
      cases hxd
  | .scope mm kids, srcs, m, k, hx => by
    cases hx with
    | here hm hd =>
      obtain ⟨S, ho, hne, _⟩ := mem_mdBlock_scope e mm kids srcs _ hm
      injection ho with _ hk
      rw [hk]; exact hne
    | deeper hm hd hk =>
      obtain ⟨S, ho, _, _⟩ := mem_mdBlock_scope e mm kids srcs _ hm
      injection ho with _ hk'
      rw [hk'] at hk
      exact msDiff_no_empty_md e kids S m k hk
/-- **empty scopes are dropped**: every scope of a difference, at any depth, has children -/
theorem msDiff_no_empty_md (e : Envs) : ∀ (l : List Obj) (srcs : List Obj),
    ∀ m k, ActiveIn (.scope m k) (msDiff e l srcs) → k ≠ []
  | [], srcs, m, k, hx => by rw [msDiff] at hx; exact (not_activeIn_nil_ms hx).elim
  | mo :: rest, srcs, m, k, hx => by
    rw [msDiff] at hx
    rcases activeIn_append_md hx with h | h
    · exact mdBlock_no_empty_md e mo srcs m k h
    · exact msDiff_no_empty_md e rest srcs m k h
end

/-! ## 7. two list rules over the same candidates: working-set keys against difference keys -/

/-- `dedupKeepLast` on a list of items whose keys are computed by `k` -/
def dedupBy_md {α : Type} (k : α → Str) : List α → List α
  | [] => []
  | x :: xs => if xs.any (fun y => k y == k x) then dedupBy_md k xs else x :: dedupBy_md k xs

theorem dedupKeepLast_map_md {α β : Type} (g : α → β) (k : α → Str) : ∀ (l : List α),
    dedupKeepLast (l.map (fun a => (g a, k a))) = (dedupBy_md k l).map (fun a => (g a, k a))
  | [] => rfl
  | x :: xs => by
    rw [List.map_cons, dedupKeepLast, dedupBy_md, dedupKeepLast_map_md g k xs, List.any_map]
    have : ((fun (y : β × Str) => y.2 == (g x, k x).2) ∘ fun a => (g a, k a)) = fun y => k y == k x := rfl
    rw [this]
    split <;> rfl

theorem survivorsOf_map_md {α : Type} (g : α → Obj) (k : α → Str) (k0 : Str) (l : List α) :
    survivorsOf k0 (l.map (fun a => (g a, k a))) =
      (dedupBy_md k (l.filter (fun a => k a != k0))).map g := by
  unfold survivorsOf
  rw [List.filter_map]
  have : ((fun (y : Obj × Str) => y.2 != k0) ∘ fun a => (g a, k a)) = fun a => k a != k0 := rfl
  rw [this, dedupKeepLast_map_md, List.map_map]
  rfl

theorem dedupBy_sublist_md {α : Type} (k : α → Str) : ∀ (l : List α), (dedupBy_md k l).Sublist l
  | [] => List.Sublist.refl _
  | x :: xs => by
    rw [dedupBy_md]
    split
    · exact (dedupBy_sublist_md k xs).cons _
    · exact (dedupBy_sublist_md k xs).cons_cons _

/-- every key of the list is represented among the survivors -/
theorem dedupBy_repr_md {α : Type} (k : α → Str) : ∀ (l : List α) (b : α), b ∈ l →
    ∃ b' ∈ dedupBy_md k l, k b' = k b
  | [], b, hb => by cases hb
  | x :: xs, b, hb => by
    rw [dedupBy_md]
    rw [List.mem_cons] at hb
    cases hany : xs.any (fun y => k y == k x) with
    | true =>
      simp only [if_true]
      rcases hb with rfl | hb
      · obtain ⟨y, hy, hyk⟩ := List.any_eq_true.mp hany
        obtain ⟨b', hb', hk'⟩ := dedupBy_repr_md k xs y hy
        exact ⟨b', hb', by rw [hk']; simpa using hyk⟩
      · exact dedupBy_repr_md k xs b hb
    | false =>
      simp only [Bool.false_eq_true, if_false]
      rcases hb with rfl | hb
      · exact ⟨b, List.mem_cons_self, rfl⟩
      · obtain ⟨b', hb', hk'⟩ := dedupBy_repr_md k xs b hb
        exact ⟨b', List.mem_cons_of_mem _ hb', hk'⟩

/-- **two list rules in a row.**  `fk` — the key in the working set, `dk` — the key in the difference,
    `P` — "visible in the difference".  If a visible item is not dropped from the working set (`h1`)
    and items with the same working-set key as a visible one are visible with the same difference key
    (`h2`), then applying the difference's list rule to the survivors of the working set's list rule
    gives what it gives on the original list. -/
theorem dedup_coherent_md {α : Type} (fk dk : α → Str) (P : α → Bool) (k0 : Str) : ∀ (l : List α),
    (∀ a ∈ l, P a = true → fk a ≠ k0) →
    (∀ a ∈ l, ∀ b ∈ l, P a = true → fk a = fk b → P b = true ∧ dk b = dk a) →
    dedupBy_md dk ((dedupBy_md fk (l.filter (fun a => fk a != k0))).filter P) = dedupBy_md dk (l.filter P)
  | [], _, _ => rfl
  | x :: xs, h1, h2 => by
    have ih := dedup_coherent_md fk dk P k0 xs (fun a ha => h1 a (List.mem_cons_of_mem _ ha))
      (fun a ha b hb => h2 a (List.mem_cons_of_mem _ ha) b (List.mem_cons_of_mem _ hb))
    have hx1 := h1 x List.mem_cons_self
    cases hfx : (fk x != k0) with
    | false =>
      have hfx' : fk x = k0 := by simpa using hfx
      have hPx : P x = false := by
        cases hp : P x with
        | false => rfl
        | true => exact absurd hfx' (hx1 hp)
      simp only [List.filter_cons, hfx, hPx, Bool.false_eq_true, if_false]
      exact ih
    | true =>
      have hany : (xs.filter (fun a => fk a != k0)).any (fun y => fk y == fk x) =
          xs.any (fun y => fk y == fk x) := by
        apply Bool.eq_iff_iff.mpr
        rw [List.any_eq_true, List.any_eq_true]
        constructor
        · rintro ⟨b, hb, hbk⟩
          exact ⟨b, (List.mem_filter.mp hb).1, hbk⟩
        · rintro ⟨b, hb, hbk⟩
          refine ⟨b, List.mem_filter.mpr ⟨hb, ?_⟩, hbk⟩
          have : fk b = fk x := by simpa using hbk
          rw [this]; exact hfx
      rw [List.filter_cons]
      simp only [hfx, if_true]
      rw [dedupBy_md, hany]
      cases hlater : xs.any (fun y => fk y == fk x) with
      | true =>
        simp only [if_true]
        rw [ih, List.filter_cons (p := P)]
        cases hPx : P x with
        | false => simp only [Bool.false_eq_true, if_false]
        | true =>
          simp only [if_true]
          rw [dedupBy_md]
          obtain ⟨b, hb, hbk⟩ := List.any_eq_true.mp hlater
          have hbk' : fk b = fk x := by simpa using hbk
          obtain ⟨hPb, hdb⟩ := h2 x List.mem_cons_self b (List.mem_cons_of_mem _ hb) hPx hbk'.symm
          have : (xs.filter P).any (fun y => dk y == dk x) = true := by
            rw [List.any_eq_true]; exact ⟨b, List.mem_filter.mpr ⟨hb, hPb⟩, by simp [hdb]⟩
          rw [this]; simp only [if_true]
      | false =>
        simp only [Bool.false_eq_true, if_false, List.filter_cons (p := P)]
        cases hPx : P x with
        | false => simp only [Bool.false_eq_true, if_false]; exact ih
        | true =>
          simp only [if_true]
          rw [dedupBy_md, dedupBy_md, ih]
          have hanyeq : ((dedupBy_md fk (xs.filter (fun a => fk a != k0))).filter P).any
              (fun y => dk y == dk x) = (xs.filter P).any (fun y => dk y == dk x) := by
            apply Bool.eq_iff_iff.mpr
            rw [List.any_eq_true, List.any_eq_true]
            constructor
            · rintro ⟨b, hb, hbk⟩
              have hb' := List.mem_filter.mp hb
              exact ⟨b, List.mem_filter.mpr
                ⟨(List.mem_filter.mp ((dedupBy_sublist_md fk _).subset hb'.1)).1, hb'.2⟩, hbk⟩
            · rintro ⟨b, hb, hbk⟩
              have hb' := List.mem_filter.mp hb
              have hbne : fk b ≠ k0 := h1 b (List.mem_cons_of_mem _ hb'.1) hb'.2
              obtain ⟨b', hb'm, hb'k⟩ := dedupBy_repr_md fk (xs.filter (fun a => fk a != k0)) b
                (List.mem_filter.mpr ⟨hb'.1, by simpa using hbne⟩)
              have hb'xs : b' ∈ xs := (List.mem_filter.mp ((dedupBy_sublist_md fk _).subset hb'm)).1
              obtain ⟨hPb', hdb'⟩ := h2 b (List.mem_cons_of_mem _ hb'.1) b' (List.mem_cons_of_mem _ hb'xs)
                hb'.2 hb'k.symm
              exact ⟨b', List.mem_filter.mpr ⟨hb'm, hPb'⟩, by rw [hdb']; exact hbk⟩
          rw [hanyeq]
/-! ## 8. the difference of the working set is the difference of the sources -/

/-- the key of the working-set candidate of the source scope `s` -/
abbrev fkMS (e : Envs) (mm : Meta) (kids : List Obj) (s : Obj) : Str :=
  keyMS e (.scope mm kids) (msCand e mm kids s.children)
/-- the key of the difference candidate of the source scope `s` -/
abbrev dkMS (e : Envs) (mm : Meta) (kids : List Obj) (s : Obj) : Str :=
  keyMS e (.scope mm kids) (mdCand e mm kids s.children)
/-- the source scope `s` is visible in the difference: its difference candidate is non-empty and
    its key is not the master key -/
def visMS (e : Envs) (mm : Meta) (kids : List Obj) (s : Obj) : Bool :=
  (dkMS e mm kids s != keyMS e (.scope mm kids) (msCand e mm kids [])) && !(msDiff e kids s.children).isEmpty

mutual
def CohMSObj (e : Envs) : Obj → List Obj → Prop
  | .defn _ _, _ => True
  | .scope mm kids, srcs =>
    if (mm.attrs.get "multiple").truthy then
      CohMS e kids [] ∧ (∀ s ∈ scopesNamed mm.name srcs, CohMS e kids s.children) ∧
      (∀ a ∈ scopesNamed mm.name srcs, visMS e mm kids a = true →
        fkMS e mm kids a ≠ keyMS e (.scope mm kids) (msCand e mm kids [])) ∧
      (∀ a ∈ scopesNamed mm.name srcs, ∀ b ∈ scopesNamed mm.name srcs, visMS e mm kids a = true →
        fkMS e mm kids a = fkMS e mm kids b → visMS e mm kids b = true ∧ dkMS e mm kids b = dkMS e mm kids a)
    else CohMS e kids (srcStep srcs mm.name)
/-- **coherence of the two renderings** at every `.multiple` master scope, for the source blocks `a`, `b`
    of its name (at every depth, inside every instance): a block visible in the difference is not
    dropped from the working set (its working-set rendering is not the master's), and a block whose
    working-set rendering equals that of a visible one is visible with the same difference rendering.
    (Both hold when "equal renderings of the full instance ⇔ equal renderings of the difference", which
    is what one expects of a rendering that lists the parameters one by one; it is a hypothesis here
    because the renderings are opaque strings.) -/
def CohMS (e : Envs) : List Obj → List Obj → Prop
  | [], _ => True
  | mo :: rest, srcs => CohMSObj e mo srcs ∧ CohMS e rest srcs
end

theorem CohMS.obj {e : Envs} : ∀ {l : List Obj} {srcs : List Obj}, CohMS e l srcs →
    ∀ o ∈ l, CohMSObj e o srcs
  | [], _, _, o, ho => by cases ho
  | a :: os, srcs, h, o, ho => by
    rw [CohMS] at h
    rw [List.mem_cons] at ho
    rcases ho with rfl | ho
    · exact h.1
    · exact CohMS.obj h.2 o ho

mutual
theorem cohMSObj_nil (e : Envs) : ∀ (mo : Obj), CohMSObj e mo []
  | .defn mm mws => by rw [CohMSObj]; trivial
  | .scope mm kids => by
    rw [CohMSObj]
    have h1 : srcStep [] mm.name = [] := rfl
    have h2 : scopesNamed mm.name [] = [] := rfl
    split
    · rw [h2]
      exact ⟨cohMS_nil e kids, (fun s hs => nomatch hs), (fun s hs => nomatch hs), (fun s hs => nomatch hs)⟩
    · rw [h1]; exact cohMS_nil e kids
/-- without sources there is nothing to compare -/
theorem cohMS_nil (e : Envs) : ∀ (l : List Obj), CohMS e l []
  | [] => by rw [CohMS]; trivial
  | mo :: rest => by rw [CohMS]; exact ⟨cohMSObj_nil e mo, cohMS_nil e rest⟩
end

/-! ### the master's own body as the source: empty difference -/

mutual
theorem mdBlock_self_md (e : Envs) : ∀ (mo : Obj) (R : List Obj), MSObj mo → RefetchTree [mo] →
    activeNamed mo.name R = [mo] → mdBlock e mo R = []
  | .defn mm mws, R, ht, hr, hv => by
    rw [MSObj] at ht
    have hr' := hr (.defn mm mws) (.here (List.mem_singleton.mpr rfl) ht.2.2.2) rfl
    have hv' : activeNamed mm.name R = [.defn mm mws] := hv
    have hdn : defsNamed mm.name R = [.defn mm mws] := by
      rw [defsNamed_eq_filter_tree, hv']; rfl
    rw [mdBlock, hdn]
    unfold diffBlockL
    split
    · unfold survivorsOf candsOf
      simp only [List.map_cons, List.map_nil, candOfSrc_self_ms mm mws hr'.1 hr'.2.1, List.filter_cons,
        bne_self_eq_false, Bool.false_eq_true, if_false, List.filter_nil]
      rfl
    · simp only [List.getLast?_singleton, candOfSrc_self_ms mm mws hr'.1 hr'.2.1, beq_self_eq_true, if_true]
  | .scope mm kids, R, ht, hr, hv => by
    have hk := MSMaster.of_scope ht
    rw [MSObj] at ht
    have hv' : activeNamed mm.name R = [.scope mm kids] := hv
    have hself : msDiff e kids kids = [] :=
      msDiff_self_md e kids kids hk.kids (hr.kids ht.2.2.1) (view_self_ms kids hk)
    cases hmult : (mm.attrs.get "multiple").truthy with
    | true =>
      have hs : scopesNamed mm.name R = [.scope mm kids] :=
        scopesNamed_of_view_ms _ _ _ hv' (fun o ho => by rw [List.mem_singleton] at ho; subst ho; rfl)
      rw [mdBlock_multi_eq e mm kids R hmult, hs]
      simp only [List.filter_cons, Obj.children, hself, List.isEmpty_nil, Bool.not_true, Bool.false_eq_true,
        if_false, List.filter_nil, List.map_nil]
      rfl
    | false =>
      have h1 : srcStep R mm.name = kids := by
        rw [srcStep_of_view_ms _ _ _ hv']; simp [Obj.children]
      rw [mdBlock_plain_eq e mm kids R hmult, h1, hself]
      rfl
theorem msDiff_self_md (e : Envs) : ∀ (l : List Obj) (R : List Obj), MSKids l → RefetchTree l →
    (∀ mo ∈ l, activeNamed mo.name R = [mo]) → msDiff e l R = []
  | [], R, _, _, _ => by rw [msDiff]
  | mo :: rest, R, ht, hr, hv => by
    rw [MSKids] at ht
    rw [msDiff, mdBlock_self_md e mo R ht.1 hr.head (hv mo List.mem_cons_self),
      msDiff_self_md e rest R ht.2 hr.tail (fun o ho => hv o (List.mem_cons_of_mem _ ho))]
    rfl
end

/-- **the master's own body as the source gives the empty difference** (`M.fetch_diff(M)` is empty) -/
theorem msDiff_self (e : Envs) (mkids : List Obj) (hf : MSMaster mkids) (hr : RefetchTree mkids) :
    msDiff e mkids mkids = [] :=
  msDiff_self_md e mkids mkids hf.kids hr (view_self_ms mkids hf)


/-- the `.multiple` scope case of "the working set has the difference of its sources" -/
theorem mdBlock_multi_working_md (e : Envs) (mm : Meta) (kids srcs R : List Obj)
    (hmult : (mm.attrs.get "multiple").truthy = true)
    (hDW : ∀ S, CohMS e kids S → msDiff e kids (msResult e kids S) = msDiff e kids S)
    (hself : msDiff e kids kids = [])
    (hcoh : CohMSObj e (.scope mm kids) srcs)
    (hv : activeNamed mm.name R = msBlock e (.scope mm kids) srcs) :
    mdBlock e (.scope mm kids) R = mdBlock e (.scope mm kids) srcs := by
  rw [CohMSObj] at hcoh
  simp only [hmult, if_true] at hcoh
  obtain ⟨hc0, hcs, h1, h2⟩ := hcoh
  have hmem := msBlock_member_ms e (.scope mm kids) srcs
  have hsc : scopesNamed mm.name R = msBlock e (.scope mm kids) srcs :=
    scopesNamed_of_view_ms _ _ _ hv (fun o ho => (hmem o ho).2.2)
  rw [mdBlock_multi_eq e mm kids R hmult, mdBlock_multi_eq e mm kids srcs hmult, hsc,
    msBlock_multi_eq e mm kids srcs hmult]
  generalize hk0 : keyMS e (.scope mm kids) (msCand e mm kids []) = k0 at h1 h2 ⊢
  generalize hL : scopesNamed mm.name srcs = L at hcs h1 h2 ⊢
  -- the working-set block: template, then the survivors by the working-set keys
  have hblock : msMultiBlock (.scope mm kids) (msCand e mm kids []) k0 (L.map (msCK e mm kids)) =
      (if ((Obj.scope mm kids).attr "optional").mandatory then withTmpl (msCand e mm kids []) 0
       else withTmpl (.scope mm kids)
        (if (dedupKeepLast ((L.map (msCK e mm kids)).filter (fun y => y.2 != k0))).isEmpty then 1 else -1)) ::
      (dedupBy_md (fkMS e mm kids) (L.filter (fun a => fkMS e mm kids a != k0))).map
        (fun s => msCand e mm kids s.children) := by
    unfold msMultiBlock
    congr 1
    exact survivorsOf_map_md (fun s => msCand e mm kids s.children) (fkMS e mm kids) k0 L
  rw [hblock]
  generalize hA : dedupBy_md (fkMS e mm kids) (L.filter (fun a => fkMS e mm kids a != k0)) = A
  have hAL : ∀ s ∈ A, s ∈ L := by
    intro s hs
    rw [← hA] at hs
    exact (List.mem_filter.mp ((dedupBy_sublist_md _ _).subset hs)).1
  -- the template has an empty difference
  have hT : (!(msDiff e kids
      (if ((Obj.scope mm kids).attr "optional").mandatory then withTmpl (msCand e mm kids []) 0
       else withTmpl (.scope mm kids)
        (if (dedupKeepLast ((L.map (msCK e mm kids)).filter (fun y => y.2 != k0))).isEmpty then 1 else -1)).children).isEmpty)
      = false := by
    split
    · show (!(msDiff e kids (msResult e kids [])).isEmpty) = false
      rw [hDW [] hc0, msDiff_nil_md]; rfl
    · show (!(msDiff e kids kids).isEmpty) = false
      rw [hself]; rfl
  rw [List.filter_cons, hT]
  simp only [Bool.false_eq_true, if_false]
  -- the surviving instances have the differences of their sources
  have hcand : ((A.map (fun s => msCand e mm kids s.children)).filter
      (fun s => !(msDiff e kids s.children).isEmpty)).map (mdCK e mm kids) =
      (A.filter (fun s => !(msDiff e kids s.children).isEmpty)).map (mdCK e mm kids) := by
    rw [List.filter_map, List.map_map]
    have hf : A.filter ((fun s => !(msDiff e kids s.children).isEmpty) ∘ fun s => msCand e mm kids s.children) =
        A.filter (fun s => !(msDiff e kids s.children).isEmpty) := by
      apply List.filter_congr
      intro s hs
      show (!(msDiff e kids (msResult e kids s.children)).isEmpty) = _
      rw [hDW _ (hcs s (hAL s hs))]
    rw [hf]
    apply List.map_congr_left
    intro s hs
    have hs' := (List.mem_filter.mp hs).1
    show mdCK e mm kids (msCand e mm kids s.children) = mdCK e mm kids s
    show (mdCand e mm kids (msResult e kids s.children), keyMS e _ (mdCand e mm kids (msResult e kids s.children))) = _
    have : mdCand e mm kids (msResult e kids s.children) = mdCand e mm kids s.children := by
      unfold mdCand; rw [hDW _ (hcs s (hAL s hs'))]
    rw [this]
  rw [hcand]
  have hmd : mdCK e mm kids = fun s => (mdCand e mm kids s.children, dkMS e mm kids s) := rfl
  rw [hmd, survivorsOf_map_md, survivorsOf_map_md, List.filter_filter, List.filter_filter]
  congr 1
  have hP : (fun a => (dkMS e mm kids a != k0) && !(msDiff e kids a.children).isEmpty) = visMS e mm kids := by
    funext a; unfold visMS; rw [hk0]
  rw [hP, ← hA]
  exact dedup_coherent_md (fkMS e mm kids) (dkMS e mm kids) (visMS e mm kids) k0 L h1 h2

mutual
theorem mdBlock_view_working_md (e : Envs) : ∀ (mo : Obj) (srcs R : List Obj), MSObj mo → RefetchTree [mo] →
    CohMSObj e mo srcs → activeNamed mo.name R = msBlock e mo srcs → mdBlock e mo R = mdBlock e mo srcs
  | .defn mm mws, srcs, R, ht, hr, hc, hv => by
    rw [MSObj] at ht
    have hr' := hr (.defn mm mws) (.here (List.mem_singleton.mpr rfl) ht.2.2.2) rfl
    have hv' : activeNamed mm.name R = msBlock e (.defn mm mws) srcs := hv
    rw [msBlock, tmBlock_eq_gBlock_dt, gBlock_dt] at hv'
    have hd : defsNamed mm.name R = blockL e 0 (.defn mm mws) (defsNamed mm.name srcs) := by
      rw [defsNamed_eq_filter_tree, hv', List.filter_eq_self]
      intro o ho
      exact ((goodFam_blockL_dt e 0).basic mm mws _ o ho).2.2
    rw [mdBlock, mdBlock, hd, diffBlockL_blockL e 0 mm mws hr'.1 hr'.2.1]
  | .scope mm kids, srcs, R, ht, hr, hc, hv => by
    have hk := MSMaster.of_scope ht
    rw [MSObj] at ht
    have hrk := hr.kids ht.2.2.1
    have hDW : ∀ S, CohMS e kids S → msDiff e kids (msResult e kids S) = msDiff e kids S :=
      fun S hS => msDiff_view_working_md e kids S _ hk.kids hrk hS (view_ms e kids S hk)
    cases hmult : (mm.attrs.get "multiple").truthy with
    | true =>
      exact mdBlock_multi_working_md e mm kids srcs R hmult hDW (msDiff_self e kids hk hrk) hc hv
    | false =>
      have hv' : activeNamed mm.name R = msBlock e (.scope mm kids) srcs := hv
      rw [CohMSObj] at hc
      simp only [hmult, Bool.false_eq_true, if_false] at hc
      rw [msBlock] at hv'
      simp only [hmult, Bool.false_eq_true, if_false] at hv'
      rw [mdBlock_plain_eq e mm kids R hmult, mdBlock_plain_eq e mm kids srcs hmult,
        srcStep_of_view_ms _ _ _ hv']
      simp only [List.flatMap_cons, List.flatMap_nil, List.append_nil, Obj.children]
      rw [hDW _ hc]
theorem msDiff_view_working_md (e : Envs) : ∀ (l : List Obj) (srcs R : List Obj), MSKids l →
    RefetchTree l → CohMS e l srcs → (∀ mo ∈ l, activeNamed mo.name R = msBlock e mo srcs) →
    msDiff e l R = msDiff e l srcs
  | [], srcs, R, _, _, _, _ => by rw [msDiff, msDiff]
  | mo :: rest, srcs, R, ht, hr, hc, hv => by
    rw [MSKids] at ht
    rw [CohMS] at hc
    rw [msDiff, msDiff,
      mdBlock_view_working_md e mo srcs R ht.1 hr.head hc.1 (hv mo List.mem_cons_self),
      msDiff_view_working_md e rest srcs R ht.2 hr.tail hc.2 (fun o ho => hv o (List.mem_cons_of_mem _ ho))]
end

/-- **the working set has the difference of the sources it was fetched from**
    (`M.fetch_diff(M.fetch(S)) = M.fetch_diff(S)` on the specification), under `CohMS` -/
theorem msDiff_working (e : Envs) (mkids srcs : List Obj) (hf : MSMaster mkids) (hr : RefetchTree mkids)
    (hc : CohMS e mkids srcs) :
    msDiff e mkids (msResult e mkids srcs) = msDiff e mkids srcs :=
  msDiff_view_working_md e mkids srcs _ hf.kids hr hc (view_ms e mkids srcs hf)

/-- **the difference of the master's own defaults is empty** (no hypothesis on the renderings) -/
theorem msDiff_defaults (e : Envs) (mkids : List Obj) (hf : MSMaster mkids) (hr : RefetchTree mkids) :
    msDiff e mkids (msResult e mkids []) = [] := by
  rw [msDiff_working e mkids [] hf hr (cohMS_nil e mkids), msDiff_nil_md]


/-! ## 9. the side conditions of the difference of a working set -/

theorem keysDefined_defn_view_md (e : Envs) (mm : Meta) (mws : List Word) (srcs R : List Obj)
    (ht : mm.tmpl = 0) (hvr : mm.varRes = none)
    (hk : KeysDefined e 0 (.defn mm mws) (defsNamed mm.name srcs))
    (hv : activeNamed mm.name R = msBlock e (.defn mm mws) srcs) :
    KeysDefined e 0 (.defn mm mws) (defsNamed mm.name R) := by
  rw [msBlock, tmBlock_eq_gBlock_dt, gBlock_dt] at hv
  have hd : defsNamed mm.name R = blockL e 0 (.defn mm mws) (defsNamed mm.name srcs) := by
    rw [defsNamed_eq_filter_tree, hv, List.filter_eq_self]
    intro o ho
    exact ((goodFam_blockL_dt e 0).basic mm mws _ o ho).2.2
  rw [hd]
  exact hk.of_closed (candClosed_blockL e 0 mm mws ht hvr _)

mutual
theorem keysDiff_self_obj (e : Envs) : ∀ (mo : Obj) (R : List Obj), MSObj mo → RefetchTree [mo] →
    activeNamed mo.name R = [mo] → KeysDiffMSObj e mo [] → KeysDiffMSObj e mo R
  | .defn mm mws, R, ht, hr, hv, hk => by
    rw [MSObj] at ht
    have hr' := hr (.defn mm mws) (.here (List.mem_singleton.mpr rfl) ht.2.2.2) rfl
    have hv' : activeNamed mm.name R = [.defn mm mws] := hv
    have hdn : defsNamed mm.name R = [.defn mm mws] := by
      rw [defsNamed_eq_filter_tree, hv']; rfl
    rw [KeysDiffMSObj] at hk ⊢
    rw [hdn]
    refine ⟨hk.1, ?_⟩
    intro d hd
    rw [List.mem_singleton] at hd; subst hd
    rw [candOfSrc_self_ms mm mws hr'.1 hr'.2.1]
    exact hk.1
  | .scope mm kids, R, ht, hr, hv, hk => by
    have hkm := MSMaster.of_scope ht
    rw [MSObj] at ht
    have hrk := hr.kids ht.2.2.1
    have hv' : activeNamed mm.name R = [.scope mm kids] := hv
    have hB : ∀ o ∈ [Obj.scope mm kids], o.isDefn = false := by
      intro o ho; rw [List.mem_singleton] at ho; subst ho; rfl
    rw [KeysDiffMSObj] at hk ⊢
    cases hmult : (mm.attrs.get "multiple").truthy with
    | true =>
      simp only [hmult, if_true] at hk ⊢
      refine ⟨hk.1, hk.2.1, hk.2.2.1, ?_⟩
      intro s hs
      rw [scopesNamed_of_view_ms _ _ _ hv' hB, List.mem_singleton] at hs
      subst hs
      refine ⟨keysDiff_self_list e kids kids hkm.kids hrk (view_self_ms kids hkm) hk.1, ?_⟩
      intro hne
      simp only [Obj.children, msDiff_self e kids hkm hrk] at hne
      cases hne
    | false =>
      simp only [hmult, Bool.false_eq_true, if_false] at hk ⊢
      have h1 : srcStep R mm.name = kids := by
        rw [srcStep_of_view_ms _ _ _ hv']; simp [Obj.children]
      have h2 : srcStep [] mm.name = [] := rfl
      rw [h1]
      rw [h2] at hk
      exact keysDiff_self_list e kids kids hkm.kids hrk (view_self_ms kids hkm) hk
theorem keysDiff_self_list (e : Envs) : ∀ (l : List Obj) (R : List Obj), MSKids l → RefetchTree l →
    (∀ mo ∈ l, activeNamed mo.name R = [mo]) → KeysDiffMS e l [] → KeysDiffMS e l R
  | [], R, _, _, _, _ => by rw [KeysDiffMS]; trivial
  | mo :: rest, R, ht, hr, hv, hk => by
    rw [MSKids] at ht
    rw [KeysDiffMS] at hk ⊢
    exact ⟨keysDiff_self_obj e mo R ht.1 hr.head (hv mo List.mem_cons_self) hk.1,
      keysDiff_self_list e rest R ht.2 hr.tail (fun o ho => hv o (List.mem_cons_of_mem _ ho)) hk.2⟩
end

mutual
theorem keysDiff_view_obj (e : Envs) : ∀ (mo : Obj) (srcs R : List Obj), MSObj mo → RefetchTree [mo] →
    KeysDiffMSObj e mo srcs → CohMSObj e mo srcs → activeNamed mo.name R = msBlock e mo srcs →
    KeysDiffMSObj e mo R
  | .defn mm mws, srcs, R, ht, hr, hk, hc, hv => by
    rw [MSObj] at ht
    have hr' := hr (.defn mm mws) (.here (List.mem_singleton.mpr rfl) ht.2.2.2) rfl
    rw [KeysDiffMSObj] at hk ⊢
    exact keysDefined_defn_view_md e mm mws srcs R hr'.1 hr'.2.1 hk hv
  | .scope mm kids, srcs, R, ht, hr, hk, hc, hv => by
    have hkm := MSMaster.of_scope ht
    rw [MSObj] at ht
    have hrk := hr.kids ht.2.2.1
    have hv' : activeNamed mm.name R = msBlock e (.scope mm kids) srcs := hv
    have hB : ∀ o ∈ msBlock e (.scope mm kids) srcs, o.isDefn = false :=
      fun o ho => (msBlock_member_ms e _ srcs o ho).2.2
    have ih : ∀ S, KeysDiffMS e kids S → CohMS e kids S → KeysDiffMS e kids (msResult e kids S) :=
      fun S hS hcS => keysDiff_view_list e kids S _ hkm.kids hrk hS hcS (view_ms e kids S hkm)
    have hDW : ∀ S, CohMS e kids S → msDiff e kids (msResult e kids S) = msDiff e kids S :=
      fun S hS => msDiff_working e kids S hkm hrk hS
    rw [KeysDiffMSObj] at hk
    rw [CohMSObj] at hc
    cases hmult : (mm.attrs.get "multiple").truthy with
    | true =>
      simp only [hmult, if_true] at hk hc
      obtain ⟨hc0, hcs, _, _⟩ := hc
      rw [KeysDiffMSObj]
      simp only [hmult, if_true]
      refine ⟨hk.1, hk.2.1, hk.2.2.1, ?_⟩
      intro o ho
      rw [scopesNamed_of_view_ms _ _ _ hv' hB, msBlock_multi_eq e mm kids srcs hmult] at ho
      rcases mem_msMultiBlock ho with rfl | ⟨t, rfl⟩ | ⟨x, hx, rfl⟩
      · refine ⟨ih [] hk.1 hc0, ?_⟩
        intro hne
        have : msDiff e kids (msResult e kids []) = [] := by rw [hDW [] hc0, msDiff_nil_md]
        have hne' : (msDiff e kids (msResult e kids [])).isEmpty = false := hne
        rw [this] at hne'
        cases hne'
      · refine ⟨keysDiff_self_list e kids kids hkm.kids hrk (view_self_ms kids hkm) hk.1, ?_⟩
        intro hne
        have hne' : (msDiff e kids kids).isEmpty = false := hne
        rw [msDiff_self e kids hkm hrk] at hne'
        cases hne'
      · obtain ⟨s, hs, rfl⟩ := List.mem_map.mp hx
        have hks := hk.2.2.2 s hs
        refine ⟨ih _ hks.1 (hcs s hs), ?_⟩
        show (msDiff e kids (msResult e kids s.children)).isEmpty = false →
          ∃ k, extractFormatStr e _ _ (.scope { mm with tmpl := 0 } (msDiff e kids (msResult e kids s.children))) = .ok k
        rw [hDW _ (hcs s hs)]
        exact hks.2
    | false =>
      simp only [hmult, Bool.false_eq_true, if_false] at hk hc
      have hb : msBlock e (.scope mm kids) srcs = [msCand e mm kids (srcStep srcs mm.name)] := by
        rw [msBlock]; simp only [hmult, Bool.false_eq_true, if_false]
      have h1 : srcStep R mm.name = msResult e kids (srcStep srcs mm.name) := by
        rw [srcStep_of_view_ms _ _ _ hv', hb]; simp [Obj.children]
      rw [KeysDiffMSObj]
      simp only [hmult, Bool.false_eq_true, if_false]
      rw [h1]
      exact ih _ hk hc
theorem keysDiff_view_list (e : Envs) : ∀ (l : List Obj) (srcs R : List Obj), MSKids l → RefetchTree l →
    KeysDiffMS e l srcs → CohMS e l srcs → (∀ mo ∈ l, activeNamed mo.name R = msBlock e mo srcs) →
    KeysDiffMS e l R
  | [], srcs, R, _, _, _, _, _ => by rw [KeysDiffMS]; trivial
  | mo :: rest, srcs, R, ht, hr, hk, hc, hv => by
    rw [MSKids] at ht
    rw [KeysDiffMS] at hk ⊢
    rw [CohMS] at hc
    exact ⟨keysDiff_view_obj e mo srcs R ht.1 hr.head hk.1 hc.1 (hv mo List.mem_cons_self),
      keysDiff_view_list e rest srcs R ht.2 hr.tail hk.2 hc.2 (fun o ho => hv o (List.mem_cons_of_mem _ ho))⟩
end

/-- the keys of the difference stay defined when the working set is the source -/
theorem keysDiff_msResult (e : Envs) (mkids srcs : List Obj) (hf : MSMaster mkids) (hr : RefetchTree mkids)
    (hk : KeysDiffMS e mkids srcs) (hc : CohMS e mkids srcs) :
    KeysDiffMS e mkids (msResult e mkids srcs) :=
  keysDiff_view_list e mkids srcs _ hf.kids hr hk hc (view_ms e mkids srcs hf)

/-- **`M.fetch_diff(M.fetch(S))` on `fetchScope`**: it succeeds and has the children of
    `M.fetch_diff(S)` -/
theorem diff_working_ms (e : Envs) (fuel : Nat) (sm : Meta) (mkids srcs : List Obj)
    (hf : MSMaster mkids) (hfuel : depthL mkids + 1 < fuel) (hsd : sm.disabled = false)
    (hr : RefetchTree mkids) (hdol : SrcNoDollar srcs)
    (hkeys : KeysDefinedMS e mkids srcs) (hkd : KeysDiffMS e mkids srcs) (hc : CohMS e mkids srcs) :
    fetchScope e fuel true sm mkids (msResult e mkids srcs) =
      .ok (.scope { sm with tmpl := 0 } (msDiff e mkids srcs), msUsed mkids (msResult e mkids srcs)) := by
  rw [diff_ms_total e fuel sm mkids _ hf hfuel hsd (srcTree_msResult e mkids srcs hf hr hdol)
    (keysDiff_msResult e mkids srcs hf hr hkd hc), (msSide_result e mkids srcs hf hr hkeys).1,
    msDiff_working e mkids srcs hf hr hc]
  rfl


/-! ## 10. the difference as a source: views, idempotence, the restored working set -/

theorem mdBlock_member_md (e : Envs) : ∀ (mo : Obj) (srcs : List Obj), ∀ o ∈ mdBlock e mo srcs,
    o.name = mo.name ∧ o.meta.disabled = mo.meta.disabled ∧ o.isDefn = mo.isDefn
  | .defn mm mws, srcs, o, ho => by
    rw [mdBlock] at ho
    exact (goodFam_diffBlockL_dt e 0).basic mm mws _ o ho
  | .scope mm kids, srcs, o, ho => by
    obtain ⟨S, rfl, _, _⟩ := mem_mdBlock_scope e mm kids srcs o ho
    exact ⟨rfl, rfl, rfl⟩

/-- in the difference of an `MSMaster`, the enabled objects called like a master child are the block
    of that child -/
theorem view_md (e : Envs) (mkids srcs : List Obj) (hf : MSMaster mkids) :
    ∀ mo ∈ mkids, activeNamed mo.name (msDiff e mkids srcs) = mdBlock e mo srcs := by
  rw [msDiff_eq_flatMap]
  exact activeNamed_flatMap_distinct (fun mo => mdBlock e mo srcs) mkids hf.distinct
    (fun mo hmo o ho => by
      have h := mdBlock_member_md e mo srcs o ho
      exact ⟨h.1, by rw [h.2.1]; exact (hf.obj mo hmo).enabled⟩)

theorem diffBlockL_idem_md (e : Envs) (fuel : Nat) (mm : Meta) (mws : List Word)
    (ht : mm.tmpl = 0) (hv : mm.varRes = none) (l : List Obj) :
    diffBlockL e fuel (.defn mm mws) (diffBlockL e fuel (.defn mm mws) l) = diffBlockL e fuel (.defn mm mws) l := by
  rw [← diffBlockL_blockL e fuel mm mws ht hv (diffBlockL e fuel (.defn mm mws) l),
    blockL_diffBlockL e fuel mm mws ht hv l, diffBlockL_restoredBlockL e fuel mm mws ht hv l]

theorem dedupBy_idem_md {α : Type} (k : α → Str) (l : List α) :
    dedupBy_md k (dedupBy_md k l) = dedupBy_md k l := by
  have h := dedupKeepLast_idem (l.map (fun a => (a, k a)))
  rw [dedupKeepLast_map_md (fun a => a) k l, dedupKeepLast_map_md (fun a => a) k (dedupBy_md k l)] at h
  have h' := congrArg (List.map (fun (p : α × Str) => p.1)) h
  rw [List.map_map, List.map_map] at h'
  have hid : ((fun (p : α × Str) => p.1) ∘ fun a => (a, k a)) = id := rfl
  rw [hid, List.map_id, List.map_id] at h'
  exact h'

/-- the visible source scopes of a `.multiple` master scope that survive the difference's list rule -/
def diffSurv (e : Envs) (mm : Meta) (kids : List Obj) (L : List Obj) : List Obj :=
  dedupBy_md (dkMS e mm kids) (L.filter (visMS e mm kids))

theorem mdBlock_multi_surv (e : Envs) (mm : Meta) (kids srcs : List Obj)
    (hmult : (mm.attrs.get "multiple").truthy = true) :
    mdBlock e (.scope mm kids) srcs =
      (diffSurv e mm kids (scopesNamed mm.name srcs)).map (fun s => mdCand e mm kids s.children) := by
  rw [mdBlock_multi_eq e mm kids srcs hmult]
  have hmd : mdCK e mm kids = fun s => (mdCand e mm kids s.children, dkMS e mm kids s) := rfl
  rw [hmd, survivorsOf_map_md, List.filter_filter]
  rfl

theorem mem_diffSurv {e : Envs} {mm : Meta} {kids L : List Obj} {s : Obj}
    (h : s ∈ diffSurv e mm kids L) : s ∈ L ∧ visMS e mm kids s = true :=
  List.mem_filter.mp ((dedupBy_sublist_md _ _).subset h)

mutual
theorem mdBlock_view_idem_md (e : Envs) : ∀ (mo : Obj) (srcs R : List Obj), MSObj mo → RefetchTree [mo] →
    activeNamed mo.name R = mdBlock e mo srcs → mdBlock e mo R = mdBlock e mo srcs
  | .defn mm mws, srcs, R, ht, hr, hv => by
    rw [MSObj] at ht
    have hr' := hr (.defn mm mws) (.here (List.mem_singleton.mpr rfl) ht.2.2.2) rfl
    have hv' : activeNamed mm.name R = mdBlock e (.defn mm mws) srcs := hv
    rw [mdBlock] at hv'
    have hd : defsNamed mm.name R = diffBlockL e 0 (.defn mm mws) (defsNamed mm.name srcs) := by
      rw [defsNamed_eq_filter_tree, hv', List.filter_eq_self]
      intro o ho
      exact ((goodFam_diffBlockL_dt e 0).basic mm mws _ o ho).2.2
    rw [mdBlock, mdBlock, hd, diffBlockL_idem_md e 0 mm mws hr'.1 hr'.2.1]
  | .scope mm kids, srcs, R, ht, hr, hv => by
    have hk := MSMaster.of_scope ht
    rw [MSObj] at ht
    have hrk := hr.kids ht.2.2.1
    have hv' : activeNamed mm.name R = mdBlock e (.scope mm kids) srcs := hv
    have hB : ∀ o ∈ mdBlock e (.scope mm kids) srcs, o.isDefn = false :=
      fun o ho => (mdBlock_member_md e _ srcs o ho).2.2
    have hidem : ∀ S, msDiff e kids (msDiff e kids S) = msDiff e kids S :=
      fun S => msDiff_view_idem_md e kids S _ hk.kids hrk (view_md e kids S hk)
    cases hmult : (mm.attrs.get "multiple").truthy with
    | true =>
      have hsc := scopesNamed_of_view_ms _ _ _ hv' hB
      rw [mdBlock_multi_surv e mm kids srcs hmult] at hsc ⊢
      rw [mdBlock_multi_eq e mm kids R hmult, hsc]
      generalize hDS : diffSurv e mm kids (scopesNamed mm.name srcs) = DS
      have hvis : ∀ s ∈ DS, visMS e mm kids s = true := fun s hs => (mem_diffSurv (hDS ▸ hs)).2
      have hcand : ((DS.map (fun s => mdCand e mm kids s.children)).filter
          (fun s => !(msDiff e kids s.children).isEmpty)).map (mdCK e mm kids) =
          DS.map (mdCK e mm kids) := by
        rw [List.filter_map, List.map_map]
        have hf : DS.filter ((fun s => !(msDiff e kids s.children).isEmpty) ∘ fun s => mdCand e mm kids s.children) = DS := by
          rw [List.filter_eq_self]
          intro s hs
          show (!(msDiff e kids (msDiff e kids s.children)).isEmpty) = true
          rw [hidem]
          have := hvis s hs
          unfold visMS at this
          simp only [Bool.and_eq_true] at this
          exact this.2
        rw [hf]
        apply List.map_congr_left
        intro s hs
        show (mdCand e mm kids (msDiff e kids s.children), keyMS e _ (mdCand e mm kids (msDiff e kids s.children))) = _
        have : mdCand e mm kids (msDiff e kids s.children) = mdCand e mm kids s.children := by
          unfold mdCand; rw [hidem]
        rw [this]
      rw [hcand]
      have hmd : mdCK e mm kids = fun s => (mdCand e mm kids s.children, dkMS e mm kids s) := rfl
      rw [hmd, survivorsOf_map_md]
      congr 1
      have hfil : DS.filter (fun a => dkMS e mm kids a != keyMS e (.scope mm kids) (msCand e mm kids [])) = DS := by
        rw [List.filter_eq_self]
        intro s hs
        have := hvis s hs
        unfold visMS at this
        simp only [Bool.and_eq_true] at this
        exact this.1
      rw [hfil, ← hDS]
      exact dedupBy_idem_md _ _
    | false =>
      rw [mdBlock_plain_eq e mm kids srcs hmult] at hv' ⊢
      rw [mdBlock_plain_eq e mm kids R hmult, srcStep_of_view_ms _ _ _ hv']
      cases hemp : (msDiff e kids (srcStep srcs mm.name)).isEmpty with
      | true =>
        simp only [if_true, List.flatMap_nil, msDiff_nil_md]
        rfl
      | false =>
        simp only [Bool.false_eq_true, if_false, List.flatMap_cons, List.flatMap_nil, List.append_nil,
          Obj.children]
        rw [hidem, hemp]
        simp
theorem msDiff_view_idem_md (e : Envs) : ∀ (l : List Obj) (srcs R : List Obj), MSKids l →
    RefetchTree l → (∀ mo ∈ l, activeNamed mo.name R = mdBlock e mo srcs) →
    msDiff e l R = msDiff e l srcs
  | [], srcs, R, _, _, _ => by rw [msDiff, msDiff]
  | mo :: rest, srcs, R, ht, hr, hv => by
    rw [MSKids] at ht
    rw [msDiff, msDiff,
      mdBlock_view_idem_md e mo srcs R ht.1 hr.head (hv mo List.mem_cons_self),
      msDiff_view_idem_md e rest srcs R ht.2 hr.tail (fun o ho => hv o (List.mem_cons_of_mem _ ho))]
end

/-- **the difference of a difference is that difference** (no hypothesis on the renderings) -/
theorem msDiff_idem (e : Envs) (mkids srcs : List Obj) (hf : MSMaster mkids) (hr : RefetchTree mkids) :
    msDiff e mkids (msDiff e mkids srcs) = msDiff e mkids srcs :=
  msDiff_view_idem_md e mkids srcs _ hf.kids hr (view_md e mkids srcs hf)

/-- **the restored working set**: `master.fetch(master.fetch_diff(sources))` on the specification -/
def msRestored (e : Envs) (mkids srcs : List Obj) : List Obj := msResult e mkids (msDiff e mkids srcs)

/-- **the difference of the restored working set is the difference again**, on the specification;
    `CohMS` is needed on the difference taken as the source -/
theorem msDiff_restored (e : Envs) (mkids srcs : List Obj) (hf : MSMaster mkids) (hr : RefetchTree mkids)
    (hc : CohMS e mkids (msDiff e mkids srcs)) :
    msDiff e mkids (msRestored e mkids srcs) = msDiff e mkids srcs := by
  unfold msRestored
  rw [msDiff_working e mkids _ hf hr hc, msDiff_idem e mkids srcs hf hr]

/-- restoring twice changes nothing: the restored working set is a fixed point of "difference, then
    merge" -/
theorem msRestored_twice (e : Envs) (mkids srcs : List Obj) (hf : MSMaster mkids) (hr : RefetchTree mkids)
    (hc : CohMS e mkids (msDiff e mkids srcs)) :
    msResult e mkids (msDiff e mkids (msRestored e mkids srcs)) = msRestored e mkids srcs := by
  rw [msDiff_restored e mkids srcs hf hr hc]
  rfl


/-! ## 11. closed form of the restored working set -/

mutual
/-- the block one master object contributes to `master.fetch(D)`, `D = master.fetch_diff(sources)`:
    a definition — `restoredBlockL` (Props/C08Tree.lean); a non-multiple scope — itself, restored;
    a `.multiple` scope — the template as in a fetch, then the list rule over the restored instances
    of the source blocks that survive in the difference (`diffSurv`), compared by the renderings of
    the restored instances -/
def mrBlock (e : Envs) : Obj → List Obj → List Obj
  | .defn mm mws, srcs => restoredBlockL e 0 (.defn mm mws) (defsNamed mm.name srcs)
  | .scope mm kids, srcs =>
    if (mm.attrs.get "multiple").truthy then
      msMultiBlock (.scope mm kids) (.scope { mm with tmpl := 0 } (msResult e kids []))
        (keyMS e (.scope mm kids) (.scope { mm with tmpl := 0 } (msResult e kids [])))
        ((diffSurv e mm kids (scopesNamed mm.name srcs)).map (fun s =>
          (Obj.scope { mm with tmpl := 0 } (msRestoredS e kids s.children),
           keyMS e (.scope mm kids) (Obj.scope { mm with tmpl := 0 } (msRestoredS e kids s.children)))))
    else [.scope { mm with tmpl := 0 } (msRestoredS e kids (srcStep srcs mm.name))]
/-- **the restored working set in closed form** (structural recursion on the master) -/
def msRestoredS (e : Envs) : List Obj → List Obj → List Obj
  | [], _ => []
  | mo :: rest, srcs => mrBlock e mo srcs ++ msRestoredS e rest srcs
end

mutual
theorem msBlock_view_diff_md (e : Envs) : ∀ (mo : Obj) (srcs D : List Obj), MSObj mo → RefetchTree [mo] →
    activeNamed mo.name D = mdBlock e mo srcs → msBlock e mo D = mrBlock e mo srcs
  | .defn mm mws, srcs, D, ht, hr, hv => by
    rw [MSObj] at ht
    have hr' := hr (.defn mm mws) (.here (List.mem_singleton.mpr rfl) ht.2.2.2) rfl
    have hv' : activeNamed mm.name D = mdBlock e (.defn mm mws) srcs := hv
    rw [mdBlock] at hv'
    have hd : defsNamed mm.name D = diffBlockL e 0 (.defn mm mws) (defsNamed mm.name srcs) := by
      rw [defsNamed_eq_filter_tree, hv', List.filter_eq_self]
      intro o ho
      exact ((goodFam_diffBlockL_dt e 0).basic mm mws _ o ho).2.2
    rw [msBlock, tmBlock_eq_gBlock_dt, gBlock_dt, hd, blockL_diffBlockL e 0 mm mws hr'.1 hr'.2.1, mrBlock]
  | .scope mm kids, srcs, D, ht, hr, hv => by
    have hk := MSMaster.of_scope ht
    rw [MSObj] at ht
    have hrk := hr.kids ht.2.2.1
    have hv' : activeNamed mm.name D = mdBlock e (.scope mm kids) srcs := hv
    have hB : ∀ o ∈ mdBlock e (.scope mm kids) srcs, o.isDefn = false :=
      fun o ho => (mdBlock_member_md e _ srcs o ho).2.2
    have ih : ∀ S, msResult e kids (msDiff e kids S) = msRestoredS e kids S :=
      fun S => msResult_view_diff_md e kids S _ hk.kids hrk (view_md e kids S hk)
    cases hmult : (mm.attrs.get "multiple").truthy with
    | true =>
      have hsc := scopesNamed_of_view_ms _ _ _ hv' hB
      rw [mdBlock_multi_surv e mm kids srcs hmult] at hsc
      rw [msBlock_multi_eq e mm kids D hmult, hsc, mrBlock]
      simp only [hmult, if_true]
      congr 1
      rw [List.map_map]
      apply List.map_congr_left
      intro s hs
      show (msCand e mm kids (msDiff e kids s.children), keyMS e _ (msCand e mm kids (msDiff e kids s.children))) = _
      have : msCand e mm kids (msDiff e kids s.children) =
          Obj.scope { mm with tmpl := 0 } (msRestoredS e kids s.children) := by
        unfold msCand; rw [ih]
      rw [this]
    | false =>
      rw [mdBlock_plain_eq e mm kids srcs hmult] at hv'
      rw [msBlock, mrBlock]
      simp only [hmult, Bool.false_eq_true, if_false]
      rw [srcStep_of_view_ms _ _ _ hv']
      cases hemp : (msDiff e kids (srcStep srcs mm.name)).isEmpty with
      | true =>
        simp only [if_true, List.flatMap_nil]
        have h0 : msDiff e kids (srcStep srcs mm.name) = [] := List.isEmpty_iff.mp hemp
        rw [← ih, h0]
      | false =>
        simp only [Bool.false_eq_true, if_false, List.flatMap_cons, List.flatMap_nil, List.append_nil,
          Obj.children]
        rw [ih]
theorem msResult_view_diff_md (e : Envs) : ∀ (l : List Obj) (srcs D : List Obj), MSKids l →
    RefetchTree l → (∀ mo ∈ l, activeNamed mo.name D = mdBlock e mo srcs) →
    msResult e l D = msRestoredS e l srcs
  | [], srcs, D, _, _, _ => by rw [msResult, msRestoredS]
  | mo :: rest, srcs, D, ht, hr, hv => by
    rw [MSKids] at ht
    rw [msResult, msRestoredS,
      msBlock_view_diff_md e mo srcs D ht.1 hr.head (hv mo List.mem_cons_self),
      msResult_view_diff_md e rest srcs D ht.2 hr.tail (fun o ho => hv o (List.mem_cons_of_mem _ ho))]
end

/-- **closed form of the restored working set**: merging the difference back gives `msRestoredS` -/
theorem msRestored_closed (e : Envs) (mkids srcs : List Obj) (hf : MSMaster mkids) (hr : RefetchTree mkids) :
    msRestored e mkids srcs = msRestoredS e mkids srcs :=
  msResult_view_diff_md e mkids srcs _ hf.kids hr (view_md e mkids srcs hf)


/-! ## 12. executable form of the coherence hypothesis -/

mutual
def cohMSObjB (e : Envs) : Obj → List Obj → Bool
  | .defn _ _, _ => true
  | .scope mm kids, srcs =>
    if (mm.attrs.get "multiple").truthy then
      cohMSB e kids [] && (scopesNamed mm.name srcs).all (fun s => cohMSB e kids s.children) &&
      (scopesNamed mm.name srcs).all (fun a => !visMS e mm kids a ||
        fkMS e mm kids a != keyMS e (.scope mm kids) (msCand e mm kids [])) &&
      (scopesNamed mm.name srcs).all (fun a => (scopesNamed mm.name srcs).all (fun b =>
        !visMS e mm kids a || !(fkMS e mm kids a == fkMS e mm kids b) ||
          (visMS e mm kids b && dkMS e mm kids b == dkMS e mm kids a)))
    else cohMSB e kids (srcStep srcs mm.name)
/-- executable form of `CohMS` -/
def cohMSB (e : Envs) : List Obj → List Obj → Bool
  | [], _ => true
  | mo :: rest, srcs => cohMSObjB e mo srcs && cohMSB e rest srcs
end

mutual
theorem cohMSObjB_sound (e : Envs) : ∀ (mo : Obj) (srcs : List Obj), cohMSObjB e mo srcs = true → CohMSObj e mo srcs
  | .defn mm mws, srcs, h => by rw [CohMSObj]; trivial
  | .scope mm kids, srcs, h => by
    rw [cohMSObjB] at h
    rw [CohMSObj]
    split
    · rename_i hm
      simp only [hm, if_true, Bool.and_eq_true, List.all_eq_true] at h
      obtain ⟨⟨⟨h0, hs⟩, h1⟩, h2⟩ := h
      refine ⟨cohMSB_sound e kids [] h0, fun s hs' => cohMSB_sound e kids s.children (hs s hs'), ?_, ?_⟩
      · intro a ha hv
        have := h1 a ha
        rw [hv] at this
        simpa using this
      · intro a ha b hb hv hfk
        have := h2 a ha b hb
        rw [hv, hfk] at this
        simpa using this
    · rename_i hm
      simp only [hm, Bool.false_eq_true, if_false] at h
      exact cohMSB_sound e kids _ h
theorem cohMSB_sound (e : Envs) : ∀ (l : List Obj) (srcs : List Obj), cohMSB e l srcs = true → CohMS e l srcs
  | [], _, _ => by rw [CohMS]; trivial
  | mo :: rest, srcs, h => by
    rw [cohMSB, Bool.and_eq_true] at h
    rw [CohMS]
    exact ⟨cohMSObjB_sound e mo srcs h.1, cohMSB_sound e rest srcs h.2⟩
end


/-! ## 13. the restored working set keeps the instances of the working set -/

theorem dedupBy_congr_md {α : Type} (k k' : α → Str) : ∀ (l : List α),
    (∀ a ∈ l, ∀ b ∈ l, k a = k b ↔ k' a = k' b) → dedupBy_md k l = dedupBy_md k' l
  | [], _ => rfl
  | x :: xs, h => by
    have ih := dedupBy_congr_md k k' xs
      (fun a ha b hb => h a (List.mem_cons_of_mem _ ha) b (List.mem_cons_of_mem _ hb))
    have hany : xs.any (fun y => k y == k x) = xs.any (fun y => k' y == k' x) := by
      apply Bool.eq_iff_iff.mpr
      rw [List.any_eq_true, List.any_eq_true]
      constructor
      · rintro ⟨b, hb, hbk⟩
        exact ⟨b, hb, by
          have := (h b (List.mem_cons_of_mem _ hb) x List.mem_cons_self).mp (by simpa using hbk)
          simpa using this⟩
      · rintro ⟨b, hb, hbk⟩
        exact ⟨b, hb, by
          have := (h b (List.mem_cons_of_mem _ hb) x List.mem_cons_self).mpr (by simpa using hbk)
          simpa using this⟩
    rw [dedupBy_md, dedupBy_md, hany, ih]

/-- the block of a `.multiple` scope over candidates `(g a, k a)`, in terms of `dedupBy_md` -/
theorem msMultiBlock_map_md {α : Type} (mo self : Obj) (k0 : Str) (g : α → Obj) (k : α → Str) (l : List α) :
    msMultiBlock mo self k0 (l.map (fun a => (g a, k a))) =
      (if (mo.attr "optional").mandatory then withTmpl self 0
       else withTmpl mo (if (dedupBy_md k (l.filter (fun a => k a != k0))).isEmpty then 1 else -1)) ::
      (dedupBy_md k (l.filter (fun a => k a != k0))).map g := by
  have hs := survivorsOf_map_md g k k0 l
  unfold survivorsOf at hs
  unfold msMultiBlock
  rw [hs]
  congr 1
  have hemp : (dedupKeepLast ((l.map (fun a => (g a, k a))).filter (fun y => y.2 != k0))).isEmpty =
      (dedupBy_md k (l.filter (fun a => k a != k0))).isEmpty := by
    have := congrArg List.isEmpty hs
    rw [List.isEmpty_map, List.isEmpty_map] at this
    exact this
  rw [hemp]

/-- the source scopes of a `.multiple` master scope that survive in the WORKING SET -/
def workSurv (e : Envs) (mm : Meta) (kids : List Obj) (L : List Obj) : List Obj :=
  dedupBy_md (fkMS e mm kids) (L.filter (fun a => fkMS e mm kids a != keyMS e (.scope mm kids) (msCand e mm kids [])))

/-- the template object that heads the block of a `.multiple` scope with surviving sources `A` -/
def tmplOfMS (e : Envs) (mm : Meta) (kids : List Obj) (A : List Obj) : Obj :=
  if ((Obj.scope mm kids).attr "optional").mandatory then withTmpl (msCand e mm kids []) 0
  else withTmpl (.scope mm kids) (if A.isEmpty then 1 else -1)

/-- the block of a `.multiple` scope in the working set: the template, then one instance per
    surviving source scope -/
theorem msBlock_multi_surv (e : Envs) (mm : Meta) (kids srcs : List Obj)
    (hmult : (mm.attrs.get "multiple").truthy = true) :
    msBlock e (.scope mm kids) srcs =
      tmplOfMS e mm kids (workSurv e mm kids (scopesNamed mm.name srcs)) ::
        (workSurv e mm kids (scopesNamed mm.name srcs)).map (fun s => msCand e mm kids s.children) := by
  rw [msBlock_multi_eq e mm kids srcs hmult]
  exact msMultiBlock_map_md _ _ _ (fun s => msCand e mm kids s.children) (fkMS e mm kids) _

/-- the key of the restored instance of the source scope `s` -/
abbrev rkMS (e : Envs) (mm : Meta) (kids : List Obj) (s : Obj) : Str :=
  keyMS e (.scope mm kids) (.scope { mm with tmpl := 0 } (msRestoredS e kids s.children))

/-- **the three renderings identify the same source blocks** of one `.multiple` master scope: a block
    is dropped from the working set iff it is invisible in the difference; two visible blocks have
    equal working-set renderings iff they have equal difference renderings; the restored instance of
    a visible block renders like its working-set instance -/
structure StrongCohAt (e : Envs) (mm : Meta) (kids L : List Obj) : Prop where
  dropped : ∀ a ∈ L, fkMS e mm kids a = keyMS e (.scope mm kids) (msCand e mm kids []) ↔ visMS e mm kids a = false
  same : ∀ a ∈ L, ∀ b ∈ L, visMS e mm kids a = true → visMS e mm kids b = true →
    (fkMS e mm kids a = fkMS e mm kids b ↔ dkMS e mm kids a = dkMS e mm kids b)
  restored : ∀ a ∈ L, visMS e mm kids a = true → rkMS e mm kids a = fkMS e mm kids a

theorem diffSurv_eq_workSurv (e : Envs) (mm : Meta) (kids L : List Obj) (h : StrongCohAt e mm kids L) :
    diffSurv e mm kids L = workSurv e mm kids L := by
  unfold diffSurv workSurv
  have hf : L.filter (fun a => fkMS e mm kids a != keyMS e (.scope mm kids) (msCand e mm kids [])) =
      L.filter (visMS e mm kids) := by
    apply List.filter_congr
    intro a ha
    have := h.dropped a ha
    cases hv : visMS e mm kids a with
    | true =>
      have : fkMS e mm kids a ≠ keyMS e (.scope mm kids) (msCand e mm kids []) := by
        intro heq; rw [this.mp heq] at hv; cases hv
      simpa using this
    | false => simpa using this.mpr hv
  rw [hf]
  apply dedupBy_congr_md
  intro a ha b hb
  have ha' := List.mem_filter.mp ha
  have hb' := List.mem_filter.mp hb
  exact (h.same a ha'.1 b hb'.1 ha'.2 hb'.2).symm

/-- **the restored working set has the instances of the working set**: under `StrongCohAt` the block of
    a `.multiple` scope in `W'` is the same template followed by the restored instances of exactly
    the source scopes whose instances make up its block in `W`, in the same order -/
theorem mrBlock_multi_surv (e : Envs) (mm : Meta) (kids srcs : List Obj)
    (hmult : (mm.attrs.get "multiple").truthy = true)
    (h : StrongCohAt e mm kids (scopesNamed mm.name srcs)) :
    mrBlock e (.scope mm kids) srcs =
      tmplOfMS e mm kids (workSurv e mm kids (scopesNamed mm.name srcs)) ::
        (workSurv e mm kids (scopesNamed mm.name srcs)).map
          (fun s => Obj.scope { mm with tmpl := 0 } (msRestoredS e kids s.children)) := by
  rw [mrBlock]
  simp only [hmult, if_true]
  rw [diffSurv_eq_workSurv e mm kids _ h]
  generalize hL : scopesNamed mm.name srcs = L at h ⊢
  generalize hk0 : keyMS e (.scope mm kids) (msCand e mm kids []) = k0
  have hA : ∀ a ∈ workSurv e mm kids L, a ∈ L ∧ fkMS e mm kids a ≠ k0 := by
    intro a ha
    unfold workSurv at ha
    rw [hk0] at ha
    have := List.mem_filter.mp ((dedupBy_sublist_md _ _).subset ha)
    exact ⟨this.1, by simpa using this.2⟩
  have hvis : ∀ a ∈ workSurv e mm kids L, visMS e mm kids a = true := by
    intro a ha
    have := (h.dropped a (hA a ha).1)
    rw [hk0] at this
    cases hv : visMS e mm kids a with
    | true => rfl
    | false => exact absurd (this.mpr hv) (hA a ha).2
  have hmap := msMultiBlock_map_md (.scope mm kids) (msCand e mm kids []) k0
    (fun s => Obj.scope { mm with tmpl := 0 } (msRestoredS e kids s.children)) (rkMS e mm kids)
    (workSurv e mm kids L)
  show msMultiBlock (.scope mm kids) (msCand e mm kids []) k0
    ((workSurv e mm kids L).map (fun s => (Obj.scope { mm with tmpl := 0 } (msRestoredS e kids s.children),
      rkMS e mm kids s))) = _
  rw [hmap]
  have hfil : (workSurv e mm kids L).filter (fun a => rkMS e mm kids a != k0) = workSurv e mm kids L := by
    rw [List.filter_eq_self]
    intro a ha
    rw [h.restored a (hA a ha).1 (hvis a ha)]
    simpa using (hA a ha).2
  have hdd : dedupBy_md (rkMS e mm kids) (workSurv e mm kids L) = workSurv e mm kids L := by
    rw [dedupBy_congr_md (rkMS e mm kids) (fkMS e mm kids) (workSurv e mm kids L)
      (fun a ha b hb => by rw [h.restored a (hA a ha).1 (hvis a ha), h.restored b (hA b hb).1 (hvis b hb)])]
    unfold workSurv
    exact dedupBy_idem_md _ _
  rw [hfil, hdd]
  rfl


/-! ## 14. exact restoration -/

mutual
def ExactMSObj (e : Envs) : Obj → List Obj → Prop
  | .defn mm mws, srcs => NoRedundantObj_dt e (.defn mm mws) srcs
  | .scope mm kids, srcs =>
    if (mm.attrs.get "multiple").truthy then
      StrongCohAt e mm kids (scopesNamed mm.name srcs) ∧
        ∀ s ∈ workSurv e mm kids (scopesNamed mm.name srcs), ExactMS e kids s.children
    else ExactMS e kids (srcStep srcs mm.name)
/-- the hypotheses of exact restoration, at every depth and inside every surviving instance: no
    non-multiple working value merely re-spells its default (`NoRedundantObj_dt`), and at every
    `.multiple` scope the three renderings identify the same source blocks (`StrongCohAt`) -/
def ExactMS (e : Envs) : List Obj → List Obj → Prop
  | [], _ => True
  | mo :: rest, srcs => ExactMSObj e mo srcs ∧ ExactMS e rest srcs
end

mutual
theorem mrBlock_eq_msBlock (e : Envs) : ∀ (mo : Obj) (srcs : List Obj), ExactMSObj e mo srcs →
    mrBlock e mo srcs = msBlock e mo srcs
  | .defn mm mws, srcs, h => by
    rw [ExactMSObj] at h
    have := trBlock_eq_tmBlock_dt e (.defn mm mws) srcs h
    rw [trBlock] at this
    rw [mrBlock, msBlock, this]
  | .scope mm kids, srcs, h => by
    rw [ExactMSObj] at h
    cases hmult : (mm.attrs.get "multiple").truthy with
    | true =>
      simp only [hmult, if_true] at h
      rw [mrBlock_multi_surv e mm kids srcs hmult h.1, msBlock_multi_surv e mm kids srcs hmult]
      congr 1
      apply List.map_congr_left
      intro s hs
      show Obj.scope _ (msRestoredS e kids s.children) = Obj.scope _ (msResult e kids s.children)
      rw [msRestoredS_eq_msResult e kids s.children (h.2 s hs)]
    | false =>
      simp only [hmult, Bool.false_eq_true, if_false] at h
      rw [mrBlock, msBlock]
      simp only [hmult, Bool.false_eq_true, if_false]
      rw [msRestoredS_eq_msResult e kids _ h]
/-- **exact restoration**: under `ExactMS` the restored working set IS the working set -/
theorem msRestoredS_eq_msResult (e : Envs) : ∀ (l : List Obj) (srcs : List Obj), ExactMS e l srcs →
    msRestoredS e l srcs = msResult e l srcs
  | [], srcs, _ => by rw [msRestoredS, msResult]
  | mo :: rest, srcs, h => by
    rw [ExactMS] at h
    rw [msRestoredS, msResult, mrBlock_eq_msBlock e mo srcs h.1, msRestoredS_eq_msResult e rest srcs h.2]
end

/-! ### executable forms -/

def strongCohAtB (e : Envs) (mm : Meta) (kids L : List Obj) : Bool :=
  L.all (fun a => (fkMS e mm kids a == keyMS e (.scope mm kids) (msCand e mm kids [])) == !visMS e mm kids a) &&
  L.all (fun a => L.all (fun b => !visMS e mm kids a || !visMS e mm kids b ||
    ((fkMS e mm kids a == fkMS e mm kids b) == (dkMS e mm kids a == dkMS e mm kids b)))) &&
  L.all (fun a => !visMS e mm kids a || rkMS e mm kids a == fkMS e mm kids a)

theorem strongCohAtB_sound (e : Envs) (mm : Meta) (kids L : List Obj) (h : strongCohAtB e mm kids L = true) :
    StrongCohAt e mm kids L := by
  unfold strongCohAtB at h
  simp only [Bool.and_eq_true, List.all_eq_true] at h
  obtain ⟨⟨h1, h2⟩, h3⟩ := h
  refine ⟨?_, ?_, ?_⟩
  · intro a ha
    have := h1 a ha
    cases hv : visMS e mm kids a <;> simp [hv] at this ⊢ <;> exact this
  · intro a ha b hb hva hvb
    have := h2 a ha b hb
    simp only [hva, hvb, Bool.not_true, Bool.false_or] at this
    constructor
    · intro heq
      rw [heq] at this
      simpa using this
    · intro heq
      rw [heq] at this
      simpa using this
  · intro a ha hva
    have := h3 a ha
    simpa [hva] using this


end Phil
