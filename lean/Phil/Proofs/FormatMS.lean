/-
  Phil.Proofs.FormatMS — whole-tree `scope.format` / `scope.extract` for masters WITH `.multiple`
  definitions and `.multiple` scopes (`FObjM`: every object enabled, sibling names pairwise distinct at
  every depth — so every `.multiple` object is declared once; anything else free).
    1. `formatSpecM`: `scope.format` by structural recursion — a `.multiple` child whose attribute is
       a list `l` contributes: `[]` → the master object as a template (`is_template = 1`); otherwise
       (for a scope) the placeholder template (`is_template = -1`) followed by one formatted block per
       element, (for a definition) just the formatted elements;
    2. `formatObj_eq_specM`: the fuelled model equals it on `FDomM` (scope values are
       `scope_extract`s whose `.multiple` attributes are lists);
    3. `format_extract_objM`: extract ∘ format = id on `RTObjM` value trees (`.multiple` attributes are
       `scope_extract_list`s carrying the master's `.optional`, whose elements are in-domain and not
       `None` when `.optional = True`) — the `__phil_set__` accumulation is followed step by step.
-/
import Phil.Proofs.ExtractTree
set_option linter.unusedVariables false
namespace Phil

/-! ## 1. specification of format -/

/-- `len()` / iteration of the attribute of a `.multiple` child -/
def elemsOfM (sub : PVal) : R (List PVal) :=
  match sub with
  | .multi _ l => .ok l
  | .list l => .ok l
  | .words ws => .ok (ws.map (fun _ => PVal.none))
  | .str _ => .error (.unsupported "len() of a str")
  | _ => .error (.stray "TypeError" "format_len")

/-- the objects a `.multiple` master child `o` contributes to `scope.format(record fs)`; `F` formats
    one instance of the child -/
def multiKidFormat (F : PVal → R Obj) (o : Obj) (fs : List (Str × PVal)) : R (List Obj) :=
  match fieldGet fs o.name with
  | none => .ok []
  | some sub =>
    match elemsOfM sub with
    | .error err => .error err
    | .ok [] => .ok [withTmpl o 1]
    | .ok (x :: xs) =>
      (mapR F (x :: xs)).map (fun rs => (if o.isScope then [withTmpl o (-1)] else []) ++ rs)

mutual
/-- `scope.format` / `definition.format` by structural recursion, `.multiple` children included;
    meaningful for scope values that are `scope_extract`s (`FDomM`) -/
def formatSpecM (e : Envs) : Obj → PVal → R Obj
  | .defn m ws, v => formatDefn e m ws v
  | .scope m kids, v =>
    match v with
    | .record fs => (formatSpecKidsM e kids fs).map (fun out => Obj.scope { m with tmpl := 0 } out)
    | _ => .error (.unsupported "formatSpecM: not a scope_extract")
/-- the objects of the formatted scope: the contributions of the master's children, in order -/
def formatSpecKidsM (e : Envs) : List Obj → List (Str × PVal) → R (List Obj)
  | [], _ => .ok []
  | o :: os, fs =>
    match (if isMultiple o then multiKidFormat (formatSpecM e o) o fs
           else kidFormat_xt (formatSpecM e o) o.name (.record fs)) with
    | .error err => .error err
    | .ok rs => (formatSpecKidsM e os fs).map (fun rest => rs ++ rest)
end

/-! ## 2. the classes -/

mutual
/-- a master whose objects are all enabled and whose sibling names are pairwise distinct at every
    depth; `.multiple` or not, any types, any other attribute -/
def FObjM : Obj → Prop
  | .defn m _ => m.disabled = false
  | .scope m kids => m.disabled = false ∧ FKidsM kids ∧ (kids.map Obj.name).Pairwise (· ≠ ·)
def FKidsM : List Obj → Prop
  | [] => True
  | o :: os => FObjM o ∧ FKidsM os
end

theorem fkidsM_iff : ∀ (l : List Obj), FKidsM l ↔ ∀ o ∈ l, FObjM o
  | [] => by rw [FKidsM]; simp
  | o :: os => by rw [FKidsM, fkidsM_iff os]; simp

theorem FObjM.enabled : ∀ {o : Obj}, FObjM o → o.meta.disabled = false
  | .defn m ws, h => by rw [FObjM] at h; exact h
  | .scope m kids, h => by rw [FObjM] at h; exact h.1

mutual
/-- the values `formatSpecM` is claimed for: anything for a definition; for a scope a `scope_extract`
    whose attribute for a `.multiple` child, if it is a list, holds values in the child's domain, and
    whose attribute for any other child is in that child's domain (missing and extra attributes are
    allowed) -/
def FDomM : Obj → PVal → Prop
  | .defn _ _, _ => True
  | .scope _ kids, v => ∃ fs, v = .record fs ∧ FDomKidsM kids fs
def FDomKidsM : List Obj → List (Str × PVal) → Prop
  | [], _ => True
  | o :: os, fs =>
    (∀ sub, fieldGet fs o.name = some sub →
      (isMultiple o = true → ∀ l, elemsOfM sub = .ok l → ∀ x ∈ l, FDomM o x) ∧
      (isMultiple o = false → FDomM o sub)) ∧ FDomKidsM os fs
end

/-! ## 3. one step of the master loop for a `.multiple` child -/

theorem foldlM_accStep_M (G : PVal → R Obj) : ∀ (l : List PVal) (out : List Obj),
    l.foldlM (fun (acc : List Obj) (x : PVal) => (G x).map (fun r => acc ++ [r])) out =
      (mapR G l).map (fun rs => out ++ rs) := by
  intro l
  induction l with
  | nil => intro out; simp [mapR, Except.map, pure, Except.pure]
  | cons x l ih =>
    intro out
    rw [List.foldlM_cons]
    simp only [mapR]
    cases hG : G x with
    | error err => rfl
    | ok r =>
      show l.foldlM _ (out ++ [r]) = _
      rw [ih (out ++ [r])]
      cases mapR G l <;> simp [Except.map]

theorem mapR_congr_M {α β : Type} (g g' : α → R β) : ∀ (l : List α), (∀ x ∈ l, g x = g' x) →
    mapR g l = mapR g' l
  | [], _ => rfl
  | x :: xs, h => by
    simp only [mapR]
    rw [h x List.mem_cons_self, mapR_congr_M g g' xs (fun y hy => h y (List.mem_cons_of_mem _ hy))]

theorem find_done_append_M (done : List (Str × Bool)) (n : Str) (h : ∀ p ∈ done, p.1 ≠ n) :
    (done ++ [(n, false)]).find? (fun (p : Str × Bool) => p.1 == n) = some (n, false) := by
  rw [List.find?_append]
  have : done.find? (fun (p : Str × Bool) => p.1 == n) = none := by
    rw [List.find?_eq_none]
    intro p hp
    simpa using h p hp
  rw [this]
  simp

theorem find_done_none_M (done : List (Str × Bool)) (n : Str) (h : ∀ p ∈ done, p.1 ≠ n) :
    done.find? (fun (p : Str × Bool) => p.1 == n) = none := by
  rw [List.find?_eq_none]
  intro p hp
  simpa using h p hp

theorem any_done_false_M (done : List (Str × Bool)) (n : Str) (h : ∀ p ∈ done, p.1 ≠ n) :
    done.any (fun p => p.1 == n) = false := by
  rw [List.any_eq_false]
  intro p hp
  simpa using h p hp

/-- names recorded in the `done` list after a step: old ones, or the child's -/
def DoneSub (d2 done : List (Str × Bool)) (n : Str) : Prop := ∀ p ∈ d2, p.1 = n ∨ ∃ q ∈ done, q.1 = p.1

theorem DoneSub.refl (done : List (Str × Bool)) (n : Str) : DoneSub done done n :=
  fun p hp => .inr ⟨p, hp, rfl⟩

/-- the part of the step after the attribute's elements are known, definition child -/
theorem fstep_multi_defn_list_M (F : Obj → PVal → R Obj) (out : List Obj)
    (done : List (Str × Bool)) (o : Obj) (hfresh : ∀ p ∈ done, p.1 ≠ o.name) (l : List PVal)
    (X : R (List Obj × List (Str × Bool))) (Y : R (List Obj))
    (hX : X = match l with
      | [] => .ok (out ++ [withTmpl o 1], done)
      | l =>
        let needTmpl : Bool := match done.find? (fun (p : Str × Bool) => p.1 == o.name) with
          | some p => !p.2
          | none => false
        let out2 : List Obj := if needTmpl then out ++ [withTmpl o (-1)] else out
        let done2 : List (Str × Bool) :=
          if needTmpl then done.map (fun (p : Str × Bool) => if p.1 == o.name then (p.1, true) else p) else done
        (l.foldlM (fun (acc : List Obj) (x : PVal) => (F o x).map (fun r => acc ++ [r])) out2).map (fun r => (r, done2)))
    (hY : Y = match l with
         | [] => (.ok [withTmpl o 1] : R (List Obj))
         | x :: xs => (mapR (F o) (x :: xs)).map (fun rs => [] ++ rs)) :
    X = Y.map (fun rs => (out ++ rs, done)) := by
  subst hX hY
  cases l with
  | nil => rfl
  | cons x xs =>
    simp only [find_done_none_M done o.name hfresh, Bool.false_eq_true, if_false]
    rw [foldlM_accStep_M]
    cases mapR (F o) (x :: xs) <;> simp [Except.map]

/-- … scope child: the placeholder template comes first, and the name is marked -/
theorem fstep_multi_scope_list_M (F : Obj → PVal → R Obj) (out : List Obj)
    (done : List (Str × Bool)) (o : Obj) (hfresh : ∀ p ∈ done, p.1 ≠ o.name) (l : List PVal)
    (X : R (List Obj × List (Str × Bool))) (Y : R (List Obj))
    (hX : X = match l with
      | [] => .ok (out ++ [withTmpl o 1], done ++ [(o.name, false)])
      | l =>
        let needTmpl : Bool := match (done ++ [(o.name, false)]).find? (fun (p : Str × Bool) => p.1 == o.name) with
          | some p => !p.2
          | none => false
        let out2 : List Obj := if needTmpl then out ++ [withTmpl o (-1)] else out
        let done2 : List (Str × Bool) :=
          if needTmpl then (done ++ [(o.name, false)]).map (fun (p : Str × Bool) => if p.1 == o.name then (p.1, true) else p)
          else done ++ [(o.name, false)]
        (l.foldlM (fun (acc : List Obj) (x : PVal) => (F o x).map (fun r => acc ++ [r])) out2).map (fun r => (r, done2)))
    (hY : Y = match l with
         | [] => (.ok [withTmpl o 1] : R (List Obj))
         | x :: xs => (mapR (F o) (x :: xs)).map (fun rs => [withTmpl o (-1)] ++ rs)) :
    ∃ d2, DoneSub d2 done o.name ∧ X = Y.map (fun rs => (out ++ rs, d2)) := by
  subst hX hY
  have hsub1 : DoneSub (done ++ [(o.name, false)]) done o.name := by
    intro p hp
    rw [List.mem_append] at hp
    rcases hp with hp | hp
    · exact .inr ⟨p, hp, rfl⟩
    · rw [List.mem_singleton] at hp; subst hp; exact .inl rfl
  cases l with
  | nil => exact ⟨_, hsub1, rfl⟩
  | cons x xs =>
    refine ⟨(done ++ [(o.name, false)]).map
      (fun (p : Str × Bool) => if p.1 == o.name then (p.1, true) else p), ?_, ?_⟩
    · intro p hp
      rw [List.mem_map] at hp
      obtain ⟨q, hq, rfl⟩ := hp
      have := hsub1 q hq
      split
      · rename_i h; left; simpa using h
      · exact this
    · simp only [find_done_append_M done o.name hfresh, Bool.not_false, if_true]
      rw [foldlM_accStep_M]
      cases mapR (F o) (x :: xs) <;> simp [Except.map]

/-- one step of the master loop for a `.multiple` child not met before, scope value a record -/
theorem fstep_multi_M (F : Obj → PVal → R Obj) (fs : List (Str × PVal)) (out : List Obj)
    (done : List (Str × Bool)) (i : Nat) (o : Obj) (hm : isMultiple o = true)
    (hfresh : ∀ p ∈ done, p.1 ≠ o.name) :
    ∃ d2, DoneSub d2 done o.name ∧
      fstep_xt F (.record fs) (out, done) (i, o) =
        (multiKidFormat (F o) o fs).map (fun rs => (out ++ rs, d2)) := by
  have hany := any_done_false_M done o.name hfresh
  have hsub1 : DoneSub (done ++ [(o.name, false)]) done o.name := by
    intro p hp
    rw [List.mem_append] at hp
    rcases hp with hp | hp
    · exact .inr ⟨p, hp, rfl⟩
    · rw [List.mem_singleton] at hp; subst hp; exact .inl rfl
  unfold fstep_xt multiKidFormat
  simp only [hm, hany, Bool.and_false, Bool.false_eq_true, if_false, Bool.true_and, Bool.not_true]
  cases hsc : o.isScope with
  | false =>
    simp only [Bool.false_eq_true, if_false, List.foldlM_cons, List.foldlM_nil, bind_pure]
    cases hg : fieldGet fs o.name with
    | none => exact ⟨done, DoneSub.refl _ _, by simp [Except.map]⟩
    | some sub =>
      refine ⟨done, DoneSub.refl _ _, ?_⟩
      cases sub with
      | multi op l =>
        simp only [elemsOfM]
        exact fstep_multi_defn_list_M F out done o hfresh l _ _ (by cases l <;> rfl) (by cases l <;> rfl)
      | list l =>
        simp only [elemsOfM]
        exact fstep_multi_defn_list_M F out done o hfresh l _ _ (by cases l <;> rfl) (by cases l <;> rfl)
      | words ws =>
        simp only [elemsOfM]
        exact fstep_multi_defn_list_M F out done o hfresh (ws.map (fun _ => PVal.none)) _ _
          (by cases ws <;> rfl) (by cases ws <;> rfl)
      | _ => rfl
  | true =>
    simp only [if_true, List.foldlM_cons, List.foldlM_nil, bind_pure]
    cases hg : fieldGet fs o.name with
    | none => exact ⟨_, hsub1, by simp [Except.map]⟩
    | some sub =>
      cases sub with
      | multi op l =>
        simp only [elemsOfM]
        exact fstep_multi_scope_list_M F out done o hfresh l _ _ (by cases l <;> rfl) (by cases l <;> rfl)
      | list l =>
        simp only [elemsOfM]
        exact fstep_multi_scope_list_M F out done o hfresh l _ _ (by cases l <;> rfl) (by cases l <;> rfl)
      | words ws =>
        simp only [elemsOfM]
        exact fstep_multi_scope_list_M F out done o hfresh (ws.map (fun _ => PVal.none)) _ _
          (by cases ws <;> rfl) (by cases ws <;> rfl)
      | _ => exact ⟨done, DoneSub.refl _ _, rfl⟩

/-! ## 4. the master loop and the closed form -/

theorem masterActive_fkidsM (kids : List Obj) (hk : FKidsM kids)
    (hpw : (kids.map Obj.name).Pairwise (· ≠ ·)) : masterActiveObjects kids = .ok (indexed kids) := by
  have hsnd := indexed_map_snd kids
  show masterActiveObjects.go (indexed kids) [] [] = _
  rw [masterActive_go_all (indexed kids) [] []]
  · simp
  · intro p hp
    have : p.2 ∈ kids := by rw [← hsnd]; exact List.mem_map.mpr ⟨p, hp, rfl⟩
    exact ((fkidsM_iff kids).1 hk _ this).enabled
  · rw [map_snd_comp Obj.name, hsnd]; exact hpw
  · intro p _ q hq; cases hq

theorem multiKidFormat_congr (F G : PVal → R Obj) (o : Obj) (fs : List (Str × PVal))
    (h : ∀ sub, fieldGet fs o.name = some sub → ∀ l, elemsOfM sub = .ok l → ∀ x ∈ l, F x = G x) :
    multiKidFormat F o fs = multiKidFormat G o fs := by
  unfold multiKidFormat
  cases hg : fieldGet fs o.name with
  | none => rfl
  | some sub =>
    simp only
    cases hel : elemsOfM sub with
    | error err => rfl
    | ok l =>
      cases l with
      | nil => rfl
      | cons x xs =>
        simp only
        rw [mapR_congr_M F G (x :: xs) (h sub hg (x :: xs) hel)]

theorem kidFormat_record_congr (F G : PVal → R Obj) (nm : Str) (fs : List (Str × PVal))
    (h : ∀ sub, fieldGet fs nm = some sub → F sub = G sub) :
    kidFormat_xt F nm (.record fs) = kidFormat_xt G nm (.record fs) := by
  rw [kidFormat_record_xt, kidFormat_record_xt]
  cases hg : fieldGet fs nm with
  | none => rfl
  | some sub => simp only; rw [h sub hg]

/-- the master loop of `scope.format` over children with pairwise distinct names is the
    specification -/
theorem formatFold_specM (e : Envs) (F : Obj → PVal → R Obj) (fs : List (Str × PVal)) :
    ∀ (l : List (Nat × Obj)) (out : List Obj) (done : List (Str × Bool)),
      (l.map (fun p => p.2.name)).Pairwise (· ≠ ·) →
      (∀ p ∈ l, ∀ q ∈ done, q.1 ≠ p.2.name) →
      (∀ p ∈ l, ∀ x, FDomM p.2 x → F p.2 x = formatSpecM e p.2 x) →
      FDomKidsM (l.map (fun p => p.2)) fs →
      ∃ d2, l.foldlM (fstep_xt F (.record fs)) (out, done) =
        (formatSpecKidsM e (l.map (fun p => p.2)) fs).map (fun rs => (out ++ rs, d2)) := by
  intro l
  induction l with
  | nil =>
    intro out done _ _ _ _
    exact ⟨done, by rw [List.map_nil, formatSpecKidsM]; simp [Except.map, pure, Except.pure]⟩
  | cons p l ih =>
    intro out done hpw hfresh hF hdom
    obtain ⟨i, o⟩ := p
    rw [List.map_cons, List.pairwise_cons] at hpw
    rw [List.map_cons, FDomKidsM] at hdom
    have hFo := hF (i, o) List.mem_cons_self
    simp only at hFo hdom
    have hfo : ∀ q ∈ done, q.1 ≠ o.name := hfresh (i, o) List.mem_cons_self
    rw [List.foldlM_cons, List.map_cons, formatSpecKidsM]
    -- one step, with some new `done`
    have hstep : ∃ d1, DoneSub d1 done o.name ∧
        fstep_xt F (.record fs) (out, done) (i, o) =
          (if isMultiple o then multiKidFormat (formatSpecM e o) o fs
           else kidFormat_xt (formatSpecM e o) o.name (.record fs)).map (fun rs => (out ++ rs, d1)) := by
      cases hm : isMultiple o with
      | true =>
        obtain ⟨d1, hd1, heq⟩ := fstep_multi_M F fs out done i o hm hfo
        refine ⟨d1, hd1, ?_⟩
        rw [heq]
        simp only [if_true]
        rw [multiKidFormat_congr (F o) (formatSpecM e o) o fs (fun sub hg l hel x hx =>
          hFo x (((hdom.1 sub hg).1 hm) l hel x hx))]
      | false =>
        refine ⟨done, DoneSub.refl _ _, ?_⟩
        rw [fstep_plain_xt F (.record fs) out done i o hm]
        simp only [Bool.false_eq_true, if_false]
        rw [kidFormat_record_congr (F o) (formatSpecM e o) o.name fs (fun sub hg =>
          hFo sub ((hdom.1 sub hg).2 hm))]
    obtain ⟨d1, hd1, heq⟩ := hstep
    rw [heq]
    cases hk : (if isMultiple o then multiKidFormat (formatSpecM e o) o fs
           else kidFormat_xt (formatSpecM e o) o.name (.record fs)) with
    | error err => exact ⟨done, rfl⟩
    | ok rs =>
      have hfresh' : ∀ p ∈ l, ∀ q ∈ d1, q.1 ≠ p.2.name := by
        intro p hp q hq
        rcases hd1 q hq with h1 | ⟨q', hq', h2⟩
        · rw [h1]; exact hpw.1 p.2.name (List.mem_map.mpr ⟨p, hp, rfl⟩)
        · rw [← h2]; exact hfresh p (List.mem_cons_of_mem _ hp) q' hq'
      obtain ⟨d2, hd2⟩ := ih (out ++ rs) d1 hpw.2 hfresh'
        (fun p hp => hF p (List.mem_cons_of_mem _ hp)) hdom.2
      refine ⟨d2, ?_⟩
      show l.foldlM (fstep_xt F (.record fs)) (out ++ rs, d1) = _
      rw [hd2]
      cases formatSpecKidsM e (l.map (fun p => p.2)) fs <;> simp [Except.map]

/-- **closed form of `scope.format` with `.multiple`**: on a master whose objects are enabled and
    whose sibling names are pairwise distinct at every depth — `.multiple` definitions and
    `.multiple` scopes included — with fuel beyond the depth, for every value in `FDomM`, the
    fuelled model is the structural specification, values and errors alike. -/
theorem formatObj_eq_specM (e : Envs) : ∀ (fuel : Nat) (o : Obj), FObjM o → depthT o < fuel →
    ∀ v, FDomM o v → formatObj e fuel o v = formatSpecM e o v := by
  intro fuel
  induction fuel with
  | zero => intro o _ h; exact absurd h (Nat.not_lt_zero _)
  | succ fuel ih =>
    intro o hx hd v hv
    cases o with
    | defn m ws => rw [formatObj, formatSpecM]
    | scope m kids =>
      rw [FObjM] at hx
      rw [depthT] at hd
      rw [FDomM] at hv
      obtain ⟨fs, rfl, hdom⟩ := hv
      rw [formatObj_scope_xt, formatSpecM, masterActive_fkidsM kids hx.2.1 hx.2.2]
      simp only
      obtain ⟨d2, hd2⟩ := formatFold_specM e (formatObj e fuel) fs (indexed kids) [] []
        (by rw [map_snd_comp Obj.name, indexed_map_snd]; exact hx.2.2)
        (fun p _ q hq => by cases hq)
        (by
          intro p hp x hxd
          have hmem : p.2 ∈ kids := by rw [← indexed_map_snd kids]; exact List.mem_map.mpr ⟨p, hp, rfl⟩
          have hk' := (fkidsM_iff kids).1 hx.2.1 _ hmem
          refine ih p.2 hk' ?_ x hxd
          have := depthT_le_depthL kids _ hmem
          omega)
        (by rw [indexed_map_snd]; exact hdom)
      rw [hd2, indexed_map_snd]
      cases formatSpecKidsM e kids fs <;> simp [Except.map]

/-! ## 5. format, then extract -/

mutual
/-- `RTObjM master v`: the Python object `v` has exactly the master's shape — for a scope a
    `scope_extract` holding one attribute per master child, in the master's order; the attribute of a
    `.multiple` child is a `scope_extract_list` carrying the child's `.optional`, whose elements have
    the child's shape and are not `None` when `.optional = True` (`__phil_set__` drops those); for a
    definition a value covered by a per-converter round-trip theorem (`RoundTripLeaf`) -/
def RTObjM : Obj → PVal → Prop
  | .defn m ws, x => ∃ c, declConv m = some c ∧ RoundTripLeaf c ws x
  | .scope _ kids, v => ∃ fs, v = .record fs ∧ RTKidsM kids fs
def RTKidsM : List Obj → List (Str × PVal) → Prop
  | [], fs => fs = []
  | o :: os, fs => ∃ x rest, fs = (o.name, x) :: rest ∧
      (isMultiple o = false → RTObjM o x) ∧
      (isMultiple o = true → ∃ l, x = .multi (o.attr "optional") l ∧
          ∀ y ∈ l, RTObjM o y ∧ (y = .none → o.attr "optional" ≠ .bool true)) ∧
      RTKidsM os rest
end

theorem rtkidsM_keys : ∀ (os : List Obj) (rest : List (Str × PVal)), RTKidsM os rest →
    rest.map (fun p => p.1) = os.map Obj.name
  | [], rest, h => by rw [RTKidsM] at h; subst h; rfl
  | o :: os, rest, h => by
    rw [RTKidsM] at h
    obtain ⟨x, rest', rfl, _, _, hr⟩ := h
    rw [List.map_cons, List.map_cons, rtkidsM_keys os rest' hr]

/-! ### `__phil_set__` on a `.multiple` attribute -/

/-- `__phil_set__` keeps the value `v` for a child with `.optional = opt` -/
def KeepM (opt : AttrVal) (v : PVal) : Prop := v = .none → opt ≠ .bool true

theorem fieldGet_append_last (acc : List (Str × PVal)) (nm : Str) (v : PVal) (h : fieldGet acc nm = none) :
    fieldGet (acc ++ [(nm, v)]) nm = some v := by
  unfold fieldGet at h ⊢
  rw [Option.map_eq_none_iff] at h
  rw [List.find?_append, h]
  simp

theorem fieldSet_append_last (acc : List (Str × PVal)) (nm : Str) (v v' : PVal) (h : fieldGet acc nm = none) :
    fieldSet (acc ++ [(nm, v)]) nm v' = acc ++ [(nm, v')] := by
  have hne := (fieldGet_none_iff_ns acc nm).1 h
  unfold fieldSet
  have hany : (acc ++ [(nm, v)]).any (·.1 == nm) = true := by simp
  rw [hany]
  simp only [if_true, List.map_append, List.map_cons, List.map_nil, beq_self_eq_true]
  congr 1
  rw [List.map_congr_left (g := id)]
  · simp
  · intro p hp
    have := hne p hp
    simp [this]

/-- the first value of a `.multiple` attribute creates the list -/
theorem philSet_multi_fresh (acc : List (Str × PVal)) (nm : Str) (opt : AttrVal) (v : PVal)
    (h : fieldGet acc nm = none) (hk : KeepM opt v) :
    philSet acc nm opt true (.val v) = .ok (acc ++ [(nm, .multi opt [v])]) := by
  unfold philSet
  simp only [Bool.not_true, Bool.false_eq_true, if_false, h]
  rw [fieldSet_fresh_ns acc nm _ h]
  cases v with
  | none =>
    cases opt with
    | bool b =>
      cases b with
      | true => exact absurd rfl (hk rfl)
      | false => simp [fieldSet_append_last acc nm _ _ h]
    | _ => simp [fieldSet_append_last acc nm _ _ h]
  | _ => simp [fieldSet_append_last acc nm _ _ h]

/-- a template (or a disabled instance) alone creates the empty list -/
theorem philSet_multi_fresh_disabled (acc : List (Str × PVal)) (nm : Str) (opt : AttrVal)
    (h : fieldGet acc nm = none) :
    philSet acc nm opt true .disabled = .ok (acc ++ [(nm, .multi opt [])]) := by
  unfold philSet
  simp only [Bool.not_true, Bool.false_eq_true, if_false, h]
  rw [fieldSet_fresh_ns acc nm _ h]

/-- a further value is appended -/
theorem philSet_multi_last (acc : List (Str × PVal)) (nm : Str) (opt o' : AttrVal) (pre : List PVal) (v : PVal)
    (h : fieldGet acc nm = none) (hk : KeepM opt v) :
    philSet (acc ++ [(nm, .multi o' pre)]) nm opt true (.val v) = .ok (acc ++ [(nm, .multi o' (pre ++ [v]))]) := by
  unfold philSet
  simp only [Bool.not_true, Bool.false_eq_true, if_false, fieldGet_append_last acc nm _ h]
  cases v with
  | none =>
    cases opt with
    | bool b =>
      cases b with
      | true => exact absurd rfl (hk rfl)
      | false => simp [fieldSet_append_last acc nm _ _ h]
    | _ => simp [fieldSet_append_last acc nm _ _ h]
  | _ => simp [fieldSet_append_last acc nm _ _ h]

/-- what the round trip needs of a formatted instance `w` of the master child `o` -/
structure InstOf (X : Obj → R PVal) (o w : Obj) (y : PVal) : Prop where
  name : w.name = o.name
  tmpl : w.meta.tmpl = 0
  enabled : w.meta.disabled = false
  attrs : w.meta.attrs = o.meta.attrs
  value : X w = .ok y

theorem xstep_live_M (X : Obj → R PVal) (o w : Obj) (y : PVal) (h : InstOf X o w y) (fs : List (Str × PVal)) :
    xstep_xt X fs w = philSet fs o.name (o.attr "optional") (isMultiple o) (.val y) := by
  unfold xstep_xt
  have h1 : ¬ w.meta.tmpl < 0 := by rw [h.tmpl]; decide
  have h2 : (w.meta.disabled || decide (w.meta.tmpl > 0)) = false := by rw [h.enabled, h.tmpl]; decide
  simp only [h1, if_false, h2, Bool.false_eq_true, h.value, Except.map]
  unfold isMultiple Obj.attr
  rw [h.name, h.attrs]

theorem mapR_cons_ok_M {α β : Type} (g : α → R β) (x : α) (xs : List α) (rs : List β)
    (h : mapR g (x :: xs) = .ok rs) : ∃ w rs', g x = .ok w ∧ mapR g xs = .ok rs' ∧ rs = w :: rs' := by
  simp only [mapR] at h
  cases hg : g x with
  | error err => rw [hg] at h; cases h
  | ok w =>
    rw [hg] at h
    cases hm : mapR g xs with
    | error err => rw [hm] at h; cases h
    | ok rs' => rw [hm] at h; cases h; exact ⟨w, rs', rfl, rfl, rfl⟩

/-- extraction of further instances of a `.multiple` child: their values are appended, in order -/
theorem xfold_more_M (X : Obj → R PVal) (G : PVal → R Obj) (o : Obj) (hm : isMultiple o = true)
    (acc : List (Str × PVal)) (hacc : fieldGet acc o.name = none) :
    ∀ (l : List PVal) (rs : List Obj) (pre : List PVal), mapR G l = .ok rs →
      (∀ y ∈ l, ∀ w, G y = .ok w → InstOf X o w y ∧ KeepM (o.attr "optional") y) →
      rs.foldlM (xstep_xt X) (acc ++ [(o.name, .multi (o.attr "optional") pre)]) =
        .ok (acc ++ [(o.name, .multi (o.attr "optional") (pre ++ l))]) := by
  intro l
  induction l with
  | nil =>
    intro rs pre h _
    simp only [mapR] at h
    cases h
    simp [pure, Except.pure]
  | cons y l ih =>
    intro rs pre h hall
    obtain ⟨w, rs', hw, hrs', rfl⟩ := mapR_cons_ok_M G y l rs h
    obtain ⟨hi, hk⟩ := hall y List.mem_cons_self w hw
    rw [List.foldlM_cons, xstep_live_M X o w y hi, hm, philSet_multi_last acc o.name _ _ pre y hacc hk]
    show rs'.foldlM (xstep_xt X) _ = _
    rw [ih rs' (pre ++ [y]) hrs' (fun y' hy' => hall y' (List.mem_cons_of_mem _ hy'))]
    simp

/-- extraction of the whole block of a `.multiple` child with at least one instance (after the
    placeholder template, which is skipped) -/
theorem xfold_block_M (X : Obj → R PVal) (G : PVal → R Obj) (o : Obj) (hm : isMultiple o = true)
    (acc : List (Str × PVal)) (hacc : fieldGet acc o.name = none)
    (y : PVal) (l : List PVal) (rs : List Obj) (h : mapR G (y :: l) = .ok rs)
    (hall : ∀ y' ∈ y :: l, ∀ w, G y' = .ok w → InstOf X o w y' ∧ KeepM (o.attr "optional") y') :
    rs.foldlM (xstep_xt X) acc = .ok (acc ++ [(o.name, .multi (o.attr "optional") (y :: l))]) := by
  obtain ⟨w, rs', hw, hrs', rfl⟩ := mapR_cons_ok_M G y l rs h
  obtain ⟨hi, hk⟩ := hall y List.mem_cons_self w hw
  rw [List.foldlM_cons, xstep_live_M X o w y hi, hm, philSet_multi_fresh acc o.name _ y hacc hk]
  show rs'.foldlM (xstep_xt X) _ = _
  rw [xfold_more_M X G o hm acc hacc l rs' [y] hrs' (fun y' hy' => hall y' (List.mem_cons_of_mem _ hy'))]
  rfl

theorem xstep_placeholder_M (X : Obj → R PVal) (o : Obj) (fs : List (Str × PVal)) :
    xstep_xt X fs (withTmpl o (-1)) = .ok fs := by
  unfold xstep_xt
  have : (withTmpl o (-1)).meta.tmpl < 0 := by cases o <;> simp [withTmpl, Obj.withMeta, Obj.meta]
  simp only [this, if_true]

theorem xstep_template_M (X : Obj → R PVal) (o : Obj) (hm : isMultiple o = true) (fs : List (Str × PVal))
    (h : fieldGet fs o.name = none) :
    xstep_xt X fs (withTmpl o 1) = .ok (fs ++ [(o.name, .multi (o.attr "optional") [])]) := by
  unfold xstep_xt
  have h1 : ¬ (withTmpl o 1).meta.tmpl < 0 := by cases o <;> simp [withTmpl, Obj.withMeta, Obj.meta]
  have h2 : ((withTmpl o 1).meta.disabled || decide ((withTmpl o 1).meta.tmpl > 0)) = true := by
    cases o <;> simp [withTmpl, Obj.withMeta, Obj.meta]
  have h3 : (withTmpl o 1).name = o.name := withTmpl_name o 1
  have h4 : (withTmpl o 1).attr "optional" = o.attr "optional" := by cases o <;> rfl
  have h5 : isMultiple (withTmpl o 1) = isMultiple o := by cases o <;> rfl
  simp only [h1, if_false, h2, if_true, h3, h4, h5, hm]
  exact philSet_multi_fresh_disabled fs o.name _ h

theorem fieldGet_append_fresh_M (acc : List (Str × PVal)) (n k : Str) (v : PVal)
    (hk : fieldGet acc k = none) (hne : n ≠ k) : fieldGet (acc ++ [(n, v)]) k = none := by
  rw [fieldGet_none_iff_ns] at hk ⊢
  intro p hp
  rw [List.mem_append] at hp
  rcases hp with hp | hp
  · exact hk p hp
  · rw [List.mem_singleton] at hp; subst hp; exact hne

mutual
/-- one object: what `format` writes for an in-shape value extracts back to that value (any fuel
    beyond the depth), and is a live copy of the master object -/
theorem format_extract_objM (e : Envs) (henv : EnvDecimal e.eval) : ∀ (o : Obj) (x : PVal) (w : Obj),
    FObjM o → RTObjM o x → formatSpecM e o x = .ok w →
    ∀ fuel, depthT o < fuel → InstOf (extractObj e fuel) o w x
  | .defn m mws, x, w, hf, hr, h, fuel, hd => by
    rw [FObjM] at hf
    rw [RTObjM] at hr
    obtain ⟨c, hc, hleaf⟩ := hr
    rw [formatSpecM] at h
    obtain ⟨nws, ha, rfl⟩ := formatDefn_ok_xt e m mws x w c hc h
    refine ⟨rfl, rfl, hf, rfl, ?_⟩
    cases fuel with
    | zero => exact absurd hd (Nat.not_lt_zero _)
    | succ f =>
      rw [extractObj, extractDefn_tmpl_xt]
      have hfw := leaf_round_trip_xt c e.fmt e.eval _ mws nws x henv hleaf ha
      unfold declConv at hc
      unfold extractDefn
      cases ht : m.attrs.get "type" <;> rw [ht] at hc <;> simp only [Option.some.injEq, reduceCtorEq] at hc
      all_goals
        subst hc
        exact hfw
  | .scope m kids, x, w, hf, hr, h, fuel, hd => by
    rw [FObjM] at hf
    rw [RTObjM] at hr
    obtain ⟨fs, rfl, hk⟩ := hr
    rw [formatSpecM] at h
    cases hfk : formatSpecKidsM e kids fs with
    | error err => rw [hfk] at h; cases h
    | ok ws =>
      rw [hfk] at h
      simp only [Except.map, Except.ok.injEq] at h
      subst h
      refine ⟨rfl, rfl, hf.1, rfl, ?_⟩
      rw [depthT] at hd
      cases fuel with
      | zero => exact absurd hd (Nat.not_lt_zero _)
      | succ f =>
        have hkeys := rtkidsM_keys kids fs hk
        have hget : ∀ p ∈ fs, fieldGet fs p.1 = some p.2 :=
          fieldGet_of_distinct_xt fs (by rw [hkeys]; exact hf.2.2)
        rw [extractObj_scope_xt,
          format_extract_kidsM e henv kids fs fs ws hf.2.1 hf.2.2 hk hget hfk f (by omega) []
            (fun _ _ => rfl)]
        rfl
/-- the children: extracting the formatted blocks, `__phil_set__` by `__phil_set__`, appends exactly
    the value's attributes -/
theorem format_extract_kidsM (e : Envs) (henv : EnvDecimal e.eval) :
    ∀ (os : List Obj) (fs rest : List (Str × PVal)) (ws : List Obj),
    FKidsM os → (os.map Obj.name).Pairwise (· ≠ ·) → RTKidsM os rest →
    (∀ p ∈ rest, fieldGet fs p.1 = some p.2) → formatSpecKidsM e os fs = .ok ws →
    ∀ fuel, depthL os < fuel → ∀ acc : List (Str × PVal), (∀ o ∈ os, fieldGet acc o.name = none) →
    ws.foldlM (xstep_xt (extractObj e fuel)) acc = .ok (acc ++ rest)
  | [], fs, rest, ws, _, _, hr, _, h, fuel, _, acc, _ => by
    rw [RTKidsM] at hr
    rw [formatSpecKidsM] at h
    cases h
    subst hr
    simp [pure, Except.pure]
  | o :: os, fs, rest, ws, hf, hpw, hr, hget, h, fuel, hd, acc, hacc => by
    rw [FKidsM] at hf
    rw [List.map_cons, List.pairwise_cons] at hpw
    rw [RTKidsM] at hr
    obtain ⟨x, rest', rfl, hox1, hox2, hrest⟩ := hr
    have hdo : depthT o < fuel := Nat.lt_of_le_of_lt (depthT_le_depthL (o :: os) o List.mem_cons_self) hd
    have hds : depthL os < fuel := by
      rw [depthL] at hd
      exact Nat.lt_of_le_of_lt (Nat.le_max_right _ _) hd
    have hgo : fieldGet fs o.name = some x := hget (o.name, x) List.mem_cons_self
    have hao : fieldGet acc o.name = none := hacc o List.mem_cons_self
    have hacc' : ∀ v, ∀ k ∈ os, fieldGet (acc ++ [(o.name, v)]) k.name = none := fun v k hk =>
      fieldGet_append_fresh_M acc o.name k.name v (hacc k (List.mem_cons_of_mem _ hk))
        (hpw.1 k.name (List.mem_map_of_mem hk))
    rw [formatSpecKidsM] at h
    cases hm : isMultiple o with
    | false =>
      rw [hm] at h
      simp only [Bool.false_eq_true, if_false] at h
      rw [kidFormat_record_xt, hgo] at h
      simp only at h
      cases hfo : formatSpecM e o x with
      | error err => rw [hfo] at h; cases h
      | ok w =>
        rw [hfo] at h
        simp only [Except.map] at h
        cases hfk : formatSpecKidsM e os fs with
        | error err => rw [hfk] at h; cases h
        | ok ws' =>
          rw [hfk] at h
          simp only [Except.ok.injEq, List.cons_append, List.nil_append] at h
          subst h
          have hi := format_extract_objM e henv o x w hf.1 (hox1 hm) hfo fuel hdo
          rw [List.foldlM_cons, xstep_live_M _ o w x hi, hm, philSet_fresh_ns acc o.name _ _ hao,
            fieldSet_fresh_ns acc o.name _ hao]
          show ws'.foldlM _ (acc ++ [(o.name, x)]) = _
          rw [format_extract_kidsM e henv os fs rest' ws' hf.2 hpw.2 hrest
            (fun p hp => hget p (List.mem_cons_of_mem _ hp)) hfk fuel hds _ (hacc' x)]
          simp
    | true =>
      rw [hm] at h
      simp only [if_true] at h
      obtain ⟨l, rfl, hl⟩ := hox2 hm
      unfold multiKidFormat at h
      rw [hgo] at h
      simp only [elemsOfM] at h
      cases hfk : formatSpecKidsM e os fs with
      | error err =>
        rw [hfk] at h
        cases l with
        | nil => simp [Except.map] at h
        | cons y l' =>
          simp only at h
          cases hmr : mapR (formatSpecM e o) (y :: l') with
          | error e2 => rw [hmr] at h; simp [Except.map] at h
          | ok rs => rw [hmr] at h; simp [Except.map] at h
      | ok ws' =>
        rw [hfk] at h
        have hrec := format_extract_kidsM e henv os fs rest' ws' hf.2 hpw.2 hrest
            (fun p hp => hget p (List.mem_cons_of_mem _ hp)) hfk fuel hds
        cases l with
        | nil =>
          simp only [Except.map, Except.ok.injEq] at h
          subst h
          rw [List.cons_append, List.nil_append, List.foldlM_cons, xstep_template_M _ o hm acc hao]
          show ws'.foldlM _ (acc ++ [(o.name, .multi (o.attr "optional") [])]) = _
          rw [hrec _ (hacc' _)]
          simp
        | cons y l' =>
          simp only at h
          cases hmr : mapR (formatSpecM e o) (y :: l') with
          | error err => rw [hmr] at h; simp [Except.map] at h
          | ok rs =>
            rw [hmr] at h
            simp only [Except.map, Except.ok.injEq] at h
            subst h
            have hall : ∀ y' ∈ y :: l', ∀ w, formatSpecM e o y' = .ok w →
                InstOf (extractObj e fuel) o w y' ∧ KeepM (o.attr "optional") y' := fun y' hy' w hw =>
              ⟨format_extract_objM e henv o y' w hf.1 (hl y' hy').1 hw fuel hdo, (hl y' hy').2⟩
            have hblock := xfold_block_M (extractObj e fuel) (formatSpecM e o) o hm acc hao y l' rs hmr hall
            rw [List.foldlM_append, List.foldlM_append]
            have hpre : (if o.isScope = true then [withTmpl o (-1)] else []).foldlM
                (xstep_xt (extractObj e fuel)) acc = .ok acc := by
              split
              · rw [List.foldlM_cons, xstep_placeholder_M]; rfl
              · rfl
            rw [hpre]
            show (rs.foldlM (xstep_xt (extractObj e fuel)) acc >>= fun s => ws'.foldlM _ s) = _
            rw [hblock]
            show ws'.foldlM _ (acc ++ [(o.name, .multi (o.attr "optional") (y :: l'))]) = _
            rw [hrec _ (hacc' _)]
            simp
end

mutual
/-- in-shape values are in the domain of the closed form of `format` -/
theorem rtObjM_fdomM : ∀ (o : Obj) (v : PVal), FObjM o → RTObjM o v → FDomM o v
  | .defn m ws, v, _, _ => by rw [FDomM]; trivial
  | .scope m kids, v, hf, h => by
    rw [FObjM] at hf
    rw [RTObjM] at h
    obtain ⟨fs, rfl, hk⟩ := h
    rw [FDomM]
    have hkeys := rtkidsM_keys kids fs hk
    have hget : ∀ p ∈ fs, fieldGet fs p.1 = some p.2 :=
      fieldGet_of_distinct_xt fs (by rw [hkeys]; exact hf.2.2)
    exact ⟨fs, rfl, rtKidsM_fdomKidsM kids fs fs hf.2.1 hk hget⟩
theorem rtKidsM_fdomKidsM : ∀ (os : List Obj) (fs rest : List (Str × PVal)), FKidsM os → RTKidsM os rest →
    (∀ p ∈ rest, fieldGet fs p.1 = some p.2) → FDomKidsM os fs
  | [], fs, rest, _, _, _ => by rw [FDomKidsM]; trivial
  | o :: os, fs, rest, hf, h, hget => by
    rw [FKidsM] at hf
    rw [RTKidsM] at h
    obtain ⟨x, rest', rfl, hox1, hox2, hrest⟩ := h
    rw [FDomKidsM]
    refine ⟨fun sub hsub => ?_, rtKidsM_fdomKidsM os fs rest' hf.2 hrest
      (fun p hp => hget p (List.mem_cons_of_mem _ hp))⟩
    have hx : fieldGet fs o.name = some x := hget (o.name, x) List.mem_cons_self
    rw [hx] at hsub
    cases hsub
    constructor
    · intro hm l' hel y hy
      obtain ⟨l, rfl, hl⟩ := hox2 hm
      simp only [elemsOfM, Except.ok.injEq] at hel
      subst hel
      exact rtObjM_fdomM o y hf.1 (hl y hy).1
    · intro hm
      exact rtObjM_fdomM o x hf.1 (hox1 hm)
end

/-! ### executable sufficient condition for `RTObjM` -/

def isNoneB_M : PVal → Bool
  | .none => true
  | _ => false

/-- the attribute of a `.multiple` child: a `scope_extract_list` tagged with the child's `.optional`
    whose elements pass `chk` and are not `None` when `.optional = True` -/
def multiValOK (opt : AttrVal) (chk : PVal → Bool) : PVal → Bool
  | .multi op l => op == opt && l.all (fun y => chk y && (!isNoneB_M y || opt != .bool true))
  | _ => false

theorem multiValOK_sound (opt : AttrVal) (chk : PVal → Bool) (x : PVal) (h : multiValOK opt chk x = true) :
    ∃ l, x = .multi opt l ∧ ∀ y ∈ l, chk y = true ∧ (y = .none → opt ≠ .bool true) := by
  cases x with
  | multi op l =>
    simp only [multiValOK, Bool.and_eq_true, beq_iff_eq, List.all_eq_true] at h
    obtain ⟨rfl, hall⟩ := h
    refine ⟨l, rfl, fun y hy => ⟨(hall y hy).1, ?_⟩⟩
    intro hyn hopt
    have h2 := (hall y hy).2
    rw [hyn, hopt] at h2
    exact absurd h2 (by decide)
  | _ => simp [multiValOK] at h

mutual
def rtObjMB : Obj → PVal → Bool
  | .defn m ws, x => rtDefnB_xt m ws x
  | .scope _ kids, .record fs => rtKidsMB kids fs
  | .scope _ _, _ => false
def rtKidsMB : List Obj → List (Str × PVal) → Bool
  | [], fs => fs.isEmpty
  | o :: os, (k, x) :: rest =>
    k == o.name &&
      (if isMultiple o then multiValOK (o.attr "optional") (rtObjMB o) x else rtObjMB o x) &&
      rtKidsMB os rest
  | _ :: _, [] => false
end

mutual
theorem rtObjMB_sound : ∀ (o : Obj) (v : PVal), rtObjMB o v = true → RTObjM o v
  | .defn m ws, x, h => by
    rw [rtObjMB] at h
    unfold rtDefnB_xt at h
    rw [RTObjM]
    cases hc : declConv m with
    | none => rw [hc] at h; cases h
    | some c => rw [hc] at h; exact ⟨c, rfl, rtLeafB_sound_xt c ws x h⟩
  | .scope m kids, .record fs, h => by
    rw [rtObjMB] at h
    rw [RTObjM]
    exact ⟨fs, rfl, rtKidsMB_sound kids fs h⟩
  | .scope m kids, .none, h => by simp [rtObjMB] at h
  | .scope m kids, .auto, h => by simp [rtObjMB] at h
  | .scope m kids, .bool _, h => by simp [rtObjMB] at h
  | .scope m kids, .num _, h => by simp [rtObjMB] at h
  | .scope m kids, .str _, h => by simp [rtObjMB] at h
  | .scope m kids, .list _, h => by simp [rtObjMB] at h
  | .scope m kids, .words _, h => by simp [rtObjMB] at h
  | .scope m kids, .multi _ _, h => by simp [rtObjMB] at h
theorem rtKidsMB_sound : ∀ (os : List Obj) (fs : List (Str × PVal)), rtKidsMB os fs = true → RTKidsM os fs
  | [], fs, h => by
    rw [rtKidsMB] at h; rw [RTKidsM]; simpa using h
  | o :: os, [], h => by rw [rtKidsMB] at h; cases h
  | o :: os, (k, x) :: rest, h => by
    rw [rtKidsMB] at h
    rw [RTKidsM]
    simp only [Bool.and_eq_true, beq_iff_eq] at h
    obtain ⟨⟨rfl, h2⟩, h3⟩ := h
    refine ⟨x, rest, rfl, ?_, ?_, rtKidsMB_sound os rest h3⟩
    · intro hm
      rw [hm] at h2
      simp only [Bool.false_eq_true, if_false] at h2
      exact rtObjMB_sound o x h2
    · intro hm
      rw [hm] at h2
      simp only [if_true] at h2
      obtain ⟨l, rfl, hl⟩ := multiValOK_sound _ _ x h2
      exact ⟨l, rfl, fun y hy => ⟨rtObjMB_sound o y (hl y hy).1, (hl y hy).2⟩⟩
end

/-- **C09 on whole trees with `.multiple`** (`format_extract_ms`): for a master whose objects are
    enabled and whose sibling names are pairwise distinct at every depth — `.multiple` definitions,
    `.multiple` scopes, nested — and a Python object of exactly the master's shape (`RTObjM`),
    whatever `master.format(v)` returns extracts back to `v`. -/
theorem format_extract_ms_M (e : Envs) (henv : EnvDecimal e.eval) (fuel : Nat) (master : Obj) (v : PVal)
    (w : Obj) (hf : FObjM master) (hd : depthT master < fuel) (hv : RTObjM master v)
    (h : formatObj e fuel master v = .ok w) : extractObj e fuel w = .ok v := by
  rw [formatObj_eq_specM e fuel master hf hd v (rtObjM_fdomM master v hf hv)] at h
  exact (format_extract_objM e henv master v w hf hv h fuel hd).value

/-! ### executable form of `FObjM` -/

mutual
def fobjMB : Obj → Bool
  | .defn m _ => !m.disabled
  | .scope m kids => !m.disabled && fkidsMB kids && decide ((kids.map Obj.name).Pairwise (· ≠ ·))
def fkidsMB : List Obj → Bool
  | [] => true
  | o :: os => fobjMB o && fkidsMB os
end

mutual
theorem fobjMB_sound : ∀ (o : Obj), fobjMB o = true → FObjM o
  | .defn m ws, h => by
    rw [fobjMB] at h; rw [FObjM]; simpa using h
  | .scope m kids, h => by
    rw [fobjMB] at h
    simp only [Bool.and_eq_true, Bool.not_eq_true', decide_eq_true_eq] at h
    rw [FObjM]
    exact ⟨h.1.1, fkidsMB_sound kids h.1.2, h.2⟩
theorem fkidsMB_sound : ∀ (l : List Obj), fkidsMB l = true → FKidsM l
  | [], _ => by rw [FKidsM]; trivial
  | o :: os, h => by
    rw [fkidsMB, Bool.and_eq_true] at h
    rw [FKidsM]
    exact ⟨fobjMB_sound o h.1, fkidsMB_sound os h.2⟩
end

/-- the clauses of `multiKidFormat`, spelt out -/
theorem multiKidFormat_absent (F : PVal → R Obj) (o : Obj) (fs : List (Str × PVal))
    (h : fieldGet fs o.name = none) : multiKidFormat F o fs = .ok [] := by
  unfold multiKidFormat; rw [h]

theorem multiKidFormat_empty (F : PVal → R Obj) (o : Obj) (fs : List (Str × PVal)) (sub : PVal)
    (h : fieldGet fs o.name = some sub) (hl : elemsOfM sub = .ok []) :
    multiKidFormat F o fs = .ok [withTmpl o 1] := by
  unfold multiKidFormat; rw [h]; simp only; rw [hl]

theorem multiKidFormat_instances (F : PVal → R Obj) (o : Obj) (fs : List (Str × PVal)) (sub : PVal)
    (x : PVal) (xs : List PVal) (rs : List Obj)
    (h : fieldGet fs o.name = some sub) (hl : elemsOfM sub = .ok (x :: xs))
    (hr : mapR F (x :: xs) = .ok rs) :
    multiKidFormat F o fs = .ok ((if o.isScope then [withTmpl o (-1)] else []) ++ rs) := by
  unfold multiKidFormat; rw [h]; simp only; rw [hl]; simp only; rw [hr]; rfl

/-! ## 6. `scope.extract` of one scope whose children come in BLOCKS (closed form of the
       `__phil_set__` accumulation, for formatted trees and fetch results alike) -/

/-- `__phil_set__` keeps the value `y` of an instance of a `.multiple` object with `.optional = opt` -/
def keepValB (opt : AttrVal) (y : PVal) : Bool := !isNoneB_M y || opt != .bool true

theorem keepValB_true (opt : AttrVal) (y : PVal) (h : keepValB opt y = true) : KeepM opt y := by
  intro hy ho
  subst hy ho
  exact absurd h (by decide)

theorem philSet_multi_fresh_drop (acc : List (Str × PVal)) (nm : Str) (opt : AttrVal) (v : PVal)
    (h : fieldGet acc nm = none) (hk : keepValB opt v = false) :
    philSet acc nm opt true (.val v) = .ok (acc ++ [(nm, .multi opt [])]) := by
  unfold philSet
  simp only [Bool.not_true, Bool.false_eq_true, if_false, h]
  rw [fieldSet_fresh_ns acc nm _ h]
  cases v with
  | none =>
    cases opt with
    | bool b =>
      cases b with
      | true => simp
      | false => exact absurd hk (by decide)
    | _ => exact absurd hk (by simp [keepValB, isNoneB_M])
  | _ => exact absurd hk (by simp [keepValB, isNoneB_M])

theorem philSet_multi_last_drop (acc : List (Str × PVal)) (nm : Str) (opt o' : AttrVal) (pre : List PVal)
    (v : PVal) (h : fieldGet acc nm = none) (hk : keepValB opt v = false) :
    philSet (acc ++ [(nm, .multi o' pre)]) nm opt true (.val v) = .ok (acc ++ [(nm, .multi o' pre)]) := by
  unfold philSet
  simp only [Bool.not_true, Bool.false_eq_true, if_false, fieldGet_append_last acc nm _ h]
  cases v with
  | none =>
    cases opt with
    | bool b =>
      cases b with
      | true => simp
      | false => exact absurd hk (by decide)
    | _ => exact absurd hk (by simp [keepValB, isNoneB_M])
  | _ => exact absurd hk (by simp [keepValB, isNoneB_M])

theorem philSet_multi_last_disabled (acc : List (Str × PVal)) (nm : Str) (opt o' : AttrVal) (pre : List PVal)
    (h : fieldGet acc nm = none) :
    philSet (acc ++ [(nm, .multi o' pre)]) nm opt true .disabled = .ok (acc ++ [(nm, .multi o' pre)]) := by
  unfold philSet
  simp only [Bool.not_true, Bool.false_eq_true, if_false, fieldGet_append_last acc nm _ h]

/-- the values the instances of one `.multiple` block contribute, in order: placeholders
    (`is_template < 0`), templates (`is_template > 0`) and disabled instances contribute nothing, a
    live instance its value unless `__phil_set__` drops it; the first failing live instance decides
    the error -/
def blockVals (X : Obj → R PVal) (opt : AttrVal) : List Obj → R (List PVal)
  | [] => .ok []
  | w :: ws =>
    if w.meta.tmpl < 0 then blockVals X opt ws
    else if w.meta.disabled || w.meta.tmpl > 0 then blockVals X opt ws
    else
      match X w with
      | .error err => .error err
      | .ok y => (blockVals X opt ws).map (fun r => if keepValB opt y then y :: r else r)

/-- the block creates the attribute: some member is not a placeholder -/
def blockCreates (ws : List Obj) : Bool := ws.any (fun w => !decide (w.meta.tmpl < 0))

/-- all members of a `.multiple` block bear the block's name and `.optional`, and are `.multiple` -/
def MultiBlockOK (nm : Str) (opt : AttrVal) (ws : List Obj) : Prop :=
  ∀ w ∈ ws, w.name = nm ∧ w.attr "optional" = opt ∧ isMultiple w = true

/-- extraction of the rest of a block once the list exists -/
theorem xfold_block_more (X : Obj → R PVal) (nm : Str) (opt : AttrVal) (acc : List (Str × PVal))
    (hacc : fieldGet acc nm = none) :
    ∀ (ws : List Obj) (pre : List PVal), MultiBlockOK nm opt ws →
      ws.foldlM (xstep_xt X) (acc ++ [(nm, .multi opt pre)]) =
        (blockVals X opt ws).map (fun ys => acc ++ [(nm, .multi opt (pre ++ ys))]) := by
  intro ws
  induction ws with
  | nil => intro pre _; simp [blockVals, Except.map, pure, Except.pure]
  | cons w ws ih =>
    intro pre hok
    have hw := hok w List.mem_cons_self
    have hrest : MultiBlockOK nm opt ws := fun w' hw' => hok w' (List.mem_cons_of_mem _ hw')
    rw [List.foldlM_cons, blockVals]
    unfold xstep_xt
    by_cases ht : w.meta.tmpl < 0
    · simp only [ht, if_true]
      exact ih pre hrest
    · simp only [ht, if_false]
      rw [hw.1, hw.2.1, hw.2.2]
      by_cases hdis : (w.meta.disabled || decide (w.meta.tmpl > 0)) = true
      · simp only [hdis, if_true]
        rw [philSet_multi_last_disabled acc nm opt opt pre hacc]
        exact ih pre hrest
      · simp only [hdis, Bool.false_eq_true, if_false]
        cases hX : X w with
        | error err => rfl
        | ok y =>
          simp only [Except.map]
          cases hk : keepValB opt y with
          | true =>
            rw [philSet_multi_last acc nm opt opt pre y hacc (keepValB_true opt y hk)]
            show ws.foldlM (xstep_xt X) _ = _
            rw [ih (pre ++ [y]) hrest]
            cases blockVals X opt ws <;> simp [Except.map]
          | false =>
            rw [philSet_multi_last_drop acc nm opt opt pre y hacc hk]
            show ws.foldlM (xstep_xt X) _ = _
            rw [ih pre hrest]
            cases blockVals X opt ws <;> simp [Except.map]

/-- **extraction of one `.multiple` block** met with the attribute not yet set: the
    `scope_extract_list` of the kept values of its live instances, in order, tagged with the block's
    `.optional`; no attribute at all if the block consists of placeholders only -/
theorem xfold_block_fresh (X : Obj → R PVal) (nm : Str) (opt : AttrVal) :
    ∀ (ws : List Obj) (acc : List (Str × PVal)), fieldGet acc nm = none → MultiBlockOK nm opt ws →
      ws.foldlM (xstep_xt X) acc =
        (blockVals X opt ws).map (fun ys =>
          if blockCreates ws then acc ++ [(nm, .multi opt ys)] else acc) := by
  intro ws
  induction ws with
  | nil => intro acc _ _; simp [blockVals, blockCreates, Except.map, pure, Except.pure]
  | cons w ws ih =>
    intro acc hacc hok
    have hw := hok w List.mem_cons_self
    have hrest : MultiBlockOK nm opt ws := fun w' hw' => hok w' (List.mem_cons_of_mem _ hw')
    rw [List.foldlM_cons, blockVals]
    by_cases ht : w.meta.tmpl < 0
    · have hstep : xstep_xt X acc w = .ok acc := by unfold xstep_xt; simp only [ht, if_true]
      rw [hstep]
      simp only [ht, if_true]
      show ws.foldlM (xstep_xt X) acc = _
      rw [ih acc hacc hrest]
      have : blockCreates (w :: ws) = blockCreates ws := by
        unfold blockCreates; rw [List.any_cons]; simp [ht]
      rw [this]
    · have hcr : blockCreates (w :: ws) = true := by
        unfold blockCreates; rw [List.any_cons]; simp [ht]
      simp only [ht, if_false, hcr, if_true]
      unfold xstep_xt
      simp only [ht, if_false]
      rw [hw.1, hw.2.1, hw.2.2]
      by_cases hdis : (w.meta.disabled || decide (w.meta.tmpl > 0)) = true
      · simp only [hdis, if_true]
        rw [philSet_multi_fresh_disabled acc nm opt hacc]
        show ws.foldlM (xstep_xt X) _ = _
        rw [xfold_block_more X nm opt acc hacc ws [] hrest]
        simp
      · simp only [hdis, Bool.false_eq_true, if_false]
        cases hX : X w with
        | error err => rfl
        | ok y =>
          simp only [Except.map]
          cases hk : keepValB opt y with
          | true =>
            rw [philSet_multi_fresh acc nm opt y hacc (keepValB_true opt y hk)]
            show ws.foldlM (xstep_xt X) _ = _
            rw [xfold_block_more X nm opt acc hacc ws [y] hrest]
            cases blockVals X opt ws <;> simp [Except.map]
          | false =>
            rw [philSet_multi_fresh_drop acc nm opt y hacc hk]
            show ws.foldlM (xstep_xt X) _ = _
            rw [xfold_block_more X nm opt acc hacc ws [] hrest]
            cases blockVals X opt ws <;> simp [Except.map]

/-- a block of children of a scope: the instances and templates of ONE `.multiple` object, or one
    non-multiple object -/
inductive KidBlock
  | multi (nm : Str) (opt : AttrVal) (ws : List Obj)
  | single (w : Obj)

def KidBlock.objs : KidBlock → List Obj
  | .multi _ _ ws => ws
  | .single w => [w]
def KidBlock.name : KidBlock → Str
  | .multi nm _ _ => nm
  | .single w => w.name
def KidBlock.OK : KidBlock → Prop
  | .multi nm opt ws => MultiBlockOK nm opt ws
  | .single w => isMultiple w = false

/-- the attribute (none or one) a block contributes to the `scope_extract` -/
def blockFields (X : Obj → R PVal) : KidBlock → R (List (Str × PVal))
  | .multi nm opt ws =>
    (blockVals X opt ws).map (fun ys => if blockCreates ws then [(nm, .multi opt ys)] else [])
  | .single w =>
    if w.meta.tmpl < 0 then .ok []
    else if w.meta.disabled || w.meta.tmpl > 0 then .ok [(w.name, .none)]
    else (X w).map (fun v => [(w.name, v)])

/-- the attributes of the `scope_extract`, block by block; the first failing block decides the error -/
def scopeFieldsB (X : Obj → R PVal) : List KidBlock → R (List (Str × PVal))
  | [] => .ok []
  | b :: bs =>
    match blockFields X b with
    | .error err => .error err
    | .ok f => (scopeFieldsB X bs).map (fun r => f ++ r)

theorem blockFields_keys (X : Obj → R PVal) (b : KidBlock) (f : List (Str × PVal))
    (h : blockFields X b = .ok f) : ∀ p ∈ f, p.1 = b.name := by
  cases b with
  | multi nm opt ws =>
    simp only [blockFields] at h
    cases hv : blockVals X opt ws with
    | error err => rw [hv] at h; cases h
    | ok ys =>
      rw [hv] at h
      simp only [Except.map, Except.ok.injEq] at h
      subst h
      intro p hp
      split at hp
      · rw [List.mem_singleton] at hp; subst hp; rfl
      · cases hp
  | single w =>
    simp only [blockFields] at h
    split at h
    · cases h; intro p hp; cases hp
    · split at h
      · cases h; intro p hp; rw [List.mem_singleton] at hp; subst hp; rfl
      · cases hx : X w with
        | error err => rw [hx] at h; cases h
        | ok v =>
          rw [hx] at h
          simp only [Except.map, Except.ok.injEq] at h
          subst h
          intro p hp; rw [List.mem_singleton] at hp; subst hp; rfl

/-- one block, met with its attribute not yet set -/
theorem xfold_one_block (X : Obj → R PVal) (b : KidBlock) (hb : b.OK) (acc : List (Str × PVal))
    (hacc : fieldGet acc b.name = none) :
    b.objs.foldlM (xstep_xt X) acc = (blockFields X b).map (fun f => acc ++ f) := by
  cases b with
  | multi nm opt ws =>
    simp only [KidBlock.objs, blockFields]
    rw [xfold_block_fresh X nm opt ws acc hacc hb]
    cases blockVals X opt ws with
    | error err => rfl
    | ok ys =>
      simp only [Except.map]
      cases blockCreates ws <;> simp
  | single w =>
    have hm : isMultiple w = false := hb
    simp only [KidBlock.objs, blockFields, List.foldlM_cons, List.foldlM_nil, bind_pure]
    unfold xstep_xt
    by_cases ht : w.meta.tmpl < 0
    · simp [ht, Except.map]
    · simp only [ht, if_false]
      rw [hm]
      by_cases hdis : (w.meta.disabled || decide (w.meta.tmpl > 0)) = true
      · simp only [hdis, if_true]
        rw [philSet_fresh_ns acc w.name _ _ hacc, fieldSet_fresh_ns acc w.name _ hacc]
        rfl
      · simp only [hdis, Bool.false_eq_true, if_false]
        cases hx : X w with
        | error err => rfl
        | ok v =>
          simp only [Except.map]
          rw [philSet_fresh_ns acc w.name _ _ hacc, fieldSet_fresh_ns acc w.name _ hacc]

/-- **`scope.extract` over blocks** — closed form of the `__phil_set__` accumulation: when the
    children of a scope are the concatenation of blocks with pairwise distinct names (the shape of
    every formatted tree and of every fetch result), the extracted attributes are the blocks'
    attributes, in order. -/
theorem xfold_blocks (X : Obj → R PVal) : ∀ (bs : List KidBlock) (acc : List (Str × PVal)),
    (∀ b ∈ bs, b.OK) → (bs.map KidBlock.name).Pairwise (· ≠ ·) →
    (∀ b ∈ bs, fieldGet acc b.name = none) →
    (bs.flatMap KidBlock.objs).foldlM (xstep_xt X) acc = (scopeFieldsB X bs).map (fun r => acc ++ r) := by
  intro bs
  induction bs with
  | nil => intro acc _ _ _; simp [scopeFieldsB, Except.map, pure, Except.pure]
  | cons b bs ih =>
    intro acc hok hpw hacc
    rw [List.map_cons, List.pairwise_cons] at hpw
    rw [List.flatMap_cons, List.foldlM_append, scopeFieldsB,
      xfold_one_block X b (hok b List.mem_cons_self) acc (hacc b List.mem_cons_self)]
    cases hf : blockFields X b with
    | error err => rfl
    | ok f =>
      simp only [Except.map]
      show (bs.flatMap KidBlock.objs).foldlM (xstep_xt X) (acc ++ f) = _
      have hkeys := blockFields_keys X b f hf
      rw [ih (acc ++ f) (fun b' hb' => hok b' (List.mem_cons_of_mem _ hb')) hpw.2 (by
        intro b' hb'
        rw [fieldGet_none_iff_ns]
        intro p hp
        rw [List.mem_append] at hp
        rcases hp with hp | hp
        · exact (fieldGet_none_iff_ns acc b'.name).1 (hacc b' (List.mem_cons_of_mem _ hb')) p hp
        · rw [hkeys p hp]; exact hpw.1 b'.name (List.mem_map_of_mem hb'))]
      cases scopeFieldsB X bs <;> simp [Except.map]

/-- the same for `extractObj` on a scope -/
theorem extractObj_blocks (e : Envs) (fuel : Nat) (m : Meta) (bs : List KidBlock)
    (hok : ∀ b ∈ bs, b.OK) (hpw : (bs.map KidBlock.name).Pairwise (· ≠ ·)) :
    extractObj e (fuel + 1) (.scope m (bs.flatMap KidBlock.objs)) =
      (scopeFieldsB (extractObj e fuel) bs).map PVal.record := by
  rw [extractObj_scope_xt, xfold_blocks (extractObj e fuel) bs [] hok hpw (fun _ _ => rfl)]
  cases scopeFieldsB (extractObj e fuel) bs <;> simp [Except.map]

/-- the children of a scope cut into blocks: adjacent `.multiple` children of the same name and
    `.optional` form one block, every other child is a block of its own -/
def blocksOf : List Obj → List KidBlock
  | [] => []
  | w :: ws =>
    if isMultiple w then
      match blocksOf ws with
      | .multi nm opt ws' :: rest =>
        if nm == w.name && opt == w.attr "optional" then .multi nm opt (w :: ws') :: rest
        else .multi w.name (w.attr "optional") [w] :: .multi nm opt ws' :: rest
      | rest => .multi w.name (w.attr "optional") [w] :: rest
    else .single w :: blocksOf ws

theorem multiBlockOK_single (w : Obj) (hm : isMultiple w = true) :
    MultiBlockOK w.name (w.attr "optional") [w] := by
  intro w' hw'
  rw [List.mem_singleton] at hw'
  subst hw'
  exact ⟨rfl, rfl, hm⟩

theorem blocksOf_spec : ∀ (kids : List Obj),
    (blocksOf kids).flatMap KidBlock.objs = kids ∧ ∀ b ∈ blocksOf kids, b.OK
  | [] => ⟨rfl, fun b hb => by cases hb⟩
  | w :: ws => by
    obtain ⟨ih1, ih2⟩ := blocksOf_spec ws
    rw [blocksOf]
    cases hm : isMultiple w with
    | false =>
      simp only [Bool.false_eq_true, if_false]
      refine ⟨by rw [List.flatMap_cons, ih1]; rfl, ?_⟩
      intro b hb
      rw [List.mem_cons] at hb
      rcases hb with rfl | hb
      · exact hm
      · exact ih2 b hb
    | true =>
      simp only [if_true]
      cases hb : blocksOf ws with
      | nil =>
        rw [hb] at ih1
        refine ⟨by simp only [List.flatMap_cons, List.flatMap_nil, KidBlock.objs] at ih1 ⊢; rw [← ih1]; rfl, ?_⟩
        intro b hb'
        rw [List.mem_singleton] at hb'
        subst hb'
        exact multiBlockOK_single w hm
      | cons b0 rest =>
        rw [hb] at ih1 ih2
        cases b0 with
        | single w0 =>
          simp only
          refine ⟨by rw [List.flatMap_cons, ih1]; rfl, ?_⟩
          intro b hb'
          rw [List.mem_cons] at hb'
          rcases hb' with rfl | hb'
          · exact multiBlockOK_single w hm
          · exact ih2 b hb'
        | multi nm opt ws' =>
          simp only
          by_cases hc : (nm == w.name && opt == w.attr "optional") = true
          · simp only [hc, if_true]
            simp only [Bool.and_eq_true, beq_iff_eq] at hc
            refine ⟨by
              rw [List.flatMap_cons] at ih1 ⊢
              simp only [KidBlock.objs] at ih1 ⊢
              rw [List.cons_append, ih1], ?_⟩
            intro b hb'
            rw [List.mem_cons] at hb'
            rcases hb' with rfl | hb'
            · intro w' hw'
              rw [List.mem_cons] at hw'
              rcases hw' with rfl | hw'
              · exact ⟨hc.1.symm, hc.2.symm, hm⟩
              · exact ih2 (.multi nm opt ws') List.mem_cons_self w' hw'
            · exact ih2 b (List.mem_cons_of_mem _ hb')
          · simp only [hc, Bool.false_eq_true, if_false]
            refine ⟨by rw [List.flatMap_cons, ih1]; rfl, ?_⟩
            intro b hb'
            rw [List.mem_cons] at hb'
            rcases hb' with rfl | hb'
            · exact multiBlockOK_single w hm
            · exact ih2 b hb'

/-- **closed form of `scope.extract` for one scope with `.multiple` children** — no hypothesis on the
    objects: whenever the blocks of the children (adjacent same-named `.multiple` children, or single
    children) have pairwise distinct names, the `scope_extract` holds exactly the blocks' attributes,
    in order: a `scope_extract_list` of the kept values of the live instances per `.multiple` block,
    the value (or `None` for a disabled object / template) per other child. -/
theorem extractObj_scope_closed_M (e : Envs) (fuel : Nat) (m : Meta) (kids : List Obj)
    (hpw : ((blocksOf kids).map KidBlock.name).Pairwise (· ≠ ·)) :
    extractObj e (fuel + 1) (.scope m kids) =
      (scopeFieldsB (extractObj e fuel) (blocksOf kids)).map PVal.record := by
  have h := extractObj_blocks e fuel m (blocksOf kids) (blocksOf_spec kids).2 hpw
  rw [(blocksOf_spec kids).1] at h
  exact h

end Phil
