/-
  Lemmas behind the print → parse round trip WITH attributes (C01 at attributes levels 1, 2, 3; the
  C19 clause "raising the attributes level only adds information").

  Part 1: attribute kinds, the words the printer writes for an attribute value and what
          `assign_attribute` makes of them.
  Part 2: the printed text of the attribute block (`show_attributes`) in closed form.
  Part 3: `collect_objects` on attribute lines (after a definition, between a scope name and `{`).
  Part 4: the tree: text, class, step lemmas, the whole document.
  All new names end in `_art` or are new definitions.
-/
import Phil.Proofs.ExpertRoundTrip
import Phil.Proofs.RoundTrip
set_option linter.unusedSimpArgs false
set_option linter.unusedVariables false
namespace Phil

/-! ## Part 1: kinds of attributes and their values -/

/-- how `assign_attribute` converts the words of an attribute -/
inductive AKind | bool | int | type | str | call | seqfmt
  deriving DecidableEq, Repr

/-- definition.assign_attribute: which converter is used for which name -/
def defKind (n : String) : AKind :=
  if n == "optional" || n == "multiple" || n == "deprecated" then .bool
  else if n == "type" then .type
  else if n == "input_size" || n == "expert_level" then .int
  else .str

/-- scope.assign_attribute: which converter is used for which name -/
def scopeKind (n : String) : AKind :=
  if n == "optional" || n == "multiple" || n == "disable_add" || n == "disable_delete" then .bool
  else if n == "expert_level" then .int
  else if n == "call" then .call
  else if n == "sequential_format" then .seqfmt
  else .str

/-- the conversion by kind (the bodies of `defAttrValue` / `scopeAttrValue`) -/
def kindValue : AKind → List Word → R AttrVal
  | .bool, ws => boolFromWords ws
  | .int, ws => intFromWordsLit ws
  | .type, ws =>
    if isPlainNone ws then .ok .none
    else if isPlainAuto ws then .ok .auto
    else match strFromWords ws with
      | .str s => (convFromExpr (strip s) (firstLine ws)).map AttrVal.conv
      | v => .ok v
  | .str, ws => .ok (strFromWords ws)
  | .call, ws =>
    if isPlainNone ws then .ok .none
    else if isPlainAuto ws then .ok .auto
    else .error (.unsupported ".call import")
  | .seqfmt, ws =>
    match strFromWords ws with
    | .none => .ok .none
    | _ => .error (.unsupported ".sequential_format % 0")

theorem defAttrValue_kind_art (n : String) (ws : List Word) :
    defAttrValue n ws = kindValue (defKind n) ws := by
  unfold defAttrValue defKind
  split
  · rfl
  · split
    · rfl
    · split <;> rfl

theorem scopeAttrValue_kind_art (n : String) (ws : List Word) :
    scopeAttrValue n ws = kindValue (scopeKind n) ws := by
  unfold scopeAttrValue scopeKind
  split
  · rfl
  · split
    · rfl
    · split
      · rfl
      · split <;> rfl

/-- the attribute names of a definition (`true`) or a scope (`false`) -/
def attrNamesOf (isDef : Bool) : List String := if isDef then defAttrNames else scopeAttrNames
def kindOf (isDef : Bool) (n : String) : AKind := if isDef then defKind n else scopeKind n
def attrValueOf (isDef : Bool) (n : String) (ws : List Word) : R AttrVal :=
  if isDef then defAttrValue n ws else scopeAttrValue n ws

theorem attrValueOf_kind_art (isDef : Bool) (n : String) (ws : List Word) :
    attrValueOf isDef n ws = kindValue (kindOf isDef n) ws := by
  cases isDef
  · exact scopeAttrValue_kind_art n ws
  · exact defAttrValue_kind_art n ws

/-! ### text that is read back as plain words -/

/-- a character that may stand anywhere in an unquoted value word -/
def safeChar (c : Char) : Bool :=
  !endsUnquoted valueSettings c && !isQuoteChar c && c != '\\' && c != '#'

/-- a text made of non-empty runs of safe characters separated by single blanks: what the value
    collector reads back as the unquoted words `splitOn ' ' s` -/
def safeText (s : Str) : Bool := (splitOn ' ' s).all (fun p => !p.isEmpty && p.all safeChar)

def plainW (s : Str) : Word := { value := s }

theorem plainWord_of_safe_art {p : Str} (hne : p.isEmpty = false) (h : p.all safeChar = true) :
    plainWord p = true := by
  cases p with
  | nil => simp at hne
  | cons c t =>
    have hc : safeChar c = true := by
      simp only [List.all_cons, Bool.and_eq_true] at h; exact h.1
    simp only [safeChar, Bool.and_eq_true, Bool.not_eq_true', bne_iff_ne, ne_eq] at hc
    obtain ⟨⟨⟨h1, h2⟩, h3⟩, h4⟩ := hc
    simp only [plainWord, List.isEmpty_cons, Bool.not_false, Bool.true_and, List.head?_cons,
      Option.any_some, Bool.and_eq_true, Bool.not_eq_true', bne_iff_ne, ne_eq, List.cons.injEq,
      not_and, List.all_eq_true]
    refine ⟨⟨⟨?_, h2⟩, fun e => absurd e h3⟩, fun e => absurd e h4⟩
    intro d hd
    have := (List.all_eq_true.mp h) d hd
    simp only [safeChar, Bool.and_eq_true, Bool.not_eq_true'] at this
    exact this.1.1.1

theorem joinWith_splitOn_art (sep : Char) (s : Str) : joinWith [sep] (splitOn sep s) = s := by
  induction s with
  | nil => rfl
  | cons c cs ih =>
    rw [splitOn]
    cases h : splitOn sep cs with
    | nil => exact absurd h (splitOn_ne_nil sep cs)
    | cons p ps =>
      rw [h] at ih
      simp only []
      by_cases hc : c = sep
      · subst hc
        simp only [beq_self_eq_true, ↓reduceIte]
        show [] ++ [c] ++ joinWith [c] (p :: ps) = _
        rw [ih]; rfl
      · have : (c == sep) = false := by simpa using hc
        simp only [this, Bool.false_eq_true, ↓reduceIte]
        cases ps with
        | nil =>
          simp only [joinWith] at ih ⊢
          rw [ih]
        | cons q qs =>
          simp only [joinWith, List.cons_append] at ih ⊢
          rw [ih]

/-- the printed words: a blank before each -/
theorem wordsText_plainW_art (ps : List Str) (hne : ps ≠ []) :
    wordsText (ps.map plainW) = ' ' :: joinWith [' '] ps := by
  induction ps with
  | nil => exact absurd rfl hne
  | cons p ps ih =>
    cases ps with
    | nil => simp [wordsText, plainW, Word.str, joinWith]
    | cons q qs =>
      have := ih (by simp)
      simp only [List.map_cons, wordsText] at this ⊢
      rw [this]
      simp [plainW, Word.str, joinWith]

theorem chainOK_plain_art (ws : List Word) (h : ∀ w ∈ ws, nlCount w.value = 0) :
    chainOK true ws = true :=
  chainOK_noNl true ws (Or.inl rfl) h

/-- the words of a safe text -/
def safeWords (s : Str) : List Word := (splitOn ' ' s).map plainW

theorem safeWords_facts_art (s : Str) (h : safeText s = true) :
    safeWords s ≠ [] ∧ wordsText (safeWords s) = ' ' :: s ∧
    (∀ w ∈ safeWords s, goodWord w = true) ∧ (∀ w ∈ safeWords s, nlCount w.value = 0) ∧
    (∀ w ∈ safeWords s, w.quote = none) ∧
    (safeWords s).map (·.value) = splitOn ' ' s := by
  have hne : splitOn ' ' s ≠ [] := splitOn_ne_nil ' ' s
  have hpw : ∀ w ∈ safeWords s, plainWord w.value = true ∧ w.quote = none := by
    intro w hw
    obtain ⟨p, hp, rfl⟩ := List.mem_map.mp hw
    have := (List.all_eq_true.mp h) p hp
    simp only [Bool.and_eq_true, Bool.not_eq_true'] at this
    exact ⟨plainWord_of_safe_art this.1 this.2, rfl⟩
  refine ⟨by simpa [safeWords] using hne, ?_, ?_, ?_, fun w hw => (hpw w hw).2, ?_⟩
  · rw [safeWords, wordsText_plainW_art _ hne, joinWith_splitOn_art]
  · intro w hw
    simp [goodWord, (hpw w hw).1]
  · intro w hw
    exact plainWord_nlCount (hpw w hw).1
  · simp [safeWords, plainW, List.map_map, Function.comp_def]

/-- `reline` of words without newlines -/
def atLine (l : Nat) (ws : List Word) : List Word := ws.map (fun w => { w with line := some l })

theorem atLine_values_art (l : Nat) (ws : List Word) : (atLine l ws).map (·.value) = ws.map (·.value) := by
  simp [atLine, List.map_map, Function.comp_def]

/-! ### the value of words by kind -/

theorem isPlainNone_atLine_art (l : Nat) (ws : List Word) : isPlainNone (atLine l ws) = isPlainNone ws := by
  cases ws with
  | nil => rfl
  | cons w ws => cases ws <;> simp [atLine, isPlainNone]

theorem isPlainAuto_atLine_art (l : Nat) (ws : List Word) : isPlainAuto (atLine l ws) = isPlainAuto ws := by
  cases ws with
  | nil => rfl
  | cons w ws => cases ws <;> simp [atLine, isPlainAuto]

theorem strFromWords_atLine_art (l : Nat) (ws : List Word) :
    strFromWords (atLine l ws) = strFromWords ws := by
  simp only [strFromWords, isPlainNone_atLine_art, isPlainAuto_atLine_art, atLine_values_art]

theorem firstLine_atLine_art (l : Nat) (ws : List Word) (hne : ws ≠ []) :
    firstLine (atLine l ws) = some l := by
  cases ws with
  | nil => exact absurd rfl hne
  | cons w ws => rfl


theorem safeChar_of_idCont_art {c : Char} (h : isIdCont c = true) : safeChar c = true := by
  obtain ⟨h1, h2, _, h4, h5, h6, h7, h8, _⟩ := idCont_facts h
  simp [safeChar, endsUnquoted, valueSettings, Gen.valueSingle, idCont_not_space h, h1, h2, h4, h5,
    isQuoteChar, h6, h7, h8]

theorem safeChar_of_intChar_art {c : Char} (h : IntChar c) : safeChar c = true := by
  have ht := intChar_toNat c h
  have hs := (intChar_good c h).1
  have n1 : c ≠ '{' := by apply char_ne_of_toNat; simp; omega
  have n2 : c ≠ '}' := by apply char_ne_of_toNat; simp; omega
  have n3 : c ≠ ';' := by apply char_ne_of_toNat; simp; omega
  have n4 : c ≠ '#' := by apply char_ne_of_toNat; simp; omega
  have n5 : c ≠ '"' := by apply char_ne_of_toNat; simp; omega
  have n6 : c ≠ '\'' := by apply char_ne_of_toNat; simp; omega
  have n7 : c ≠ '\\' := by apply char_ne_of_toNat; simp; omega
  simp [safeChar, endsUnquoted, valueSettings, Gen.valueSingle, hs, n1, n2, n3, n4, isQuoteChar, n5, n6, n7]

/-- a text of safe characters without a blank is one safe word -/
theorem safeText_of_chars_art (s : Str) (hne : s ≠ []) (h : ∀ c ∈ s, safeChar c = true) :
    safeText s = true ∧ splitOn ' ' s = [s] := by
  have hb : ' ' ∉ s := by
    intro hm
    have := h ' ' hm
    simp [safeChar, endsUnquoted, isSpace] at this
  have hs := splitOn_of_not_mem ' ' s hb
  refine ⟨?_, hs⟩
  simp only [safeText, hs, List.all_cons, List.all_nil, Bool.and_true, Bool.and_eq_true,
    Bool.not_eq_true', List.all_eq_true]
  exact ⟨by cases s <;> simp_all, h⟩

theorem stdIdent_chars_art {s : Str} (h : isStdIdent s = true) : s ≠ [] ∧ ∀ c ∈ s, isIdCont c = true := by
  cases s with
  | nil => simp [isStdIdent] at h
  | cons c w =>
    simp only [isStdIdent, Bool.and_eq_true, List.all_eq_true] at h
    refine ⟨by simp, ?_⟩
    intro d hd
    rcases List.mem_cons.mp hd with rfl | hd
    · exact idStart_cont h.1.1
    · exact h.1.2 d hd

/-- the words printed for an attribute value that is not a string -/
def valueWords : AttrVal → List Word
  | .none => [plainW "None".toList]
  | .auto => [plainW "Auto".toList]
  | .bool b => [plainW (if b then "True".toList else "False".toList)]
  | .int i => [plainW (intStr i)]
  | .conv c => safeWords c.render
  | .str _ => []

/-- the `.type` values inside the round trip: the printable converters (Phil/Proofs/RoundTrip.lean)
    whose rendering is read back word by word (`safeText`; true of every rendering — the condition
    is kept in decidable form) -/
def typeTextOK (c : Conv) : Bool :=
  Printable c && safeText c.render && strip c.render == c.render &&
    lower c.render != "none".toList && lower c.render != "auto".toList

/-- the attribute values `assign_attribute` can produce for a kind (strings: see `strOK`) -/
def kindOK : AKind → AttrVal → Bool
  | _, .none => true
  | .seqfmt, _ => false
  | _, .auto => true
  | .bool, .bool _ => true
  | .int, .int _ => true
  | .type, .conv c => typeTextOK c
  | _, _ => false

theorem valueWords_text_art (k : AKind) (v : AttrVal) (hs : ∀ s, v ≠ .str s) (hk : kindOK k v = true) :
    valueWords v ≠ [] ∧ wordsText (valueWords v) = ' ' :: v.pyStr ∧
    (∀ w ∈ valueWords v, goodWord w = true) ∧ (∀ w ∈ valueWords v, nlCount w.value = 0) := by
  have one : ∀ s : Str, s ≠ [] → (∀ c ∈ s, safeChar c = true) →
      [plainW s] ≠ [] ∧ wordsText [plainW s] = ' ' :: s ∧
      (∀ w ∈ [plainW s], goodWord w = true) ∧ (∀ w ∈ [plainW s], nlCount w.value = 0) := by
    intro s hne hc
    obtain ⟨h1, h2⟩ := safeText_of_chars_art s hne hc
    have := safeWords_facts_art s h1
    simp only [safeWords, h2, List.map_cons, List.map_nil] at this
    exact ⟨this.1, this.2.1, this.2.2.1, this.2.2.2.1⟩
  cases v with
  | none => exact one _ (by decide) (by decide)
  | auto => exact one _ (by decide) (by decide)
  | bool b => cases b <;> exact one _ (by decide) (by decide)
  | int i => exact one _ (intStr_ne_nil i) (fun c hc => safeChar_of_intChar_art (intStr_chars i c hc))
  | str s => exact absurd rfl (hs s)
  | conv c =>
    have hk' : typeTextOK c = true := by cases k <;> simp_all [kindOK]
    simp only [typeTextOK, Bool.and_eq_true] at hk'
    have := safeWords_facts_art c.render hk'.1.1.1.2
    exact ⟨this.1, this.2.1, this.2.2.1, this.2.2.2.1⟩

theorem strFromWords_single_plain_art (s : Str) (l : Option Nat) (q : Option Quote)
    (h1 : lower s ≠ "none".toList) (h2 : lower s ≠ "auto".toList) :
    strFromWords [⟨s, q, l⟩] = .str s := by
  have h1' : ¬ lower s = ['n', 'o', 'n', 'e'] := h1
  have h2' : ¬ lower s = ['a', 'u', 't', 'o'] := h2
  simp [strFromWords, isPlainNone, isPlainAuto, h1', h2', joinWith]

theorem strFromWords_quoted_art (s : Str) (l : Option Nat) (q : Quote) :
    strFromWords [⟨s, some q, l⟩] = .str s := by
  simp [strFromWords, isPlainNone, isPlainAuto, joinWith]

/-- **what `assign_attribute` makes of the printed words of a non-string value** -/
theorem kindValue_valueWords_art (k : AKind) (v : AttrVal) (hs : ∀ s, v ≠ .str s)
    (hk : kindOK k v = true) (l : Nat) : kindValue k (atLine l (valueWords v)) = .ok v := by
  cases v with
  | none => cases k <;> rfl
  | auto => cases k <;> first | rfl | (simp [kindOK] at hk)
  | bool b =>
    cases k <;> first | (simp [kindOK] at hk; done) | skip
    cases b <;> rfl
  | int i =>
    cases k <;> first | (simp [kindOK] at hk; done) | skip
    show intFromWordsLit [⟨intStr i, none, some l⟩] = _
    unfold intFromWordsLit
    rw [strFromWords_int_word]
    simp only [intStr_strip, intStr_lower, parseIntLit_intStr]
    have := intStr_not_special i
    unfold isSpecialNumText at this
    simp only [intStr_strip, intStr_lower] at this
    simp only [Bool.or_eq_false_iff, beq_eq_false_iff_ne, ne_eq] at this
    obtain ⟨⟨⟨t1, t2⟩, t3⟩, t4⟩ := this
    have t1' : ¬ intStr i = ['t', 'r', 'u', 'e'] := t1
    have t2' : ¬ intStr i = ['f', 'a', 'l', 's', 'e'] := t2
    have t3' : ¬ intStr i = ['n', 'o', 'n', 'e'] := t3
    have t4' : ¬ intStr i = ['a', 'u', 't', 'o'] := t4
    simp [t1', t2', t3', t4']
  | str s => exact absurd rfl (hs s)
  | conv c =>
    cases k <;> first | (simp [kindOK] at hk; done) | skip
    have hk' : typeTextOK c = true := hk
    simp only [typeTextOK, Bool.and_eq_true, bne_iff_ne, ne_eq, beq_iff_eq] at hk'
    obtain ⟨⟨⟨⟨hp, hsafe⟩, hstrip⟩, hn⟩, ha⟩ := hk'
    obtain ⟨hne, _, _, _, hq, hvals⟩ := safeWords_facts_art c.render hsafe
    have hstr : strFromWords (valueWords (.conv c)) = .str c.render := by
      show strFromWords (safeWords c.render) = _
      have hjoin : joinWith [' '] ((safeWords c.render).map (·.value)) = c.render := by
        rw [hvals, joinWith_splitOn_art]
      have hpn : isPlainNone (safeWords c.render) = false := by
        cases hw : safeWords c.render with
        | nil => rfl
        | cons w ws =>
          cases ws with
          | cons _ _ => rfl
          | nil =>
            rw [hw] at hjoin
            simp only [List.map_cons, List.map_nil, joinWith] at hjoin
            simp only [isPlainNone, hjoin, Bool.and_eq_false_iff, beq_eq_false_iff_ne]
            exact Or.inr hn
      have hpa : isPlainAuto (safeWords c.render) = false := by
        cases hw : safeWords c.render with
        | nil => rfl
        | cons w ws =>
          cases ws with
          | cons _ _ => rfl
          | nil =>
            rw [hw] at hjoin
            simp only [List.map_cons, List.map_nil, joinWith] at hjoin
            simp only [isPlainAuto, hjoin, Bool.and_eq_false_iff, beq_eq_false_iff_ne]
            exact Or.inr ha
      simp [strFromWords, hpn, hpa, hjoin]
    have hpn : isPlainNone (valueWords (.conv c)) = false := by
      unfold strFromWords at hstr
      split at hstr
      · cases hstr
      · rename_i h; simpa using h
    have hpa : isPlainAuto (valueWords (.conv c)) = false := by
      unfold strFromWords at hstr
      split at hstr
      · cases hstr
      · split at hstr
        · cases hstr
        · rename_i h; simpa using h
    simp only [kindValue, isPlainNone_atLine_art, isPlainAuto_atLine_art, strFromWords_atLine_art, hstr,
      hpn, hpa, Bool.false_eq_true, ↓reduceIte, hstrip, type_round_trip c _ hp]
    rfl


/-! ## Part 2: the printed text of one attribute, and how it is read back -/

/-- `show_attributes` puts a string value in double quotes unless it is an identifier other than
    none / auto that fits on the line -/
def strNeedQuote (pre : Str) (width : Int) (name : String) (s : Str) : Bool :=
  !isStdIdent s || lower s == "none".toList || lower s == "auto".toList ||
    !attrFits (attrIndent pre name) width s

/-- the string value as printed when it stays on one line -/
def strPrinted (pre : Str) (width : Int) (name : String) (s : Str) : Str :=
  if strNeedQuote pre width name s then quoteStr .d1 s else s

/-- the word the parser reads back from `strPrinted` -/
def strWord (pre : Str) (width : Int) (name : String) (s : Str) : Word :=
  if strNeedQuote pre width name s then { value := s, quote := some .d1 } else { value := s }

/-- the printed string value fits on the line of the attribute name (no wrapping) -/
def strOneLine (pre : Str) (width : Int) (name : String) (s : Str) : Bool :=
  attrFits (attrIndent pre name) width (strPrinted pre width name s)

/-- the lines of a wrapped value: the first block after `.name =`, the others on lines of their own,
    indented to the column of the first -/
def wrapT (indent : Str) : List Str → Str
  | [] => []
  | b :: bs => ' ' :: '"' :: b ++ ['"'] ++ bs.flatMap (fun b => '\n' :: indent ++ '"' :: b ++ ['"'])

/-- the wrap width `show_attributes` passes to `textwrap.wrap` -/
def wrapWidth (pre : Str) (width : Int) (name : String) : Int := width - 2 - (attrIndent pre name).length

/-- the text printed after `.name =` up to (not including) the final newline -/
def attrTail (pre : Str) (width : Int) (name : String) : AttrVal → Str
  | .str s =>
    if strOneLine pre width name s then ' ' :: strPrinted pre width name s
    else wrapT (attrIndent pre name) (twWrap (escape '"' s) (wrapWidth pre width name).toNat)
  | v => ' ' :: v.pyStr

/-- the printed line(s) of one attribute, final newline included -/
def attrLineText (pre : Str) (width : Int) (name : String) (v : AttrVal) : Str :=
  pre ++ "  .".toList ++ name.toList ++ " =".toList ++ attrTail pre width name v ++ ['\n']

/-- `T` (the text after `.name =`, followed by a newline) is read by `collect_assigned_words` as words
    from which `f` makes the value `v`; the newline is left -/
def ReadsAs (T : Str) (f : List Word → R AttrVal) (v : AttrVal) : Prop :=
  ∀ (rest : Str) (l : Nat) (lead : Word), lead.line = some l → isUnq lead "\\" = false → NextOK rest →
    ∃ ws l', collectAssigned ⟨T ++ '\n' :: rest, l⟩ lead = .ok (ws, ⟨'\n' :: rest, l'⟩) ∧ f ws = .ok v

theorem attrHead_split_art (pre : Str) (name : String) (X : Str) :
    attrHead pre name ++ X = pre ++ "  .".toList ++ name.toList ++ " =".toList ++ (' ' :: X) := by
  simp [attrHead]

/-- words without newlines are read back on the line of the attribute name -/
theorem readsAs_words_art (ws : List Word) (f : List Word → R AttrVal) (v : AttrVal)
    (hne : ws ≠ []) (hgood : ∀ w ∈ ws, goodWord w = true) (hnl : ∀ w ∈ ws, nlCount w.value = 0)
    (hf : ∀ l, f (atLine l ws) = .ok v) : ReadsAs (wordsText ws) f v := by
  intro rest l lead hl hbs hnext
  refine ⟨reline l ws, endLine l ws, ?_, ?_⟩
  · exact collectAssigned_words ws rest l lead hne hgood (chainOK_plain_art ws hnl) hl hbs hnext
  · rw [reline_noNl l ws hnl]; exact hf l

/-- the non-string values -/
theorem attr_line_value_art (isDef : Bool) (pre : Str) (width : Int) (n : String) (v : AttrVal)
    (hs : ∀ s, v ≠ .str s) (hk : kindOK (kindOf isDef n) v = true) :
    attrLines pre width n v = .ok [attrHead pre n ++ v.pyStr] ∧
    unlines [attrHead pre n ++ v.pyStr] = attrLineText pre width n v ∧
    ReadsAs (attrTail pre width n v) (attrValueOf isDef n) v := by
  obtain ⟨h1, h2, h3, h4⟩ := valueWords_text_art _ v hs hk
  have htail : attrTail pre width n v = ' ' :: v.pyStr := by
    cases v <;> first | rfl | exact absurd rfl (hs _)
  refine ⟨?_, ?_, ?_⟩
  · cases v <;> first | rfl | exact absurd rfl (hs _)
  · rw [attrLineText, htail]
    simp [unlines, attrHead]
  · rw [htail, ← h2]
    refine readsAs_words_art _ _ v h1 h3 h4 (fun l => ?_)
    rw [attrValueOf_kind_art]
    exact kindValue_valueWords_art _ v hs hk l

theorem lower_ne_of_beq_art {a b : Str} (h : (a == b) = false) : a ≠ b := by
  intro e; subst e; simp at h

/-- a string value that stays on one line -/
theorem attr_line_str_art (isDef : Bool) (pre : Str) (width : Int) (n : String) (s : Str)
    (hk : kindOf isDef n = .str) (hfit : strOneLine pre width n s = true) :
    attrLines pre width n (.str s) = .ok [attrHead pre n ++ strPrinted pre width n s] ∧
    unlines [attrHead pre n ++ strPrinted pre width n s] = attrLineText pre width n (.str s) ∧
    ReadsAs (attrTail pre width n (.str s)) (attrValueOf isDef n) (.str s) := by
  have htail : attrTail pre width n (.str s) = ' ' :: strPrinted pre width n s := by
    simp only [attrTail, hfit, ↓reduceIte]
  refine ⟨?_, ?_, ?_⟩
  · have hfit' := hfit
    unfold strOneLine strPrinted strNeedQuote at hfit'
    simp only [attrLines]
    rw [if_pos hfit']
    rfl
  · rw [attrLineText, htail]
    simp [unlines, attrHead]
  · rw [htail]
    have hval : ∀ ws, attrValueOf isDef n ws = .ok (strFromWords ws) := by
      intro ws; rw [attrValueOf_kind_art, hk]; rfl
    by_cases hq : strNeedQuote pre width n s = true
    · have e : ' ' :: strPrinted pre width n s = wordsText [{ value := s, quote := some .d1 }] := by
        simp [strPrinted, hq, wordsText, Word.str]
      rw [e]
      intro rest l lead hl hbs hnext
      refine ⟨_, _, collectAssigned_words _ rest l lead (by simp) (by simp [goodWord])
        (by simp [chainOK]) hl hbs hnext, ?_⟩
      rw [hval]
      simp [reline, strFromWords_quoted_art]
    · have hq' : strNeedQuote pre width n s = false := by simpa using hq
      simp only [strNeedQuote, Bool.or_eq_false_iff, Bool.not_eq_false', Bool.not_eq_eq_eq_not,
        Bool.not_true] at hq'
      obtain ⟨⟨⟨hid, hn⟩, ha⟩, _⟩ := hq'
      obtain ⟨hne, hchars⟩ := stdIdent_chars_art hid
      obtain ⟨hsafe, hsplit⟩ := safeText_of_chars_art s hne (fun c hc => safeChar_of_idCont_art (hchars c hc))
      have hw := safeWords_facts_art s hsafe
      simp only [safeWords, hsplit, List.map_cons, List.map_nil] at hw
      have e : ' ' :: strPrinted pre width n s = wordsText [plainW s] := by
        rw [hw.2.1]; simp [strPrinted, hq]
      rw [e]
      refine readsAs_words_art _ _ _ hw.1 hw.2.2.1 hw.2.2.2.1 (fun l => ?_)
      rw [hval]
      simp only [atLine, plainW, List.map_cons, List.map_nil]
      rw [strFromWords_single_plain_art s _ _ (lower_ne_of_beq_art hn) (lower_ne_of_beq_art ha)]

/-! ### `textwrap.wrap` on single-spaced text -/

/-- a word of a single-spaced text: non-empty, no `textwrap` white space -/
def twWord (w : Str) : Bool := !w.isEmpty && w.all (fun c => !isTwWs c)

/-- non-empty words without white space, separated by single blanks -/
def singleSpaced (s : Str) : Bool := (splitOn ' ' s).all twWord

/-- the chunks of a single-spaced text: the words with one-blank chunks in between -/
def altChunks : List Str → List Str
  | [] => []
  | [w] => [w]
  | w :: w2 :: ws => w :: [' '] :: altChunks (w2 :: ws)

theorem twWord_cases_art {w : Str} (h : twWord w = true) :
    ∃ c t, w = c :: t ∧ ∀ d ∈ c :: t, isTwWs d = false := by
  cases w with
  | nil => simp [twWord] at h
  | cons c t =>
    simp only [twWord, List.isEmpty_cons, Bool.not_false, Bool.true_and, List.all_eq_true,
      Bool.not_eq_true'] at h
    exact ⟨c, t, rfl, h⟩

theorem notWs_ne_blank_art {c : Char} (h : isTwWs c = false) : (c == ' ') = false := by
  cases hc : c == ' ' with
  | false => rfl
  | true =>
    have : c = ' ' := by simpa using hc
    subst this
    simp [isTwWs] at h

/-- a word in front of chunks that are empty or start with a blank chunk -/
theorem twChunks_word_art (R : List Str) (hR : R = [] ∨ ∃ ds more, R = (' ' :: ds) :: more) :
    ∀ (w : Str) (c : Char) (rest : Str), (∀ d ∈ c :: w, isTwWs d = false) → twChunks rest = R →
      twChunks (c :: w ++ rest) = (c :: w) :: R := by
  intro w
  induction w with
  | nil =>
    intro c rest hc hrest
    have hcw := hc c (by simp)
    have hcb := notWs_ne_blank_art hcw
    simp only [List.cons_append, List.nil_append, twChunks, hcw, Bool.false_eq_true, ↓reduceIte, hrest]
    rcases hR with rfl | ⟨ds, more, rfl⟩
    · rfl
    · simp [hcb]
  | cons c2 w ih =>
    intro c rest hc hrest
    have hcw := hc c (by simp)
    have hcb := notWs_ne_blank_art hcw
    have hc2b := notWs_ne_blank_art (hc c2 (by simp))
    have := ih c2 rest (fun d hd => hc d (by simp at hd ⊢; exact Or.inr hd)) hrest
    rw [List.cons_append, twChunks]
    simp only [hcw, Bool.false_eq_true, ↓reduceIte]
    have this' : twChunks (c2 :: w ++ rest) = (c2 :: w) :: R := this
    rw [this']
    simp [hcb, hc2b]

theorem twChunks_blank_art (rest : Str) (d : Char) (ds : Str) (more : List Str)
    (hd : (d == ' ') = false) (h : twChunks rest = (d :: ds) :: more) :
    twChunks (' ' :: rest) = [' '] :: (d :: ds) :: more := by
  have hb : isTwWs ' ' = true := by decide
  rw [twChunks]
  simp [hb, h, hd]

theorem altChunks_cons2_art (w w2 : Str) (ws : List Str) :
    altChunks (w :: w2 :: ws) = w :: [' '] :: altChunks (w2 :: ws) := rfl

theorem altChunks_head_art (w : Str) (ws : List Str) : ∃ more, altChunks (w :: ws) = w :: more := by
  cases ws with
  | nil => exact ⟨[], rfl⟩
  | cons w2 ws => exact ⟨_, rfl⟩

/-- **the chunks of a single-spaced text** -/
theorem twChunks_joinWith_art : ∀ (ws : List Str), (∀ w ∈ ws, twWord w = true) →
    twChunks (joinWith [' '] ws) = altChunks ws := by
  intro ws
  induction ws with
  | nil => intro _; rfl
  | cons w ws ih =>
    intro h
    obtain ⟨c, t, rfl, hct⟩ := twWord_cases_art (h w (by simp))
    cases ws with
    | nil =>
      have := twChunks_word_art [] (Or.inl rfl) t c [] hct rfl
      simpa [joinWith, altChunks] using this
    | cons w2 ws =>
      have ih' := ih (fun x hx => h x (by simp [hx]))
      obtain ⟨c2, t2, e2, hct2⟩ := twWord_cases_art (h w2 (by simp))
      obtain ⟨more, hmore⟩ := altChunks_head_art w2 ws
      rw [hmore, e2] at ih'
      have hb := twChunks_blank_art _ c2 t2 more (notWs_ne_blank_art (hct2 c2 (by simp))) ih'
      have := twChunks_word_art _ (Or.inr ⟨[], _, rfl⟩) t c _ hct hb
      rw [altChunks_cons2_art, hmore, e2]
      simpa [joinWith] using this


/-- the chunks left when a line ends after a word: a blank chunk and the remaining words -/
def restOf : List Str → List Str
  | [] => []
  | w :: ws => [' '] :: altChunks (w :: ws)

/-- the three outcomes of `twFill` on the chunks of single-spaced words -/
inductive FillShape (W : Nat) (ws : List Str) (curLen : Nat) : List Str → List Str → Prop
  | none (w : Str) (ws' : List Str) : ws = w :: ws' → ¬ (curLen + w.length ≤ W) →
      FillShape W ws curLen [] (altChunks ws)
  | word (g r : List Str) : ws = g ++ r → g ≠ [] → FillShape W ws curLen (altChunks g) (restOf r)
  | blank (g r : List Str) : ws = g ++ r → g ≠ [] → r ≠ [] →
      FillShape W ws curLen (altChunks g ++ [[' ']]) (altChunks r)

theorem altChunks_cons_ne_art (w : Str) (g : List Str) (hg : g ≠ []) :
    altChunks (w :: g) = w :: [' '] :: altChunks g := by
  cases g with
  | nil => exact absurd rfl hg
  | cons a b => rfl

theorem twFill_alt_art (W : Nat) : ∀ (ws : List Str), ws ≠ [] → ∀ (curLen : Nat) (cur : List Str),
    ∃ X Y, twFill W (altChunks ws) curLen cur = (cur.reverse ++ X, Y) ∧ FillShape W ws curLen X Y := by
  intro ws
  induction ws with
  | nil => intro h; exact absurd rfl h
  | cons w ws ih =>
    intro _ curLen cur
    by_cases hfit : curLen + w.length ≤ W
    · cases ws with
      | nil =>
        refine ⟨[w], [], ?_, ?_⟩
        · simp [altChunks, twFill, hfit]
        · exact FillShape.word [w] [] rfl (by simp)
      | cons w2 ws =>
        rw [altChunks_cons2_art]
        by_cases hb : curLen + w.length + 1 ≤ W
        · obtain ⟨X, Y, hXY, hs⟩ := ih (by simp) (curLen + w.length + 1) ([' '] :: w :: cur)
          have hstep : twFill W (w :: [' '] :: altChunks (w2 :: ws)) curLen cur
              = twFill W (altChunks (w2 :: ws)) (curLen + w.length + 1) ([' '] :: w :: cur) := by
            have hb' : curLen + w.length + [' '].length ≤ W := hb
            simp only [twFill, hfit, ↓reduceIte, hb']
            rfl
          rw [hstep, hXY]
          cases hs with
          | none w' ws' e hn =>
            refine ⟨[w, [' ']], altChunks (w2 :: ws), by simp, ?_⟩
            exact FillShape.blank [w] (w2 :: ws) rfl (by simp) (by simp)
          | word g r e hg =>
            refine ⟨altChunks (w :: g), restOf r, ?_, FillShape.word (w :: g) r (by rw [e]; rfl) (by simp)⟩
            rw [altChunks_cons_ne_art w g hg]; simp
          | blank g r e hg hr =>
            refine ⟨altChunks (w :: g) ++ [[' ']], altChunks r, ?_,
              FillShape.blank (w :: g) r (by rw [e]; rfl) (by simp) hr⟩
            rw [altChunks_cons_ne_art w g hg]; simp
        · refine ⟨[w], restOf (w2 :: ws), ?_, FillShape.word [w] (w2 :: ws) rfl (by simp)⟩
          have hb' : ¬ (curLen + w.length + [' '].length ≤ W) := hb
          simp only [twFill, hfit, ↓reduceIte, hb', restOf]
          simp
    · refine ⟨[], altChunks (w :: ws), ?_, FillShape.none w ws rfl hfit⟩
      obtain ⟨more, hm⟩ := altChunks_head_art w ws
      rw [hm]
      simp [twFill, hfit]

theorem isWsChunk_word_art {w : Str} (h : twWord w = true) : isWsChunk w = false := by
  obtain ⟨c, t, rfl, hct⟩ := twWord_cases_art h
  have := notWs_ne_blank_art (hct c (by simp))
  simp [isWsChunk, this]

theorem concat_altChunks_art : ∀ (g : List Str), (altChunks g).foldr (· ++ ·) [] = joinWith [' '] g := by
  intro g
  induction g with
  | nil => rfl
  | cons w g ih =>
    cases g with
    | nil => simp [altChunks, joinWith]
    | cons w2 g =>
      rw [altChunks_cons2_art, List.foldr_cons, List.foldr_cons, ih]
      simp [joinWith]

theorem altChunks_last_art : ∀ (g : List Str), g ≠ [] → (∀ w ∈ g, twWord w = true) →
    ∃ init lastw, altChunks g = init ++ [lastw] ∧ twWord lastw = true := by
  intro g
  induction g with
  | nil => intro h; exact absurd rfl h
  | cons w g ih =>
    intro _ hw
    cases g with
    | nil => exact ⟨[], w, rfl, hw w (by simp)⟩
    | cons w2 g =>
      obtain ⟨init, lastw, e, hl⟩ := ih (by simp) (fun x hx => hw x (by simp [hx]))
      exact ⟨w :: [' '] :: init, lastw, by rw [altChunks_cons2_art, e]; rfl, hl⟩

/-- the last-chunk clean-up of `_wrap_chunks` on the two shapes of a filled line -/
theorem dropTrail_word_art (g : List Str) (hg : g ≠ []) (hw : ∀ w ∈ g, twWord w = true) :
    (match (altChunks g).reverse with
      | last :: initRev => if isWsChunk last then initRev.reverse else altChunks g
      | [] => altChunks g) = altChunks g := by
  obtain ⟨init, lastw, e, hl⟩ := altChunks_last_art g hg hw
  rw [e]
  simp [isWsChunk_word_art hl]

theorem dropTrail_blank_art (X : List Str) :
    (match (X ++ [[' ']]).reverse with
      | last :: initRev => if isWsChunk last then initRev.reverse else X ++ [[' ']]
      | [] => X ++ [[' ']]) = X := by
  simp [isWsChunk]

theorem altChunks_ne_nil_art (g : List Str) (hg : g ≠ []) : altChunks g ≠ [] := by
  cases g with
  | nil => exact absurd rfl hg
  | cons w g => obtain ⟨more, hm⟩ := altChunks_head_art w g; rw [hm]; simp

theorem altChunks_length_art : ∀ (ws : List Str), ws.length ≤ (altChunks ws).length := by
  intro ws
  induction ws with
  | nil => simp [altChunks]
  | cons w ws ih =>
    cases ws with
    | nil => simp [altChunks]
    | cons w2 ws => rw [altChunks_cons2_art]; simp only [List.length_cons] at ih ⊢; omega

theorem twWrapChunks_succ_art (W fuel : Nat) (c : Str) (cs lines : List Str) :
    twWrapChunks W (fuel + 1) (c :: cs) lines =
      (let chunks := if isWsChunk c && !lines.isEmpty then cs else c :: cs
       let (cur, rest) := twFill W chunks 0 []
       let (cur, rest) := match rest with
         | ch :: rest' => if ch.length > W && cur.isEmpty then ([ch], rest') else (cur, rest)
         | [] => (cur, rest)
       let cur := match cur.reverse with
         | last :: initRev => if isWsChunk last then initRev.reverse else cur
         | [] => cur
       let lines := if cur.isEmpty then lines else (cur.foldr (· ++ ·) []) :: lines
       twWrapChunks W fuel rest lines) := by
  rfl

/-- one line of `_wrap_chunks` on the chunks of single-spaced words: some first words `g` make the
    line, the loop goes on with the chunks of the others -/
theorem wrap_line_art (W fuel : Nat) (ws : List Str) (hne : ws ≠ []) (hw : ∀ w ∈ ws, twWord w = true)
    (lines : List Str) (chunks : List Str)
    (hch : chunks = altChunks ws ∨ (lines ≠ [] ∧ chunks = [' '] :: altChunks ws)) :
    ∃ g r rest, ws = g ++ r ∧ g ≠ [] ∧ (rest = altChunks r ∨ (r ≠ [] ∧ rest = [' '] :: altChunks r)) ∧
      twWrapChunks W (fuel + 1) chunks lines = twWrapChunks W fuel rest (joinWith [' '] g :: lines) := by
  obtain ⟨w, ws', rfl⟩ : ∃ w ws', ws = w :: ws' := by
    cases ws with
    | nil => exact absurd rfl hne
    | cons w ws' => exact ⟨w, ws', rfl⟩
  obtain ⟨more, hmore⟩ := altChunks_head_art w ws'
  have hww := isWsChunk_word_art (hw w (by simp))
  -- after the optional removal of the leading blank chunk the chunks are those of the words
  have hfirst : ∃ c cs, chunks = c :: cs ∧
      (if isWsChunk c && !lines.isEmpty then cs else c :: cs) = altChunks (w :: ws') := by
    rcases hch with rfl | ⟨hl, rfl⟩
    · exact ⟨w, more, hmore, by rw [hww]; simp [hmore]⟩
    · refine ⟨[' '], altChunks (w :: ws'), rfl, ?_⟩
      have : lines.isEmpty = false := by cases lines <;> simp_all
      simp [isWsChunk, this]
  obtain ⟨c, cs, rfl, hfirst⟩ := hfirst
  obtain ⟨X, Y, hfill, hshape⟩ := twFill_alt_art W (w :: ws') (by simp) 0 []
  rw [twWrapChunks_succ_art]
  simp only [hfirst, hfill, List.reverse_nil, List.nil_append]
  cases hshape with
  | none w0 ws0 e hn =>
    cases e
    have hlong : w.length > W := by omega
    refine ⟨[w], ws', (match ws' with | [] => [] | a :: b => [' '] :: altChunks (a :: b)), rfl, by simp, ?_, ?_⟩
    · cases ws' with
      | nil => exact Or.inl rfl
      | cons a b => exact Or.inr ⟨by simp, rfl⟩
    · rw [hmore]
      have hl : decide (w.length > W) = true := by simpa using hlong
      simp only [hl, List.isEmpty_nil, Bool.and_self, ↓reduceIte, List.reverse_cons, List.reverse_nil,
        List.nil_append, hww, Bool.false_eq_true, List.isEmpty_cons, List.foldr_cons, List.foldr_nil,
        List.append_nil, joinWith]
      cases ws' with
      | nil => simp [altChunks] at hmore; subst hmore; rfl
      | cons a b => rw [altChunks_cons2_art] at hmore; cases hmore; rfl
  | word g r e hg =>
    have hgw : ∀ x ∈ g, twWord x = true := fun x hx => hw x (by rw [e]; simp [hx])
    refine ⟨g, r, restOf r, e, hg, ?_, ?_⟩
    · cases r with
      | nil => exact Or.inl rfl
      | cons a b => exact Or.inr ⟨by simp, rfl⟩
    · have hne' := altChunks_ne_nil_art g hg
      have hemp : (altChunks g).isEmpty = false := by cases h : altChunks g <;> simp_all
      have hstep3 : (match restOf r with
          | ch :: rest' => if (decide (ch.length > W) && (altChunks g).isEmpty) = true then ([ch], rest') else (altChunks g, restOf r)
          | [] => (altChunks g, restOf r)) = (altChunks g, restOf r) := by
        cases restOf r <;> simp [hemp]
      rw [hstep3]
      simp only [dropTrail_word_art g hg hgw, hemp, Bool.false_eq_true, ↓reduceIte,
        concat_altChunks_art]
  | blank g r e hg hr =>
    have hgw : ∀ x ∈ g, twWord x = true := fun x hx => hw x (by rw [e]; simp [hx])
    refine ⟨g, r, altChunks r, e, hg, Or.inl rfl, ?_⟩
    have hemp : (altChunks g ++ [[' ']]).isEmpty = false := by simp
    have hstep3 : (match altChunks r with
        | ch :: rest' => if (decide (ch.length > W) && (altChunks g ++ [[' ']]).isEmpty) = true then ([ch], rest') else (altChunks g ++ [[' ']], altChunks r)
        | [] => (altChunks g ++ [[' ']], altChunks r)) = (altChunks g ++ [[' ']], altChunks r) := by
      cases altChunks r <;> simp
    have hemp2 : (altChunks g).isEmpty = false := by
      have := altChunks_ne_nil_art g hg
      cases h : altChunks g <;> simp_all
    rw [hstep3]
    simp only [dropTrail_blank_art, hemp2, Bool.false_eq_true, ↓reduceIte, concat_altChunks_art]


/-- **`textwrap.wrap` on single-spaced words**: the lines are the words, grouped, each group joined by
    single blanks -/
theorem wrap_alt_art (W : Nat) : ∀ (n : Nat) (ws : List Str), ws.length ≤ n →
    (∀ w ∈ ws, twWord w = true) → ∀ (chunks : List Str) (fuel : Nat) (lines : List Str),
      (chunks = altChunks ws ∨ (lines ≠ [] ∧ ws ≠ [] ∧ chunks = [' '] :: altChunks ws)) →
      ws.length + 1 ≤ fuel →
      ∃ groups : List (List Str), groups.flatten = ws ∧ (∀ g ∈ groups, g ≠ []) ∧
        twWrapChunks W fuel chunks lines = lines.reverse ++ groups.map (joinWith [' ']) := by
  intro n
  induction n with
  | zero =>
    intro ws hn _ chunks fuel lines hch hf
    have : ws = [] := by cases ws <;> simp_all
    subst this
    rcases hch with rfl | ⟨_, h, _⟩
    · refine ⟨[], rfl, by simp, ?_⟩
      obtain ⟨f, rfl⟩ : ∃ f, fuel = f + 1 := ⟨fuel - 1, by omega⟩
      simp only [altChunks, List.map_nil, List.append_nil]
      rfl
    · exact absurd rfl h
  | succ n ih =>
    intro ws hn hw chunks fuel lines hch hf
    by_cases hne : ws = []
    · subst hne
      rcases hch with rfl | ⟨_, h, _⟩
      · refine ⟨[], rfl, by simp, ?_⟩
        obtain ⟨f, rfl⟩ : ∃ f, fuel = f + 1 := ⟨fuel - 1, by omega⟩
        simp only [altChunks, List.map_nil, List.append_nil]
        rfl
      · exact absurd rfl h
    · obtain ⟨f, rfl⟩ : ∃ f, fuel = f + 1 := ⟨fuel - 1, by omega⟩
      have hch' : chunks = altChunks ws ∨ (lines ≠ [] ∧ chunks = [' '] :: altChunks ws) := by
        rcases hch with h | ⟨h1, _, h3⟩
        · exact Or.inl h
        · exact Or.inr ⟨h1, h3⟩
      obtain ⟨g, r, rest, e, hg, hrest, hstep⟩ := wrap_line_art W f ws hne hw lines chunks hch'
      have hlen : r.length ≤ n := by
        have : g.length ≥ 1 := by cases g <;> simp_all
        have : ws.length = g.length + r.length := by rw [e]; simp
        omega
      have hrw : ∀ w ∈ r, twWord w = true := fun x hx => hw x (by rw [e]; simp [hx])
      obtain ⟨groups, hfl, hgs, hrun⟩ := ih r hlen hrw rest f (joinWith [' '] g :: lines)
        (by rcases hrest with h | ⟨h1, h2⟩
            · exact Or.inl h
            · exact Or.inr ⟨by simp, h1, h2⟩)
        (by have : ws.length = g.length + r.length := by rw [e]; simp
            have : g.length ≥ 1 := by cases g <;> simp_all
            omega)
      refine ⟨g :: groups, by rw [List.flatten_cons, hfl, e], ?_, ?_⟩
      · intro x hx
        rcases List.mem_cons.mp hx with rfl | hx
        · exact hg
        · exact hgs x hx
      · rw [hstep, hrun]; simp

theorem twWrap_singleSpaced_art (ws : List Str) (hw : ∀ w ∈ ws, twWord w = true) (W : Nat) :
    ∃ groups : List (List Str), groups.flatten = ws ∧ (∀ g ∈ groups, g ≠ []) ∧
      twWrap (joinWith [' '] ws) W = groups.map (joinWith [' ']) := by
  unfold twWrap
  simp only [twChunks_joinWith_art ws hw]
  obtain ⟨groups, h1, h2, h3⟩ := wrap_alt_art W ws.length ws (Nat.le_refl _) hw (altChunks ws)
    ((altChunks ws).length + 1) [] (Or.inl rfl) (by have := altChunks_length_art ws; omega)
  exact ⟨groups, h1, h2, by simpa using h3⟩


/-! ### escaping commutes with the word structure -/

theorem escape_append_art (q : Char) (a b : Str) : escape q (a ++ b) = escape q a ++ escape q b := by
  induction a with
  | nil => rfl
  | cons c cs ih =>
    simp only [List.cons_append, escape]
    split
    · rw [ih]; rfl
    · split <;> (rw [ih]; rfl)

theorem escape_joinWith_art (q : Char) (hq : q ≠ ' ') : ∀ (ws : List Str),
    escape q (joinWith [' '] ws) = joinWith [' '] (ws.map (escape q)) := by
  intro ws
  induction ws with
  | nil => rfl
  | cons w ws ih =>
    cases ws with
    | nil => simp [joinWith]
    | cons w2 ws =>
      have e : joinWith [' '] (w :: w2 :: ws) = w ++ (' ' :: joinWith [' '] (w2 :: ws)) := by simp [joinWith]
      have hb : (' ' == '\\') = false := by decide
      have hq' : (' ' == q) = false := by simpa using fun e => hq e.symm
      rw [e, escape_append_art, escape, ih]
      simp [hb, hq', joinWith]

theorem mem_escape_art (q : Char) (s : Str) (d : Char) (hd : d ∈ escape q s) : d ∈ s ∨ d = '\\' ∨ d = q := by
  induction s with
  | nil => simp [escape] at hd
  | cons c cs ih =>
    rw [escape] at hd
    split at hd
    · rename_i hc
      simp only [List.mem_cons] at hd
      rcases hd with rfl | rfl | hd
      · exact Or.inr (Or.inl rfl)
      · exact Or.inr (Or.inl rfl)
      · rcases ih hd with h | h
        · exact Or.inl (by simp [h])
        · exact Or.inr h
    · split at hd
      · simp only [List.mem_cons] at hd
        rcases hd with rfl | rfl | hd
        · exact Or.inr (Or.inl rfl)
        · exact Or.inr (Or.inr rfl)
        · rcases ih hd with h | h
          · exact Or.inl (by simp [h])
          · exact Or.inr h
      · simp only [List.mem_cons] at hd
        rcases hd with rfl | hd
        · exact Or.inl (by simp)
        · rcases ih hd with h | h
          · exact Or.inl (by simp [h])
          · exact Or.inr h

theorem escape_ne_nil_art (q : Char) (s : Str) (h : s ≠ []) : escape q s ≠ [] := by
  cases s with
  | nil => exact absurd rfl h
  | cons c cs =>
    rw [escape]
    split
    · simp
    · split <;> simp

theorem twWord_escape_art {w : Str} (h : twWord w = true) : twWord (escape '"' w) = true := by
  obtain ⟨c, t, rfl, hct⟩ := twWord_cases_art h
  have hne := escape_ne_nil_art '"' (c :: t) (by simp)
  simp only [twWord, Bool.and_eq_true, Bool.not_eq_true', List.all_eq_true]
  refine ⟨by cases he : escape '"' (c :: t) <;> simp_all, fun d hd => ?_⟩
  rcases mem_escape_art '"' _ d hd with h | rfl | rfl
  · exact hct d h
  · decide
  · decide

/-- a grouping of `l.map f` is the image of a grouping of `l` -/
theorem flatten_eq_map_art {α β : Type} (f : α → β) : ∀ (groups : List (List β)) (l : List α),
    groups.flatten = l.map f → ∃ groups0 : List (List α), groups = groups0.map (List.map f) ∧ groups0.flatten = l := by
  intro groups
  induction groups with
  | nil =>
    intro l h
    have : l = [] := by cases l <;> simp_all
    exact ⟨[], rfl, by rw [this]; rfl⟩
  | cons g gs ih =>
    intro l h
    rw [List.flatten_cons] at h
    obtain ⟨l1, l2, rfl, h1, h2⟩ := List.map_eq_append_iff.mp h.symm
    obtain ⟨gs0, e1, e2⟩ := ih l2 h2.symm
    exact ⟨l1 :: gs0, by rw [List.map_cons, h1, e1], by rw [List.flatten_cons, e2]⟩

theorem joinWith_append_art (sep : Str) : ∀ (a b : List Str), a ≠ [] → b ≠ [] →
    joinWith sep (a ++ b) = joinWith sep a ++ sep ++ joinWith sep b := by
  intro a
  induction a with
  | nil => intro b h; exact absurd rfl h
  | cons x xs ih =>
    intro b _ hb
    cases xs with
    | nil =>
      cases b with
      | nil => exact absurd rfl hb
      | cons y ys => simp [joinWith]
    | cons x2 xs =>
      have := ih b (by simp) hb
      simp only [List.cons_append] at this ⊢
      simp only [joinWith]
      rw [this]
      simp [List.append_assoc]

theorem joinWith_flatten_art : ∀ (groups : List (List Str)), (∀ g ∈ groups, g ≠ []) →
    joinWith [' '] (groups.map (joinWith [' '])) = joinWith [' '] groups.flatten := by
  intro groups
  induction groups with
  | nil => intro _; rfl
  | cons g gs ih =>
    intro h
    have hg := h g (by simp)
    have ih' := ih (fun x hx => h x (by simp [hx]))
    cases gs with
    | nil => simp [joinWith]
    | cons g2 gs =>
      have hfl : (g2 :: gs).flatten ≠ [] := by
        have := h g2 (by simp)
        cases g2 with
        | nil => exact absurd rfl this
        | cons a b => simp
      rw [List.flatten_cons, joinWith_append_art _ g _ hg hfl, ← ih']
      simp [joinWith]

/-! ### the value collector on a sequence of quoted words on several lines -/

/-- quoted words `p` (double quotes), each preceded by white space `sp` -/
def quotedSeq : List (Str × Str) → Str
  | [] => []
  | (sp, p) :: more => sp ++ quoteStr .d1 p ++ quotedSeq more

def quotedWords : Nat → List (Str × Str) → List Word
  | _, [] => []
  | l, (sp, p) :: more =>
    { value := p, quote := some .d1, line := some (l + nlCount sp) } ::
      quotedWords (l + nlCount sp + nlCount p) more

theorem quotedSeq_head_art (more : List (Str × Str)) (rest : Str)
    (hsp : ∀ x ∈ more, x.1 ≠ []  ∧ ∀ d ∈ x.1, isSpace d = true) :
    ∀ r, quotedSeq more ++ '\n' :: rest ≠ '"' :: r := by
  intro r h
  cases more with
  | nil => simp [quotedSeq] at h
  | cons x xs =>
    obtain ⟨sp, p⟩ := x
    obtain ⟨hne, hs⟩ := hsp (sp, p) (by simp)
    cases sp with
    | nil => exact absurd rfl hne
    | cons d ds =>
      simp only [quotedSeq, List.cons_append, List.cons.injEq] at h
      have := hs d (by simp)
      rw [h.1] at this
      simp [isSpace] at this

theorem cAA_quotedSeq_art (rest : Str) (hnext : NextOK rest) :
    ∀ (seq : List (Str × Str)) (fuel l l0 : Nat) (last : Word) (acc : List Word),
      (∀ x ∈ seq, x.1 ≠ [] ∧ ∀ d ∈ x.1, isSpace d = true) → seq.length + 1 ≤ fuel →
      last.line = some l0 → l0 ≤ l → isUnq last "\\" = false →
      ∃ l', collectAssignedAux fuel ⟨quotedSeq seq ++ '\n' :: rest, l⟩ last false acc
        = .ok (acc.reverse ++ quotedWords l seq, ⟨'\n' :: rest, l'⟩) := by
  intro seq
  induction seq with
  | nil =>
    intro fuel l l0 last acc _ hf hl hle hbs
    obtain ⟨f, rfl⟩ : ∃ f, fuel = f + 1 := ⟨fuel - 1, by simp at hf; omega⟩
    refine ⟨l, ?_⟩
    simp only [quotedSeq, List.nil_append, quotedWords, List.append_nil]
    exact cAA_stop f _ last acc l0 (EndsValue_next_line_le rest l l0 hle hnext) hl hbs
  | cons x xs ih =>
    intro fuel l l0 last acc hsp hf hl hle hbs
    obtain ⟨sp, p⟩ := x
    obtain ⟨f, rfl⟩ : ∃ f, fuel = f + 1 := ⟨fuel - 1, by simp at hf; omega⟩
    have hf' : xs.length + 1 ≤ f := by simp at hf; omega
    obtain ⟨_, hs⟩ := hsp (sp, p) (by simp)
    have hsp' : ∀ y ∈ xs, y.1 ≠ [] ∧ ∀ d ∈ y.1, isSpace d = true := fun y hy => hsp y (by simp [hy])
    have hw : nextWord valueSettings ⟨quotedSeq ((sp, p) :: xs) ++ '\n' :: rest, l⟩
        = .ok (some ({ value := p, quote := some .d1, line := some (l + nlCount sp) },
                     ⟨quotedSeq xs ++ '\n' :: rest, l + nlCount sp + nlCount p⟩)) := by
      unfold nextWord
      simp only [quotedSeq, List.append_assoc]
      rw [nextWordAux_skip valueSettings sp _ hs,
        Phil.C03.next_word_of_quoted valueSettings .d1 p _ _ rfl (quotedSeq_head_art xs rest hsp')]
    obtain ⟨l', hrec⟩ := ih f (l + nlCount sp + nlCount p) (l + nlCount sp)
      { value := p, quote := some .d1, line := some (l + nlCount sp) }
      ({ value := p, quote := some .d1, line := some (l + nlCount sp) } :: acc) hsp' hf' rfl (by omega)
      (by simp [isUnq])
    refine ⟨l', ?_⟩
    rw [cAA_quoted f _ _ last _ acc .d1 hw rfl, hrec]
    simp [quotedWords]


/-! ### a wrapped string attribute -/

/-- the condition on a string value that is wrapped: room for `textwrap`, single-spaced text -/
def strWrapOK (pre : Str) (width : Int) (name : String) (s : Str) : Bool :=
  !strOneLine pre width name s && decide (0 < wrapWidth pre width name) && singleSpaced s &&
    !(quoteStr .d1 s).contains '\t'

def seqOf (indent : Str) : List Str → List (Str × Str)
  | [] => []
  | p :: ps => ([' '], p) :: ps.map (fun p => ('\n' :: indent, p))

theorem quotedSeq_map_art (indent : Str) : ∀ (ps : List Str),
    quotedSeq (ps.map (fun p => ('\n' :: indent, p)))
      = (ps.map (escape '"')).flatMap (fun b => '\n' :: indent ++ '"' :: b ++ ['"']) := by
  intro ps
  induction ps with
  | nil => rfl
  | cons p ps ih =>
    simp only [List.map_cons, quotedSeq, ih, List.flatMap_cons]
    simp [quoteStr, Quote.token, Quote.triple, Quote.char]

theorem wrapT_seq_art (indent : Str) (pieces : List Str) :
    wrapT indent (pieces.map (escape '"')) = quotedSeq (seqOf indent pieces) := by
  cases pieces with
  | nil => rfl
  | cons p ps =>
    simp only [List.map_cons, wrapT, seqOf, quotedSeq, quotedSeq_map_art]
    simp [quoteStr, Quote.token, Quote.triple, Quote.char]

theorem quotedWords_values_art : ∀ (seq : List (Str × Str)) (l : Nat),
    (quotedWords l seq).map (·.value) = seq.map (·.2) ∧ ∀ w ∈ quotedWords l seq, w.quote = some .d1 := by
  intro seq
  induction seq with
  | nil => intro l; simp [quotedWords]
  | cons x xs ih =>
    intro l
    obtain ⟨sp, p⟩ := x
    obtain ⟨h1, h2⟩ := ih (l + nlCount sp + nlCount p)
    simp only [quotedWords, List.map_cons, h1, List.mem_cons, forall_eq_or_imp, true_and]
    exact h2

theorem strFromWords_quotedWords_art (seq : List (Str × Str)) (l : Nat) (hne : seq ≠ []) :
    strFromWords (quotedWords l seq) = .str (joinWith [' '] (seq.map (·.2))) := by
  obtain ⟨h1, h2⟩ := quotedWords_values_art seq l
  have hpn : isPlainNone (quotedWords l seq) = false := by
    cases hq : quotedWords l seq with
    | nil => rfl
    | cons w ws =>
      cases ws with
      | cons _ _ => rfl
      | nil =>
        have := h2 w (by rw [hq]; simp)
        simp [isPlainNone, this]
  have hpa : isPlainAuto (quotedWords l seq) = false := by
    cases hq : quotedWords l seq with
    | nil => rfl
    | cons w ws =>
      cases ws with
      | cons _ _ => rfl
      | nil =>
        have := h2 w (by rw [hq]; simp)
        simp [isPlainAuto, this]
  simp [strFromWords, hpn, hpa, h1]

theorem seqOf_snd_art (indent : Str) (pieces : List Str) : (seqOf indent pieces).map (·.2) = pieces := by
  cases pieces with
  | nil => rfl
  | cons p ps => simp [seqOf, List.map_map, Function.comp_def]

theorem seqOf_space_art (indent : Str) (hind : ∀ d ∈ indent, d = ' ') (pieces : List Str) :
    ∀ x ∈ seqOf indent pieces, x.1 ≠ [] ∧ ∀ d ∈ x.1, isSpace d = true := by
  intro x hx
  cases pieces with
  | nil => simp [seqOf] at hx
  | cons p ps =>
    simp only [seqOf, List.mem_cons, List.mem_map] at hx
    rcases hx with rfl | ⟨q, _, rfl⟩
    · exact ⟨by simp, space_blank⟩
    · refine ⟨by simp, fun d hd => ?_⟩
      rcases List.mem_cons.mp hd with rfl | hd
      · rfl
      · rw [hind d hd]; rfl

theorem quotedSeq_length_art : ∀ (seq : List (Str × Str)), seq.length ≤ (quotedSeq seq).length := by
  intro seq
  induction seq with
  | nil => simp [quotedSeq]
  | cons x xs ih =>
    obtain ⟨sp, p⟩ := x
    have := quoteStr_length_pos .d1 p
    simp only [quotedSeq, List.length_cons, List.length_append]
    omega

/-- a sequence of quoted words on several lines is read as ONE value: the words joined by blanks -/
theorem readsAs_quotedSeq_art (indent : Str) (hind : ∀ d ∈ indent, d = ' ') (pieces : List Str)
    (hne : pieces ≠ []) (f : List Word → R AttrVal) (hf : ∀ ws, f ws = .ok (strFromWords ws)) :
    ReadsAs (quotedSeq (seqOf indent pieces)) f (.str (joinWith [' '] pieces)) := by
  intro rest l lead hl hbs hnext
  have hseqne : seqOf indent pieces ≠ [] := by cases pieces <;> simp_all [seqOf]
  obtain ⟨l', hrun⟩ := cAA_quotedSeq_art rest hnext (seqOf indent pieces)
    ((quotedSeq (seqOf indent pieces) ++ '\n' :: rest).length + 1) l l lead []
    (seqOf_space_art indent hind pieces)
    (by have := quotedSeq_length_art (seqOf indent pieces)
        simp only [List.length_append, List.length_cons]; omega)
    hl (Nat.le_refl _) hbs
  refine ⟨quotedWords l (seqOf indent pieces), l', ?_, ?_⟩
  · unfold collectAssigned
    simp only []
    rw [hrun]
    have : (quotedWords l (seqOf indent pieces)).isEmpty = false := by
      cases hs : seqOf indent pieces with
      | nil => exact absurd hs hseqne
      | cons x xs => obtain ⟨sp, p⟩ := x; simp [quotedWords]
    simp [this]
  · rw [hf, strFromWords_quotedWords_art _ _ hseqne, seqOf_snd_art]

theorem zipIdx_wrapLine_art (head indent : Str) : ∀ (bs : List Str) (n : Nat), 1 ≤ n →
    (bs.zipIdx n).map (wrapLine head indent) = bs.map (fun b => indent ++ '"' :: b ++ ['"']) := by
  intro bs
  induction bs with
  | nil => intro n _; rfl
  | cons b bs ih =>
    intro n hn
    have : (n == 0) = false := by simpa using (by omega : n ≠ 0)
    simp only [List.zipIdx_cons, List.map_cons, wrapLine, this, Bool.false_eq_true, ↓reduceIte]
    rw [ih (n + 1) (by omega)]

theorem unlines_wrapLines_art (pre : Str) (name : String) (indent : Str) (b : Str) (bs : List Str) :
    unlines (((b :: bs).zipIdx).map (wrapLine (attrHead pre name) indent))
      = pre ++ "  .".toList ++ name.toList ++ " =".toList ++ wrapT indent (b :: bs) ++ ['\n'] := by
  rw [List.zipIdx_cons, List.map_cons, zipIdx_wrapLine_art _ _ bs 1 (Nat.le_refl _)]
  simp only [wrapLine, beq_self_eq_true, ↓reduceIte, unlines_cons, wrapT]
  have : ∀ (xs : List Str), unlines (xs.map (fun b => indent ++ '"' :: b ++ ['"']))
      = (xs.flatMap (fun b => '\n' :: indent ++ '"' :: b ++ ['"'])).drop 1 ++ (if xs.isEmpty then [] else ['\n']) := by
    intro xs
    induction xs with
    | nil => rfl
    | cons x xs ih =>
      rw [List.map_cons, unlines_cons, ih]
      cases xs with
      | nil => simp
      | cons y ys => simp
  rw [this]
  cases bs with
  | nil => simp [attrHead]
  | cons y ys => simp [attrHead]

/-- **a wrapped string attribute**: what is printed and how it is read back -/
theorem attr_line_wrap_art (isDef : Bool) (pre : Str) (hb : Blank pre) (width : Int) (n : String) (s : Str)
    (hk : kindOf isDef n = .str) (h : strWrapOK pre width n s = true) :
    (∃ ls, attrLines pre width n (.str s) = .ok ls ∧ unlines ls = attrLineText pre width n (.str s)) ∧
    ReadsAs (attrTail pre width n (.str s)) (attrValueOf isDef n) (.str s) := by
  simp only [strWrapOK, Bool.and_eq_true, Bool.not_eq_true', decide_eq_true_eq] at h
  obtain ⟨⟨⟨hnot, hroom⟩, hss⟩, htab⟩ := h
  -- the words of the text and of the escaped text
  have hs : joinWith [' '] (splitOn ' ' s) = s := joinWith_splitOn_art ' ' s
  have hw : ∀ w ∈ splitOn ' ' s, twWord w = true := fun w hw => (List.all_eq_true.mp hss) w hw
  have hesc : escape '"' s = joinWith [' '] ((splitOn ' ' s).map (escape '"')) := by
    conv => lhs; rw [← hs]
    exact escape_joinWith_art '"' (by decide) _
  have hew : ∀ w ∈ (splitOn ' ' s).map (escape '"'), twWord w = true := by
    intro w hw'
    obtain ⟨w0, h0, rfl⟩ := List.mem_map.mp hw'
    exact twWord_escape_art (hw w0 h0)
  obtain ⟨groups, hfl, hgne, hwrap⟩ := twWrap_singleSpaced_art _ hew (wrapWidth pre width n).toNat
  obtain ⟨groups0, hg0, hfl0⟩ := flatten_eq_map_art (escape '"') groups (splitOn ' ' s) hfl
  have hg0ne : ∀ g ∈ groups0, g ≠ [] := by
    intro g hg e
    subst e
    exact hgne [] (by rw [hg0]; exact List.mem_map.mpr ⟨[], hg, rfl⟩) rfl
  -- the blocks are the escaped pieces
  have hblocks : twWrap (escape '"' s) (wrapWidth pre width n).toNat
      = (groups0.map (joinWith [' '])).map (escape '"') := by
    rw [hesc, hwrap, hg0, List.map_map, List.map_map]
    apply List.map_congr_left
    intro g _
    simp only [Function.comp_def]
    exact (escape_joinWith_art '"' (by decide) g).symm
  have hpieces : joinWith [' '] (groups0.map (joinWith [' '])) = s := by
    rw [joinWith_flatten_art groups0 hg0ne, hfl0, hs]
  have hpne : groups0.map (joinWith [' ']) ≠ [] := by
    intro e
    have : groups0 = [] := by simpa using e
    rw [this] at hfl0
    exact splitOn_ne_nil ' ' s hfl0.symm
  have hind : ∀ d ∈ attrIndent pre n, d = ' ' := by
    intro d hd
    simp only [attrIndent, List.mem_append] at hd
    rcases hd with h | h
    · exact hb d h
    · simp only [spaces, List.mem_replicate] at h; exact h.2
  have htail : attrTail pre width n (.str s) = quotedSeq (seqOf (attrIndent pre n) (groups0.map (joinWith [' ']))) := by
    simp only [attrTail, hnot, Bool.false_eq_true, ↓reduceIte]
    rw [hblocks, wrapT_seq_art]
  have hquote : strPrinted pre width n s = quoteStr .d1 s := by
    unfold strPrinted
    by_cases hq : strNeedQuote pre width n s = true
    · rw [if_pos hq]
    · exfalso
      have hq' : strNeedQuote pre width n s = false := by simpa using hq
      have hfit : attrFits (attrIndent pre n) width s = true := by
        simp only [strNeedQuote, Bool.or_eq_false_iff, Bool.not_eq_false'] at hq'
        exact hq'.2
      have : strOneLine pre width n s = true := by
        unfold strOneLine strPrinted
        rw [if_neg hq]; exact hfit
      rw [this] at hnot; cases hnot
  refine ⟨?_, ?_⟩
  · have hfit' : attrFits (attrIndent pre n) width (strPrinted pre width n s) = false := hnot
    have hinner : ((quoteStr Quote.d1 s).drop 1).take ((quoteStr Quote.d1 s).length - 2) = escape '"' s := by
      simp [quoteStr, Quote.token, Quote.triple, Quote.char]
    have hlines : attrLines pre width n (.str s)
        = .ok (wrapLines (attrHead pre n) (attrIndent pre n) (escape '"' s) (wrapWidth pre width n).toNat) := by
      have hfit'' := hfit'
      unfold strPrinted strNeedQuote at hfit''
      simp only [attrLines]
      rw [if_neg (by simpa using hfit'')]
      have hq2 : (if (!isStdIdent s || lower s == "none".toList || lower s == "auto".toList ||
          !attrFits (attrIndent pre n) width s) = true then quoteStr Quote.d1 s else s) = quoteStr .d1 s := by
        have := hquote
        unfold strPrinted strNeedQuote at this
        exact this
      simp only [hq2, hinner]
      have hroom' : ¬ (width - 2 - ((attrIndent pre n).length : Int) ≤ 0) := by
        unfold wrapWidth at hroom; omega
      rw [if_neg hroom', if_neg (by simpa using htab)]
      rfl
    refine ⟨_, hlines, ?_⟩
    unfold wrapLines
    rw [hblocks]
    cases hp : (groups0.map (joinWith [' '])).map (escape '"') with
    | nil =>
      have : groups0.map (joinWith [' ']) = [] := by simpa using hp
      exact absurd this hpne
    | cons b bs =>
      rw [unlines_wrapLines_art, attrLineText, attrTail]
      simp only [hnot, Bool.false_eq_true, ↓reduceIte, hblocks, hp]
  · rw [htail]
    have := readsAs_quotedSeq_art (attrIndent pre n) hind (groups0.map (joinWith [' '])) hpne
      (attrValueOf isDef n) (fun ws => by rw [attrValueOf_kind_art, hk]; rfl)
    rw [hpieces] at this
    exact this


/-- **the condition on a string attribute value**: it stays on one line (any content), or it is
    wrapped and then is single-spaced text with room for `textwrap` (`strWrapOK`) -/
def strOK (pre : Str) (width : Int) (name : String) (s : Str) : Bool :=
  strOneLine pre width name s || strWrapOK pre width name s

/-- **the condition on one attribute**: its value is of the kind `assign_attribute` produces for the
    name, a `.type` is printable, a string is printed in a way that is read back -/
def attrOK (isDef : Bool) (pre : Str) (width : Int) (n : String) : AttrVal → Bool
  | .str s => kindOf isDef n == .str && strOK pre width n s
  | v => kindOK (kindOf isDef n) v

/-- **one attribute: what is printed and how it is read back** -/
theorem attr_line_art (isDef : Bool) (pre : Str) (hb : Blank pre) (width : Int) (n : String) (v : AttrVal)
    (h : attrOK isDef pre width n v = true) :
    (∃ ls, attrLines pre width n v = .ok ls ∧ unlines ls = attrLineText pre width n v) ∧
    ReadsAs (attrTail pre width n v) (attrValueOf isDef n) v := by
  by_cases hs : ∃ s, v = .str s
  · obtain ⟨s, rfl⟩ := hs
    simp only [attrOK, Bool.and_eq_true, beq_iff_eq, strOK, Bool.or_eq_true] at h
    rcases h.2 with h2 | h2
    · obtain ⟨h1, h2, h3⟩ := attr_line_str_art isDef pre width n s h.1 h2
      exact ⟨⟨_, h1, h2⟩, h3⟩
    · exact attr_line_wrap_art isDef pre hb width n s h.1 h2
  · have hs' : ∀ s, v ≠ .str s := fun s e => hs ⟨s, e⟩
    have hk : kindOK (kindOf isDef n) v = true := by
      cases v <;> first | exact h | exact absurd rfl (hs' _)
    obtain ⟨h1, h2, h3⟩ := attr_line_value_art isDef pre width n v hs' hk
    exact ⟨⟨_, h1, h2⟩, h3⟩


/-! ## Part 3: `collect_objects` on attribute lines -/

/-- every character of the name continues an unquoted word in structure context -/
def attrNameOK (n : String) : Bool := n.toList.all (fun d => !endsUnquoted structSettings d)

theorem attrNames_ok_art : ∀ n ∈ defAttrNames ++ scopeAttrNames, attrNameOK n = true := by decide

/-- the word iterator (structure context) on white space, `.name` and a blank -/
theorem nextWord_attr_name_art (sp rest : Str) (n : String) (l : Nat) (hsp : ∀ d ∈ sp, isSpace d = true)
    (hn : attrNameOK n = true) :
    nextWord structSettings ⟨sp ++ '.' :: n.toList ++ ' ' :: rest, l⟩
      = .ok (some ({ value := '.' :: n.toList, quote := none, line := some (l + nlCount sp) },
                   ⟨' ' :: rest, l + nlCount sp⟩)) := by
  unfold nextWord
  simp only []
  rw [List.append_assoc, nextWordAux_skip structSettings sp _ hsp]
  have hc : endsUnquoted structSettings '.' = false := by decide
  exact nextWordAux_plain structSettings '.' n.toList _ _ hc (by decide) (by decide)
    (startsLong_of_not_ends rfl hc)
    (fun d hd => by
      have := (List.all_eq_true.mp hn) d hd
      simpa using this)
    (ends_of_isSpace _ (space_blank ' ' (by simp)))

/-- One turn of `collect_objects` for `.name = value…` with a pending definition: the value is
    assigned to the pending definition. -/
theorem collectObjects_attr_step_art (fuel : Nat) (st : PState) (stop : Option Word) (prevLine : Nat)
    (acc : List Obj) (d : Obj) (lead eq : Word) (ci1 ci2 ci4 : CI) (ws : List Word) (an : String)
    (v : AttrVal)
    (h1 : nextWord structSettings st.ci = .ok (some (lead, ci1)))
    (hlq : lead.quote = none) (n1 : lead.value ≠ "#phil".toList) (n2 : lead.value ≠ ['}'])
    (n3 : lead.value ≠ ['{']) (hsb : stripBang lead = (lead, false))
    (n5 : lead.value.take 1 = ['.']) (han : String.ofList (lead.value.drop 1) = an)
    (hcont : defAttrNames.contains an = true)
    (h2 : nextWord structSettings ci1 = .ok (some (eq, ci2)))
    (heq : eq.quote = none) (heqv : eq.value = ['='])
    (h3 : collectAssigned ci2 lead = .ok (ws, ci4)) (hv : defAttrValue an ws = .ok v) :
    collectObjects (fuel + 1) st stop prevLine acc (some d)
      = collectObjects fuel { st with ci := ci4 } stop (lead.line.getD 0) acc
          (some (d.withMeta (fun m => { m with attrs := m.attrs ++ [(an, v)] }))) := by
  have e1 := tryPopUnquoted_of_next h1 hlq
  have e2 := pop_of_next h2
  have e3 := popUnquoted_of_next h2 heq
  have n1' : ¬ lead.value = ['#', 'p', 'h', 'i', 'l'] := n1
  have han' : String.ofList (List.tail lead.value) = an := by rw [← han, List.drop_one]
  have hcont' : an ∈ defAttrNames := by simpa using hcont
  cases stop <;>
    simp [collectObjects, e1, e2, e3, n1', n2, n3, hsb, n5, han', hcont', heq, heqv, h3, hv]

/-- One turn of `collect_objects` on an attribute line `.name = T⏎` after a definition. -/
theorem collectObjects_defn_attr_art (fuel : Nat) (stop : Option Word) (prevLine : Nat) (acc : List Obj)
    (d : Obj) (sp : Str) (n : String) (T rest : Str) (l i : Nat) (v : AttrVal)
    (hsp : ∀ c ∈ sp, isSpace c = true) (hn : n ∈ defAttrNames)
    (hr : ReadsAs T (defAttrValue n) v) (hnext : NextOK rest) :
    ∃ l', collectObjects (fuel + 1)
        { ci := ⟨sp ++ '.' :: n.toList ++ ' ' :: '=' :: (T ++ '\n' :: rest), l⟩, nextId := i } stop prevLine
        acc (some d)
      = collectObjects fuel { ci := ⟨'\n' :: rest, l'⟩, nextId := i } stop (l + nlCount sp) acc
          (some (d.withMeta (fun m => { m with attrs := m.attrs ++ [(n, v)] }))) := by
  have hok : attrNameOK n = true := attrNames_ok_art n (List.mem_append_left _ hn)
  have h1 := nextWord_attr_name_art sp ('=' :: (T ++ '\n' :: rest)) n l hsp hok
  have h2 := nextWord_struct_eq [' '] (T ++ '\n' :: rest) (l + nlCount sp) space_blank
  rw [nlCount_blank, Nat.add_zero] at h2
  have h2' : nextWord structSettings ⟨' ' :: '=' :: (T ++ '\n' :: rest), l + nlCount sp⟩
      = .ok (some ({ value := ['='], quote := none, line := some (l + nlCount sp) },
                   ⟨T ++ '\n' :: rest, l + nlCount sp⟩)) := h2
  obtain ⟨ws, l', h3, hv⟩ := hr rest (l + nlCount sp)
    { value := '.' :: n.toList, quote := none, line := some (l + nlCount sp) } rfl
    (by simp [isUnq]) hnext
  refine ⟨l', ?_⟩
  have hcont : defAttrNames.contains n = true := by simpa using hn
  exact collectObjects_attr_step_art fuel
    { ci := ⟨sp ++ '.' :: n.toList ++ ' ' :: '=' :: (T ++ '\n' :: rest), l⟩, nextId := i } stop prevLine
    acc d _ _ _ _ _ ws n v h1 rfl (by simp) (by simp) (by simp) (stripBang_of_not_bang _ (by simp))
    (by simp) (by simp [String.ofList_toList]) hcont h2' rfl rfl h3 hv


/-! ### the attribute block -/

/-- the attributes printed at `level` (> 0) among `names`, with their values, in printing order -/
def shownList (level : Int) (attrs : Attrs) (names : List String) : Attrs :=
  names.filterMap (fun n => if attrShown level n (attrs.get n) then some (n, attrs.get n) else none)

/-- the printed text of the attribute lines for `names` (level > 0) -/
def attrsTextRT (pre : Str) (level width : Int) (attrs : Attrs) : List String → Str
  | [] => []
  | n :: ns =>
    (if attrShown level n (attrs.get n) then attrLineText pre width n (attrs.get n) else []) ++
      attrsTextRT pre level width attrs ns

/-- every attribute printed at `level` among `names` satisfies `attrOK` -/
def attrsOKList (isDef : Bool) (pre : Str) (level width : Int) (attrs : Attrs) (names : List String) : Bool :=
  names.all (fun n => !attrShown level n (attrs.get n) || attrOK isDef pre width n (attrs.get n))

theorem shownList_cons_art (level : Int) (attrs : Attrs) (n : String) (ns : List String) :
    shownList level attrs (n :: ns) =
      (if attrShown level n (attrs.get n) then [(n, attrs.get n)] else []) ++ shownList level attrs ns := by
  unfold shownList
  rw [List.filterMap_cons]
  split <;> simp_all

/-- the printer on the attribute block: `attrAll` yields the lines of `attrsTextRT` -/
theorem attrAll_text_art (isDef : Bool) (pre : Str) (hb : Blank pre) (level width : Int) (attrs : Attrs) :
    ∀ (ns : List String), attrsOKList isDef pre level width attrs ns = true →
      ∃ ls, attrAll attrs pre level width ns = .ok ls ∧ unlines ls = attrsTextRT pre level width attrs ns ∧
        (ls.isEmpty = (shownList level attrs ns).isEmpty) := by
  intro ns
  induction ns with
  | nil => intro _; exact ⟨[], rfl, rfl, rfl⟩
  | cons n ns ih =>
    intro h
    simp only [attrsOKList, List.all_cons, Bool.and_eq_true, Bool.or_eq_true, Bool.not_eq_true'] at h
    obtain ⟨ls2, e2, t2, m2⟩ := ih h.2
    by_cases hsh : attrShown level n (attrs.get n) = true
    · have hok : attrOK isDef pre width n (attrs.get n) = true := by
        rcases h.1 with h1 | h1
        · rw [hsh] at h1; cases h1
        · exact h1
      obtain ⟨⟨ls1, e1, t1⟩, _⟩ := attr_line_art isDef pre hb width n _ hok
      have hne : ls1 ≠ [] := by
        intro e; subst e
        simp [unlines, attrLineText] at t1
      refine ⟨ls1 ++ ls2, ?_, ?_, ?_⟩
      · simp only [attrAll, attrOne, hsh, ↓reduceIte, e1, e2]
      · rw [unlines_append, t1, t2, attrsTextRT, if_pos hsh]
      · rw [shownList_cons_art, if_pos hsh]
        cases ls1 with
        | nil => exact absurd rfl hne
        | cons a b => rfl
    · have hsh' : attrShown level n (attrs.get n) = false := by simpa using hsh
      refine ⟨ls2, ?_, ?_, ?_⟩
      · simp only [attrAll, attrOne, hsh', Bool.false_eq_true, ↓reduceIte, e2, List.nil_append]
      · rw [t2, attrsTextRT, if_neg hsh, List.nil_append]
      · rw [shownList_cons_art, if_neg hsh, List.nil_append]; exact m2

theorem Blank_deeper2_art {pre : Str} (hb : Blank pre) : ∀ d ∈ pre ++ [' ', ' '], isSpace d = true :=
  (Blank.deeper hb).isSpace

theorem NextOK_dot_art (sp rest : Str) (hsp : ∀ d ∈ sp, isSpace d = true) : NextOK (sp ++ '.' :: rest) := by
  intro c hc
  rw [firstNonSpace_skip_nested sp _ hsp] at hc
  have h0 : isSpace '.' = false := by decide
  simp only [firstNonSpace, h0, Bool.false_eq_true, ↓reduceIte, Option.some.injEq] at hc
  subst hc
  exact ⟨by decide, by decide, by decide⟩

theorem NextOK_open_art (sp rest : Str) (hsp : ∀ d ∈ sp, isSpace d = true) : NextOK (sp ++ '{' :: rest) := by
  intro c hc
  rw [firstNonSpace_skip_nested sp _ hsp] at hc
  have h0 : isSpace '{' = false := by decide
  simp only [firstNonSpace, h0, Bool.false_eq_true, ↓reduceIte, Option.some.injEq] at hc
  subst hc
  exact ⟨by decide, by decide, by decide⟩

theorem attrLineText_shape_art (pre : Str) (width : Int) (n : String) (v : AttrVal) :
    attrLineText pre width n v
      = (pre ++ [' ', ' ']) ++ '.' :: n.toList ++ ' ' :: '=' :: (attrTail pre width n v ++ ['\n']) := by
  simp [attrLineText]

/-- the text after an attribute line does not continue its value -/
theorem NextOK_attrsText_art (pre : Str) (hb : Blank pre) (level width : Int) (attrs : Attrs)
    (tail : Str) (ht : NextOK tail) :
    ∀ ns, NextOK (attrsTextRT pre level width attrs ns ++ tail) := by
  intro ns
  induction ns with
  | nil => exact ht
  | cons n ns ih =>
    rw [attrsTextRT]
    split
    · rw [attrLineText_shape_art]
      have := NextOK_dot_art (pre ++ [' ', ' ']) (n.toList ++ ' ' :: '=' ::
        (attrTail pre width n (attrs.get n) ++ ['\n']) ++ (attrsTextRT pre level width attrs ns ++ tail))
        (Blank_deeper2_art hb)
      simpa using this
    · exact ih

def shownCount (level : Int) (attrs : Attrs) (ns : List String) : Nat := (shownList level attrs ns).length

theorem shownCount_cons_art (level : Int) (attrs : Attrs) (n : String) (ns : List String) :
    shownCount level attrs (n :: ns) =
      (if attrShown level n (attrs.get n) then 1 else 0) + shownCount level attrs ns := by
  unfold shownCount
  rw [shownList_cons_art]
  split <;> simp <;> omega

theorem withMeta_attrs_nil_art (d : Obj) : d.withMeta (fun m => { m with attrs := m.attrs ++ [] }) = d := by
  cases d <;> simp [Obj.withMeta]

theorem withMeta_attrs_append_art (d : Obj) (a b : Attrs) :
    (d.withMeta (fun m => { m with attrs := m.attrs ++ a })).withMeta (fun m => { m with attrs := m.attrs ++ b })
      = d.withMeta (fun m => { m with attrs := m.attrs ++ (a ++ b) }) := by
  cases d <;> simp [Obj.withMeta, List.append_assoc]

/-- **the attribute lines after a definition**: each line is one turn of `collect_objects`; the
    values are assigned to the pending definition in printing order -/
theorem defn_attrs_block_art (pre : Str) (hb : Blank pre) (level width : Int) (attrs : Attrs) :
    ∀ (ns : List String), (∀ n ∈ ns, n ∈ defAttrNames) →
      attrsOKList true pre level width attrs ns = true →
      ∀ (fuel : Nat) (more : Str) (l i : Nat) (stop : Option Word) (prevLine : Nat) (acc : List Obj)
        (d : Obj), NextOK more →
        ∃ l' prevLine',
          collectObjects (fuel + shownCount level attrs ns)
              { ci := ⟨'\n' :: (attrsTextRT pre level width attrs ns ++ more), l⟩, nextId := i } stop prevLine
              acc (some d)
            = collectObjects fuel { ci := ⟨'\n' :: more, l'⟩, nextId := i } stop prevLine' acc
                (some (d.withMeta (fun m => { m with attrs := m.attrs ++ shownList level attrs ns }))) := by
  intro ns
  induction ns with
  | nil =>
    intro _ _ fuel more l i stop prevLine acc d _
    refine ⟨l, prevLine, ?_⟩
    simp only [shownCount, shownList, List.filterMap_nil, List.length_nil, Nat.add_zero, attrsTextRT,
      List.nil_append]
    rw [withMeta_attrs_nil_art]
  | cons n ns ih =>
    intro hmem hok fuel more l i stop prevLine acc d hnext
    have hok' := hok
    simp only [attrsOKList, List.all_cons, Bool.and_eq_true, Bool.or_eq_true, Bool.not_eq_true'] at hok'
    have hmem' : ∀ m ∈ ns, m ∈ defAttrNames := fun m hm => hmem m (by simp [hm])
    by_cases hsh : attrShown level n (attrs.get n) = true
    · have haok : attrOK true pre width n (attrs.get n) = true := by
        rcases hok'.1 with h1 | h1
        · rw [hsh] at h1; cases h1
        · exact h1
      obtain ⟨_, hreads⟩ := attr_line_art true pre hb width n _ haok
      have hrest := NextOK_attrsText_art pre hb level width attrs more hnext ns
      have hsp : ∀ c ∈ '\n' :: (pre ++ [' ', ' ']), isSpace c = true := by
        intro c hc
        rcases List.mem_cons.mp hc with rfl | hc
        · rfl
        · exact Blank_deeper2_art hb c hc
      obtain ⟨l1, hstep⟩ := collectObjects_defn_attr_art (fuel + shownCount level attrs ns) stop prevLine acc
        d ('\n' :: (pre ++ [' ', ' '])) n (attrTail pre width n (attrs.get n))
        (attrsTextRT pre level width attrs ns ++ more) l i (attrs.get n) hsp (hmem n (by simp)) hreads hrest
      obtain ⟨l', prevLine', hrec⟩ := ih hmem' hok'.2 fuel more l1 i stop
        (l + nlCount ('\n' :: (pre ++ [' ', ' ']))) acc
        (d.withMeta (fun m => { m with attrs := m.attrs ++ [(n, attrs.get n)] })) hnext
      refine ⟨l', prevLine', ?_⟩
      have hfuel : fuel + shownCount level attrs (n :: ns) = fuel + shownCount level attrs ns + 1 := by
        rw [shownCount_cons_art, if_pos hsh]; omega
      have htext : '\n' :: (attrsTextRT pre level width attrs (n :: ns) ++ more)
          = ('\n' :: (pre ++ [' ', ' '])) ++ '.' :: n.toList ++ ' ' :: '=' ::
              (attrTail pre width n (attrs.get n) ++ '\n' :: (attrsTextRT pre level width attrs ns ++ more)) := by
        rw [attrsTextRT, if_pos hsh, attrLineText_shape_art]
        simp
      rw [hfuel, htext, hstep, hrec, withMeta_attrs_append_art, shownList_cons_art, if_pos hsh]
    · obtain ⟨l', prevLine', hrec⟩ := ih hmem' hok'.2 fuel more l i stop prevLine acc d hnext
      refine ⟨l', prevLine', ?_⟩
      rw [shownCount_cons_art, if_neg hsh, Nat.zero_add, attrsTextRT, if_neg hsh, List.nil_append, hrec,
        shownList_cons_art, if_neg hsh, List.nil_append]


/-! ### the attribute lines between a scope name and `{` -/

/-- one iteration of the scope-attribute loop -/
theorem scopeAttrsLoop_step_art (fuel : Nat) (ci : CI) (w : Word) (as : Attrs) (n : String) (eq : Word)
    (ci1 ci2 : CI) (ws : List Word) (v : AttrVal)
    (n0 : w.value ≠ ['{']) (hsb : stripBang w = (w, false)) (n5 : w.value.take 1 = ['.'])
    (han : String.ofList (List.tail w.value) = n) (hcont : n ∈ scopeAttrNames)
    (h2 : nextWord structSettings ci = .ok (some (eq, ci1))) (heq : eq.quote = none)
    (heqv : eq.value = ['='])
    (h3 : collectAssigned ci1 w = .ok (ws, ci2)) (hv : scopeAttrValue n ws = .ok v) :
    scopeAttrsLoop (fuel + 1) ci w as =
      match popUnquoted structSettings ci2 with
      | .error e => .error e
      | .ok (w', ci3) => scopeAttrsLoop fuel ci3 w' (as ++ [(n, v)]) := by
  have e3 := popUnquoted_of_next h2 heq
  simp [scopeAttrsLoop, n0, hsb, n5, han, hcont, e3, heqv, h3, hv, Except.map]
  cases popUnquoted structSettings ci2 with
  | error e => rfl
  | ok p => rfl

theorem shownCount_le_text_art (pre : Str) (level width : Int) (attrs : Attrs) :
    ∀ ns, shownCount level attrs ns ≤ (attrsTextRT pre level width attrs ns).length := by
  intro ns
  induction ns with
  | nil => simp [shownCount, shownList]
  | cons n ns ih =>
    rw [shownCount_cons_art, attrsTextRT, List.length_append]
    split
    · simp only [attrLineText, List.length_append, List.length_cons, List.length_nil]; omega
    · simp; exact ih

/-- **the attribute lines of a scope header**: the word after the scope name is `{` or `.name`; the
    loop assigns the values in printing order and stops at `{` -/
theorem scope_attrs_block_art (pre pre' V : Str) (hb : Blank pre) (hb' : Blank pre') (level width : Int)
    (attrs : Attrs) :
    ∀ (ns : List String), (∀ n ∈ ns, n ∈ scopeAttrNames) →
      attrsOKList false pre level width attrs ns = true →
      ∀ (sp : Str) (l : Nat), (∀ c ∈ sp, isSpace c = true) →
        ∃ w ci2 l',
          nextWord structSettings ⟨sp ++ attrsTextRT pre level width attrs ns ++ pre' ++ '{' :: V, l⟩
            = .ok (some (w, ci2)) ∧
          w.quote = none ∧ (w.value = ['{'] ∨ w.value.take 1 = ['.']) ∧
          shownCount level attrs ns ≤ ci2.rest.length + 1 ∧
          ∀ (fuel : Nat) (as : Attrs), shownCount level attrs ns + 1 ≤ fuel →
            scopeAttrsLoop fuel ci2 w as
              = .ok (as ++ shownList level attrs ns,
                     { value := ['{'], quote := none, line := some l' }, ⟨V, l'⟩) := by
  intro ns
  induction ns with
  | nil =>
    intro _ _ sp l hsp
    have hsp' : ∀ d ∈ sp ++ pre', isSpace d = true := by
      intro d hd
      rcases List.mem_append.mp hd with h | h
      · exact hsp d h
      · exact hb'.isSpace d h
    refine ⟨{ value := ['{'], quote := none, line := some (l + nlCount (sp ++ pre')) },
      ⟨V, l + nlCount (sp ++ pre')⟩, l + nlCount (sp ++ pre'), ?_, rfl, Or.inl rfl,
      by simp [shownCount, shownList], ?_⟩
    · simp only [attrsTextRT, List.append_nil]
      exact nextWord_struct_open (sp ++ pre') V l hsp'
    · intro fuel as hf
      obtain ⟨f, rfl⟩ : ∃ f, fuel = f + 1 := ⟨fuel - 1, by omega⟩
      simp [scopeAttrsLoop, shownList]
  | cons n ns ih =>
    intro hmem hok sp l hsp
    have hok' := hok
    simp only [attrsOKList, List.all_cons, Bool.and_eq_true, Bool.or_eq_true, Bool.not_eq_true'] at hok'
    have hmem' : ∀ m ∈ ns, m ∈ scopeAttrNames := fun m hm => hmem m (by simp [hm])
    by_cases hsh : attrShown level n (attrs.get n) = true
    · have haok : attrOK false pre width n (attrs.get n) = true := by
        rcases hok'.1 with h1 | h1
        · rw [hsh] at h1; cases h1
        · exact h1
      obtain ⟨_, hreads⟩ := attr_line_art false pre hb width n _ haok
      have hnameok : attrNameOK n = true := attrNames_ok_art n (List.mem_append_right _ (hmem n (by simp)))
      have hsp2 : ∀ c ∈ sp ++ (pre ++ [' ', ' ']), isSpace c = true := by
        intro c hc
        rcases List.mem_append.mp hc with h | h
        · exact hsp c h
        · exact Blank_deeper2_art hb c h
      let rest := attrsTextRT pre level width attrs ns ++ pre' ++ '{' :: V
      have hrest : NextOK rest := by
        have := NextOK_attrsText_art pre hb level width attrs (pre' ++ '{' :: V)
          (NextOK_open_art pre' V hb'.isSpace) ns
        simpa [rest, List.append_assoc] using this
      have htext : sp ++ attrsTextRT pre level width attrs (n :: ns) ++ pre' ++ '{' :: V
          = (sp ++ (pre ++ [' ', ' '])) ++ '.' :: n.toList ++ ' ' :: ('=' ::
              (attrTail pre width n (attrs.get n) ++ '\n' :: rest)) := by
        rw [attrsTextRT, if_pos hsh, attrLineText_shape_art]
        simp [rest]
      have h1 := nextWord_attr_name_art (sp ++ (pre ++ [' ', ' ']))
        ('=' :: (attrTail pre width n (attrs.get n) ++ '\n' :: rest)) n l hsp2 hnameok
      obtain ⟨L, hL⟩ : ∃ L, L = l + nlCount (sp ++ (pre ++ [' ', ' '])) := ⟨_, rfl⟩
      rw [← hL] at h1
      have h2 := nextWord_struct_eq [' '] (attrTail pre width n (attrs.get n) ++ '\n' :: rest) L space_blank
      rw [nlCount_blank, Nat.add_zero] at h2
      have h2 : nextWord structSettings ⟨' ' :: '=' :: (attrTail pre width n (attrs.get n) ++ '\n' :: rest), L⟩
          = .ok (some ({ value := ['='], quote := none, line := some L },
                       ⟨attrTail pre width n (attrs.get n) ++ '\n' :: rest, L⟩)) := h2
      obtain ⟨ws, l1, h3, hv⟩ := hreads rest L
        { value := '.' :: n.toList, quote := none, line := some L } rfl (by simp [isUnq]) hrest
      obtain ⟨w', ci3, l', hn', hq', _, _, hloop⟩ := ih hmem' hok'.2 ['\n'] l1 space_nl
      refine ⟨_, _, l', by rw [htext]; exact h1, rfl, Or.inr (by simp), ?_, ?_⟩
      · have := shownCount_le_text_art pre level width attrs ns
        rw [shownCount_cons_art, if_pos hsh]
        simp only [List.length_cons, List.length_append, rest]
        omega
      · intro fuel as hf
        rw [shownCount_cons_art, if_pos hsh] at hf
        obtain ⟨f, rfl⟩ : ∃ f, fuel = f + 1 := ⟨fuel - 1, by omega⟩
        have hpop : popUnquoted structSettings ⟨'\n' :: rest, l1⟩ = .ok (w', ci3) := by
          have : (['\n'] ++ attrsTextRT pre level width attrs ns ++ pre' ++ '{' :: V) = '\n' :: rest := by
            simp [rest]
          rw [this] at hn'
          exact popUnquoted_of_next hn' hq'
        rw [scopeAttrsLoop_step_art f _ _ as n _ _ _ ws (attrs.get n) (by simp)
          (stripBang_of_not_bang _ (by simp)) (by simp) (by simp [String.ofList_toList])
          (hmem n (by simp)) h2 rfl rfl h3 (by
            have := hv
            simpa [attrValueOf] using this)]
        simp only [hpop]
        rw [hloop f _ (by omega), shownList_cons_art, if_pos hsh]
        simp
    · obtain ⟨w, ci2, l', h1, h2, h3, h4, h5⟩ := ih hmem' hok'.2 sp l hsp
      refine ⟨w, ci2, l', ?_, h2, h3, ?_, ?_⟩
      · rw [attrsTextRT, if_neg hsh, List.nil_append]; exact h1
      · rw [shownCount_cons_art, if_neg hsh, Nat.zero_add]; exact h4
      · intro fuel as hf
        rw [shownCount_cons_art, if_neg hsh, Nat.zero_add] at hf
        rw [h5 fuel as hf, shownList_cons_art, if_neg hsh, List.nil_append]


/-! ## Part 4: trees with attributes -/

/-- the printed attribute block of an object at `level` -/
def attrBlock (isDef : Bool) (pre : Str) (level width : Int) (attrs : Attrs) : Str :=
  if level ≤ 0 then [] else attrsTextRT pre level width attrs (attrNamesOf isDef)

/-- **the attributes the parser reads back** from the text printed at `level`: the attributes shown at
    that level, in printing order, each with its value -/
def shownAttrs (isDef : Bool) (level : Int) (attrs : Attrs) : Attrs :=
  if level ≤ 0 then [] else shownList level attrs (attrNamesOf isDef)

/-- every attribute printed at `level` satisfies `attrOK` -/
def attrsOK (isDef : Bool) (pre : Str) (level width : Int) (attrs : Attrs) : Bool :=
  decide (level ≤ 0) || attrsOKList isDef pre level width attrs (attrNamesOf isDef)

theorem showAttributes_block_art (isDef : Bool) (pre : Str) (hb : Blank pre) (level width : Int) (attrs : Attrs)
    (h : attrsOK isDef pre level width attrs = true) :
    ∃ ls, showAttributes (attrNamesOf isDef) attrs pre level width = .ok ls ∧
      unlines ls = attrBlock isDef pre level width attrs ∧
      ls.isEmpty = (shownAttrs isDef level attrs).isEmpty := by
  rw [showAttributes_all]
  unfold attrBlock shownAttrs
  by_cases hl : level ≤ 0
  · simp only [hl, ↓reduceIte]; exact ⟨[], rfl, rfl, rfl⟩
  · simp only [hl, ↓reduceIte]
    have h' : attrsOKList isDef pre level width attrs (attrNamesOf isDef) = true := by
      simpa [attrsOK, hl] using h
    exact attrAll_text_art isDef pre hb level width attrs _ h'

/-- the warning line printed in front of a deprecated definition (attributes level 3) -/
def warnText (m : Meta) (ind : Str) : Str :=
  if depSet m then ind ++ "# WARNING: deprecated parameter\n".toList else []

mutual
/-- the text printed for one object at attributes level `L` and print width `w`, with pending merged
    names `ms`, at indentation `ind`:  `treeText` plus the attribute lines — after the value lines of a
    definition; between the name and a `{` on a line of its own for a scope (if any is printed) -/
def treeTextA (L w : Int) : Obj → List Str → Str → Str
  | .defn m ws, ms, ind =>
    warnText m ind ++ (ind ++ dottedName ms m.name ++ [' ', '='] ++
      wrapTail w (ind ++ defIndent (dottedName ms m.name)) ws (ind ++ defHead (dottedName ms m.name)) ++ ['\n']) ++
      attrBlock true ind L w m.attrs
  | .scope m os, ms, ind =>
    if firstMerges os then kidsTextA L w os (ms ++ [m.name]) ind
    else if (shownAttrs false L m.attrs).isEmpty then
      ind ++ dottedName ms m.name ++ [' ', '{', '\n'] ++ kidsTextA L w os [] (deeper ind) ++ ind ++ ['}', '\n']
    else
      ind ++ dottedName ms m.name ++ ['\n'] ++ attrBlock false ind L w m.attrs ++ ind ++ ['{', '\n'] ++
        kidsTextA L w os [] (deeper ind) ++ ind ++ ['}', '\n']
def kidsTextA (L w : Int) : List Obj → List Str → Str → Str
  | [], _, _ => []
  | x :: xs, ms, ind => treeTextA L w x ms ind ++ kidsTextA L w xs ms ind
end

mutual
/-- the tree as the parser returns it from the text printed at level `L` (up to ids and positions):
    every object carries exactly the attributes shown at that level; a scope that is only the dotted
    prefix of its child carries none -/
def Obj.normA (L : Int) : Obj → Obj
  | .defn m ws => .defn { m with attrs := shownAttrs true L m.attrs } ws
  | .scope m os =>
    .scope { m with attrs := if firstMerges os then [] else shownAttrs false L m.attrs } (normAList L os)
def normAList (L : Int) : List Obj → List Obj
  | [] => []
  | x :: xs => x.normA L :: normAList L xs
end

mutual
/-- the attribute conditions of a tree printed at indentation `ind`: `attrsOK` for every object that
    prints attributes, at its indentation; a deprecated definition only at level ≥ 3 -/
def Obj.attrsOKAt (L w : Int) : Obj → Str → Bool
  | .defn m _, ind => attrsOK true ind L w m.attrs && (!depSet m || decide (3 ≤ L))
  | .scope m os, ind =>
    if firstMerges os then attrsOKsAt L w os ind
    else attrsOK false ind L w m.attrs && attrsOKsAt L w os (deeper ind)
def attrsOKsAt (L w : Int) : List Obj → Str → Bool
  | [], _ => true
  | x :: xs, ind => x.attrsOKAt L w ind && attrsOKsAt L w xs ind
end

theorem attrsOKsAt_iff_art (L w : Int) (os : List Obj) (ind : Str) :
    attrsOKsAt L w os ind = true ↔ ∀ x ∈ os, x.attrsOKAt L w ind = true := by
  induction os with
  | nil => simp [attrsOKsAt]
  | cons x xs ih => simp [attrsOKsAt, ih]

/-- object data of an enabled object: only name, id, line, `merge_names` and attributes are set -/
theorem meta_eq_of_plain_art {mg : Bool} {m : Meta} (h : PlainMetaPP mg m.stripAttrs) :
    m = { name := m.name, id := m.id, line := m.line, mergeNames := mg, attrs := m.attrs } := by
  unfold PlainMetaPP Meta.stripAttrs at h
  cases m
  simp_all

/-! ### the printer -/

theorem showDefn_genA_art (o : ShowOpts) (he : o.expert = none) (m : Meta) (mg : Bool)
    (hm : PlainMetaPP mg m.stripAttrs) (ws : List Word) (ms : List Str) (ind : Str) (hb : Blank ind)
    (hinc : m.name ≠ "include".toList)
    (hok : attrsOK true ind o.level o.width m.attrs = true) (hdep : depSet m = true → 3 ≤ o.level) :
    ∃ lines, showDefn o m ws ms ind = .ok lines ∧
      unlines lines = treeTextA o.level o.width (.defn m ws) ms ind := by
  obtain ⟨als, ea, ta, _⟩ := showAttributes_block_art true ind hb o.level o.width m.attrs hok
  have hm' := meta_eq_of_plain_art hm
  have hline : defnLine m ms ind = ind ++ dottedName ms m.name ++ [' ', '='] := by
    rw [hm']
    simp only [defnLine, bne_iff_ne, ne_eq, hinc, not_false_eq_true, ↓reduceIte, dottedName]
    simp
  have htmpl : m.tmpl = 0 := by rw [hm']
  have hgate : ((m.attrs.get "deprecated").truthy && decide (o.level < 3)) = false := by
    cases hd : (m.attrs.get "deprecated").truthy with
    | false => rfl
    | true =>
      have := hdep hd
      simp; omega
  have h0 : ¬ ((0 : Int) < 0) := by omega
  have ea' : showAttributes defAttrNames m.attrs ind o.level o.width = .ok als := ea
  refine ⟨(if (m.attrs.get "deprecated").truthy then
      [ind ++ "# WARNING: deprecated parameter".toList] else []) ++
    showWords o.width (ind ++ spaces ((ind ++ dottedName ms m.name ++ [' ', '=']).length - ind.length)) ws
      (ind ++ dottedName ms m.name ++ [' ', '=']) [] ++ als, ?_, ?_⟩
  · rw [showDefn_eq, htmpl, hgate, he, expertHidden_none]
    simp only [h0, decide_false, Bool.false_and, Bool.false_eq_true, ↓reduceIte, expertGate_false,
      showDefnBody, hline, ea']
  · rw [unlines_append, unlines_append, unlines_showWords, ta, treeTextA]
    have e : List.length (ind ++ dottedName ms m.name ++ [' ', '=']) - List.length ind
        = List.length (dottedName ms m.name) + 2 := by
      simp only [List.length_append, List.length_cons, List.length_nil]; omega
    rw [e]
    simp only [warnText, depSet]
    by_cases hd : (m.attrs.get "deprecated").truthy = true
    · simp [hd, unlines, defHead, defIndent, List.append_assoc]
    · simp [hd, unlines, defHead, defIndent, List.append_assoc]


theorem showScope_properA_art (o : ShowOpts) (he : o.expert = none) (m : Meta) (mg : Bool)
    (hm : PlainMetaPP mg m.stripAttrs) (os : List Obj) (ms : List Str) (ind : Str) (hb : Blank ind)
    (hne : m.name ≠ [])
    (hfm : firstMerges os = false) (hok : attrsOK false ind o.level o.width m.attrs = true)
    (body : List Str) (hbody : showObjs o os [] (deeper ind) = .ok body)
    (hbt : unlines body = kidsTextA o.level o.width os [] (deeper ind)) :
    ∃ lines, showObj o (.scope m os) ms ind = .ok lines ∧
      unlines lines = treeTextA o.level o.width (.scope m os) ms ind := by
  obtain ⟨als, ea, ta, hemp⟩ := showAttributes_block_art false ind hb o.level o.width m.attrs hok
  have ea' : showAttributes scopeAttrNames m.attrs ind o.level o.width = .ok als := ea
  have hm' := meta_eq_of_plain_art hm
  have htmpl : m.tmpl = 0 := by rw [hm']
  have hdis : m.disabled = false := by rw [hm']
  have h0 : ¬ ((0 : Int) < 0) := by omega
  have hemp' : m.name.isEmpty = false := by
    cases hn : m.name with
    | nil => exact absurd hn hne
    | cons _ _ => rfl
  have hb2 : showObjs o os [] (ind ++ "  ".toList) = .ok body := hbody
  refine ⟨(if als.isEmpty then [ind ++ dottedName ms m.name ++ " {".toList]
            else [ind ++ dottedName ms m.name] ++ als ++ [ind ++ ['{']]) ++ body ++ [ind ++ ['}']], ?_, ?_⟩
  · rw [showObj_scope_eq, hfm, htmpl, he, expertHidden_none]
    simp only [h0, decide_false, Bool.false_and, Bool.false_eq_true, ↓reduceIte, expertGate_false,
      showScopeBody, hemp', ea', hdis, hb2, List.append_nil, dottedName]
  · rw [treeTextA, hfm, ← hemp]
    simp only [Bool.false_eq_true, ↓reduceIte]
    by_cases hae : als.isEmpty = true
    · simp only [hae, ↓reduceIte, unlines_append, hbt]
      simp [unlines, List.append_assoc]
    · simp only [hae, Bool.false_eq_true, ↓reduceIte, unlines_append, hbt, ta]
      simp [unlines, List.append_assoc]

theorem showScope_mergingA_art (o : ShowOpts) (he : o.expert = none) (m : Meta) (mg : Bool)
    (hm : PlainMetaPP mg m.stripAttrs) (os : List Obj) (ms : List Str) (ind : Str) (hne : m.name ≠ [])
    (hfm : firstMerges os = true) :
    showObj o (.scope m os) ms ind = showObjs o os (ms ++ [m.name]) ind := by
  have hm' := meta_eq_of_plain_art hm
  have htmpl : m.tmpl = 0 := by rw [hm']
  have h0 : ¬ ((0 : Int) < 0) := by omega
  have hemp : m.name.isEmpty = false := by
    cases hn : m.name with
    | nil => exact absurd hn hne
    | cons _ _ => rfl
  rw [showObj_scope_eq, hfm, htmpl, he, expertHidden_none]
  simp only [h0, decide_false, Bool.false_and, Bool.false_eq_true, ↓reduceIte, expertGate_false,
    showScopeBody, hemp]

theorem stripAttrs_name_obj_art (x : Obj) : x.stripAttrs.name = x.name := by
  cases x <;> simp [Obj.stripAttrs, Obj.name, Obj.meta, Meta.stripAttrs]

/-- **the printer on the class**: what `show` prints at attributes level `o.level` is `treeTextA` -/
theorem showObj_treeA_art (o : ShowOpts) (he : o.expert = none) (x : Obj) :
    ∀ (ms : List Str) (ind : Str), Blank ind → RTNode ms x.stripAttrs → x.attrsOKAt o.level o.width ind = true →
      ∃ lines, showObj o x ms ind = .ok lines ∧ unlines lines = treeTextA o.level o.width x ms ind := by
  induction x using Obj.rec
    (motive_2 := fun os => ∀ (ms : List Str) (ind : Str), Blank ind →
      ((RTAll (stripAttrsList os) ∧ ms = []) ∨ RTOne ms (stripAttrsList os)) →
      attrsOKsAt o.level o.width os ind = true →
      ∃ lines, showObjs o os ms ind = .ok lines ∧ unlines lines = kidsTextA o.level o.width os ms ind) with
  | defn m ws =>
    intro ms ind hbl h hok
    rw [Obj.stripAttrs_defn] at h
    unfold RTNode at h
    obtain ⟨hm, hn, _, _⟩ := h
    simp only [Obj.attrsOKAt, Bool.and_eq_true, Bool.or_eq_true, Bool.not_eq_true', decide_eq_true_eq] at hok
    rw [showObj_defn_eq]
    exact showDefn_genA_art o he m _ hm ws ms ind hbl (goodName_not_include hn) hok.1
      (fun hd => by rcases hok.2 with h | h; · rw [hd] at h; cases h
                    · exact h)
  | scope m os ih =>
    intro ms ind hbl h hok
    rw [Obj.stripAttrs_scope] at h
    unfold RTNode at h
    obtain ⟨hm, hn, hk⟩ := h
    have hne : m.name ≠ [] := goodName_ne_nil hn
    rcases hk with ⟨_, hk⟩ | hk
    · have hfm : firstMerges os = false := by
        rw [← firstMerges_stripAttrsList_ert]; exact hk.firstMerges
      simp only [Obj.attrsOKAt, hfm, Bool.false_eq_true, ↓reduceIte, Bool.and_eq_true] at hok
      obtain ⟨body, hb, hbt⟩ := ih [] (deeper ind) hbl.deeper (Or.inl ⟨hk, rfl⟩) hok.2
      exact showScope_properA_art o he m _ hm os ms ind hbl hne hfm hok.1 body hb hbt
    · have hfm : firstMerges os = true := by
        rw [← firstMerges_stripAttrsList_ert]; exact hk.firstMerges
      simp only [Obj.attrsOKAt, hfm, ↓reduceIte] at hok
      obtain ⟨lines, hb, hbt⟩ := ih (ms ++ [m.name]) ind hbl (Or.inr hk) hok
      refine ⟨lines, by rw [showScope_mergingA_art o he m _ hm os ms ind hne hfm]; exact hb, ?_⟩
      rw [treeTextA, hfm, hbt]
      rfl
  | nil => exact ⟨[], rfl, rfl⟩
  | cons x xs ihx ihxs =>
    rename_i ms ind hbl h hok
    simp only [attrsOKsAt, Bool.and_eq_true] at hok
    rw [stripAttrsList_cons] at h
    have hx : RTNode ms x.stripAttrs ∧ ((RTAll (stripAttrsList xs) ∧ ms = []) ∨ xs = []) := by
      rcases h with ⟨h, e⟩ | h
      · unfold RTAll at h; subst e; exact ⟨h.1, Or.inl ⟨h.2, rfl⟩⟩
      · unfold RTOne at h
        refine ⟨h.1, Or.inr ?_⟩
        cases xs with
        | nil => rfl
        | cons y ys => rw [stripAttrsList_cons] at h; cases h.2
    obtain ⟨h1, h2⟩ := hx
    obtain ⟨l1, e1, t1⟩ := ihx ms ind hbl h1 hok.1
    obtain ⟨l2, e2, t2⟩ : ∃ lines, showObjs o xs ms ind = .ok lines ∧
        unlines lines = kidsTextA o.level o.width xs ms ind := by
      rcases h2 with h2 | h2
      · exact ihxs ms ind hbl (Or.inl h2) hok.2
      · subst h2; exact ⟨[], rfl, by rw [kidsTextA]; rfl⟩
    refine ⟨l1 ++ l2, by rw [showObjs_cons, e1, e2]; rfl, ?_⟩
    rw [unlines_append, t1, t2, kidsTextA]

/-- printing the root scope of a document of trees with attributes -/
theorem asStr_treesA_art (o : ShowOpts) (he : o.expert = none) (objs : List Obj) (ind : Str)
    (hbl : Blank ind) (h : RTAll (stripAttrsList objs)) (hok : attrsOKsAt o.level o.width objs ind = true) :
    asStr o (rootOf objs) ind = .ok (kidsTextA o.level o.width objs [] ind) := by
  have : ∃ lines, showObjs o objs [] ind = .ok lines ∧
      unlines lines = kidsTextA o.level o.width objs [] ind := by
    induction objs with
    | nil => exact ⟨[], rfl, rfl⟩
    | cons x xs ih =>
      rw [stripAttrsList_cons] at h
      unfold RTAll at h
      simp only [attrsOKsAt, Bool.and_eq_true] at hok
      obtain ⟨l1, e1, t1⟩ := showObj_treeA_art o he x [] ind hbl h.1 hok.1
      obtain ⟨l2, e2, t2⟩ := ih h.2 hok.2
      refine ⟨l1 ++ l2, by rw [showObjs_cons, e1, e2]; rfl, ?_⟩
      rw [unlines_append, t1, t2, kidsTextA]
  obtain ⟨lines, e, t⟩ := this
  rw [asStr_root_pre_ert, e]
  simp only [Except.map, t]


/-! ### the parser on the printed tree -/

mutual
/-- turns of `collect_objects` needed for the printed tree: one per printed item, one per attribute
    line of a definition (the attribute lines of a scope header are read by an inner loop) -/
def Obj.costA (L : Int) : Obj → Nat
  | .defn m _ => 1 + (shownAttrs true L m.attrs).length
  | .scope _ os => if firstMerges os then costAList L os else 1 + costAList L os
def costAList (L : Int) : List Obj → Nat
  | [] => 0
  | x :: xs => x.costA L + costAList L xs
end

/-- the attribute block after a definition, any level -/
theorem defn_attrs_block2_art (pre : Str) (hb : Blank pre) (level width : Int) (attrs : Attrs)
    (hok : attrsOK true pre level width attrs = true)
    (fuel : Nat) (more : Str) (l i : Nat) (stop : Option Word) (prevLine : Nat) (acc : List Obj)
    (d : Obj) (hnext : NextOK more) :
    ∃ l' prevLine',
      collectObjects (fuel + (shownAttrs true level attrs).length)
          { ci := ⟨'\n' :: (attrBlock true pre level width attrs ++ more), l⟩, nextId := i } stop prevLine
          acc (some d)
        = collectObjects fuel { ci := ⟨'\n' :: more, l'⟩, nextId := i } stop prevLine' acc
            (some (d.withMeta (fun m => { m with attrs := m.attrs ++ shownAttrs true level attrs }))) := by
  unfold attrBlock shownAttrs
  by_cases hl : level ≤ 0
  · simp only [hl, ↓reduceIte, List.length_nil, Nat.add_zero, List.nil_append]
    exact ⟨l, prevLine, by rw [withMeta_attrs_nil_art]⟩
  · simp only [hl, ↓reduceIte]
    have h' : attrsOKList true pre level width attrs (attrNamesOf true) = true := by
      simpa [attrsOK, hl] using hok
    exact defn_attrs_block_art pre hb level width attrs (attrNamesOf true) (fun n hn => hn) h' fuel more l i
      stop prevLine acc d hnext

theorem NextOK_attrBlock_art (isDef : Bool) (pre : Str) (hb : Blank pre) (level width : Int) (attrs : Attrs)
    (tail : Str) (ht : NextOK tail) : NextOK (attrBlock isDef pre level width attrs ++ tail) := by
  unfold attrBlock
  split
  · exact ht
  · exact NextOK_attrsText_art pre hb level width attrs tail ht _

mutual
/-- the printed text of the object starts with the `# WARNING` line of a deprecated definition -/
def Obj.startsDep : Obj → Bool
  | .defn m _ => depSet m
  | .scope _ os => if firstMerges os then startsDepList os else false
def startsDepList : List Obj → Bool
  | [] => false
  | x :: _ => x.startsDep
end

mutual
/-- the printed text of the object ends with a value or attribute line (not with `}`) -/
def Obj.endsVal : Obj → Bool
  | .defn _ _ => true
  | .scope _ os => if firstMerges os then endsValList os else false
def endsValList : List Obj → Bool
  | [] => false
  | x :: _ => x.endsVal
end

mutual
/-- **placement of deprecated definitions**: in no list of objects a deprecated definition directly
    follows a definition (its `# WARNING` line would be met by the value collector of the line
    before; the structural tokenizer skips it after `{`, `}` and at the start of the text).
    Trees without deprecated definitions satisfy it. -/
def Obj.depPlaced : Obj → Bool
  | .defn _ _ => true
  | .scope _ os => depPlacedList os
def depPlacedList : List Obj → Bool
  | [] => true
  | x :: xs => x.depPlaced && !(x.endsVal && startsDepList xs) && depPlacedList xs
end

theorem depPlaced_of_noDeprecated_art (x : Obj) :
    x.noDeprecated = true → x.depPlaced = true ∧ x.startsDep = false := by
  induction x using Obj.rec
    (motive_2 := fun os => noDeprecatedList os = true →
      depPlacedList os = true ∧ startsDepList os = false) with
  | defn m ws =>
    intro h
    rw [noDeprecated_defn_ert] at h
    simp only [Obj.depPlaced, Obj.startsDep, true_and]
    simpa using h
  | scope m os ih =>
    intro h
    rw [noDeprecated_scope_ert] at h
    obtain ⟨h1, h2⟩ := ih h
    simp only [Obj.depPlaced, Obj.startsDep, h1, h2, true_and]
    split <;> rfl
  | nil => exact ⟨rfl, rfl⟩
  | cons x xs ihx ihxs =>
    rename_i h
    rw [noDeprecatedList_cons_ert, Bool.and_eq_true] at h
    obtain ⟨a1, a2⟩ := ihx h.1
    obtain ⟨b1, b2⟩ := ihxs h.2
    simp [depPlacedList, startsDepList, a1, a2, b1, b2]

theorem depPlacedList_of_noDeprecated_art (os : List Obj) (h : noDeprecatedList os = true) :
    depPlacedList os = true := by
  induction os with
  | nil => rfl
  | cons x xs ih =>
    rw [noDeprecatedList_cons_ert, Bool.and_eq_true] at h
    obtain ⟨a1, _⟩ := depPlaced_of_noDeprecated_art x h.1
    have hs : startsDepList xs = false := by
      cases xs with
      | nil => rfl
      | cons y ys =>
        rw [noDeprecatedList_cons_ert, Bool.and_eq_true] at h
        exact (depPlaced_of_noDeprecated_art y h.2.1).2
    simp [depPlacedList, a1, hs, ih h.2]

theorem depPlaced_of_mem_art {os : List Obj} (h : depPlacedList os = true) {x : Obj} (hx : x ∈ os) :
    x.depPlaced = true := by
  induction os with
  | nil => cases hx
  | cons y ys ih =>
    simp only [depPlacedList, Bool.and_eq_true] at h
    rcases List.mem_cons.mp hx with rfl | hx
    · exact h.1.1
    · exact ih h.2 hx

/-- the structural tokenizer skips the warning line of a deprecated definition -/
theorem warn_skip_art (rest : Str) (l : Nat) :
    nextWordAux structSettings false ("# WARNING: deprecated parameter\n".toList ++ rest) l
      = nextWordAux structSettings false rest (l + 1) := by
  rfl

/-- one turn (plus the turns for attribute lines, plus the recursive call for a scope) of
    `collect_objects` over the printed text of the tree `x` -/
def StepAtA (L w : Int) (x : Obj) (ms : List Str) (ind : Str) : Prop :=
  ∀ (fuel : Nat) (pre more : Str) (l i : Nat) (stop : Option Word) (prevLine : Nat) (acc : List Obj)
    (pending : Option Obj),
    (∀ c ∈ pre, isSpace c = true) → x.costA L ≤ fuel → (x.endsVal = true → NextOK more) →
    ∃ x' acc' pending' l' prevLine' fuel',
      collectObjects (fuel + 1) { ci := ⟨pre ++ treeTextA L w x ms ind ++ more, l⟩, nextId := i } stop
          prevLine acc pending
        = collectObjects fuel' { ci := ⟨'\n' :: more, l'⟩, nextId := i + x.items } stop prevLine' acc'
            pending' ∧
      fuel + 1 ≤ fuel' + x.costA L ∧
      flush acc' pending' = flush acc pending ++ [x'] ∧
      x'.erase = (nestIn none false ms (x.normA L)).erase ∧
      x'.ids = (List.replicate ms.length i ++ expIds i x).map some

def StepA (L w : Int) (x : Obj) : Prop :=
  ∀ (ms : List Str) (ind : Str), GoodPath ms → Blank ind → RTNode ms x.stripAttrs →
    WrapsOK w x.stripAttrs ms ind → x.attrsOKAt L w ind = true → x.depPlaced = true →
    StepAtA L w x ms ind

theorem withMeta_defn_art (m : Meta) (ws : List Word) (f : Meta → Meta) :
    (Obj.defn m ws).withMeta f = .defn (f m) ws := rfl

/-- the turn for a definition and its attribute lines -/
theorem step_defnA_art (L w : Int) (m : Meta) (ws : List Word) : StepA L w (.defn m ws) := by
  intro ms ind hp hb h hw hok _ fuel pre more l i stop prevLine acc pending hpre hf hnext0
  have hnext : NextOK more := hnext0 (by simp [Obj.endsVal])
  rw [Obj.stripAttrs_defn] at h hw
  unfold RTNode at h
  obtain ⟨hm, hn, hres, hne, hgw⟩ := h
  unfold WrapsOK at hw
  have hname : m.stripAttrs.name = m.name := rfl
  rw [hname] at hn hres hw
  have hm' := meta_eq_of_plain_art hm
  simp only [Obj.attrsOKAt, Bool.and_eq_true] at hok
  have hit := itemName_dotted hp hn hres
  obtain ⟨c, wd, e, hs, hall⟩ := hit.chars
  have hcont := idStart_cont hs
  obtain ⟨_, _, _, _, h5, _, _, h8, _⟩ := idCont_facts hcont
  have hpre' : ∀ d ∈ pre ++ ind, isSpace d = true := by
    intro d hd
    rcases List.mem_append.mp hd with h | h
    · exact hpre d h
    · exact hb.isSpace d h
  have hindent : ∀ d ∈ ind ++ defIndent (dottedName ms m.name), d = ' ' := by
    intro d hd
    rcases List.mem_append.mp hd with h | h
    · exact hb d h
    · exact defIndent_blank _ d h
  have hAB := NextOK_attrBlock_art true ind hb L w m.attrs more hnext
  -- the name is the first structural word, on some line `L0` (a warning line in front is skipped)
  have hc := idCont_not_ends hcont
  have hcm : structSettings.commentChars.contains c = false := by
    simp [structSettings, Gen.structComment, h5]
  obtain ⟨L0, hhead⟩ : ∃ L0, ∀ V : Str,
      nextWord structSettings ⟨pre ++ (warnText m ind ++ ind) ++ (c :: wd) ++ ([' '] ++ '=' :: V), l⟩
        = .ok (some ({ value := c :: wd, quote := none, line := some L0 }, ⟨[' '] ++ '=' :: V, L0⟩)) := by
    have hword : ∀ (V : Str) (l1 : Nat), nextWordAux structSettings false ((c :: wd) ++ ([' '] ++ '=' :: V)) l1
        = .ok (some ({ value := c :: wd, quote := none, line := some l1 }, ⟨[' '] ++ '=' :: V, l1⟩)) :=
      fun V l1 => nextWordAux_plain structSettings c wd _ _ hc (idCont_not_quote hcont) hcm
        (startsLong_of_not_ends rfl hc) (fun d hd => idCont_not_ends (hall d (by simp [hd])))
        (ends_of_isSpace _ (space_blank ' ' (by simp)))
    by_cases hd : depSet m = true
    · refine ⟨l + nlCount (pre ++ ind) + 1 + nlCount ind, fun V => ?_⟩
      have ht : pre ++ (warnText m ind ++ ind) ++ (c :: wd) ++ ([' '] ++ '=' :: V)
          = (pre ++ ind) ++ ("# WARNING: deprecated parameter\n".toList ++
              (ind ++ ((c :: wd) ++ ([' '] ++ '=' :: V)))) := by
        simp [warnText, hd]
      unfold nextWord
      simp only []
      rw [ht, nextWordAux_skip structSettings (pre ++ ind) _ hpre', warn_skip_art,
        nextWordAux_skip structSettings ind _ hb.isSpace]
      exact hword V _
    · refine ⟨l + nlCount (pre ++ ind), fun V => ?_⟩
      have ht : pre ++ (warnText m ind ++ ind) ++ (c :: wd) ++ ([' '] ++ '=' :: V)
          = (pre ++ ind) ++ ((c :: wd) ++ ([' '] ++ '=' :: V)) := by
        simp [warnText, hd]
      unfold nextWord
      simp only []
      rw [ht, nextWordAux_skip structSettings (pre ++ ind) _ hpre']
      exact hword V _
  have hci : (⟨pre ++ treeTextA L w (.defn m ws) ms ind ++ more, l⟩ : CI)
      = ⟨pre ++ (warnText m ind ++ ind) ++ (c :: wd) ++ ([' '] ++ '=' ::
          (wrapTail w (ind ++ defIndent (dottedName ms m.name)) ws (ind ++ defHead (dottedName ms m.name))
            ++ '\n' :: (attrBlock true ind L w m.attrs ++ more))), l⟩ := by
    rw [treeTextA, ← e]; simp
  have h2 := fun V => nextWord_struct_eq [' '] V L0 space_blank
  have h3 := collectAssigned_wrapped w (ind ++ defIndent (dottedName ms m.name))
    (ind ++ defHead (dottedName ms m.name)) ws (attrBlock true ind L w m.attrs ++ more)
    (L0 + nlCount [' '])
    { value := c :: wd, quote := none, line := some L0 } hindent hne hgw hw
    (by rw [nlCount_blank]; rfl) (by rw [isUnq_backslash]; simp [h8]) hAB
  obtain ⟨k, hk⟩ : ∃ k, k = (shownAttrs true L m.attrs).length := ⟨_, rfl⟩
  have hcost : (Obj.defn m ws).costA L = 1 + k := by rw [Obj.costA, hk]
  obtain ⟨f0, hf0⟩ : ∃ f0, fuel = f0 + k := ⟨fuel - k, by rw [hcost] at hf; omega⟩
  have hstep := collectObjects_defn_step fuel
    { ci := ⟨pre ++ treeTextA L w (.defn m ws) ms ind ++ more, l⟩, nextId := i } stop prevLine acc pending
    { value := c :: wd, quote := none, line := some L0 }
    { value := ['='], quote := none, line := some (L0 + nlCount [' ']) } _ _ _ _
    (by rw [hci]; exact hhead _) rfl (by rw [← e]; exact hit.defName) (h2 _) rfl rfl h3
  obtain ⟨l', prevLine', hblock⟩ := defn_attrs_block2_art ind hb L w m.attrs hok.1 f0 more
    (wrapEnd w (ind ++ defIndent (dottedName ms m.name)) ws (ind ++ defHead (dottedName ms m.name))
      (L0 + nlCount [' '])) (i + 1) stop L0 (flush acc pending)
    (.defn { name := c :: wd, id := some i, line := some L0 }
      (wrapWords w (ind ++ defIndent (dottedName ms m.name)) ws (ind ++ defHead (dottedName ms m.name))
        (L0 + nlCount [' '])))
    hnext
  rw [← hk] at hblock
  refine ⟨wrapDotted (.defn { name := c :: wd, id := some i, line := some L0, attrs := shownAttrs true L m.attrs }
      (wrapWords w (ind ++ defIndent (dottedName ms m.name)) ws (ind ++ defHead (dottedName ms m.name))
        (L0 + nlCount [' '])))
    , flush acc pending,
    some (.defn { name := c :: wd, id := some i, line := some L0, attrs := shownAttrs true L m.attrs }
      (wrapWords w (ind ++ defIndent (dottedName ms m.name)) ws (ind ++ defHead (dottedName ms m.name))
        (L0 + nlCount [' ']))),
    l', prevLine', f0, ?_, by rw [hcost]; omega, by simp [flush, adopt], ?_, ?_⟩
  · rw [hstep]
    simp only [Option.getD_some]
    rw [hf0, hblock]
    simp [withMeta_defn_art, Obj.items]
  · rw [wrapDotted_dotted _ ms m.name (by rw [← e]; rfl)
      (fun n hn' => (hp.snoc hn).noDots n hn') rfl, nestIn_erase, nestIn_erase]
    rw [hm']
    simp only [Obj.withMeta, Obj.normA, Obj.erase_defn, wrapWords_erase]
    rfl
  · rw [wrapDotted_dotted _ ms m.name (by rw [← e]; rfl)
      (fun n hn' => (hp.snoc hn).noDots n hn') rfl, nestIn_ids]
    simp [Obj.withMeta, Obj.ids, expIds, Obj.meta]

/-! ### scope headers with attribute lines -/

/-- One turn of `collect_objects` for a scope header `name [.attr = …]* {`: the attribute loop returns
    `attrs` and stops at the brace; the body is collected by the recursive call. -/
theorem collectObjects_scope_stepA_art (fuel : Nat) (st : PState) (stop : Option Word) (prevLine : Nat)
    (acc : List Obj) (pending : Option Obj) (lead w brace : Word) (ci1 ci2 ci3 : CI) (attrs : Attrs)
    (h1 : nextWord structSettings st.ci = .ok (some (lead, ci1)))
    (hlq : lead.quote = none)
    (hname : plainDefName lead.value = true) (hstd : isStdIdent lead.value = true)
    (hres : reservedName false lead.value = false)
    (h2 : nextWord structSettings ci1 = .ok (some (w, ci2)))
    (hwq : w.quote = none) (hwv : w.value = ['{'] ∨ w.value.take 1 = ['.'])
    (hloop : scopeAttrsLoop (ci2.rest.length + 2) ci2 w [] = .ok (attrs, brace, ci3)) :
    collectObjects (fuel + 1) st stop prevLine acc pending
      = scopeCont fuel stop (lead.line.getD 0) acc pending
          { name := lead.value, id := some st.nextId, line := lead.line, attrs := attrs }
          (collectObjects fuel { ci := ci3, nextId := st.nextId + 1 } (some brace) 0 [] none) := by
  simp only [plainDefName, Bool.and_eq_true, bne_iff_ne, ne_eq, Bool.not_eq_true'] at hname
  obtain ⟨⟨⟨⟨⟨⟨⟨n1, n2⟩, n3⟩, n4⟩, n5⟩, n6⟩, n7⟩, n8⟩ := hname
  have hsb := stripBang_of_not_bang lead n4
  have n1' : ¬ lead.value = ['#', 'p', 'h', 'i', 'l'] := by simpa using n1
  have e1 := tryPopUnquoted_of_next h1 hlq
  have e2 := pop_of_next h2
  rcases hwv with hwv | hwv
  · cases stop <;>
      simp [collectObjects, e1, e2, n1', n2, n3, hsb, hstd, hres, hwq, hwv, hloop, scopeCont] <;>
      rfl
  · cases stop <;>
      simp [collectObjects, e1, e2, n1', n2, n3, hsb, hstd, hres, hwq, hwv, hloop, scopeCont] <;>
      rfl

/-- the word iterator (structure context) on white space followed by an item name and white space -/
theorem nextWord_struct_name_sp_art (pre nm rest : Str) (d : Char) (l : Nat)
    (hpre : ∀ d ∈ pre, isSpace d = true) (hd : isSpace d = true) (hn : ItemName nm) :
    nextWord structSettings ⟨pre ++ nm ++ d :: rest, l⟩
      = .ok (some ({ value := nm, quote := none, line := some (l + nlCount pre) },
                   ⟨d :: rest, l + nlCount pre⟩)) := by
  obtain ⟨c, w, e, hs, hall⟩ := hn.chars
  subst e
  have hcont := idStart_cont hs
  obtain ⟨_, _, _, _, h5, _⟩ := idCont_facts hcont
  have hc := idCont_not_ends hcont
  have hcm : structSettings.commentChars.contains c = false := by
    simp [structSettings, Gen.structComment, h5]
  unfold nextWord
  simp only []
  rw [List.append_assoc, nextWordAux_skip structSettings pre _ hpre]
  exact nextWordAux_plain structSettings c w _ _ hc (idCont_not_quote hcont) hcm
    (startsLong_of_not_ends rfl hc) (fun d hd => idCont_not_ends (hall d (by simp [hd])))
    (ends_of_isSpace _ hd)

/-- what follows the name in a scope header: ` {` when no attribute is printed, else the attribute
    lines and a `{` on a line of its own -/
def headTail (ind : Str) (L w : Int) (attrs : Attrs) (V : Str) : Str :=
  if (shownAttrs false L attrs).isEmpty then ' ' :: '{' :: V
  else '\n' :: (attrBlock false ind L w attrs ++ ind ++ '{' :: V)

/-- One turn of `collect_objects` on a printed scope header. -/
theorem collectObjects_open_scopeA_art (fuel : Nat) (stop : Option Word) (prevLine : Nat)
    (acc : List Obj) (pending : Option Obj) (pre nm V ind : Str) (l i : Nat) (L w : Int) (attrs : Attrs)
    (hpre : ∀ d ∈ pre, isSpace d = true) (hn : ItemName nm) (hb : Blank ind)
    (hok : attrsOK false ind L w attrs = true) :
    ∃ l' bl, collectObjects (fuel + 1) { ci := ⟨pre ++ nm ++ headTail ind L w attrs V, l⟩, nextId := i } stop
        prevLine acc pending
      = scopeCont fuel stop (l + nlCount pre) acc pending
          { name := nm, id := some i, line := some (l + nlCount pre), attrs := shownAttrs false L attrs }
          (collectObjects fuel { ci := ⟨V, l'⟩, nextId := i + 1 }
            (some { value := ['{'], quote := none, line := some bl }) 0 [] none) := by
  have hblank0 : Blank [] := by intro d hd; simp at hd
  -- the three shapes of the header are instances of one text
  obtain ⟨d, sp, ns, pre', hd, hsp, hb', hmem, hokl, htext, hshown⟩ :
      ∃ (d : Char) (sp : Str) (ns : List String) (pre' : Str), isSpace d = true ∧
        (∀ c ∈ d :: sp, isSpace c = true) ∧ Blank pre' ∧
        (∀ n ∈ ns, n ∈ scopeAttrNames) ∧ attrsOKList false ind L w attrs ns = true ∧
        headTail ind L w attrs V = (d :: sp) ++ attrsTextRT ind L w attrs ns ++ pre' ++ '{' :: V ∧
        shownAttrs false L attrs = shownList L attrs ns := by
    unfold headTail
    by_cases hemp : (shownAttrs false L attrs).isEmpty = true
    · refine ⟨' ', [], [], [], rfl, space_blank, hblank0, by simp, rfl, ?_, ?_⟩
      · simp [hemp, attrsTextRT]
      · have : shownAttrs false L attrs = [] := by simpa using hemp
        rw [this]; rfl
    · have hl : ¬ L ≤ 0 := by
        intro hl; apply hemp; simp [shownAttrs, hl]
      refine ⟨'\n', [], attrNamesOf false, ind, rfl, space_nl, hb, fun n hn => hn, ?_, ?_, ?_⟩
      · simpa [attrsOK, hl] using hok
      · simp [hemp, attrBlock, hl]
      · simp [shownAttrs, hl]
  obtain ⟨w0, ci2, l', h2, hq, hv, hbound, hloop⟩ :=
    scope_attrs_block_art ind pre' V hb hb' L w attrs ns hmem hokl (d :: sp) (l + nlCount pre) hsp
  have h1 := nextWord_struct_name_sp_art pre nm (sp ++ attrsTextRT ind L w attrs ns ++ pre' ++ '{' :: V) d l hpre hd hn
  have hci : (⟨pre ++ nm ++ headTail ind L w attrs V, l⟩ : CI)
      = ⟨pre ++ nm ++ d :: (sp ++ attrsTextRT ind L w attrs ns ++ pre' ++ '{' :: V), l⟩ := by
    rw [htext]; simp
  have h2' : nextWord structSettings
      ⟨d :: (sp ++ attrsTextRT ind L w attrs ns ++ pre' ++ '{' :: V), l + nlCount pre⟩ = .ok (some (w0, ci2)) := by
    have : d :: (sp ++ attrsTextRT ind L w attrs ns ++ pre' ++ '{' :: V)
        = (d :: sp) ++ attrsTextRT ind L w attrs ns ++ pre' ++ '{' :: V := by simp
    rw [this]; exact h2
  have hl := hloop (ci2.rest.length + 2) [] (by omega)
  refine ⟨l', l', ?_⟩
  have key := collectObjects_scope_stepA_art fuel
    { ci := ⟨pre ++ nm ++ headTail ind L w attrs V, l⟩, nextId := i } stop prevLine acc pending
    { value := nm, quote := none, line := some (l + nlCount pre) } w0
    { value := ['{'], quote := none, line := some l' } _ ci2 ⟨V, l'⟩ (shownList L attrs ns)
    (by rw [hci]; exact h1) rfl hn.defName hn.stdIdent hn.notReserved h2' hq hv
    (by rw [hl]; simp)
  rw [key, hshown]
  rfl

/-! ### what may follow a value, with attributes -/

theorem noDeprecated_of_mem_art {os : List Obj} (h : noDeprecatedList os = true) {x : Obj} (hx : x ∈ os) :
    x.noDeprecated = true := (noDeprecatedList_iff_ert os).mp h x hx

/-- the text of a tree that does not start with a warning line starts (after the indentation) with an
    item name -/
theorem NextOK_treeA_art (L w : Int) (x : Obj) :
    ∀ (ms : List Str) (ind more : Str), GoodPath ms → Blank ind → RTNode ms x.stripAttrs →
      x.startsDep = false → NextOK (treeTextA L w x ms ind ++ more) := by
  induction x using Obj.rec
    (motive_2 := fun os => ∀ (ms : List Str) (ind more : Str), GoodPath ms → Blank ind →
      RTOne ms (stripAttrsList os) → startsDepList os = false →
      NextOK (kidsTextA L w os ms ind ++ more)) with
  | defn m ws =>
    intro ms ind more hp hb h hnd
    rw [Obj.stripAttrs_defn] at h
    unfold RTNode at h
    obtain ⟨_, hn, hres, _⟩ := h
    have hdep : depSet m = false := by simpa [Obj.startsDep] using hnd
    rw [treeTextA, warnText, hdep]
    simp only [Bool.false_eq_true, ↓reduceIte, List.nil_append, List.append_assoc]
    rw [← List.append_assoc]
    exact NextOK_name ind _ _ hb (itemName_dotted hp hn hres)
  | scope m os ih =>
    intro ms ind more hp hb h hnd
    rw [Obj.stripAttrs_scope] at h
    unfold RTNode at h
    obtain ⟨_, hn, hk⟩ := h
    rcases hk with ⟨hres, hk⟩ | hk
    · have hfm : firstMerges os = false := by
        rw [← firstMerges_stripAttrsList_ert]; exact hk.firstMerges
      rw [treeTextA, hfm]
      simp only [Bool.false_eq_true, ↓reduceIte]
      split
      · simp only [List.append_assoc]
        rw [← List.append_assoc]
        exact NextOK_name ind _ _ hb (itemName_dotted hp hn hres)
      · simp only [List.append_assoc]
        rw [← List.append_assoc]
        exact NextOK_name ind _ _ hb (itemName_dotted hp hn hres)
    · have hfm : firstMerges os = true := by
        rw [← firstMerges_stripAttrsList_ert]; exact hk.firstMerges
      rw [treeTextA, hfm]
      simp only [Obj.startsDep, hfm, ↓reduceIte] at hnd
      exact ih (ms ++ [m.name]) ind more (hp.snoc hn) hb hk hnd
  | nil => rename_i ms ind more hp hb h hnd; unfold RTOne at h; exact h.elim
  | cons x xs ihx ihxs =>
    rename_i ms ind more hp hb h hnd
    rw [stripAttrsList_cons] at h
    unfold RTOne at h
    rw [kidsTextA, List.append_assoc]
    exact ihx ms ind _ hp hb h.1 (by simpa [startsDepList] using hnd)

theorem NextOK_kidsA_art (L w : Int) (os : List Obj) (ind tail : Str) (hb : Blank ind)
    (h : RTAll (stripAttrsList os)) (hnd : startsDepList os = false) (ht : NextOK tail) :
    NextOK (kidsTextA L w os [] ind ++ tail) := by
  cases os with
  | nil => rw [kidsTextA]; exact ht
  | cons x xs =>
    rw [stripAttrsList_cons] at h
    unfold RTAll at h
    rw [kidsTextA, List.append_assoc]
    exact NextOK_treeA_art L w x [] ind _ (by intro n hn; simp at hn) hb h.1
      (by simpa [startsDepList] using hnd)

/-! ### blocks and steps -/

/-- `collect_objects` over the printed text of a block of trees up to its end -/
def BlockAtA (L w : Int) (os : List Obj) (ind : Str) : Prop :=
  ∀ (fuel : Nat) (pre tail after : Str) (l i : Nat) (stop : Option Word) (prevLine : Nat)
    (acc : List Obj) (pending : Option Obj),
    (∀ c ∈ pre, isSpace c = true) → costAList L os + 1 ≤ fuel → Closes stop tail after →
    ∃ objs' st',
      collectObjects fuel { ci := ⟨pre ++ kidsTextA L w os [] ind ++ tail, l⟩, nextId := i } stop prevLine
          acc pending
        = .ok (flush acc pending ++ objs', st') ∧
      st'.nextId = i + itemsList os ∧ (stop.isSome = true → ∃ l', st'.ci = ⟨after, l'⟩) ∧
      eraseList objs' = eraseList (normAList L os) ∧ idsList objs' = (expIdsSeq i os).map some

theorem block_nilA_art (L w : Int) (ind : Str) : BlockAtA L w [] ind := by
  intro fuel pre tail after l i stop prevLine acc pending hpre hf hc
  have := block_nil w ind fuel pre tail after l i stop prevLine acc pending hpre
    (by simpa [costAList, itemsList] using hf) hc
  simpa [kidsTextA, kidsText, normAList] using this

theorem costA_pos_art (L : Int) (x : Obj) : ∀ (ms : List Str), RTNode ms x.stripAttrs → 1 ≤ x.costA L := by
  induction x using Obj.rec
    (motive_2 := fun os => ∀ (ms : List Str), RTOne ms (stripAttrsList os) → 1 ≤ costAList L os) with
  | defn m ws => intro ms _; simp [Obj.costA]
  | scope m os ih =>
    intro ms h
    rw [Obj.stripAttrs_scope] at h
    unfold RTNode at h
    rcases h.2.2 with ⟨_, hk⟩ | hk
    · have hfm : firstMerges os = false := by
        rw [← firstMerges_stripAttrsList_ert]; exact hk.firstMerges
      rw [Obj.costA, hfm]; simp
    · have hfm : firstMerges os = true := by
        rw [← firstMerges_stripAttrsList_ert]; exact hk.firstMerges
      rw [Obj.costA, hfm]; simpa using ih _ hk
  | nil => rename_i ms h; unfold RTOne at h; exact h.elim
  | cons x xs ihx ihxs =>
    rename_i ms h
    rw [stripAttrsList_cons] at h
    unfold RTOne at h
    have := ihx ms h.1
    rw [costAList]; omega

/-- a block: the turns of each tree, then the end -/
theorem block_of_stepsA_art (L w : Int) (os : List Obj) (ind : Str) (hb : Blank ind) :
    (∀ x ∈ os, StepAtA L w x [] ind) → RTAll (stripAttrsList os) → depPlacedList os = true →
      BlockAtA L w os ind := by
  induction os with
  | nil => intro _ _ _; exact block_nilA_art L w ind
  | cons x xs ih =>
    intro hs hrt hnd fuel pre tail after l i stop prevLine acc pending hpre hf hc
    have hrt' := hrt
    rw [stripAttrsList_cons] at hrt'
    unfold RTAll at hrt'
    have hnd' := hnd
    simp only [depPlacedList, Bool.and_eq_true, Bool.not_eq_true', Bool.and_eq_false_iff] at hnd'
    obtain ⟨f, rfl⟩ : ∃ f, fuel = f + 1 := ⟨fuel - 1, by omega⟩
    have hfx : x.costA L ≤ f := by simp only [costAList] at hf; omega
    obtain ⟨x', acc', pending', l', prevLine', fuel', hstep, hfu, hflush, her, hid⟩ :=
      hs x (by simp) f pre (kidsTextA L w xs [] ind ++ tail) l i stop prevLine acc pending hpre hfx
        (fun he => NextOK_kidsA_art L w xs ind tail hb hrt'.2
          (by rcases hnd'.1.2 with h | h
              · rw [he] at h; cases h
              · exact h) hc.nextOK)
    have hfxs : costAList L xs + 1 ≤ fuel' := by
      simp only [costAList] at hf
      omega
    obtain ⟨objs', st', hrest, hnid, hci, her', hid'⟩ :=
      ih (fun y hy => hs y (by simp [hy])) hrt'.2 hnd'.2 fuel' ['\n'] tail after l' (i + x.items) stop
        prevLine' acc' pending' space_nl hfxs hc
    refine ⟨x' :: objs', st', ?_, ?_, hci, ?_, ?_⟩
    · have e : pre ++ kidsTextA L w (x :: xs) [] ind ++ tail
          = pre ++ treeTextA L w x [] ind ++ (kidsTextA L w xs [] ind ++ tail) := by
        rw [kidsTextA]; simp
      rw [e, hstep]
      have e2 : '\n' :: (kidsTextA L w xs [] ind ++ tail) = ['\n'] ++ kidsTextA L w xs [] ind ++ tail := rfl
      rw [e2, hrest, hflush]
      simp
    · rw [hnid, itemsList]; omega
    · rw [eraseList_cons, normAList, eraseList_cons, her', her]; rfl
    · rw [idsList, hid, hid', expIdsSeq]; simp

theorem treeTextA_scope_proper_art (L w : Int) (m : Meta) (os : List Obj) (ms : List Str) (ind : Str)
    (hfm : firstMerges os = false) :
    treeTextA L w (.scope m os) ms ind
      = ind ++ dottedName ms m.name ++ headTail ind L w m.attrs
          ('\n' :: (kidsTextA L w os [] (deeper ind) ++ (ind ++ ['}', '\n']))) := by
  rw [treeTextA, hfm]
  simp only [Bool.false_eq_true, ↓reduceIte, headTail]
  split <;> simp [List.append_assoc]

/-- the turn for a proper scope (header with attribute lines), given the recursive call for its body -/
theorem step_scope_properA_art (L w : Int) (m : Meta) (os : List Obj) (ms : List Str) (ind : Str)
    (hp : GoodPath ms) (hb : Blank ind) (hm : PlainMetaPP (!ms.isEmpty) m.stripAttrs)
    (hn : goodName m.name = true) (hres : isReserved (dottedName ms m.name) = false)
    (hfm : firstMerges os = false) (hok : attrsOK false ind L w m.attrs = true)
    (hbody : BlockAtA L w os (deeper ind)) : StepAtA L w (.scope m os) ms ind := by
  intro fuel pre more l i stop prevLine acc pending hpre hf hnext
  have hit := itemName_dotted hp hn hres
  have hm' := meta_eq_of_plain_art hm
  have hpre' : ∀ d ∈ pre ++ ind, isSpace d = true := by
    intro d hd
    rcases List.mem_append.mp hd with h | h
    · exact hpre d h
    · exact hb.isSpace d h
  have htext : pre ++ treeTextA L w (.scope m os) ms ind ++ more
      = (pre ++ ind) ++ dottedName ms m.name ++ headTail ind L w m.attrs
          (['\n'] ++ kidsTextA L w os [] (deeper ind) ++ (ind ++ '}' :: ('\n' :: more))) := by
    rw [treeTextA_scope_proper_art L w m os ms ind hfm]
    unfold headTail
    split <;> simp [List.append_assoc]
  have hcost : (Obj.scope m os).costA L = 1 + costAList L os := by
    rw [Obj.costA, hfm]; simp
  have hfb : costAList L os + 1 ≤ fuel := by rw [hcost] at hf; omega
  obtain ⟨l0, bl, hopen⟩ := collectObjects_open_scopeA_art fuel stop prevLine acc pending (pre ++ ind)
    (dottedName ms m.name)
    (['\n'] ++ kidsTextA L w os [] (deeper ind) ++ (ind ++ '}' :: ('\n' :: more))) ind l i L w m.attrs hpre'
    hit hb hok
  obtain ⟨objs', st', hrun, hnid, hci, her, hid⟩ :=
    hbody fuel ['\n'] (ind ++ '}' :: ('\n' :: more)) ('\n' :: more) l0 (i + 1)
      (some { value := ['{'], quote := none, line := some bl }) 0 [] none
      space_nl hfb (Or.inr ⟨_, ind, rfl, hb, rfl⟩)
  obtain ⟨l', hci'⟩ := hci rfl
  have hitems : (Obj.scope m os).items = 1 + itemsList os := by
    rw [Obj.items, hfm]; simp
  have hst : st' = { ci := ⟨'\n' :: more, l'⟩, nextId := i + (Obj.scope m os).items } := by
    cases st' with
    | mk ci nid =>
      simp only at hci' hnid
      rw [hci', hnid, hitems]
      congr 1
      omega
  refine ⟨wrapDotted (.scope { name := dottedName ms m.name, id := some i, line := some (l + nlCount (pre ++ ind)), attrs := shownAttrs false L m.attrs } objs'),
    _, none, l', l + nlCount (pre ++ ind), fuel, ?_, by rw [hcost]; omega, rfl, ?_, ?_⟩
  · rw [htext, hopen, hrun]
    simp only [flush, List.nil_append, scopeCont, adopt, hst]
  · rw [wrapDotted_dotted _ ms m.name rfl (fun n hn' => (hp.snoc hn).noDots n hn') rfl, nestIn_erase,
      nestIn_erase]
    rw [hm']
    simp only [Obj.withMeta, Obj.normA, hfm, Obj.erase_scope, her, Bool.false_eq_true, ↓reduceIte]
    rfl
  · rw [wrapDotted_dotted _ ms m.name rfl (fun n hn' => (hp.snoc hn).noDots n hn') rfl, nestIn_ids]
    simp [Obj.withMeta, Obj.ids, expIds, Obj.meta, hid, hfm]

/-- the turn for a scope that merges its name into the name of its only child -/
theorem step_scope_chainA_art (L w : Int) (m : Meta) (c : Obj) (ms : List Str) (ind : Str)
    (hm : PlainMetaPP (!ms.isEmpty) m.stripAttrs) (hfm : c.meta.mergeNames = true)
    (hc : StepAtA L w c (ms ++ [m.name]) ind) : StepAtA L w (.scope m [c]) ms ind := by
  intro fuel pre more l i stop prevLine acc pending hpre hf hnext
  have hfm' : firstMerges [c] = true := hfm
  have hm' := meta_eq_of_plain_art hm
  have hcost : (Obj.scope m [c]).costA L = c.costA L := by
    rw [Obj.costA, hfm']; simp [costAList]
  have hfc : c.costA L ≤ fuel := by rw [hcost] at hf; exact hf
  obtain ⟨x', acc', pending', l', prevLine', fuel', hstep, hfu, hflush, her, hid⟩ :=
    hc fuel pre more l i stop prevLine acc pending hpre hfc
      (fun he => hnext (by simp [Obj.endsVal, hfm', endsValList, he]))
  have htext : treeTextA L w (.scope m [c]) ms ind = treeTextA L w c (ms ++ [m.name]) ind := by
    rw [treeTextA, hfm']; simp [kidsTextA]
  have hitems : (Obj.scope m [c]).items = c.items := by
    rw [Obj.items, hfm']; simp [itemsList]
  refine ⟨x', acc', pending', l', prevLine', fuel', by rw [htext, hitems]; exact hstep,
    by rw [hcost]; exact hfu, hflush, ?_, ?_⟩
  · rw [her, nestIn_snoc, nestIn_erase, nestIn_erase]
    rw [hm']
    simp only [Obj.normA, hfm', normAList, Obj.erase_scope, eraseList_cons, eraseList_nil, ↓reduceIte,
      Bool.false_or]
    rfl
  · rw [hid, expIds, hfm']
    simp [expIdsSame, List.replicate_succ']


theorem mem_stripAttrsList_art {os : List Obj} {y : Obj} (hy : y ∈ os) : y.stripAttrs ∈ stripAttrsList os := by
  rw [stripAttrsList_eq_map]; exact List.mem_map_of_mem hy

/-- **every tree of the class is read back by its turns of `collect_objects`** -/
theorem step_allA_art (L w : Int) (x : Obj) : StepA L w x := by
  induction x using Obj.rec (motive_2 := fun os => ∀ y ∈ os, StepA L w y) with
  | defn m ws => exact step_defnA_art L w m ws
  | scope m os ih =>
    intro ms ind hp hb h hw hok hnd
    rw [Obj.stripAttrs_scope] at h hw
    unfold RTNode at h
    obtain ⟨hm, hn, hk⟩ := h
    have hname : m.stripAttrs.name = m.name := rfl
    rw [hname] at hn hk
    have hnd : depPlacedList os = true := by simpa [Obj.depPlaced] using hnd
    rcases hk with ⟨hres, hk⟩ | hk
    · have hfm := hk.firstMerges
      have hfm' : firstMerges os = false := by rw [← firstMerges_stripAttrsList_ert]; exact hfm
      unfold WrapsOK at hw
      rw [hfm] at hw
      simp only [Bool.false_eq_true, ↓reduceIte] at hw
      simp only [Obj.attrsOKAt, hfm', Bool.false_eq_true, ↓reduceIte, Bool.and_eq_true] at hok
      have hsteps : ∀ y ∈ os, StepAtA L w y [] (deeper ind) := fun y hy =>
        ih y hy [] (deeper ind) (by intro n hn; simp at hn) hb.deeper
          ((RTAll_iff _).mp hk _ (mem_stripAttrsList_art hy))
          ((WrapsOKs_iff w _ [] (deeper ind)).mp hw _ (mem_stripAttrsList_art hy))
          ((attrsOKsAt_iff_art L w os (deeper ind)).mp hok.2 y hy)
          (depPlaced_of_mem_art hnd hy)
      exact step_scope_properA_art L w m os ms ind hp hb hm hn hres hfm' hok.1
        (block_of_stepsA_art L w os (deeper ind) hb.deeper hsteps hk hnd)
    · have hfm := hk.firstMerges
      have hfm' : firstMerges os = true := by rw [← firstMerges_stripAttrsList_ert]; exact hfm
      unfold WrapsOK at hw
      rw [hfm] at hw
      simp only [↓reduceIte] at hw
      simp only [Obj.attrsOKAt, hfm', ↓reduceIte] at hok
      cases os with
      | nil => rw [stripAttrsList_nil] at hk; unfold RTOne at hk; exact hk.elim
      | cons c cs =>
        rw [stripAttrsList_cons] at hk hw
        unfold RTOne at hk
        obtain ⟨hc, hcs⟩ := hk
        have : cs = [] := by
          cases cs with
          | nil => rfl
          | cons y ys => rw [stripAttrsList_cons] at hcs; cases hcs
        subst this
        unfold WrapsOKs at hw
        simp only [attrsOKsAt, Bool.and_true] at hok
        exact step_scope_chainA_art L w m c ms ind hm hfm'
          (ih c (by simp) (ms ++ [m.name]) ind (hp.snoc hn) hb hc hw.1 hok
            (depPlaced_of_mem_art hnd (by simp)))
  | nil => rename_i y hy; simp at hy
  | cons x xs ihx ihxs =>
    rename_i y hy
    rcases List.mem_cons.mp hy with rfl | hy
    · exact ihx
    · exact ihxs y hy

/-! ### the whole document -/

theorem costA_le_text_art (L w : Int) (x : Obj) :
    ∀ (ms : List Str) (ind : Str), x.costA L ≤ (treeTextA L w x ms ind).length := by
  induction x using Obj.rec
    (motive_2 := fun os => ∀ (ms : List Str) (ind : Str),
      costAList L os ≤ (kidsTextA L w os ms ind).length) with
  | defn m ws =>
    intro ms ind
    rw [treeTextA, Obj.costA]
    have : (shownAttrs true L m.attrs).length ≤ (attrBlock true ind L w m.attrs).length := by
      unfold shownAttrs attrBlock
      split
      · simp
      · exact shownCount_le_text_art ind L w m.attrs _
    simp only [List.length_append, List.length_cons, List.length_nil]
    omega
  | scope m os ih =>
    intro ms ind
    rw [treeTextA, Obj.costA]
    split
    · exact ih _ _
    · have := ih [] (deeper ind)
      split <;> (simp only [List.length_append, List.length_cons]; omega)
  | nil => rename_i ms ind; simp [costAList]
  | cons x xs ihx ihxs =>
    rename_i ms ind
    rw [kidsTextA, costAList, List.length_append]
    have := ihx ms ind
    have := ihxs ms ind
    omega

theorem costAList_le_text_art (L w : Int) (os : List Obj) (ms : List Str) (ind : Str) :
    costAList L os ≤ (kidsTextA L w os ms ind).length := by
  induction os with
  | nil => simp [costAList]
  | cons x xs ih =>
    rw [kidsTextA, costAList, List.length_append]
    have := costA_le_text_art L w x ms ind
    omega

/-- **`parse` of the printed text of a document of trees with attributes** (printed at attributes
    level `L`, width `w`, under a prefix `ind` of blanks): the parser returns the trees, every object
    carrying exactly the attributes shown at level `L` with their values -/
theorem parseObjs_treesA_art (L w : Int) (objs : List Obj) (ind : Str) (hb : Blank ind)
    (h : RTAll (stripAttrsList objs)) (hw : WrapsOKs w (stripAttrsList objs) [] ind)
    (hok : attrsOKsAt L w objs ind = true) (hnd : depPlacedList objs = true) :
    ∃ objs', parseObjs (kidsTextA L w objs [] ind) = .ok objs' ∧
      eraseList objs' = eraseList (normAList L objs) ∧
      idsList objs' = (expIdsSeq 1 objs).map some := by
  have hsteps : ∀ y ∈ objs, StepAtA L w y [] ind := fun y hy =>
    step_allA_art L w y [] ind (by intro n hn; simp at hn) hb
      ((RTAll_iff _).mp h _ (mem_stripAttrsList_art hy))
      ((WrapsOKs_iff w _ [] ind).mp hw _ (mem_stripAttrsList_art hy))
      ((attrsOKsAt_iff_art L w objs ind).mp hok y hy) (depPlaced_of_mem_art hnd hy)
  obtain ⟨objs', st', hrun, _, _, her, hid⟩ :=
    block_of_stepsA_art L w objs ind hb hsteps h hnd ((kidsTextA L w objs [] ind).length + 2) [] [] [] 1 1
      none 0 [] none (by intro c hc; simp at hc)
      (by have := costAList_le_text_art L w objs [] ind; omega) (Or.inl ⟨rfl, rfl⟩)
  refine ⟨objs', ?_, her, hid⟩
  unfold parseObjs
  simp only [List.nil_append, List.append_nil] at hrun
  rw [hrun]
  simp [flush]


/-! ## Part 5: the attributes read back, looked up by name; printing the re-parsed tree -/

theorem attrNames_nodup_art (isDef : Bool) : (attrNamesOf isDef).Nodup := by
  cases isDef <;> decide

theorem find_shownList_art (L : Int) (attrs : Attrs) (n : String) :
    ∀ (ns : List String), ns.Nodup →
      (shownList L attrs ns).reverse.find? (fun p => p.1 == n)
        = if n ∈ ns ∧ attrShown L n (attrs.get n) = true then some (n, attrs.get n) else none := by
  intro ns
  induction ns with
  | nil => intro _; simp [shownList]
  | cons x xs ih =>
    intro hnd
    rw [List.nodup_cons] at hnd
    rw [shownList_cons_art, List.reverse_append, List.find?_append, ih hnd.2]
    by_cases hx : x = n
    · subst hx
      simp only [hnd.1, false_and, ↓reduceIte, Option.none_or, List.mem_cons, true_or, true_and]
      split <;> simp
    · have hx' : (x == n) = false := by simpa using hx
      have hx'' : ¬ n = x := fun e => hx e.symm
      have : (List.find? (fun p => p.1 == n)
          (if attrShown L x (attrs.get x) = true then [(x, attrs.get x)] else []).reverse) = none := by
        split <;> simp [hx']
      rw [this, Option.or_none]
      simp [hx'']

/-- **looking up an attribute of the re-parsed object**: the printed value if the attribute is shown
    at the level, unset otherwise -/
theorem get_shownAttrs_art (isDef : Bool) (L : Int) (attrs : Attrs) (n : String)
    (hn : n ∈ attrNamesOf isDef) :
    (shownAttrs isDef L attrs).get n
      = if 0 < L ∧ attrShown L n (attrs.get n) = true then attrs.get n else .none := by
  unfold shownAttrs
  by_cases hl : L ≤ 0
  · have : ¬ 0 < L := by omega
    simp [hl, this, Attrs.get]
  · have hl' : 0 < L := by omega
    have hfind := find_shownList_art L attrs n _ (attrNames_nodup_art isDef)
    simp only [hl, ↓reduceIte]
    have : Attrs.get (shownList L attrs (attrNamesOf isDef)) n
        = match (shownList L attrs (attrNamesOf isDef)).reverse.find? (fun p => p.1 == n) with
          | some p => p.2
          | none => AttrVal.none := rfl
    rw [this, hfind]
    by_cases hs : attrShown L n (attrs.get n) = true
    · simp [hn, hs, hl']
    · simp [hn, hs, hl']

/-- `attrShown` as a function of the seven tests it makes -/
def attrShownB (d h a t i l1 l2 : Bool) : Bool :=
  if d && !t then false
  else if (h && !i) || (a && !i) || (!i && l1) || l2 then
    if a && i then false else true
  else false

theorem attrShown_eq_B_art (L : Int) (n : String) (v : AttrVal) :
    attrShown L n v = attrShownB (n == "deprecated") (n == "help") (n == "alias") v.truthy v.isNone
      (decide (L > 1)) (decide (L > 2)) := rfl

theorem attrShown_none_of_hidden_art (L : Int) (n : String) (v : AttrVal)
    (h : attrShown L n v = false) : attrShown L n .none = false := by
  rw [attrShown_eq_B_art] at h ⊢
  have key : ∀ d h a t i l1 l2 : Bool, attrShownB d h a t i l1 l2 = false →
      attrShownB d h a false true l1 l2 = false := by decide
  exact key _ _ _ _ _ _ _ h

/-- the attributes read back are a fixed point: shown again, with the same values -/
theorem shown_fixed_art (isDef : Bool) (L : Int) (hL : 0 < L) (attrs : Attrs) (n : String)
    (hn : n ∈ attrNamesOf isDef) :
    attrShown L n ((shownAttrs isDef L attrs).get n) = attrShown L n (attrs.get n) ∧
    (attrShown L n (attrs.get n) = true → (shownAttrs isDef L attrs).get n = attrs.get n) := by
  rw [get_shownAttrs_art isDef L attrs n hn]
  by_cases hs : attrShown L n (attrs.get n) = true
  · simp [hL, hs]
  · have hs' : attrShown L n (attrs.get n) = false := by simpa using hs
    simp [hs', attrShown_none_of_hidden_art L n _ hs']

/-- two attribute lists that agree on what is shown (and on the shown values) for the names `ns` -/
def SameShown (L : Int) (a b : Attrs) (ns : List String) : Prop :=
  ∀ n ∈ ns, attrShown L n (a.get n) = attrShown L n (b.get n) ∧
    (attrShown L n (b.get n) = true → a.get n = b.get n)

theorem sameShown_lists_art (isDef : Bool) (pre : Str) (L w : Int) (a b : Attrs) :
    ∀ ns, SameShown L a b ns →
      shownList L a ns = shownList L b ns ∧ attrsTextRT pre L w a ns = attrsTextRT pre L w b ns ∧
      attrsOKList isDef pre L w a ns = attrsOKList isDef pre L w b ns := by
  intro ns
  induction ns with
  | nil => intro _; exact ⟨rfl, rfl, rfl⟩
  | cons n ns ih =>
    intro h
    obtain ⟨h1, h2⟩ := h n (by simp)
    obtain ⟨i1, i2, i3⟩ := ih (fun m hm => h m (by simp [hm]))
    by_cases hs : attrShown L n (b.get n) = true
    · have hv := h2 hs
      refine ⟨?_, ?_, ?_⟩
      · rw [shownList_cons_art, shownList_cons_art, h1, hv, i1]
      · rw [attrsTextRT, attrsTextRT, h1, hv, i2]
      · simp only [attrsOKList, List.all_cons] at i3 ⊢
        rw [h1, hv, i3]
    · have hs' : attrShown L n (b.get n) = false := by simpa using hs
      refine ⟨?_, ?_, ?_⟩
      · rw [shownList_cons_art, shownList_cons_art, h1, hs', i1]; rfl
      · rw [attrsTextRT, attrsTextRT, h1, hs', i2]; rfl
      · simp only [attrsOKList, List.all_cons] at i3 ⊢
        rw [h1, hs', i3]; rfl

/-- the attributes read back print, and are read back, as the original attributes -/
theorem shownAttrs_norm_art (isDef : Bool) (pre : Str) (L w : Int) (attrs : Attrs) :
    shownAttrs isDef L (shownAttrs isDef L attrs) = shownAttrs isDef L attrs ∧
    attrBlock isDef pre L w (shownAttrs isDef L attrs) = attrBlock isDef pre L w attrs ∧
    attrsOK isDef pre L w (shownAttrs isDef L attrs) = attrsOK isDef pre L w attrs := by
  by_cases hl : L ≤ 0
  · simp [shownAttrs, attrBlock, attrsOK, hl]
  · have hL : 0 < L := by omega
    have hs : SameShown L (shownAttrs isDef L attrs) attrs (attrNamesOf isDef) :=
      fun n hn => shown_fixed_art isDef L hL attrs n hn
    obtain ⟨h1, h2, h3⟩ := sameShown_lists_art isDef pre L w _ _ _ hs
    refine ⟨?_, ?_, ?_⟩
    · conv => lhs; unfold shownAttrs
      conv => rhs; unfold shownAttrs
      simp only [hl, ↓reduceIte]
      have : shownList L (shownAttrs isDef L attrs) (attrNamesOf isDef) = shownList L attrs (attrNamesOf isDef) := h1
      simpa [shownAttrs, hl] using this
    · unfold attrBlock; simp only [hl, ↓reduceIte]; exact h2
    · unfold attrsOK; rw [h3]


/-! ### the normalised tree is in the class and prints as the original -/

theorem Obj.normA_defn_art (L : Int) (m : Meta) (ws : List Word) :
    (Obj.defn m ws).normA L = .defn { m with attrs := shownAttrs true L m.attrs } ws := by
  simp [Obj.normA]
theorem Obj.normA_scope_art (L : Int) (m : Meta) (os : List Obj) :
    (Obj.scope m os).normA L
      = .scope { m with attrs := if firstMerges os then [] else shownAttrs false L m.attrs } (normAList L os) := by
  simp [Obj.normA]
theorem normAList_cons_art (L : Int) (x : Obj) (xs : List Obj) :
    normAList L (x :: xs) = x.normA L :: normAList L xs := by simp [normAList]
theorem normAList_nil_art (L : Int) : normAList L [] = [] := by simp [normAList]

theorem normA_meta_art (L : Int) (x : Obj) : (x.normA L).meta.mergeNames = x.meta.mergeNames := by
  cases x with
  | defn m ws => rw [Obj.normA_defn_art]; rfl
  | scope m os => rw [Obj.normA_scope_art]; rfl

theorem firstMerges_normAList_art (L : Int) (os : List Obj) :
    firstMerges (normAList L os) = firstMerges os := by
  cases os with
  | nil => rfl
  | cons x xs => rw [normAList_cons_art, firstMerges, firstMerges, normA_meta_art]

theorem normA_stripAttrs_art (L : Int) (x : Obj) : (x.normA L).stripAttrs = x.stripAttrs := by
  induction x using Obj.rec
    (motive_2 := fun os => stripAttrsList (normAList L os) = stripAttrsList os) with
  | defn m ws => rw [Obj.normA_defn_art, Obj.stripAttrs_defn, Obj.stripAttrs_defn]; rfl
  | scope m os ih => rw [Obj.normA_scope_art, Obj.stripAttrs_scope, Obj.stripAttrs_scope, ih]; rfl
  | nil => rfl
  | cons x xs ihx ihxs => rw [normAList_cons_art, stripAttrsList_cons, stripAttrsList_cons, ihx, ihxs]

theorem normAList_stripAttrs_art (L : Int) (os : List Obj) :
    stripAttrsList (normAList L os) = stripAttrsList os := by
  induction os with
  | nil => rfl
  | cons x xs ih => rw [normAList_cons_art, stripAttrsList_cons, stripAttrsList_cons, normA_stripAttrs_art, ih]

/-- the deprecation mark survives (a deprecated definition being printed at level ≥ 3 only) -/
theorem depSet_normA_art (L : Int) (m : Meta) (h : depSet m = true → 3 ≤ L) :
    depSet { m with attrs := shownAttrs true L m.attrs } = depSet m := by
  unfold depSet
  show ((shownAttrs true L m.attrs).get "deprecated").truthy = _
  rw [get_shownAttrs_art true L m.attrs "deprecated" (by decide)]
  by_cases hd : (m.attrs.get "deprecated").truthy = true
  · have hL := h hd
    have hs : attrShown L "deprecated" (m.attrs.get "deprecated") = true := by
      rw [attrShown_eq_B_art, hd]
      have h2 : decide (L > 2) = true := by simp; omega
      rw [h2]
      have key : ∀ i l1 : Bool, attrShownB true false false true i l1 true = true := by decide
      exact key _ _
    have : 0 < L := by omega
    simp [hs, this]
  · have hd' : (m.attrs.get "deprecated").truthy = false := by simpa using hd
    rw [hd']
    split
    · rename_i h1; rw [hd']
    · rfl

theorem normA_props_art (L w : Int) (x : Obj) :
    ∀ (ind : Str), x.attrsOKAt L w ind = true →
      (x.normA L).attrsOKAt L w ind = true ∧ ((x.normA L).noDeprecated = x.noDeprecated) ∧
      ∀ ms, treeTextA L w (x.normA L) ms ind = treeTextA L w x ms ind := by
  induction x using Obj.rec
    (motive_2 := fun os => ∀ (ind : Str), attrsOKsAt L w os ind = true →
      attrsOKsAt L w (normAList L os) ind = true ∧ (noDeprecatedList (normAList L os) = noDeprecatedList os) ∧
      ∀ ms, kidsTextA L w (normAList L os) ms ind = kidsTextA L w os ms ind) with
  | defn m ws =>
    intro ind hok
    simp only [Obj.attrsOKAt, Bool.and_eq_true, Bool.or_eq_true, Bool.not_eq_true', decide_eq_true_eq] at hok
    have hdepc : depSet m = true → 3 ≤ L := fun hd => by
      rcases hok.2 with h | h
      · rw [hd] at h; cases h
      · exact h
    have hdep := depSet_normA_art L m hdepc
    obtain ⟨n1, n2, n3⟩ := shownAttrs_norm_art true ind L w m.attrs
    rw [Obj.normA_defn_art]
    refine ⟨?_, ?_, fun ms => ?_⟩
    · simp only [Obj.attrsOKAt, hdep, n3, Bool.and_eq_true, Bool.or_eq_true, Bool.not_eq_true',
        decide_eq_true_eq]
      exact hok
    · rw [noDeprecated_defn_ert, noDeprecated_defn_ert, hdep]
    · rw [treeTextA, treeTextA]
      simp only [warnText, hdep, n2]
  | scope m os ih =>
    intro ind hok
    rw [Obj.normA_scope_art]
    by_cases hfm : firstMerges os = true
    · simp only [Obj.attrsOKAt, hfm, ↓reduceIte] at hok
      obtain ⟨i1, i2, i3⟩ := ih ind hok
      refine ⟨?_, ?_, fun ms => ?_⟩
      · simp only [Obj.attrsOKAt, firstMerges_normAList_art, hfm, ↓reduceIte]; exact i1
      · rw [noDeprecated_scope_ert, noDeprecated_scope_ert, i2]
      · rw [treeTextA, treeTextA, firstMerges_normAList_art, hfm]
        simp only [↓reduceIte]
        exact i3 _
    · have hfm' : firstMerges os = false := by simpa using hfm
      simp only [Obj.attrsOKAt, hfm', Bool.false_eq_true, ↓reduceIte, Bool.and_eq_true] at hok
      obtain ⟨i1, i2, i3⟩ := ih (deeper ind) hok.2
      obtain ⟨n1, n2, n3⟩ := shownAttrs_norm_art false ind L w m.attrs
      refine ⟨?_, ?_, fun ms => ?_⟩
      · simp only [Obj.attrsOKAt, firstMerges_normAList_art, hfm', Bool.false_eq_true, ↓reduceIte, n3,
          Bool.and_eq_true]
        exact ⟨hok.1, i1⟩
      · rw [noDeprecated_scope_ert, noDeprecated_scope_ert, i2]
      · rw [treeTextA, treeTextA, firstMerges_normAList_art, hfm']
        simp only [Bool.false_eq_true, ↓reduceIte, n1, n2, i3]
  | nil => exact ⟨rfl, rfl, fun _ => rfl⟩
  | cons x xs ihx ihxs =>
    rename_i ind hok
    simp only [attrsOKsAt, Bool.and_eq_true] at hok
    obtain ⟨a1, a2, a3⟩ := ihx ind hok.1
    obtain ⟨b1, b2, b3⟩ := ihxs ind hok.2
    rw [normAList_cons_art]
    refine ⟨?_, ?_, fun ms => ?_⟩
    · simp only [attrsOKsAt, a1, b1, Bool.and_self]
    · rw [noDeprecatedList_cons_ert, noDeprecatedList_cons_ert, a2, b2]
    · rw [kidsTextA, kidsTextA, a3, b3]

theorem normAList_props_art (L w : Int) (os : List Obj) (ind : Str) (hok : attrsOKsAt L w os ind = true) :
    attrsOKsAt L w (normAList L os) ind = true ∧ (noDeprecatedList (normAList L os) = noDeprecatedList os) ∧
    ∀ ms, kidsTextA L w (normAList L os) ms ind = kidsTextA L w os ms ind := by
  induction os with
  | nil => exact ⟨rfl, rfl, fun _ => rfl⟩
  | cons x xs ih =>
    simp only [attrsOKsAt, Bool.and_eq_true] at hok
    obtain ⟨a1, a2, a3⟩ := normA_props_art L w x ind hok.1
    obtain ⟨b1, b2, b3⟩ := ih hok.2
    rw [normAList_cons_art]
    refine ⟨?_, ?_, fun ms => ?_⟩
    · simp only [attrsOKsAt, a1, b1, Bool.and_self]
    · rw [noDeprecatedList_cons_ert, noDeprecatedList_cons_ert, a2, b2]
    · rw [kidsTextA, kidsTextA, a3, b3]


/-- the placement of deprecated definitions is the same in the normalised tree -/
theorem normA_placed_art (L w : Int) (x : Obj) :
    ∀ (ind : Str), x.attrsOKAt L w ind = true →
      (x.normA L).startsDep = x.startsDep ∧ (x.normA L).endsVal = x.endsVal ∧
      (x.normA L).depPlaced = x.depPlaced := by
  induction x using Obj.rec
    (motive_2 := fun os => ∀ (ind : Str), attrsOKsAt L w os ind = true →
      startsDepList (normAList L os) = startsDepList os ∧ endsValList (normAList L os) = endsValList os ∧
      depPlacedList (normAList L os) = depPlacedList os) with
  | defn m ws =>
    intro ind hok
    simp only [Obj.attrsOKAt, Bool.and_eq_true, Bool.or_eq_true, Bool.not_eq_true', decide_eq_true_eq] at hok
    have hdepc : depSet m = true → 3 ≤ L := fun hd => by
      rcases hok.2 with h | h
      · rw [hd] at h; cases h
      · exact h
    rw [Obj.normA_defn_art]
    simp only [Obj.startsDep, Obj.endsVal, Obj.depPlaced, depSet_normA_art L m hdepc, and_self]
  | scope m os ih =>
    intro ind hok
    rw [Obj.normA_scope_art]
    by_cases hfm : firstMerges os = true
    · simp only [Obj.attrsOKAt, hfm, ↓reduceIte] at hok
      obtain ⟨i1, i2, i3⟩ := ih ind hok
      simp only [Obj.startsDep, Obj.endsVal, Obj.depPlaced, firstMerges_normAList_art, hfm, ↓reduceIte, i1, i2,
        i3, and_self]
    · have hfm' : firstMerges os = false := by simpa using hfm
      simp only [Obj.attrsOKAt, hfm', Bool.false_eq_true, ↓reduceIte, Bool.and_eq_true] at hok
      obtain ⟨i1, i2, i3⟩ := ih (deeper ind) hok.2
      simp only [Obj.startsDep, Obj.endsVal, Obj.depPlaced, firstMerges_normAList_art, hfm', Bool.false_eq_true,
        ↓reduceIte, i3, and_self]
  | nil => exact ⟨rfl, rfl, rfl⟩
  | cons x xs ihx ihxs =>
    rename_i ind hok
    simp only [attrsOKsAt, Bool.and_eq_true] at hok
    obtain ⟨a1, a2, a3⟩ := ihx ind hok.1
    obtain ⟨b1, b2, b3⟩ := ihxs ind hok.2
    rw [normAList_cons_art]
    simp only [startsDepList, endsValList, depPlacedList, a1, a2, a3, b1, b3, and_self]

theorem normAList_placed_art (L w : Int) (os : List Obj) (ind : Str) (hok : attrsOKsAt L w os ind = true) :
    depPlacedList (normAList L os) = depPlacedList os := by
  induction os with
  | nil => rfl
  | cons x xs ih =>
    simp only [attrsOKsAt, Bool.and_eq_true] at hok
    obtain ⟨a1, a2, a3⟩ := normA_placed_art L w x ind hok.1
    have hs : startsDepList (normAList L xs) = startsDepList xs := by
      cases xs with
      | nil => rfl
      | cons y ys =>
        simp only [attrsOKsAt, Bool.and_eq_true] at hok
        rw [normAList_cons_art]
        simp only [startsDepList]
        exact (normA_placed_art L w y ind hok.2.1).1
    rw [normAList_cons_art]
    simp only [depPlacedList, a2, a3, hs, ih hok.2]

/-! ## Part 6: the expert filter combined with attribute levels; ignoring attributes -/

theorem uniformMerge_of_RTNode_art (m : Meta) (os : List Obj) (ms : List Str)
    (h : RTNode ms (Obj.scope m os).stripAttrs) :
    uniformMerge os = true ∧ ∀ c ∈ os, ∃ ms', RTNode ms' c.stripAttrs := by
  rw [Obj.stripAttrs_scope] at h
  unfold RTNode at h
  rcases h.2.2 with ⟨_, hk⟩ | hk
  · have hall : ∀ c ∈ os, RTNode [] c.stripAttrs := fun c hc =>
      (RTAll_iff _).mp hk _ (mem_stripAttrsList_art hc)
    refine ⟨uniformMerge_plain_ert os (fun c hc => ?_), fun c hc => ⟨[], hall c hc⟩⟩
    rw [← stripAttrs_mergeNames_ert]; exact (hall c hc).meta.merge
  · cases os with
    | nil => rw [stripAttrsList_nil] at hk; unfold RTOne at hk; exact hk.elim
    | cons c cs =>
      rw [stripAttrsList_cons] at hk
      unfold RTOne at hk
      have : cs = [] := by
        cases cs with
        | nil => rfl
        | cons y ys => rw [stripAttrsList_cons] at hk; cases hk.2
      subst this
      refine ⟨by simp [uniformMerge, firstMerges], fun c' hc' => ?_⟩
      simp only [List.mem_singleton] at hc'
      subst hc'
      exact ⟨_, hk.1⟩

/-- pruning keeps the attribute conditions -/
theorem prune_attrsOKAt_art (L w k : Int) (x : Obj) :
    ∀ (ind : Str) (x' : Obj), (∃ ms, RTNode ms x.stripAttrs) → x.attrsOKAt L w ind = true →
      prune k x = some x' → x'.attrsOKAt L w ind = true := by
  induction x using Obj.rec
    (motive_2 := fun os => ∀ (ind : Str), (∀ c ∈ os, ∃ ms, RTNode ms c.stripAttrs) →
      attrsOKsAt L w os ind = true → attrsOKsAt L w (pruneList k os) ind = true) with
  | defn m ws =>
    intro ind x' _ hok hp
    rw [prune_defn] at hp
    split at hp
    · cases hp
    · cases hp; exact hok
  | scope m os ih =>
    intro ind x' hrt hok hp
    obtain ⟨ms, hrt⟩ := hrt
    obtain ⟨hu, hkids⟩ := uniformMerge_of_RTNode_art m os ms hrt
    rw [prune_scope] at hp
    split at hp
    · cases hp
    · split at hp
      · cases hp
      · rename_i hne
        cases hp
        have hfm := firstMerges_pruneList k os hu (by simpa using hne)
        by_cases hf : firstMerges os = true
        · simp only [Obj.attrsOKAt, hf, ↓reduceIte] at hok
          simp only [Obj.attrsOKAt, hfm, hf, ↓reduceIte]
          exact ih ind hkids hok
        · have hf' : firstMerges os = false := by simpa using hf
          simp only [Obj.attrsOKAt, hf', Bool.false_eq_true, ↓reduceIte, Bool.and_eq_true] at hok
          simp only [Obj.attrsOKAt, hfm, hf', Bool.false_eq_true, ↓reduceIte, Bool.and_eq_true]
          exact ⟨hok.1, ih (deeper ind) hkids hok.2⟩
  | nil => rename_i ind _ _; rw [pruneList_nil]; rfl
  | cons x xs ihx ihxs =>
    rename_i ind hrt hok
    simp only [attrsOKsAt, Bool.and_eq_true] at hok
    have h2 := ihxs ind (fun c hc => hrt c (by simp [hc])) hok.2
    rw [pruneList_cons]
    cases hp : prune k x with
    | none => exact h2
    | some x' =>
      show attrsOKsAt L w (x' :: pruneList k xs) ind = true
      simp only [attrsOKsAt, Bool.and_eq_true]
      exact ⟨ihx ind x' (hrt x (by simp)) hok.1 hp, h2⟩

theorem pruneList_attrsOKsAt_art (L w k : Int) (os : List Obj) (ind : Str)
    (hrt : RTAll (stripAttrsList os)) (hok : attrsOKsAt L w os ind = true) :
    attrsOKsAt L w (pruneList k os) ind = true := by
  induction os with
  | nil => rw [pruneList_nil]; rfl
  | cons x xs ih =>
    rw [stripAttrsList_cons] at hrt
    unfold RTAll at hrt
    simp only [attrsOKsAt, Bool.and_eq_true] at hok
    rw [pruneList_cons]
    cases hp : prune k x with
    | none => exact ih hrt.2 hok.2
    | some x' =>
      show attrsOKsAt L w (x' :: pruneList k xs) ind = true
      simp only [attrsOKsAt, Bool.and_eq_true]
      exact ⟨prune_attrsOKAt_art L w k x ind x' ⟨[], hrt.1⟩ hok.1 hp, ih hrt.2 hok.2⟩

theorem shownAt_attrsOKsAt_art (L w : Int) (e : Option Int) (os : List Obj) (ind : Str)
    (hrt : RTAll (stripAttrsList os)) (hok : attrsOKsAt L w os ind = true) :
    attrsOKsAt L w (shownAt e os) ind = true := by
  unfold shownAt
  split
  · exact hok
  · split
    · exact pruneList_attrsOKsAt_art L w _ os ind hrt hok
    · exact hok

/-- **Master lemma with attribute levels.**  A forest of the class, printed at attributes level
    `o.level` under any expert setting, any width and any prefix of blanks: the text is the text of
    the shown objects with their attribute lines, it parses, and the parser returns the shown objects
    with exactly the attributes printed at that level. -/
theorem filtered_round_trip_attrs_art (o : ShowOpts) (objs : List Obj) (p : Str) (hp : Blank p)
    (h : RTAll (stripAttrsList objs)) (hok : attrsOKsAt o.level o.width objs p = true)
    (hnd : noDeprecatedList objs = true) (hnl : allDefnsList NlOnlyLast objs)
    (hw : ∀ k, o.expert = some k → 0 ≤ k → ExpertWFs objs = true) :
    ∃ objs', asStr o (rootOf objs) p = .ok (kidsTextA o.level o.width (shownAt o.expert objs) [] p) ∧
      parseObjs (kidsTextA o.level o.width (shownAt o.expert objs) [] p) = .ok objs' ∧
      eraseList objs' = eraseList (normAList o.level (shownAt o.expert objs)) ∧
      idsList objs' = (expIdsSeq 1 (shownAt o.expert objs)).map some := by
  have hS := shownAt_RTAllA_ert o.expert objs ⟨h, hnd⟩
  have hN := shownAt_allDefns_ert NlOnlyLast o.expert objs hnl
  have hA := shownAt_attrsOKsAt_art o.level o.width o.expert objs p h hok
  generalize hX : shownAt o.expert objs = X at hS hN hA
  have hshow : showObjs o objs [] p = showObjs { o with expert := none } X [] p := by
    rw [showObjs_shownAt_ert o objs [] p
      (fun k he hk => ⟨hw k he hk, dottedWFs_of_RTAll_ert objs h⟩), hX]
  have hprint := asStr_treesA_art { o with expert := none } rfl X p hp hS.1 hA
  obtain ⟨objs', e2, e3, e4⟩ := parseObjs_treesA_art o.level o.width X p hp hS.1
    (wrapsOKs_of_nlOnlyLast_ert o.width _ [] p ((allDefnsList_stripAttrs_ert NlOnlyLast X).mpr hN)) hA
    (depPlacedList_of_noDeprecated_art X hS.2)
  refine ⟨objs', ?_, e2, e3, e4⟩
  rw [asStr_root_pre_ert, hshow, ← asStr_root_pre_ert]
  exact hprint

/-- ignoring attributes, the normalised tree is the tree -/
theorem eraseAttrsList_normAList_art (L : Int) (os : List Obj) :
    eraseAttrsList (normAList L os) = eraseAttrsList os := by
  rw [← eraseList_stripAttrsList_ert, normAList_stripAttrs_art, eraseList_stripAttrsList_ert]

end Phil

