/-
  Phil.Proofs.IndexPathsLemmas — lemmas about the path index of the GUI index (Phil/IndexPaths.lean).

    1. the dict operations `get` / `set`;
    2. closed form of a lookup: the entry at path `p` is the fold of `entryStep` over the visits with
       path `p` (`get_foldl_insertVisit_ipl`), and what that fold is when the visits agree;
    3. positions: the visits are a sub-list of the document-order walk, whose positions are 0, 1, 2 …
       (`visit_is_walk_node_ipl`: an index entry refers to a LIVE object of the working tree);
    4. `indexInit = reindex` when every template flag is ≥ -1;
    5. the invariant of the state machine: the stored index is `reindex` of the current working tree.
  All names carry the suffix `_ipl`.
-/
import Phil.IndexPaths
import Phil.Proofs.IndexLemmas
set_option linter.unusedVariables false
namespace Phil

/-! ## 1. the dict -/

theorem get_set_same_ipl (p : Str) (e : PEntry) : ∀ (ix : PathIndex), (ix.set p e).get p = some e
  | [] => by simp [PathIndex.set, PathIndex.get]
  | (q, e') :: rest => by
    rw [PathIndex.set]
    by_cases h : (q == p) = true
    · simp [h, PathIndex.get]
    · simp only [h, Bool.false_eq_true, if_false, PathIndex.get]
      exact get_set_same_ipl p e rest

theorem get_set_other_ipl (p p' : Str) (e : PEntry) (hne : (p == p') = false) :
    ∀ (ix : PathIndex), (ix.set p e).get p' = ix.get p'
  | [] => by
    simp only [PathIndex.set, PathIndex.get, hne, Bool.false_eq_true, if_false]
  | (q, e') :: rest => by
    rw [PathIndex.set]
    by_cases h : (q == p) = true
    · have hq : q = p := by simpa using h
      subst hq
      simp only [h, if_true, PathIndex.get, hne, Bool.false_eq_true, if_false]
    · simp only [h, Bool.false_eq_true, if_false, PathIndex.get]
      rw [get_set_other_ipl p p' e hne rest]

/-! ## 2. closed form of a lookup -/

/-- the value of `path_index[p]` as a function of the visits with path `p`, starting from `old` -/
def entryFold (old : Option PEntry) (vs : List Visit) : Option PEntry :=
  vs.foldl (fun acc v => some (entryStep acc v)) old

/-- the visits with path `p` -/
def visitsAt (p : Str) (vs : List Visit) : List Visit := vs.filter (fun v => v.path == p)

theorem get_insertVisit_same_ipl (ix : PathIndex) (v : Visit) :
    (insertVisit ix v).get v.path = some (entryStep (ix.get v.path) v) :=
  get_set_same_ipl _ _ ix

theorem get_insertVisit_other_ipl (ix : PathIndex) (v : Visit) (p : Str) (h : (v.path == p) = false) :
    (insertVisit ix v).get p = ix.get p :=
  get_set_other_ipl _ _ _ h ix

/-- **a lookup depends only on the visits of that path** -/
theorem get_foldl_insertVisit_ipl (p : Str) : ∀ (vs : List Visit) (ix : PathIndex),
    (vs.foldl insertVisit ix).get p = entryFold (ix.get p) (visitsAt p vs)
  | [], ix => rfl
  | v :: vs, ix => by
    rw [List.foldl_cons, get_foldl_insertVisit_ipl p vs]
    unfold visitsAt
    rw [List.filter_cons]
    by_cases h : (v.path == p) = true
    · have hp : v.path = p := by simpa using h
      simp only [h, if_true]
      unfold entryFold
      rw [List.foldl_cons, ← hp, get_insertVisit_same_ipl]
    · have h' : (v.path == p) = false := by simpa using h
      simp only [h', Bool.false_eq_true, if_false]
      rw [get_insertVisit_other_ipl ix v p h']

theorem get_buildIndex_ipl (skip : Int → Bool) (w : List Obj) (p : Str) :
    (buildIndex skip w).get p = entryFold none (visitsAt p (visitsOf skip w)) := by
  unfold buildIndex
  rw [get_foldl_insertVisit_ipl]
  rfl

/-- the pairs an entry carries -/
def pairsOf (vs : List Visit) : List (Nat × Obj) := vs.map (fun v => (v.pos, v.obj))

theorem entryFold_many_ipl : ∀ (vs : List Visit) (l : List (Nat × Obj)),
    (∀ v ∈ vs, multipleIsTrue v.obj = true) →
    entryFold (some (.many l)) vs = some (.many (l ++ pairsOf vs))
  | [], l, _ => by simp [entryFold, pairsOf]
  | v :: vs, l, h => by
    have hv := h v List.mem_cons_self
    unfold entryFold
    rw [List.foldl_cons]
    have : entryStep (some (.many l)) v = .many (l ++ [(v.pos, v.obj)]) := by
      unfold entryStep; rw [hv]; rfl
    rw [this]
    have ih := entryFold_many_ipl vs (l ++ [(v.pos, v.obj)]) (fun v' hv' => h v' (List.mem_cons_of_mem _ hv'))
    unfold entryFold at ih
    rw [ih]
    simp [pairsOf]

/-- all visits of the path are `.multiple`: the entry is the list of all of them, in document order -/
theorem entryFold_all_multiple_ipl (v : Visit) (vs : List Visit)
    (h : ∀ x ∈ v :: vs, multipleIsTrue x.obj = true) :
    entryFold none (v :: vs) = some (.many (pairsOf (v :: vs))) := by
  have hv := h v List.mem_cons_self
  unfold entryFold
  rw [List.foldl_cons]
  have : entryStep none v = .many [(v.pos, v.obj)] := by
    unfold entryStep; rw [hv]; rfl
  rw [this]
  have ih := entryFold_many_ipl vs [(v.pos, v.obj)] (fun v' hv' => h v' (List.mem_cons_of_mem _ hv'))
  unfold entryFold at ih
  rw [ih]
  simp [pairsOf]

/-- the last visit of the path is not `.multiple`: it alone is the entry (later overwrites earlier) -/
theorem entryFold_last_plain_ipl (old : Option PEntry) (vs : List Visit) (v : Visit)
    (h : multipleIsTrue v.obj = false) :
    entryFold old (vs ++ [v]) = some (.one v.pos v.obj) := by
  unfold entryFold
  rw [List.foldl_append, List.foldl_cons, List.foldl_nil]
  unfold entryStep
  rw [h]
  rfl

theorem entryFold_single_plain_ipl (v : Visit) (h : multipleIsTrue v.obj = false) :
    entryFold none [v] = some (.one v.pos v.obj) :=
  entryFold_last_plain_ipl none [] v h

theorem entryFold_nil_ipl (old : Option PEntry) : entryFold old [] = old := rfl

/-- no `stray` entry arises when the visits of a path agree on `.multiple` -/
theorem entryFold_uniform_ipl (vs : List Visit)
    (h : (∀ v ∈ vs, multipleIsTrue v.obj = true) ∨ (∀ v ∈ vs, multipleIsTrue v.obj = false)) :
    entryFold none vs = none ∨ (∃ l, entryFold none vs = some (.many l)) ∨
      (∃ p o, entryFold none vs = some (.one p o)) := by
  cases vs with
  | nil => exact .inl rfl
  | cons v vs =>
    rcases h with h | h
    · exact .inr (.inl ⟨_, entryFold_all_multiple_ipl v vs h⟩)
    · right; right
      have hne : v :: vs ≠ [] := List.cons_ne_nil _ _
      obtain ⟨init, last, hl⟩ : ∃ init last, v :: vs = init ++ [last] :=
        ⟨(v :: vs).dropLast, (v :: vs).getLast hne, (List.dropLast_concat_getLast hne).symm⟩
      rw [hl]
      have hlast : multipleIsTrue last.obj = false := h last (by rw [hl]; simp)
      exact ⟨_, _, entryFold_last_plain_ipl none init last hlast⟩

/-! ## 3. positions: every visit is a node of the document-order walk -/

def noSkip : Int → Bool := fun _ => false

mutual
theorem visitObj_sublist_ipl (skip : Int → Bool) : ∀ (o : Obj) (pfx : Str) (pos : Nat),
    (visitObj skip pfx pos o).Sublist (visitObj noSkip pfx pos o)
  | .defn m ws, pfx, pos => by
    rw [visitObj, visitObj]
    cases skip m.tmpl
    · simp [noSkip]
    · simp [noSkip]
  | .scope m kids, pfx, pos => by
    rw [visitObj, visitObj]
    cases skip m.tmpl
    · simp only [noSkip, Bool.false_eq_true, if_false]
      exact (visitList_sublist_ipl skip kids _ _).cons_cons _
    · simp [noSkip]
theorem visitList_sublist_ipl (skip : Int → Bool) : ∀ (l : List Obj) (pfx : Str) (pos : Nat),
    (visitList skip pfx pos l).Sublist (visitList noSkip pfx pos l)
  | [], pfx, pos => by rw [visitList, visitList]; exact List.Sublist.refl _
  | o :: os, pfx, pos => by
    rw [visitList, visitList]
    exact (visitObj_sublist_ipl skip o pfx pos).append (visitList_sublist_ipl skip os pfx _)
end

mutual
theorem visitObj_pos_ipl : ∀ (o : Obj) (pfx : Str) (pos : Nat),
    (visitObj noSkip pfx pos o).map (·.pos) = List.range' pos o.nodeCount
  | .defn m ws, pfx, pos => by
    rw [visitObj, Obj.nodeCount]
    simp [noSkip, List.range']
  | .scope m kids, pfx, pos => by
    rw [visitObj, Obj.nodeCount]
    simp only [noSkip, Bool.false_eq_true, if_false, List.map_cons]
    rw [visitList_pos_ipl kids _ (pos + 1), Nat.add_comm 1 (nodeCountL kids), List.range'_succ]
theorem visitList_pos_ipl : ∀ (l : List Obj) (pfx : Str) (pos : Nat),
    (visitList noSkip pfx pos l).map (·.pos) = List.range' pos (nodeCountL l)
  | [], pfx, pos => by rw [visitList, nodeCountL]; rfl
  | o :: os, pfx, pos => by
    rw [visitList, nodeCountL, List.map_append, visitObj_pos_ipl o pfx pos, visitList_pos_ipl os pfx _,
      List.range'_append_1]
end

/-- the positions of the document-order walk are 0, 1, 2, … -/
theorem walkOf_pos_ipl (w : List Obj) : (walkOf w).map (·.pos) = List.range (1 + nodeCountL w) := by
  unfold walkOf visitsOf
  rw [List.map_cons]
  show 0 :: (visitList noSkip [] 1 w).map (·.pos) = _
  rw [visitList_pos_ipl, List.range_eq_range', Nat.add_comm 1 (nodeCountL w), List.range'_succ]

theorem walkOf_getElem_pos_ipl (w : List Obj) (k : Nat) (v : Visit) (h : (walkOf w)[k]? = some v) :
    v.pos = k := by
  have h1 : ((walkOf w).map (·.pos))[k]? = some v.pos := by rw [List.getElem?_map, h]; rfl
  rw [walkOf_pos_ipl] at h1
  have hk : k < 1 + nodeCountL w := by
    have := List.getElem?_eq_some_iff.mp h1
    obtain ⟨hlt, _⟩ := this
    simpa using hlt
  rw [List.getElem?_range hk] at h1
  injection h1 with h1
  exact h1.symm

theorem visitsOf_sublist_walk_ipl (skip : Int → Bool) (w : List Obj) :
    (visitsOf skip w).Sublist (walkOf w) := by
  unfold walkOf visitsOf
  exact (visitList_sublist_ipl skip w [] 1).cons_cons _

/-- **every visit is a node of the walk, found at its own position**: the object an index entry
    carries is the object of the working tree at the position the entry carries -/
theorem visit_is_walk_node_ipl (skip : Int → Bool) (w : List Obj) (v : Visit)
    (hv : v ∈ visitsOf skip w) : (walkOf w)[v.pos]? = some v := by
  have hm : v ∈ walkOf w := (visitsOf_sublist_walk_ipl skip w).subset hv
  obtain ⟨k, hk⟩ := List.getElem?_of_mem hm
  have := walkOf_getElem_pos_ipl w k v hk
  rw [this]
  exact hk

/-! ## 4. `build_index` and `rebuild_index` agree when every template flag is ≥ -1 -/

mutual
/-- the two template tests (`< 0` and `== -1`) agree on every object of the tree -/
def tmplRangeObj : Obj → Bool
  | .defn m _ => decide (-1 ≤ m.tmpl)
  | .scope m kids => decide (-1 ≤ m.tmpl) && tmplRangeList kids
def tmplRangeList : List Obj → Bool
  | [] => true
  | o :: os => tmplRangeObj o && tmplRangeList os
end

theorem skip_agree_ipl (t : Int) (h : -1 ≤ t) : decide (t < 0) = (t == -1) := by
  by_cases h1 : t < 0
  · have : t = -1 := by omega
    subst this
    rfl
  · have : t ≠ -1 := by omega
    simp [h1, this]

mutual
theorem visitObj_skip_congr_ipl : ∀ (o : Obj) (pfx : Str) (pos : Nat), tmplRangeObj o = true →
    visitObj (fun t => decide (t < 0)) pfx pos o = visitObj (fun t => t == -1) pfx pos o
  | .defn m ws, pfx, pos, h => by
    rw [tmplRangeObj, decide_eq_true_eq] at h
    rw [visitObj, visitObj, skip_agree_ipl m.tmpl h]
  | .scope m kids, pfx, pos, h => by
    rw [tmplRangeObj, Bool.and_eq_true, decide_eq_true_eq] at h
    rw [visitObj, visitObj, skip_agree_ipl m.tmpl h.1, visitList_skip_congr_ipl kids _ _ h.2]
theorem visitList_skip_congr_ipl : ∀ (l : List Obj) (pfx : Str) (pos : Nat), tmplRangeList l = true →
    visitList (fun t => decide (t < 0)) pfx pos l = visitList (fun t => t == -1) pfx pos l
  | [], pfx, pos, _ => by rw [visitList, visitList]
  | o :: os, pfx, pos, h => by
    rw [tmplRangeList, Bool.and_eq_true] at h
    rw [visitList, visitList, visitObj_skip_congr_ipl o pfx pos h.1, visitList_skip_congr_ipl os pfx _ h.2]
end

theorem indexInit_eq_reindex_ipl (w : List Obj) (h : tmplRangeList w = true) : indexInit w = reindex w := by
  unfold indexInit reindex buildIndex visitsOf
  rw [visitList_skip_congr_ipl w [] 1 h]

/-! ## 5. the invariant of the state machine -/

variable {E : Type}

/-- the stored index is the re-index of the current working tree -/
def IndexLive (s : IState) : Prop := s.pathIndex = reindex s.base.working

theorem istep_base_ipl (k : Index.Kernel (List Obj) PVal E) (s : IState) (op : Index.Op PVal E) :
    (istep k s op).1.base = (Index.step k s.base op).1 := rfl

theorem istep_out_ipl (k : Index.Kernel (List Obj) PVal E) (s : IState) (op : Index.Op PVal E) :
    (istep k s op).2 = (Index.step k s.base op).2 := rfl

theorem irun_base_ipl (k : Index.Kernel (List Obj) PVal E) : ∀ (ops : List (Index.Op PVal E)) (s : IState),
    (irun k s ops).base = Index.run k s.base ops
  | [], s => rfl
  | op :: ops, s => by
    rw [irun, Index.run, irun_base_ipl k ops, istep_base_ipl]

/-- an operation that does not go through `rebuild_index()` leaves the working tree alone -/
theorem not_rebuilds_working_ipl (k : Index.Kernel (List Obj) PVal E) (s : Index.State (List Obj) PVal)
    (op : Index.Op PVal E) (h : rebuilds k s op = false) :
    (Index.step k s op).1.working = s.working := by
  cases op with
  | update e =>
    simp only [rebuilds] at h
    cases hm : k.merge s.working e with
    | none => rw [Index.update_refused hm]
    | some w => rw [hm] at h; cases h
  | updateFromPython p =>
    cases p with
    | some x => simp [rebuilds] at h
    | none =>
      simp only [rebuilds] at h
      cases hp : s.params with
      | none => rw [Index.fromCache_none k s hp]
      | some x => rw [hp] at h; cases h
  | push => rfl
  | pop =>
    simp only [rebuilds] at h
    have : s.states = [] := by
      cases hs : s.states with
      | nil => rfl
      | cons a l => rw [hs] at h; cases h
    rw [Index.step_pop_empty k s this]
  | setState i =>
    simp only [rebuilds] at h
    cases hi : s.states[i]? with
    | none => rw [Index.step_setState_none k s i hi]
    | some w => rw [hi] at h; cases h
  | getPython => exact Index.getPython_working k s

/-- **one step keeps the index live** -/
theorem istep_live_ipl (k : Index.Kernel (List Obj) PVal E) (s : IState) (op : Index.Op PVal E)
    (h : IndexLive s) : IndexLive (istep k s op).1 := by
  unfold IndexLive
  show (if rebuilds k s.base op then reindex (Index.step k s.base op).1.working else s.pathIndex) =
    reindex (Index.step k s.base op).1.working
  cases hr : rebuilds k s.base op with
  | true => rfl
  | false =>
    simp only [Bool.false_eq_true, if_false]
    rw [not_rebuilds_working_ipl k s.base op hr]
    exact h

theorem irun_live_ipl (k : Index.Kernel (List Obj) PVal E) : ∀ (ops : List (Index.Op PVal E)) (s : IState),
    IndexLive s → IndexLive (irun k s ops)
  | [], s, h => h
  | op :: ops, s, h => by
    rw [irun]
    exact irun_live_ipl k ops _ (istep_live_ipl k s op h)

theorem iinit_live_ipl (k : Index.Kernel (List Obj) PVal E) (w : List Obj) (h : tmplRangeList w = true) :
    IndexLive (iinit k w) := by
  unfold IndexLive iinit
  exact indexInit_eq_reindex_ipl w h

/-- a machine that forgets one rebuild: `pop_state` without `rebuild_index()` -/
def rebuildsNoPop (k : Index.Kernel (List Obj) PVal E) (s : Index.State (List Obj) PVal)
    (op : Index.Op PVal E) : Bool :=
  match op with
  | .pop => false
  | op => rebuilds k s op

def istepNoPop (k : Index.Kernel (List Obj) PVal E) (s : IState) (op : Index.Op PVal E) :
    IState × Option PVal :=
  let r := Index.step k s.base op
  ({ base := r.1, pathIndex := if rebuildsNoPop k s.base op then reindex r.1.working else s.pathIndex }, r.2)

def irunNoPop (k : Index.Kernel (List Obj) PVal E) (s : IState) : List (Index.Op PVal E) → IState
  | [] => s
  | op :: ops => irunNoPop k (istepNoPop k s op).1 ops

end Phil

namespace Phil

/-! ## 6. the pairs of an entry come from the visits of its path -/

def PEntry.pairs : PEntry → List (Nat × Obj)
  | .one p o => [(p, o)]
  | .many l => l
  | .stray => []

theorem entryStep_pairs_ipl (old : Option PEntry) (v : Visit) :
    ∀ x ∈ (entryStep old v).pairs, x = (v.pos, v.obj) ∨ ∃ e0, old = some e0 ∧ x ∈ e0.pairs := by
  intro x hx
  unfold entryStep at hx
  split at hx
  · split at hx
    · rename_i l
      simp only [PEntry.pairs, List.mem_append, List.mem_singleton] at hx
      rcases hx with h | h
      · exact .inr ⟨_, rfl, h⟩
      · exact .inl h
    · simp only [PEntry.pairs, List.mem_singleton] at hx
      exact .inl hx
    · simp [PEntry.pairs] at hx
    · simp [PEntry.pairs] at hx
  · simp only [PEntry.pairs, List.mem_singleton] at hx
    exact .inl hx

theorem entryFold_pairs_ipl : ∀ (vs : List Visit) (old : Option PEntry) (e : PEntry),
    entryFold old vs = some e → ∀ x ∈ e.pairs,
      (∃ v ∈ vs, x = (v.pos, v.obj)) ∨ ∃ e0, old = some e0 ∧ x ∈ e0.pairs
  | [], old, e, h, x, hx => .inr ⟨e, h, hx⟩
  | v :: vs, old, e, h, x, hx => by
    have h' : entryFold (some (entryStep old v)) vs = some e := h
    rcases entryFold_pairs_ipl vs _ e h' x hx with ⟨v', hv', hxe⟩ | ⟨e0, he0, hx0⟩
    · exact .inl ⟨v', List.mem_cons_of_mem _ hv', hxe⟩
    · injection he0 with he0
      subst he0
      rcases entryStep_pairs_ipl old v x hx0 with h1 | h1
      · exact .inl ⟨v, List.mem_cons_self, h1⟩
      · exact .inr h1

/-- every (position, object) pair of an entry of the index of `w` is a node of the document-order
    walk of `w`, at that position, with the entry's key as its path -/
theorem entry_pairs_live_ipl (skip : Int → Bool) (w : List Obj) (p : Str) (e : PEntry)
    (h : (buildIndex skip w).get p = some e) :
    ∀ x ∈ e.pairs, (walkOf w)[x.1]? = some ⟨p, x.1, x.2⟩ := by
  intro x hx
  rw [get_buildIndex_ipl] at h
  rcases entryFold_pairs_ipl _ _ e h x hx with ⟨v, hv, hxe⟩ | ⟨e0, he0, _⟩
  · unfold visitsAt at hv
    obtain ⟨hv1, hv2⟩ := List.mem_filter.mp hv
    have hp : v.path = p := by simpa using hv2
    have := visit_is_walk_node_ipl skip w v hv1
    subst hxe
    simp only
    rw [this, ← hp]
  · cases he0

/-! ## 7. `only_scope = None` -/

theorem deletePhilScoped_none_ipl : ∀ (fuel : Nat) (paths : List Str) (pfx : Str) (objs : List Obj),
    deletePhilObjectsScoped fuel none paths pfx objs = deletePhilObjects fuel paths pfx objs := by
  intro fuel
  induction fuel with
  | zero => intro paths pfx objs; rfl
  | succ fuel ih =>
    intro paths pfx objs
    rw [deletePhilObjectsScoped, deletePhilObjects]
    congr 1
    funext o
    cases o with
    | defn m ws => simp
    | scope m kids => simp [ih]

/-- an edit without `only_scope` is an edit of the plain concrete kernel -/
theorem concreteKernelScoped_none_ipl (c : IndexCtx) (w : List Obj) (text : Str) :
    (concreteKernelScoped c).merge w (text, none) = (concreteKernel c).merge w text := by
  unfold concreteKernelScoped concreteKernel
  simp only [deletePhilScoped_none_ipl]
  cases parseObjs text with
  | error err => rfl
  | ok edit =>
    simp only
    cases fetchRoot c.envs false c.master [edit] with
    | error err => rfl
    | ok r0 =>
      simp only
      cases fetchRoot c.envs false c.master
          [if (List.filter (fun p => c.multiple.contains p) (allPathNames 1000 [] edit)).isEmpty = true then w
            else deletePhilObjects 1000 (List.filter (fun p => c.multiple.contains p) (allPathNames 1000 [] edit)) [] w,
            edit] with
      | error err => rfl
      | ok r => rfl

end Phil
