/-
  Phil.Proofs.NoStray3 — lemmas for Phil/Props/C16MS.lean (C16 on masters with `.multiple` scopes,
  WITHOUT the hypothesis that the keys of the list rule are defined).
    0. `ErrIn P r`: every error of `r` satisfies `P`; fold lemmas;
    1. `fieldGet` / `fieldSet` algebra; `philSet` on a `.multiple` name;
    2. `RObj_n3` / `RKids_n3`: the block structure of a fetch result relative to its master;
       `VObj_n3` / `VKids_n3`: the typing of an extracted value relative to the master;
    3. extraction of a result (`extract_res_n3`), formatting of a typed value (`format_val_n3`),
       `extractFormatStr` of a candidate (`efs_good_n3`): only converter errors;
    4. the fetch itself (`fetch_ms_good_n3`): ok (with the block structure), "incompatible", or a
       converter error raised while rendering a candidate.
  Every name defined here ends in `_n3` (or lives in `ErrIn`).
-/
import Phil.Proofs.NoStray2
import Phil.Proofs.FetchTreeMS
import Phil.Proofs.ConvDomain
import Phil.Proofs.FetchVars
import Phil.CmdLineAuto
set_option linter.unusedVariables false
namespace Phil
open Phil.C12

/-! ## 0. `ErrIn` -/

/-- every error of `r` satisfies `P` -/
def ErrIn {α : Type} (P : Err → Prop) (r : R α) : Prop := ∀ e, r = .error e → P e

theorem ErrIn.ok {α : Type} {P : Err → Prop} (a : α) : ErrIn P (Except.ok a : R α) := by
  intro e h; cases h

theorem ErrIn.err {α : Type} {P : Err → Prop} {e : Err} (h : P e) : ErrIn P (Except.error e : R α) := by
  intro e' h'; cases h'; exact h

theorem ErrIn.map {α β : Type} {P : Err → Prop} {r : R α} (f : α → β) (h : ErrIn P r) :
    ErrIn P (r.map f) := by
  cases r with
  | ok v => exact ErrIn.ok _
  | error e => exact ErrIn.err (h e rfl)

theorem ErrIn.mono {α : Type} {P Q : Err → Prop} {r : R α} (h : ∀ e, P e → Q e) (hr : ErrIn P r) :
    ErrIn Q r := fun e he => h e (hr e he)

theorem ErrIn.ite {α : Type} {P : Err → Prop} {c : Prop} [Decidable c] {a b : R α}
    (ha : ErrIn P a) (hb : ErrIn P b) : ErrIn P (if c then a else b) := by
  split <;> assumption

/-- a loop whose steps keep an invariant and fail only with `P`-errors -/
theorem foldlM_inv_errIn_n3 {α β : Type} {P : Err → Prop} (Inv : β → Prop) (f : β → α → R β) :
    ∀ (l : List α),
      (∀ b a, a ∈ l → Inv b → ErrIn P (f b a) ∧ ∀ b', f b a = .ok b' → Inv b') →
      ∀ b, Inv b → ErrIn P (l.foldlM f b) ∧ ∀ b', l.foldlM f b = .ok b' → Inv b' := by
  intro l
  induction l with
  | nil =>
    intro _ b hb
    refine ⟨ErrIn.ok _, ?_⟩
    intro b' h
    cases h
    exact hb
  | cons a as ih =>
    intro hf b hb
    rw [List.foldlM_cons]
    obtain ⟨h1, h2⟩ := hf b a List.mem_cons_self hb
    cases hc : f b a with
    | error e => exact ⟨ErrIn.err (h1 e hc), fun b' h => by cases h⟩
    | ok b1 => exact ih (fun b a' ha' => hf b a' (List.mem_cons_of_mem _ ha')) b1 (h2 b1 hc)

theorem foldlM_errIn_n3 {α β : Type} {P : Err → Prop} (f : β → α → R β) (l : List α)
    (hf : ∀ b a, a ∈ l → ErrIn P (f b a)) (b : β) : ErrIn P (l.foldlM f b) :=
  (foldlM_inv_errIn_n3 (fun _ => True) f l (fun b a ha _ => ⟨hf b a ha, fun _ _ => trivial⟩) b trivial).1

/-! ## 1. `fieldGet` / `fieldSet` -/

theorem fieldGet_map_other_n3 (k n : Str) (v : PVal) (hne : n ≠ k) : ∀ (fs : List (Str × PVal)),
    fieldGet (fs.map (fun p => if p.1 == k then (k, v) else p)) n = fieldGet fs n
  | [] => rfl
  | (a, b) :: fs => by
    rw [List.map_cons]
    by_cases hak : a = k
    · subst hak
      have han : (a == n) = false := by simpa using (fun h : a = n => hne h.symm)
      simp only [beq_self_eq_true, if_true]
      rw [fieldGet_cons_xt, fieldGet_cons_xt, fieldGet_map_other_n3 a n v hne fs]
      simp only [han, Bool.false_eq_true, if_false]
    · have : (a == k) = false := by simpa using hak
      simp only [this, Bool.false_eq_true, if_false]
      rw [fieldGet_cons_xt, fieldGet_cons_xt, fieldGet_map_other_n3 k n v hne fs]

theorem fieldGet_map_self_n3 (k : Str) (v : PVal) : ∀ (fs : List (Str × PVal)),
    fs.any (·.1 == k) = true →
    fieldGet (fs.map (fun p => if p.1 == k then (k, v) else p)) k = some v
  | [], h => by cases h
  | (a, b) :: fs, h => by
    rw [List.map_cons]
    by_cases hak : a = k
    · subst hak
      simp only [beq_self_eq_true, if_true]
      rw [fieldGet_cons_xt]
      simp
    · have hf : (a == k) = false := by simpa using hak
      simp only [hf, Bool.false_eq_true, if_false]
      rw [fieldGet_cons_xt]
      simp only [hf, Bool.false_eq_true, if_false]
      apply fieldGet_map_self_n3 k v fs
      simpa [hf] using h

theorem fieldGet_append_one_n3 (k n : Str) (v : PVal) : ∀ (fs : List (Str × PVal)),
    fieldGet (fs ++ [(k, v)]) n =
      match fieldGet fs n with
      | some x => some x
      | none => if k == n then some v else none
  | [] => by
    show fieldGet [(k, v)] n = _
    rw [fieldGet_cons_xt]; rfl
  | (a, b) :: fs => by
    rw [List.cons_append, fieldGet_cons_xt, fieldGet_cons_xt]
    by_cases h : (a == n) = true
    · simp [h]
    · simp only [h, if_false, Bool.false_eq_true]
      exact fieldGet_append_one_n3 k n v fs

theorem any_false_fieldGet_none_n3 (k : Str) : ∀ (fs : List (Str × PVal)),
    fs.any (·.1 == k) = false → fieldGet fs k = none
  | [], _ => rfl
  | (a, b) :: fs, h => by
    rw [List.any_cons, Bool.or_eq_false_iff] at h
    rw [fieldGet_cons_xt]
    simp only [h.1, Bool.false_eq_true, if_false]
    exact any_false_fieldGet_none_n3 k fs h.2

theorem fieldGet_fieldSet_self_n3 (fs : List (Str × PVal)) (k : Str) (v : PVal) :
    fieldGet (fieldSet fs k v) k = some v := by
  unfold fieldSet
  cases h : fs.any (·.1 == k) with
  | true =>
    simp only [if_true]
    exact fieldGet_map_self_n3 k v fs h
  | false =>
    simp only [Bool.false_eq_true, if_false]
    rw [fieldGet_append_one_n3, any_false_fieldGet_none_n3 k fs h]
    simp

theorem fieldGet_fieldSet_other_n3 (fs : List (Str × PVal)) (k n : Str) (v : PVal) (hne : n ≠ k) :
    fieldGet (fieldSet fs k v) n = fieldGet fs n := by
  unfold fieldSet
  cases h : fs.any (·.1 == k) with
  | true =>
    simp only [if_true]
    exact fieldGet_map_other_n3 k n v hne fs
  | false =>
    simp only [Bool.false_eq_true, if_false]
    rw [fieldGet_append_one_n3]
    have : (k == n) = false := by simpa using (fun h : k = n => hne h.symm)
    cases fieldGet fs n <;> simp [this]

/-- `__phil_set__(multiple=True)` spelled out by the state of the slot -/
theorem philSet_multi_eq_n3 (fs : List (Str × PVal)) (name : Str) (opt : AttrVal) (x : XVal) :
    ∃ (c : PVal → Bool), philSet fs name opt true x =
      match fieldGet fs name with
      | none =>
        (match x with
         | .disabled => .ok (fieldSet fs name (.multi opt []))
         | .val v =>
           if c v then .ok (fieldSet (fieldSet fs name (.multi opt [])) name (.multi opt ([] ++ [v])))
           else .ok (fieldSet fs name (.multi opt [])))
      | some (.multi o l) =>
        (match x with
         | .disabled => .ok fs
         | .val v => if c v then .ok (fieldSet fs name (.multi o (l ++ [v]))) else .ok fs)
      | some _ =>
        (match x with
         | .disabled => .ok fs
         | .val _ => .error (.stray "AttributeError" "phil_set_append")) := by
  refine ⟨fun v => !(match v with | .none => true | _ => false) ||
    !(match opt with | .bool true => true | _ => false), ?_⟩
  unfold philSet
  simp only [Bool.not_true, Bool.false_eq_true, if_false]
  cases fieldGet fs name with
  | none => cases x <;> rfl
  | some n => cases n <;> cases x <;> rfl

/-- `__phil_set__` on a `.multiple` name whose slot `g` is empty or already a `scope_extract_list`: it
    succeeds, touches that slot only, leaves a list there, and the list gains at most the new value -/
theorem philSet_multi_n3 (fs : List (Str × PVal)) (name : Str) (opt : AttrVal) (x : XVal)
    (g : Option PVal) (hg : fieldGet fs name = g)
    (h : g = none ∨ ∃ op l, g = some (.multi op l)) :
    ∃ fs' op' l', philSet fs name opt true x = .ok fs' ∧
      (∀ n, n ≠ name → fieldGet fs' n = fieldGet fs n) ∧
      fieldGet fs' name = some (.multi op' l') ∧
      ∀ y ∈ l', (∃ op l, g = some (.multi op l) ∧ y ∈ l) ∨ x = .val y := by
  obtain ⟨c, hc⟩ := philSet_multi_eq_n3 fs name opt x
  rw [hc, hg]
  rcases h with rfl | ⟨op, l, rfl⟩
  · cases x with
    | disabled =>
      refine ⟨_, opt, [], rfl, fun n hn => fieldGet_fieldSet_other_n3 fs name n _ hn,
        fieldGet_fieldSet_self_n3 fs name _, ?_⟩
      intro y hy; cases hy
    | val v =>
      cases hcv : c v with
      | true =>
        simp only [hcv, if_true]
        refine ⟨_, opt, [] ++ [v], rfl, ?_, fieldGet_fieldSet_self_n3 _ name _, ?_⟩
        · intro n hn
          rw [fieldGet_fieldSet_other_n3 _ name n _ hn, fieldGet_fieldSet_other_n3 fs name n _ hn]
        · intro y hy
          simp only [List.nil_append, List.mem_singleton] at hy
          subst hy
          exact .inr rfl
      | false =>
        simp only [hcv, Bool.false_eq_true, if_false]
        refine ⟨_, opt, [], rfl, fun n hn => fieldGet_fieldSet_other_n3 fs name n _ hn,
          fieldGet_fieldSet_self_n3 fs name _, ?_⟩
        intro y hy; cases hy
  · cases x with
    | disabled =>
      exact ⟨fs, op, l, rfl, fun n hn => rfl, hg, fun y hy => .inl ⟨op, l, rfl, hy⟩⟩
    | val v =>
      cases hcv : c v with
      | true =>
        simp only [hcv, if_true]
        refine ⟨_, op, l ++ [v], rfl, fun n hn => fieldGet_fieldSet_other_n3 fs name n _ hn,
          fieldGet_fieldSet_self_n3 fs name _, ?_⟩
        intro y hy
        rw [List.mem_append, List.mem_singleton] at hy
        rcases hy with hy | hy
        · exact .inl ⟨op, l, rfl, hy⟩
        · subst hy; exact .inr rfl
      | false =>
        simp only [hcv, Bool.false_eq_true, if_false]
        exact ⟨fs, op, l, rfl, fun n hn => rfl, hg, fun y hy => .inl ⟨op, l, rfl, hy⟩⟩

/-! ## 2. the block structure of a fetch result; the typing of an extracted value -/

mutual
/-- `RObj_n3 mo o`: `o` is an object a fetch emits for the master object `mo` — `mo`'s declaration
    (all meta data but the template mark); a definition carries at least one word; a scope that is
    live (`is_template = 0`) has children that are again such a result for `mo`'s children; a
    non-multiple scope is always live -/
def RObj_n3 : Obj → Obj → Prop
  | .defn mm _, o => ∃ (t : Int) (ws : List Word), o = .defn { mm with tmpl := t } ws ∧ ws ≠ []
  | .scope mm kids, o => ∃ (t : Int) (out : List Obj), o = .scope { mm with tmpl := t } out ∧
      (t = 0 → RKids_n3 kids out) ∧ ((mm.attrs.get "multiple").truthy = false → t = 0)
/-- the children of a result scope: one block per master child, in master order; the block of a
    non-multiple child has at most one object -/
def RKids_n3 : List Obj → List Obj → Prop
  | [], out => out = []
  | mo :: rest, out => ∃ (block out' : List Obj), out = block ++ out' ∧ (∀ o ∈ block, RObj_n3 mo o) ∧
      (isMultiple mo = false → block.length ≤ 1) ∧ RKids_n3 rest out'
end

/-- the slot of one master child in an extracted record -/
def VField_n3 (V : PVal → Prop) (mult : Bool) : Option PVal → Prop
  | none => True
  | some sub => if mult then ∃ op l, sub = .multi op l ∧ ∀ x ∈ l, V x else V sub

mutual
/-- `VObj_n3 mo v`: the Python value `v` has the shape `mo.format` expects: for a definition a value
    its converter formats without TypeError/AssertionError; for a scope a `scope_extract` whose slots
    are typed by the children (a `scope_extract_list` of typed values for a `.multiple` child) -/
def VObj_n3 : Obj → PVal → Prop
  | .defn mm _, v => ∀ c, declConv mm = some c → asWordsStrays_ns c v = false
  | .scope _ kids, v => ∃ fs, v = .record fs ∧ VKids_n3 kids fs
def VKids_n3 : List Obj → List (Str × PVal) → Prop
  | [], _ => True
  | k :: rest, fs => VField_n3 (VObj_n3 k) (isMultiple k) (fieldGet fs k.name) ∧ VKids_n3 rest fs
end

theorem vkids_iff_n3 (fs : List (Str × PVal)) : ∀ (kids : List Obj),
    VKids_n3 kids fs ↔ ∀ k ∈ kids, VField_n3 (VObj_n3 k) (isMultiple k) (fieldGet fs k.name)
  | [] => by rw [VKids_n3]; simp
  | k :: rest => by rw [VKids_n3, vkids_iff_n3 fs rest]; simp

theorem vkids_congr_n3 (fs fs' : List (Str × PVal)) (kids : List Obj)
    (h : ∀ k ∈ kids, fieldGet fs' k.name = fieldGet fs k.name) (hv : VKids_n3 kids fs) :
    VKids_n3 kids fs' := by
  rw [vkids_iff_n3] at hv ⊢
  intro k hk
  rw [h k hk]
  exact hv k hk

theorem RObj_n3.facts {k o : Obj} (hk : MSObj k) (h : RObj_n3 k o) :
    o.name = k.name ∧ o.meta.attrs = k.meta.attrs ∧ o.meta.disabled = false := by
  cases k with
  | defn mm mws =>
    rw [RObj_n3] at h
    obtain ⟨t, ws, rfl, _⟩ := h
    exact ⟨rfl, rfl, hk.enabled⟩
  | scope mm kids =>
    rw [RObj_n3] at h
    obtain ⟨t, out, rfl, _⟩ := h
    exact ⟨rfl, rfl, hk.enabled⟩

theorem RObj_n3.multiple {k o : Obj} (hk : MSObj k) (h : RObj_n3 k o) : isMultiple o = isMultiple k := by
  unfold isMultiple Obj.attr
  rw [(h.facts hk).2.1]

theorem RObj_n3.optional {k o : Obj} (hk : MSObj k) (h : RObj_n3 k o) :
    o.attr "optional" = k.attr "optional" := by
  unfold Obj.attr
  rw [(h.facts hk).2.1]

/-! ### converter errors -/

/-- an error raised by `definition.extract` or `definition.format` of some definition — a converter's
    RuntimeError (or a value the model declares outside its domain); never a `stray`, never the loop
    bound -/
def ConvErr_n3 (e : Envs) (err : Err) : Prop :=
  err.benign = true ∧
    ((∃ m ws, extractDefn e m ws = .error err) ∨ (∃ m ws v, formatDefn e m ws v = .error err))

theorem declConv_not_choice_n3 {mm : Meta} (hp : DefnMeta mm) {c : Conv} (h : declConv mm = some c) :
    ∀ b, c ≠ .choice b := by
  intro b hb
  subst hb
  unfold declConv at h
  cases ht : mm.attrs.get "type" <;> rw [ht] at h <;> try cases h
  exact hp.notChoice b ht

theorem inDomain_not_strays_n3 (c : Conv) (v : PVal) (h : InDomain c v = true)
    (hc : ∀ b, c ≠ .choice b) : asWordsStrays_ns c v = false := by
  cases c with
  | choice b => exact absurd rfl (hc b)
  | int a => cases v <;> simp_all [InDomain, asWordsStrays_ns, isIntIn]
  | float a => cases v <;> simp_all [InDomain, asWordsStrays_ns, isFloatIn]
  | _ => cases v <;> simp [asWordsStrays_ns]

theorem none_not_strays_n3 (c : Conv) (hc : ∀ b, c ≠ .choice b) : asWordsStrays_ns c .none = false := by
  cases c with
  | choice b => exact absurd rfl (hc b)
  | _ => simp [asWordsStrays_ns]

theorem vobj_defn_none_n3 (mm : Meta) (mws : List Word) (hp : DefnMeta mm) :
    VObj_n3 (.defn mm mws) .none := by
  rw [VObj_n3]
  intro c hc
  exact none_not_strays_n3 c (declConv_not_choice_n3 hp hc)

/-- `definition.extract` of a result definition: a converter error or a typed value -/
theorem extractDefn_good_n3 (e : Envs) (mm : Meta) (mws : List Word) (hp : DefnMeta mm) (t : Int)
    (ws : List Word) (hne : ws ≠ []) :
    ErrIn (ConvErr_n3 e) (extractDefn e { mm with tmpl := t } ws) ∧
      ∀ v, extractDefn e { mm with tmpl := t } ws = .ok v → VObj_n3 (.defn mm mws) v := by
  constructor
  · intro err h
    exact ⟨(extractDefn_benign_ns e _ hne).error h, .inl ⟨_, _, h⟩⟩
  · intro v h
    rw [VObj_n3]
    intro c hc
    obtain ⟨c', hc', hfw⟩ := extractDefn_ok_conv_xt e _ ws v h
    have : declConv { mm with tmpl := t } = declConv mm := rfl
    rw [this, hc] at hc'
    cases hc'
    exact inDomain_not_strays_n3 c v (fromWords_in_domain c _ _ _ v hfw) (declConv_not_choice_n3 hp hc)

/-! ## 3. extraction of a result -/

theorem xstep_cases_n3 (X : Obj → R PVal) (fs : List (Str × PVal)) (o : Obj)
    (hd : o.meta.disabled = false) :
    (o.meta.tmpl < 0 ∧ xstep_xt X fs o = .ok fs) ∨
    (0 < o.meta.tmpl ∧
      xstep_xt X fs o = philSet fs o.name (o.attr "optional") (isMultiple o) .disabled) ∨
    (o.meta.tmpl = 0 ∧
      xstep_xt X fs o =
        match X o with
        | .error err => .error err
        | .ok v => philSet fs o.name (o.attr "optional") (isMultiple o) (.val v)) := by
  unfold xstep_xt
  by_cases h1 : o.meta.tmpl < 0
  · exact .inl ⟨h1, by simp only [h1, if_true]⟩
  · by_cases h2 : o.meta.tmpl > 0
    · refine .inr (.inl ⟨h2, ?_⟩)
      simp only [h1, if_false, hd, Bool.false_or, h2, decide_true, if_true]
    · refine .inr (.inr ⟨by omega, ?_⟩)
      simp only [h1, if_false, hd, Bool.false_or, h2, decide_false, Bool.false_eq_true]
      cases X o <;> rfl

/-- the block of a `.multiple` master child: the slot stays a typed `scope_extract_list` -/
theorem extractBlock_multi_n3 (e : Envs) (X : Obj → R PVal) (k : Obj) (hk : MSObj k)
    (hm : isMultiple k = true)
    (hX : ∀ o, RObj_n3 k o → o.meta.tmpl = 0 →
      ErrIn (ConvErr_n3 e) (X o) ∧ ∀ v, X o = .ok v → VObj_n3 k v) :
    ∀ (block : List Obj), (∀ o ∈ block, RObj_n3 k o) → ∀ (fs : List (Str × PVal)),
      (fieldGet fs k.name = none ∨ ∃ op l, fieldGet fs k.name = some (.multi op l) ∧ ∀ x ∈ l, VObj_n3 k x) →
      ErrIn (ConvErr_n3 e) (block.foldlM (xstep_xt X) fs) ∧
        ∀ fs', block.foldlM (xstep_xt X) fs = .ok fs' →
          (fieldGet fs' k.name = none ∨
            ∃ op l, fieldGet fs' k.name = some (.multi op l) ∧ ∀ x ∈ l, VObj_n3 k x) ∧
          ∀ n, n ≠ k.name → fieldGet fs' n = fieldGet fs n := by
  intro block
  induction block with
  | nil =>
    intro _ fs hfs
    refine ⟨ErrIn.ok _, ?_⟩
    intro fs' h
    cases h
    exact ⟨hfs, fun n _ => rfl⟩
  | cons o os ih =>
    intro hb fs hfs
    have ho := hb o List.mem_cons_self
    have hos : ∀ o' ∈ os, RObj_n3 k o' := fun o' h' => hb o' (List.mem_cons_of_mem _ h')
    obtain ⟨hname, _, hdis⟩ := ho.facts hk
    rw [List.foldlM_cons]
    -- the state of the slot, in the form `philSet_multi_n3` wants
    have hslot : fieldGet fs o.name = none ∨ ∃ op l, fieldGet fs o.name = some (.multi op l) := by
      rw [hname]
      rcases hfs with h | ⟨op, l, h, _⟩
      · exact .inl h
      · exact .inr ⟨op, l, h⟩
    -- what a `philSet` step gives
    have hset : ∀ (x : XVal), (∀ y, x = .val y → VObj_n3 k y) →
        ∃ fs1, philSet fs o.name (o.attr "optional") (isMultiple o) x = .ok fs1 ∧
          (fieldGet fs1 k.name = none ∨
            ∃ op l, fieldGet fs1 k.name = some (.multi op l) ∧ ∀ x ∈ l, VObj_n3 k x) ∧
          ∀ n, n ≠ k.name → fieldGet fs1 n = fieldGet fs n := by
      intro x hx
      rw [ho.multiple hk, hm]
      obtain ⟨fs1, op1, l1, h1, h2, h3, h4⟩ :=
        philSet_multi_n3 fs o.name (o.attr "optional") x _ rfl hslot
      refine ⟨fs1, h1, .inr ⟨op1, l1, by rw [← hname]; exact h3, ?_⟩, by rw [← hname]; exact h2⟩
      intro y hy
      rcases h4 y hy with ⟨op, l, hg, hyl⟩ | hxy
      · rw [hname] at hg
        rcases hfs with h | ⟨op', l', h, hall⟩
        · rw [h] at hg; cases hg
        · rw [h] at hg; cases hg; exact hall y hyl
      · exact hx y hxy
    rcases xstep_cases_n3 X fs o hdis with ⟨_, hs⟩ | ⟨_, hs⟩ | ⟨ht, hs⟩
    · rw [hs]
      exact ih hos fs hfs
    · rw [hs]
      obtain ⟨fs1, h1, h2, h3⟩ := hset .disabled (fun y hy => by cases hy)
      rw [h1]
      obtain ⟨i1, i2⟩ := ih hos fs1 h2
      refine ⟨i1, ?_⟩
      intro fs' hf
      obtain ⟨j1, j2⟩ := i2 fs' hf
      exact ⟨j1, fun n hn => by rw [j2 n hn, h3 n hn]⟩
    · rw [hs]
      obtain ⟨hx1, hx2⟩ := hX o ho ht
      cases hxo : X o with
      | error err => exact ⟨ErrIn.err (hx1 err hxo), fun fs' h => by cases h⟩
      | ok v =>
        simp only
        obtain ⟨fs1, h1, h2, h3⟩ := hset (.val v) (fun y hy => by cases hy; exact hx2 v hxo)
        rw [h1]
        obtain ⟨i1, i2⟩ := ih hos fs1 h2
        refine ⟨i1, ?_⟩
        intro fs' hf
        obtain ⟨j1, j2⟩ := i2 fs' hf
        exact ⟨j1, fun n hn => by rw [j2 n hn, h3 n hn]⟩

/-- the block of one master child, slot empty at the start: the slot ends up typed, the other slots
    are not touched -/
theorem extractBlock_n3 (e : Envs) (X : Obj → R PVal) (k : Obj) (hk : MSObj k)
    (hX : ∀ o, RObj_n3 k o → o.meta.tmpl = 0 →
      ErrIn (ConvErr_n3 e) (X o) ∧ ∀ v, X o = .ok v → VObj_n3 k v)
    (block : List Obj) (hb : ∀ o ∈ block, RObj_n3 k o)
    (hlen : isMultiple k = false → block.length ≤ 1) (fs : List (Str × PVal))
    (hfs : fieldGet fs k.name = none) :
    ErrIn (ConvErr_n3 e) (block.foldlM (xstep_xt X) fs) ∧
      ∀ fs', block.foldlM (xstep_xt X) fs = .ok fs' →
        VField_n3 (VObj_n3 k) (isMultiple k) (fieldGet fs' k.name) ∧
        ∀ n, n ≠ k.name → fieldGet fs' n = fieldGet fs n := by
  cases hm : isMultiple k with
  | true =>
    obtain ⟨h1, h2⟩ := extractBlock_multi_n3 e X k hk hm hX block hb fs (.inl hfs)
    refine ⟨h1, ?_⟩
    intro fs' hf
    obtain ⟨j1, j2⟩ := h2 fs' hf
    refine ⟨?_, j2⟩
    rcases j1 with j1 | ⟨op, l, j1, hall⟩
    · rw [j1]; trivial
    · rw [j1]
      simp only [VField_n3, if_true]
      exact ⟨op, l, rfl, hall⟩
  | false =>
    have hl := hlen hm
    match block, hb, hl with
    | [], _, _ =>
      refine ⟨ErrIn.ok _, ?_⟩
      intro fs' h
      cases h
      rw [hfs]
      exact ⟨trivial, fun n _ => rfl⟩
    | [o], hb, _ =>
      have ho := hb o List.mem_cons_self
      obtain ⟨hname, _, hdis⟩ := ho.facts hk
      have hmo : isMultiple o = false := by rw [ho.multiple hk, hm]
      have hfo : fieldGet fs o.name = none := by rw [hname]; exact hfs
      have hfold : ∀ r : R (List (Str × PVal)), List.foldlM (xstep_xt X) fs [o] = (xstep_xt X fs o) := by
        intro _
        rw [List.foldlM_cons]
        cases xstep_xt X fs o <;> rfl
      rw [hfold (.ok [])]
      -- the value a set leaves in the slot
      have hset : ∀ (x : XVal) (w : PVal), (x = .disabled ∧ w = .none ∨ x = .val w) →
          VObj_n3 k w →
          ∀ fs', philSet fs o.name (o.attr "optional") (isMultiple o) x = .ok fs' →
            VField_n3 (VObj_n3 k) false (fieldGet fs' k.name) ∧
            ∀ n, n ≠ k.name → fieldGet fs' n = fieldGet fs n := by
        intro x w hw hv fs' h
        rw [hmo, philSet_fresh_ns fs o.name _ x hfo] at h
        have h' : fieldSet fs o.name w = fs' := by
          rcases hw with ⟨rfl, rfl⟩ | rfl <;> (cases h; rfl)
        subst h'
        rw [hname]
        refine ⟨?_, fun n hn => fieldGet_fieldSet_other_n3 fs k.name n w hn⟩
        rw [fieldGet_fieldSet_self_n3]
        simp only [VField_n3, Bool.false_eq_true, if_false]
        exact hv
      rcases xstep_cases_n3 X fs o hdis with ⟨_, hs⟩ | ⟨htp, hs⟩ | ⟨ht, hs⟩
      · rw [hs]
        refine ⟨ErrIn.ok _, ?_⟩
        intro fs' h
        cases h
        rw [hfs]
        exact ⟨trivial, fun n _ => rfl⟩
      · rw [hs]
        -- a template: only a definition can be one here
        have hvn : VObj_n3 k .none := by
          cases k with
          | defn mm mws => rw [MSObj] at hk; exact vobj_defn_none_n3 mm mws hk.1
          | scope mm kids =>
            rw [RObj_n3] at ho
            obtain ⟨t, out, rfl, _, h0⟩ := ho
            have := h0 hm
            subst this
            exact absurd htp (Int.lt_irrefl 0)
        refine ⟨?_, fun fs' h => hset .disabled .none (.inl ⟨rfl, rfl⟩) hvn fs' h⟩
        rw [hmo, philSet_fresh_ns fs o.name _ _ hfo]
        exact ErrIn.ok _
      · rw [hs]
        obtain ⟨hx1, hx2⟩ := hX o ho ht
        cases hxo : X o with
        | error err => exact ⟨ErrIn.err (hx1 err hxo), fun fs' h => by cases h⟩
        | ok v =>
          simp only
          refine ⟨?_, fun fs' h => hset (.val v) v (.inr rfl) (hx2 v hxo) fs' h⟩
          rw [hmo, philSet_fresh_ns fs o.name _ _ hfo]
          exact ErrIn.ok _
    | _ :: _ :: _, _, hl => exact absurd hl (by simp)

/-- the loop of `scope.extract` over the children of a result scope -/
theorem extractKids_n3 (e : Envs) (X : Obj → R PVal) : ∀ (kids out : List Obj),
    MSKids kids → (kids.map Obj.name).Pairwise (· ≠ ·) → RKids_n3 kids out →
    (∀ k ∈ kids, ∀ o, RObj_n3 k o → o.meta.tmpl = 0 →
      ErrIn (ConvErr_n3 e) (X o) ∧ ∀ v, X o = .ok v → VObj_n3 k v) →
    ∀ (fs : List (Str × PVal)), (∀ k ∈ kids, fieldGet fs k.name = none) →
      ErrIn (ConvErr_n3 e) (out.foldlM (xstep_xt X) fs) ∧
        ∀ fs', out.foldlM (xstep_xt X) fs = .ok fs' → VKids_n3 kids fs' ∧
          ∀ n, n ∉ kids.map Obj.name → fieldGet fs' n = fieldGet fs n
  | [], out, _, _, hr, _, fs, _ => by
    rw [RKids_n3] at hr
    subst hr
    refine ⟨ErrIn.ok _, ?_⟩
    intro fs' h
    cases h
    rw [VKids_n3]
    exact ⟨trivial, fun n _ => rfl⟩
  | k :: rest, out, hms, hpw, hr, hX, fs, hfresh => by
    rw [RKids_n3] at hr
    obtain ⟨block, out', rfl, hb, hlen, hrest⟩ := hr
    rw [MSKids] at hms
    rw [List.map_cons, List.pairwise_cons] at hpw
    rw [List.foldlM_append]
    obtain ⟨b1, b2⟩ := extractBlock_n3 e X k hms.1 (hX k List.mem_cons_self) block hb hlen fs
      (hfresh k List.mem_cons_self)
    cases hblk : block.foldlM (xstep_xt X) fs with
    | error err => exact ⟨ErrIn.err (b1 err hblk), fun fs' h => by cases h⟩
    | ok fs1 =>
      obtain ⟨c1, c2⟩ := b2 fs1 hblk
      have hfresh1 : ∀ k' ∈ rest, fieldGet fs1 k'.name = none := by
        intro k' hk'
        rw [c2 k'.name (fun h => hpw.1 k'.name (List.mem_map_of_mem hk') h.symm)]
        exact hfresh k' (List.mem_cons_of_mem _ hk')
      obtain ⟨d1, d2⟩ := extractKids_n3 e X rest out' hms.2 hpw.2 hrest
        (fun k' hk' => hX k' (List.mem_cons_of_mem _ hk')) fs1 hfresh1
      refine ⟨d1, ?_⟩
      intro fs' hf
      obtain ⟨e1, e2⟩ := d2 fs' hf
      have hkn : k.name ∉ rest.map Obj.name := fun h => hpw.1 k.name h rfl
      refine ⟨?_, ?_⟩
      · rw [VKids_n3]
        refine ⟨?_, e1⟩
        rw [e2 k.name hkn]
        exact c1
      · intro n hn
        rw [List.map_cons, List.mem_cons, not_or] at hn
        rw [e2 n hn.2, c2 n hn.1]

/-- **extraction of a fetch result**: `scope.extract` / `definition.extract` of an object the fetch
    emitted for the master object `mo` (a definition, or a live scope) fails only with a converter
    error, and a value it returns is typed by `mo` -/
theorem extract_res_n3 (e : Envs) : ∀ (n : Nat) (mo o : Obj), MSObj mo → RObj_n3 mo o →
    (o.isDefn = false → o.meta.tmpl = 0) → depthT mo < n →
    ErrIn (ConvErr_n3 e) (extractObj e n o) ∧ ∀ v, extractObj e n o = .ok v → VObj_n3 mo v := by
  intro n
  induction n with
  | zero => intro mo o _ _ _ h; exact absurd h (Nat.not_lt_zero _)
  | succ n ih =>
    intro mo o hms hr ht hd
    cases mo with
    | defn mm mws =>
      rw [RObj_n3] at hr
      obtain ⟨t, ws, rfl, hne⟩ := hr
      rw [MSObj] at hms
      rw [extractObj]
      exact extractDefn_good_n3 e mm mws hms.1 t ws hne
    | scope mm kids =>
      rw [RObj_n3] at hr
      obtain ⟨t, out, rfl, hrk, _⟩ := hr
      have ht0 : t = 0 := ht rfl
      subst ht0
      rw [MSObj] at hms
      rw [depthT] at hd
      rw [extractObj_scope_xt]
      obtain ⟨h1, h2⟩ := extractKids_n3 e (extractObj e n) kids out hms.2.2.2.1 hms.2.2.2.2 (hrk rfl)
        (fun k hk o ho hto => ih k o ((msKids_iff kids).1 hms.2.2.2.1 k hk) ho (fun _ => hto)
          (by have := depthT_le_depthL kids k hk; omega))
        [] (fun k _ => rfl)
      refine ⟨h1.map _, ?_⟩
      intro v hv
      obtain ⟨fs', hfs', hv'⟩ := except_map_ok hv
      subst hv'
      rw [VObj_n3]
      exact ⟨fs', rfl, (h2 fs' hfs').1⟩


/-! ## 3b. formatting a typed value -/

theorem formatDefn_good_n3 (e : Envs) (m : Meta) (ws : List Word) (v : PVal)
    (hv : ∀ c, declConv m = some c → asWordsStrays_ns c v = false) :
    ErrIn (ConvErr_n3 e) (formatDefn e m ws v) := by
  intro err h
  refine ⟨?_, .inr ⟨m, ws, v, h⟩⟩
  unfold formatDefn at h
  cases ht : m.attrs.get "type" with
  | none =>
    simp only [ht] at h
    have hs := hv .strings (by unfold declConv; rw [ht])
    exact ((asWords_benign_ns .strings e.fmt _ ws v hs).map _).error h
  | conv c =>
    simp only [ht] at h
    have hs := hv c (by unfold declConv; rw [ht])
    exact ((asWords_benign_ns c e.fmt _ ws v hs).map _).error h
  | auto => simp only [ht] at h; cases h; rfl
  | bool b => simp only [ht] at h; cases h; rfl
  | int i => simp only [ht] at h; cases h; rfl
  | str s => simp only [ht] at h; cases h; rfl

theorem mem_indexed_snd_n3 {kids : List Obj} {io : Nat × Obj} (h : io ∈ indexed kids) : io.2 ∈ kids := by
  rw [← indexed_map_snd kids]
  exact List.mem_map.mpr ⟨io, h, rfl⟩

/-- **formatting a typed value**: `mo.format(v)` for a value typed by the master object `mo` fails
    only with a converter error -/
theorem format_val_n3 (e : Envs) : ∀ (n : Nat) (mo : Obj) (v : PVal), MSObj mo → VObj_n3 mo v →
    depthT mo < n → ErrIn (ConvErr_n3 e) (formatObj e n mo v) := by
  intro n
  induction n with
  | zero => intro mo v _ _ h; exact absurd h (Nat.not_lt_zero _)
  | succ n ih =>
    intro mo v hms hv hd
    cases mo with
    | defn mm mws =>
      rw [formatObj]
      rw [VObj_n3] at hv
      exact formatDefn_good_n3 e mm mws v hv
    | scope mm kids =>
      rw [VObj_n3] at hv
      obtain ⟨fs, hvfs, hvk⟩ := hv
      rw [vkids_iff_n3] at hvk
      have hmk := MSMaster.of_scope hms
      rw [depthT] at hd
      rw [formatObj_scope_xt, masterActive_ms kids hmk]
      dsimp only
      have hfold : ErrIn (ConvErr_n3 e) ((indexed kids).foldlM (fstep_xt (formatObj e n) v)
          (([] : List Obj), ([] : List (Str × Bool)))) := by
        apply foldlM_errIn_n3
        intro st io hio
        have hk := mem_indexed_snd_n3 hio
        have hkm := hmk.obj _ hk
        have hkd : depthT io.2 < n := by have := depthT_le_depthL kids _ hk; omega
        have hfield := hvk _ hk
        unfold fstep_xt
        dsimp only
        split
        · exact ErrIn.ok _
        · split
          · cases hvfs
          · cases hvfs
          · split
            · rename_i err herr
              subst hvfs
              cases herr
            · rename_i pobjs hp
              subst hvfs
              cases hp
              apply foldlM_errIn_n3
              intro st pi hpi
              rw [List.mem_singleton] at hpi
              subst hpi
              dsimp only
              cases hg : fieldGet fs io.2.name with
              | none => exact ErrIn.ok _
              | some sub =>
                rw [hg] at hfield
                dsimp only
                cases hm : isMultiple io.2 with
                | false =>
                  rw [hm] at hfield
                  simp only [VField_n3, Bool.false_eq_true, if_false] at hfield
                  simp only [Bool.not_false, if_true]
                  exact (ih _ _ hkm hfield hkd).map _
                | true =>
                  rw [hm] at hfield
                  simp only [VField_n3, if_true] at hfield
                  obtain ⟨op, l, rfl, hall⟩ := hfield
                  simp only [Bool.not_true, Bool.false_eq_true, if_false]
                  cases l with
                  | nil => exact ErrIn.ok _
                  | cons x xs =>
                    dsimp only
                    apply ErrIn.map
                    apply foldlM_errIn_n3
                    intro acc y hy
                    exact (ih _ y hkm (hall y hy) hkd).map _
      intro err h
      cases hf : (indexed kids).foldlM (fstep_xt (formatObj e n) v) (([] : List Obj), ([] : List (Str × Bool))) with
      | error err' =>
        rw [hf] at h
        cases h
        exact hfold err hf
      | ok r =>
        rw [hf] at h
        cases h

/-- **`master_object.extract_format(source=c).as_str()`** for an object `c` the fetch built for the
    master object `mo`: only converter errors -/
theorem efs_good_n3 (e : Envs) (f : Nat) (mo c : Obj) (hms : MSObj mo) (hr : RObj_n3 mo c)
    (ht : c.isDefn = false → c.meta.tmpl = 0) (hd : depthT mo < f) :
    ErrIn (ConvErr_n3 e) (extractFormatStr e f mo c) := by
  unfold extractFormatStr
  obtain ⟨x1, x2⟩ := extract_res_n3 e f mo c hms hr ht hd
  cases hx : extractObj e f c with
  | error err => exact ErrIn.err (x1 err hx)
  | ok v =>
    dsimp only
    cases hf : formatObj e f mo v with
    | error err => exact ErrIn.err (format_val_n3 e f mo v hms (x2 v hx) hd err hf)
    | ok fo =>
      obtain ⟨l, hl⟩ := showObj_default_ok_ns fo [] []
      dsimp only
      rw [hl]
      exact ErrIn.ok _

/-! ## 4. the fetch -/

/-- the failures of a fetch on an `MSMaster`: the clash of kinds, or a converter error raised while a
    candidate of a `.multiple` object (or the master's own block) is rendered for the list rule -/
def FetchErr_n3 (e : Envs) (err : Err) : Prop := err = incompatibleErr ∨ ConvErr_n3 e err

/-- sources as the parser delivers them: enabled definitions resolve, enabled scopes are named, and
    every enabled definition contributes at least one word -/
structure SrcGood_n3 (srcs : List Obj) : Prop where
  tree : SrcTree srcs
  words : SrcWords_ns srcs

theorem SrcGood_n3.nil : SrcGood_n3 [] :=
  ⟨SrcTree.nil_ms, fun x hx _ => (not_activeIn_nil_ms hx).elim⟩

theorem SrcGood_n3.step {srcs : List Obj} (h : SrcGood_n3 srcs) (n : Str) : SrcGood_n3 (srcStep srcs n) :=
  ⟨h.tree.step n, h.words.step n⟩

theorem SrcGood_n3.child {srcs : List Obj} (h : SrcGood_n3 srcs) {s : Obj} (hs : s ∈ srcs)
    (hd : s.meta.disabled = false) : SrcGood_n3 s.children := by
  refine ⟨h.tree.child_ms hs hd, ?_⟩
  cases s with
  | defn m ws => exact fun x hx _ => (not_activeIn_nil_ms hx).elim
  | scope m sk => exact fun x hx hdef => h.words x (.deeper hs hd hx) hdef

theorem wordsKids_mem_n3 : ∀ (l : List Obj), wordsKidsB_ns l = true → ∀ o ∈ l, wordsObjB_ns o = true
  | [], _, o, ho => by cases ho
  | a :: os, h, o, ho => by
    rw [wordsKidsB_ns, Bool.and_eq_true] at h
    rcases List.mem_cons.mp ho with rfl | ho
    · exact h.1
    · exact wordsKids_mem_n3 os h.2 o ho

theorem words_defn_ne_n3 {mm : Meta} {mws : List Word} (h : wordsObjB_ns (.defn mm mws) = true) :
    mws ≠ [] := by
  rw [wordsObjB_ns] at h
  intro hn
  subst hn
  cases h

/-- what the induction knows about the recursive callee at fuel `n` -/
def GoodF_n3 (e : Envs) (F : FetchFn) (n : Nat) : Prop :=
  ∀ (mm : Meta) (kids srcs : List Obj), MSMaster kids → wordsKidsB_ns kids = true → depthL kids < n →
    mm.disabled = false → SrcGood_n3 srcs →
    ErrIn (FetchErr_n3 e) (F false mm kids srcs) ∧
      ∀ ro u, F false mm kids srcs = .ok (ro, u) →
        ∃ out, ro = .scope { mm with tmpl := 0 } out ∧ RKids_n3 kids out

theorem robj_scope_live_n3 (mm : Meta) (kids out : List Obj) (h : RKids_n3 kids out) :
    RObj_n3 (.scope mm kids) (.scope { mm with tmpl := 0 } out) := by
  rw [RObj_n3]
  exact ⟨0, out, rfl, fun _ => h, fun _ => rfl⟩

theorem robj_defn_n3 (mm : Meta) (mws ws : List Word) (t : Int) (h : ws ≠ []) :
    RObj_n3 (.defn mm mws) (.defn { mm with tmpl := t } ws) := by
  rw [RObj_n3]
  exact ⟨t, ws, rfl, h⟩

/-- the candidate the fetch builds from one matching source -/
theorem candOf_good_n3 (e : Envs) (F : FetchFn) (n : Nat) (hF : GoodF_n3 e F n) (mo : Obj)
    (hmo : MSObj mo) (hmw : wordsObjB_ns mo = true) (hdep : depthT mo ≤ n) (ms : Obj)
    (hms1 : ms.isDefn = true → SrcOK ms ∧ ms.srcWords ≠ []) (hms2 : SrcGood_n3 ms.children) :
    ErrIn (FetchErr_n3 e) (candOf F e n false mo false ms) ∧
      ∀ c u, candOf F e n false mo false ms = .ok (some c, u) →
        RObj_n3 mo c ∧ (c.isDefn = false → c.meta.tmpl = 0) := by
  cases mo with
  | defn mm mws =>
    rw [MSObj] at hmo
    cases ms with
    | defn sm sws =>
      obtain ⟨hok, hne⟩ := hms1 rfl
      have hfv := fetchValue_defnMeta mm mws sm sws hmo.1 hok
      have hc : ∃ u, candOf F e n false (.defn mm mws) false (.defn sm sws) =
          .ok (some (.defn { mm with tmpl := 0 } (Obj.defn sm sws).srcWords), u) := by
        unfold candOf fetchDefn
        rw [hfv]
        exact ⟨_, rfl⟩
      obtain ⟨u0, hc⟩ := hc
      rw [hc]
      refine ⟨ErrIn.ok _, ?_⟩
      intro c u h
      cases h
      exact ⟨robj_defn_n3 mm mws _ 0 hne, fun h => by cases h⟩
    | scope sm sk =>
      have hc : candOf F e n false (.defn mm mws) false (.scope sm sk) = .error incompatibleErr := by
        unfold candOf fetchDefn fetchValue
        rfl
      rw [hc]
      exact ⟨ErrIn.err (.inl rfl), fun c u h => by cases h⟩
  | scope mm kids =>
    have hkids := MSMaster.of_scope hmo
    rw [MSObj] at hmo
    rw [depthT] at hdep
    cases ms with
    | defn sm sws =>
      have hc : candOf F e n false (.scope mm kids) false (.defn sm sws) = .error incompatibleErr := by
        unfold candOf
        rfl
      rw [hc]
      exact ⟨ErrIn.err (.inl rfl), fun c u h => by cases h⟩
    | scope sm sk =>
      obtain ⟨f1, f2⟩ := hF mm kids sk hkids hmw (by omega) hmo.2.2.1 hms2
      cases hFr : F false mm kids sk with
      | error E =>
        rw [candOf_scope_err_ms F e n mm kids sm sk E hFr]
        exact ⟨ErrIn.err (f1 E hFr), fun c u h => by cases h⟩
      | ok p =>
        obtain ⟨ro, u⟩ := p
        rw [candOf_scope_ok_ms F e n mm kids sm sk ro u hFr]
        refine ⟨ErrIn.ok _, ?_⟩
        intro c u' h
        cases h
        obtain ⟨out, rfl, hrk⟩ := f2 ro u hFr
        exact ⟨robj_scope_live_n3 mm kids out hrk, fun _ => rfl⟩

theorem cstepG_good_n3 (e : Envs) (F : FetchFn) (n : Nat) (hF : GoodF_n3 e F n) (mo : Obj)
    (hmo : MSObj mo) (hmw : wordsObjB_ns mo = true) (hdep : depthT mo ≤ n) (k0 : Str) (acc : CAcc)
    (ms : Obj) (hms1 : ms.isDefn = true → SrcOK ms ∧ ms.srcWords ≠ []) (hms2 : SrcGood_n3 ms.children)
    (hacc : ∀ x, some x ∈ acc.1 → RObj_n3 mo x) :
    ErrIn (FetchErr_n3 e) (cstepG F e n false mo k0 acc (false, ms)) ∧
      ∀ r, cstepG F e n false mo k0 acc (false, ms) = .ok r → ∀ x, some x ∈ r.1 → RObj_n3 mo x := by
  obtain ⟨c1, c2⟩ := candOf_good_n3 e F n hF mo hmo hmw hdep ms hms1 hms2
  unfold cstepG
  dsimp only
  cases hcand : candOf F e n false mo false ms with
  | error E => exact ⟨ErrIn.err (c1 E hcand), fun r h => by cases h⟩
  | ok p =>
    obtain ⟨oc, u⟩ := p
    cases oc with
    | none =>
      dsimp only
      simp only [Bool.false_eq_true, if_false]
      refine ⟨ErrIn.ok _, ?_⟩
      intro r h
      cases h
      exact hacc
    | some c =>
      dsimp only
      obtain ⟨hrc, htc⟩ := c2 c u hcand
      have hefs := efs_good_n3 e (n + 64) mo c hmo hrc htc (by omega)
      cases hk : extractFormatStr e (n + 64) mo c with
      | error E => exact ⟨ErrIn.err (.inr (hefs E hk)), fun r h => by cases h⟩
      | ok cs =>
        dsimp only
        split
        · refine ⟨ErrIn.ok _, ?_⟩
          intro r h
          cases h
          exact hacc
        · obtain ⟨b', hb'⟩ := cAccept_ok_tm cs c u acc.1 acc.2.1 acc.2.2
          rw [hb']
          refine ⟨ErrIn.ok _, ?_⟩
          intro r h
          cases h
          exact cAccept_shape _ _ _ _ _ _ _ _ _ (RObj_n3 mo) hrc hacc hb'

/-- one step of the master loop -/
theorem stepG_good_n3 (e : Envs) (F : FetchFn) (n : Nat) (hF : GoodF_n3 e F n) (sm : Meta)
    (mkids srcs : List Obj) (hf : MSMaster mkids) (hw : wordsKidsB_ns mkids = true)
    (hsd : sm.disabled = false) (hs : SrcGood_n3 srcs) (st : List Obj × List Nat) (io : Nat × Obj)
    (hio : io ∈ indexed mkids) (hdep : depthT io.2 ≤ n) :
    ErrIn (FetchErr_n3 e) (stepG F e n false sm mkids srcs st io) ∧
      ∀ r, stepG F e n false sm mkids srcs st io = .ok r →
        ∃ block, r.1 = st.1 ++ block ∧ (∀ o ∈ block, RObj_n3 io.2 o) ∧
          (isMultiple io.2 = false → block.length ≤ 1) := by
  have hmem := mem_indexed_snd_n3 hio
  have hto := hf.obj _ hmem
  have hwo := wordsKids_mem_n3 mkids hw _ hmem
  have hsc : ∀ m kids, Obj.scope m kids ∈ srcs → m.disabled = false → m.name ≠ [] :=
    fun m kids hm hd => hs.tree.named m kids (.here hm hd)
  have hok : ∀ o ∈ srcs, o.meta.disabled = false → o.isDefn = true → SrcOK o :=
    fun o ho hd hdef => hs.tree.ok o (.here ho hd) hdef
  have hmatch := fetchMatching_tree n sm srcs io.2 hsd hto.name_ne hto.dotfree hsc
  obtain ⟨i, mo⟩ := io
  simp only at hmem hto hwo hmatch hdep ⊢
  cases hmult : isMultiple mo with
  | false =>
    cases mo with
    | defn mm mws =>
      have hne := words_defn_ne_n3 hwo
      rw [MSObj] at hto
      rw [stepG_plain_tm F e n sm mkids srcs st i mm mws hto.1 hmult hmatch hok]
      split
      · refine ⟨ErrIn.ok _, ?_⟩
        intro r h
        cases h
        refine ⟨_, rfl, ?_, fun _ => ?_⟩
        · intro o ho
          rw [tmBlock] at ho
          simp only [hmult, Bool.false_eq_true, if_false, List.mem_singleton] at ho
          subst ho
          unfold lastWins
          cases hl : (defsNamed mm.name srcs).getLast? with
          | none => exact robj_defn_n3 mm mws mws mm.tmpl hne
          | some d =>
            have hd := mem_defsNamed.mp (List.mem_of_getLast? hl)
            exact robj_defn_n3 mm mws _ 0 (hs.words d (.here hd.1 hd.2.2.1) hd.2.1)
        · rw [tmBlock]
          simp [hmult]
      · exact ⟨ErrIn.err (.inl rfl), fun r h => by cases h⟩
    | scope mm kids =>
      have hkids := MSMaster.of_scope hto
      rw [MSObj] at hto
      rw [depthT] at hdep
      have hstep : stepG F e n false sm mkids srcs st (i, .scope mm kids) =
          scopeBranch F false mm kids (activeNamed mm.name srcs) st.1 st.2 := by
        unfold stepG
        simp only [hmult, Bool.not_false, if_true]
        rw [hmatch]
        rfl
      rw [hstep]
      unfold scopeBranch
      cases hdn : defsNamed mm.name srcs with
      | cons d rest =>
        obtain ⟨x, hx⟩ := find_isDefn_activeNamed_some mm.name srcs (by rw [hdn]; exact List.cons_ne_nil _ _)
        rw [hx]
        exact ⟨ErrIn.err (.inl rfl), fun r h => by cases h⟩
      | nil =>
        rw [find_isDefn_activeNamed_none _ _ hdn, activeNamed_children_tree]
        dsimp only
        obtain ⟨f1, f2⟩ := hF mm kids (srcStep srcs mm.name) hkids hwo (by omega) hto.2.2.1 (hs.step mm.name)
        cases hFr : F false mm kids (srcStep srcs mm.name) with
        | error E => exact ⟨ErrIn.err (f1 E hFr), fun r h => by cases h⟩
        | ok p =>
          obtain ⟨ro, u2⟩ := p
          dsimp only
          simp only [Bool.false_and, Bool.false_eq_true, if_false]
          refine ⟨ErrIn.ok _, ?_⟩
          intro r h
          cases h
          obtain ⟨out, rfl, hrk⟩ := f2 ro u2 hFr
          refine ⟨[_], rfl, ?_, fun _ => Nat.le_refl _⟩
          intro o ho
          rw [List.mem_singleton] at ho
          subst ho
          exact robj_scope_live_n3 mm kids out hrk
  | true =>
    have hstep : stepG F e n false sm mkids srcs st (i, mo) =
        multiBranch F e n false mkids i mo (activeNamed mo.name srcs) st.1 st.2 := by
      unfold stepG
      simp only [hmult, Bool.not_true, Bool.false_eq_true, if_false]
      rw [hmatch]
    rw [hstep]
    unfold multiBranch
    rw [fromMasterOf_nil mkids hf.distinct i mo hio, List.nil_append]
    -- the master key, and the master's own block where it is a scope
    have hkey : ErrIn (FetchErr_n3 e) (masterKeyG F e n mo) ∧
        ∀ k0, masterKeyG F e n mo = .ok k0 →
          ∀ o ∈ tmplObjsOf false mo ([] : List (Str × Int)) (selfFetchOf F mo) ++
                tmplObjsOf false mo [(k0, 0)] (selfFetchOf F mo), RObj_n3 mo o := by
      cases mo with
      | defn mm mws =>
        have hne := words_defn_ne_n3 hwo
        rw [masterKeyG_defn]
        refine ⟨(efs_good_n3 e (n + 64) _ _ hto (robj_defn_n3 mm mws mws mm.tmpl hne)
          (fun h => by cases h) (by omega)).mono (fun _ h => .inr h), ?_⟩
        intro k0 _ o ho
        rw [tmplObjsOf_defn, tmplObjsOf_defn] at ho
        simp only [Bool.false_eq_true, if_false, List.mem_append, List.mem_singleton] at ho
        rcases ho with rfl | rfl <;> exact robj_defn_n3 mm mws mws _ hne
      | scope mm kids =>
        have hkids := MSMaster.of_scope hto
        have hto' := hto
        rw [MSObj] at hto'
        rw [depthT] at hdep
        rw [masterKeyG_scope]
        obtain ⟨f1, f2⟩ := hF mm kids [] hkids hwo (by omega) hto'.2.2.1 SrcGood_n3.nil
        cases hFr : F false mm kids [] with
        | error E => exact ⟨ErrIn.err (f1 E hFr), fun k0 h => by cases h⟩
        | ok p =>
          obtain ⟨ro, u⟩ := p
          dsimp only
          obtain ⟨out, rfl, hrk⟩ := f2 ro u hFr
          refine ⟨(efs_good_n3 e (n + 64) _ _ hto (robj_scope_live_n3 mm kids out hrk)
            (fun _ => rfl) (by rw [depthT]; omega)).mono (fun _ h => .inr h), ?_⟩
          intro k0 _ o ho
          have hmm : (mm.attrs.get "multiple").truthy = true := hmult
          unfold tmplObjsOf selfFetchOf at ho
          dsimp only at ho
          rw [hFr] at ho
          simp only [Bool.false_eq_true, if_false, List.isEmpty_nil, List.isEmpty_cons, if_true] at ho
          split at ho
          · simp only [List.mem_append, List.mem_singleton, or_self] at ho
            subst ho
            exact robj_scope_live_n3 mm kids out hrk
          · simp only [List.mem_append, List.mem_singleton] at ho
            rcases ho with rfl | rfl
            · rw [RObj_n3]
              exact ⟨1, kids, rfl, (fun h => absurd h (by decide)), (fun h => by rw [hmm] at h; cases h)⟩
            · rw [RObj_n3]
              exact ⟨-1, kids, rfl, (fun h => absurd h (by decide)), (fun h => by rw [hmm] at h; cases h)⟩
    obtain ⟨k1, k2⟩ := hkey
    cases hmk : masterKeyG F e n mo with
    | error E => exact ⟨ErrIn.err (k1 E hmk), fun r h => by cases h⟩
    | ok k0 =>
      dsimp only
      obtain ⟨g1, g2⟩ := foldlM_inv_errIn_n3 (P := FetchErr_n3 e)
        (fun (acc : CAcc) => ∀ x, some x ∈ acc.1 → RObj_n3 mo x)
        (cstepG F e n false mo k0) ((activeNamed mo.name srcs).map (fun (o : Obj) => (false, o)))
        (by
          intro b a ha hb
          obtain ⟨ms, hms, rfl⟩ := List.mem_map.mp ha
          have hms' := mem_activeNamed.mp hms
          exact cstepG_good_n3 e F n hF mo hto hwo hdep k0 b ms
            (fun hdef => ⟨hok ms hms'.1 hms'.2.1 hdef, hs.words ms (.here hms'.1 hms'.2.1) hdef⟩)
            (hs.child hms'.1 hms'.2.1) hb)
        (([] : List (Option Obj)), ([] : List (Str × Int)), st.2) (by intro x hx; cases hx)
      cases hfold : ((activeNamed mo.name srcs).map (fun (o : Obj) => (false, o))).foldlM
          (cstepG F e n false mo k0) (([] : List (Option Obj)), ([] : List (Str × Int)), st.2) with
      | error E => exact ⟨ErrIn.err (g1 E hfold), fun r h => by cases h⟩
      | ok p =>
        obtain ⟨robjs, processed, used'⟩ := p
        dsimp only
        refine ⟨ErrIn.ok _, ?_⟩
        intro r h
        cases h
        refine ⟨tmplObjsOf false mo processed (selfFetchOf F mo) ++ robjs.filterMap (fun x => x),
          by rw [List.append_assoc], ?_, fun h => by cases h⟩
        intro o ho
        rw [List.mem_append] at ho
        rcases ho with ho | ho
        · apply k2 k0 hmk o
          rw [List.mem_append]
          cases processed with
          | nil => exact .inl ho
          | cons p ps =>
            refine .inr ?_
            unfold tmplObjsOf at ho ⊢
            simpa using ho
        · rw [List.mem_filterMap] at ho
          obtain ⟨x, hx, hxo⟩ := ho
          subst hxo
          exact g2 _ hfold o hx

/-- a loop that appends one block per master child builds the block structure -/
theorem foldl_blocks_n3 {P : Err → Prop}
    (f : (List Obj × List Nat) → (Nat × Obj) → R (List Obj × List Nat)) :
    ∀ (l : List (Nat × Obj)),
      (∀ st a, a ∈ l → ErrIn P (f st a) ∧ ∀ r, f st a = .ok r →
        ∃ block, r.1 = st.1 ++ block ∧ (∀ o ∈ block, RObj_n3 a.2 o) ∧
          (isMultiple a.2 = false → block.length ≤ 1)) →
      ∀ st, ErrIn P (l.foldlM f st) ∧ ∀ r, l.foldlM f st = .ok r →
        ∃ out, r.1 = st.1 ++ out ∧ RKids_n3 (l.map (fun p => p.2)) out := by
  intro l
  induction l with
  | nil =>
    intro _ st
    refine ⟨ErrIn.ok _, ?_⟩
    intro r h
    cases h
    exact ⟨[], by simp, by rw [List.map_nil, RKids_n3]⟩
  | cons a as ih =>
    intro hf st
    rw [List.foldlM_cons]
    obtain ⟨h1, h2⟩ := hf st a List.mem_cons_self
    cases hc : f st a with
    | error E => exact ⟨ErrIn.err (h1 E hc), fun r h => by cases h⟩
    | ok r1 =>
      obtain ⟨block, hb1, hb2, hb3⟩ := h2 r1 hc
      obtain ⟨i1, i2⟩ := ih (fun st a' ha' => hf st a' (List.mem_cons_of_mem _ ha')) r1
      refine ⟨i1, ?_⟩
      intro r hr
      obtain ⟨out, ho1, ho2⟩ := i2 r hr
      refine ⟨block ++ out, by rw [ho1, hb1, List.append_assoc], ?_⟩
      rw [List.map_cons, RKids_n3]
      exact ⟨block, out, rfl, hb2, hb3, ho2⟩

/-- **the fetch of an `MSMaster` against good sources, fuel beyond the depth**: a result with the
    block structure, or "incompatible", or a converter error -/
theorem fetch_ms_good_n3 (e : Envs) : ∀ (n : Nat), GoodF_n3 e (fetchScope e n) n := by
  intro n
  induction n with
  | zero => intro mm kids srcs _ _ hd; exact absurd hd (Nat.not_lt_zero _)
  | succ n ih =>
    intro mm kids srcs hf hw hd hsd hs
    rw [fetchScope_succ, masterActive_ms kids hf]
    dsimp only
    obtain ⟨g1, g2⟩ := foldl_blocks_n3 (P := FetchErr_n3 e)
      (stepG (fetchScope e n) e n false mm kids srcs) (indexed kids)
      (fun st a ha => stepG_good_n3 e _ n ih mm kids srcs hf hw hsd hs st a ha
        (by have := depthT_le_depthL kids a.2 (mem_indexed_snd_n3 ha); omega))
      (([] : List Obj), ([] : List Nat))
    unfold fetchFinish
    cases hfold : (indexed kids).foldlM (stepG (fetchScope e n) e n false mm kids srcs)
        (([] : List Obj), ([] : List Nat)) with
    | error E => exact ⟨ErrIn.err (g1 E hfold), fun ro u h => by cases h⟩
    | ok p =>
      obtain ⟨out, used⟩ := p
      dsimp only
      refine ⟨ErrIn.ok _, ?_⟩
      intro ro u h
      cases h
      obtain ⟨out', ho1, ho2⟩ := g2 _ hfold
      rw [indexed_map_snd] at ho2
      simp only [List.nil_append] at ho1
      subst ho1
      exact ⟨_, rfl, ho2⟩

/-- **extraction of the root of a fetch result** (the root scope has no name, so it is not an `MSObj`):
    only converter errors, and the record is typed by the master -/
theorem extract_root_n3 (e : Envs) (xf : Nat) (m : Meta) (kids out : List Obj) (hf : MSMaster kids)
    (hr : RKids_n3 kids out) (hd : depthL kids < xf) :
    ErrIn (ConvErr_n3 e) (extractObj e (xf + 1) (.scope m out)) ∧
      ∀ v, extractObj e (xf + 1) (.scope m out) = .ok v → ∃ fs, v = .record fs ∧ VKids_n3 kids fs := by
  rw [extractObj_scope_xt]
  obtain ⟨h1, h2⟩ := extractKids_n3 e (extractObj e xf) kids out hf.kids hf.distinct hr
    (fun k hk o ho hto => extract_res_n3 e xf k o (hf.obj k hk) ho (fun _ => hto)
      (by have := depthT_le_depthL kids k hk; omega))
    [] (fun k _ => rfl)
  refine ⟨h1.map _, ?_⟩
  intro v hv
  obtain ⟨fs', hfs', hv'⟩ := except_map_ok hv
  subst hv'
  exact ⟨fs', rfl, (h2 fs' hfs').1⟩

/-! ## 5. the annotation pass `preResolve` and fetch with `$variables` -/

/-- the sites the annotation pass can record: the five RuntimeError sites of `resolve_variables`, or
    `"unsupported"` (a referenced definition without id, or the loop bound — neither arises on parser
    outputs) -/
def VarSiteOK_n3 (site : String) : Prop := site ∈ varsSites ∨ site = "unsupported"

theorem preResolveList_err_sites_n3 (env : Env) (diff : Bool) (total : Nat) :
    ∀ (fuel : Nat) (outer : Chain) (objs : List Obj), (∀ m ∈ metasOfs objs, m.varRes = none) →
    ∀ m ∈ metasOfs (preResolveList env diff total fuel outer objs), ∀ site line,
      m.varRes = some (.err site line) → VarSiteOK_n3 site := by
  intro fuel
  induction fuel with
  | zero =>
    intro outer objs hfresh m hm site line h
    rw [preResolveList] at hm
    rw [hfresh m hm] at h
    cases h
  | succ fuel ih =>
    intro outer objs hfresh
    rw [preResolveList]
    generalize objs :: outer = C
    induction objs with
    | nil => intro m hm; rw [List.map_nil, metasOfs] at hm; cases hm
    | cons o os iho =>
      have hfo : ∀ m ∈ metasOf o, m.varRes = none := fun m hm =>
        hfresh m (by rw [metasOfs]; exact List.mem_append_left _ hm)
      have hfos : ∀ m ∈ metasOfs os, m.varRes = none := fun m hm =>
        hfresh m (by rw [metasOfs]; exact List.mem_append_right _ hm)
      intro m hm site line h
      rw [List.map_cons, metasOfs, List.mem_append] at hm
      rcases hm with hm | hm
      · cases o with
        | defn mo ws =>
          have hmo : mo.varRes = none := hfo mo (by rw [metasOf]; exact List.mem_singleton.mpr rfl)
          dsimp only at hm
          split at hm
          · rw [metasOf, List.mem_singleton] at hm
            subst hm
            rw [hmo] at h; cases h
          · cases hid : mo.id with
            | none =>
              simp only [hid] at hm
              rw [metasOf, List.mem_singleton] at hm
              subst hm
              rw [hmo] at h; cases h
            | some id =>
              simp only [hid] at hm
              rw [metasOf, List.mem_singleton] at hm
              subst hm
              simp only [Option.some.injEq] at h
              cases hres : resolveWords env (total + 2) C id ws diff with
              | ok rws => rw [hres] at h; cases h
              | error err =>
                rw [hres] at h
                rcases resolveWords_errors_n2 env _ _ _ _ _ _ hres with ⟨s, hs, l, rfl⟩ | rfl | rfl
                · simp only [VarRes.err.injEq] at h
                  rw [← h.1]
                  exact .inl hs
                · simp only [VarRes.err.injEq] at h
                  exact .inr h.1.symm
                · simp only [VarRes.err.injEq] at h
                  exact .inr h.1.symm
        | scope mo kids =>
          dsimp only at hm
          rw [metasOf, List.mem_cons] at hm
          rcases hm with rfl | hm
          · rw [hfo m (by rw [metasOf]; exact List.mem_cons_self)] at h; cases h
          · exact ih C kids (fun m' hm' => hfo m' (by rw [metasOf]; exact List.mem_cons_of_mem _ hm'))
              m hm site line h
      · exact iho hfos m hm site line h

/-- **every error the annotation pass records** (any document without earlier annotations, any
    environment, both modes) is one of the five variable sites or `"unsupported"` -/
theorem preResolve_err_sites_n3 (env : Env) (diff : Bool) (root : List Obj)
    (hfresh : ∀ m ∈ metasOfs root, m.varRes = none) :
    ∀ m ∈ metasOfs (preResolve env diff root), ∀ site line,
      m.varRes = some (.err site line) → VarSiteOK_n3 site :=
  preResolveList_err_sites_n3 env diff _ _ [] root hfresh

/-- on documents numbered like parser outputs the denotation fails only at the five variable sites -/
theorem denote_err_sites_n3 (env : Env) (root : List Obj) (hd : DocIds root) (pos : List Nat) (m : Meta)
    (ws : List Word) (ho : objAt root pos = some (.defn m ws)) (diff : Bool) (e : Err)
    (h : denote env root pos diff = .error e) : ∃ s ∈ varsSites, ∃ l, e = .runtime s l := by
  obtain ⟨site, line, rfl⟩ := denote_err_runtime env root _ pos rfl m ws ho diff e h
  have h' : resolveAt env root pos diff = .error (.runtime site line) := by
    rw [resolveAt_eq_denote_vs env root hd pos diff]; exact h
  rcases resolveAt_errors_n2 env root pos diff _ h' with (⟨s, hs, l, hsl⟩ | h1 | h1) | h1 | h1
  · exact ⟨s, hs, l, hsl⟩
  all_goals cases h1

mutual
/-- an error of the closed form `treeFetch`: the clash of kinds, or what `fetch_value` raises for an
    enabled source definition (below enabled scopes) -/
theorem firstErrObj_some_n3 : ∀ (mo : Obj) (srcs : List Obj) (e : Err), firstErrObj mo srcs = some e →
    e = incompatibleErr ∨ ∃ x, ActiveIn x srcs ∧ x.isDefn = true ∧ srcErrOf x = some e
  | .defn mm mws, srcs, e, h => by
    rw [firstErrObj] at h
    obtain ⟨x, hx, hxe⟩ := List.exists_of_findSome?_eq_some h
    have hx' := mem_activeNamed.mp hx
    cases x with
    | scope m k => simp only [srcErrOf, Option.some.injEq] at hxe; exact .inl hxe.symm
    | defn m ws => exact .inr ⟨_, .here hx'.1 hx'.2.1, rfl, hxe⟩
  | .scope mm kids, srcs, e, h => by
    rw [firstErrObj] at h
    split at h
    · rcases firstErr_some_n3 kids (srcStep srcs mm.name) e h with h1 | ⟨x, hx, hd, hxe⟩
      · exact .inl h1
      · exact .inr ⟨x, activeIn_srcStep hx, hd, hxe⟩
    · cases h; exact .inl rfl
theorem firstErr_some_n3 : ∀ (mkids srcs : List Obj) (e : Err), firstErr mkids srcs = some e →
    e = incompatibleErr ∨ ∃ x, ActiveIn x srcs ∧ x.isDefn = true ∧ srcErrOf x = some e
  | [], srcs, e, h => by rw [firstErr] at h; cases h
  | mo :: rest, srcs, e, h => by
    rw [firstErr] at h
    cases hfo : firstErrObj mo srcs with
    | some e' =>
      rw [hfo] at h
      cases h
      exact firstErrObj_some_n3 mo srcs e hfo
    | none =>
      rw [hfo] at h
      exact firstErr_some_n3 rest srcs e h
end

/-- **fetch of sources WITH `$variables`** (annotated by `preResolve`, documents numbered like parser
    outputs and without earlier annotations) against a nested master without `.multiple`: the only
    failures are "incompatible" and the RuntimeError of `resolve_variables` at one of the five sites -/
theorem fetch_vars_errors_n3 (e : Envs) (env : Env) (master : List Obj) (docs : List (List Obj))
    (hf : TreeMaster master) (hd : depthL master ≤ 1000) (hdocs : ∀ d ∈ docs, DocIds d)
    (hfresh : ∀ d ∈ docs, Fresh d) (hnamed : ScopesNamed docs.flatten) (err : Err)
    (h : fetchRoot e false master (docs.map (preResolve env false)) = .error err) :
    err = incompatibleErr ∨ ∃ s ∈ varsSites, ∃ l, err = .runtime s l := by
  rw [fetchRoot_preResolved e env master docs hf hd hdocs hnamed] at h
  unfold treeFetch at h
  cases hfe : firstErr master (docs.map (denoteDoc env false)).flatten with
  | none => rw [hfe] at h; cases h
  | some e' =>
    rw [hfe] at h
    cases h
    rcases firstErr_some_n3 _ _ _ hfe with h1 | ⟨x, hx, hxd, hxe⟩
    · exact .inl h1
    · refine .inr ?_
      obtain ⟨l, hl, hxl⟩ := activeIn_flatten_fv hx
      obtain ⟨d, hdm, rfl⟩ := List.mem_map.mp hl
      obtain ⟨pos, x0, hx0, hobj, rfl⟩ := activeIn_denoteDoc env false d hxl
      rw [annObj_isDefn] at hxd
      cases x0 with
      | scope m k => cases hxd
      | defn m ws =>
        have hid : m.id ≠ none := by
          have := numbered_id_some_vs pos d _ (hdocs d hdm).1 hobj
          intro hn
          simp only [Obj.meta] at this
          rw [hn] at this
          cases this
        have hspec := (annObj_defn_spec env false d pos m ws hobj hid (hfresh d hdm _ hx0)).1
        rw [hxe] at hspec
        cases hden : denote env d pos false with
        | ok r => rw [hden] at hspec; cases hspec
        | error e2 =>
          rw [hden] at hspec
          cases hspec
          exact denote_err_sites_n3 env d (hdocs d hdm) pos m ws hobj false err hden

/-! ## 6. the expert tie-break with `Auto` levels (`Phil.CmdLineAuto`) -/

/-- **the repaired selection step, spelled out**: the TypeError exactly when the name matches, the best
    class has not exactly one member and a best match carries `Auto`; `choosePath` otherwise -/
theorem choosePathA_eq_n3 (home : Option Str) (targets : List Str) (experts : List Int) (autos : List Bool)
    (src : Str) :
    choosePathA home targets experts autos src =
      if maxNat (targets.map (getPathScore home src)) ≠ 0 ∧
          (indicesOf (· == maxNat (targets.map (getPathScore home src)))
            (targets.map (getPathScore home src))).length ≠ 1 ∧
          autoInBest (targets.map (getPathScore home src)) autos
            (maxNat (targets.map (getPathScore home src))) = true
      then .error (.stray "TypeError" "expert_tiebreak")
      else .ok (choosePath home targets experts src) := by
  unfold choosePathA
  dsimp only
  by_cases hmx : maxNat (targets.map (getPathScore home src)) = 0
  · have h1 : choosePath home targets experts src = .unknown := by
      unfold choosePath; simp [hmx]
    simp [hmx, h1]
  · have hb : (maxNat (targets.map (getPathScore home src)) == 0) = false := by simpa using hmx
    rw [hb]
    simp only [Bool.false_eq_true, if_false]
    cases hbest : indicesOf (· == maxNat (targets.map (getPathScore home src)))
        (targets.map (getPathScore home src)) with
    | nil =>
      cases ha : autoInBest (targets.map (getPathScore home src)) autos
          (maxNat (targets.map (getPathScore home src))) <;> simp [hmx]
    | cons i rest =>
      cases rest with
      | nil =>
        have h1 : choosePath home targets experts src = .chosen i false := by
          unfold choosePath; simp [hb, hbest]
        simp [h1]
      | cons j more =>
        cases ha : autoInBest (targets.map (getPathScore home src)) autos
            (maxNat (targets.map (getPathScore home src))) <;> simp [hmx]

theorem choosePathA_error_n3 {home : Option Str} {targets : List Str} {experts : List Int}
    {autos : List Bool} {src : Str} {e : Err} (h : choosePathA home targets experts autos src = .error e) :
    e = .stray "TypeError" "expert_tiebreak" := by
  rw [choosePathA_eq_n3] at h
  split at h
  · cases h; rfl
  · cases h

theorem choosePathA_ok_n3 {home : Option Str} {targets : List Str} {experts : List Int}
    {autos : List Bool} {src : Str} {c : Choice} (h : choosePathA home targets experts autos src = .ok c) :
    c = choosePath home targets experts src := by
  rw [choosePathA_eq_n3] at h
  split at h
  · cases h
  · cases h; rfl

theorem autoInBest_false_n3 (scores : List Nat) (autos : List Bool) (mx : Nat)
    (h : ∀ a ∈ autos, a = false) : autoInBest scores autos mx = false := by
  unfold autoInBest
  rw [List.any_eq_false]
  intro p hp
  have := h p.2 (List.of_mem_zip hp).2
  simp [this]

/-- no `Auto` level among the targets: the repaired step is `choosePath` -/
theorem choosePathA_no_auto_n3 (home : Option Str) (targets : List Str) (experts : List Int)
    (autos : List Bool) (h : ∀ a ∈ autos, a = false) (src : Str) :
    choosePathA home targets experts autos src = .ok (choosePath home targets experts src) := by
  rw [choosePathA_eq_n3, autoInBest_false_n3 _ autos _ h]
  simp

/-- … and the repaired `process_arg` is `processArg`: every theorem about `processArg` applies -/
theorem processArgA_no_auto_n3 (home : Option Str) (targets : List Str) (experts : List Int)
    (autos : List Bool) (h : ∀ a ∈ autos, a = false) (arg : Str) :
    processArgA home targets experts autos arg = processArg home targets experts arg := by
  unfold processArgA processArg
  simp only [choosePathA_no_auto_n3 home targets experts autos h]
  rfl

/-- an outcome that is fine, or the TypeError of the tie-break -/
def ArgOutcome.fineA_n3 : ArgOutcome → Prop
  | .ok _ => True
  | .sorry_ _ _ => True
  | .runtime e => e.benign = true ∨ e = .stray "TypeError" "expert_tiebreak"

def argAccFineA_n3 : Option (Except ArgOutcome Str) → Prop
  | some (.ok _) => True
  | some (.error out) => out.fineA_n3
  | none => False

theorem processArgA_fine_n3 (home : Option Str) (targets : List Str) (experts : List Int)
    (autos : List Bool) (arg : Str) : (processArgA home targets experts autos arg).fineA_n3 := by
  unfold processArgA
  split
  · exact .inl (Eq.refl true)
  · trivial
  · rename_i objs hobjs
    dsimp only
    have key : ∀ (defs : List (Str × Meta × List Word)) (acc : Option (Except ArgOutcome Str)),
        argAccFineA_n3 acc →
        argAccFineA_n3 (defs.foldl (fun acc (x : Str × Meta × List Word) =>
          match acc with
          | some (.error e) => some (.error e)
          | some (.ok text) =>
            (match choosePathA home targets experts autos x.1 with
             | .error e => some (.error (.runtime e))
             | .ok c =>
               (match c with
                | .unknown => some (.error (.sorry_ "unknown" []))
                | .ambiguous best => some (.error (.sorry_ "ambiguous" (best.filterMap (targets[·]?))))
                | .chosen i _ =>
                  (match targets[i]? with
                   | none => some (.error (.runtime (.stray "IndexError" "target_paths")))
                   | some tp =>
                     (match showDefn {} { x.2.1 with name := tp, tmpl := 0 } x.2.2 [] [] with
                      | .error e => some (.error (.runtime e))
                      | .ok lines => some (.ok (text ++ unlines lines))))))
          | none => none) acc) := by
      intro defs
      induction defs with
      | nil => intro acc h; exact h
      | cons d ds ih =>
        intro acc h
        rw [List.foldl_cons]
        apply ih
        split
        · exact h
        · split
          · rename_i e he
            exact .inr (choosePathA_error_n3 he)
          · rename_i c hc
            have hc' := choosePathA_ok_n3 hc
            split
            · trivial
            · trivial
            · rename_i i w
              obtain ⟨t, ht, _⟩ := choose_sound hc'.symm
              rw [ht]
              dsimp only
              obtain ⟨l, hl⟩ := showDefn_default_ok_ns { d.2.1 with name := t, tmpl := 0 } d.2.2 [] []
              rw [hl]
              trivial
        · exact h
    have := key (allDefinitions objs) (some (.ok [])) trivial
    split
    · rename_i out hout
      exact (congrArg argAccFineA_n3 hout).mp this
    · split
      · trivial
      · split
        · trivial
        · rename_i e he
          exact .inl (parseObjs_benign _ e he)
    · rename_i hnone
      exact ((congrArg argAccFineA_n3 hnone).mp this).elim

end Phil
