/-
  Phil.Proofs.IndexLemmas — lemmas about the parameter-index state machine (Phil/Index.lean), for C20.

  Everything is stated for an arbitrary `Kernel W P E`, an arbitrary state and an arbitrary history
  (induction over the operation list).  Sections:
    1. cache coherence (`Coherent`, the round-trip laws, `step_coherent`, `run_coherent`,
       `get_python_is_fresh`, the pre-fix machine `stepBuggy`);
    2. the stack discipline (`Balanced`, `run_balanced_states`, `push_pop_restores`);
    3. refused edits; 4. edit idempotence; 5. `getPython` facts.
-/
import Phil.Index
set_option linter.unusedVariables false
namespace Phil.Index

variable {W P E : Type}

/-! ### 0. generic facts about `run` -/

@[simp] theorem run_nil (k : Kernel W P E) (s : State W P) : run k s [] = s := rfl

@[simp] theorem run_cons (k : Kernel W P E) (s : State W P) (op : Op P E) (ops : List (Op P E)) :
    run k s (op :: ops) = run k (step k s op).1 ops := rfl

theorem run_append (k : Kernel W P E) (s : State W P) (a b : List (Op P E)) :
    run k s (a ++ b) = run k (run k s a) b := by
  induction a generalizing s with
  | nil => rfl
  | cons op a ih => simp [ih]

/-- the outputs of a history: what each operation returns (only `.getPython` returns anything) -/
def outputs (k : Kernel W P E) (s : State W P) : List (Op P E) → List (Option P)
  | [] => []
  | op :: ops => (step k s op).2 :: outputs k (step k s op).1 ops

/-! ### 1. cache coherence -/

/-- The cache invariant: either the index knows its cache is out of date (`dirty`), or nothing is cached,
    or the cached object is exactly a fresh extraction of the current working parameters. -/
def Coherent (k : Kernel W P E) (s : State W P) : Prop :=
  s.dirty = true ∨ s.params = none ∨ (∃ v, s.params = some v ∧ k.extract s.working = some v)

/-- the C09 round-trip law for one object: formatting it and extracting again gives it back -/
def RoundTrip (k : Kernel W P E) (p : P) : Prop := k.extract (k.format p) = some p

/-- round-trip law for every object the *program* passes to `update_from_python` in a history -/
def RoundTripOps (k : Kernel W P E) (ops : List (Op P E)) : Prop :=
  ∀ p, Op.updateFromPython (some p) ∈ ops → RoundTrip k p

/-- round-trip law for every object the machine itself can have cached: the values that are the
    extraction of *some* working set (`update_from_python(None)` re-formats the cached object) -/
def RoundTripExtracted (k : Kernel W P E) : Prop :=
  ∀ w v, k.extract w = some v → RoundTrip k v

/-- round-trip law for all objects (the strongest, simplest hypothesis) -/
def RoundTripAll (k : Kernel W P E) : Prop := ∀ p, RoundTrip k p

theorem RoundTripAll.ops {k : Kernel W P E} (h : RoundTripAll k) (ops : List (Op P E)) :
    RoundTripOps k ops := fun p _ => h p

theorem RoundTripAll.extracted {k : Kernel W P E} (h : RoundTripAll k) : RoundTripExtracted k :=
  fun _ v _ => h v

theorem RoundTripOps.tail {k : Kernel W P E} {op : Op P E} {ops : List (Op P E)}
    (h : RoundTripOps k (op :: ops)) : RoundTripOps k ops :=
  fun p hp => h p (List.mem_cons_of_mem _ hp)

theorem RoundTripOps.head {k : Kernel W P E} {op : Op P E} {ops : List (Op P E)}
    (h : RoundTripOps k (op :: ops)) : ∀ p, op = .updateFromPython (some p) → RoundTrip k p :=
  fun p hp => h p (by rw [hp]; exact List.mem_cons_self)

theorem init_coherent (k : Kernel W P E) (w : W) : Coherent k (init k w) := by
  unfold Coherent init
  cases h : k.extract w with
  | none => exact Or.inr (Or.inl rfl)
  | some v => exact Or.inr (Or.inr ⟨v, rfl, rfl⟩)

/-- One step preserves the invariant.  Two hypotheses, each used by exactly one operation:
    `hp` — the object the program passes (only for `op = updateFromPython (some p)`);
    `hx` — the law on extracted values (only for `op = updateFromPython none`, which re-formats the
    cached object; in a clean coherent state the cached object *is* an extracted value). -/
theorem step_coherent {k : Kernel W P E} {s : State W P} {op : Op P E}
    (hc : Coherent k s)
    (hp : ∀ p, op = .updateFromPython (some p) → RoundTrip k p)
    (hx : RoundTripExtracted k) :
    Coherent k (step k s op).1 := by
  cases op with
  | update e =>
    simp only [step]
    split
    · exact hc
    · exact Or.inl rfl
  | updateFromPython p =>
    cases p with
    | some x =>
      simp only [step]
      cases hd : s.dirty with
      | true => exact Or.inl rfl
      | false => exact Or.inr (Or.inr ⟨x, rfl, hp x rfl⟩)
    | none =>
      simp only [step]
      cases hpar : s.params with
      | none => simpa using hc
      | some x =>
        cases hd : s.dirty with
        | true => exact Or.inl rfl
        | false =>
          refine Or.inr (Or.inr ⟨x, rfl, ?_⟩)
          rcases hc with h | h | ⟨v, hv, hev⟩
          · rw [hd] at h; cases h
          · rw [hpar] at h; cases h
          · rw [hpar] at hv; cases hv
            exact hx _ _ hev
  | push => exact hc
  | pop =>
    simp only [step]
    split
    · exact hc
    · exact Or.inl rfl
  | setState i =>
    simp only [step]
    split
    · exact hc
    · exact Or.inl rfl
  | getPython =>
    simp only [step]
    split
    · split
      · next v hv => exact Or.inr (Or.inr ⟨v, rfl, hv⟩)
      · exact hc
    · exact hc

/-- the same with the single strong law -/
theorem step_coherent_all {k : Kernel W P E} {s : State W P} {op : Op P E}
    (hc : Coherent k s) (h : RoundTripAll k) : Coherent k (step k s op).1 :=
  step_coherent hc (fun p _ => h p) h.extracted

theorem run_coherent {k : Kernel W P E} {s : State W P} {ops : List (Op P E)}
    (hc : Coherent k s) (hp : RoundTripOps k ops) (hx : RoundTripExtracted k) :
    Coherent k (run k s ops) := by
  induction ops generalizing s with
  | nil => exact hc
  | cons op ops ih => exact ih (step_coherent hc hp.head hx) hp.tail

theorem run_coherent_all {k : Kernel W P E} {s : State W P} {ops : List (Op P E)}
    (hc : Coherent k s) (h : RoundTripAll k) : Coherent k (run k s ops) :=
  run_coherent hc (h.ops ops) h.extracted

/-- histories without `update_from_python` need no law at all -/
def NoFromPython : List (Op P E) → Prop
  | [] => True
  | .updateFromPython _ :: _ => False
  | _ :: ops => NoFromPython ops

theorem run_coherent_noFromPython {k : Kernel W P E} {s : State W P} {ops : List (Op P E)}
    (hc : Coherent k s) (hn : NoFromPython ops) : Coherent k (run k s ops) := by
  induction ops generalizing s with
  | nil => exact hc
  | cons op ops ih =>
    cases op with
    | updateFromPython p => exact absurd hn (by simp [NoFromPython])
    | update e =>
      refine ih ?_ (by simpa [NoFromPython] using hn)
      simp only [step]; split
      · exact hc
      · exact Or.inl rfl
    | push => exact ih hc (by simpa [NoFromPython] using hn)
    | pop =>
      refine ih ?_ (by simpa [NoFromPython] using hn)
      simp only [step]; split
      · exact hc
      · exact Or.inl rfl
    | setState i =>
      refine ih ?_ (by simpa [NoFromPython] using hn)
      simp only [step]; split
      · exact hc
      · exact Or.inl rfl
    | getPython =>
      refine ih ?_ (by simpa [NoFromPython] using hn)
      simp only [step]; split
      · split
        · next v hv => exact Or.inr (Or.inr ⟨v, rfl, hv⟩)
        · exact hc
      · exact hc

/-! #### `getPython` -/

theorem getPython_working (k : Kernel W P E) (s : State W P) :
    (step k s .getPython).1.working = s.working := by
  simp only [step]; split
  · split <;> rfl
  · rfl

theorem getPython_states (k : Kernel W P E) (s : State W P) :
    (step k s .getPython).1.states = s.states := by
  simp only [step]; split
  · split <;> rfl
  · rfl

/-- In a coherent state the object `get_python_object` hands out is a fresh extraction of the working
    parameters (of the state before = of the state after: `getPython` does not touch `working`). -/
theorem get_python_is_fresh' {k : Kernel W P E} {s : State W P} {v : P}
    (hc : Coherent k s) (h : (step k s .getPython).2 = some v) :
    k.extract s.working = some v := by
  simp only [step] at h
  split at h
  · split at h
    · next v' hv' => simp at h; rw [← h]; exact hv'
    · cases h
  · next hnd =>
    simp only [Bool.or_eq_true, Option.isNone_iff_eq_none, not_or] at hnd
    rcases hc with hd | hn | ⟨v', hv', hev⟩
    · exact absurd hd hnd.1
    · exact absurd hn hnd.2
    · simp only at h
      rw [hv'] at h; cases h; exact hev

theorem get_python_is_fresh {k : Kernel W P E} {s : State W P} {v : P}
    (hc : Coherent k s) (h : (step k s .getPython).2 = some v) :
    k.extract (step k s .getPython).1.working = some v := by
  rw [getPython_working]; exact get_python_is_fresh' hc h

/-- the converse direction: in a coherent state, whenever a fresh extraction succeeds, `getPython`
    hands out exactly that value (it never hands out `none` or something else) -/
theorem get_python_complete {k : Kernel W P E} {s : State W P} {v : P}
    (hc : Coherent k s) (h : k.extract s.working = some v) :
    (step k s .getPython).2 = some v := by
  simp only [step]
  split
  · rw [h]
  · next hnd =>
    simp only [Bool.or_eq_true, Option.isNone_iff_eq_none, not_or] at hnd
    rcases hc with hd | hn | ⟨v', hv', hev⟩
    · exact absurd hd hnd.1
    · exact absurd hn hnd.2
    · rw [h] at hev; cases hev; exact hv'

/-- every reachable state: the object handed out after any history equals a fresh extraction of the
    current working parameters -/
theorem reachable_get_python_is_fresh {k : Kernel W P E} {w : W} {ops : List (Op P E)} {v : P}
    (hp : RoundTripOps k ops) (hx : RoundTripExtracted k)
    (h : (step k (run k (init k w) ops) .getPython).2 = some v) :
    k.extract (run k (init k w) ops).working = some v :=
  get_python_is_fresh' (run_coherent (init_coherent k w) hp hx) h

theorem reachable_get_python_is_fresh_all {k : Kernel W P E} {w : W} {ops : List (Op P E)} {v : P}
    (hl : RoundTripAll k)
    (h : (step k (run k (init k w) ops) .getPython).2 = some v) :
    k.extract (run k (init k w) ops).working = some v :=
  reachable_get_python_is_fresh (hl.ops ops) hl.extracted h

/-- the same in the middle of a history: every `getPython` occurring anywhere in a history hands out
    the fresh extraction of the working set current at that point -/
theorem reachable_get_python_is_fresh_mid {k : Kernel W P E} {w : W} {pre post : List (Op P E)} {v : P}
    (hp : RoundTripOps k (pre ++ .getPython :: post)) (hx : RoundTripExtracted k)
    (h : (step k (run k (init k w) pre) .getPython).2 = some v) :
    k.extract (run k (init k w) pre).working = some v :=
  reachable_get_python_is_fresh (fun p hm => hp p (List.mem_append_left _ hm)) hx h

/-! #### the pre-fix machine -/

/-- `step`, except that `.pop` keeps the cached object and the dirty flag (the behaviour before the
    invalidation was added to `pop_state`) -/
def stepBuggy (k : Kernel W P E) (s : State W P) : Op P E → State W P × Option P
  | .pop =>
    match s.states.reverse with
    | [] => (s, none)
    | w :: restRev => ({ s with working := w, states := restRev.reverse }, none)
  | op => step k s op

/-- outputs of a history under the pre-fix machine -/
def outputsBuggy (k : Kernel W P E) (s : State W P) : List (Op P E) → List (Option P)
  | [] => []
  | op :: ops => (stepBuggy k s op).2 :: outputsBuggy k (stepBuggy k s op).1 ops

def runBuggy (k : Kernel W P E) (s : State W P) : List (Op P E) → State W P
  | [] => s
  | op :: ops => runBuggy k (stepBuggy k s op).1 ops

/-! ### 2. the stack of saved states -/

/-- what one operation can do to the stack, for every operation and state: nothing, push the
    re-fetched copy of the current working set, or drop the top -/
theorem step_states_cases (k : Kernel W P E) (s : State W P) (op : Op P E) :
    (step k s op).1.states = s.states ∨
    (step k s op).1.states = s.states ++ [k.refetch s.working] ∨
    (step k s op).1.states = s.states.dropLast := by
  cases op with
  | update e => left; simp only [step]; split <;> rfl
  | updateFromPython p =>
    cases p with
    | some x => right; left; rfl
    | none =>
      simp only [step]
      cases s.params with
      | none => left; rfl
      | some x => right; left; rfl
  | push => right; left; rfl
  | pop =>
    simp only [step]
    split
    · left; rfl
    · next w restRev h =>
      right; right
      have : s.states = restRev.reverse ++ [w] := by
        have := congrArg List.reverse h; simpa using this
      simp [this]
  | setState i => left; simp only [step]; split <;> rfl
  | getPython => left; exact getPython_states k s

/-- `pop` on a stack `st ++ [w]` makes `w` the working set, drops it from the stack and invalidates
    the cache -/
theorem step_pop_snoc (k : Kernel W P E) (s : State W P) (st : List W) (w : W)
    (h : s.states = st ++ [w]) :
    (step k s .pop).1 = { working := w, params := none, dirty := true, states := st } := by
  simp [step, h]

/-- `pop` on an empty stack is a no-op -/
theorem step_pop_empty (k : Kernel W P E) (s : State W P) (h : s.states = []) :
    step k s .pop = (s, none) := by
  simp [step, h]

theorem step_update_states (k : Kernel W P E) (s : State W P) (e : E) :
    (step k s (.update e)).1.states = s.states := by
  simp only [step]; split <;> rfl

theorem step_setState_states (k : Kernel W P E) (s : State W P) (i : Nat) :
    (step k s (.setState i)).1.states = s.states := by
  simp only [step]; split <;> rfl

/-- Well-bracketed histories.  `update`, `getPython`, `setState` do not touch the stack; `push` and
    `updateFromPython (some p)` (which always pushes the pre-edit working set) open a bracket that the
    matching `pop` closes.  `updateFromPython none` is *not* allowed inside: whether it pushes depends
    on the state (it is a no-op when nothing is cached), so it has no state-independent bracket
    structure; `step_states_cases` covers it. -/
inductive Balanced : List (Op P E) → Prop
  | nil : Balanced []
  | update (e : E) {rest} : Balanced rest → Balanced (.update e :: rest)
  | getPython {rest} : Balanced rest → Balanced (.getPython :: rest)
  | setState (i : Nat) {rest} : Balanced rest → Balanced (.setState i :: rest)
  | push {inner rest} : Balanced inner → Balanced rest → Balanced (.push :: (inner ++ .pop :: rest))
  | fromPython (p : P) {inner rest} : Balanced inner → Balanced rest →
      Balanced (.updateFromPython (some p) :: (inner ++ .pop :: rest))

/-- a balanced history leaves the stack of saved states exactly as it found it -/
theorem run_balanced_states {k : Kernel W P E} {ops : List (Op P E)} (hb : Balanced ops)
    (s : State W P) : (run k s ops).states = s.states := by
  induction hb generalizing s with
  | nil => rfl
  | update e _ ih => rw [run_cons, ih, step_update_states]
  | getPython _ ih => rw [run_cons, ih, getPython_states]
  | setState i _ ih => rw [run_cons, ih, step_setState_states]
  | push _ _ ihi ihr =>
    rw [run_cons, run_append, run_cons, ihr]
    rw [step_pop_snoc k _ s.states (k.refetch s.working) (by rw [ihi]; rfl)]
  | fromPython p _ _ ihi ihr =>
    rw [run_cons, run_append, run_cons, ihr]
    rw [step_pop_snoc k _ s.states (k.refetch s.working) (by rw [ihi]; rfl)]

/-- **pop restores**: whatever balanced history ran in between, the `pop` matching a `push` makes the
    (re-fetched copy of the) working set that was current at the push current again, leaves the stack
    as before the push, and invalidates the cache. -/
theorem push_pop_restores_state {k : Kernel W P E} {inner : List (Op P E)} (hb : Balanced inner)
    (s : State W P) :
    run k s (.push :: (inner ++ [.pop])) =
      { working := k.refetch s.working, params := none, dirty := true, states := s.states } := by
  rw [run_cons, run_append, run_cons, run_nil]
  exact step_pop_snoc k _ s.states (k.refetch s.working) (by rw [run_balanced_states hb]; rfl)

theorem push_pop_restores {k : Kernel W P E} {inner : List (Op P E)} (hb : Balanced inner)
    (s : State W P) :
    (run k s (.push :: (inner ++ [.pop]))).working = k.refetch s.working ∧
    (run k s (.push :: (inner ++ [.pop]))).states = s.states := by
  rw [push_pop_restores_state hb]; exact ⟨rfl, rfl⟩

/-- the same for the implicit push of `update_from_python(obj)`: the matching `pop` undoes the edit -/
theorem fromPython_pop_restores_state {k : Kernel W P E} {inner : List (Op P E)} (hb : Balanced inner)
    (s : State W P) (p : P) :
    run k s (.updateFromPython (some p) :: (inner ++ [.pop])) =
      { working := k.refetch s.working, params := none, dirty := true, states := s.states } := by
  rw [run_cons, run_append, run_cons, run_nil]
  exact step_pop_snoc k _ s.states (k.refetch s.working) (by rw [run_balanced_states hb]; rfl)

/-- `updateFromPython none` in a state with a cached object behaves as a push too -/
theorem fromCache_pop_restores_state {k : Kernel W P E} {inner : List (Op P E)} (hb : Balanced inner)
    (s : State W P) (x : P) (hx : s.params = some x) :
    run k s (.updateFromPython none :: (inner ++ [.pop])) =
      { working := k.refetch s.working, params := none, dirty := true, states := s.states } := by
  rw [run_cons, run_append, run_cons, run_nil]
  refine step_pop_snoc k _ s.states (k.refetch s.working) ?_
  rw [run_balanced_states hb]; simp [step, hx]

/-- and is a no-op in a state with nothing cached -/
theorem fromCache_none (k : Kernel W P E) (s : State W P) (h : s.params = none) :
    step k s (.updateFromPython none) = (s, none) := by
  simp [step, h]

/-- in the middle of a history and from the initial state -/
theorem reachable_push_pop_restores {k : Kernel W P E} {w : W} {pre inner : List (Op P E)}
    (hb : Balanced inner) :
    (run k (init k w) (pre ++ .push :: (inner ++ [.pop]))).working
      = k.refetch (run k (init k w) pre).working ∧
    (run k (init k w) (pre ++ .push :: (inner ++ [.pop]))).states
      = (run k (init k w) pre).states := by
  rw [run_append]
  exact push_pop_restores hb _

/-- `setState i` makes the re-fetched copy of the `i`-th saved state current and never changes the
    stack; out of range it is a no-op -/
theorem step_setState_some (k : Kernel W P E) (s : State W P) (i : Nat) (w : W)
    (h : s.states[i]? = some w) :
    (step k s (.setState i)).1 =
      { working := k.refetch w, params := none, dirty := true, states := s.states } := by
  simp [step, h]

theorem step_setState_none (k : Kernel W P E) (s : State W P) (i : Nat)
    (h : s.states[i]? = none) : step k s (.setState i) = (s, none) := by
  simp [step, h]

/-! ### 3. refused edits -/

theorem update_refused {k : Kernel W P E} {s : State W P} {e : E}
    (h : k.merge s.working e = none) : (step k s (.update e)).1 = s := by
  simp [step, h]

theorem update_accepted {k : Kernel W P E} {s : State W P} {e : E} {w : W}
    (h : k.merge s.working e = some w) :
    (step k s (.update e)).1 = { s with working := w, dirty := true, params := none } := by
  simp [step, h]

/-! ### 4. edit idempotence -/

/-- the kernel law: merging the same edit into its own result changes nothing -/
def IdemKernel (k : Kernel W P E) (e : E) : Prop :=
  ∀ w w', k.merge w e = some w' → k.merge w' e = some w'

/-- under the kernel law the second application of an edit leaves the whole state as it was after the
    first (also when the edit is refused: then both applications are no-ops) -/
theorem update_twice_state {k : Kernel W P E} {e : E} (hk : IdemKernel k e) (s : State W P) :
    run k s [.update e, .update e] = run k s [.update e] := by
  simp only [run_cons, run_nil]
  cases h : k.merge s.working e with
  | none => rw [update_refused h, update_refused h]
  | some w' =>
    rw [update_accepted h]
    rw [update_accepted (w := w') (hk _ _ h)]

theorem update_twice {k : Kernel W P E} {e : E} (hk : IdemKernel k e) (s : State W P) :
    (run k s [.update e, .update e]).working = (run k s [.update e]).working := by
  rw [update_twice_state hk]

/-! ### 5. `getPython` is idempotent -/

theorem getPython_idempotent (k : Kernel W P E) (s : State W P) :
    step k (step k s .getPython).1 .getPython = step k s .getPython := by
  cases hd : s.dirty <;> cases hp : s.params <;> cases he : k.extract s.working <;>
    simp [step, hd, hp, he]

end Phil.Index
