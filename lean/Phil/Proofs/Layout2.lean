/-
  Lemmas behind the remaining closed-form clauses of C02 (and C15 for nested documents):
    * the value collector in front of a name, `!name`, `}` or the end of the text (`SafeHead_l2`,
      `cAA_fill_l2`, `cAA_term_l2`, `collectAssigned_layout_l2`), one turn of `collect_objects` for a
      definition with or without `!` (`defn_turn_l2`);
    * `!` in front of a definition of a flat document (`renderB_l2`, `parseObjs_renderB_l2`;
      Phil/Props/C02Bang.lean);
    * nested braces versus dottedName names on canonical texts (`Obj.eraseMerge`, `bracesIn_l2`,
      `dottedIn_l2`, `parseObjs_flatKids_l2`; Phil/Props/C02Nested.lean);
    * nested documents under a layout grammar given as data (`LayItem`, `renderN`, `wfDocN`,
      `parseObjs_renderN_l2` with the closed form `layObjs`; abstract tree `layTrees`, ids, `!`,
      dottedName names in any layout; Phil/Props/C02Nested.lean);
    * source lines of nested documents (`layLined`, `layNamePos`; Phil/Props/C15Nested.lean).
  Lemmas carry the suffix `_l2`; the flat layout vocabulary (`Pre`, `FillLine`, `Terminator`,
  `DefLayout`, `wfDoc`, `render`) is that of Phil/Proofs/Layout.lean.
-/
import Phil.Proofs.Layout
import Phil.Proofs.PrintParseNested
set_option linter.unusedSimpArgs false
set_option linter.unusedVariables false
namespace Phil

/-! ### what may follow a value, generalised: a name, `!name`, `}` or the end of the text -/

/-- the text is empty or starts with a character that can begin the next construct after a value:
    not white space, not a quote, not `;`, not `#` (the first character of a name, `!`, `}`) -/
def SafeHead_l2 (X : Str) : Prop :=
  ∀ c t, X = c :: t → isSpace c = false ∧ isQuoteChar c = false ∧ c ≠ ';' ∧ c ≠ '#'

theorem SafeHead_nil_l2 : SafeHead_l2 [] := by intro c t e; cases e

theorem SafeHead_of_NameHead_l2 {X : Str} (h : NameHead X) : SafeHead_l2 X := by
  intro c t e
  have hx := h c t e
  obtain ⟨_, _, _, h4, h5, _⟩ := idCont_facts hx
  exact ⟨idCont_not_space hx, idCont_not_quote hx, h4, h5⟩

theorem SafeHead_bang_l2 (t : Str) : SafeHead_l2 ('!' :: t) := by
  intro c t' e
  simp only [List.cons.injEq] at e
  rw [← e.1]
  exact ⟨by rfl, by rfl, by decide, by decide⟩

theorem SafeHead_close_l2 (t : Str) : SafeHead_l2 ('}' :: t) := by
  intro c t' e
  simp only [List.cons.injEq] at e
  rw [← e.1]
  exact ⟨by rfl, by rfl, by decide, by decide⟩

theorem firstNonSpace_fill_l2 (ind X : Str) (hind : inlineB ind = true) (hX : SafeHead_l2 X) :
    ∀ (ls : List FillLine), ls.all FillLine.wf = true →
      ∀ c, firstNonSpace (linesStr ls ++ (ind ++ X)) = some c → isQuoteChar c = false := by
  intro ls
  induction ls with
  | nil =>
    intro _ c hc
    rw [linesStr, List.nil_append, firstNonSpace_skip _ _ (inlineB_space hind)] at hc
    cases X with
    | nil => simp [firstNonSpace] at hc
    | cons x t =>
      obtain ⟨hx1, hx2, _, _⟩ := hX x t rfl
      simp only [firstNonSpace, hx1, Bool.false_eq_true, ↓reduceIte, Option.some.injEq] at hc
      subst hc
      exact hx2
  | cons f fs ih =>
    intro hls c hc
    simp only [List.all_cons, Bool.and_eq_true, FillLine.wf] at hls
    obtain ⟨⟨hfi, hfc⟩, hfs⟩ := hls
    rw [linesStr, FillLine.text, List.append_assoc, List.append_assoc,
      firstNonSpace_skip _ _ (inlineB_space hfi)] at hc
    cases hcm : f.cmt with
    | none =>
      rw [hcm] at hc
      simp only [cmtText, List.nil_append, List.cons_append, firstNonSpace, isSpace_nl,
        ↓reduceIte] at hc
      exact ih hfs c hc
    | some t =>
      rw [hcm] at hc
      simp only [cmtText, List.cons_append, firstNonSpace, isSpace_hash, Bool.false_eq_true,
        ↓reduceIte, Option.some.injEq] at hc
      subst hc
      rfl

/-- the first character of the next construct ends the value of the line before -/
theorem EndsValue_head_l2 (sp X : Str) (L l0 : Nat) (hsp : ∀ d ∈ sp, isSpace d = true)
    (hX : SafeHead_l2 X) (hl : l0 < L + nlCount sp) : EndsValue ⟨sp ++ X, L⟩ l0 := by
  cases X with
  | nil => rw [List.append_nil]; exact EndsValue_eof sp L l0 hsp
  | cons x t =>
    obtain ⟨hx1, hx2, hx3, hx4⟩ := hX x t rfl
    obtain ⟨v, rest', hw⟩ := wordAt_unquoted valueSettings x t (L + nlCount sp) hx2
    refine EndsValue_word sp (x :: t) { value := x :: v, quote := none, line := some (L + nlCount sp) }
      ⟨rest', L + nlCount sp⟩ L l0 hsp ?_ rfl ?_ ?_ ?_
    · rw [nextWordAux_word valueSettings x t _ hx1 (commentChars_value _ _), hw]; rfl
    · intro e; simp only [List.cons.injEq] at e; exact hx3 e.1
    · intro e; simp only [List.cons.injEq] at e; exact hx4 e.1
    · intro e; simp only [Option.some.injEq] at e; omega

/-- `cAA_fill` of Phil/Proofs/Layout.lean with the next construct being a name, `!name`, `}` or the
    end of the text -/
theorem cAA_fill_l2 (ind X : Str) (hind : inlineB ind = true) (hX : SafeHead_l2 X) (L : Nat) :
    ∀ (ls : List FillLine) (sp : Str), ls.all FillLine.wf = true →
      (∀ d ∈ sp, isSpace d = true) → 1 ≤ nlCount sp →
      ∀ (fuel : Nat) (last : Word) (acc : List Word) (l0 : Nat),
        (sp ++ (linesStr ls ++ (ind ++ X))).length + 1 ≤ fuel → last.line = some l0 → l0 ≤ L →
        isUnq last "\\" = false →
        ∃ ci4 : CI,
          collectAssignedAux fuel ⟨sp ++ (linesStr ls ++ (ind ++ X)), L⟩ last false acc
            = .ok (acc.reverse, ci4) ∧
          nextWord structSettings ci4
            = nextWordAux structSettings false (ind ++ X) (L + nlCount sp + ls.length) := by
  intro ls
  induction ls with
  | nil =>
    intro sp _ hsp hnl fuel last acc l0 hf hl hle hbs
    obtain ⟨f, rfl⟩ : ∃ f, fuel = f + 1 := ⟨fuel - 1, by omega⟩
    refine ⟨⟨sp ++ (linesStr [] ++ (ind ++ X)), L⟩, ?_, ?_⟩
    · apply cAA_stop f _ last acc l0 _ hl hbs
      have e : sp ++ (linesStr [] ++ (ind ++ X)) = (sp ++ ind) ++ X := by simp [linesStr]
      rw [e]
      have hsp' : ∀ d ∈ sp ++ ind, isSpace d = true := by
        intro d hd
        rcases List.mem_append.mp hd with h | h
        · exact hsp d h
        · exact inlineB_space hind d h
      apply EndsValue_head_l2 _ _ _ _ hsp' hX
      rw [nlCount_append]; omega
    · unfold nextWord
      simp only [linesStr, List.nil_append, List.length_nil, Nat.add_zero]
      rw [nextWordAux_skip structSettings sp _ hsp]
  | cons f fs ih =>
    intro sp hls hsp hnl fuel last acc l0 hf hl hle hbs
    simp only [List.all_cons, Bool.and_eq_true, FillLine.wf] at hls
    obtain ⟨⟨hfi, hfc⟩, hfs⟩ := hls
    cases hcm : f.cmt with
    | none =>
      have e : sp ++ (linesStr (f :: fs) ++ (ind ++ X))
          = (sp ++ (f.ind ++ ['\n'])) ++ (linesStr fs ++ (ind ++ X)) := by
        simp [linesStr, FillLine.text, hcm, cmtText]
      have hsp' : ∀ d ∈ sp ++ (f.ind ++ ['\n']), isSpace d = true := by
        intro d hd
        rcases List.mem_append.mp hd with h | h
        · exact hsp d h
        · rcases List.mem_append.mp h with h | h
          · exact inlineB_space hfi d h
          · simp at h; subst h; rfl
      have hn' : nlCount (sp ++ (f.ind ++ ['\n'])) = nlCount sp + 1 := by
        rw [nlCount_append, nlCount_append, inlineB_nl hfi, nlCount_nl]
      rw [e] at hf ⊢
      obtain ⟨ci4, h1, h2⟩ := ih _ hfs hsp' (by omega) fuel last acc l0 hf hl hle hbs
      refine ⟨ci4, h1, ?_⟩
      rw [h2, hn', List.length_cons]
      congr 1 <;> omega
    | some c =>
      rw [hcm] at hfc
      obtain ⟨hcnl, hphil, hok⟩ := cmtSafe_facts hfc
      have e : sp ++ (linesStr (f :: fs) ++ (ind ++ X))
          = (sp ++ f.ind) ++ '#' :: (c ++ '\n' :: (linesStr fs ++ (ind ++ X))) := by
        simp [linesStr, FillLine.text, hcm, cmtText]
      have hsp' : ∀ d ∈ sp ++ f.ind, isSpace d = true := by
        intro d hd
        rcases List.mem_append.mp hd with h | h
        · exact hsp d h
        · exact inlineB_space hfi d h
      have hn' : nlCount (sp ++ f.ind) = nlCount sp := by
        rw [nlCount_append, inlineB_nl hfi]; omega
      obtain ⟨f', rfl⟩ : ∃ f', fuel = f' + 1 := ⟨fuel - 1, by omega⟩
      by_cases hs : stopsAt valueSettings c = true
      · have hstop' : stopsAt valueSettings (c ++ '\n' :: (linesStr fs ++ (ind ++ X))) = true := by
          cases c with
          | nil => rfl
          | cons d r => exact hs
        have hhash : nextWord valueSettings ⟨(sp ++ f.ind) ++ '#' :: (c ++ '\n' :: (linesStr fs ++ (ind ++ X))), L⟩
            = .ok (some ({ value := ['#'], quote := none, line := some (L + nlCount sp) },
                ⟨c ++ '\n' :: (linesStr fs ++ (ind ++ X)), L + nlCount sp⟩)) := by
          unfold nextWord
          simp only []
          rw [nextWordAux_skip valueSettings _ _ hsp', hn']
          exact nextWordAux_plain valueSettings '#' [] _ _ (by rfl) (by rfl) (by rfl) (by rfl)
            (by intro d hd; simp at hd) hstop'
        have hflen : c.length + 1 ≤ f' := by
          rw [e] at hf
          simp only [List.length_append, List.length_cons] at hf; omega
        obtain ⟨tb, htb, hbody⟩ := cAA_comment_body (linesStr fs ++ (ind ++ X)) (L + nlCount sp)
          (firstNonSpace_fill_l2 ind X hind hX fs hfs) c.length c (Nat.le_refl _)
          { value := ['#'], quote := none, line := some (L + nlCount sp) } f' acc hflen rfl
          (by rw [isUnq_backslash]; exact hok hs)
        refine ⟨⟨tb ++ '\n' :: (linesStr fs ++ (ind ++ X)), L + nlCount sp⟩, ?_, ?_⟩
        · rw [e, cAA_hash f' _ _ last _ acc hhash rfl rfl, hbody]
        · rw [nextWord_inline_space structSettings tb _ _ htb, nextWord_newline,
            struct_skip_lines fs hfs, List.length_cons]
          congr 1; omega
      · have hs' : stopsAt valueSettings c = false := by simpa using hs
        obtain ⟨c1, r, rfl⟩ : ∃ c1 r, c = c1 :: r := by
          cases c with
          | nil => simp [stopsAt] at hs'
          | cons c1 r => exact ⟨c1, r, rfl⟩
        have hc1 : endsUnquoted valueSettings c1 = false := hs'
        obtain ⟨v, rest', hw⟩ := wordAt_unquoted_two valueSettings '#' c1
          (r ++ '\n' :: (linesStr fs ++ (ind ++ X))) (L + nlCount (sp ++ f.ind)) isQuote_hash
          startsLong_hash hc1
        refine ⟨⟨sp ++ (linesStr (f :: fs) ++ (ind ++ X)), L⟩, ?_, ?_⟩
        · apply cAA_stop f' _ last acc l0 _ hl hbs
          rw [e]
          refine EndsValue_word (sp ++ f.ind) _
            { value := '#' :: c1 :: v, quote := none, line := some (L + nlCount (sp ++ f.ind)) }
            ⟨rest', L + nlCount (sp ++ f.ind)⟩ L l0 hsp' ?_ rfl ?_ ?_ ?_
          · rw [nextWordAux_word valueSettings '#' _ _ isSpace_hash (commentChars_value _ _)]
            rw [List.cons_append, hw]; rfl
          · intro e'; simp at e'
          · intro e'; simp at e'
          · intro e'; simp only [Option.some.injEq] at e'; omega
        · unfold nextWord
          simp only []
          rw [nextWordAux_skip structSettings sp _ hsp,
            struct_skip_lines (f :: fs) (by
              have : cmtWf f.cmt = true := by rw [hcm]; exact hfc
              simp [FillLine.wf, hfi, hfs, this])]

/-- an unquoted `}` (outside a comment) ends the value; the collector backs up in front of it -/
theorem cAA_close_l2 (fuel : Nat) (ci ci' : CI) (last w : Word) (acc : List Word)
    (h : nextWord valueSettings ci = .ok (some (w, ci'))) (hq : w.quote = none)
    (hv : w.value = ['}']) :
    collectAssignedAux (fuel + 1) ci last false acc = .ok (acc.reverse, ci) := by
  simp [collectAssignedAux, tryPop, h, hq, hv]

/-- the word iterator (value context) on blanks followed by `}` -/
theorem nextWord_value_close_l2 (sp rest : Str) (l : Nat) (hsp : ∀ d ∈ sp, isSpace d = true) :
    nextWord valueSettings ⟨sp ++ '}' :: rest, l⟩
      = .ok (some ({ value := ['}'], quote := none, line := some (l + nlCount sp) },
                   ⟨rest, l + nlCount sp⟩)) := by
  unfold nextWord
  simp only []
  rw [nextWordAux_skip valueSettings sp _ hsp]
  exact nextWordAux_single valueSettings '}' rest _ (by rfl) (by rfl) (by rfl) (by rfl)

/-- the text that may follow a definition ended by nothing (`Terminator.eof`): the end of the text
    or a closing brace -/
def EofHead_l2 (X : Str) : Prop := X = [] ∨ ∃ r, X = '}' :: r

/-- `cAA_term` of Phil/Proofs/Layout.lean, generalised: the next construct may be a name, `!name`,
    `}` or the end of the text; the terminator `eof` (nothing) is allowed in front of `}` too -/
theorem cAA_term_l2 (t : Terminator) (ht : t.wf = true) (ls : List FillLine)
    (hls : ls.all FillLine.wf = true) (ind X : Str) (hind : inlineB ind = true) (hX : SafeHead_l2 X)
    (heof : t.isEof = true → ls = [] ∧ EofHead_l2 X) (L : Nat)
    (fuel : Nat) (last : Word) (acc : List Word) (l0 : Nat)
    (hf : (t.text ++ (linesStr ls ++ (ind ++ X))).length + 1 ≤ fuel) (hl : last.line = some l0)
    (hle : l0 ≤ L) (hbs : isUnq last "\\" = false) :
    ∃ ci4, collectAssignedAux fuel ⟨t.text ++ (linesStr ls ++ (ind ++ X)), L⟩ last false acc
        = .ok (acc.reverse, ci4) ∧
      nextWord structSettings ci4
        = nextWordAux structSettings false (ind ++ X) (L + nlCount t.text + ls.length) := by
  cases t with
  | nl tb =>
    have hsp : ∀ d ∈ tb ++ ['\n'], isSpace d = true := by
      intro d hd
      rcases List.mem_append.mp hd with h | h
      · exact inlineB_space ht d h
      · simp at h; subst h; rfl
    have hn : nlCount (tb ++ ['\n']) = 1 := by rw [nlCount_append, inlineB_nl ht, nlCount_nl]
    exact cAA_fill_l2 ind X hind hX L ls (tb ++ ['\n']) hls hsp (by omega) fuel last acc l0 hf hl hle hbs
  | semi sb =>
    obtain ⟨f, rfl⟩ : ∃ f, fuel = f + 1 := ⟨fuel - 1, by omega⟩
    have hsc := nextWord_value_semicolon sb (linesStr ls ++ (ind ++ X)) L (inlineB_space ht)
    refine ⟨⟨linesStr ls ++ (ind ++ X), L + nlCount sb⟩, ?_, ?_⟩
    · simp only [Terminator.text, List.append_assoc, List.cons_append, List.nil_append]
      exact cAA_semicolon f _ _ last _ acc hsc rfl rfl
    · unfold nextWord
      simp only [Terminator.text]
      rw [struct_skip_lines ls hls, nlCount_append, inlineB_nl ht]
      rfl
  | comment sb cmt =>
    simp only [Terminator.wf, Bool.and_eq_true, Bool.not_eq_true', List.isEmpty_eq_false_iff] at ht
    obtain ⟨⟨⟨h1, h2⟩, h3⟩, h4⟩ := ht
    obtain ⟨f, rfl⟩ : ∃ f, fuel = f + 1 := ⟨fuel - 1, by omega⟩
    have hstop' : stopsAt valueSettings (cmt ++ '\n' :: (linesStr ls ++ (ind ++ X))) = true := by
      cases cmt with
      | nil => rfl
      | cons d r => exact h3
    have e : (Terminator.comment sb cmt).text ++ (linesStr ls ++ (ind ++ X))
        = sb ++ '#' :: (cmt ++ '\n' :: (linesStr ls ++ (ind ++ X))) := by
      simp [Terminator.text]
    have hhash : nextWord valueSettings ⟨sb ++ '#' :: (cmt ++ '\n' :: (linesStr ls ++ (ind ++ X))), L⟩
        = .ok (some ({ value := ['#'], quote := none, line := some L },
            ⟨cmt ++ '\n' :: (linesStr ls ++ (ind ++ X)), L⟩)) := by
      unfold nextWord
      simp only []
      rw [nextWordAux_skip valueSettings _ _ (inlineB_space h1), inlineB_nl h1]
      exact nextWordAux_plain valueSettings '#' [] _ _ (by rfl) (by rfl) (by rfl) (by rfl)
        (by intro d hd; simp at hd) hstop'
    have hflen : cmt.length + 1 ≤ f := by
      rw [e] at hf
      simp only [List.length_append, List.length_cons] at hf; omega
    obtain ⟨tb, htb, hbody⟩ := cAA_comment_body (linesStr ls ++ (ind ++ X)) L
      (firstNonSpace_fill_l2 ind X hind hX ls hls) cmt.length cmt (Nat.le_refl _)
      { value := ['#'], quote := none, line := some L } f acc hflen rfl
      (by rw [isUnq_backslash]; exact h4)
    refine ⟨⟨tb ++ '\n' :: (linesStr ls ++ (ind ++ X)), L⟩, ?_, ?_⟩
    · rw [e, cAA_hash f _ _ last _ acc hhash rfl rfl, hbody]
    · have hn : nlCount (Terminator.comment sb cmt).text = 1 := by
        have hc : nlCount cmt = 0 := nlCount_of_not_mem (commentOk_no_nl cmt _ _ h4)
        simp only [Terminator.text]
        rw [nlCount_append, inlineB_nl h1, nlCount_cons_ne _ _ (by decide), nlCount_append, hc, nlCount_nl]
      rw [nextWord_inline_space structSettings tb _ _ htb, nextWord_newline,
        struct_skip_lines ls hls, hn]
  | eof =>
    obtain ⟨rfl, hX'⟩ := heof rfl
    obtain ⟨f, rfl⟩ : ∃ f, fuel = f + 1 := ⟨fuel - 1, by omega⟩
    rcases hX' with rfl | ⟨r, rfl⟩
    · refine ⟨⟨ind, L⟩, ?_, ?_⟩
      · simp only [Terminator.text, linesStr, List.nil_append, List.append_nil]
        exact cAA_end f _ last false acc (nextWordAux_blank_eof valueSettings ind L (inlineB_space hind))
      · simp only [Terminator.text, nlCount_nil, List.length_nil, Nat.add_zero, List.append_nil]
        rfl
    · refine ⟨⟨ind ++ '}' :: r, L⟩, ?_, ?_⟩
      · simp only [Terminator.text, linesStr, List.nil_append]
        exact cAA_close_l2 f _ _ last _ acc (nextWord_value_close_l2 ind r L (inlineB_space hind)) rfl rfl
      · simp only [Terminator.text, nlCount_nil, List.length_nil, Nat.add_zero]
        rfl

/-- the text from the terminator on is a good tail for the last word -/
theorem term_tail_l2 (t : Terminator) (ht : t.wf = true) (ind : Str) (hind : inlineB ind = true)
    (R : Str) (heof : t.isEof = true → R = ind ∨ ∃ r, R = ind ++ '}' :: r) : GoodTail (t.text ++ R) := by
  cases t with
  | nl tb => exact term_tail (.nl tb) ht ind hind R (by intro h; cases h)
  | semi sb => exact term_tail (.semi sb) ht ind hind R (by intro h; cases h)
  | comment sb cmt => exact term_tail (.comment sb cmt) ht ind hind R (by intro h; cases h)
  | eof =>
    rcases heof rfl with rfl | ⟨r, rfl⟩
    · exact term_tail .eof ht R hind R (fun _ => rfl)
    · simp only [Terminator.text, List.nil_append]
      exact GoodTail.space_append (inlineB_space hind) (Or.inr ⟨'}', r, rfl, by rfl, by rfl⟩)

/-- `collectAssigned_layout` of Phil/Proofs/Layout.lean, generalised in the same way -/
theorem collectAssigned_layout_l2 (ws : List Word) (gaps : List Str) (t : Terminator)
    (ls : List FillLine) (ind X : Str) (l : Nat) (lead : Word)
    (hne : ws ≠ []) (hgood : ∀ w ∈ ws, goodWord w = true) (hchain : chainOK true ws = true)
    (hgaps : gapsOK true gaps ws = true) (ht : t.wf = true) (hls : ls.all FillLine.wf = true)
    (hind : inlineB ind = true) (hX : SafeHead_l2 X) (heof : t.isEof = true → ls = [] ∧ EofHead_l2 X)
    (hlead : lead.line = some l) (hbs : isUnq lead "\\" = false) :
    ∃ ci4, collectAssigned ⟨wordsLay gaps ws ++ (t.text ++ (linesStr ls ++ (ind ++ X))), l⟩ lead
        = .ok (reline l ws, ci4) ∧
      nextWord structSettings ci4
        = nextWordAux structSettings false (ind ++ X) (endLine l ws + nlCount t.text + ls.length) := by
  have hgt : GoodTail (t.text ++ (linesStr ls ++ (ind ++ X))) :=
    term_tail_l2 t ht ind hind _ (by
      intro h
      obtain ⟨rfl, hX'⟩ := heof h
      rcases hX' with rfl | ⟨r, rfl⟩
      · left; simp [linesStr]
      · right; exact ⟨r, by simp [linesStr]⟩)
  have hlen : ws.length + (t.text ++ (linesStr ls ++ (ind ++ X))).length + 1
      ≤ (wordsLay gaps ws ++ (t.text ++ (linesStr ls ++ (ind ++ X)))).length + 1 := by
    have := wordsLay_length_ge ws hgood gaps true hgaps
    rw [List.length_append (as := wordsLay gaps ws)]; omega
  obtain ⟨ci4, h1, h2⟩ := cAA_layWords (t.text ++ (linesStr ls ++ (ind ++ X)))
    (fun ci4 => nextWord structSettings ci4
        = nextWordAux structSettings false (ind ++ X) (endLine l ws + nlCount t.text + ls.length))
    hgt ws gaps true _ l l true lead [] hgaps hgood hchain hlen hlead (Nat.le_refl _) (fun _ => rfl) hbs
    (fun fuel' last' acc' l0' hf' hl' hle' hbs' =>
      cAA_term_l2 t ht ls hls ind X hind hX heof (endLine l ws) fuel' last' acc' l0' hf' hl' hle' hbs')
  refine ⟨ci4, ?_, h2⟩
  unfold collectAssigned
  simp only []
  rw [h1]
  have : (reline l ws).isEmpty = false := by
    cases ws with
    | nil => exact absurd rfl hne
    | cons w ws => simp [reline]
  simp [this]

/-! ### `!` in front of a definition -/

/-- the text of the `!` prefix -/
def bangText_l2 : Bool → Str
  | true => ['!']
  | false => []

theorem stripBang_bang_l2 (w : Word) (nm : Str) (h : w.value = '!' :: nm) :
    stripBang w = ({ w with value := nm }, true) := by
  unfold stripBang
  split
  · rename_i r hv
    rw [h] at hv
    simp only [List.cons.injEq, true_and] at hv
    rw [hv]
  · rename_i hn
    exact absurd h (hn nm)

/-- One turn of `collect_objects` for `!name = value…`: as `collectObjects_defn_step`, the lead word
    being `!` glued to a plain definition name: the definition is created disabled. -/
theorem collectObjects_bang_defn_step_l2 (fuel : Nat) (st : PState) (stop : Option Word) (prevLine : Nat)
    (acc : List Obj) (pending : Option Obj) (lead eq : Word) (ci1 ci2 ci4 : CI) (ws : List Word)
    (nm : Str)
    (h1 : nextWord structSettings st.ci = .ok (some (lead, ci1)))
    (hlq : lead.quote = none) (hv : lead.value = '!' :: nm)
    (hname : plainDefName nm = true)
    (h2 : nextWord structSettings ci1 = .ok (some (eq, ci2)))
    (heq : eq.quote = none) (heqv : eq.value = ['='])
    (h3 : collectAssigned ci2 { lead with value := nm } = .ok (ws, ci4)) :
    collectObjects (fuel + 1) st stop prevLine acc pending
      = collectObjects fuel { ci := ci4, nextId := st.nextId + 1 } stop (lead.line.getD 0)
          (flush acc pending)
          (some (.defn { name := nm, id := some st.nextId, disabled := true,
                         line := lead.line } ws)) := by
  simp only [plainDefName, Bool.and_eq_true, bne_iff_ne, ne_eq, Bool.not_eq_true'] at hname
  obtain ⟨⟨⟨⟨⟨⟨⟨n1, n2⟩, n3⟩, n4⟩, n5⟩, n6⟩, n7⟩, n8⟩ := hname
  have hsb := stripBang_bang_l2 lead nm hv
  have n7' : ¬ nm = ['i', 'n', 'c', 'l', 'u', 'd', 'e'] := by simpa using n7
  have e1 := tryPopUnquoted_of_next h1 hlq
  have e2 := pop_of_next h2
  have e3 := popUnquoted_of_next h2 heq
  have b1 : ¬ lead.value = ['#', 'p', 'h', 'i', 'l'] := by rw [hv]; simp
  have b2 : ¬ lead.value = ['}'] := by rw [hv]; simp
  have b3 : ¬ lead.value = ['{'] := by rw [hv]; simp
  cases stop <;>
    simp [collectObjects, e1, e2, e3, b1, b2, b3, hsb, n5, n6, n7', n8, heq, heqv, h3]

theorem ends_bang_l2 : endsUnquoted structSettings '!' = false := by rfl

/-- the structure tokenizer on an item name (good, possibly dottedName), possibly with `!` glued in front,
    followed by text in front of which an unquoted word ends -/
theorem nextWordAux_bang_name_gen_l2 (b : Bool) (nm rest : Str) (l : Nat) (hit : ItemName nm)
    (hstop : stopsAt structSettings rest = true) :
    nextWordAux structSettings false (bangText_l2 b ++ (nm ++ rest)) l
      = .ok (some ({ value := bangText_l2 b ++ nm, quote := none, line := some l }, ⟨rest, l⟩)) := by
  obtain ⟨c, w, e, hs, hall⟩ := hit.chars
  subst e
  have hcont := idStart_cont hs
  obtain ⟨_, _, _, _, h5, _⟩ := idCont_facts hcont
  have hc := idCont_not_ends (hall c (by simp))
  have hcm : structSettings.commentChars.contains c = false := by
    simp [structSettings, Gen.structComment, h5]
  cases b with
  | false =>
    have := nextWordAux_plain structSettings c w rest l hc (idCont_not_quote hcont) hcm
      (startsLong_of_not_ends rfl hc) (fun x hx => idCont_not_ends (hall x (by simp [hx]))) hstop
    simpa [bangText_l2] using this
  | true =>
    have := nextWordAux_plain structSettings '!' (c :: w) rest l ends_bang_l2 (by rfl)
      (by rfl) (by rfl) (fun x hx => idCont_not_ends (hall x hx)) hstop
    simpa [bangText_l2] using this

theorem goodName_item_l2 {nm : Str} (h : goodName nm = true) : ItemName nm :=
  itemName_dotted (ms := []) (by intro n hn; simp at hn) h (goodName_not_reserved h)

/-- **One turn of `collect_objects` for a definition under a layout**, with or without `!`.  The
    structure tokenizer is (as good as) at the blanks `ind` in front of the name, on line `l0`; after
    the definition come filler lines `ls`, blanks `ind'` and the next construct `X` (a name, `!name`,
    `}` or the end of the text).  The definition becomes the pending one — disabled iff `b` — with
    the words on their lines, and the structure tokenizer is (as good as) at `ind' ++ X`. -/
theorem defn_turn_l2 (d : DefSpec) (L : DefLayout) (b : Bool) (ind : Str) (ls : List FillLine)
    (ind' X : Str) (hit : ItemName d.1) (hne : d.2 ≠ []) (hgood : ∀ w ∈ d.2, goodWord w = true)
    (hchain : chainOK true d.2 = true) (hind : inlineB ind = true)
    (hsp1 : inlineB L.sp1 = true) (hgaps : gapsOK true L.gaps d.2 = true) (hterm : L.term.wf = true)
    (hls : ls.all FillLine.wf = true) (hind' : inlineB ind' = true) (hX : SafeHead_l2 X)
    (heof : L.term.isEof = true → ls = [] ∧ EofHead_l2 X)
    (fuel : Nat) (st : PState) (stop : Option Word) (prevLine : Nat) (acc : List Obj)
    (pending : Option Obj) (l0 : Nat)
    (hci : nextWord structSettings st.ci
      = nextWordAux structSettings false
          (ind ++ (bangText_l2 b ++ (defText d L ++ (linesStr ls ++ (ind' ++ X))))) l0) :
    ∃ ci4, collectObjects (fuel + 1) st stop prevLine acc pending
        = collectObjects fuel { ci := ci4, nextId := st.nextId + 1 } stop l0 (flush acc pending)
            (some (.defn { name := d.1, id := some st.nextId, disabled := b, line := some l0 }
              (reline l0 d.2))) ∧
      nextWord structSettings ci4
        = nextWordAux structSettings false (ind' ++ X)
            (endLine l0 d.2 + nlCount L.term.text + ls.length) := by
  obtain ⟨c, w, e, hs, hall⟩ := hit.chars
  have hpd := hit.defName
  obtain ⟨_, _, _, _, _, _, _, h8, _⟩ := idCont_facts (idStart_cont hs)
  have h1 : nextWord structSettings st.ci
      = .ok (some ({ value := bangText_l2 b ++ d.1, quote := none, line := some l0 },
          ⟨L.sp1 ++ '=' :: (wordsLay L.gaps d.2 ++ (L.term.text ++ (linesStr ls ++ (ind' ++ X)))), l0⟩)) := by
    rw [hci, nextWordAux_skip structSettings _ _ (inlineB_space hind), inlineB_nl hind, Nat.add_zero]
    have := nextWordAux_bang_name_gen_l2 b d.1
      (L.sp1 ++ '=' :: (wordsLay L.gaps d.2 ++ (L.term.text ++ (linesStr ls ++ (ind' ++ X))))) l0 hit
      (stopsAt_space_append _ _ _ (inlineB_space hsp1) (by rfl))
    simpa [defText] using this
  have h2 := nextWord_struct_eq L.sp1 (wordsLay L.gaps d.2 ++ (L.term.text ++ (linesStr ls ++ (ind' ++ X))))
    l0 (inlineB_space hsp1)
  rw [inlineB_nl hsp1, Nat.add_zero] at h2
  obtain ⟨ci4, h3, h4⟩ := collectAssigned_layout_l2 d.2 L.gaps L.term ls ind' X l0
    { value := d.1, quote := none, line := some l0 }
    hne hgood hchain hgaps hterm hls hind' hX heof rfl (by rw [isUnq_backslash, e]; simp [h8])
  refine ⟨ci4, ?_, h4⟩
  cases b with
  | false =>
    exact collectObjects_defn_step fuel st stop prevLine acc pending _ _ _ _ ci4 _ h1 rfl hpd h2 rfl rfl h3
  | true =>
    exact collectObjects_bang_defn_step_l2 fuel st stop prevLine acc pending _ _ _ _ ci4 _ d.1 h1 rfl rfl
      hpd h2 rfl rfl h3

/-! ### flat documents with `!` flags -/

/-- the text of a flat document in which every definition carries a flag: `!` glued in front of its
    name or not -/
def renderB_l2 : List (DefSpec × DefLayout × Bool) → Pre → Str
  | [], post => post.text
  | (d, L, b) :: rest, post => L.pre.text ++ (bangText_l2 b ++ (defText d L ++ renderB_l2 rest post))

/-- the same document without the flags -/
def unbang_l2 (ds : List (DefSpec × DefLayout × Bool)) : List (DefSpec × DefLayout) :=
  ds.map (fun x => (x.1, x.2.1))

/-- the flags -/
def bangs_l2 (ds : List (DefSpec × DefLayout × Bool)) : List Bool := ds.map (fun x => x.2.2)

/-- what the parser builds from the flagged document (compare `parsedLay`) -/
def parsedLayB_l2 : Nat → Nat → List (DefSpec × DefLayout × Bool) → List Obj
  | _, _, [] => []
  | l, i, (d, L, b) :: rest =>
    .defn { name := d.1, id := some i, disabled := b, line := some (l + L.pre.lines.length) }
        (reline (l + L.pre.lines.length) d.2)
      :: parsedLayB_l2 (endLine (l + L.pre.lines.length) d.2 + nlCount L.term.text) (i + 1) rest

/-- the text from the first name (or its `!`) on -/
def afterPreB_l2 : List (DefSpec × DefLayout × Bool) → Pre → Str
  | [], _ => []
  | (d, L, b) :: rest, post => bangText_l2 b ++ (defText d L ++ renderB_l2 rest post)

theorem renderB_split_l2 (ds : List (DefSpec × DefLayout × Bool)) (post : Pre) :
    renderB_l2 ds post
      = linesStr (firstPre (unbang_l2 ds) post).lines
          ++ ((firstPre (unbang_l2 ds) post).ind ++ afterPreB_l2 ds post) := by
  cases ds with
  | nil => simp [renderB_l2, unbang_l2, firstPre, afterPreB_l2, Pre.text]
  | cons x rest =>
    obtain ⟨d, L, b⟩ := x
    simp [renderB_l2, unbang_l2, firstPre, afterPreB_l2, Pre.text]

theorem safeHead_afterPreB_l2 {ds : List (DefSpec × DefLayout × Bool)} {post : Pre}
    (h : wfDoc (unbang_l2 ds) post = true) : SafeHead_l2 (afterPreB_l2 ds post) := by
  cases ds with
  | nil => exact SafeHead_nil_l2
  | cons x rest =>
    obtain ⟨d, L, b⟩ := x
    cases b with
    | true => exact SafeHead_bang_l2 _
    | false =>
      obtain ⟨hgd, _, _, _⟩ := wfDoc_cons (show wfDoc ((d, L) :: unbang_l2 rest) post = true from h)
      obtain ⟨c0, w, e, hs, _, _, _⟩ := goodName_cases (goodDef_good hgd).1
      apply SafeHead_of_NameHead_l2
      intro c t ec
      simp only [afterPreB_l2, bangText_l2, defText, e, List.nil_append, List.cons_append,
        List.cons.injEq] at ec
      rw [← ec.1]
      exact idStart_cont hs

theorem collectObjects_layoutB_l2 (post : Pre) :
    ∀ (ds : List (DefSpec × DefLayout × Bool)) (fuel : Nat) (st : PState) (l prevLine : Nat)
      (acc : List Obj) (pending : Option Obj),
      wfDoc (unbang_l2 ds) post = true → ds.length + 1 ≤ fuel →
      nextWord structSettings st.ci
        = nextWordAux structSettings false ((firstPre (unbang_l2 ds) post).ind ++ afterPreB_l2 ds post)
            (l + (firstPre (unbang_l2 ds) post).lines.length) →
      ∃ st', collectObjects fuel st none prevLine acc pending
        = .ok (flush acc pending ++ parsedLayB_l2 l st.nextId ds, st') := by
  intro ds
  induction ds with
  | nil =>
    intro fuel st l prevLine acc pending hwf hf hci
    obtain ⟨f, rfl⟩ : ∃ f, fuel = f + 1 := ⟨fuel - 1, by simp at hf; omega⟩
    refine ⟨st, ?_⟩
    simp only [unbang_l2, List.map_nil, wfDoc, Pre.wf, Bool.and_eq_true] at hwf
    rw [collectObjects_end f st prevLine acc pending (by
      rw [hci]
      simp only [unbang_l2, List.map_nil, firstPre, afterPreB_l2, List.append_nil]
      exact nextWordAux_blank_eof structSettings _ _ (inlineB_space hwf.2))]
    simp [parsedLayB_l2]
  | cons x rest ih =>
    obtain ⟨d, L, b⟩ := x
    intro fuel st l prevLine acc pending hwf hf hci
    obtain ⟨f, rfl⟩ : ∃ f, fuel = f + 1 := ⟨fuel - 1, by simp at hf; omega⟩
    have hf' : rest.length + 1 ≤ f := by simp at hf; omega
    have hwf' : wfDoc ((d, L) :: unbang_l2 rest) post = true := hwf
    obtain ⟨hgd, hwd, heof, hwr⟩ := wfDoc_cons hwf'
    obtain ⟨hname, _, _, _⟩ := goodDef_good hgd
    obtain ⟨_, _, _, _, _, _, hdot⟩ := goodName_cases hname
    simp only [wfDef, Bool.and_eq_true, Pre.wf] at hwd
    obtain ⟨⟨⟨⟨_, hpi⟩, hsp1⟩, hgaps⟩, hterm⟩ := hwd
    have hpre' := wfDoc_firstPre hwr
    simp only [Pre.wf, Bool.and_eq_true] at hpre'
    obtain ⟨ci4, hstep, hnext⟩ := defn_turn_l2 d L b L.pre.ind (firstPre (unbang_l2 rest) post).lines
      (firstPre (unbang_l2 rest) post).ind (afterPreB_l2 rest post) (goodName_item_l2 hname)
      (goodDef_good hgd).2.1 (goodDef_good hgd).2.2.1 (goodDef_good hgd).2.2.2 hpi hsp1 hgaps hterm hpre'.1
      hpre'.2 (safeHead_afterPreB_l2 hwr)
      (by
        intro he
        obtain ⟨hr, hpl⟩ := heof he
        have hr' : rest = [] := by simpa [unbang_l2] using hr
        subst hr'
        exact ⟨by simp [unbang_l2, firstPre, hpl], Or.inl rfl⟩)
      f st none prevLine acc pending (l + L.pre.lines.length)
      (by
        rw [hci, ← renderB_split_l2 rest post]
        simp [unbang_l2, firstPre, afterPreB_l2])
    obtain ⟨st', hih⟩ := ih f { ci := ci4, nextId := st.nextId + 1 }
      (endLine (l + L.pre.lines.length) d.2 + nlCount L.term.text)
      (l + L.pre.lines.length) (flush acc pending)
      (some (.defn { name := d.1, id := some st.nextId, disabled := b,
                     line := some (l + L.pre.lines.length) } (reline (l + L.pre.lines.length) d.2)))
      hwr hf' hnext
    refine ⟨st', ?_⟩
    rw [hstep, hih, flush_some_undotted (flush acc pending)
      (.defn { name := d.1, id := some st.nextId, disabled := b,
               line := some (l + L.pre.lines.length) } (reline (l + L.pre.lines.length) d.2)) hdot]
    simp [parsedLayB_l2]

theorem renderB_length_ge_l2 (post : Pre) (ds : List (DefSpec × DefLayout × Bool)) :
    ds.length ≤ (renderB_l2 ds post).length := by
  induction ds with
  | nil => simp
  | cons x rest ih =>
    obtain ⟨d, L, b⟩ := x
    simp only [renderB_l2, defText, List.length_cons, List.length_append]; omega

/-- `parse` of a laid-out flat document with `!` flags -/
theorem parseObjs_renderB_l2 (ds : List (DefSpec × DefLayout × Bool)) (post : Pre)
    (h : wfDoc (unbang_l2 ds) post = true) :
    parseObjs (renderB_l2 ds post) = .ok (parsedLayB_l2 1 1 ds) := by
  have hlen : ds.length + 1 ≤ (renderB_l2 ds post).length + 2 := by
    have := renderB_length_ge_l2 post ds; omega
  have hpre := wfDoc_firstPre h
  simp only [Pre.wf, Bool.and_eq_true] at hpre
  obtain ⟨st', hst⟩ := collectObjects_layoutB_l2 post ds _ { ci := ⟨renderB_l2 ds post, 1⟩, nextId := 1 }
    1 0 [] none h hlen (by
      unfold nextWord
      simp only []
      rw [renderB_split_l2, struct_skip_lines _ hpre.1])
  unfold parseObjs
  rw [hst]
  simp [flush]

/-- set the `disabled` flag of an object -/
def Obj.setDisabled_l2 (o : Obj) (b : Bool) : Obj := o.withMeta (fun m => { m with disabled := b })

/-- set the flags of a list of objects, one flag per object -/
def setFlags_l2 : List Bool → List Obj → List Obj
  | b :: bs, o :: os => o.setDisabled_l2 b :: setFlags_l2 bs os
  | _, _ => []

/-- the tree of the flagged text is the tree of the text without `!` with the flags set: names, ids,
    source lines, words with their lines — all the same -/
theorem parsedLayB_eq_l2 (ds : List (DefSpec × DefLayout × Bool)) : ∀ l i,
    parsedLayB_l2 l i ds = setFlags_l2 (bangs_l2 ds) (parsedLay l i (unbang_l2 ds)) := by
  induction ds with
  | nil => intro l i; rfl
  | cons x rest ih =>
    obtain ⟨d, L, b⟩ := x
    intro l i
    have e1 : unbang_l2 ((d, L, b) :: rest) = (d, L) :: unbang_l2 rest := rfl
    have e2 : bangs_l2 ((d, L, b) :: rest) = b :: bangs_l2 rest := rfl
    rw [parsedLayB_l2, e1, e2, parsedLay, setFlags_l2, ih]
    rfl

theorem render_unbang_all_false_l2 (ds : List (DefSpec × DefLayout × Bool)) (post : Pre)
    (h : ∀ x ∈ ds, x.2.2 = false) : renderB_l2 ds post = render (unbang_l2 ds) post := by
  induction ds with
  | nil => rfl
  | cons x rest ih =>
    obtain ⟨d, L, b⟩ := x
    have hb : b = false := h (d, L, b) (by simp)
    subst hb
    have e1 : unbang_l2 ((d, L, false) :: rest) = (d, L) :: unbang_l2 rest := rfl
    rw [renderB_l2, e1, render, ih (fun y hy => h y (by simp [hy]))]
    simp [bangText_l2]

/-! ### nested braces versus dottedName names -/

mutual
/-- a tree without ids, source positions and `merge_names` flags: `erase` + `mergeNames := false` -/
def Obj.eraseMerge : Obj → Obj
  | .defn m ws => .defn { m.erase with mergeNames := false } (ws.map Word.erase)
  | .scope m os => .scope { m.erase with mergeNames := false } (eraseMergeList os)
def eraseMergeList : List Obj → List Obj
  | [] => []
  | x :: xs => x.eraseMerge :: eraseMergeList xs
end

theorem eraseMergeList_eq_map_l2 (xs : List Obj) : eraseMergeList xs = xs.map Obj.eraseMerge := by
  induction xs with
  | nil => simp [eraseMergeList]
  | cons x xs ih => simp [eraseMergeList, ih]

theorem word_erase_erase_l2 (ws : List Word) :
    (ws.map Word.erase).map Word.erase = ws.map Word.erase := by
  simp [Word.erase]

/-- `eraseMerge` sees only what `erase` leaves -/
theorem eraseMerge_erase_l2 (x : Obj) : x.erase.eraseMerge = x.eraseMerge := by
  induction x using Obj.rec
    (motive_2 := fun os => eraseMergeList (eraseList os) = eraseMergeList os) with
  | defn m ws =>
    rw [Obj.erase_defn, Obj.eraseMerge, Obj.eraseMerge, word_erase_erase_l2]
    rfl
  | scope m os ih =>
    rw [Obj.erase_scope, Obj.eraseMerge, Obj.eraseMerge, ih]
    rfl
  | nil => rfl
  | cons x xs ihx ihxs => rw [eraseList_cons, eraseMergeList, eraseMergeList, ihx, ihxs]

theorem eraseMergeList_eraseList_l2 (os : List Obj) :
    eraseMergeList (eraseList os) = eraseMergeList os := by
  induction os with
  | nil => rfl
  | cons x xs ih => rw [eraseList_cons, eraseMergeList, eraseMergeList, eraseMerge_erase_l2, ih]

/-- trees equal up to ids and lines are equal up to ids, lines and `merge_names` -/
theorem eraseMergeList_congr_l2 {a b : List Obj} (h : eraseList a = eraseList b) :
    eraseMergeList a = eraseMergeList b := by
  rw [← eraseMergeList_eraseList_l2 a, ← eraseMergeList_eraseList_l2 b, h]

/-! #### a width at which nothing is wrapped -/

theorem fits_mono_l2 (w w' : Int) (hle : w ≤ w') (x : Obj) :
    ∀ (ms : List Str) (ind : Str), Fits w x ms ind → Fits w' x ms ind := by
  induction x using Obj.rec
    (motive_2 := fun os => ∀ (ms : List Str) (ind : Str), FitsAll w os ms ind → FitsAll w' os ms ind) with
  | defn m ws => intro ms ind h; unfold Fits at h ⊢; omega
  | scope m os ih =>
    intro ms ind h
    unfold Fits at h ⊢
    split
    · rename_i hfm; rw [if_pos hfm] at h; exact ih _ _ h
    · rename_i hfm; rw [if_neg hfm] at h; exact ih _ _ h
  | nil => rename_i ms ind h; unfold FitsAll; trivial
  | cons x xs ihx ihxs =>
    rename_i ms ind h
    unfold FitsAll at h ⊢
    exact ⟨ihx ms ind h.1, ihxs ms ind h.2⟩

theorem fits_exists_l2 (x : Obj) : ∀ (ms : List Str) (ind : Str), ∃ w, Fits w x ms ind := by
  induction x using Obj.rec
    (motive_2 := fun os => ∀ (ms : List Str) (ind : Str), ∃ w, FitsAll w os ms ind) with
  | defn m ws =>
    intro ms ind
    exact ⟨((ind ++ defHead (dottedName ms m.name) ++ wordsText ws).length : Int) + 2, by unfold Fits; omega⟩
  | scope m os ih =>
    intro ms ind
    by_cases hfm : firstMerges os = true
    · obtain ⟨w, hw⟩ := ih (ms ++ [m.name]) ind
      exact ⟨w, by unfold Fits; rw [if_pos hfm]; exact hw⟩
    · obtain ⟨w, hw⟩ := ih [] (deeper ind)
      exact ⟨w, by unfold Fits; rw [if_neg hfm]; exact hw⟩
  | nil => rename_i ms ind; exact ⟨0, by unfold FitsAll; trivial⟩
  | cons x xs ihx ihxs =>
    rename_i ms ind
    obtain ⟨w1, h1⟩ := ihx ms ind
    obtain ⟨w2, h2⟩ : ∃ w, FitsAll w xs ms ind := ihxs ms ind
    refine ⟨max w1 w2, ?_⟩
    unfold FitsAll
    exact ⟨fits_mono_l2 w1 _ (Int.le_max_left _ _) x ms ind h1, by
      have : ∀ (os : List Obj), FitsAll w2 os ms ind → FitsAll (max w1 w2) os ms ind := by
        intro os
        induction os with
        | nil => intro _; unfold FitsAll; trivial
        | cons y ys ihy =>
          intro hy
          unfold FitsAll at hy ⊢
          exact ⟨fits_mono_l2 w2 _ (Int.le_max_right _ _) y ms ind hy.1, ihy hy.2⟩
      exact this xs h2⟩

theorem fitsAll_exists_l2 (os : List Obj) (ms : List Str) (ind : Str) : ∃ w, FitsAll w os ms ind := by
  induction os with
  | nil => exact ⟨0, by unfold FitsAll; trivial⟩
  | cons x xs ih =>
    obtain ⟨w1, h1⟩ := fits_exists_l2 x ms ind
    obtain ⟨w2, h2⟩ := ih
    refine ⟨max w1 w2, ?_⟩
    unfold FitsAll
    refine ⟨fits_mono_l2 w1 _ (Int.le_max_left _ _) x ms ind h1, ?_⟩
    have : ∀ (os : List Obj), FitsAll w2 os ms ind → FitsAll (max w1 w2) os ms ind := by
      intro os
      induction os with
      | nil => intro _; unfold FitsAll; trivial
      | cons y ys ihy =>
        intro hy
        unfold FitsAll at hy ⊢
        exact ⟨fits_mono_l2 w2 _ (Int.le_max_right _ _) y ms ind hy.1, ihy hy.2⟩
    exact this xs h2

theorem fits_kids_l2 (w : Int) (os : List Obj) (ms : List Str) (ind : Str) (h : FitsAll w os ms ind) :
    kidsText w os ms ind = flatKids os ms ind ∧ (allDefnsList ChainOK os → WrapsOKs w os ms ind) := by
  induction os with
  | nil => exact ⟨rfl, fun _ => by unfold WrapsOKs; trivial⟩
  | cons x xs ih =>
    unfold FitsAll at h
    obtain ⟨a1, a2⟩ := fits_tree w x ms ind h.1
    obtain ⟨b1, b2⟩ := ih h.2
    refine ⟨by rw [kidsText, flatKids, a1, b1], fun hc => ?_⟩
    unfold allDefnsList at hc
    unfold WrapsOKs
    exact ⟨a2 hc.1, b2 hc.2⟩

/-- **`parse` of the canonical unwrapped text of a document of trees** (`flatKids`: one line per
    definition, `name {` … `}` for a proper scope, dottedName names for chains; no print width involved) -/
theorem parseObjs_flatKids_l2 (objs : List Obj) (h : RTAll objs) (hc : allDefnsList ChainOK objs) :
    ∃ objs', parseObjs (flatKids objs [] []) = .ok objs' ∧ eraseList objs' = eraseList objs ∧
      idsList objs' = (expIdsSeq 1 objs).map some := by
  obtain ⟨w, hw⟩ := fitsAll_exists_l2 objs [] []
  obtain ⟨e, hok⟩ := fits_kids_l2 w objs [] [] hw
  obtain ⟨objs', h1, h2, h3⟩ := parseObjs_trees w objs h (hok hc)
  exact ⟨objs', by rw [← e]; exact h1, h2, h3⟩

/-! #### one object below a path of scopes, spelt with braces or with a dottedName name -/

/-- `x` inside the scopes `ns`, every scope a proper one (`merge_names = False` everywhere) -/
def bracesIn_l2 : List Str → Obj → Obj
  | [], x => x
  | n :: ns, x => .scope { name := n } [bracesIn_l2 ns x]

/-- `x` inside the scopes `ns` the way `scope.adopt` builds it for the dottedName name `ns.x`:
    `merge_names = True` on everything but the outermost scope -/
def dottedIn_l2 (ns : List Str) (x : Obj) : Obj :=
  nestIn none false ns (x.withMeta (fun m => { m with mergeNames := !ns.isEmpty }))

/-- the canonical brace text around `body` (which is given its indentation) -/
def bracesText_l2 : List Str → Str → (Str → Str) → Str
  | [], ind, body => body ind
  | n :: ns, ind, body =>
    ind ++ n ++ [' ', '{', '\n'] ++ bracesText_l2 ns (deeper ind) body ++ ind ++ ['}', '\n']

theorem eraseMerge_withMerge_l2 (x : Obj) (c : Bool) :
    (x.withMeta (fun m => { m with mergeNames := c })).eraseMerge = x.eraseMerge := by
  cases x <;> rfl

theorem eraseMerge_bracesIn_l2 (ns : List Str) (x : Obj) :
    (bracesIn_l2 ns x).eraseMerge = bracesIn_l2 ns x.eraseMerge := by
  induction ns with
  | nil => rfl
  | cons n ns ih => rw [bracesIn_l2, Obj.eraseMerge, eraseMergeList, eraseMergeList, ih]; rfl

theorem eraseMerge_nestIn_l2 (id : Option Nat) (ns : List Str) (y : Obj) :
    ∀ b, (nestIn id b ns y).eraseMerge = bracesIn_l2 ns y.eraseMerge := by
  induction ns with
  | nil => intro b; rfl
  | cons n ns ih => intro b; rw [nestIn, Obj.eraseMerge, eraseMergeList, eraseMergeList, ih]; rfl

/-- the two spellings build the same tree up to ids, lines and `merge_names` -/
theorem eraseMerge_dotted_braces_l2 (ns : List Str) (x : Obj) :
    (dottedIn_l2 ns x).eraseMerge = (bracesIn_l2 ns x).eraseMerge := by
  rw [dottedIn_l2, eraseMerge_nestIn_l2, eraseMerge_withMerge_l2, eraseMerge_bracesIn_l2]

theorem rtnode_nestIn_l2 (ns : List Str) (y : Obj) : ∀ (ms : List Str),
    GoodPath ns → RTNode (ms ++ ns) y → RTNode ms (nestIn none (!ms.isEmpty) ns y) := by
  induction ns with
  | nil => intro ms _ h; simpa [nestIn] using h
  | cons n ns ih =>
    intro ms hp h
    have hn : goodName n = true := hp n (by simp)
    have hp' : GoodPath ns := fun k hk => hp k (by simp [hk])
    rw [nestIn]
    unfold RTNode
    refine ⟨rfl, hn, Or.inr ?_⟩
    unfold RTOne
    refine ⟨?_, rfl⟩
    have e : (!(ms ++ [n]).isEmpty) = true := by cases ms <;> rfl
    have := ih (ms ++ [n]) hp' (by simpa using h)
    rw [e] at this
    exact this

theorem rtnode_bracesIn_l2 (ns : List Str) (x : Obj) (hp : GoodPath ns) (h : RTNode [] x) :
    RTNode [] (bracesIn_l2 ns x) := by
  induction ns with
  | nil => exact h
  | cons n ns ih =>
    have hn : goodName n = true := hp n (by simp)
    rw [bracesIn_l2]
    unfold RTNode
    refine ⟨rfl, hn, Or.inl ⟨goodName_not_reserved hn, ?_⟩⟩
    unfold RTAll
    exact ⟨ih (fun k hk => hp k (by simp [hk])), by unfold RTAll; trivial⟩

theorem nestIn_merge_l2 (id : Option Nat) (b : Bool) (ns : List Str) (y : Obj)
    (hy : y.meta.mergeNames = b) : (nestIn id b ns y).meta.mergeNames = b := by
  cases ns with
  | nil => exact hy
  | cons n ns => rfl

theorem flatText_nestIn_l2 (id : Option Nat) (ns : List Str) (y : Obj) (ind : Str) :
    ∀ (b : Bool) (ms : List Str), (ns ≠ [] → y.meta.mergeNames = true) →
      flatText (nestIn id b ns y) ms ind = flatText y (ms ++ ns) ind := by
  induction ns with
  | nil => intro b ms _; simp [nestIn]
  | cons n ns ih =>
    intro b ms hy
    have hfm : firstMerges [nestIn id true ns y] = true :=
      nestIn_merge_l2 id true ns y (hy (by simp))
    rw [nestIn, flatText, hfm]
    simp only [↓reduceIte, flatKids, List.append_nil]
    rw [ih true (ms ++ [n]) (fun _ => hy (by simp))]
    simp

theorem allDefns_nestIn_l2 (P : List Word → Prop) (id : Option Nat) (ns : List Str) (y : Obj) :
    ∀ b, (nestIn id b ns y).allDefns P ↔ y.allDefns P := by
  induction ns with
  | nil => intro b; rfl
  | cons n ns ih =>
    intro b
    rw [nestIn, Obj.allDefns, allDefnsList, allDefnsList, ih]
    simp

theorem allDefns_bracesIn_l2 (P : List Word → Prop) (ns : List Str) (x : Obj) :
    (bracesIn_l2 ns x).allDefns P ↔ x.allDefns P := by
  induction ns with
  | nil => rfl
  | cons n ns ih =>
    rw [bracesIn_l2, Obj.allDefns, allDefnsList, allDefnsList, ih]
    simp

theorem bracesIn_merge_l2 (ns : List Str) (x : Obj) (hx : x.meta.mergeNames = false) :
    (bracesIn_l2 ns x).meta.mergeNames = false := by
  cases ns with
  | nil => exact hx
  | cons n ns => rfl

theorem flatText_bracesIn_l2 (ns : List Str) (x : Obj) (hx : x.meta.mergeNames = false) :
    ∀ ind, flatText (bracesIn_l2 ns x) [] ind = bracesText_l2 ns ind (fun i => flatText x [] i) := by
  induction ns with
  | nil => intro ind; rfl
  | cons n ns ih =>
    intro ind
    have hfm : firstMerges [bracesIn_l2 ns x] = false := bracesIn_merge_l2 ns x hx
    rw [bracesIn_l2, flatText, hfm]
    simp only [Bool.false_eq_true, ↓reduceIte, flatKids, List.append_nil, bracesText_l2, dotted_nil]
    rw [ih]

/-! ### nested documents under a layout -/

/-- One item of a nested document together with its layout and its spelling.
    * `defn path d L bang` — the definition `d = (name, words)` under the flat layout `L` (filler in
      front, blanks around `=` and the words, terminator), spelt with the dottedName name
      `p1.….pk.name` when `path = [p1, …, pk]` is not empty; `!` glued in front of the name iff `bang`;
    * `scope path nm bang pre gap kids close` — the scope `nm` (header `p1.….pk.nm {`): `pre` is the
      filler in front of the name (filler lines, then blanks on the line of the name), `!` iff `bang`,
      `gap` what stands between the name and `{` (blanks: `name {`; or filler lines — a newline, blank
      lines, comment lines — and blanks: `name⏎{`), then the items, then `close`: the filler in front
      of `}` (so `}` stands on a line of its own, or behind the last item after `;`, …).  What follows
      `}` belongs to the filler of the next item. -/
inductive LayItem
  | defn (path : List Str) (d : DefSpec) (L : DefLayout) (bang : Bool)
  | scope (path : List Str) (nm : Str) (bang : Bool) (pre gap : Pre) (kids : List LayItem) (close : Pre)

/-- the filler in front of the item's name -/
def LayItem.pre : LayItem → Pre
  | .defn _ _ L _ => L.pre
  | .scope _ _ _ pre _ _ _ => pre

mutual
/-- the text of an item from its name (or `!`) on -/
def LayItem.body : LayItem → Str
  | .defn p d L b => bangText_l2 b ++ defText (dottedName p d.1, d.2) L
  | .scope p nm b _ gap kids close =>
    bangText_l2 b ++ (dottedName p nm ++ (gap.text ++ '{' :: (layItemsText kids ++ (close.text ++ ['}']))))
/-- the text of a list of items -/
def layItemsText : List LayItem → Str
  | [] => []
  | x :: xs => (x.pre.text ++ x.body) ++ layItemsText xs
end

/-- the text of one item: filler, then the body -/
def LayItem.text (x : LayItem) : Str := x.pre.text ++ x.body

/-- the text of a nested document; `post` is the filler after the last item -/
def renderN (xs : List LayItem) (post : Pre) : Str := layItemsText xs ++ post.text

/-- between the name of a scope and `{`: if there are filler lines, the first one must not glue a
    `#` to the name (`name#…` is one word) -/
def gapOK_l2 (g : Pre) : Bool :=
  match g.lines with
  | [] => true
  | f :: _ => !f.ind.isEmpty || f.cmt.isNone

/-- the (possibly dottedName) name of an item: good dot-free components, the whole not reserved -/
def goodPathName_l2 (p : List Str) (nm : Str) : Bool :=
  p.all goodName && goodName nm && !isReserved (dottedName p nm)

mutual
/-- well-formedness of an item; `eofOK`: the item is the last one of its block and `}` (or the end of
    the text) follows on the same line, so that a definition may end with nothing (`Terminator.eof`) -/
def LayItem.wf : LayItem → Bool → Bool
  | .defn p d L _, eofOK =>
    goodPathName_l2 p d.1 && goodDef d && wfDef d L && (!L.term.isEof || eofOK)
  | .scope p nm _ pre gap kids close, _ =>
    goodPathName_l2 p nm && pre.wf && gap.wf && gapOK_l2 gap && close.wf &&
      wfLayItems kids close.lines.isEmpty
/-- well-formedness of a block of items; the flag says that the filler after the block has no lines -/
def wfLayItems : List LayItem → Bool → Bool
  | [], _ => true
  | x :: xs, e => x.wf (xs.isEmpty && e) && wfLayItems xs e
end

/-- well-formed nested document -/
def wfDocN (xs : List LayItem) (post : Pre) : Bool := wfLayItems xs post.lines.isEmpty && post.wf

mutual
/-- number of printed items (= primary ids handed out) of an item: one per definition and per scope
    header; the scopes `scope.adopt` builds for a dottedName name share the id of their item -/
def LayItem.count : LayItem → Nat
  | .defn _ _ _ _ => 1
  | .scope _ _ _ _ _ kids _ => 1 + layCount kids
def layCount : List LayItem → Nat
  | [] => 0
  | x :: xs => x.count + layCount xs
end

mutual
/-- the line on which the text after the item starts, when the item's filler starts on line `l` -/
def LayItem.endLn : LayItem → Nat → Nat
  | .defn _ d L _, l => endLine (l + L.pre.lines.length) d.2 + nlCount L.term.text
  | .scope _ _ _ pre gap kids close, l =>
    layEndLn kids (l + pre.lines.length + gap.lines.length) + close.lines.length
def layEndLn : List LayItem → Nat → Nat
  | [], l => l
  | x :: xs, l => layEndLn xs (x.endLn l)
end

mutual
/-- what the parser builds for an item whose filler starts on line `l`, the next id being `i`: the
    object itself, wrapped (`nestIn`) into the scopes of its dottedName path the way `scope.adopt` does -/
def LayItem.obj : LayItem → Nat → Nat → Obj
  | .defn p d L b, l, i =>
    nestIn (some i) false p
      (.defn { name := d.1, id := some i, disabled := b, line := some (l + L.pre.lines.length),
               mergeNames := !p.isEmpty }
        (reline (l + L.pre.lines.length) d.2))
  | .scope p nm b pre gap kids _, l, i =>
    nestIn (some i) false p
      (.scope { name := nm, id := some i, disabled := b, line := some (l + pre.lines.length),
                mergeNames := !p.isEmpty }
        (layObjs kids (l + pre.lines.length + gap.lines.length) (i + 1)))
def layObjs : List LayItem → Nat → Nat → List Obj
  | [], _, _ => []
  | x :: xs, l, i => x.obj l i :: layObjs xs (x.endLn l) (i + x.count)
end

/-- the filler in front of the first item of a block (or, for the empty block, the filler `tp`
    after it) -/
def firstPreN : List LayItem → Pre → Pre
  | [], tp => tp
  | x :: _, _ => x.pre

/-- the text of a block, its trailing filler `tp` and the following text `X`, from the first name on -/
def afterPreN : List LayItem → Pre → Str → Str
  | [], _, X => X
  | x :: xs, tp, X => x.body ++ (layItemsText xs ++ (tp.text ++ X))

theorem layItems_split_l2 (xs : List LayItem) (tp : Pre) (X : Str) :
    layItemsText xs ++ (tp.text ++ X)
      = linesStr (firstPreN xs tp).lines ++ ((firstPreN xs tp).ind ++ afterPreN xs tp X) := by
  cases xs with
  | nil => simp [layItemsText, firstPreN, afterPreN, Pre.text]
  | cons x rest => simp [layItemsText, firstPreN, afterPreN, Pre.text]

theorem LayItem.count_pos (x : LayItem) : 1 ≤ x.count := by
  cases x <;> simp [LayItem.count]

/-- how a block ends: at the outermost level with the end of the text, inside a scope with `}` -/
def TailOK_l2 (stop : Option Word) (X : Str) : Prop :=
  (stop = none ∧ X = []) ∨ (∃ sw after, stop = some sw ∧ X = '}' :: after)

theorem TailOK_l2.safe {stop : Option Word} {X : Str} (h : TailOK_l2 stop X) : SafeHead_l2 X := by
  rcases h with ⟨_, rfl⟩ | ⟨_, after, _, rfl⟩
  · exact SafeHead_nil_l2
  · exact SafeHead_close_l2 after

theorem TailOK_l2.eofHead {stop : Option Word} {X : Str} (h : TailOK_l2 stop X) : EofHead_l2 X := by
  rcases h with ⟨_, rfl⟩ | ⟨_, after, _, rfl⟩
  · exact Or.inl rfl
  · exact Or.inr ⟨after, rfl⟩

theorem goodPathName_facts_l2 {p : List Str} {nm : Str} (h : goodPathName_l2 p nm = true) :
    GoodPath p ∧ goodName nm = true ∧ isReserved (dottedName p nm) = false ∧ ItemName (dottedName p nm) := by
  simp only [goodPathName_l2, Bool.and_eq_true, Bool.not_eq_true', List.all_eq_true] at h
  obtain ⟨⟨h1, h2⟩, h3⟩ := h
  exact ⟨h1, h2, h3, itemName_dotted h1 h2 h3⟩

theorem itemName_safeHead_l2 {nm : Str} (h : ItemName nm) (rest : Str) : SafeHead_l2 (nm ++ rest) := by
  obtain ⟨c0, w, e, hs, _⟩ := h.chars
  apply SafeHead_of_NameHead_l2
  intro c t ec
  simp only [e, List.cons_append, List.cons.injEq] at ec
  rw [← ec.1]
  exact idStart_cont hs

theorem bang_name_safeHead_l2 (b : Bool) {nm : Str} (h : ItemName nm) (rest : Str) :
    SafeHead_l2 (bangText_l2 b ++ (nm ++ rest)) := by
  cases b with
  | true => exact SafeHead_bang_l2 _
  | false => exact itemName_safeHead_l2 h rest

theorem itemName_nlCount_l2 {nm : Str} (h : ItemName nm) : nlCount nm = 0 := by
  obtain ⟨c, w, rfl, _, hall⟩ := h.chars
  exact nlCount_of_no_nl _ (fun d hd => ne_nl_of_not_space (idCont_not_space (hall d hd)))

theorem LayItem.body_safe (x : LayItem) (e : Bool) (h : x.wf e = true) (rest : Str) :
    SafeHead_l2 (x.body ++ rest) := by
  cases x with
  | defn p d L b =>
    simp only [LayItem.wf, Bool.and_eq_true] at h
    obtain ⟨_, _, _, hit⟩ := goodPathName_facts_l2 h.1.1.1
    have : (LayItem.defn p d L b).body ++ rest
        = bangText_l2 b ++ (dottedName p d.1 ++ (L.sp1 ++ '=' :: (wordsLay L.gaps d.2 ++ L.term.text) ++ rest)) := by
      simp [LayItem.body, defText]
    rw [this]
    exact bang_name_safeHead_l2 b hit _
  | scope p nm b pre gap kids close =>
    simp only [LayItem.wf, Bool.and_eq_true] at h
    obtain ⟨_, _, _, hit⟩ := goodPathName_facts_l2 h.1.1.1.1.1
    have : (LayItem.scope p nm b pre gap kids close).body ++ rest
        = bangText_l2 b ++ (dottedName p nm ++ ((gap.text ++ '{' :: (layItemsText kids ++ (close.text ++ ['}']))) ++ rest)) := by
      simp [LayItem.body]
    rw [this]
    exact bang_name_safeHead_l2 b hit _

theorem afterPreN_safe_l2 (xs : List LayItem) (e : Bool) (tp : Pre) (X : Str)
    (hwf : wfLayItems xs e = true) (hX : SafeHead_l2 X) : SafeHead_l2 (afterPreN xs tp X) := by
  cases xs with
  | nil => exact hX
  | cons x rest =>
    simp only [wfLayItems, Bool.and_eq_true] at hwf
    exact x.body_safe _ hwf.1 _

theorem LayItem.pre_wf (x : LayItem) (e : Bool) (h : x.wf e = true) : x.pre.wf = true := by
  cases x with
  | defn p d L b =>
    simp only [LayItem.wf, Bool.and_eq_true, wfDef] at h
    exact h.1.2.1.1.1
  | scope p nm b pre gap kids close =>
    simp only [LayItem.wf, Bool.and_eq_true] at h
    exact h.1.1.1.1.2

theorem firstPreN_wf_l2 (xs : List LayItem) (e : Bool) (tp : Pre)
    (hwf : wfLayItems xs e = true) (htp : tp.wf = true) : (firstPreN xs tp).wf = true := by
  cases xs with
  | nil => exact htp
  | cons x rest =>
    simp only [wfLayItems, Bool.and_eq_true] at hwf
    exact x.pre_wf _ hwf.1

/-- `scope.adopt` on an object with the dottedName name `p1.….pk.nm` -/
theorem wrapDotted_defn_l2 (p : List Str) (nm : Str) (hp : GoodPath p) (hn : goodName nm = true)
    (i : Option Nat) (b : Bool) (ln : Option Nat) (ws : List Word) :
    wrapDotted (.defn { name := dottedName p nm, id := i, disabled := b, line := ln } ws)
      = nestIn i false p (.defn { name := nm, id := i, disabled := b, line := ln,
                                  mergeNames := !p.isEmpty } ws) := by
  rw [wrapDotted_dotted _ p nm rfl (fun n hn' => (hp.snoc hn).noDots n hn') rfl]
  rfl

theorem wrapDotted_scope_l2 (p : List Str) (nm : Str) (hp : GoodPath p) (hn : goodName nm = true)
    (i : Option Nat) (b : Bool) (ln : Option Nat) (os : List Obj) :
    wrapDotted (.scope { name := dottedName p nm, id := i, disabled := b, line := ln } os)
      = nestIn i false p (.scope { name := nm, id := i, disabled := b, line := ln,
                                   mergeNames := !p.isEmpty } os) := by
  rw [wrapDotted_dotted _ p nm rfl (fun n hn' => (hp.snoc hn).noDots n hn') rfl]
  rfl

/-! #### the scope header -/

/-- One turn of `collect_objects` for `!name {`: as `collectObjects_scope_step`, the lead word being
    `!` glued to the scope name: the scope is created disabled. -/
theorem collectObjects_bang_scope_step_l2 (fuel : Nat) (st : PState) (stop : Option Word)
    (prevLine : Nat) (acc : List Obj) (pending : Option Obj) (lead br : Word) (ci1 ci2 : CI) (nm : Str)
    (h1 : nextWord structSettings st.ci = .ok (some (lead, ci1)))
    (hlq : lead.quote = none) (hv : lead.value = '!' :: nm)
    (hstd : isStdIdent nm = true) (hres : reservedName false nm = false)
    (h2 : nextWord structSettings ci1 = .ok (some (br, ci2)))
    (hbq : br.quote = none) (hbv : br.value = ['{']) :
    collectObjects (fuel + 1) st stop prevLine acc pending
      = scopeCont fuel stop (lead.line.getD 0) acc pending
          { name := nm, id := some st.nextId, disabled := true, line := lead.line }
          (collectObjects fuel { ci := ci2, nextId := st.nextId + 1 } (some br) 0 [] none) := by
  have hsb := stripBang_bang_l2 lead nm hv
  have e1 := tryPopUnquoted_of_next h1 hlq
  have e2 := pop_of_next h2
  have b1 : ¬ lead.value = ['#', 'p', 'h', 'i', 'l'] := by rw [hv]; simp
  have b2 : ¬ lead.value = ['}'] := by rw [hv]; simp
  have b3 : ¬ lead.value = ['{'] := by rw [hv]; simp
  have hloop : scopeAttrsLoop (ci2.rest.length + 2) ci2 br [] = .ok ([], br, ci2) := by
    simp [scopeAttrsLoop, hbv]
  cases stop <;>
    simp [collectObjects, e1, e2, b1, b2, b3, hsb, hstd, hres, hbq, hbv, hloop, scopeCont] <;>
    rfl

/-- the closing brace, from what the structure tokenizer reads -/
theorem collectObjects_close_l2 (fuel : Nat) (st : PState) (sw w : Word) (ci1 : CI) (prevLine : Nat)
    (acc : List Obj) (pending : Option Obj)
    (h1 : nextWord structSettings st.ci = .ok (some (w, ci1))) (hq : w.quote = none)
    (hv : w.value = ['}']) :
    collectObjects (fuel + 1) st (some sw) prevLine acc pending
      = .ok (flush acc pending, { st with ci := ci1 }) := by
  have e1 := tryPopUnquoted_of_next h1 hq
  simp [collectObjects, e1, hv]

theorem gap_stops_l2 (g : Pre) (V : Str) (hg : g.wf = true) (hok : gapOK_l2 g = true) :
    stopsAt structSettings (g.text ++ '{' :: V) = true := by
  simp only [Pre.wf, Bool.and_eq_true] at hg
  unfold gapOK_l2 at hok
  cases hl : g.lines with
  | nil =>
    rw [Pre.text, hl]
    simp only [linesStr, List.nil_append]
    exact stopsAt_space_append _ _ _ (inlineB_space hg.2) (by rfl)
  | cons f fs =>
    rw [hl] at hok hg
    simp only [] at hok
    simp only [List.all_cons, Bool.and_eq_true, FillLine.wf] at hg
    rw [Pre.text, hl, linesStr, FillLine.text]
    cases hfi : f.ind with
    | cons d ds =>
      have hd : isSpace d = true := inlineB_space hg.1.1.1 d (by rw [hfi]; simp)
      simp [stopsAt, endsUnquoted, hd]
    | nil =>
      rw [hfi] at hok
      simp only [List.isEmpty_nil, Bool.not_true, Bool.false_or, Option.isNone_iff_eq_none] at hok
      rw [hok]
      simp [cmtText, stopsAt, endsUnquoted, isSpace_nl]

/-- the scope built for a header: ids, flag and line as the parser sets them -/
theorem scope_header_turn_l2 (nm : Str) (b : Bool) (ind : Str) (gap : Pre) (V : Str)
    (hit : ItemName nm) (hind : inlineB ind = true) (hgap : gap.wf = true)
    (hgok : gapOK_l2 gap = true)
    (fuel : Nat) (st : PState) (stop : Option Word) (prevLine : Nat) (acc : List Obj)
    (pending : Option Obj) (l0 : Nat)
    (hci : nextWord structSettings st.ci
      = nextWordAux structSettings false (ind ++ (bangText_l2 b ++ (nm ++ (gap.text ++ '{' :: V)))) l0) :
    collectObjects (fuel + 1) st stop prevLine acc pending
      = scopeCont fuel stop l0 acc pending
          { name := nm, id := some st.nextId, disabled := b, line := some l0 }
          (collectObjects fuel { ci := ⟨V, l0 + gap.lines.length⟩, nextId := st.nextId + 1 }
            (some { value := ['{'], quote := none, line := some (l0 + gap.lines.length) }) 0 [] none) := by
  have h1 : nextWord structSettings st.ci
      = .ok (some ({ value := bangText_l2 b ++ nm, quote := none, line := some l0 },
          ⟨gap.text ++ '{' :: V, l0⟩)) := by
    rw [hci, nextWordAux_skip structSettings _ _ (inlineB_space hind), inlineB_nl hind, Nat.add_zero]
    exact nextWordAux_bang_name_gen_l2 b nm _ l0 hit (gap_stops_l2 gap V hgap hgok)
  have hgap' := hgap
  simp only [Pre.wf, Bool.and_eq_true] at hgap'
  have h2 : nextWord structSettings ⟨gap.text ++ '{' :: V, l0⟩
      = .ok (some ({ value := ['{'], quote := none, line := some (l0 + gap.lines.length) },
          ⟨V, l0 + gap.lines.length⟩)) := by
    have := nextWord_struct_open gap.ind V (l0 + gap.lines.length) (inlineB_space hgap'.2)
    rw [inlineB_nl hgap'.2, Nat.add_zero] at this
    rw [← this]
    unfold nextWord
    simp only [Pre.text, List.append_assoc]
    rw [struct_skip_lines _ hgap'.1]
  cases b with
  | false =>
    exact collectObjects_scope_step fuel st stop prevLine acc pending _ _ _ _ h1 rfl hit.defName
      hit.stdIdent hit.notReserved h2 rfl rfl
  | true =>
    exact collectObjects_bang_scope_step_l2 fuel st stop prevLine acc pending _ _ _ _ nm h1 rfl rfl
      hit.stdIdent hit.notReserved h2 rfl rfl

/-! #### `collect_objects` over a nested document under a layout -/

/-- one turn of `collect_objects` (with the recursive call, for a scope) over one item.  The structure
    tokenizer is (as good as) at the blanks in front of the item's name; behind the item come filler
    lines `ls`, blanks `ind'` and the next construct `X'`.  The object `x.obj l i` is added to the
    objects of the enclosing scope, `x.count` ids are used, and the tokenizer is at `ind' ++ X'`. -/
def ItemTurn_l2 (x : LayItem) : Prop :=
  ∀ (eofOK : Bool) (fuel : Nat) (st : PState) (l prevLine : Nat) (acc : List Obj)
    (pending : Option Obj) (stop : Option Word) (ls : List FillLine) (ind' X' : Str),
    x.wf eofOK = true → (eofOK = true → ls = [] ∧ EofHead_l2 X') →
    ls.all FillLine.wf = true → inlineB ind' = true → SafeHead_l2 X' →
    x.count ≤ fuel →
    nextWord structSettings st.ci
      = nextWordAux structSettings false (x.pre.ind ++ (x.body ++ (linesStr ls ++ (ind' ++ X'))))
          (l + x.pre.lines.length) →
    ∃ st1 acc1 pending1 prevLine1,
      collectObjects (fuel + 1) st stop prevLine acc pending
        = collectObjects fuel st1 stop prevLine1 acc1 pending1 ∧
      flush acc1 pending1 = flush acc pending ++ [x.obj l st.nextId] ∧
      st1.nextId = st.nextId + x.count ∧
      nextWord structSettings st1.ci
        = nextWordAux structSettings false (ind' ++ X') (x.endLn l + ls.length)

/-- `collect_objects` over a block of items up to its end (`}` or the end of the text) -/
def BlockRun_l2 (xs : List LayItem) : Prop :=
  ∀ (fuel : Nat) (st : PState) (l prevLine : Nat) (acc : List Obj) (pending : Option Obj)
    (stop : Option Word) (tp : Pre) (X : Str),
    wfLayItems xs tp.lines.isEmpty = true → tp.wf = true → TailOK_l2 stop X →
    layCount xs + 1 ≤ fuel →
    nextWord structSettings st.ci
      = nextWordAux structSettings false ((firstPreN xs tp).ind ++ afterPreN xs tp X)
          (l + (firstPreN xs tp).lines.length) →
    ∃ st', collectObjects fuel st stop prevLine acc pending
        = .ok (flush acc pending ++ layObjs xs l st.nextId, st') ∧
      st'.nextId = st.nextId + layCount xs ∧
      (∀ after, X = '}' :: after → st'.ci = ⟨after, layEndLn xs l + tp.lines.length⟩)

theorem itemTurn_defn_l2 (p : List Str) (d : DefSpec) (L : DefLayout) (b : Bool) :
    ItemTurn_l2 (.defn p d L b) := by
  intro eofOK fuel st l prevLine acc pending stop ls ind' X' hwf heof hls hind' hX hf hci
  simp only [LayItem.wf, Bool.and_eq_true, Bool.or_eq_true, Bool.not_eq_true'] at hwf
  obtain ⟨⟨⟨hpn, hgd⟩, hwd⟩, he⟩ := hwf
  obtain ⟨hp, hn, _, hit⟩ := goodPathName_facts_l2 hpn
  obtain ⟨_, hne, hgood, hchain⟩ := goodDef_good hgd
  simp only [wfDef, Bool.and_eq_true, Pre.wf] at hwd
  obtain ⟨⟨⟨⟨_, hpi⟩, hsp1⟩, hgaps⟩, hterm⟩ := hwd
  obtain ⟨ci4, hstep, hnext⟩ := defn_turn_l2 (dottedName p d.1, d.2) L b L.pre.ind ls ind' X' hit hne hgood
    hchain hpi hsp1 hgaps hterm hls hind' hX
    (by
      intro hte
      rcases he with he | he
      · rw [hte] at he; cases he
      · exact heof he)
    fuel st stop prevLine acc pending (l + L.pre.lines.length)
    (by
      rw [hci]
      simp [LayItem.pre, LayItem.body])
  refine ⟨{ ci := ci4, nextId := st.nextId + 1 }, flush acc pending, _, _, hstep, ?_, rfl, hnext⟩
  simp only [flush, adopt, LayItem.obj]
  rw [wrapDotted_defn_l2 p d.1 hp hn]

theorem itemTurn_scope_l2 (p : List Str) (nm : Str) (b : Bool) (pre gap : Pre) (kids : List LayItem)
    (close : Pre) (ih : BlockRun_l2 kids) : ItemTurn_l2 (.scope p nm b pre gap kids close) := by
  intro eofOK fuel st l prevLine acc pending stop ls ind' X' hwf _ hls hind' hX hf hci
  simp only [LayItem.wf, Bool.and_eq_true] at hwf
  obtain ⟨⟨⟨⟨⟨hpn, hpre⟩, hgap⟩, hgok⟩, hclose⟩, hkids⟩ := hwf
  obtain ⟨hp, hn, _, hit⟩ := goodPathName_facts_l2 hpn
  have hpre' := hpre
  simp only [Pre.wf, Bool.and_eq_true] at hpre'
  have hfk : layCount kids + 1 ≤ fuel := by
    simp only [LayItem.count] at hf; omega
  -- the header
  have hhead := scope_header_turn_l2 (dottedName p nm) b pre.ind gap
    (layItemsText kids ++ (close.text ++ ('}' :: (linesStr ls ++ (ind' ++ X')))))
    hit hpre'.2 hgap hgok fuel st stop prevLine acc pending (l + pre.lines.length)
    (by
      rw [hci]
      simp [LayItem.pre, LayItem.body])
  -- the body
  have hfp := firstPreN_wf_l2 kids _ close hkids hclose
  simp only [Pre.wf, Bool.and_eq_true] at hfp
  obtain ⟨st', hrun, hnid, hci'⟩ := ih fuel
    { ci := ⟨layItemsText kids ++ (close.text ++ ('}' :: (linesStr ls ++ (ind' ++ X')))),
             l + pre.lines.length + gap.lines.length⟩, nextId := st.nextId + 1 }
    (l + pre.lines.length + gap.lines.length) 0 [] none
    (some { value := ['{'], quote := none, line := some (l + pre.lines.length + gap.lines.length) })
    close ('}' :: (linesStr ls ++ (ind' ++ X'))) hkids hclose (Or.inr ⟨_, _, rfl, rfl⟩) hfk
    (by
      unfold nextWord
      simp only []
      rw [layItems_split_l2, struct_skip_lines _ hfp.1])
  have hci'' := hci' _ rfl
  refine ⟨st', adopt (flush acc pending)
      (.scope { name := dottedName p nm, id := some st.nextId, disabled := b,
                line := some (l + pre.lines.length) }
        (layObjs kids (l + pre.lines.length + gap.lines.length) (st.nextId + 1))),
    none, l + pre.lines.length, ?_, ?_, ?_, ?_⟩
  · rw [hhead, hrun]
    simp [scopeCont, flush]
  · simp only [flush, adopt, LayItem.obj]
    rw [wrapDotted_scope_l2 p nm hp hn]
  · rw [hnid]; simp only [LayItem.count]; omega
  · rw [hci'']
    unfold nextWord
    simp only [LayItem.endLn]
    rw [struct_skip_lines _ hls]

theorem blockRun_nil_l2 : BlockRun_l2 [] := by
  intro fuel st l prevLine acc pending stop tp X _ htp htail hf hci
  obtain ⟨f, rfl⟩ : ∃ f, fuel = f + 1 := ⟨fuel - 1, by simp [layCount] at hf; omega⟩
  simp only [Pre.wf, Bool.and_eq_true] at htp
  simp only [firstPreN, afterPreN] at hci
  rcases htail with ⟨rfl, rfl⟩ | ⟨sw, after, rfl, rfl⟩
  · refine ⟨st, ?_, by simp [layCount], by intro after e; cases e⟩
    rw [collectObjects_end f st prevLine acc pending (by
      rw [hci, List.append_nil]
      exact nextWordAux_blank_eof structSettings _ _ (inlineB_space htp.2))]
    simp [layObjs]
  · have h1 : nextWord structSettings st.ci
        = .ok (some ({ value := ['}'], quote := none, line := some (l + tp.lines.length) },
            ⟨after, l + tp.lines.length⟩)) := by
      rw [hci]
      have := nextWord_struct_close tp.ind after (l + tp.lines.length) (inlineB_space htp.2)
      rw [inlineB_nl htp.2, Nat.add_zero] at this
      exact this
    refine ⟨{ st with ci := ⟨after, l + tp.lines.length⟩ }, ?_, by simp [layCount], ?_⟩
    · rw [collectObjects_close_l2 f st sw _ _ prevLine acc pending h1 rfl rfl]
      simp [layObjs]
    · intro after' e
      simp only [List.cons.injEq, true_and] at e
      subst e
      simp [layEndLn]

theorem blockRun_cons_l2 (x : LayItem) (xs : List LayItem) (hx : ItemTurn_l2 x) (hxs : BlockRun_l2 xs) :
    BlockRun_l2 (x :: xs) := by
  intro fuel st l prevLine acc pending stop tp X hwf htp htail hf hci
  simp only [wfLayItems, Bool.and_eq_true] at hwf
  obtain ⟨hwx, hwxs⟩ := hwf
  obtain ⟨f, rfl⟩ : ∃ f, fuel = f + 1 := ⟨fuel - 1, by omega⟩
  have hcp := x.count_pos
  have hfx : x.count ≤ f := by simp only [layCount] at hf; omega
  have hfxs : layCount xs + 1 ≤ f := by simp only [layCount] at hf; omega
  have hfp := firstPreN_wf_l2 xs _ tp hwxs htp
  simp only [Pre.wf, Bool.and_eq_true] at hfp
  obtain ⟨st1, acc1, pending1, prevLine1, hstep, hflush, hnid, hnext⟩ :=
    hx (xs.isEmpty && tp.lines.isEmpty) f st l prevLine acc pending stop (firstPreN xs tp).lines
      (firstPreN xs tp).ind (afterPreN xs tp X) hwx
      (by
        intro he
        simp only [Bool.and_eq_true, List.isEmpty_iff] at he
        obtain ⟨rfl, hl⟩ := he
        exact ⟨by simpa [firstPreN] using hl, htail.eofHead⟩)
      hfp.1 hfp.2 (afterPreN_safe_l2 xs _ tp X hwxs htail.safe) hfx
      (by
        rw [hci, ← layItems_split_l2]
        simp [firstPreN, afterPreN])
  obtain ⟨st', hrun, hnid', hci'⟩ := hxs f st1 (x.endLn l) prevLine1 acc1 pending1 stop tp X hwxs htp
    htail hfxs hnext
  refine ⟨st', ?_, ?_, ?_⟩
  · rw [hstep, hrun, hflush, hnid]
    simp [layObjs]
  · rw [hnid', hnid]; simp only [layCount]; omega
  · intro after e
    rw [hci' after e]
    simp [layEndLn]

/-- every item is read by one turn, every block by a run -/
theorem itemTurn_all_l2 (x : LayItem) : ItemTurn_l2 x := by
  induction x using LayItem.rec (motive_2 := fun xs => BlockRun_l2 xs) with
  | defn p d L b => exact itemTurn_defn_l2 p d L b
  | scope p nm b pre gap kids close ih => exact itemTurn_scope_l2 p nm b pre gap kids close ih
  | nil => exact blockRun_nil_l2
  | cons x xs ihx ihxs => exact blockRun_cons_l2 x xs ihx ihxs

theorem blockRun_all_l2 (xs : List LayItem) : BlockRun_l2 xs := by
  induction xs with
  | nil => exact blockRun_nil_l2
  | cons x xs ih => exact blockRun_cons_l2 x xs (itemTurn_all_l2 x) ih

theorem layCount_le_text_l2 (x : LayItem) : x.count ≤ x.body.length := by
  induction x using LayItem.rec (motive_2 := fun xs => layCount xs ≤ (layItemsText xs).length) with
  | defn p d L b => simp [LayItem.count, LayItem.body, defText]; omega
  | scope p nm b pre gap kids close ih =>
    simp only [LayItem.count, LayItem.body, List.length_append, List.length_cons]
    omega
  | nil => simp [layCount]
  | cons x xs ihx ihxs =>
    simp only [layCount, layItemsText, List.length_append]
    omega

theorem layCountList_le_text_l2 (xs : List LayItem) : layCount xs ≤ (layItemsText xs).length := by
  induction xs with
  | nil => simp [layCount]
  | cons x xs ih =>
    have := layCount_le_text_l2 x
    simp only [layCount, layItemsText, List.length_append]
    omega

/-- **`parse` of a nested document under a layout** -/
theorem parseObjs_renderN_l2 (xs : List LayItem) (post : Pre) (h : wfDocN xs post = true) :
    parseObjs (renderN xs post) = .ok (layObjs xs 1 1) := by
  simp only [wfDocN, Bool.and_eq_true] at h
  obtain ⟨hwf, hpost⟩ := h
  have hfp := firstPreN_wf_l2 xs _ post hwf hpost
  simp only [Pre.wf, Bool.and_eq_true] at hfp
  have hlen : layCount xs + 1 ≤ (renderN xs post).length + 2 := by
    have := layCountList_le_text_l2 xs
    simp only [renderN, List.length_append]; omega
  obtain ⟨st', hrun, _, _⟩ := blockRun_all_l2 xs _ { ci := ⟨renderN xs post, 1⟩, nextId := 1 } 1 0 []
    none none post [] hwf hpost (Or.inl ⟨rfl, rfl⟩) hlen
    (by
      unfold nextWord
      simp only [renderN]
      have := layItems_split_l2 xs post []
      rw [List.append_nil] at this
      rw [this, struct_skip_lines _ hfp.1])
  unfold parseObjs
  rw [hrun]
  simp [flush]

/-! #### the abstract tree of a nested layout; ids -/

mutual
/-- the abstract tree of an item: names, dottedName-chain structure, `!` flags, words — nothing of the
    layout, no ids, no lines -/
def LayItem.tree : LayItem → Obj
  | .defn p d _ b => nestIn none false p (.defn { name := d.1, disabled := b, mergeNames := !p.isEmpty } d.2)
  | .scope p nm b _ _ kids _ =>
    nestIn none false p (.scope { name := nm, disabled := b, mergeNames := !p.isEmpty } (layTrees kids))
def layTrees : List LayItem → List Obj
  | [] => []
  | x :: xs => x.tree :: layTrees xs
end

theorem layObj_erase_l2 (x : LayItem) : ∀ l i, (x.obj l i).erase = x.tree.erase := by
  induction x using LayItem.rec
    (motive_2 := fun xs => ∀ l i, eraseList (layObjs xs l i) = eraseList (layTrees xs)) with
  | defn p d L b =>
    intro l i
    rw [LayItem.obj, LayItem.tree, nestIn_erase, nestIn_erase]
    simp [Obj.erase, reline_erase, Meta.erase]
  | scope p nm b pre gap kids close ih =>
    intro l i
    rw [LayItem.obj, LayItem.tree, nestIn_erase, nestIn_erase, Obj.erase_scope, Obj.erase_scope, ih]
    rfl
  | nil => rfl
  | cons x xs ihx ihxs =>
    rename_i l i
    rw [layObjs, layTrees, eraseList_cons, eraseList_cons, ihx, ihxs]

theorem layObjs_erase_l2 (xs : List LayItem) : ∀ l i,
    eraseList (layObjs xs l i) = eraseList (layTrees xs) := by
  induction xs with
  | nil => intro l i; rfl
  | cons x xs ih =>
    intro l i
    rw [layObjs, layTrees, eraseList_cons, eraseList_cons, layObj_erase_l2, ih]

/-- the outermost object of an item's tree never merges its name -/
theorem layTree_merge_l2 (x : LayItem) : x.tree.meta.mergeNames = false := by
  cases x with
  | defn p d L b => rw [LayItem.tree]; cases p <;> rfl
  | scope p nm b pre gap kids close => rw [LayItem.tree]; cases p <;> rfl

theorem layTrees_firstMerges_l2 (xs : List LayItem) : firstMerges (layTrees xs) = false := by
  cases xs with
  | nil => rfl
  | cons x xs => exact layTree_merge_l2 x

/-- ids and item count of a dottedName chain: the scopes share the id of the item -/
theorem expIds_nestIn_l2 (id : Option Nat) (i : Nat) (p : List Str) (y : Obj) : ∀ b,
    (p ≠ [] → y.meta.mergeNames = true) →
    expIds i (nestIn id b p y) = List.replicate p.length i ++ expIds i y ∧
    (nestIn id b p y).items = y.items := by
  induction p with
  | nil => intro b _; exact ⟨rfl, rfl⟩
  | cons n ns ih =>
    intro b hy
    have hfm : firstMerges [nestIn id true ns y] = true :=
      nestIn_merge_l2 id true ns y (hy (by simp))
    obtain ⟨h1, h2⟩ := ih true (fun _ => hy (by simp))
    constructor
    · rw [nestIn, expIds, hfm]
      simp only [↓reduceIte, expIdsSame, List.append_nil, h1, List.length_cons, List.replicate_succ,
        List.cons_append]
    · rw [nestIn, Obj.items, hfm]
      simp only [↓reduceIte, itemsList, h2, Nat.add_zero]

theorem layObj_ids_l2 (x : LayItem) : ∀ l i,
    (x.obj l i).ids = (expIds i x.tree).map some ∧ x.count = x.tree.items := by
  induction x using LayItem.rec
    (motive_2 := fun xs => ∀ l i, idsList (layObjs xs l i) = (expIdsSeq i (layTrees xs)).map some ∧
      layCount xs = itemsList (layTrees xs)) with
  | defn p d L b =>
    intro l i
    obtain ⟨h1, h2⟩ := expIds_nestIn_l2 none i p
      (.defn { name := d.1, disabled := b, mergeNames := !p.isEmpty } d.2) false
      (by intro hne; cases p with
        | nil => exact absurd rfl hne
        | cons _ _ => rfl)
    rw [LayItem.obj, LayItem.tree, nestIn_ids, h1, h2]
    simp [Obj.ids, expIds, Obj.items, LayItem.count]
  | scope p nm b pre gap kids close ih =>
    intro l i
    obtain ⟨k1, k2⟩ := ih (l + pre.lines.length + gap.lines.length) (i + 1)
    obtain ⟨h1, h2⟩ := expIds_nestIn_l2 none i p
      (.scope { name := nm, disabled := b, mergeNames := !p.isEmpty } (layTrees kids)) false
      (by intro hne; cases p with
        | nil => exact absurd rfl hne
        | cons _ _ => rfl)
    rw [LayItem.obj, LayItem.tree, nestIn_ids, h1, h2]
    simp only [Obj.ids, expIds, Obj.items, layTrees_firstMerges_l2, Bool.false_eq_true, ↓reduceIte,
      LayItem.count, k1, k2]
    simp
  | nil => exact ⟨rfl, rfl⟩
  | cons x xs ihx ihxs =>
    rename_i l i
    obtain ⟨a1, a2⟩ := ihx l i
    obtain ⟨b1, b2⟩ := ihxs (x.endLn l) (i + x.count)
    constructor
    · rw [layObjs, idsList, a1, b1, layTrees, expIdsSeq, a2]; simp
    · rw [layCount, layTrees, itemsList, a2, b2]

theorem layObjs_ids_l2 (xs : List LayItem) : ∀ l i,
    idsList (layObjs xs l i) = (expIdsSeq i (layTrees xs)).map some := by
  induction xs with
  | nil => intro l i; rfl
  | cons x xs ih =>
    intro l i
    obtain ⟨a1, a2⟩ := layObj_ids_l2 x l i
    rw [layObjs, idsList, a1, ih, layTrees, expIdsSeq, a2]; simp

/-! #### `!` in nested documents -/

mutual
/-- the item without any `!` -/
def LayItem.unbang : LayItem → LayItem
  | .defn p d L _ => .defn p d L false
  | .scope p nm _ pre gap kids close => .scope p nm false pre gap (layUnbang kids) close
def layUnbang : List LayItem → List LayItem
  | [] => []
  | x :: xs => x.unbang :: layUnbang xs
end

mutual
/-- the `!` flags of an item, one per object of its tree in document order (a scope before its items);
    the scopes built for the leading components of a dottedName name are never disabled -/
def LayItem.flags : LayItem → List Bool
  | .defn p _ _ b => List.replicate p.length false ++ [b]
  | .scope p _ b _ _ kids _ => List.replicate p.length false ++ b :: layFlags kids
def layFlags : List LayItem → List Bool
  | [] => []
  | x :: xs => x.flags ++ layFlags xs
end

mutual
/-- the tree with `is_disabled = False` on every object; nothing else is changed -/
def Obj.enableAll : Obj → Obj
  | .defn m ws => .defn { m with disabled := false } ws
  | .scope m os => .scope { m with disabled := false } (enableAllList os)
def enableAllList : List Obj → List Obj
  | [] => []
  | x :: xs => x.enableAll :: enableAllList xs
end

mutual
/-- the `is_disabled` flags of a tree in document order (a scope before its children) -/
def Obj.disabledFlags : Obj → List Bool
  | .defn m _ => [m.disabled]
  | .scope m os => m.disabled :: disabledFlagsList os
def disabledFlagsList : List Obj → List Bool
  | [] => []
  | x :: xs => x.disabledFlags ++ disabledFlagsList xs
end

theorem enableAll_nestIn_l2 (id : Option Nat) (p : List Str) (y : Obj) : ∀ b,
    (nestIn id b p y).enableAll = nestIn id b p y.enableAll := by
  induction p with
  | nil => intro b; rfl
  | cons n ns ih => intro b; rw [nestIn, Obj.enableAll, enableAllList, enableAllList, ih]; rfl

theorem disabledFlags_nestIn_l2 (id : Option Nat) (p : List Str) (y : Obj) : ∀ b,
    (nestIn id b p y).disabledFlags = List.replicate p.length false ++ y.disabledFlags := by
  induction p with
  | nil => intro b; rfl
  | cons n ns ih =>
    intro b
    rw [nestIn, Obj.disabledFlags, disabledFlagsList, disabledFlagsList, ih]
    simp [List.replicate_succ]

theorem unbang_facts_l2 (x : LayItem) :
    x.unbang.count = x.count ∧ (∀ l, x.unbang.endLn l = x.endLn l) ∧
    (∀ e, x.unbang.wf e = x.wf e) ∧ x.unbang.pre = x.pre := by
  induction x using LayItem.rec
    (motive_2 := fun xs => layCount (layUnbang xs) = layCount xs ∧
      (∀ l, layEndLn (layUnbang xs) l = layEndLn xs l) ∧
      (∀ e, wfLayItems (layUnbang xs) e = wfLayItems xs e) ∧
      (layUnbang xs).isEmpty = xs.isEmpty) with
  | defn p d L b => exact ⟨rfl, fun _ => rfl, fun _ => rfl, rfl⟩
  | scope p nm b pre gap kids close ih =>
    obtain ⟨h1, h2, h3, _⟩ := ih
    refine ⟨?_, ?_, ?_, rfl⟩
    · rw [LayItem.unbang, LayItem.count, LayItem.count, h1]
    · intro l; rw [LayItem.unbang, LayItem.endLn, LayItem.endLn, h2]
    · intro e; rw [LayItem.unbang, LayItem.wf, LayItem.wf, h3]
  | nil => exact ⟨rfl, fun _ => rfl, fun _ => rfl, rfl⟩
  | cons x xs ihx ihxs =>
    obtain ⟨a1, a2, a3, _⟩ := ihx
    obtain ⟨b1, b2, b3, b4⟩ := ihxs
    refine ⟨?_, ?_, ?_, rfl⟩
    · rw [layUnbang, layCount, layCount, a1, b1]
    · intro l; rw [layUnbang, layEndLn, layEndLn, a2, b2]
    · intro e; rw [layUnbang, wfLayItems, wfLayItems, a3, b3, b4]

theorem layUnbang_wf_l2 (xs : List LayItem) (e : Bool) :
    wfLayItems (layUnbang xs) e = wfLayItems xs e := by
  induction xs with
  | nil => rfl
  | cons x xs ih =>
    have hx := (unbang_facts_l2 x).2.2.1
    have he : (layUnbang xs).isEmpty = xs.isEmpty := by cases xs <;> rfl
    rw [layUnbang, wfLayItems, wfLayItems, hx, ih, he]

/-- the tree of the text without any `!` is the tree of the text with them, all objects enabled -/
theorem layObj_unbang_l2 (x : LayItem) : ∀ l i, x.unbang.obj l i = (x.obj l i).enableAll := by
  induction x using LayItem.rec
    (motive_2 := fun xs => ∀ l i, layObjs (layUnbang xs) l i = enableAllList (layObjs xs l i)) with
  | defn p d L b => intro l i; rw [LayItem.unbang, LayItem.obj, LayItem.obj, enableAll_nestIn_l2]; rfl
  | scope p nm b pre gap kids close ih =>
    intro l i
    rw [LayItem.unbang, LayItem.obj, LayItem.obj, enableAll_nestIn_l2, Obj.enableAll, ih]
  | nil => rfl
  | cons x xs ihx ihxs =>
    rename_i l i
    obtain ⟨c1, c2, _, _⟩ := unbang_facts_l2 x
    rw [layUnbang, layObjs, layObjs, enableAllList, ihx, c1, c2, ihxs]

theorem layObjs_unbang_l2 (xs : List LayItem) : ∀ l i,
    layObjs (layUnbang xs) l i = enableAllList (layObjs xs l i) := by
  induction xs with
  | nil => intro l i; rfl
  | cons x xs ih =>
    intro l i
    obtain ⟨c1, c2, _, _⟩ := unbang_facts_l2 x
    rw [layUnbang, layObjs, layObjs, enableAllList, layObj_unbang_l2, c1, c2, ih]

/-- the objects disabled are exactly those whose name carries a `!` -/
theorem layObj_flags_l2 (x : LayItem) : ∀ l i, (x.obj l i).disabledFlags = x.flags := by
  induction x using LayItem.rec
    (motive_2 := fun xs => ∀ l i, disabledFlagsList (layObjs xs l i) = layFlags xs) with
  | defn p d L b => intro l i; rw [LayItem.obj, disabledFlags_nestIn_l2, LayItem.flags]; rfl
  | scope p nm b pre gap kids close ih =>
    intro l i
    rw [LayItem.obj, disabledFlags_nestIn_l2, Obj.disabledFlags, ih, LayItem.flags]
  | nil => rfl
  | cons x xs ihx ihxs =>
    rename_i l i
    rw [layObjs, disabledFlagsList, ihx, ihxs, layFlags]

theorem layObjs_flags_l2 (xs : List LayItem) : ∀ l i,
    disabledFlagsList (layObjs xs l i) = layFlags xs := by
  induction xs with
  | nil => intro l i; rfl
  | cons x xs ih =>
    intro l i
    rw [layObjs, disabledFlagsList, layObj_flags_l2, ih, layFlags]

/-! #### without `!` the abstract trees are `RTTree`s -/

theorem not_isEmpty_nil_l2 : (!([] : List Str).isEmpty) = false := rfl

theorem layTree_rt_l2 (x : LayItem) : ∀ e, x.wf e = true → (∀ b ∈ x.flags, b = false) →
    RTNode [] x.tree ∧ x.tree.allDefns ChainOK := by
  induction x using LayItem.rec
    (motive_2 := fun xs => ∀ e, wfLayItems xs e = true → (∀ b ∈ layFlags xs, b = false) →
      RTAll (layTrees xs) ∧ allDefnsList ChainOK (layTrees xs)) with
  | defn p d L b =>
    intro e hwf hfl
    simp only [LayItem.wf, Bool.and_eq_true] at hwf
    obtain ⟨hp, hn, hres, _⟩ := goodPathName_facts_l2 hwf.1.1.1
    obtain ⟨_, hne, hgood, hc⟩ := goodDef_good hwf.1.1.2
    have hb : b = false := hfl b (by simp [LayItem.flags])
    subst hb
    rw [LayItem.tree]
    constructor
    · have := rtnode_nestIn_l2 p (.defn { name := d.1, disabled := false, mergeNames := !p.isEmpty } d.2) []
        hp (by
          simp only [List.nil_append]
          unfold RTNode
          exact ⟨rfl, hn, hres, hne, hgood⟩)
      rw [not_isEmpty_nil_l2] at this
      exact this
    · rw [allDefns_nestIn_l2]
      unfold Obj.allDefns
      exact hc
  | scope p nm b pre gap kids close ih =>
    intro e hwf hfl
    simp only [LayItem.wf, Bool.and_eq_true] at hwf
    obtain ⟨⟨⟨⟨⟨hpn, _⟩, _⟩, _⟩, _⟩, hkids⟩ := hwf
    obtain ⟨hp, hn, hres, _⟩ := goodPathName_facts_l2 hpn
    have hb : b = false := hfl b (by simp [LayItem.flags])
    subst hb
    obtain ⟨h1, h2⟩ := ih _ hkids (fun c hc => hfl c (by simp [LayItem.flags, hc]))
    rw [LayItem.tree]
    constructor
    · have := rtnode_nestIn_l2 p
        (.scope { name := nm, disabled := false, mergeNames := !p.isEmpty } (layTrees kids)) [] hp (by
          simp only [List.nil_append]
          unfold RTNode
          exact ⟨rfl, hn, Or.inl ⟨hres, h1⟩⟩)
      rw [not_isEmpty_nil_l2] at this
      exact this
    · rw [allDefns_nestIn_l2]
      unfold Obj.allDefns
      exact h2
  | nil => exact ⟨by unfold RTAll; trivial, by unfold allDefnsList; trivial⟩
  | cons x xs ihx ihxs =>
    rename_i e hwf hfl
    simp only [wfLayItems, Bool.and_eq_true] at hwf
    obtain ⟨a1, a2⟩ := ihx _ hwf.1 (fun c hc => hfl c (by simp [layFlags, hc]))
    obtain ⟨b1, b2⟩ := ihxs _ hwf.2 (fun c hc => hfl c (by simp [layFlags, hc]))
    rw [layTrees]
    unfold RTAll allDefnsList
    exact ⟨⟨a1, b1⟩, a2, b2⟩

theorem layTrees_rt_l2 (xs : List LayItem) (e : Bool) (hwf : wfLayItems xs e = true)
    (hfl : ∀ b ∈ layFlags xs, b = false) :
    RTAll (layTrees xs) ∧ allDefnsList ChainOK (layTrees xs) := by
  induction xs with
  | nil => exact ⟨by unfold RTAll; trivial, by unfold allDefnsList; trivial⟩
  | cons x xs ih =>
    simp only [wfLayItems, Bool.and_eq_true] at hwf
    obtain ⟨a1, a2⟩ := layTree_rt_l2 x _ hwf.1 (fun c hc => hfl c (by simp [layFlags, hc]))
    obtain ⟨b1, b2⟩ := ih hwf.2 (fun c hc => hfl c (by simp [layFlags, hc]))
    rw [layTrees]
    unfold RTAll allDefnsList
    exact ⟨⟨a1, b1⟩, a2, b2⟩

/-- the tree of a dottedName item is, up to `merge_names`, the item inside proper scopes -/
theorem layTree_eraseMerge_defn_l2 (p : List Str) (d : DefSpec) (L : DefLayout) (b : Bool) :
    (LayItem.defn p d L b).tree.eraseMerge
      = bracesIn_l2 p (.defn { name := d.1, disabled := b } (d.2.map Word.erase)) := by
  rw [LayItem.tree, eraseMerge_nestIn_l2]
  rfl

theorem layTree_eraseMerge_scope_l2 (p : List Str) (nm : Str) (b : Bool) (pre gap : Pre)
    (kids : List LayItem) (close : Pre) :
    (LayItem.scope p nm b pre gap kids close).tree.eraseMerge
      = bracesIn_l2 p (.scope { name := nm, disabled := b } (eraseMergeList (layTrees kids))) := by
  rw [LayItem.tree, eraseMerge_nestIn_l2]
  rfl

/-! #### source lines of a nested document in terms of the text in front -/

mutual
/-- the object the parser builds for an item, every line computed from the text in front: `before` is
    the text in front of the item's filler -/
def LayItem.lined : LayItem → Str → Nat → Obj
  | .defn p d L b, before, i =>
    nestIn (some i) false p
      (.defn { name := d.1, id := some i, disabled := b,
               line := some (1 + nlCount (before ++ L.pre.text)), mergeNames := !p.isEmpty }
        (linedWords (before ++ L.pre.text ++ bangText_l2 b ++ dottedName p d.1 ++ L.sp1 ++ ['=']) L.gaps d.2))
  | .scope p nm b pre gap kids _, before, i =>
    nestIn (some i) false p
      (.scope { name := nm, id := some i, disabled := b,
                line := some (1 + nlCount (before ++ pre.text)), mergeNames := !p.isEmpty }
        (layLined kids (before ++ pre.text ++ bangText_l2 b ++ dottedName p nm ++ gap.text ++ ['{']) (i + 1)))
def layLined : List LayItem → Str → Nat → List Obj
  | [], _, _ => []
  | x :: xs, before, i => x.lined before i :: layLined xs (before ++ (x.pre.text ++ x.body)) (i + x.count)
end

theorem nlCount_bang_l2 (b : Bool) : nlCount (bangText_l2 b) = 0 := by cases b <;> decide

theorem nlCount_open_l2 : nlCount ['{'] = 0 := by decide
theorem nlCount_closeB_l2 : nlCount ['}'] = 0 := by decide

theorem layLined_eq_l2 (x : LayItem) : ∀ (before : Str) (i : Nat) (e : Bool), x.wf e = true →
    x.obj (1 + nlCount before) i = x.lined before i ∧
    x.endLn (1 + nlCount before) = 1 + nlCount (before ++ (x.pre.text ++ x.body)) := by
  induction x using LayItem.rec
    (motive_2 := fun xs => ∀ (before : Str) (i : Nat) (e : Bool), wfLayItems xs e = true →
      layObjs xs (1 + nlCount before) i = layLined xs before i ∧
      layEndLn xs (1 + nlCount before) = 1 + nlCount (before ++ layItemsText xs)) with
  | defn p d L b =>
    intro before i e hwf
    simp only [LayItem.wf, Bool.and_eq_true] at hwf
    obtain ⟨⟨⟨hpn, hgd⟩, hwd⟩, _⟩ := hwf
    obtain ⟨_, _, _, hit⟩ := goodPathName_facts_l2 hpn
    have hnn := itemName_nlCount_l2 hit
    simp only [wfDef, Bool.and_eq_true] at hwd
    obtain ⟨⟨⟨hpre, hsp1⟩, hgaps⟩, hterm⟩ := hwd
    have hl : 1 + nlCount before + L.pre.lines.length = 1 + nlCount (before ++ L.pre.text) := by
      rw [nlCount_append, nlCount_pre _ hpre]; omega
    have hb : 1 + nlCount (before ++ L.pre.text)
        = 1 + nlCount (before ++ L.pre.text ++ bangText_l2 b ++ dottedName p d.1 ++ L.sp1 ++ ['=']) := by
      rw [nlCount_append _ ['='], nlCount_append _ L.sp1, nlCount_append _ (dottedName p d.1),
        nlCount_append _ (bangText_l2 b), hnn, inlineB_nl hsp1, nlCount_eq,
        nlCount_bang_l2]
      omega
    constructor
    · rw [LayItem.obj, LayItem.lined, hl]
      congr 2
      rw [hb]
      exact reline_eq_linedWords d.2 L.gaps true _ hgaps
    · have heq : '=' ≠ '\n' := by decide
      rw [LayItem.endLn, hl, endLine_eq]
      simp only [LayItem.pre, LayItem.body, defText, nlCount_append, nlCount_cons_ne '=' _ heq]
      rw [nlCount_wordsLay d.2 L.gaps true hgaps, hnn, inlineB_nl hsp1, nlCount_bang_l2]
      omega
  | scope p nm b pre gap kids close ih =>
    intro before i e hwf
    simp only [LayItem.wf, Bool.and_eq_true] at hwf
    obtain ⟨⟨⟨⟨⟨hpn, hpre⟩, hgap⟩, _⟩, hclose⟩, hkids⟩ := hwf
    obtain ⟨_, _, _, hit⟩ := goodPathName_facts_l2 hpn
    have hnn := itemName_nlCount_l2 hit
    have hl : 1 + nlCount before + pre.lines.length = 1 + nlCount (before ++ pre.text) := by
      rw [nlCount_append, nlCount_pre _ hpre]; omega
    have hb : 1 + nlCount before + pre.lines.length + gap.lines.length
        = 1 + nlCount (before ++ pre.text ++ bangText_l2 b ++ dottedName p nm ++ gap.text ++ ['{']) := by
      simp only [nlCount_append]
      rw [nlCount_pre _ hpre, nlCount_pre _ hgap, hnn, nlCount_bang_l2, nlCount_open_l2]
      omega
    obtain ⟨h1, h2⟩ := ih (before ++ pre.text ++ bangText_l2 b ++ dottedName p nm ++ gap.text ++ ['{']) (i + 1) _ hkids
    have hb' : 1 + nlCount (before ++ pre.text) + gap.lines.length
        = 1 + nlCount (before ++ pre.text ++ bangText_l2 b ++ dottedName p nm ++ gap.text ++ ['{']) := by
      rw [← hl]; exact hb
    constructor
    · rw [LayItem.obj, LayItem.lined, hl, hb', h1]
    · rw [LayItem.endLn, hb, h2]
      have hopen : '{' ≠ '\n' := by decide
      simp only [LayItem.pre, LayItem.body, nlCount_append, nlCount_cons_ne '{' _ hopen]
      rw [nlCount_pre _ hclose, nlCount_pre _ hpre, nlCount_pre _ hgap, hnn,
        nlCount_bang_l2, nlCount_closeB_l2, nlCount_nil]
      omega
  | nil => rename_i before i e hwf; exact ⟨rfl, by simp [layEndLn, layItemsText]⟩
  | cons x xs ihx ihxs =>
    rename_i before i e hwf
    simp only [wfLayItems, Bool.and_eq_true] at hwf
    obtain ⟨a1, a2⟩ := ihx before i _ hwf.1
    obtain ⟨b1, b2⟩ := ihxs (before ++ (x.pre.text ++ x.body)) (i + x.count) _ hwf.2
    constructor
    · rw [layObjs, layLined, a1, a2, b1]
    · rw [layEndLn, a2, b2, layItemsText]
      simp

theorem layLinedList_eq_l2 (xs : List LayItem) : ∀ (before : Str) (i : Nat) (e : Bool),
    wfLayItems xs e = true →
    layObjs xs (1 + nlCount before) i = layLined xs before i ∧
    layEndLn xs (1 + nlCount before) = 1 + nlCount (before ++ layItemsText xs) := by
  induction xs with
  | nil => intro before i e _; exact ⟨rfl, by simp [layEndLn, layItemsText]⟩
  | cons x xs ih =>
    intro before i e hwf
    simp only [wfLayItems, Bool.and_eq_true] at hwf
    obtain ⟨a1, a2⟩ := layLined_eq_l2 x before i _ hwf.1
    obtain ⟨b1, b2⟩ := ih (before ++ (x.pre.text ++ x.body)) (i + x.count) _ hwf.2
    constructor
    · rw [layObjs, layLined, a1, a2, b1]
    · rw [layEndLn, a2, b2, layItemsText]
      simp

/-- the closed form of `parse` on a nested document: every line computed from the text in front -/
theorem parseObjs_renderN_lined_l2 (xs : List LayItem) (post : Pre) (h : wfDocN xs post = true) :
    parseObjs (renderN xs post) = .ok (layLined xs [] 1) := by
  rw [parseObjs_renderN_l2 xs post h]
  simp only [wfDocN, Bool.and_eq_true] at h
  have := (layLinedList_eq_l2 xs [] 1 _ h.1).1
  rw [← this]
  rfl

/-- where a name stands: `none` for a scope that `scope.adopt` builds for a leading component of a
    dottedName name (it has no source position); else the text in front of the (dottedName) name — up to and
    including a `!` — and the (dottedName) name as it is written -/
abbrev NamePos := Option (Str × Str)

mutual
/-- for every object of the item's tree in document order: its name and where it stands -/
def LayItem.namePos : LayItem → Str → List (Str × NamePos)
  | .defn p d L b, before =>
    p.map (fun n => (n, none)) ++ [(d.1, some (before ++ L.pre.text ++ bangText_l2 b, dottedName p d.1))]
  | .scope p nm b pre gap kids _, before =>
    p.map (fun n => (n, none)) ++ (nm, some (before ++ pre.text ++ bangText_l2 b, dottedName p nm)) ::
      layNamePos kids (before ++ pre.text ++ bangText_l2 b ++ dottedName p nm ++ gap.text ++ ['{'])
def layNamePos : List LayItem → Str → List (Str × NamePos)
  | [], _ => []
  | x :: xs, before => x.namePos before ++ layNamePos xs (before ++ (x.pre.text ++ x.body))
end

mutual
/-- name and source line of every object of a tree in document order -/
def Obj.nameLines : Obj → List (Str × Option Nat)
  | .defn m _ => [(m.name, m.line)]
  | .scope m os => (m.name, m.line) :: nameLinesList os
def nameLinesList : List Obj → List (Str × Option Nat)
  | [] => []
  | x :: xs => x.nameLines ++ nameLinesList xs
end

/-- the line a position stands for: `1 +` the number of newlines in front of the name -/
def NamePos.line : NamePos → Option Nat
  | none => none
  | some (before, _) => some (1 + nlCount before)

theorem nameLines_nestIn_l2 (id : Option Nat) (p : List Str) (y : Obj) : ∀ b,
    (nestIn id b p y).nameLines = p.map (fun n => (n, none)) ++ y.nameLines := by
  induction p with
  | nil => intro b; rfl
  | cons n ns ih =>
    intro b
    rw [nestIn, Obj.nameLines, nameLinesList, nameLinesList, ih]
    simp

/-- the recorded lines are `1 +` the number of newlines in front of the names -/
theorem lined_nameLines_l2 (x : LayItem) : ∀ (before : Str) (i : Nat),
    (x.lined before i).nameLines = (x.namePos before).map (fun e => (e.1, e.2.line)) := by
  induction x using LayItem.rec
    (motive_2 := fun xs => ∀ (before : Str) (i : Nat),
      nameLinesList (layLined xs before i) = (layNamePos xs before).map (fun e => (e.1, e.2.line))) with
  | defn p d L b =>
    intro before i
    rw [LayItem.lined, nameLines_nestIn_l2, LayItem.namePos]
    simp only [Obj.nameLines, List.map_append, List.map_map, List.map_cons, List.map_nil, NamePos.line]
    rw [nlCount_append _ (bangText_l2 b), nlCount_bang_l2, Nat.add_zero]
    rfl
  | scope p nm b pre gap kids close ih =>
    intro before i
    rw [LayItem.lined, nameLines_nestIn_l2, LayItem.namePos]
    simp only [Obj.nameLines, List.map_append, List.map_map, List.map_cons, NamePos.line]
    rw [ih, nlCount_append _ (bangText_l2 b), nlCount_bang_l2, Nat.add_zero]
    rfl
  | nil => rfl
  | cons x xs ihx ihxs =>
    rename_i before i
    rw [layLined, nameLinesList, layNamePos, List.map_append, ihx, ihxs]

theorem linedList_nameLines_l2 (xs : List LayItem) : ∀ (before : Str) (i : Nat),
    nameLinesList (layLined xs before i) = (layNamePos xs before).map (fun e => (e.1, e.2.line)) := by
  induction xs with
  | nil => intro _ _; rfl
  | cons x xs ih =>
    intro before i
    rw [layLined, nameLinesList, layNamePos, List.map_append, lined_nameLines_l2, ih]

/-- every listed position really is a position of that name in the text -/
theorem namePos_prefix_l2 (x : LayItem) : ∀ (before : Str) (n pre full : Str),
    (n, some (pre, full)) ∈ x.namePos before →
    ∃ tail, before ++ (x.pre.text ++ x.body) = pre ++ (full ++ tail) := by
  induction x using LayItem.rec
    (motive_2 := fun xs => ∀ (before : Str) (n pre full : Str),
      (n, some (pre, full)) ∈ layNamePos xs before →
      ∃ tail, before ++ layItemsText xs = pre ++ (full ++ tail)) with
  | defn p d L b =>
    intro before n pre full hpn
    simp only [LayItem.namePos, List.mem_append, List.mem_map, List.mem_singleton, Prod.mk.injEq,
      Option.some.injEq] at hpn
    rcases hpn with ⟨_, _, _, h⟩ | ⟨_, rfl, rfl⟩
    · cases h
    · exact ⟨L.sp1 ++ '=' :: (wordsLay L.gaps d.2 ++ L.term.text),
        by simp [LayItem.pre, LayItem.body, defText]⟩
  | scope p nm b pre0 gap kids close ih =>
    intro before n pre full hpn
    simp only [LayItem.namePos, List.mem_append, List.mem_map, List.mem_cons, Prod.mk.injEq,
      Option.some.injEq] at hpn
    rcases hpn with ⟨_, _, _, h⟩ | ⟨_, rfl, rfl⟩ | hpn
    · cases h
    · exact ⟨gap.text ++ '{' :: (layItemsText kids ++ (close.text ++ ['}'])),
        by simp [LayItem.pre, LayItem.body]⟩
    · obtain ⟨tail, ht⟩ := ih _ n pre full hpn
      refine ⟨tail ++ (close.text ++ ['}']), ?_⟩
      have : before ++ ((LayItem.scope p nm b pre0 gap kids close).pre.text
            ++ (LayItem.scope p nm b pre0 gap kids close).body)
          = (before ++ pre0.text ++ bangText_l2 b ++ dottedName p nm ++ gap.text ++ ['{'] ++ layItemsText kids)
            ++ (close.text ++ ['}']) := by
        simp [LayItem.pre, LayItem.body]
      rw [this, ht]
      simp
  | nil => rename_i before n pre full hpn; simp [layNamePos] at hpn
  | cons x xs ihx ihxs =>
    rename_i before n pre full hpn
    simp only [layNamePos, List.mem_append] at hpn
    rcases hpn with hpn | hpn
    · obtain ⟨tail, ht⟩ := ihx before n pre full hpn
      refine ⟨tail ++ layItemsText xs, ?_⟩
      rw [layItemsText, ← List.append_assoc, ht]
      simp
    · obtain ⟨tail, ht⟩ := ihxs _ n pre full hpn
      exact ⟨tail, by rw [layItemsText, ← List.append_assoc, ht]⟩

theorem layNamePos_prefix_l2 (xs : List LayItem) : ∀ (before : Str) (n pre full : Str),
    (n, some (pre, full)) ∈ layNamePos xs before →
    ∃ tail, before ++ layItemsText xs = pre ++ (full ++ tail) := by
  induction xs with
  | nil => intro before n pre full hpn; simp [layNamePos] at hpn
  | cons x xs ih =>
    intro before n pre full hpn
    simp only [layNamePos, List.mem_append] at hpn
    rcases hpn with hpn | hpn
    · obtain ⟨tail, ht⟩ := namePos_prefix_l2 x before n pre full hpn
      refine ⟨tail ++ layItemsText xs, ?_⟩
      rw [layItemsText, ← List.append_assoc, ht]
      simp
    · obtain ⟨tail, ht⟩ := ih _ n pre full hpn
      exact ⟨tail, by rw [layItemsText, ← List.append_assoc, ht]⟩

end Phil
