/-
  Lemmas behind C09 (values written back and read again) and the type part of C01
  (`str(converter)` re-parses to the same converter).
-/
import Phil.Proofs.ConvDomain
import Phil.Proofs.ChoiceLemmas
set_option linter.unusedSimpArgs false
set_option linter.unusedVariables false
namespace Phil

/-! ### decimal digits -/

def digStep (acc : Option Nat) (c : Char) : Option Nat :=
  match acc with
  | none => none
  | some n => if isDigit c then some (n * 10 + (c.toNat - 48)) else none

def digitsFold (cs : Str) : Option Nat := cs.foldl digStep (some 0)

theorem digitsVal_eq (cs : Str) : digitsVal cs = if cs = [] then none else digitsFold cs := by
  cases cs <;> rfl

theorem digitChar_facts (d : Nat) (h : d < 10) :
    isDigit (Char.ofNat (48 + d)) = true ∧ (Char.ofNat (48 + d)).toNat - 48 = d := by
  have : d = 0 ∨ d = 1 ∨ d = 2 ∨ d = 3 ∨ d = 4 ∨ d = 5 ∨ d = 6 ∨ d = 7 ∨ d = 8 ∨ d = 9 := by omega
  rcases this with h | h | h | h | h | h | h | h | h | h <;> subst h <;> exact ⟨by decide, by decide⟩

theorem natDigits_lt (n : Nat) (h : n < 10) : natDigits n = [Char.ofNat (48 + n)] := by
  rw [natDigits.eq_1]; simp [h]

theorem natDigits_ge (n : Nat) (h : ¬ n < 10) :
    natDigits n = natDigits (n / 10) ++ [Char.ofNat (48 + n % 10)] := by
  rw [natDigits.eq_1]; simp [h]

theorem natDigits_ne_nil (n : Nat) : natDigits n ≠ [] := by
  by_cases h : n < 10
  · rw [natDigits_lt n h]; simp
  · rw [natDigits_ge n h]; simp

theorem digitsFold_natDigits (n : Nat) : digitsFold (natDigits n) = some n := by
  induction n using Nat.strongRecOn with
  | _ n ih =>
    by_cases h : n < 10
    · rw [natDigits_lt n h]
      have := digitChar_facts n h
      simp [digitsFold, digStep, this.1, this.2]
    · rw [natDigits_ge n h]
      have := digitChar_facts (n % 10) (by omega)
      have ih' := ih (n / 10) (by omega)
      unfold digitsFold at ih' ⊢
      rw [List.foldl_append, ih']
      simp [digStep, this.1, this.2]
      omega

/-- the decimal digits of `n` read back as `n` -/
theorem digitsVal_natDigits (n : Nat) : digitsVal (natDigits n) = some n := by
  rw [digitsVal_eq, if_neg (natDigits_ne_nil n), digitsFold_natDigits]

theorem natDigits_all_digit (n : Nat) : ∀ c ∈ natDigits n, isDigit c = true := by
  induction n using Nat.strongRecOn with
  | _ n ih =>
    by_cases h : n < 10
    · rw [natDigits_lt n h]
      intro c hc
      simp at hc; subst hc
      exact (digitChar_facts n h).1
    · rw [natDigits_ge n h]
      intro c hc
      simp only [List.mem_append, List.mem_singleton] at hc
      rcases hc with hc | hc
      · exact ih (n / 10) (by omega) c hc
      · subst hc; exact (digitChar_facts (n % 10) (by omega)).1

theorem parseIntLit_of_digit_head (c : Char) (cs : Str) (hc : isDigit c = true) :
    parseIntLit (c :: cs) = (digitsVal (c :: cs)).map Int.ofNat := by
  unfold parseIntLit
  split
  · rename_i h; cases h; exact absurd hc (by decide)
  · rename_i h; cases h; exact absurd hc (by decide)
  · rfl

/-- `int(str(i)) == i` for every integer -/
theorem parseIntLit_intStr (i : Int) : parseIntLit (intStr i) = some i := by
  unfold intStr
  split
  · rename_i h
    show (digitsVal (natDigits i.natAbs)).map (fun n => - (Int.ofNat n)) = some i
    rw [digitsVal_natDigits]
    simp; omega
  · rename_i h
    cases hd : natDigits i.natAbs with
    | nil => exact absurd hd (natDigits_ne_nil _)
    | cons c cs =>
      have hc := natDigits_all_digit i.natAbs c (by rw [hd]; simp)
      rw [parseIntLit_of_digit_head c cs hc, ← hd, digitsVal_natDigits]
      simp; omega

/-! ### strings (`str`, `key`, `path`) -/

theorem asWords_str (c : Conv) (hc : c = .str ∨ c = .key ∨ c = .path) (fmt : FmtEnv) (opt : AttrVal)
    (mws : List Word) (s : Str) :
    asWords c fmt opt mws (.str s) = .ok [⟨s, some .d1, none⟩] := by
  rcases hc with rfl | rfl | rfl <;> rfl

theorem fromWords_str_quoted (c : Conv) (hc : c = .str ∨ c = .key) (env : EvalEnv) (opt : AttrVal)
    (q : Quote) (l : Option Nat) (s : Str) :
    fromWords c env opt [⟨s, some q, l⟩] = .ok (.str s) := by
  rcases hc with rfl | rfl <;> rfl

theorem fromWords_path_quoted (env : EvalEnv) (opt : AttrVal) (q : Quote) (l : Option Nat) (s : Str)
    (hs : s.take 1 ≠ ['~']) :
    fromWords .path env opt [⟨s, some q, l⟩] = .ok (.str s) := by
  have : fromWords .path env opt [⟨s, some q, l⟩]
      = if s.take 1 == ['~'] then .error (.unsupported "expanduser") else .ok (.str s) := rfl
  rw [this]; simp [hs]

theorem fromWords_path_tilde (env : EvalEnv) (opt : AttrVal) (q : Quote) (l : Option Nat) (s : Str) :
    fromWords .path env opt [⟨'~' :: s, some q, l⟩] = .error (.unsupported "expanduser") := rfl

/-! ### bool, None, Auto -/

theorem asWords_bool (fmt : FmtEnv) (opt : AttrVal) (mws : List Word) (b : Bool) :
    asWords .bool fmt opt mws (.bool b) = .ok [wordOf (if b then "True" else "False")] := rfl

theorem fromWords_bool_word (env : EvalEnv) (opt : AttrVal) (b : Bool) :
    fromWords .bool env opt [wordOf (if b then "True" else "False")] = .ok (.bool b) := by
  cases b <;> rfl

def unstar (w : Word) : Word := { value := (stripStar w.value).1, quote := w.quote }

theorem asWords_choice_none (fmt : FmtEnv) (opt : AttrVal) (mws : List Word) :
    asWords (.choice false) fmt opt mws .none =
      if opt.mandatory then .error (.runtime "invalid_choice" Option.none) else .ok (mws.map unstar) := rfl

theorem asWords_multi_none (fmt : FmtEnv) (opt : AttrVal) (mws : List Word) :
    asWords (.choice true) fmt opt mws .none = .error (.stray "AssertionError" "choice_as_words") := rfl

theorem starredNames_unstar (mws : List Word) (h : NoDoubleStar mws) :
    starredNames (mws.map unstar) = [] := by
  induction mws with
  | nil => rfl
  | cons w ws ih =>
    have hw := h w (by simp)
    have := ih (fun x hx => h x (by simp [hx]))
    unfold starredNames at this ⊢
    rw [List.map_cons, List.filterMap_cons]
    simp only [unstar, hw, Bool.false_eq_true, ↓reduceIte]
    exact this

/-- which spelling `as_words` gives `None`, for every type but `choice` -/
theorem asWords_none_cases (c : Conv) (hc : ∀ m, c ≠ .choice m) (fmt : FmtEnv) (opt : AttrVal)
    (mws ws : List Word) (h : asWords c fmt opt mws .none = .ok ws) :
    ws = [wordOf "None"] ∧ (∀ a, c = .int a ∨ c = .float a → a.allowNone = true) := by
  cases c with
  | choice m => exact absurd rfl (hc m)
  | int a =>
    have : asWords (.int a) fmt opt mws .none =
      if a.allowNone then .ok [wordOf "None"] else .error (.runtime "cannot_be_none" Option.none) := rfl
    rw [this] at h
    split at h
    · rename_i h1; cases h; refine ⟨rfl, ?_⟩; intro a' ha'; rcases ha' with ha' | ha' <;> cases ha'; exact h1
    · cases h
  | float a =>
    have : asWords (.float a) fmt opt mws .none =
      if a.allowNone then .ok [wordOf "None"] else .error (.runtime "cannot_be_none" Option.none) := rfl
    rw [this] at h
    split at h
    · rename_i h1; cases h; refine ⟨rfl, ?_⟩; intro a' ha'; rcases ha' with ha' | ha' <;> cases ha'; exact h1
    · cases h
  | _ =>
    have : ws = [wordOf "None"] := by cases h; rfl
    exact ⟨this, by intro a ha; rcases ha with ha | ha <;> cases ha⟩

theorem fromWords_none_word (c : Conv) (hc : ∀ m, c ≠ .choice m)
    (hn : ∀ a, c = .int a ∨ c = .float a → a.allowNone = true) (env : EvalEnv) (opt : AttrVal) :
    fromWords c env opt [wordOf "None"] = .ok .none := by
  cases c with
  | choice m => exact absurd rfl (hc m)
  | int a =>
    have : fromWords (.int a) env opt [wordOf "None"] =
      if a.allowNone then .ok .none else .error (.runtime "cannot_be_none" Option.none) := rfl
    rw [this, hn a (.inl rfl)]; rfl
  | float a =>
    have : fromWords (.float a) env opt [wordOf "None"] =
      if a.allowNone then .ok .none else .error (.runtime "cannot_be_none" Option.none) := rfl
    rw [this, hn a (.inr rfl)]; rfl
  | _ => rfl

theorem asWords_auto (c : Conv) (fmt : FmtEnv) (opt : AttrVal) (mws : List Word) :
    asWords c fmt opt mws .auto = .ok [wordOf "Auto"] := by
  cases c <;> rfl

theorem fromWords_auto_word (c : Conv) (env : EvalEnv) (opt : AttrVal) :
    fromWords c env opt [wordOf "Auto"] = .ok .auto := by
  cases c <;> rfl

/-- a single choice: `None` is written as the master's alternatives with no star, and read back as
    `None` provided the master is well formed -/
theorem choice_none_round_trip (fmt : FmtEnv) (env : EvalEnv) (opt : AttrVal) (mws ws : List Word)
    (hds : NoDoubleStar mws) (h : asWords (.choice false) fmt opt mws .none = .ok ws)
    (hpa : isPlainAuto ws = false) :
    ws = mws.map unstar ∧ fromWords (.choice false) env opt ws = .ok .none := by
  rw [asWords_choice_none] at h
  split at h
  · cases h
  · rename_i hm
    cases h
    refine ⟨rfl, ?_⟩
    rw [fromWords_choice_eq, hpa, starredNames_unstar mws hds]
    simp [hm]

/-! ### `as_words` through named steps -/

def numChk (a : NumArgs) (v : PVal) : R Unit :=
  match v with
  | .num n => checkValue a.valueMin a.valueMax [] false n
  | .bool b => checkValue a.valueMin a.valueMax [] false (.int (if b then 1 else 0))
  | _ => .ok ()

def scalarAsWords (isInt : Bool) (a : NumArgs) (fmt : FmtEnv) (v : PVal) : R (List Word) :=
  match numChk a v with
  | .error e => .error e
  | .ok () => (numStr isInt fmt v).map (fun s => [{ value := s }])

theorem asWords_int_num (a : NumArgs) (fmt : FmtEnv) (opt : AttrVal) (mws : List Word) (n : PNum) :
    asWords (.int a) fmt opt mws (.num n) = scalarAsWords true a fmt (.num n) := rfl
theorem asWords_float_num (a : NumArgs) (fmt : FmtEnv) (opt : AttrVal) (mws : List Word) (n : PNum) :
    asWords (.float a) fmt opt mws (.num n) = scalarAsWords false a fmt (.num n) := rfl

def listStepW (isInt : Bool) (a : ListArgs) (fmt : FmtEnv) (acc : List Word) (x : PVal) : R (List Word) :=
  match x with
  | .none => if a.allowNoneEl then .ok (acc ++ [wordOf "None"]) else .error (.runtime "element_none" Option.none)
  | .auto => if a.allowAutoEl then .ok (acc ++ [wordOf "Auto"]) else .error (.runtime "element_auto" Option.none)
  | .num n =>
    (match checkValue a.valueMin a.valueMax [] false n with
     | .error e => .error e
     | .ok () => (numStr isInt fmt (.num n)).map (fun s => acc ++ [{ value := s }]))
  | _ => .error (.unsupported "list element")

theorem asWords_ints_list (a : ListArgs) (fmt : FmtEnv) (opt : AttrVal) (mws : List Word) (l : List PVal) :
    asWords (.ints a) fmt opt mws (.list l) =
      match checkSize a.sizeMin a.sizeMax [] false l.length with
      | .error e => .error e
      | .ok () => l.foldlM (listStepW true a fmt) [] := rfl
theorem asWords_floats_list (a : ListArgs) (fmt : FmtEnv) (opt : AttrVal) (mws : List Word) (l : List PVal) :
    asWords (.floats a) fmt opt mws (.list l) =
      match checkSize a.sizeMin a.sizeMax [] false l.length with
      | .error e => .error e
      | .ok () => l.foldlM (listStepW false a fmt) [] := rfl

theorem asWords_choice_str (fmt : FmtEnv) (opt : AttrVal) (mws : List Word) (s : Str) :
    asWords (.choice false) fmt opt mws (.str s) =
      let hits := mws.filter (fun w => (stripStar w.value).1 == s)
      if hits.length > 1 then .error (.runtime "improper_master_choice" (firstLine mws))
      else if hits.isEmpty then .error (.runtime "invalid_choice" Option.none)
      else .ok (mws.map (fun w =>
          let value := (stripStar w.value).1
          { value := if value == s then '*' :: value else value, quote := w.quote })) := rfl

/-! ### collecting folds -/

def mapR {α β : Type} (g : α → R β) : List α → R (List β)
  | [] => .ok []
  | x :: xs =>
    match g x with
    | .error e => .error e
    | .ok y =>
      match mapR g xs with
      | .error e => .error e
      | .ok ys => .ok (y :: ys)

theorem foldlM_collect {α β : Type} (g : α → R β) (l : List α) (init : List β) :
    l.foldlM (fun acc x => (g x).map (fun w => acc ++ [w])) init
      = (mapR g l).map (fun ws => init ++ ws) := by
  induction l generalizing init with
  | nil => simp [mapR, Except.map, pure, Except.pure]
  | cons x xs ih =>
    rw [List.foldlM_cons]
    cases hg : g x with
    | error e => simp only [mapR, hg]; rfl
    | ok y =>
      show List.foldlM _ (init ++ [y]) xs = _
      rw [ih (init ++ [y])]
      simp only [mapR, hg]
      cases mapR g xs with
      | error e => rfl
      | ok ys => simp [Except.map]

theorem mapR_error_of_mem {α β : Type} (g : α → R β) (l : List α) (x : α) (e : Err)
    (hx : x ∈ l) (hg : g x = .error e) : ∃ e', mapR g l = .error e' := by
  induction l with
  | nil => cases hx
  | cons y ys ih =>
    simp only [mapR]
    cases hy : g y with
    | error e1 => exact ⟨e1, rfl⟩
    | ok y' =>
      have hx' : x ∈ ys := by
        rcases List.mem_cons.mp hx with h | h
        · subst h; rw [hg] at hy; cases hy
        · exact h
      obtain ⟨e', he'⟩ := ih hx'
      exact ⟨e', by simp [he']⟩

theorem mapR_of_forall {α β : Type} (g : α → R β) (f : α → β) (l : List α)
    (h : ∀ x ∈ l, g x = .ok (f x)) : mapR g l = .ok (l.map f) := by
  induction l with
  | nil => rfl
  | cons x xs ih =>
    simp only [mapR, h x (by simp), ih (fun y hy => h y (by simp [hy])), List.map_cons]

theorem mapR_ok_map {α β : Type} (g : α → R β) (f : α → β) (l : List α) (ws : List β)
    (hf : ∀ x w, g x = .ok w → w = f x) (h : mapR g l = .ok ws) :
    ws = l.map f ∧ ∀ x ∈ l, g x = .ok (f x) := by
  induction l generalizing ws with
  | nil => cases h; exact ⟨rfl, by simp⟩
  | cons x xs ih =>
    simp only [mapR] at h
    cases hg : g x with
    | error e => rw [hg] at h; cases h
    | ok y =>
      rw [hg] at h
      cases hm : mapR g xs with
      | error e => rw [hm] at h; cases h
      | ok ys =>
        rw [hm] at h; cases h
        have hy := hf x y hg
        subst hy
        obtain ⟨h1, h2⟩ := ih ys hm
        refine ⟨by rw [h1]; rfl, ?_⟩
        intro z hz
        rcases List.mem_cons.mp hz with rfl | hz
        · exact hg
        · exact h2 z hz

/-! ### `as_words` refuses values outside the declaration -/

theorem checkValue_lt_min (lo hi : Option PNum) (ws : List Word) (wl : Bool) (v m : PNum)
    (h1 : lo = some m) (h2 : pyLe m v = false) :
    checkValue lo hi ws wl v = .error (.runtime "value_min" (if wl then firstLine ws else Option.none)) := by
  subst h1; simp [checkValue, h2]

theorem checkValue_gt_max (lo hi : Option PNum) (ws : List Word) (wl : Bool) (v M : PNum)
    (h1 : hi = some M) (h2 : pyLe v M = false) (h3 : ∀ m, lo = some m → pyLe m v = true) :
    checkValue lo hi ws wl v = .error (.runtime "value_max" (if wl then firstLine ws else Option.none)) := by
  subst h1
  cases lo with
  | none => simp [checkValue, h2]
  | some m => simp [checkValue, h2, h3 m rfl]

theorem checkSize_too_many (smin smax : Option Int) (ws : List Word) (wl : Bool) (n : Nat) (M : Int)
    (h1 : smax = some M) (h2 : M < (n : Int)) :
    checkSize smin smax ws wl n = .error (.runtime "too_many" (if wl then firstLine ws else Option.none)) := by
  subst h1; simp [checkSize, h2]

theorem checkSize_not_enough (smin smax : Option Int) (ws : List Word) (wl : Bool) (n : Nat) (m : Int)
    (h1 : smin = some m) (h2 : (n : Int) < m) (h3 : ∀ M, smax = some M → (n : Int) ≤ M) :
    checkSize smin smax ws wl n = .error (.runtime "not_enough" (if wl then firstLine ws else Option.none)) := by
  subst h1
  cases smax with
  | none => simp [checkSize, h2]
  | some M =>
    have := h3 M rfl
    simp [checkSize, h2]
    omega

theorem checkSize_of_sizeOk (smin smax : Option Int) (ws : List Word) (wl : Bool) (n : Nat)
    (h : sizeOk smin smax n = true) : checkSize smin smax ws wl n = .ok () := by
  unfold sizeOk at h
  unfold checkSize
  cases smin <;> cases smax <;> simp at h ⊢
  · omega
  · omega
  · rw [if_neg (by omega), if_neg (by omega)]

/-- one element of an `ints`/`floats` value as a word -/
def elemWord (isInt : Bool) (a : ListArgs) (fmt : FmtEnv) (x : PVal) : R Word :=
  match x with
  | .none => if a.allowNoneEl then .ok (wordOf "None") else .error (.runtime "element_none" Option.none)
  | .auto => if a.allowAutoEl then .ok (wordOf "Auto") else .error (.runtime "element_auto" Option.none)
  | .num n =>
    (match checkValue a.valueMin a.valueMax [] false n with
     | .error e => .error e
     | .ok () => (numStr isInt fmt (.num n)).map (fun s => { value := s }))
  | _ => .error (.unsupported "list element")

theorem listStepW_eq (isInt : Bool) (a : ListArgs) (fmt : FmtEnv) (acc : List Word) (x : PVal) :
    listStepW isInt a fmt acc x = (elemWord isInt a fmt x).map (fun w => acc ++ [w]) := by
  unfold listStepW elemWord
  split
  · split <;> rfl
  · split <;> rfl
  · split
    · rfl
    · cases numStr isInt fmt _ <;> rfl
  · rfl

theorem map_nil_append {β : Type} (r : R (List β)) : r.map (fun ws => [] ++ ws) = r := by
  cases r <;> simp [Except.map]

/-- `ints.as_words` / `floats.as_words` of a list: the size check, then one word per element -/
def listAsWords (isInt : Bool) (a : ListArgs) (fmt : FmtEnv) (l : List PVal) : R (List Word) :=
  match checkSize a.sizeMin a.sizeMax [] false l.length with
  | .error e => .error e
  | .ok () => mapR (elemWord isInt a fmt) l

theorem foldlM_listStepW (isInt : Bool) (a : ListArgs) (fmt : FmtEnv) (l : List PVal) :
    l.foldlM (listStepW isInt a fmt) [] = mapR (elemWord isInt a fmt) l := by
  have : listStepW isInt a fmt = fun acc x => (elemWord isInt a fmt x).map (fun w => acc ++ [w]) := by
    funext acc x; exact listStepW_eq _ _ _ _ _
  rw [this, foldlM_collect, map_nil_append]

theorem asWords_ints_eq (a : ListArgs) (fmt : FmtEnv) (opt : AttrVal) (mws : List Word) (l : List PVal) :
    asWords (.ints a) fmt opt mws (.list l) = listAsWords true a fmt l := by
  rw [asWords_ints_list, foldlM_listStepW]; rfl

theorem asWords_floats_eq (a : ListArgs) (fmt : FmtEnv) (opt : AttrVal) (mws : List Word) (l : List PVal) :
    asWords (.floats a) fmt opt mws (.list l) = listAsWords false a fmt l := by
  rw [asWords_floats_list, foldlM_listStepW]; rfl

theorem scalarAsWords_lt_min (isInt : Bool) (a : NumArgs) (fmt : FmtEnv) (v lo : PNum)
    (h1 : a.valueMin = some lo) (h2 : pyLe lo v = false) :
    scalarAsWords isInt a fmt (.num v) = .error (.runtime "value_min" Option.none) := by
  simp only [scalarAsWords, numChk, checkValue_lt_min _ _ _ _ _ _ h1 h2]; rfl

theorem scalarAsWords_gt_max (isInt : Bool) (a : NumArgs) (fmt : FmtEnv) (v hi : PNum)
    (h1 : a.valueMax = some hi) (h2 : pyLe v hi = false)
    (h3 : ∀ lo, a.valueMin = some lo → pyLe lo v = true) :
    scalarAsWords isInt a fmt (.num v) = .error (.runtime "value_max" Option.none) := by
  simp only [scalarAsWords, numChk, checkValue_gt_max _ _ _ _ _ _ h1 h2 h3]; rfl

theorem numStr_not_runtime (isInt : Bool) (fmt : FmtEnv) (v : PVal) (site : String) (line : Option Nat) :
    numStr isInt fmt v ≠ .error (.runtime site line) := by
  unfold numStr
  split <;> (try split) <;> (try split) <;> simp

/-- exactly when `value_min <= v` fails is "value_min" reported -/
theorem checkValue_value_min_iff (lo hi : Option PNum) (ws : List Word) (wl : Bool) (v m : PNum)
    (h1 : lo = some m) :
    checkValue lo hi ws wl v = .error (.runtime "value_min" (if wl then firstLine ws else Option.none))
      ↔ pyLe m v = false := by
  subst h1
  refine ⟨fun h => ?_, checkValue_lt_min _ hi ws wl v m rfl⟩
  cases hp : pyLe m v with
  | false => rfl
  | true =>
    exfalso
    cases hi with
    | none => simp [checkValue, hp] at h
    | some M => cases hq : pyLe v M <;> simp [checkValue, hp, hq] at h

theorem checkValue_value_max_iff (lo hi : Option PNum) (ws : List Word) (wl : Bool) (v M : PNum)
    (h1 : hi = some M) :
    checkValue lo hi ws wl v = .error (.runtime "value_max" (if wl then firstLine ws else Option.none))
      ↔ (pyLe v M = false ∧ ∀ m, lo = some m → pyLe m v = true) := by
  subst h1
  refine ⟨fun h => ?_, fun h => checkValue_gt_max lo _ ws wl v M rfl h.1 h.2⟩
  cases lo with
  | none => cases hq : pyLe v M <;> simp [checkValue, hq] at h ⊢
  | some m => cases hp : pyLe m v <;> cases hq : pyLe v M <;> simp [checkValue, hp, hq] at h ⊢

theorem scalarAsWords_value_min_iff (isInt : Bool) (a : NumArgs) (fmt : FmtEnv) (v lo : PNum)
    (h1 : a.valueMin = some lo) :
    scalarAsWords isInt a fmt (.num v) = .error (.runtime "value_min" Option.none) ↔ pyLe lo v = false := by
  refine ⟨fun h => ?_, scalarAsWords_lt_min isInt a fmt v lo h1⟩
  rw [← checkValue_value_min_iff a.valueMin a.valueMax [] false v lo h1]
  simp only [scalarAsWords, numChk] at h
  cases hc : checkValue a.valueMin a.valueMax [] false v with
  | error e => rw [hc] at h; simp only at h; cases h; rfl
  | ok u =>
    rw [hc] at h; simp only at h
    cases hn : numStr isInt fmt (.num v) with
    | error e => rw [hn] at h; cases h; exact absurd hn (numStr_not_runtime _ _ _ _ _)
    | ok s => rw [hn] at h; cases h

theorem scalarAsWords_value_max_iff (isInt : Bool) (a : NumArgs) (fmt : FmtEnv) (v hi : PNum)
    (h1 : a.valueMax = some hi) :
    scalarAsWords isInt a fmt (.num v) = .error (.runtime "value_max" Option.none) ↔
      (pyLe v hi = false ∧ ∀ lo, a.valueMin = some lo → pyLe lo v = true) := by
  refine ⟨fun h => ?_, fun h => scalarAsWords_gt_max isInt a fmt v hi h1 h.1 h.2⟩
  rw [← checkValue_value_max_iff a.valueMin a.valueMax [] false v hi h1]
  simp only [scalarAsWords, numChk] at h
  cases hc : checkValue a.valueMin a.valueMax [] false v with
  | error e => rw [hc] at h; simp only at h; cases h; rfl
  | ok u =>
    rw [hc] at h; simp only at h
    cases hn : numStr isInt fmt (.num v) with
    | error e => rw [hn] at h; cases h; exact absurd hn (numStr_not_runtime _ _ _ _ _)
    | ok s => rw [hn] at h; cases h
theorem listAsWords_too_many (isInt : Bool) (a : ListArgs) (fmt : FmtEnv) (l : List PVal) (M : Int)
    (h1 : a.sizeMax = some M) (h2 : M < (l.length : Int)) :
    listAsWords isInt a fmt l = .error (.runtime "too_many" Option.none) := by
  simp only [listAsWords, checkSize_too_many _ _ _ _ _ _ h1 h2]; rfl

theorem listAsWords_not_enough (isInt : Bool) (a : ListArgs) (fmt : FmtEnv) (l : List PVal) (m : Int)
    (h1 : a.sizeMin = some m) (h2 : (l.length : Int) < m)
    (h3 : ∀ M, a.sizeMax = some M → (l.length : Int) ≤ M) :
    listAsWords isInt a fmt l = .error (.runtime "not_enough" Option.none) := by
  simp only [listAsWords, checkSize_not_enough _ _ _ _ _ _ h1 h2 h3]; rfl

theorem listAsWords_error_of_elem (isInt : Bool) (a : ListArgs) (fmt : FmtEnv) (l : List PVal)
    (x : PVal) (e : Err) (hx : x ∈ l) (he : elemWord isInt a fmt x = .error e) :
    ∃ e', listAsWords isInt a fmt l = .error e' := by
  unfold listAsWords
  cases checkSize a.sizeMin a.sizeMax [] false l.length with
  | error e1 => exact ⟨e1, rfl⟩
  | ok u => exact mapR_error_of_mem _ _ _ _ hx he

theorem listAsWords_head_error (isInt : Bool) (a : ListArgs) (fmt : FmtEnv) (x : PVal) (l : List PVal)
    (e : Err) (hs : sizeOk a.sizeMin a.sizeMax (x :: l).length = true)
    (he : elemWord isInt a fmt x = .error e) :
    listAsWords isInt a fmt (x :: l) = .error e := by
  unfold listAsWords
  rw [checkSize_of_sizeOk _ _ _ _ _ hs]
  simp only [mapR, he]

theorem asWords_choice_no_alt (fmt : FmtEnv) (opt : AttrVal) (mws : List Word) (s : Str)
    (h : ∀ w ∈ mws, (stripStar w.value).1 ≠ s) :
    asWords (.choice false) fmt opt mws (.str s) = .error (.runtime "invalid_choice" Option.none) := by
  rw [asWords_choice_str]
  have : mws.filter (fun w => (stripStar w.value).1 == s) = [] := by
    rw [List.filter_eq_nil_iff]
    intro w hw
    simpa using h w hw
  simp [this]

/-! ### `strings` -/

def strStep (st : List Word × Bool) (x : PVal) : R (List Word × Bool) :=
  match x with
  | .str s =>
    let bare := isStdIdentNotNoneAuto s && !st.2
    .ok (st.1 ++ [if bare then { value := s } else { value := s, quote := some .d1 }], st.2 || s.contains '\n')
  | _ => .error (.unsupported "strings element")

theorem asWords_strings_list (fmt : FmtEnv) (opt : AttrVal) (mws : List Word) (vs : List PVal) :
    asWords .strings fmt opt mws (.list vs) = (vs.foldlM strStep (([] : List Word), false)).map (·.1) := rfl

/-- an unquoted word spelled none/auto (any case) -/
def plainNA (w : Word) : Bool :=
  w.quote.isNone && (lower w.value == "none".toList || lower w.value == "auto".toList)

theorem strWord_not_plain (s : Str) (flag : Bool) :
    plainNA (if (isStdIdentNotNoneAuto s && !flag) = true then ({ value := s } : Word)
             else { value := s, quote := some .d1 }) = false := by
  split
  · rename_i h
    simp only [isStdIdentNotNoneAuto, Bool.and_eq_true, bne_iff_ne, ne_eq] at h
    have a := h.1.1.2; have b := h.1.2
    simp at a b
    simp [plainNA, a, b]
  · simp [plainNA]

theorem foldlM_strStep (l : List Str) : ∀ (st out : List Word × Bool),
    (l.map PVal.str).foldlM strStep st = .ok out →
    ∃ ws', out.1 = st.1 ++ ws' ∧ ws'.map (·.value) = l ∧ ∀ w ∈ ws', plainNA w = false := by
  induction l with
  | nil =>
    intro st out h
    simp only [List.map_nil, List.foldlM_nil, pure, Except.pure] at h
    cases h
    exact ⟨[], by simp, rfl, by simp⟩
  | cons s l ih =>
    intro st out h
    rw [List.map_cons, List.foldlM_cons] at h
    let w0 : Word := if (isStdIdentNotNoneAuto s && !st.2) = true then ({ value := s } : Word)
             else { value := s, quote := some .d1 }
    have h' : List.foldlM strStep (st.1 ++ [w0], st.2 || s.contains '\n') (l.map PVal.str) = .ok out := h
    obtain ⟨ws', h1, h2, h3⟩ := ih _ out h'
    refine ⟨w0 :: ws', ?_, ?_, ?_⟩
    · rw [h1]; simp
    · simp only [List.map_cons, h2]
      congr 1
      show (if _ then _ else _ : Word).value = s
      split <;> rfl
    · intro w hw
      rcases List.mem_cons.mp hw with rfl | hw
      · exact strWord_not_plain s st.2
      · exact h3 w hw

theorem isPlainNone_false_of_not_plain (ws : List Word) (h : ∀ w ∈ ws, plainNA w = false) :
    isPlainNone ws = false := by
  unfold isPlainNone
  split
  · rename_i w
    have := h w (by simp)
    simp only [plainNA, Bool.and_eq_false_iff, Bool.or_eq_false_iff] at this
    rcases this with h1 | h1
    · simp [h1]
    · have a := h1.1; simp at a; simp [a]
  · rfl

theorem isPlainAuto_false_of_not_plain (ws : List Word) (h : ∀ w ∈ ws, plainNA w = false) :
    isPlainAuto ws = false := by
  unfold isPlainAuto
  split
  · rename_i w
    have := h w (by simp)
    simp only [plainNA, Bool.and_eq_false_iff, Bool.or_eq_false_iff] at this
    rcases this with h1 | h1
    · simp [h1]
    · have a := h1.2; simp at a; simp [a]
  · rfl

/-- a list of strings written by `strings.as_words` is read back element for element -/
theorem strings_round_trip (fmt : FmtEnv) (env : EvalEnv) (opt opt' : AttrVal) (mws ws : List Word)
    (l : List Str) (h : asWords .strings fmt opt mws (.list (l.map PVal.str)) = .ok ws) :
    ws.map (·.value) = l ∧ fromWords .strings env opt' ws = .ok (.list (l.map PVal.str)) := by
  rw [asWords_strings_list] at h
  cases hf : (l.map PVal.str).foldlM strStep (([] : List Word), false) with
  | error e => rw [hf] at h; cases h
  | ok out =>
    rw [hf] at h
    have hw : ws = out.1 := by cases h; rfl
    obtain ⟨ws', h1, h2, h3⟩ := foldlM_strStep l _ out hf
    simp only [List.nil_append] at h1
    rw [hw, h1]
    refine ⟨h2, ?_⟩
    have : fromWords .strings env opt' ws' =
      if isPlainNone ws' then .ok .none else if isPlainAuto ws' then .ok .auto
      else .ok (.list (ws'.map (fun w => .str w.value))) := rfl
    rw [this, isPlainNone_false_of_not_plain ws' h3, isPlainAuto_false_of_not_plain ws' h3]
    simp only [Bool.false_eq_true, ↓reduceIte]
    rw [← h2, List.map_map]
    rfl

/-- `strings.as_words` never fails on a list of strings -/
theorem asWords_strings_ok (fmt : FmtEnv) (opt : AttrVal) (mws : List Word) (l : List Str) :
    ∃ ws, asWords .strings fmt opt mws (.list (l.map PVal.str)) = .ok ws := by
  rw [asWords_strings_list]
  suffices ∀ st, ∃ out, (l.map PVal.str).foldlM strStep st = .ok out by
    obtain ⟨out, ho⟩ := this (([] : List Word), false)
    exact ⟨out.1, by rw [ho]; rfl⟩
  induction l with
  | nil => intro st; exact ⟨st, rfl⟩
  | cons s l ih =>
    intro st
    rw [List.map_cons, List.foldlM_cons]
    exact ih _


/-! ### the characters of a printed integer -/

/-- harmless characters: not white space, not a list separator, not an opening bracket -/
def GoodChar (c : Char) : Prop :=
  isSpace c = false ∧ c ≠ ',' ∧ c ≠ ';' ∧ c ≠ '(' ∧ c ≠ '['

def IntChar (c : Char) : Prop := isDigit c = true ∨ c = '-'

theorem intChar_toNat (c : Char) (h : IntChar c) : c.toNat = 45 ∨ (48 ≤ c.toNat ∧ c.toNat ≤ 57) := by
  rcases h with h | h
  · right
    simp [isDigit] at h
    exact h
  · left; subst h; rfl

theorem char_ne_of_toNat (c d : Char) (h : c.toNat ≠ d.toNat) : c ≠ d := by
  intro e; subst e; exact h rfl

theorem intChar_good (c : Char) (h : IntChar c) : GoodChar c := by
  have ht := intChar_toNat c h
  refine ⟨?_, ?_, ?_, ?_, ?_⟩
  · simp only [isSpace, Bool.or_eq_false_iff, Bool.and_eq_false_iff, decide_eq_false_iff_not, beq_eq_false_iff_ne]
    omega
  all_goals (apply char_ne_of_toNat; simp; omega)

theorem intChar_lower (c : Char) (h : IntChar c) : lowerChar c = c := by
  have ht := intChar_toNat c h
  have : isUpperAscii c = false := by
    simp only [isUpperAscii, Bool.and_eq_false_iff, decide_eq_false_iff_not]
    simp
    omega
  simp [lowerChar, this]

theorem intStr_chars (i : Int) : ∀ c ∈ intStr i, IntChar c := by
  intro c hc
  unfold intStr at hc
  split at hc
  · rcases List.mem_cons.mp hc with rfl | hc
    · exact .inr rfl
    · exact .inl (natDigits_all_digit _ c hc)
  · exact .inl (natDigits_all_digit _ c hc)

theorem intStr_ne_nil (i : Int) : intStr i ≠ [] := by
  unfold intStr
  split
  · simp
  · exact natDigits_ne_nil _


/-! ### `int` -/

theorem dropWhile_of_all_false {α : Type} (p : α → Bool) (l : List α) (h : ∀ c ∈ l, p c = false) :
    l.dropWhile p = l := by
  cases l with
  | nil => rfl
  | cons c cs => simp [List.dropWhile, h c (by simp)]

theorem strip_of_no_space (s : Str) (h : ∀ c ∈ s, isSpace c = false) : strip s = s := by
  unfold strip
  rw [dropWhile_of_all_false _ s h, dropWhile_of_all_false _ s.reverse (by simpa using h)]
  simp

theorem lower_of_fixed (s : Str) (h : ∀ c ∈ s, lowerChar c = c) : lower s = s := by
  unfold lower
  induction s with
  | nil => rfl
  | cons c cs ih => simp [h c (by simp), ih (fun d hd => h d (by simp [hd]))]

theorem intStr_strip (i : Int) : strip (intStr i) = intStr i :=
  strip_of_no_space _ (fun c hc => (intChar_good c (intStr_chars i c hc)).1)

theorem intStr_lower (i : Int) : lower (intStr i) = intStr i :=
  lower_of_fixed _ (fun c hc => intChar_lower c (intStr_chars i c hc))

/-- a digit or `-` is not the first letter of a special spelling -/
theorem intHead_ne_special (c : Char) (h : IntChar c) :
    c ≠ 't' ∧ c ≠ 'f' ∧ c ≠ 'n' ∧ c ≠ 'a' := by
  have ht := intChar_toNat c h
  refine ⟨?_, ?_, ?_, ?_⟩ <;> (apply char_ne_of_toNat; simp; omega)

theorem intStr_not_special (i : Int) : isSpecialNumText (intStr i) = false := by
  unfold isSpecialNumText
  simp only [intStr_strip, intStr_lower]
  cases hs : intStr i with
  | nil => exact absurd hs (intStr_ne_nil i)
  | cons c cs =>
    have hc : IntChar c := intStr_chars i c (by rw [hs]; simp)
    obtain ⟨h1, h2, h3, h4⟩ := intHead_ne_special c hc
    simp [h1, h2, h3, h4]

theorem strFromWords_int_word (i : Int) (l : Option Nat) (q : Option Quote) :
    strFromWords [⟨intStr i, q, l⟩] = .str (intStr i) := by
  unfold strFromWords isPlainNone isPlainAuto
  simp only [intStr_lower]
  cases hs : intStr i with
  | nil => exact absurd hs (intStr_ne_nil i)
  | cons c cs =>
    have hc : IntChar c := intStr_chars i c (by rw [hs]; simp)
    obtain ⟨h1, h2, h3, h4⟩ := intHead_ne_special c hc
    simp [h3, h4, joinWith]

/-- CPython's `int()` on a decimal string -/
def EnvDecimal (env : EvalEnv) : Prop := ∀ i : Int, env (intStr i) = some (.num (.int i))

theorem scalarAsWords_int_ok (a : NumArgs) (fmt : FmtEnv) (i : Int) (ws : List Word)
    (h : scalarAsWords true a fmt (.num (.int i)) = .ok ws) :
    ws = [{ value := intStr i }] ∧ boundsOk a.valueMin a.valueMax (.int i) = true := by
  unfold scalarAsWords numChk at h
  simp only at h
  split at h
  · cases h
  · rename_i hc
    have : ws = [{ value := intStr i }] := by cases h; rfl
    exact ⟨this, checkValue_ok _ _ _ _ _ hc⟩

theorem int_round_trip (a : NumArgs) (fmt : FmtEnv) (env : EvalEnv) (opt opt' : AttrVal)
    (mws ws : List Word) (i : Int) (henv : EnvDecimal env)
    (h : asWords (.int a) fmt opt mws (.num (.int i)) = .ok ws) :
    ws = [{ value := intStr i }] ∧ fromWords (.int a) env opt' ws = .ok (.num (.int i)) := by
  rw [asWords_int_num] at h
  obtain ⟨rfl, hb⟩ := scalarAsWords_int_ok a fmt i ws h
  refine ⟨rfl, ?_⟩
  rw [fromWords_int_eq]
  unfold scalarTail
  simp only [strFromWords_int_word, numberFromValueString_plain env _ _ _ (intStr_not_special i) (henv i)]
  unfold convertChecked
  simp only [↓reduceIte, intFromNumber]
  rw [checkValue_of_boundsOk _ _ _ _ _ hb]
  rfl



/-! ### `ints` -/

theorem splitWs_go_part (p rest cur : Str) (acc : List Str) (hp : ∀ c ∈ p, isSpace c = false) :
    splitWs.go (p ++ rest) cur acc = splitWs.go rest (p.reverse ++ cur) acc := by
  induction p generalizing cur with
  | nil => rfl
  | cons c p ih =>
    have hc := hp c (by simp)
    simp only [List.cons_append, splitWs.go, hc, Bool.false_eq_true, ↓reduceIte]
    rw [ih (c :: cur) (fun d hd => hp d (by simp [hd]))]
    simp

theorem isSpace_blank : isSpace ' ' = true := by decide

/-- `" ".join(parts).split() == parts` for non-empty blank-free parts -/
theorem splitWs_go_join (parts : List Str) (hne : parts ≠ [])
    (hp : ∀ p ∈ parts, p ≠ [] ∧ ∀ c ∈ p, isSpace c = false) :
    ∀ acc, splitWs.go (joinWith [' '] parts) [] acc = acc.reverse ++ parts := by
  induction parts with
  | nil => exact absurd rfl hne
  | cons p ps ih =>
    intro acc
    obtain ⟨hp1, hp2⟩ := hp p (by simp)
    cases ps with
    | nil =>
      have : joinWith [' '] [p] = p ++ [] := by simp [joinWith]
      rw [this, splitWs_go_part p [] [] acc hp2]
      cases hp' : p with
      | nil => exact absurd hp' hp1
      | cons c cs => simp [splitWs.go]
    | cons q rest =>
      have : joinWith [' '] (p :: q :: rest) = p ++ (' ' :: joinWith [' '] (q :: rest)) := by
        simp [joinWith]
      rw [this, splitWs_go_part p _ [] acc hp2]
      have hpe : (p.reverse ++ []).isEmpty = false := by
        cases hp' : p with
        | nil => exact absurd hp' hp1
        | cons c cs => simp
      simp only [splitWs.go, isSpace_blank, ↓reduceIte, hpe, Bool.false_eq_true]
      rw [ih (by simp) (fun x hx => hp x (by simp [hx])) _]
      simp

theorem splitWs_join (parts : List Str) (hne : parts ≠ [])
    (hp : ∀ p ∈ parts, p ≠ [] ∧ ∀ c ∈ p, isSpace c = false) :
    splitWs (joinWith [' '] parts) = parts := by
  unfold splitWs
  rw [splitWs_go_join parts hne hp]; rfl

def strip1 (o c : Char) (s : Str) : Option Str :=
  match s, s.reverse with
  | a :: _, b :: _ => if a == o && b == c && s.length ≥ 1 then some (strip ((s.drop 1).take (s.length - 2))) else Option.none
  | _, _ => Option.none

theorem stripBrackets_succ (n : Nat) (s : Str) :
    stripBrackets (n + 1) s =
      match strip1 '(' ')' s with
      | some s' => stripBrackets n s'
      | Option.none => match strip1 '[' ']' s with
        | some s' => stripBrackets n s'
        | Option.none => s := rfl

theorem strip1_of_head (o cl c : Char) (cs : Str) (h : c ≠ o) : strip1 o cl (c :: cs) = Option.none := by
  unfold strip1
  split
  · rename_i a _ b _ hs _
    cases hs
    simp [h]
  · rfl

theorem stripBrackets_of_head (n : Nat) (c : Char) (cs : Str) (h1 : c ≠ '(') (h2 : c ≠ '[') :
    stripBrackets n (c :: cs) = c :: cs := by
  cases n with
  | zero => rfl
  | succ n => rw [stripBrackets_succ, strip1_of_head _ _ _ _ h1, strip1_of_head _ _ _ _ h2]



def commaBlank (c : Char) : Char := if c == ',' || c == ';' then ' ' else c

/-- `numbers_from_words` once the words are known to be an ordinary text -/
theorem numbersFromWords_str (env : EvalEnv) (ws : List Word) (s : Str) (h : strFromWords ws = .str s) :
    numbersFromWords env ws =
      (mapR (numberFromValueString env ws)
        (splitWs ((stripBrackets (s.length + 1) s).map commaBlank))).map (fun l => .inl (some l)) := by
  unfold numbersFromWords
  simp only [h]
  rw [foldlM_collect, map_nil_append]
  rfl

theorem foldlM_elemStep (isInt : Bool) (a : ListArgs) (ws : List Word) (raws : List PVal) :
    raws.foldlM (elemStep isInt a ws) [] = mapR (elemConv isInt a ws) raws := by
  have : elemStep isInt a ws = fun acc x => (elemConv isInt a ws x).map (fun w => acc ++ [w]) := by
    funext acc x; exact elemStep_eq _ _ _ _ _
  rw [this, foldlM_collect, map_nil_append]

theorem listTail_of_raws (isInt : Bool) (a : ListArgs) (env : EvalEnv) (ws : List Word) (raws : List PVal)
    (h : numbersFromWords env ws = .ok (.inl (some raws)))
    (hs : sizeOk a.sizeMin a.sizeMax raws.length = true) :
    listTail isInt a env ws = (mapR (elemConv isInt a ws) raws).map PVal.list := by
  unfold listTail
  simp only [h, checkSize_of_sizeOk _ _ ws true _ hs, foldlM_elemStep]

theorem mapR_map_id {α β : Type} (g : β → R α) (t : α → β) (l : List α)
    (h : ∀ x ∈ l, g (t x) = .ok x) : mapR g (l.map t) = .ok l := by
  induction l with
  | nil => rfl
  | cons x xs ih =>
    simp only [List.map_cons, mapR, h x (by simp), ih (fun y hy => h y (by simp [hy]))]

/-- the text `ints.as_words` writes for one element -/
def elemText : PVal → Str
  | .none => "None".toList
  | .auto => "Auto".toList
  | .num (.int i) => intStr i
  | _ => []

/-- the elements `ints.as_words` accepts -/
def IntElemOk (a : ListArgs) : PVal → Prop
  | .none => a.allowNoneEl = true
  | .auto => a.allowAutoEl = true
  | .num (.int i) => boundsOk a.valueMin a.valueMax (.int i) = true
  | _ => False

theorem elemWord_int_ok (a : ListArgs) (fmt : FmtEnv) (x : PVal) (w : Word)
    (h : elemWord true a fmt x = .ok w) : w = { value := elemText x } ∧ IntElemOk a x := by
  unfold elemWord at h
  split at h
  · split at h
    · rename_i h1; cases h; exact ⟨rfl, h1⟩
    · cases h
  · split at h
    · rename_i h1; cases h; exact ⟨rfl, h1⟩
    · cases h
  · rename_i n
    split at h
    · cases h
    · rename_i hc
      cases n with
      | int i =>
        have : w = { value := intStr i } := by cases h; rfl
        exact ⟨this, checkValue_ok _ _ _ _ _ hc⟩
      | _ => cases h
  · cases h

theorem goodChars_None : ∀ c ∈ "None".toList, GoodChar c := by
  intro c hc
  simp at hc
  rcases hc with rfl | rfl | rfl | rfl <;> exact ⟨by decide, by decide, by decide, by decide, by decide⟩

theorem goodChars_Auto : ∀ c ∈ "Auto".toList, GoodChar c := by
  intro c hc
  simp at hc
  rcases hc with rfl | rfl | rfl | rfl <;> exact ⟨by decide, by decide, by decide, by decide, by decide⟩

theorem elemText_good (a : ListArgs) (x : PVal) (h : IntElemOk a x) :
    elemText x ≠ [] ∧ ∀ c ∈ elemText x, GoodChar c := by
  cases x with
  | none => exact ⟨by simp [elemText], goodChars_None⟩
  | auto => exact ⟨by simp [elemText], goodChars_Auto⟩
  | num n =>
    cases n with
    | int i => exact ⟨intStr_ne_nil i, fun c hc => intChar_good c (intStr_chars i c hc)⟩
    | _ => exact absurd h (by simp [IntElemOk])
  | _ => exact absurd h (by simp [IntElemOk])

theorem numberFromValueString_elemText (env : EvalEnv) (henv : EnvDecimal env) (a : ListArgs)
    (ws : List Word) (x : PVal) (h : IntElemOk a x) :
    numberFromValueString env ws (elemText x) = .ok x := by
  cases x with
  | none => rfl
  | auto => rfl
  | num n =>
    cases n with
    | int i => exact numberFromValueString_plain env ws _ _ (intStr_not_special i) (henv i)
    | _ => exact absurd h (by simp [IntElemOk])
  | _ => exact absurd h (by simp [IntElemOk])

theorem elemConv_int_ok (a : ListArgs) (ws : List Word) (x : PVal) (h : IntElemOk a x) :
    elemConv true a ws x = .ok x := by
  cases x with
  | none => simp only [IntElemOk] at h; simp [elemConv, h]
  | auto => simp only [IntElemOk] at h; simp [elemConv, h]
  | num n =>
    cases n with
    | int i =>
      simp only [IntElemOk] at h
      simp only [elemConv, convertChecked, ↓reduceIte, intFromNumber]
      rw [checkValue_of_boundsOk _ _ _ _ _ h]; rfl
    | _ => exact absurd h (by simp [IntElemOk])
  | _ => exact absurd h (by simp [IntElemOk])

theorem map_commaBlank_of_good (s : Str) (h : ∀ c ∈ s, GoodChar c) : s.map commaBlank = s := by
  induction s with
  | nil => rfl
  | cons c cs ih =>
    obtain ⟨_, h1, h2, _⟩ := h c (by simp)
    simp [commaBlank, h1, h2, ih (fun d hd => h d (by simp [hd]))]

theorem mem_joinWith_blank (parts : List Str) (c : Char) (hc : c ∈ joinWith [' '] parts) :
    c = ' ' ∨ ∃ p ∈ parts, c ∈ p := by
  induction parts with
  | nil => simp [joinWith] at hc
  | cons p ps ih =>
    cases ps with
    | nil => right; exact ⟨p, by simp, by simpa [joinWith] using hc⟩
    | cons q rest =>
      simp only [joinWith, List.mem_append, List.mem_singleton] at hc
      rcases hc with (hc | hc) | hc
      · right; exact ⟨p, by simp, hc⟩
      · left; exact hc
      · rcases ih hc with h | ⟨p', hp', hcp⟩
        · left; exact h
        · right; exact ⟨p', by simp [List.mem_cons] at hp' ⊢; right; exact hp', hcp⟩

theorem map_commaBlank_join (parts : List Str) (h : ∀ p ∈ parts, ∀ c ∈ p, GoodChar c) :
    (joinWith [' '] parts).map commaBlank = joinWith [' '] parts := by
  have : ∀ c ∈ joinWith [' '] parts, commaBlank c = c := by
    intro c hc
    rcases mem_joinWith_blank parts c hc with rfl | ⟨p, hp, hcp⟩
    · rfl
    · obtain ⟨_, h1, h2, _⟩ := h p hp c hcp
      simp [commaBlank, h1, h2]
  calc (joinWith [' '] parts).map commaBlank = (joinWith [' '] parts).map id :=
        List.map_congr_left this
    _ = _ := by simp



theorem joinWith_head (c : Char) (cs : Str) (ps : List Str) :
    ∃ t, joinWith [' '] ((c :: cs) :: ps) = c :: t := by
  cases ps with
  | nil => exact ⟨cs, rfl⟩
  | cons q rest => exact ⟨cs ++ ' ' :: joinWith [' '] (q :: rest), by simp [joinWith]⟩

def elemWordOf (x : PVal) : Word := { value := elemText x }

theorem strFromWords_elems (l : List PVal) (hne : 2 ≤ l.length ∨ ∃ i, l = [.num (.int i)]) :
    strFromWords (l.map elemWordOf) = .str (joinWith [' '] (l.map elemText)) := by
  rcases hne with h | ⟨i, rfl⟩
  · match l, h with
    | x :: y :: rest, _ =>
      simp only [strFromWords, List.map_cons, isPlainNone, isPlainAuto, Bool.false_eq_true, ↓reduceIte,
        List.map_map]
      rfl
  · exact strFromWords_int_word i _ _

/-- a list of ints (with `None`/`Auto` elements where allowed) written by `ints.as_words` is read
    back unchanged, unless it is the one-element list `[None]` or `[Auto]` -/
theorem ints_round_trip (a : ListArgs) (fmt : FmtEnv) (env : EvalEnv) (opt opt' : AttrVal)
    (mws ws : List Word) (l : List PVal) (henv : EnvDecimal env)
    (hne : 2 ≤ l.length ∨ ∃ i, l = [.num (.int i)])
    (h : asWords (.ints a) fmt opt mws (.list l) = .ok ws) :
    ws = l.map elemWordOf ∧ fromWords (.ints a) env opt' ws = .ok (.list l) := by
  rw [asWords_ints_eq] at h
  unfold listAsWords at h
  split at h
  · cases h
  · rename_i hs
    obtain ⟨hws, hall⟩ := mapR_ok_map _ elemWordOf l ws
      (fun x w hw => (elemWord_int_ok a fmt x w hw).1) h
    have hok : ∀ x ∈ l, IntElemOk a x := fun x hx => (elemWord_int_ok _ _ _ _ (hall x hx)).2
    refine ⟨hws, ?_⟩
    subst hws
    have hstr := strFromWords_elems l hne
    have hparts : ∀ p ∈ l.map elemText, p ≠ [] ∧ ∀ c ∈ p, GoodChar c := by
      intro p hp
      obtain ⟨x, hx, rfl⟩ := List.mem_map.mp hp
      exact elemText_good a x (hok x hx)
    have hlne : l.map elemText ≠ [] := by
      rcases hne with h2 | ⟨i, rfl⟩
      · intro e; have := congrArg List.length e; simp at this; rw [this] at h2; simp at h2
      · simp
    -- the joined text starts with a harmless character
    have hhead : ∃ c t, joinWith [' '] (l.map elemText) = c :: t ∧ c ≠ '(' ∧ c ≠ '[' := by
      cases hp : l.map elemText with
      | nil => exact absurd hp hlne
      | cons p ps =>
        obtain ⟨hp1, hp2⟩ := hparts p (by rw [hp]; simp)
        cases p with
        | nil => exact absurd rfl hp1
        | cons c cs =>
          obtain ⟨t, ht⟩ := joinWith_head c cs ps
          obtain ⟨_, _, _, g1, g2⟩ := hp2 c (by simp)
          exact ⟨c, t, ht, g1, g2⟩
    obtain ⟨c, t, hct, hc1, hc2⟩ := hhead
    have hnum : numbersFromWords env (l.map elemWordOf) = .ok (.inl (some l)) := by
      rw [numbersFromWords_str env _ _ hstr, hct, stripBrackets_of_head _ c t hc1 hc2, ← hct,
        map_commaBlank_join _ (fun p hp => (hparts p hp).2),
        splitWs_join _ hlne (fun p hp => ⟨(hparts p hp).1, fun c hc => ((hparts p hp).2 c hc).1⟩),
        mapR_map_id _ _ _ (fun x hx => numberFromValueString_elemText env henv a _ x (hok x hx))]
      rfl
    rw [fromWords_ints_eq, listTail_of_raws true a env _ l hnum (checkSize_ok _ _ _ _ _ hs)]
    have := mapR_of_forall (elemConv true a (l.map elemWordOf)) id l
      (fun x hx => elemConv_int_ok a _ x (hok x hx))
    rw [this]; simp [Except.map]


/-! ### multi choice, empty selection -/

def multiStep (names : List Str) (st : List Word × List Str × Bool) (w : Word) : List Word × List Str × Bool :=
  let (out, used, bad) := st
  let (value, _) := stripStar w.value
  if names.contains value then
    if used.contains value then (out, used, true)
    else (out ++ [{ value := '*' :: value, quote := w.quote }], used ++ [value], bad)
  else (out ++ [{ value := value, quote := w.quote }], used, bad)

theorem asWords_multi_nil (fmt : FmtEnv) (opt : AttrVal) (mws : List Word) :
    asWords (.choice true) fmt opt mws (.list []) =
      let (out, used, bad) := mws.foldl (multiStep []) ([], [], false)
      if bad then .error (.runtime "improper_master_choice" (firstLine mws))
      else if used.isEmpty && opt.mandatory then .error (.runtime "empty_mandatory_choice" Option.none)
      else .ok out := rfl

theorem foldl_multiStep_nil (mws : List Word) : ∀ out,
    mws.foldl (multiStep []) (out, [], false) = (out ++ mws.map unstar, [], false) := by
  induction mws with
  | nil => intro out; simp
  | cons w ws ih =>
    intro out
    rw [List.foldl_cons]
    have : multiStep [] (out, [], false) w = (out ++ [unstar w], [], false) := by
      cases hs : stripStar w.value with
      | mk v st => simp [multiStep, unstar, hs]
    rw [this, ih]; simp

/-- a multi choice: the empty selection is written as the master's alternatives with no star and
    read back as the empty list -/
theorem multi_choice_empty_round_trip (fmt : FmtEnv) (env : EvalEnv) (opt : AttrVal) (mws ws : List Word)
    (hds : NoDoubleStar mws) (h : asWords (.choice true) fmt opt mws (.list []) = .ok ws)
    (hpa : isPlainAuto ws = false) :
    ws = mws.map unstar ∧ fromWords (.choice true) env opt ws = .ok (.list []) := by
  rw [asWords_multi_nil, foldl_multiStep_nil] at h
  simp only [Bool.false_eq_true, ↓reduceIte, List.isEmpty_nil, Bool.true_and, List.nil_append] at h
  split at h
  · cases h
  · rename_i hm
    cases h
    refine ⟨rfl, ?_⟩
    rw [fromWords_choice_eq, hpa, starredNames_unstar mws hds]
    simp [hm]



/-! ## C01: `str(converter)` re-parses to the same converter -/

/-! ### splitting and trimming -/

theorem splitOn_ne_nil (sep : Char) (s : Str) : splitOn sep s ≠ [] := by
  induction s with
  | nil => simp [splitOn]
  | cons c cs ih =>
    unfold splitOn
    split
    · simp
    · split <;> simp

theorem splitOn_of_not_mem (sep : Char) (s : Str) (h : sep ∉ s) : splitOn sep s = [s] := by
  induction s with
  | nil => rfl
  | cons c cs ih =>
    have hc : (c == sep) = false := by
      simp only [beq_eq_false_iff_ne, ne_eq]; intro e; exact h (by simp [e])
    unfold splitOn
    rw [ih (fun hm => h (by simp [hm]))]
    simp [hc]

theorem splitOn_sep_cons (sep : Char) (b : Str) : splitOn sep (sep :: b) = [] :: splitOn sep b := by
  cases hs : splitOn sep b with
  | nil => exact absurd hs (splitOn_ne_nil sep b)
  | cons p ps =>
    rw [splitOn, hs]; simp

theorem splitOn_cons_ne (sep c : Char) (b : Str) (p : Str) (ps : List Str) (hc : c ≠ sep)
    (hs : splitOn sep b = p :: ps) : splitOn sep (c :: b) = (c :: p) :: ps := by
  rw [splitOn, hs]; simp [hc]

theorem splitOn_append_sep (sep : Char) (a b : Str) (h : sep ∉ a) :
    splitOn sep (a ++ sep :: b) = a :: splitOn sep b := by
  induction a with
  | nil => exact splitOn_sep_cons sep b
  | cons c cs ih =>
    have hc : c ≠ sep := by intro e; exact h (by simp [e])
    exact splitOn_cons_ne sep c _ _ _ hc (ih (fun hm => h (by simp [hm])))

theorem trimWs_of_no_ws (s : Str) (h : ∀ c ∈ s, isAsciiWs c = false) : trimWs s = s := by
  unfold trimWs
  rw [dropWhile_of_all_false _ s h, dropWhile_of_all_false _ s.reverse (by simpa using h)]
  simp

theorem trimWs_blank_cons (s : Str) : trimWs (' ' :: s) = trimWs s := by
  have : isAsciiWs ' ' = true := by decide
  simp [trimWs, List.dropWhile, this]

theorem trimWs_of_ends (s : Str) (c d : Char) (m m' : Str) (h1 : s = c :: m) (h2 : isAsciiWs c = false)
    (h3 : s.reverse = d :: m') (h4 : isAsciiWs d = false) : trimWs s = s := by
  unfold trimWs
  have e1 : s.dropWhile isAsciiWs = s := by rw [h1]; simp [List.dropWhile, h2]
  rw [e1, h3]
  have e2 : (d :: m').dropWhile isAsciiWs = d :: m' := by simp [List.dropWhile, h4]
  rw [e2, ← h3]; simp

/-! ### the characters of keywords and literals -/

def ArgChar (c : Char) : Prop := c ≠ ' ' ∧ c ≠ '\t' ∧ c ≠ ',' ∧ c ≠ '=' ∧ c ≠ '(' ∧ c ≠ ')'

def ArgText (s : Str) : Prop := s ≠ [] ∧ ∀ c ∈ s, ArgChar c

theorem argChar_of_toNat (c : Char)
    (h : c.toNat = 45 ∨ c.toNat = 46 ∨ (48 ≤ c.toNat ∧ c.toNat ≤ 57) ∨ (65 ≤ c.toNat ∧ c.toNat ≤ 90) ∨
         c.toNat = 95 ∨ (97 ≤ c.toNat ∧ c.toNat ≤ 122)) : ArgChar c := by
  refine ⟨?_, ?_, ?_, ?_, ?_, ?_⟩ <;> (apply char_ne_of_toNat; simp; omega)

theorem intChar_arg (c : Char) (h : IntChar c) : ArgChar c := by
  apply argChar_of_toNat
  rcases intChar_toNat c h with h | h
  · exact .inl h
  · exact .inr (.inr (.inl h))

theorem idChar_arg (c : Char) (h : (isIdStart c || isDigit c) = true) : ArgChar c := by
  apply argChar_of_toNat
  simp only [isIdStart, isUpperAscii, isLowerAscii, isDigit, Bool.or_eq_true, Bool.and_eq_true,
    decide_eq_true_eq, beq_iff_eq] at h
  simp at h
  rcases h with ((h | h) | h) | h
  · subst h; right; right; right; right; left; rfl
  · right; right; right; left; exact h
  · right; right; right; right; right; exact h
  · right; right; left; exact h

theorem argText_of_simpleIdent (k : Str) (h : isSimpleIdent k = true) : ArgText k := by
  cases k with
  | nil => simp [isSimpleIdent] at h
  | cons c cs =>
    simp only [isSimpleIdent, Bool.and_eq_true, List.all_eq_true] at h
    refine ⟨by simp, ?_⟩
    intro d hd
    rcases List.mem_cons.mp hd with rfl | hd
    · exact idChar_arg _ (by simp [h.1])
    · exact idChar_arg _ (h.2 d hd)

theorem intStr_argText (i : Int) : ArgText (intStr i) :=
  ⟨intStr_ne_nil i, fun c hc => intChar_arg c (intStr_chars i c hc)⟩

theorem argChar_not_ws (c : Char) (h : ArgChar c) : isAsciiWs c = false := by
  obtain ⟨h1, h2, _⟩ := h
  simp [isAsciiWs, h1, h2]

theorem argText_trim (s : Str) (h : ArgText s) : trimWs s = s :=
  trimWs_of_no_ws s (fun c hc => argChar_not_ws c (h.2 c hc))



/-! ### `splitCall`, `parseArg`, `parseArgs` on printed text -/

theorem joinWith_first (sep : Str) (parts : List Str) (hne : parts ≠ []) (hp : ∀ p ∈ parts, p ≠ []) :
    ∃ c m, joinWith sep parts = c :: m ∧ ∃ p ∈ parts, c ∈ p := by
  cases parts with
  | nil => exact absurd rfl hne
  | cons p ps =>
    cases p with
    | nil => exact absurd rfl (hp [] (by simp))
    | cons c cs =>
      cases ps with
      | nil => exact ⟨c, cs, rfl, c :: cs, by simp, by simp⟩
      | cons q rest => exact ⟨c, cs ++ sep ++ joinWith sep (q :: rest), by simp [joinWith], c :: cs, List.mem_cons_self, by simp⟩

theorem joinWith_last (sep : Str) (parts : List Str) (hne : parts ≠ []) (hp : ∀ p ∈ parts, p ≠ []) :
    ∃ m d, joinWith sep parts = m ++ [d] ∧ ∃ p ∈ parts, d ∈ p := by
  induction parts with
  | nil => exact absurd rfl hne
  | cons p ps ih =>
    cases ps with
    | nil =>
      rcases List.eq_nil_or_concat p with h | ⟨m, d, h⟩
      · exact absurd h (hp p (by simp))
      · exact ⟨m, d, by simp [joinWith, h], p, by simp, by simp [h]⟩
    | cons q rest =>
      obtain ⟨m, d, h1, p', hp', hd⟩ := ih (by simp) (fun x hx => hp x (by simp [hx]))
      refine ⟨p ++ sep ++ m, d, by simp [joinWith, h1], p', ?_, hd⟩
      exact List.mem_cons_of_mem _ hp'

theorem trimWs_join (sep : Str) (parts : List Str) (hne : parts ≠ [])
    (hp : ∀ p ∈ parts, p ≠ [] ∧ ∀ c ∈ p, isAsciiWs c = false) :
    trimWs (joinWith sep parts) = joinWith sep parts := by
  obtain ⟨c, m, h1, p, hpm, hc⟩ := joinWith_first sep parts hne (fun p h => (hp p h).1)
  obtain ⟨m', d, h2, p', hpm', hd⟩ := joinWith_last sep parts hne (fun p h => (hp p h).1)
  exact trimWs_of_ends _ c d m m'.reverse h1 ((hp p hpm).2 c hc) (by rw [h2]; simp) ((hp p' hpm').2 d hd)

theorem splitCall_call (name B : Str) (hn : isSimpleIdent name = true)
    (hB : ∀ c ∈ B, c ≠ '(' ∧ c ≠ ')') :
    splitCall (name ++ '(' :: B ++ [')']) = some (name, some B) := by
  have hnt := argText_of_simpleIdent name hn
  have htrim : trimWs (name ++ '(' :: B ++ [')']) = name ++ '(' :: B ++ [')'] := by
    cases hname : name with
    | nil => exact absurd hname hnt.1
    | cons c m =>
      have hc : isAsciiWs c = false := argChar_not_ws c (hnt.2 c (by rw [hname]; simp))
      refine trimWs_of_ends _ c ')' (m ++ '(' :: B ++ [')']) ((c :: m ++ '(' :: B).reverse) (by simp) hc (by simp) (by decide)
  have hsplit : splitOn '(' (name ++ '(' :: B ++ [')']) = [name, B ++ [')']] := by
    have h1 : '(' ∉ name := fun hm => (hnt.2 _ hm).2.2.2.2.1 rfl
    have h2 : '(' ∉ B ++ [')'] := by
      intro hm
      rcases List.mem_append.mp hm with hm | hm
      · exact (hB _ hm).1 rfl
      · simp at hm
    have : name ++ '(' :: B ++ [')'] = name ++ '(' :: (B ++ [')']) := by simp
    rw [this, splitOn_append_sep _ _ _ h1, splitOn_of_not_mem _ _ h2]
  have hcont : B.reverse.contains ')' = false := by
    simp only [List.contains_eq_mem, List.mem_reverse, decide_eq_false_iff_not]
    intro hm; exact (hB _ hm).2 rfl
  unfold splitCall
  simp only [htrim, hsplit, argText_trim name hnt, List.reverse_append, List.reverse_cons, List.reverse_nil,
    List.nil_append, List.singleton_append, hn, hcont, Bool.not_false, Bool.and_self, ↓reduceIte,
    List.reverse_reverse]

/-- a leading blank (after the comma) does not matter -/
theorem parseArg_blank (p : Str) : parseArg (' ' :: p) = parseArg p := by
  unfold parseArg
  cases hs : splitOn '=' p with
  | nil => exact absurd hs (splitOn_ne_nil _ _)
  | cons k rest =>
    rw [splitOn_cons_ne '=' ' ' p k rest (by decide) hs]
    cases rest with
    | nil => rfl
    | cons v rest' =>
      cases rest' with
      | nil => simp only [trimWs_blank_cons]
      | cons _ _ => rfl

theorem parseArg_kw (k : String) (t : Str) (lit : Lit) (hk : isSimpleIdent k.toList = true)
    (ht : ArgText t) (hl : parseLit t = some lit) : parseArg (kw k t) = some (k.toList, lit) := by
  have hkt := argText_of_simpleIdent _ hk
  have h1 : '=' ∉ k.toList := fun hm => (hkt.2 _ hm).2.2.2.1 rfl
  have h2 : '=' ∉ t := fun hm => (ht.2 _ hm).2.2.2.1 rfl
  unfold parseArg kw
  rw [splitOn_append_sep _ _ _ h1, splitOn_of_not_mem _ _ h2]
  simp only [argText_trim _ hkt, argText_trim _ ht, hk, ↓reduceIte, hl, Option.map_some]

theorem kw_argText (k : String) (t : Str) (hk : isSimpleIdent k.toList = true) (ht : ArgText t) :
    kw k t ≠ [] ∧ (∀ c ∈ kw k t, isAsciiWs c = false ∧ c ≠ ',' ∧ c ≠ '(' ∧ c ≠ ')') := by
  have hkt := argText_of_simpleIdent _ hk
  refine ⟨by simp [kw], ?_⟩
  intro c hc
  simp only [kw, List.mem_append, List.mem_cons] at hc
  rcases hc with hc | rfl | hc
  · have := hkt.2 c hc; exact ⟨argChar_not_ws c this, this.2.2.1, this.2.2.2.2.1, this.2.2.2.2.2⟩
  · exact ⟨by decide, by decide, by decide, by decide⟩
  · have := ht.2 c hc; exact ⟨argChar_not_ws c this, this.2.2.1, this.2.2.2.2.1, this.2.2.2.2.2⟩

def spaced : List Str → List Str
  | [] => []
  | p :: ps => p :: ps.map (' ' :: ·)

theorem splitOn_comma_join (parts : List Str) (hne : parts ≠ []) (hp : ∀ p ∈ parts, ',' ∉ p) :
    splitOn ',' (joinWith ", ".toList parts) = spaced parts := by
  induction parts with
  | nil => exact absurd rfl hne
  | cons p ps ih =>
    cases ps with
    | nil => simp only [joinWith, spaced, List.map_nil]; exact splitOn_of_not_mem _ _ (hp p (by simp))
    | cons q rest =>
      have hq := ih (by simp) (fun x hx => hp x (by simp [hx]))
      have : joinWith ", ".toList (p :: q :: rest) = p ++ ',' :: (' ' :: joinWith ", ".toList (q :: rest)) := by
        simp [joinWith]
      rw [this, splitOn_append_sep _ _ _ (hp p (by simp))]
      simp only [spaced] at hq ⊢
      rw [splitOn_cons_ne ',' ' ' _ _ _ (by decide) hq]
      simp

def collectOpt {α : Type} : List (Option α) → Option (List α)
  | [] => some []
  | x :: xs => match collectOpt xs, x with
    | some l, some a => some (a :: l)
    | _, _ => none

theorem foldr_parseArg (xs : List Str) :
    xs.foldr (fun p acc => match acc, parseArg p with
      | some l, some a => some (a :: l)
      | _, _ => none) (some []) = collectOpt (xs.map parseArg) := by
  induction xs with
  | nil => rfl
  | cons x xs ih =>
    rw [List.foldr_cons, ih]
    simp only [List.map_cons, collectOpt]
    cases collectOpt (xs.map parseArg) <;> cases parseArg x <;> rfl

theorem map_parseArg_spaced (parts : List Str) : (spaced parts).map parseArg = parts.map parseArg := by
  cases parts with
  | nil => rfl
  | cons p ps => simp [spaced, List.map_map, Function.comp_def, parseArg_blank]

theorem collectOpt_map {α β : Type} (f : α → Option β) (g : α → β) (l : List α)
    (h : ∀ x ∈ l, f x = some (g x)) : collectOpt (l.map f) = some (l.map g) := by
  induction l with
  | nil => rfl
  | cons x xs ih =>
    simp only [List.map_cons, collectOpt, ih (fun y hy => h y (by simp [hy])), h x (by simp)]

/-- a printed keyword argument: key, literal text, the literal -/
structure PArg where
  key : String
  text : Str
  lit : Lit

def PArg.Ok (p : PArg) : Prop :=
  isSimpleIdent p.key.toList = true ∧ ArgText p.text ∧ parseLit p.text = some p.lit

def PArg.render (p : PArg) : Str := kw p.key p.text
def PArg.res (p : PArg) : Str × Lit := (p.key.toList, p.lit)

theorem parseArgs_join (ps : List PArg) (hne : ps ≠ []) (hok : ∀ p ∈ ps, p.Ok) :
    parseArgs (joinWith ", ".toList (ps.map PArg.render)) = some (ps.map PArg.res) := by
  have hparts : ∀ x ∈ ps.map PArg.render,
      x ≠ [] ∧ (∀ c ∈ x, isAsciiWs c = false ∧ c ≠ ',' ∧ c ≠ '(' ∧ c ≠ ')') := by
    intro x hx
    obtain ⟨p, hp, rfl⟩ := List.mem_map.mp hx
    exact kw_argText p.key p.text (hok p hp).1 (hok p hp).2.1
  have hne' : ps.map PArg.render ≠ [] := by simpa using hne
  -- trimming leaves the joined text alone
  have htrim : trimWs (joinWith ", ".toList (ps.map PArg.render)) = joinWith ", ".toList (ps.map PArg.render) :=
    trimWs_join _ _ hne' (fun p hp => ⟨(hparts p hp).1, fun c hc => ((hparts p hp).2 c hc).1⟩)
  have hjne : (joinWith ", ".toList (ps.map PArg.render)).isEmpty = false := by
    cases hps : ps.map PArg.render with
    | nil => exact absurd hps hne'
    | cons x xs =>
      have hx := hparts x (by rw [hps]; simp)
      cases x with
      | nil => exact absurd rfl hx.1
      | cons c cs => cases xs <;> simp [joinWith]
  have hsplit := splitOn_comma_join (ps.map PArg.render) hne' (fun p hp hm => ((hparts p hp).2 _ hm).2.1 rfl)
  -- no trailing comma
  have hlast : ∀ x ∈ spaced (ps.map PArg.render), (trimWs x).isEmpty = false := by
    intro x hx
    have : ∃ p ∈ ps.map PArg.render, trimWs x = p := by
      cases hps : ps.map PArg.render with
      | nil => rw [hps] at hx; simp [spaced] at hx
      | cons y ys =>
        rw [hps] at hx
        simp only [spaced, List.mem_cons, List.mem_map] at hx
        rcases hx with rfl | ⟨z, hz, rfl⟩
        · exact ⟨x, by simp, trimWs_of_no_ws _ (fun c hc => ((hparts x (by rw [hps]; simp)).2 c hc).1)⟩
        · exact ⟨z, by simp [hz], by
            rw [trimWs_blank_cons]
            exact trimWs_of_no_ws _ (fun c hc => ((hparts z (by rw [hps]; simp [hz])).2 c hc).1)⟩
    obtain ⟨p, hp, he⟩ := this
    rw [he]
    cases p with
    | nil => exact absurd rfl (hparts _ hp).1
    | cons _ _ => rfl
  unfold parseArgs
  simp only [htrim, hjne, Bool.false_eq_true, ↓reduceIte, hsplit]
  have hfold : (spaced (ps.map PArg.render)).foldr (fun p acc => match acc, parseArg p with
      | some l, some a => some (a :: l)
      | _, _ => none) (some []) = some (ps.map PArg.res) := by
    rw [foldr_parseArg, map_parseArg_spaced, List.map_map]
    exact collectOpt_map _ _ ps
      (fun p hp => parseArg_kw p.key p.text p.lit (hok p hp).1 (hok p hp).2.1 (hok p hp).2.2)
  split
  · rename_i last restRev hr
    have : last ∈ spaced (ps.map PArg.render) := by
      have : last ∈ (spaced (ps.map PArg.render)).reverse := by rw [hr]; simp
      simpa using this
    simp only [hlast last this, Bool.false_eq_true, ↓reduceIte]
    exact hfold
  · exact hfold



/-! ### `convFromExpr` once the call is split and its arguments parsed -/

def convOfArgs (nm : String) (args : List (Str × Lit)) (line : Option Nat) : R Conv :=
      if hasDup args then .error (.unsupported "repeated keyword") else
      let known (ks : List String) : Bool := args.all (fun p => ks.contains (String.ofList p.1))
      let simple (c : Conv) : R Conv := if args.isEmpty then .ok c else .error (errConstruct line)
      match nm with
      | "words" => simple .words
      | "strings" => simple .strings
      | "str" => simple .str
      | "qstr" => simple .qstr
      | "path" => simple .path
      | "key" => simple .key
      | "bool" => simple .bool
      | "choice" =>
        if !known ["multi"] then .error (errConstruct line) else
        match boolArg false (lookupArg args "multi") with
        | some b => .ok (.choice b)
        | Option.none => .error (.unsupported "choice(multi=non-bool)")
      | "int" | "float" =>
        if !known ["value_min", "value_max", "allow_none"] then .error (errConstruct line) else
        let intOnly := nm == "int"
        match boundArg intOnly (lookupArg args "value_min"), boundArg intOnly (lookupArg args "value_max"),
              boolArg true (lookupArg args "allow_none") with
        | some lo, some hi, some an =>
          let bad := match lo, hi with
            | some a, some b => numLE a b == some false
            | _, _ => false
          if bad then .error (errConstruct line)
          else
            let a : NumArgs := { valueMin := lo, valueMax := hi, allowNone := an }
            .ok (if intOnly then .int a else .float a)
        | _, _, _ => .error (.unsupported "numeric type argument outside the modelled domain")
      | _ =>  -- ints / floats
        if !known ["size", "size_min", "size_max", "value_min", "value_max",
                   "allow_none_elements", "allow_auto_elements"] then .error (errConstruct line) else
        let intOnly := nm == "ints"
        match sizeArg (lookupArg args "size"), sizeArg (lookupArg args "size_min"),
              sizeArg (lookupArg args "size_max"),
              boundArg intOnly (lookupArg args "value_min"), boundArg intOnly (lookupArg args "value_max"),
              boolArg false (lookupArg args "allow_none_elements"),
              boolArg false (lookupArg args "allow_auto_elements") with
        | some size, some smin, some smax, some lo, some hi, some ne, some ae =>
          let bad1 := size.isSome && (smin.isSome || smax.isSome)
          let (smin', smax', bad2) := match size with
            | some n => (some n, some n, decide (n ≤ 0))
            | Option.none =>
              (smin, smax,
                (match smin with | some a => decide (a ≤ 0) | Option.none => false) ||
                (match smax with | some b => decide (b ≤ 0) | Option.none => false) ||
                (match smin, smax with | some a, some b => decide (b < a) | _, _ => false))
          let bad3 := match lo, hi with
            | some a, some b => numLE a b == some false
            | _, _ => false
          if bad1 || bad2 || bad3 then .error (errConstruct line)
          else
            let a : ListArgs := { sizeMin := smin', sizeMax := smax', valueMin := lo, valueMax := hi,
                                  allowNoneEl := ne, allowAutoEl := ae }
            .ok (if intOnly then .ints a else .floats a)
        | _, _, _, _, _, _, _ => .error (.unsupported "list type argument outside the modelled domain")

theorem convFromExpr_of (expr name : Str) (argText : Option Str) (args : List (Str × Lit)) (line : Option Nat)
    (h1 : splitCall expr = some (name, argText))
    (hb : builtinTypeNames.contains (String.ofList name) = true)
    (h2 : parseArgs (argText.getD []) = some args) :
    convFromExpr expr line = convOfArgs (String.ofList name) args line := by
  unfold convFromExpr
  simp only [h1, hb, h2, Bool.not_true, Bool.false_eq_true, ↓reduceIte]
  rfl

theorem mem_joinWith (sep : Str) (parts : List Str) (c : Char) (hc : c ∈ joinWith sep parts) :
    c ∈ sep ∨ ∃ p ∈ parts, c ∈ p := by
  induction parts with
  | nil => simp [joinWith] at hc
  | cons p ps ih =>
    cases ps with
    | nil => right; exact ⟨p, by simp, by simpa [joinWith] using hc⟩
    | cons q rest =>
      simp only [joinWith, List.mem_append] at hc
      rcases hc with (hc | hc) | hc
      · right; exact ⟨p, by simp, hc⟩
      · left; exact hc
      · rcases ih hc with h | ⟨p', hp', hcp⟩
        · left; exact h
        · right; exact ⟨p', List.mem_cons_of_mem _ hp', hcp⟩

/-- the printed call `name(k1=v1, k2=v2, …)` is understood as the call of `name` with those
    keyword arguments -/
theorem convFromExpr_call (name : String) (ps : List PArg) (line : Option Nat)
    (hn : isSimpleIdent name.toList = true) (hb : builtinTypeNames.contains name = true)
    (hne : ps ≠ []) (hok : ∀ p ∈ ps, p.Ok) :
    convFromExpr (name.toList ++ '(' :: joinWith ", ".toList (ps.map PArg.render) ++ [')']) line
      = convOfArgs name (ps.map PArg.res) line := by
  have hB : ∀ c ∈ joinWith ", ".toList (ps.map PArg.render), c ≠ '(' ∧ c ≠ ')' := by
    intro c hc
    rcases mem_joinWith _ _ c hc with h | ⟨x, hx, hcx⟩
    · simp at h; rcases h with rfl | rfl <;> exact ⟨by decide, by decide⟩
    · obtain ⟨p, hp, rfl⟩ := List.mem_map.mp hx
      have := (kw_argText p.key p.text (hok p hp).1 (hok p hp).2.1).2 c hcx
      exact ⟨this.2.2.1, this.2.2.2⟩
  have h1 := splitCall_call name.toList _ hn hB
  have := convFromExpr_of _ name.toList _ (ps.map PArg.res) line h1
    (by rw [String.ofList_toList]; exact hb) (by simpa using parseArgs_join ps hne hok)
  rw [String.ofList_toList] at this
  exact this



/-! ### argument lists made of optional slots -/

/-- the parsed arguments of a list of slots `(keyword, optional literal)` -/
def argsOf : List (String × Option Lit) → List (Str × Lit)
  | [] => []
  | (k, some l) :: rest => (k.toList, l) :: argsOf rest
  | (_, Option.none) :: rest => argsOf rest

/-- the printed arguments of a list of slots -/
def pargsOf : List (String × Option (Str × Lit)) → List PArg
  | [] => []
  | (k, some (t, l)) :: rest => ⟨k, t, l⟩ :: pargsOf rest
  | (_, Option.none) :: rest => pargsOf rest

def kwdsOf : List (String × Option Str) → List Str
  | [] => []
  | (k, some t) :: rest => kw k t :: kwdsOf rest
  | (_, Option.none) :: rest => kwdsOf rest

theorem pargsOf_res (sl : List (String × Option (Str × Lit))) :
    (pargsOf sl).map PArg.res = argsOf (sl.map (fun s => (s.1, s.2.map (·.2)))) := by
  induction sl with
  | nil => rfl
  | cons s rest ih =>
    obtain ⟨k, o⟩ := s
    cases o with
    | none => simpa [pargsOf, argsOf] using ih
    | some tl => obtain ⟨t, l⟩ := tl; simp [pargsOf, argsOf, PArg.res, ih]

theorem pargsOf_render (sl : List (String × Option (Str × Lit))) :
    (pargsOf sl).map PArg.render = kwdsOf (sl.map (fun s => (s.1, s.2.map (·.1)))) := by
  induction sl with
  | nil => rfl
  | cons s rest ih =>
    obtain ⟨k, o⟩ := s
    cases o with
    | none => simpa [pargsOf, kwdsOf] using ih
    | some tl => obtain ⟨t, l⟩ := tl; simp [pargsOf, kwdsOf, PArg.render, ih]

theorem pargsOf_ok (sl : List (String × Option (Str × Lit)))
    (h : ∀ s ∈ sl, isSimpleIdent s.1.toList = true ∧
      ∀ t l, s.2 = some (t, l) → ArgText t ∧ parseLit t = some l) :
    ∀ p ∈ pargsOf sl, p.Ok := by
  induction sl with
  | nil => intro p hp; simp [pargsOf] at hp
  | cons s rest ih =>
    obtain ⟨k, o⟩ := s
    have ih' := ih (fun s hs => h s (by simp [hs]))
    cases o with
    | none => simpa [pargsOf] using ih'
    | some tl =>
      obtain ⟨t, l⟩ := tl
      intro p hp
      simp only [pargsOf, List.mem_cons] at hp
      rcases hp with rfl | hp
      · have := h (k, some (t, l)) (by simp)
        exact ⟨this.1, this.2 t l rfl⟩
      · exact ih' p hp

theorem kwdsOf_cons (k : String) (o : Option Str) (rest : List (String × Option Str)) :
    kwdsOf ((k, o) :: rest) = (match o with | some t => [kw k t] | Option.none => []) ++ kwdsOf rest := by
  cases o <;> rfl

theorem lookupArg_argsOf_absent (sl : List (String × Option Lit)) (k : String)
    (h : ∀ s ∈ sl, s.1.toList ≠ k.toList) : lookupArg (argsOf sl) k = Option.none := by
  induction sl with
  | nil => rfl
  | cons s rest ih =>
    obtain ⟨k', o⟩ := s
    have ih' := ih (fun s hs => h s (by simp [hs]))
    cases o with
    | none => simpa [argsOf] using ih'
    | some l =>
      have hk : (k'.toList == k.toList) = false := by simpa using h (k', some l) (by simp)
      unfold lookupArg at ih' ⊢
      simp only [argsOf, List.find?_cons, hk]
      exact ih'

theorem lookupArg_argsOf (sl : List (String × Option Lit)) (hnd : (sl.map (·.1.toList)).Nodup)
    (k : String) (o : Option Lit) (hm : (k, o) ∈ sl) : lookupArg (argsOf sl) k = o := by
  induction sl with
  | nil => cases hm
  | cons s rest ih =>
    obtain ⟨k', o'⟩ := s
    simp only [List.map_cons, List.nodup_cons] at hnd
    rcases List.mem_cons.mp hm with he | hm'
    · cases he
      cases o with
      | none =>
        simp only [argsOf]
        apply lookupArg_argsOf_absent
        intro s hs e
        exact hnd.1 (by rw [← e]; exact List.mem_map_of_mem (f := fun s => s.1.toList) hs)
      | some l => simp [argsOf, lookupArg]
    · have ih' := ih hnd.2 hm'
      cases o' with
      | none => simpa [argsOf] using ih'
      | some l =>
        have hk : (k'.toList == k.toList) = false := by
          simp only [beq_eq_false_iff_ne, ne_eq]
          intro e
          exact hnd.1 (by rw [e]; exact List.mem_map_of_mem (f := fun s => s.1.toList) hm')
        unfold lookupArg at ih' ⊢
        simp only [argsOf, List.find?_cons, hk]
        exact ih'

theorem all_argsOf (sl : List (String × Option Lit)) (f : Str × Lit → Bool)
    (h : ∀ s ∈ sl, ∀ l, f (s.1.toList, l) = true) : (argsOf sl).all f = true := by
  induction sl with
  | nil => rfl
  | cons s rest ih =>
    obtain ⟨k, o⟩ := s
    have ih' := ih (fun s hs => h s (by simp [hs]))
    cases o with
    | none => simpa [argsOf] using ih'
    | some l =>
      simp only [argsOf, List.all_cons, ih', Bool.and_true]
      exact h (k, some l) (by simp) l

theorem keys_argsOf_sublist (sl : List (String × Option Lit)) :
    List.Sublist ((argsOf sl).map (·.1)) (sl.map (·.1.toList)) := by
  induction sl with
  | nil => exact .slnil
  | cons s rest ih =>
    obtain ⟨k, o⟩ := s
    cases o with
    | none => exact .cons _ ih
    | some l => exact .cons_cons _ ih

theorem eraseDups_of_nodup (l : List Str) (h : l.Nodup) : l.eraseDups = l := by
  induction l with
  | nil => rfl
  | cons a as ih =>
    simp only [List.nodup_cons] at h
    have : as.filter (fun b => !b == a) = as := by
      rw [List.filter_eq_self]
      intro b hb
      simp only [Bool.not_eq_eq_eq_not, Bool.not_true, beq_eq_false_iff_ne, ne_eq]
      intro e; subst e; exact h.1 hb
    rw [List.eraseDups_cons, this, ih h.2]

theorem hasDup_argsOf (sl : List (String × Option Lit)) (hnd : (sl.map (·.1.toList)).Nodup) :
    hasDup (argsOf sl) = false := by
  unfold hasDup
  have : ((argsOf sl).map (·.1)).Nodup := (keys_argsOf_sublist sl).nodup hnd
  simp [eraseDups_of_nodup _ this]



/-! ### `int` and `float` types -/

def boolText (b : Bool) : Str := if b then "True".toList else "False".toList

def boundSlot (isInt : Bool) (b : PNum) : Str × Lit := (boundStr isInt b, Lit.num b)

def numSlots (isInt : Bool) (a : NumArgs) : List (String × Option (Str × Lit)) :=
  [("value_min", a.valueMin.map (boundSlot isInt)),
   ("value_max", a.valueMax.map (boundSlot isInt)),
   ("allow_none", some (boolText a.allowNone, Lit.bool a.allowNone))]

theorem numArgsStr_eq (name : String) (isInt : Bool) (a : NumArgs) :
    numArgsStr name isInt a
      = name.toList ++ '(' :: joinWith ", ".toList ((pargsOf (numSlots isInt a)).map PArg.render) ++ [')'] := by
  obtain ⟨lo, hi, an⟩ := a
  cases lo <;> cases hi <;> rfl

theorem numSlots_ne (isInt : Bool) (a : NumArgs) : pargsOf (numSlots isInt a) ≠ [] := by
  obtain ⟨lo, hi, an⟩ := a
  cases lo <;> cases hi <;> simp [numSlots, pargsOf]

theorem parseLit_intStr (i : Int) : parseLit (intStr i) = some (.num (.int i)) := by
  unfold parseLit
  cases hs : intStr i with
  | nil => exact absurd hs (intStr_ne_nil i)
  | cons c cs =>
    have hc : IntChar c := intStr_chars i c (by rw [hs]; simp)
    have ht := intChar_toNat c hc
    have h1 : c ≠ 'N' := by apply char_ne_of_toNat; simp; omega
    have h2 : c ≠ 'T' := by apply char_ne_of_toNat; simp; omega
    have h3 : c ≠ 'F' := by apply char_ne_of_toNat; simp; omega
    have e1 : (c :: cs == "None".toList) = false := by simp [h1]
    have e2 : (c :: cs == "True".toList) = false := by simp [h2]
    have e3 : (c :: cs == "False".toList) = false := by simp [h3]
    simp only [e1, e2, e3, Bool.false_eq_true, ↓reduceIte]
    rw [← hs, parseIntLit_intStr]

theorem boolText_ok (b : Bool) : ArgText (boolText b) ∧ parseLit (boolText b) = some (.bool b) := by
  cases b
  · exact ⟨argText_of_simpleIdent _ (by decide), by rfl⟩
  · exact ⟨argText_of_simpleIdent _ (by decide), by rfl⟩

/-- a printable bound: its text is a clean literal that parses to the bound -/
def BoundTextOk (isInt : Bool) (b : PNum) : Prop :=
  ArgText (boundStr isInt b) ∧ parseLit (boundStr isInt b) = some (.num b)

theorem boundTextOk_int (isInt : Bool) (i : Int) (h : i.natAbs < 1000000) : BoundTextOk isInt (.int i) := by
  have : boundStr isInt (.int i) = intStr i := by
    cases isInt
    · have : i.natAbs < 10000000000 := by omega
      simp [boundStr, fmtG10, this]
    · rfl
  unfold BoundTextOk
  rw [this]
  exact ⟨intStr_argText i, parseLit_intStr i⟩

theorem convFromExpr_numArgsStr (name : String) (isInt : Bool) (a : NumArgs) (line : Option Nat)
    (hn : isSimpleIdent name.toList = true) (hb : builtinTypeNames.contains name = true)
    (hlo : ∀ b, a.valueMin = some b → BoundTextOk isInt b)
    (hhi : ∀ b, a.valueMax = some b → BoundTextOk isInt b) :
    convFromExpr (numArgsStr name isInt a) line =
      convOfArgs name (argsOf [("value_min", a.valueMin.map Lit.num), ("value_max", a.valueMax.map Lit.num),
        ("allow_none", some (Lit.bool a.allowNone))]) line := by
  rw [numArgsStr_eq, convFromExpr_call name _ line hn hb (numSlots_ne isInt a), pargsOf_res]
  · simp [numSlots, boundSlot, Option.map_map, Function.comp_def]
  · apply pargsOf_ok
    intro s hs
    simp only [numSlots, List.mem_cons, List.not_mem_nil, or_false] at hs
    rcases hs with rfl | rfl | rfl
    · refine ⟨by dsimp only; decide, ?_⟩
      intro t l he
      cases hv : a.valueMin with
      | none => rw [hv] at he; cases he
      | some b => rw [hv] at he; cases he; exact hlo b hv
    · refine ⟨by dsimp only; decide, ?_⟩
      intro t l he
      cases hv : a.valueMax with
      | none => rw [hv] at he; cases he
      | some b => rw [hv] at he; cases he; exact hhi b hv
    · refine ⟨by dsimp only; decide, ?_⟩
      intro t l he
      cases he
      exact boolText_ok _

/-- bounds are in order as far as the constructor checks -/
def boundsOrdered (lo hi : Option PNum) : Bool :=
  match lo, hi with
  | some a, some b => numLE a b != some false
  | _, _ => true

theorem convOfArgs_num (nm : String) (hnm : nm = "int" ∨ nm = "float") (lo hi : Option PNum) (an : Bool)
    (line : Option Nat)
    (hlo : boundArg (nm == "int") (lo.map Lit.num) = some lo)
    (hhi : boundArg (nm == "int") (hi.map Lit.num) = some hi)
    (hord : boundsOrdered lo hi = true) :
    convOfArgs nm (argsOf [("value_min", lo.map Lit.num), ("value_max", hi.map Lit.num),
        ("allow_none", some (Lit.bool an))]) line
      = .ok (if nm == "int" then .int ⟨lo, hi, an⟩ else .float ⟨lo, hi, an⟩) := by
  have hnd : (([("value_min", lo.map Lit.num), ("value_max", hi.map Lit.num),
        ("allow_none", some (Lit.bool an))] : List (String × Option Lit)).map (·.1.toList)).Nodup := by
    simp only [List.map_cons, List.map_nil]; decide
  have hdup := hasDup_argsOf _ hnd
  have hknown := all_argsOf [("value_min", lo.map Lit.num), ("value_max", hi.map Lit.num),
        ("allow_none", some (Lit.bool an))]
      (fun p => ["value_min", "value_max", "allow_none"].contains (String.ofList p.1))
      (by intro s hs l
          simp only [List.mem_cons, List.not_mem_nil, or_false] at hs
          rcases hs with rfl | rfl | rfl <;> (dsimp only; rw [String.ofList_toList]; decide))
  have l1 := lookupArg_argsOf _ hnd "value_min" (lo.map Lit.num) (by simp)
  have l2 := lookupArg_argsOf _ hnd "value_max" (hi.map Lit.num) (by simp)
  have l3 := lookupArg_argsOf _ hnd "allow_none" (some (Lit.bool an)) (by simp)
  unfold boundsOrdered at hord
  rcases hnm with rfl | rfl
  · simp only [convOfArgs, hdup, hknown, l1, l2, l3, hlo, hhi, boolArg]
    simp
    cases lo <;> cases hi <;> simp_all
  · simp only [convOfArgs, hdup, hknown, l1, l2, l3, hlo, hhi, boolArg]
    simp
    cases lo <;> cases hi <;> simp_all



/-! ### the printable types -/

/-- bound of `int`/`ints`: absent or an integer of magnitude below 10^6 -/
def intBoundOk : Option PNum → Bool
  | Option.none => true
  | some (.int i) => decide (i.natAbs < 1000000)
  | some _ => false

/-- bound of `float`/`floats`: absent, an integer of magnitude below 10^6, or a finite float `n/d`
    in lowest terms with `d ∈ {2,4,8}` and magnitude below 10^6 (so: not an integral float such as
    `3.0`, which prints as `3`, and not a negative zero) -/
def fltBoundOk : Option PNum → Bool
  | Option.none => true
  | some (.int i) => decide (i.natAbs < 1000000)
  | some (.flt n d) => (d == 2 || d == 4 || d == 8) && Nat.gcd n.natAbs d == 1 && decide (n.natAbs < 1000000 * d)
  | some _ => false

/-- `size_min`/`size_max`: absent or positive, and in order -/
def sizesOk (smin smax : Option Int) : Bool :=
  (match smin with | some a => decide (0 < a) | Option.none => true) &&
  (match smax with | some b => decide (0 < b) | Option.none => true) &&
  (match smin, smax with | some a, some b => decide (a ≤ b) | _, _ => true)

/-- the converters whose `str()` is inside the modelled expression grammar -/
def Printable : Conv → Bool
  | .int a => intBoundOk a.valueMin && intBoundOk a.valueMax && boundsOrdered a.valueMin a.valueMax
  | .float a => fltBoundOk a.valueMin && fltBoundOk a.valueMax && boundsOrdered a.valueMin a.valueMax
  | .ints a => sizesOk a.sizeMin a.sizeMax && intBoundOk a.valueMin && intBoundOk a.valueMax &&
      boundsOrdered a.valueMin a.valueMax
  | .floats a => sizesOk a.sizeMin a.sizeMax && fltBoundOk a.valueMin && fltBoundOk a.valueMax &&
      boundsOrdered a.valueMin a.valueMax
  | _ => true

theorem type_round_trip_simple (c : Conv)
    (hc : c = .words ∨ c = .strings ∨ c = .str ∨ c = .qstr ∨ c = .path ∨ c = .key ∨ c = .bool)
    (line : Option Nat) : convFromExpr (Conv.render c) line = .ok c := by
  rcases hc with rfl | rfl | rfl | rfl | rfl | rfl | rfl <;> rfl

theorem type_round_trip_choice (multi : Bool) (line : Option Nat) :
    convFromExpr (Conv.render (.choice multi)) line = .ok (.choice multi) := by
  cases multi <;> rfl

theorem intBoundOk_text (isInt : Bool) (o : Option PNum) (h : intBoundOk o = true) :
    ∀ b, o = some b → BoundTextOk isInt b := by
  intro b hb
  subst hb
  cases b with
  | int i => exact boundTextOk_int isInt i (by simpa [intBoundOk] using h)
  | _ => simp [intBoundOk] at h

theorem intBoundOk_arg (o : Option PNum) (h : intBoundOk o = true) :
    boundArg true (o.map Lit.num) = some o := by
  cases o with
  | none => rfl
  | some b =>
    cases b with
    | int i =>
      have : i.natAbs < 1000000 := by simpa [intBoundOk] using h
      simp [boundArg, this]
    | _ => simp [intBoundOk] at h

theorem type_round_trip_int (a : NumArgs) (line : Option Nat) (h : Printable (.int a) = true) :
    convFromExpr (Conv.render (.int a)) line = .ok (.int a) := by
  simp only [Printable, Bool.and_eq_true] at h
  obtain ⟨⟨h1, h2⟩, h3⟩ := h
  show convFromExpr (numArgsStr "int" true a) line = _
  rw [convFromExpr_numArgsStr "int" true a line (by decide) (by decide)
    (intBoundOk_text _ _ h1) (intBoundOk_text _ _ h2)]
  exact convOfArgs_num "int" (.inl rfl) a.valueMin a.valueMax a.allowNone line
    (intBoundOk_arg _ h1) (intBoundOk_arg _ h2) h3



/-! ### `ints` and `floats` types -/

def intSlot (n : Int) : Str × Lit := (intStr n, Lit.num (.int n))
def flagSlot (b : Bool) : Option (Str × Lit) := if b then some ("True".toList, Lit.bool true) else Option.none

def listSlots (isInt : Bool) (a : ListArgs) : List (String × Option (Str × Lit)) :=
  [("size", if a.sizeMin == a.sizeMax then a.sizeMin.map intSlot else Option.none),
   ("size_min", if a.sizeMin == a.sizeMax then Option.none else a.sizeMin.map intSlot),
   ("size_max", if a.sizeMin == a.sizeMax then Option.none else a.sizeMax.map intSlot),
   ("value_min", a.valueMin.map (boundSlot isInt)),
   ("value_max", a.valueMax.map (boundSlot isInt)),
   ("allow_none_elements", flagSlot a.allowNoneEl),
   ("allow_auto_elements", flagSlot a.allowAutoEl)]

def sizeKw (smin smax : Option Int) : List Str :=
  if smin == smax then
    (match smin with | some n => [kw "size" (intStr n)] | Option.none => [])
  else
    (match smin with | some n => [kw "size_min" (intStr n)] | Option.none => []) ++
    (match smax with | some n => [kw "size_max" (intStr n)] | Option.none => [])

def boundKw (k : String) (isInt : Bool) (o : Option PNum) : List Str :=
  match o with | some b => [kw k (boundStr isInt b)] | Option.none => []

def flagKw (k : String) (b : Bool) : List Str := if b then [kw k "True".toList] else []

theorem listArgsStr_pieces (name : String) (isInt : Bool) (a : ListArgs) :
    listArgsStr name isInt a = withArgs name (sizeKw a.sizeMin a.sizeMax ++ boundKw "value_min" isInt a.valueMin ++
      boundKw "value_max" isInt a.valueMax ++ flagKw "allow_none_elements" a.allowNoneEl ++
      flagKw "allow_auto_elements" a.allowAutoEl) := rfl

theorem kwdsOf_append (l1 l2 : List (String × Option Str)) : kwdsOf (l1 ++ l2) = kwdsOf l1 ++ kwdsOf l2 := by
  induction l1 with
  | nil => rfl
  | cons s rest ih =>
    obtain ⟨k, o⟩ := s
    cases o <;> simp [kwdsOf, ih]

def textOf (s : String × Option (Str × Lit)) : String × Option Str := (s.1, s.2.map (·.1))

theorem sizeKw_eq (smin smax : Option Int) :
    sizeKw smin smax = kwdsOf (List.map textOf
      [("size", if smin == smax then smin.map intSlot else Option.none),
       ("size_min", if smin == smax then Option.none else smin.map intSlot),
       ("size_max", if smin == smax then Option.none else smax.map intSlot)]) := by
  unfold sizeKw
  by_cases he : (smin == smax) = true
  · simp only [he, ↓reduceIte]; cases smin <;> rfl
  · simp only [he, ↓reduceIte]; cases smin <;> cases smax <;> rfl

theorem boundKw_eq (k : String) (isInt : Bool) (o : Option PNum) :
    boundKw k isInt o = kwdsOf (List.map textOf [(k, o.map (boundSlot isInt))]) := by
  cases o <;> rfl

theorem flagKw_eq (k : String) (b : Bool) :
    flagKw k b = kwdsOf (List.map textOf [(k, flagSlot b)]) := by
  cases b <;> rfl

theorem listArgsStr_eq (name : String) (isInt : Bool) (a : ListArgs) :
    listArgsStr name isInt a = withArgs name ((pargsOf (listSlots isInt a)).map PArg.render) := by
  rw [listArgsStr_pieces, pargsOf_render, sizeKw_eq, boundKw_eq, boundKw_eq, flagKw_eq, flagKw_eq]
  simp only [← kwdsOf_append, ← List.map_append]
  rfl



theorem splitCall_name (name : Str) (hn : isSimpleIdent name = true) :
    splitCall name = some (name, Option.none) := by
  have hnt := argText_of_simpleIdent name hn
  have h1 : '(' ∉ name := fun hm => (hnt.2 _ hm).2.2.2.2.1 rfl
  unfold splitCall
  simp only [argText_trim name hnt, splitOn_of_not_mem _ _ h1, hn, ↓reduceIte]

/-- `withArgs`: the bare name when there are no arguments, the call otherwise -/
theorem convFromExpr_withArgs (name : String) (ps : List PArg) (line : Option Nat)
    (hn : isSimpleIdent name.toList = true) (hb : builtinTypeNames.contains name = true)
    (hok : ∀ p ∈ ps, p.Ok) :
    convFromExpr (withArgs name (ps.map PArg.render)) line = convOfArgs name (ps.map PArg.res) line := by
  cases ps with
  | nil =>
    have := convFromExpr_of name.toList name.toList Option.none [] line (splitCall_name _ hn)
      (by rw [String.ofList_toList]; exact hb) rfl
    rw [String.ofList_toList] at this
    exact this
  | cons p ps =>
    have : withArgs name ((p :: ps).map PArg.render)
        = name.toList ++ '(' :: joinWith ", ".toList ((p :: ps).map PArg.render) ++ [')'] := rfl
    rw [this]
    exact convFromExpr_call name (p :: ps) line hn hb (by simp) hok

def sizeLit (n : Int) : Lit := Lit.num (.int n)
def flagLit (b : Bool) : Option Lit := if b then some (Lit.bool true) else Option.none

theorem convOfArgs_list (nm : String) (hnm : nm = "ints" ∨ nm = "floats") (smin smax : Option Int)
    (lo hi : Option PNum) (ne ae : Bool) (line : Option Nat)
    (hs : sizesOk smin smax = true)
    (hlo : boundArg (nm == "ints") (lo.map Lit.num) = some lo)
    (hhi : boundArg (nm == "ints") (hi.map Lit.num) = some hi)
    (hord : boundsOrdered lo hi = true) :
    convOfArgs nm (argsOf
      [("size", if smin == smax then smin.map sizeLit else Option.none),
       ("size_min", if smin == smax then Option.none else smin.map sizeLit),
       ("size_max", if smin == smax then Option.none else smax.map sizeLit),
       ("value_min", lo.map Lit.num), ("value_max", hi.map Lit.num),
       ("allow_none_elements", flagLit ne), ("allow_auto_elements", flagLit ae)]) line
      = .ok (if nm == "ints" then .ints ⟨smin, smax, lo, hi, ne, ae⟩ else .floats ⟨smin, smax, lo, hi, ne, ae⟩) := by
  generalize hsl : ([("size", if smin == smax then smin.map sizeLit else Option.none),
       ("size_min", if smin == smax then Option.none else smin.map sizeLit),
       ("size_max", if smin == smax then Option.none else smax.map sizeLit),
       ("value_min", lo.map Lit.num), ("value_max", hi.map Lit.num),
       ("allow_none_elements", flagLit ne), ("allow_auto_elements", flagLit ae)] : List (String × Option Lit)) = sl
  have hnd : (sl.map (·.1.toList)).Nodup := by
    subst hsl; simp only [List.map_cons, List.map_nil]; decide
  have hdup := hasDup_argsOf _ hnd
  have hknown := all_argsOf sl
      (fun p => ["size", "size_min", "size_max", "value_min", "value_max",
                   "allow_none_elements", "allow_auto_elements"].contains (String.ofList p.1))
      (by intro s hs l
          subst hsl
          simp only [List.mem_cons, List.not_mem_nil, or_false] at hs
          rcases hs with rfl | rfl | rfl | rfl | rfl | rfl | rfl <;>
            (dsimp only; rw [String.ofList_toList]; decide))
  have l1 := lookupArg_argsOf sl hnd "size" (if smin == smax then smin.map sizeLit else Option.none) (by subst hsl; simp)
  have l2 := lookupArg_argsOf sl hnd "size_min" (if smin == smax then Option.none else smin.map sizeLit) (by subst hsl; simp)
  have l3 := lookupArg_argsOf sl hnd "size_max" (if smin == smax then Option.none else smax.map sizeLit) (by subst hsl; simp)
  have l4 := lookupArg_argsOf sl hnd "value_min" (lo.map Lit.num) (by subst hsl; simp)
  have l5 := lookupArg_argsOf sl hnd "value_max" (hi.map Lit.num) (by subst hsl; simp)
  have l6 := lookupArg_argsOf sl hnd "allow_none_elements" (flagLit ne) (by subst hsl; simp)
  have l7 := lookupArg_argsOf sl hnd "allow_auto_elements" (flagLit ae) (by subst hsl; simp)
  have b6 : boolArg false (flagLit ne) = some ne := by cases ne <;> rfl
  have b7 : boolArg false (flagLit ae) = some ae := by cases ae <;> rfl
  unfold boundsOrdered at hord
  unfold sizesOk at hs
  rcases hnm with rfl | rfl
  · simp only [convOfArgs, hdup, hknown, l1, l2, l3, l4, l5, l6, l7, hlo, hhi, b6, b7]
    by_cases he : smin = smax
    · subst he
      cases smin <;> cases lo <;> cases hi <;> simp_all [sizeArg, sizeLit] <;> omega
    · have he' : (smin == smax) = false := by simpa using he
      cases smin <;> cases smax <;> cases lo <;> cases hi <;> simp_all [sizeArg, sizeLit] <;> omega
  · simp only [convOfArgs, hdup, hknown, l1, l2, l3, l4, l5, l6, l7, hlo, hhi, b6, b7]
    by_cases he : smin = smax
    · subst he
      cases smin <;> cases lo <;> cases hi <;> simp_all [sizeArg, sizeLit] <;> omega
    · have he' : (smin == smax) = false := by simpa using he
      cases smin <;> cases smax <;> cases lo <;> cases hi <;> simp_all [sizeArg, sizeLit] <;> omega



theorem listSlots_lits (isInt : Bool) (a : ListArgs) :
    (listSlots isInt a).map (fun s => (s.1, s.2.map (·.2))) =
      [("size", if a.sizeMin == a.sizeMax then a.sizeMin.map sizeLit else Option.none),
       ("size_min", if a.sizeMin == a.sizeMax then Option.none else a.sizeMin.map sizeLit),
       ("size_max", if a.sizeMin == a.sizeMax then Option.none else a.sizeMax.map sizeLit),
       ("value_min", a.valueMin.map Lit.num), ("value_max", a.valueMax.map Lit.num),
       ("allow_none_elements", flagLit a.allowNoneEl), ("allow_auto_elements", flagLit a.allowAutoEl)] := by
  obtain ⟨smin, smax, lo, hi, ne, ae⟩ := a
  have f : ∀ b : Bool, (flagSlot b).map (·.2) = flagLit b := by intro b; cases b <;> rfl
  have g : (fun x : Int => Lit.num (PNum.int x)) = sizeLit := rfl
  by_cases he : (smin == smax) = true <;>
    simp [listSlots, he, f, g, Option.map_map, Function.comp_def, intSlot, boundSlot]

theorem listSlots_ok (isInt : Bool) (a : ListArgs)
    (hlo : ∀ b, a.valueMin = some b → BoundTextOk isInt b)
    (hhi : ∀ b, a.valueMax = some b → BoundTextOk isInt b) :
    ∀ p ∈ pargsOf (listSlots isInt a), p.Ok := by
  apply pargsOf_ok
  have hsz : ∀ (o : Option Int) (t : Str) (l : Lit), o.map intSlot = some (t, l) →
      ArgText t ∧ parseLit t = some l := by
    intro o t l he
    cases o with
    | none => cases he
    | some n => cases he; exact ⟨intStr_argText n, parseLit_intStr n⟩
  have hfl : ∀ (b : Bool) (t : Str) (l : Lit), flagSlot b = some (t, l) →
      ArgText t ∧ parseLit t = some l := by
    intro b t l he
    cases b with
    | false => cases he
    | true => cases he; exact ⟨argText_of_simpleIdent _ (by decide), by rfl⟩
  have hbd : ∀ (o : Option PNum), (∀ b, o = some b → BoundTextOk isInt b) → ∀ (t : Str) (l : Lit),
      o.map (boundSlot isInt) = some (t, l) → ArgText t ∧ parseLit t = some l := by
    intro o ho t l he
    cases o with
    | none => cases he
    | some b => cases he; exact ho b rfl
  intro s hs
  simp only [listSlots, List.mem_cons, List.not_mem_nil, or_false] at hs
  rcases hs with rfl | rfl | rfl | rfl | rfl | rfl | rfl
  · refine ⟨by dsimp only; decide, ?_⟩
    intro t l he
    dsimp only at he
    split at he
    · exact hsz _ t l he
    · cases he
  · refine ⟨by dsimp only; decide, ?_⟩
    intro t l he
    dsimp only at he
    split at he
    · cases he
    · exact hsz _ t l he
  · refine ⟨by dsimp only; decide, ?_⟩
    intro t l he
    dsimp only at he
    split at he
    · cases he
    · exact hsz _ t l he
  · exact ⟨by dsimp only; decide, fun t l he => hbd _ hlo t l he⟩
  · exact ⟨by dsimp only; decide, fun t l he => hbd _ hhi t l he⟩
  · exact ⟨by dsimp only; decide, fun t l he => hfl _ t l he⟩
  · exact ⟨by dsimp only; decide, fun t l he => hfl _ t l he⟩

theorem convFromExpr_listArgsStr (name : String) (isInt : Bool) (a : ListArgs) (line : Option Nat)
    (hn : isSimpleIdent name.toList = true) (hb : builtinTypeNames.contains name = true)
    (hlo : ∀ b, a.valueMin = some b → BoundTextOk isInt b)
    (hhi : ∀ b, a.valueMax = some b → BoundTextOk isInt b) :
    convFromExpr (listArgsStr name isInt a) line =
      convOfArgs name (argsOf
      [("size", if a.sizeMin == a.sizeMax then a.sizeMin.map sizeLit else Option.none),
       ("size_min", if a.sizeMin == a.sizeMax then Option.none else a.sizeMin.map sizeLit),
       ("size_max", if a.sizeMin == a.sizeMax then Option.none else a.sizeMax.map sizeLit),
       ("value_min", a.valueMin.map Lit.num), ("value_max", a.valueMax.map Lit.num),
       ("allow_none_elements", flagLit a.allowNoneEl), ("allow_auto_elements", flagLit a.allowAutoEl)]) line := by
  rw [listArgsStr_eq, convFromExpr_withArgs name _ line hn hb (listSlots_ok isInt a hlo hhi), pargsOf_res,
    listSlots_lits]

theorem type_round_trip_ints (a : ListArgs) (line : Option Nat) (h : Printable (.ints a) = true) :
    convFromExpr (Conv.render (.ints a)) line = .ok (.ints a) := by
  simp only [Printable, Bool.and_eq_true] at h
  obtain ⟨⟨⟨h0, h1⟩, h2⟩, h3⟩ := h
  show convFromExpr (listArgsStr "ints" true a) line = _
  rw [convFromExpr_listArgsStr "ints" true a line (by decide) (by decide)
    (intBoundOk_text _ _ h1) (intBoundOk_text _ _ h2)]
  exact convOfArgs_list "ints" (.inl rfl) a.sizeMin a.sizeMax a.valueMin a.valueMax a.allowNoneEl a.allowAutoEl
    line h0 (intBoundOk_arg _ h1) (intBoundOk_arg _ h2) h3



/-! ### float bounds: `%.10g` and the decimal literal -/

def parseFloatBody (neg : Bool) (body : Str) : Option (Int × Nat) :=
  match splitOn '.' body with
  | [ip, fp] =>
    if ip.isEmpty && fp.isEmpty then none else
    match (if ip.isEmpty then some 0 else digitsVal ip), (if fp.isEmpty then some 0 else digitsVal fp) with
    | some i, some f =>
      let scale := pow10 fp.length
      let numer := i * scale + f
      let g := Nat.gcd numer scale
      let n := numer / g
      let d := scale / g
      if (d == 1 || d == 2 || d == 4 || d == 8) && decide (numer < 1000000 * scale) && !(neg && numer == 0) then
        some ((if neg then - (Int.ofNat n) else Int.ofNat n), d)
      else none
    | _, _ => none
  | _ => none

theorem parseFloatLit_neg (r : Str) : parseFloatLit ('-' :: r) = parseFloatBody true r := rfl

theorem parseFloatLit_digit (c : Char) (cs : Str) (hc : isDigit c = true) :
    parseFloatLit (c :: cs) = parseFloatBody false (c :: cs) := by
  have h1 : c ≠ '-' := by intro e; subst e; exact absurd hc (by decide)
  have h2 : c ≠ '+' := by intro e; subst e; exact absurd hc (by decide)
  unfold parseFloatLit parseFloatBody
  split
  · rename_i neg body hm
    split at hm
    · rename_i r he; cases he; exact absurd rfl h1
    · rename_i r he; cases he; exact absurd rfl h2
    · cases hm; rfl


theorem natDigits_no_dot (n : Nat) : '.' ∉ natDigits n := by
  intro hm
  exact absurd (natDigits_all_digit n _ hm) (by decide)

theorem parseFloatBody_spec (neg : Bool) (ip : Nat) (F : Str) (f S g a d : Nat)
    (hF1 : '.' ∉ F) (hF2 : F ≠ []) (hF3 : digitsVal F = some f) (hS : pow10 F.length = S)
    (hg : Nat.gcd (ip * S + f) S = g) (ha : (ip * S + f) / g = a) (hd : S / g = d)
    (hd' : d = 2 ∨ d = 4 ∨ d = 8) (hb : ip * S + f < 1000000 * S) (hnz : ip * S + f ≠ 0) :
    parseFloatBody neg (natDigits ip ++ '.' :: F) = some ((if neg then - (Int.ofNat a) else Int.ofNat a), d) := by
  unfold parseFloatBody
  rw [splitOn_append_sep _ _ _ (natDigits_no_dot ip), splitOn_of_not_mem _ _ hF1]
  have e1 : (natDigits ip).isEmpty = false := by
    cases h : natDigits ip with
    | nil => exact absurd h (natDigits_ne_nil ip)
    | cons _ _ => rfl
  have e2 : F.isEmpty = false := by
    cases F with
    | nil => exact absurd rfl hF2
    | cons _ _ => rfl
  have hdd : (d == 1 || d == 2 || d == 4 || d == 8) = true := by
    rcases hd' with h | h | h <;> subst h <;> rfl
  simp only [e1, e2, Bool.false_and, Bool.false_eq_true, ↓reduceIte, digitsVal_natDigits, hF3, hS, hg, ha, hd,
    hdd, Bool.true_and, decide_eq_true hb]
  have : (ip * S + f == 0) = false := by simpa using hnz
  simp [this]

def fracDigits (fr : Nat) : Str :=
  if fr == 0 then [] else
    '.' :: (((natDigits (1000 + fr)).drop 1).reverse.dropWhile (· == '0')).reverse

theorem fmtG10_flt (n : Int) (d : Nat) :
    fmtG10 (.flt n d) =
      if !(d == 1 || d == 2 || d == 4 || d == 8) || decide (n.natAbs ≥ 1000000 * d) then none else
      if n < 0 then some ('-' :: (natDigits (n.natAbs / d) ++ fracDigits ((n.natAbs % d) * 1000 / d)))
      else some (natDigits (n.natAbs / d) ++ fracDigits ((n.natAbs % d) * 1000 / d)) := rfl

theorem fracDigits_vals :
    fracDigits 500 = ".5".toList ∧ fracDigits 250 = ".25".toList ∧ fracDigits 750 = ".75".toList ∧
    fracDigits 125 = ".125".toList ∧ fracDigits 375 = ".375".toList ∧ fracDigits 625 = ".625".toList ∧
    fracDigits 875 = ".875".toList := by decide +kernel

/-- the seven fractional parts a denominator 2, 4 or 8 can produce -/
theorem odd_of_gcd (a d : Nat) (hd : d = 2 ∨ d = 4 ∨ d = 8) (hg : Nat.gcd a d = 1) : a % 2 = 1 := by
  have h2 : 2 ∣ d := by rcases hd with h | h | h <;> subst h <;> decide
  rcases Nat.mod_two_eq_zero_or_one a with h | h
  · have : 2 ∣ Nat.gcd a d := Nat.dvd_gcd (Nat.dvd_of_mod_eq_zero h) h2
    rw [hg] at this
    exact absurd this (by decide)
  · exact h

set_option maxRecDepth 8192 in
/-- the text of a printable float bound: sign, integer digits, one of seven fractions -/
theorem fmtG10_flt_shape (n : Int) (d : Nat) (hd : d = 2 ∨ d = 4 ∨ d = 8) (hg : Nat.gcd n.natAbs d = 1)
    (hm : n.natAbs < 1000000 * d) :
    ∃ (F : Str) (f S g : Nat),
      fmtG10 (.flt n d) = some ((if n < 0 then ['-'] else []) ++ natDigits (n.natAbs / d) ++ '.' :: F) ∧
      '.' ∉ F ∧ F ≠ [] ∧ (∀ c ∈ F, isDigit c = true) ∧ digitsVal F = some f ∧ pow10 F.length = S ∧
      Nat.gcd f S = g ∧ ((n.natAbs / d) * S + f) / g = n.natAbs ∧ S / g = d ∧
      (n.natAbs / d) * S + f < 1000000 * S ∧ (n.natAbs / d) * S + f ≠ 0 := by
  have hodd := odd_of_gcd _ d hd hg
  have hcond : (!(d == 1 || d == 2 || d == 4 || d == 8) || decide (n.natAbs ≥ 1000000 * d)) = false := by
    have : ¬ (n.natAbs ≥ 1000000 * d) := by omega
    rcases hd with h | h | h <;> subst h <;> simp [this]
  obtain ⟨v1, v2, v3, v4, v5, v6, v7⟩ := fracDigits_vals
  have hsign : ∀ body : Str, (if n < 0 then some ('-' :: body) else some body)
      = some ((if n < 0 then ['-'] else []) ++ body) := by
    intro body; split <;> rfl
  rw [fmtG10_flt, hcond]
  simp only [Bool.false_eq_true, ↓reduceIte, hsign]
  rcases hd with h | h | h <;> subst h
  · have hr : n.natAbs % 2 * 1000 / 2 = 500 := by omega
    rw [hr, v1]
    exact ⟨"5".toList, 5, 10, 5, by simp, by decide, by decide, by decide, by decide, by simp [pow10], by simp, by omega, by omega, by omega, by omega⟩
  · have hr : n.natAbs % 4 = 1 ∨ n.natAbs % 4 = 3 := by omega
    rcases hr with hr | hr
    · have hr' : n.natAbs % 4 * 1000 / 4 = 250 := by omega
      rw [hr', v2]
      exact ⟨"25".toList, 25, 100, 25, by simp, by decide, by decide, by decide, by decide, by simp [pow10], by simp, by omega, by omega, by omega, by omega⟩
    · have hr' : n.natAbs % 4 * 1000 / 4 = 750 := by omega
      rw [hr', v3]
      exact ⟨"75".toList, 75, 100, 25, by simp, by decide, by decide, by decide, by decide, by simp [pow10], by simp, by omega, by omega, by omega, by omega⟩
  · have hr : n.natAbs % 8 = 1 ∨ n.natAbs % 8 = 3 ∨ n.natAbs % 8 = 5 ∨ n.natAbs % 8 = 7 := by omega
    rcases hr with hr | hr | hr | hr
    · have hr' : n.natAbs % 8 * 1000 / 8 = 125 := by omega
      rw [hr', v4]
      exact ⟨"125".toList, 125, 1000, 125, by simp, by decide, by decide, by decide, by decide, by simp [pow10], by simp, by omega, by omega, by omega, by omega⟩
    · have hr' : n.natAbs % 8 * 1000 / 8 = 375 := by omega
      rw [hr', v5]
      exact ⟨"375".toList, 375, 1000, 125, by simp, by decide, by decide, by decide, by decide, by simp [pow10], by simp, by omega, by omega, by omega, by omega⟩
    · have hr' : n.natAbs % 8 * 1000 / 8 = 625 := by omega
      rw [hr', v6]
      exact ⟨"625".toList, 625, 1000, 125, by simp, by decide, by decide, by decide, by decide, by simp [pow10], by simp, by omega, by omega, by omega, by omega⟩
    · have hr' : n.natAbs % 8 * 1000 / 8 = 875 := by omega
      rw [hr', v7]
      exact ⟨"875".toList, 875, 1000, 125, by simp, by decide, by decide, by decide, by decide, by simp [pow10], by simp, by omega, by omega, by omega, by omega⟩

theorem digitsVal_nondigit (x y : Str) (c : Char) (hc : isDigit c = false) : digitsVal (x ++ c :: y) = none := by
  rw [digitsVal_eq, if_neg (by simp)]
  unfold digitsFold
  rw [List.foldl_append, List.foldl_cons]
  have h1 : digStep (List.foldl digStep (some 0) x) c = none := by
    cases List.foldl digStep (some 0) x <;> simp [digStep, hc]
  rw [h1]
  induction y with
  | nil => rfl
  | cons d ds ih => simpa [List.foldl_cons, digStep] using ih

/-- `float_bound_round_trip`: the `%.10g` text of a float bound `n/d` (lowest terms, `d ∈ {2,4,8}`,
    magnitude below 10^6) is a decimal literal whose exact value is `n/d` again; it is a clean
    argument text and `parseLit` reads it as that float -/
theorem float_bound_text (n : Int) (d : Nat) (hd : d = 2 ∨ d = 4 ∨ d = 8) (hg : Nat.gcd n.natAbs d = 1)
    (hm : n.natAbs < 1000000 * d) :
    ∃ s, fmtG10 (.flt n d) = some s ∧ parseFloatLit s = some (n, d) ∧ ArgText s ∧
      parseLit s = some (.num (.flt n d)) := by
  obtain ⟨F, f, S, g, hfmt, hF1, hF2, hF3, hF4, hS, hgc, ha, hdd, hb, hnz⟩ := fmtG10_flt_shape n d hd hg hm
  have hgc' : Nat.gcd ((n.natAbs / d) * S + f) S = g := by rw [Nat.gcd_mul_right_add_left]; exact hgc
  have hdot : isDigit '.' = false := by decide
  refine ⟨_, hfmt, ?_⟩
  by_cases hneg : n < 0
  · simp only [hneg, ↓reduceIte, List.cons_append, List.nil_append]
    have hbody := parseFloatBody_spec true (n.natAbs / d) F f S g n.natAbs d hF1 hF2 hF4 hS hgc' ha hdd hd hb hnz
    have hval : (if true = true then - (Int.ofNat n.natAbs) else Int.ofNat n.natAbs) = n := by
      simp only [↓reduceIte, Int.ofNat_eq_natCast]; omega
    rw [hval] at hbody
    have hpf : parseFloatLit ('-' :: (natDigits (n.natAbs / d) ++ '.' :: F)) = some (n, d) := by
      rw [parseFloatLit_neg]; exact hbody
    have hpi : parseIntLit ('-' :: (natDigits (n.natAbs / d) ++ '.' :: F)) = none := by
      show (digitsVal (natDigits (n.natAbs / d) ++ '.' :: F)).map _ = none
      rw [digitsVal_nondigit _ _ _ hdot]; rfl
    refine ⟨hpf, ⟨by simp, ?_⟩, ?_⟩
    · intro c hc
      simp only [List.mem_cons, List.mem_append] at hc
      apply argChar_of_toNat
      rcases hc with rfl | hc | rfl | hc
      · left; rfl
      · have := natDigits_all_digit _ c hc; simp [isDigit] at this; right; right; left; exact this
      · right; left; rfl
      · have := hF3 c hc; simp [isDigit] at this; right; right; left; exact this
    · unfold parseLit
      simp only [hpi, hpf]
      simp
  · simp only [hneg, ↓reduceIte, List.nil_append]
    have hbody := parseFloatBody_spec false (n.natAbs / d) F f S g n.natAbs d hF1 hF2 hF4 hS hgc' ha hdd hd hb hnz
    have hval : (if false = true then - (Int.ofNat n.natAbs) else Int.ofNat n.natAbs) = n := by
      simp only [Bool.false_eq_true, ↓reduceIte, Int.ofNat_eq_natCast]; omega
    rw [hval] at hbody
    cases hds : natDigits (n.natAbs / d) with
    | nil => exact absurd hds (natDigits_ne_nil _)
    | cons c cs =>
      have hc : isDigit c = true := natDigits_all_digit _ c (by rw [hds]; simp)
      rw [hds] at hbody
      have hpf : parseFloatLit (c :: cs ++ '.' :: F) = some (n, d) := by
        rw [List.cons_append, parseFloatLit_digit c _ hc]; exact hbody
      have hpi : parseIntLit (c :: cs ++ '.' :: F) = none := by
        rw [List.cons_append, parseIntLit_of_digit_head c _ hc, ← List.cons_append,
          digitsVal_nondigit _ _ _ hdot]; rfl
      have hct : 48 ≤ c.toNat ∧ c.toNat ≤ 57 := by simpa [isDigit] using hc
      refine ⟨hpf, ⟨by simp, ?_⟩, ?_⟩
      · intro c' hc'
        simp only [List.cons_append, List.mem_cons, List.mem_append] at hc'
        apply argChar_of_toNat
        rcases hc' with rfl | hc' | rfl | hc'
        · right; right; left; exact hct
        · have := natDigits_all_digit (n.natAbs / d) c' (by rw [hds]; simp [hc'])
          simp [isDigit] at this; right; right; left; exact this
        · right; left; rfl
        · have := hF3 c' hc'; simp [isDigit] at this; right; right; left; exact this
      · have h1 : c ≠ 'N' := by apply char_ne_of_toNat; simp; omega
        have h2 : c ≠ 'T' := by apply char_ne_of_toNat; simp; omega
        have h3 : c ≠ 'F' := by apply char_ne_of_toNat; simp; omega
        unfold parseLit
        simp only [hpi, hpf]
        simp [h1, h2, h3]

theorem float_bound_round_trip (n : Int) (d : Nat) (hd : d = 2 ∨ d = 4 ∨ d = 8) (hg : Nat.gcd n.natAbs d = 1)
    (hm : n.natAbs < 1000000 * d) (s : Str) (h : fmtG10 (.flt n d) = some s) :
    parseFloatLit s = some (n, d) := by
  obtain ⟨s', h1, h2, _⟩ := float_bound_text n d hd hg hm
  rw [h1] at h; cases h; exact h2



theorem fltBoundOk_text (o : Option PNum) (h : fltBoundOk o = true) :
    ∀ b, o = some b → BoundTextOk false b := by
  intro b hb
  subst hb
  cases b with
  | int i => exact boundTextOk_int false i (by simpa [fltBoundOk] using h)
  | flt n d =>
    simp only [fltBoundOk, Bool.and_eq_true, Bool.or_eq_true, beq_iff_eq, decide_eq_true_eq] at h
    obtain ⟨⟨hd, hg⟩, hm⟩ := h
    have hd' : d = 2 ∨ d = 4 ∨ d = 8 := by rcases hd with (h | h) | h <;> simp [h]
    obtain ⟨s, h1, _, h3, h4⟩ := float_bound_text n d hd' hg hm
    have : boundStr false (.flt n d) = s := by simp [boundStr, h1]
    unfold BoundTextOk
    rw [this]
    exact ⟨h3, h4⟩
  | _ => simp [fltBoundOk] at h

theorem fltBoundOk_arg (o : Option PNum) (h : fltBoundOk o = true) :
    boundArg false (o.map Lit.num) = some o := by
  cases o with
  | none => rfl
  | some b =>
    cases b with
    | int i =>
      have : i.natAbs < 1000000 := by simpa [fltBoundOk] using h
      simp [boundArg, this]
    | flt n d => simp [boundArg]
    | _ => simp [fltBoundOk] at h

theorem type_round_trip_float (a : NumArgs) (line : Option Nat) (h : Printable (.float a) = true) :
    convFromExpr (Conv.render (.float a)) line = .ok (.float a) := by
  simp only [Printable, Bool.and_eq_true] at h
  obtain ⟨⟨h1, h2⟩, h3⟩ := h
  show convFromExpr (numArgsStr "float" false a) line = _
  rw [convFromExpr_numArgsStr "float" false a line (by decide) (by decide)
    (fltBoundOk_text _ h1) (fltBoundOk_text _ h2)]
  have e : ("float" == "int") = false := by decide
  have := convOfArgs_num "float" (.inr rfl) a.valueMin a.valueMax a.allowNone line
    (by rw [e]; exact fltBoundOk_arg _ h1) (by rw [e]; exact fltBoundOk_arg _ h2) h3
  rw [e] at this
  exact this

theorem type_round_trip_floats (a : ListArgs) (line : Option Nat) (h : Printable (.floats a) = true) :
    convFromExpr (Conv.render (.floats a)) line = .ok (.floats a) := by
  simp only [Printable, Bool.and_eq_true] at h
  obtain ⟨⟨⟨h0, h1⟩, h2⟩, h3⟩ := h
  show convFromExpr (listArgsStr "floats" false a) line = _
  rw [convFromExpr_listArgsStr "floats" false a line (by decide) (by decide)
    (fltBoundOk_text _ h1) (fltBoundOk_text _ h2)]
  have e : ("floats" == "ints") = false := by decide
  have := convOfArgs_list "floats" (.inr rfl) a.sizeMin a.sizeMax a.valueMin a.valueMax a.allowNoneEl
    a.allowAutoEl line h0 (by rw [e]; exact fltBoundOk_arg _ h1) (by rw [e]; exact fltBoundOk_arg _ h2) h3
  rw [e] at this
  exact this

/-- C01 (types): every printable built-in type prints and re-parses to the same type -/
theorem type_round_trip (c : Conv) (line : Option Nat) (h : Printable c = true) :
    convFromExpr (Conv.render c) line = .ok c := by
  cases c with
  | int a => exact type_round_trip_int a line h
  | float a => exact type_round_trip_float a line h
  | ints a => exact type_round_trip_ints a line h
  | floats a => exact type_round_trip_floats a line h
  | choice m => exact type_round_trip_choice m line
  | _ => rfl


end Phil
