/-
  Phil.Proofs.FetchChoice — closed form of scope.fetch for NESTED masters whose definitions may be
  CHOICES (single or multi, optional or not) and may be `.deprecated` (`TreeMasterC`: the class
  `TreeMaster` of Phil/Proofs/FetchTree.lean with the restriction "plain definition" dropped — only
  `.multiple` stays outside).
    1. specification: `srcVal` (what one matching source yields: `choiceFetch` of the MASTER's words
       and the source's words for a choice, `None` for a deprecated definition given its default,
       "incompatible" for a scope), `firstErrC` (every matching source is checked, the first failing
       one in document order decides the error), `treeObjC` / `treeResultC` (the LAST enabled source
       decides the value);
    2. `fetch_tree_choice_total`: `fetchScope` equals the specification, error for error;
    3. corollaries at any depth (`defAt`) used by Phil/Props/C11Tree.lean.
-/
import Phil.Proofs.FetchTree
import Phil.Proofs.ChoiceLemmas
set_option linter.unusedVariables false
namespace Phil

/-! ## 1. specification -/

/-- what ONE matching source yields for the master definition `mm = mws`: a scope is refused; a
    definition goes through `definition.fetch_value` (`fetchValueW`: for a choice, `choiceFetch` of
    the master's own words and the source's words) -/
def srcVal (mm : Meta) (mws : List Word) : Obj → R (Option Obj)
  | .scope _ _ => .error incompatibleErr
  | .defn sm sws => fetchValueW mm mws (Obj.defn sm sws).srcWords

/-- the error of the first matching source that fails, in document order -/
def firstErrC (mm : Meta) (mws : List Word) (l : List Obj) : Option Err :=
  l.findSome? (fun ms => errOf (srcVal mm mws ms))

def valOfC : R (Option Obj) → Option Obj
  | .ok v => v
  | .error _ => none

/-- what the loop over the matching sources leaves in the result: the value of the last source; with
    no value (no source, or a deprecated definition given its default) the master definition itself,
    or nothing when it is deprecated -/
def finishC (mm : Meta) (mws : List Word) : Option Obj → List Obj
  | some ro => [ro]
  | none => if (mm.attrs.get "deprecated").truthy then [] else [.defn mm mws]

mutual
/-- the result objects (none or one) for one master object, given the source objects at its level -/
def treeObjC : Obj → List Obj → R (List Obj)
  | .defn mm mws, srcs =>
    match firstErrC mm mws (activeNamed mm.name srcs) with
    | some err => .error err
    | none =>
      .ok (finishC mm mws (match lastDef srcs mm.name with
                           | some d => valOfC (srcVal mm mws d)
                           | none => none))
  | .scope mm kids, srcs =>
    if (defsNamed mm.name srcs).isEmpty then
      match treeResultC kids (srcStep srcs mm.name) with
      | .error err => .error err
      | .ok r => .ok [.scope { mm with tmpl := 0 } r]
    else .error incompatibleErr
/-- the children of the result scope, or the first error in master order -/
def treeResultC : List Obj → List Obj → R (List Obj)
  | [], _ => .ok []
  | mo :: rest, srcs =>
    match treeObjC mo srcs with
    | .error err => .error err
    | .ok os =>
      match treeResultC rest srcs with
      | .error err => .error err
      | .ok r => .ok (os ++ r)
end

mutual
def TreeObjC : Obj → Prop
  | .defn mm _ => (mm.attrs.get "multiple").truthy = false ∧ mm.name ≠ [] ∧ '.' ∉ mm.name ∧ mm.disabled = false
  | .scope mm kids =>
    (mm.attrs.get "multiple").truthy = false ∧ mm.name ≠ [] ∧ '.' ∉ mm.name ∧ mm.disabled = false ∧
      TreeKidsC kids ∧ (kids.map Obj.name).Pairwise (· ≠ ·)
def TreeKidsC : List Obj → Prop
  | [] => True
  | o :: os => TreeObjC o ∧ TreeKidsC os
end

/-- a master tree without `.multiple`, definitions of ANY type (choices included) and possibly
    `.deprecated`: enabled non-multiple definitions and enabled non-multiple scopes to any depth,
    names non-empty and dot-free, sibling names pairwise distinct -/
structure TreeMasterC (mkids : List Obj) : Prop where
  kids : TreeKidsC mkids
  distinct : (mkids.map Obj.name).Pairwise (· ≠ ·)

/-! ## 2. list forms -/

theorem treeKidsC_iff : ∀ (l : List Obj), TreeKidsC l ↔ ∀ o ∈ l, TreeObjC o
  | [] => by rw [TreeKidsC]; simp
  | o :: os => by rw [TreeKidsC, treeKidsC_iff os]; simp

theorem TreeMasterC.of_scope {mm : Meta} {kids : List Obj} (h : TreeObjC (.scope mm kids)) :
    TreeMasterC kids := by
  rw [TreeObjC] at h
  exact ⟨h.2.2.2.2.1, h.2.2.2.2.2⟩

theorem TreeMasterC.obj {mkids : List Obj} (h : TreeMasterC mkids) : ∀ o ∈ mkids, TreeObjC o :=
  (treeKidsC_iff mkids).mp h.kids

theorem TreeObjC.enabled : ∀ {o : Obj}, TreeObjC o → o.meta.disabled = false
  | .defn mm _, h => by rw [TreeObjC] at h; exact h.2.2.2
  | .scope mm _, h => by rw [TreeObjC] at h; exact h.2.2.2.1

theorem TreeObjC.name_ne : ∀ {o : Obj}, TreeObjC o → o.name ≠ []
  | .defn mm _, h => by rw [TreeObjC] at h; exact h.2.1
  | .scope mm _, h => by rw [TreeObjC] at h; exact h.2.1

theorem TreeObjC.dotfree : ∀ {o : Obj}, TreeObjC o → '.' ∉ o.name
  | .defn mm _, h => by rw [TreeObjC] at h; exact h.2.2.1
  | .scope mm _, h => by rw [TreeObjC] at h; exact h.2.2.1

theorem TreeObjC.notMultiple : ∀ {o : Obj}, TreeObjC o → isMultiple o = false
  | .defn mm _, h => by rw [TreeObjC] at h; exact h.1
  | .scope mm _, h => by rw [TreeObjC] at h; exact h.1

/-- every `TreeMaster` is a `TreeMasterC` -/
theorem TreeObj.toC : ∀ (o : Obj), TreeObj o → TreeObjC o
  | .defn mm mws, h => by
    rw [TreeObj] at h; rw [TreeObjC]
    exact ⟨h.1.notMultiple, h.2⟩
  | .scope mm [], h => by
    rw [TreeObj] at h; rw [TreeObjC]
    exact ⟨h.1, h.2.1, h.2.2.1, h.2.2.2.1, by rw [TreeKidsC]; trivial, h.2.2.2.2.2⟩
  | .scope mm (k :: ks), h => by
    rw [TreeObj] at h; rw [TreeObjC]
    refine ⟨h.1, h.2.1, h.2.2.1, h.2.2.2.1, ?_, h.2.2.2.2.2⟩
    have hk := (treeKids_iff (k :: ks)).mp h.2.2.2.2.1
    rw [treeKidsC_iff]
    intro o ho
    have : sizeOf o < sizeOf (Obj.scope mm (k :: ks)) := by
      have := List.sizeOf_lt_of_mem ho
      simp only [Obj.scope.sizeOf_spec]; omega
    exact TreeObj.toC o (hk o ho)
termination_by o => sizeOf o

theorem TreeMaster.toC {mkids : List Obj} (h : TreeMaster mkids) : TreeMasterC mkids :=
  ⟨(treeKidsC_iff mkids).mpr (fun o ho => TreeObj.toC o (h.obj o ho)), h.distinct⟩

theorem masterActive_treeC (mkids : List Obj) (hf : TreeMasterC mkids) :
    masterActiveObjects mkids = .ok (indexed mkids) := by
  have hsnd := indexed_map_snd mkids
  show masterActiveObjects.go (indexed mkids) [] [] = _
  rw [masterActive_go_all (indexed mkids) [] []]
  · simp
  · intro p hp
    have : p.2 ∈ mkids := by rw [← hsnd]; exact List.mem_map.mpr ⟨p, hp, rfl⟩
    exact (hf.obj _ this).enabled
  · rw [map_snd_comp Obj.name, hsnd]; exact hf.distinct
  · intro p _ q hq; cases hq

/-! ## 3. the loop over the matching sources of one master definition -/

/-- the value the loop carries after the sources `l` -/
def lastValC (mm : Meta) (mws : List Word) (l : List Obj) (init : Option Obj) : Option Obj :=
  match l.getLast? with
  | some d => valOfC (srcVal mm mws d)
  | none => init

theorem lastValC_cons (mm : Meta) (mws : List Word) (d : Obj) (l : List Obj) (init : Option Obj) :
    lastValC mm mws (d :: l) init = lastValC mm mws l (valOfC (srcVal mm mws d)) := by
  unfold lastValC
  rw [List.getLast?_cons]
  cases l.getLast? <;> rfl

/-- one source: `definition.fetch` is `srcVal`, and the source is marked -/
theorem defnOne_srcVal (e : Envs) (fuel : Nat) (mm : Meta) (mws : List Word) (ms : Obj)
    (hok : ms.isDefn = true → SrcOK ms) (acc : Option Obj × List Nat) :
    defnOne e fuel false (.defn mm mws) acc ms =
      (srcVal mm mws ms).map (fun ro => (ro, acc.2 ++ marksOf ms)) := by
  unfold defnOne marksOf
  rw [fetchDefn_nodiff]
  cases ms with
  | scope m k => rfl
  | defn sm sws =>
    rw [fetchValue_defn, srcWordsR_ok sm sws (hok rfl), srcVal]
    simp only [List.append_assoc]

theorem firstErrC_cons (mm : Meta) (mws : List Word) (d : Obj) (l : List Obj) :
    firstErrC mm mws (d :: l) =
      match srcVal mm mws d with
      | .error err => some err
      | .ok _ => firstErrC mm mws l := by
  unfold firstErrC
  rw [List.findSome?_cons]
  cases srcVal mm mws d <;> rfl

theorem defnOne_fold_choice (e : Envs) (fuel : Nat) (mm : Meta) (mws : List Word) :
    ∀ (l : List Obj) (init : Option Obj) (used : List Nat),
      (∀ o ∈ l, o.isDefn = true → SrcOK o) →
      l.foldlM (defnOne e fuel false (.defn mm mws)) (init, used) =
        match firstErrC mm mws l with
        | some err => .error err
        | none => .ok (lastValC mm mws l init, used ++ l.flatMap marksOf) := by
  intro l
  induction l with
  | nil => intro init used _; simp [firstErrC, lastValC]; rfl
  | cons d l ih =>
    intro init used hl
    rw [List.foldlM_cons, defnOne_srcVal e fuel mm mws d (hl d List.mem_cons_self), firstErrC_cons]
    cases hv : srcVal mm mws d with
    | error err => rfl
    | ok v =>
      show l.foldlM _ (v, used ++ marksOf d) = _
      rw [ih _ _ (fun o ho => hl o (List.mem_cons_of_mem _ ho)), lastValC_cons, hv]
      cases firstErrC mm mws l with
      | some err => rfl
      | none => simp [valOfC]

/-- no failing source: no enabled scope bears the name -/
theorem scopesNamed_nil_of_firstErrC {mm : Meta} {mws : List Word} {n : Str} {srcs : List Obj}
    (h : firstErrC mm mws (activeNamed n srcs) = none) : scopesNamed n srcs = [] := by
  cases hs : scopesNamed n srcs with
  | nil => rfl
  | cons sc rest =>
    exfalso
    have hmem : sc ∈ scopesNamed n srcs := by rw [hs]; exact List.mem_cons_self
    have hs' := mem_scopesNamed.mp hmem
    unfold firstErrC at h
    rw [List.findSome?_eq_none_iff] at h
    have := h sc (mem_activeNamed.mpr ⟨hs'.1, hs'.2.2.1, hs'.2.2.2⟩)
    cases sc with
    | defn m ws => cases hs'.2.1
    | scope m k => simp [srcVal, errOf] at this

/-! ## 4. one step of the master loop -/

theorem stepG_defn_choice (F : FetchFn) (e : Envs) (fuel : Nat) (sm : Meta)
    (mkids combined : List Obj) (st : List Obj × List Nat) (idx : Nat) (mm : Meta) (mws : List Word)
    (hmult : (mm.attrs.get "multiple").truthy = false)
    (hmatch : fetchMatching fuel sm combined (.defn mm mws) = activeNamed mm.name combined)
    (hsrc : ∀ o ∈ combined, o.meta.disabled = false → o.isDefn = true → SrcOK o) :
    stepG F e fuel false sm mkids combined st (idx, .defn mm mws) =
      match treeObjC (.defn mm mws) combined with
      | .error err => .error err
      | .ok os => .ok (st.1 ++ os, st.2 ++ treeUsedObj (.defn mm mws) combined) := by
  have hm : isMultiple (.defn mm mws) = false := hmult
  have hstep : stepG F e fuel false sm mkids combined st (idx, .defn mm mws) =
      defnFinish false (.defn mm mws) mm st.1
        ((activeNamed mm.name combined).foldlM (defnOne e fuel false (.defn mm mws)) (none, st.2)) := by
    unfold stepG
    simp only [hm, Bool.not_false, if_true]
    rw [hmatch]
  rw [hstep, treeObjC, treeUsedObj,
    defnOne_fold_choice e fuel mm mws _ _ _ (fun o ho => hsrc o (mem_activeNamed.mp ho).1 (mem_activeNamed.mp ho).2.1)]
  cases hfe : firstErrC mm mws (activeNamed mm.name combined) with
  | some err => rfl
  | none =>
    have hsc := scopesNamed_nil_of_firstErrC hfe
    rw [activeNamed_eq_defsNamed _ _ hsc]
    simp only
    unfold defnFinish lastValC lastDef finishC
    cases (defsNamed mm.name combined).getLast? with
    | none =>
      simp only [Bool.not_false, Bool.true_and]
      cases (mm.attrs.get "deprecated").truthy <;> simp
    | some d =>
      simp only
      cases valOfC (srcVal mm mws d) with
      | some ro => rfl
      | none =>
        simp only [Bool.not_false, Bool.true_and]
        cases (mm.attrs.get "deprecated").truthy <;> simp

theorem stepG_scope_choice (F : FetchFn) (e : Envs) (fuel : Nat) (sm : Meta)
    (mkids combined : List Obj) (st : List Obj × List Nat) (idx : Nat) (mm : Meta) (kids : List Obj)
    (hmult : (mm.attrs.get "multiple").truthy = false)
    (hmatch : fetchMatching fuel sm combined (.scope mm kids) = activeNamed mm.name combined)
    (hF : F false mm kids (srcStep combined mm.name) =
      match treeResultC kids (srcStep combined mm.name) with
      | .error err => .error err
      | .ok r => .ok (.scope { mm with tmpl := 0 } r, treeUsed kids (srcStep combined mm.name))) :
    stepG F e fuel false sm mkids combined st (idx, .scope mm kids) =
      match treeObjC (.scope mm kids) combined with
      | .error err => .error err
      | .ok os => .ok (st.1 ++ os, st.2 ++ treeUsedObj (.scope mm kids) combined) := by
  have hm : isMultiple (.scope mm kids) = false := hmult
  have hstep : stepG F e fuel false sm mkids combined st (idx, .scope mm kids) =
      scopeBranch F false mm kids (activeNamed mm.name combined) st.1 st.2 := by
    unfold stepG
    simp only [hm, Bool.not_false, if_true]
    rw [hmatch]
  rw [hstep, treeObjC, treeUsedObj]
  unfold scopeBranch
  cases hdn : defsNamed mm.name combined with
  | nil =>
    rw [find_isDefn_activeNamed_none _ _ hdn, activeNamed_children_tree, hF]
    simp only [List.isEmpty_nil, if_true]
    cases treeResultC kids (srcStep combined mm.name) with
    | error err => rfl
    | ok r => simp
  | cons d rest =>
    obtain ⟨x, hx⟩ := find_isDefn_activeNamed_some mm.name combined (by rw [hdn]; exact List.cons_ne_nil _ _)
    rw [hx]
    simp only [List.isEmpty_cons, Bool.false_eq_true, if_false]
    rfl

/-! ## 5. the whole fetch -/

theorem foldlM_seq_choice (f : (List Obj × List Nat) → (Nat × Obj) → R (List Obj × List Nat))
    (srcs : List Obj) :
    ∀ (l : List (Nat × Obj)),
      (∀ st a, a ∈ l → f st a =
        match treeObjC a.2 srcs with
        | .error err => .error err
        | .ok os => .ok (st.1 ++ os, st.2 ++ treeUsedObj a.2 srcs)) →
      ∀ (init : List Obj × List Nat),
        l.foldlM f init =
          match treeResultC (l.map (·.2)) srcs with
          | .error err => .error err
          | .ok r => .ok (init.1 ++ r, init.2 ++ treeUsed (l.map (·.2)) srcs) := by
  intro l
  induction l with
  | nil => intro _ init; simp [treeResultC, treeUsed]; rfl
  | cons a l ih =>
    intro hstep init
    rw [List.foldlM_cons, hstep init a List.mem_cons_self, List.map_cons, treeResultC, treeUsed]
    cases treeObjC a.2 srcs with
    | error err => rfl
    | ok os =>
      show l.foldlM f _ = _
      rw [ih (fun st a' ha' => hstep st a' (List.mem_cons_of_mem _ ha'))]
      cases treeResultC (l.map (·.2)) srcs with
      | error err => rfl
      | ok r => simp

/-- **closed form of the fetch of a nested master with choices and deprecated definitions**
    (non-diff mode): with fuel beyond the nesting depth the fetch is `treeResultC` — error for
    error — and the consumed ids are `treeUsed`. -/
theorem fetch_tree_choice_total (e : Envs) : ∀ (fuel : Nat) (sm : Meta) (mkids srcs : List Obj),
    TreeMasterC mkids → depthL mkids < fuel → sm.disabled = false → SrcTree srcs →
    fetchScope e fuel false sm mkids srcs =
      match treeResultC mkids srcs with
      | .error err => .error err
      | .ok r => .ok (.scope { sm with tmpl := 0 } r, treeUsed mkids srcs) := by
  intro fuel
  induction fuel with
  | zero => intro sm mkids srcs _ hd; exact absurd hd (Nat.not_lt_zero _)
  | succ fuel ih =>
    intro sm mkids srcs hf hdepth hsd hsrc
    rw [fetchScope_succ, masterActive_treeC mkids hf]
    simp only
    have hsc : ∀ m kids, Obj.scope m kids ∈ srcs → m.disabled = false → m.name ≠ [] :=
      fun m kids hm hd => hsrc.named m kids (.here hm hd)
    have hok : ∀ o ∈ srcs, o.meta.disabled = false → o.isDefn = true → SrcOK o :=
      fun o ho hd hdef => hsrc.ok o (.here ho hd) hdef
    rw [foldlM_seq_choice _ srcs (indexed mkids)]
    · rw [indexed_map_snd]
      cases treeResultC mkids srcs with
      | error err => rfl
      | ok r => simp only [List.nil_append]; rfl
    · intro st a ha
      have hmem : a.2 ∈ mkids := by rw [← indexed_map_snd mkids]; exact List.mem_map.mpr ⟨a, ha, rfl⟩
      have hto := hf.obj _ hmem
      have hmatch := fetchMatching_tree fuel sm srcs a.2 hsd hto.name_ne hto.dotfree hsc
      obtain ⟨i, mo⟩ := a
      simp only at hmem hto hmatch ⊢
      cases mo with
      | defn mm mws =>
        rw [TreeObjC] at hto
        exact stepG_defn_choice _ e fuel sm mkids srcs st i mm mws hto.1 hmatch hok
      | scope mm kids =>
        have hkids := TreeMasterC.of_scope hto
        have hd1 := depthT_le_depthL mkids _ hmem
        rw [depthT] at hd1
        rw [TreeObjC] at hto
        exact stepG_scope_choice _ e fuel sm mkids srcs st i mm kids hto.1 hmatch
          (ih mm kids (srcStep srcs mm.name) hkids (by omega) hto.2.2.2.1 (hsrc.step mm.name))

/-- **`master.fetch(sources)`** on parsed roots -/
theorem fetchRoot_tree_choice (e : Envs) (master : List Obj) (ss : List (List Obj))
    (hf : TreeMasterC master) (hd : depthL master ≤ 1000) (hsrc : SrcTree ss.flatten) :
    fetchRoot e false master ss =
      match treeResultC master ss.flatten with
      | .error err => .error err
      | .ok r => .ok (.scope { name := [], id := some 0 } r, treeUsed master ss.flatten) :=
  fetch_tree_choice_total e _ _ master ss.flatten hf (fetchRoot_fuel_tree master hd) rfl hsrc

/-! ## 6. the value of a choice definition, errors -/

/-- a choice master definition that is not deprecated: one source yields `choiceFetch` of the
    MASTER's words and the source's (resolved) words -/
theorem srcVal_choice (mm : Meta) (mws : List Word) (b : Bool) (sm : Meta) (sws : List Word)
    (ht : mm.attrs.get "type" = .conv (.choice b)) (hd : (mm.attrs.get "deprecated").truthy = false) :
    srcVal mm mws (.defn sm sws) =
      (choiceFetch mws (mm.attrs.get "optional") (Obj.defn sm sws).srcWords false).map
        (fun ws => some (.defn { mm with tmpl := 0 } ws)) := by
  rw [srcVal]
  simp only [fetchValueW, hd, Bool.false_and, Bool.false_eq_true, if_false, ht]

/-- the errors of one source: "incompatible" (a scope), or the error of `choiceFetch` for a choice -/
theorem srcVal_error (mm : Meta) (mws : List Word) (ms : Obj) (err : Err)
    (h : srcVal mm mws ms = .error err) :
    (ms.isDefn = false ∧ err = incompatibleErr) ∨
    (ms.isDefn = true ∧ ∃ b, mm.attrs.get "type" = .conv (.choice b) ∧
      choiceFetch mws (mm.attrs.get "optional") ms.srcWords false = .error err) := by
  cases ms with
  | scope m k => rw [srcVal] at h; cases h; exact .inl ⟨rfl, rfl⟩
  | defn sm sws =>
    rw [srcVal] at h
    simp only [fetchValueW] at h
    split at h
    · cases h
    · split at h
      · rename_i b hb
        refine .inr ⟨rfl, b, hb, ?_⟩
        cases hc : choiceFetch mws (mm.attrs.get "optional") (Obj.defn sm sws).srcWords false with
        | error e2 => rw [hc] at h; cases h; rfl
        | ok ws => rw [hc] at h; cases h
      · cases h

theorem srcVal_shape (mm : Meta) (mws : List Word) (ms ro : Obj)
    (h : srcVal mm mws ms = .ok (some ro)) : ∃ ws, ro = .defn { mm with tmpl := 0 } ws := by
  cases ms with
  | scope m k => rw [srcVal] at h; cases h
  | defn sm sws => rw [srcVal] at h; exact fetchValueW_shape mm mws _ ro h

theorem valOfC_shape (mm : Meta) (mws : List Word) (ms ro : Obj)
    (h : valOfC (srcVal mm mws ms) = some ro) : ∃ ws, ro = .defn { mm with tmpl := 0 } ws := by
  cases hv : srcVal mm mws ms with
  | error e => rw [hv] at h; cases h
  | ok v => rw [hv] at h; simp only [valOfC] at h; subst h; exact srcVal_shape mm mws ms ro hv

/-- whatever a master definition leaves in the result is a definition of the same name -/
theorem finishC_mem (mm : Meta) (mws : List Word) (ms : Option Obj) (o : Obj)
    (ho : o ∈ finishC mm mws (match ms with | some d => valOfC (srcVal mm mws d) | none => none)) :
    ∃ m ws, o = .defn m ws ∧ m.name = mm.name := by
  cases ms with
  | none =>
    simp only [finishC] at ho
    split at ho
    · cases ho
    · rw [List.mem_singleton] at ho; exact ⟨mm, mws, ho, rfl⟩
  | some d =>
    simp only at ho
    cases hv : valOfC (srcVal mm mws d) with
    | none =>
      rw [hv] at ho
      simp only [finishC] at ho
      split at ho
      · cases ho
      · rw [List.mem_singleton] at ho; exact ⟨mm, mws, ho, rfl⟩
    | some ro =>
      rw [hv] at ho
      simp only [finishC, List.mem_singleton] at ho
      obtain ⟨ws, hws⟩ := valOfC_shape mm mws d ro hv
      exact ⟨{ mm with tmpl := 0 }, ws, by rw [ho, hws], rfl⟩

theorem treeObjC_names (mo : Obj) (srcs os : List Obj) (h : treeObjC mo srcs = .ok os) :
    ∀ o ∈ os, o.name = mo.name ∧ o.isDefn = mo.isDefn := by
  intro o ho
  cases mo with
  | defn mm mws =>
    rw [treeObjC] at h
    split at h
    · cases h
    · cases h
      obtain ⟨m, ws, rfl, hn⟩ := finishC_mem mm mws _ o ho
      exact ⟨hn, rfl⟩
  | scope mm kids =>
    rw [treeObjC] at h
    split at h
    · split at h
      · cases h
      · cases h
        rw [List.mem_singleton] at ho
        subst ho
        exact ⟨rfl, rfl⟩
    · cases h

theorem treeResultC_names : ∀ (mkids srcs R : List Obj), treeResultC mkids srcs = .ok R →
    ∀ o ∈ R, ∃ mo ∈ mkids, o.name = mo.name
  | [], srcs, R, h => by rw [treeResultC] at h; cases h; intro o ho; cases ho
  | mo :: rest, srcs, R, h => by
    rw [treeResultC] at h
    cases h1 : treeObjC mo srcs with
    | error e => rw [h1] at h; cases h
    | ok os =>
      rw [h1] at h
      cases h2 : treeResultC rest srcs with
      | error e => rw [h2] at h; cases h
      | ok r =>
        rw [h2] at h
        cases h
        intro o ho
        rw [List.mem_append] at ho
        rcases ho with ho | ho
        · exact ⟨mo, List.mem_cons_self, (treeObjC_names mo srcs os h1 o ho).1⟩
        · obtain ⟨mo', hm, hn⟩ := treeResultC_names rest srcs r h2 o ho
          exact ⟨mo', List.mem_cons_of_mem _ hm, hn⟩

/-- `treeObjC` yields at most one object -/
theorem treeObjC_length (mo : Obj) (srcs os : List Obj) (h : treeObjC mo srcs = .ok os) : os.length ≤ 1 := by
  cases mo with
  | defn mm mws =>
    rw [treeObjC] at h
    split at h
    · cases h
    · cases h
      unfold finishC
      split
      · simp
      · split <;> simp
  | scope mm kids =>
    rw [treeObjC] at h
    split at h
    · split at h
      · cases h
      · cases h; simp
    · cases h

/-- finding a name in the result: the (at most one) result object of the master object of that name -/
theorem findNamed_treeResultC : ∀ (mkids srcs R : List Obj) (n : Str) (mo : Obj),
    (mkids.map Obj.name).Pairwise (· ≠ ·) → treeResultC mkids srcs = .ok R →
    findNamedTree mkids n = some mo →
    ∃ os, treeObjC mo srcs = .ok os ∧ findNamedTree R n = os.head?
  | [], srcs, R, n, mo, _, _, hf => by unfold findNamedTree at hf; cases hf
  | mo' :: rest, srcs, R, n, mo, hd, h, hf => by
    rw [treeResultC] at h
    cases h1 : treeObjC mo' srcs with
    | error e => rw [h1] at h; cases h
    | ok os' =>
      rw [h1] at h
      cases h2 : treeResultC rest srcs with
      | error e => rw [h2] at h; cases h
      | ok r =>
        rw [h2] at h
        cases h
        rw [List.map_cons, List.pairwise_cons] at hd
        unfold findNamedTree at hf ⊢
        rw [List.find?_cons] at hf
        cases hn : (mo'.name == n) with
        | true =>
          rw [hn] at hf
          cases hf
          refine ⟨os', h1, ?_⟩
          have hnames := treeObjC_names mo' srcs os' h1
          have hlen := treeObjC_length mo' srcs os' h1
          cases os' with
          | nil =>
            rw [List.nil_append, List.head?_nil, List.find?_eq_none]
            intro x hx hxn
            obtain ⟨mo2, hm2, hn2⟩ := treeResultC_names rest srcs r h2 x hx
            have h3 : mo'.name = n := by simpa using hn
            have h4 : x.name = n := by simpa using hxn
            exact hd.1 mo2.name (List.mem_map.mpr ⟨mo2, hm2, rfl⟩) (by rw [h3, ← h4, hn2])
          | cons o os2 =>
            have h5 : (o.name == n) = true := by rw [(hnames o List.mem_cons_self).1]; exact hn
            rw [List.cons_append, List.find?_cons, h5]
            rfl
        | false =>
          rw [hn] at hf
          obtain ⟨os, ho1, ho2⟩ := findNamed_treeResultC rest srcs r n mo hd.2 h2 hf
          refine ⟨os, ho1, ?_⟩
          have hnames := treeObjC_names mo' srcs os' h1
          have : (os' ++ r).find? (fun o => o.name == n) = r.find? (fun o => o.name == n) := by
            rw [List.find?_append]
            have : os'.find? (fun o => o.name == n) = none := by
              rw [List.find?_eq_none]
              intro x hx
              rw [(hnames x hx).1, hn]
              simp
            rw [this]
            rfl
          rw [this]
          exact ho2

/-- **the result at a path**: where the master has the definition `mm = mws` at `ps.n`, a successful
    fetch evaluated `treeObjC` of that definition on the sources reached by the path (so every
    matching source there passed), and the result has at `ps.n` what `treeObjC` left -/
theorem defAt_treeResultC : ∀ (ps : List Str) (mkids srcs R : List Obj) (n : Str) (mm : Meta) (mws : List Word),
    TreeMasterC mkids → treeResultC mkids srcs = .ok R → defAt mkids ps n = some (.defn mm mws) →
    ∃ os, treeObjC (.defn mm mws) (srcAt srcs ps) = .ok os ∧ defAt R ps n = os.head?
  | [], mkids, srcs, R, n, mm, mws, hf, h, hd => by
    rw [defAt] at hd
    cases hfn : findNamedTree mkids n with
    | none => rw [hfn] at hd; cases hd
    | some mo =>
      rw [hfn] at hd
      cases mo with
      | scope m k => cases hd
      | defn m ws =>
        simp only [Option.some.injEq, Obj.defn.injEq] at hd
        obtain ⟨rfl, rfl⟩ := hd
        obtain ⟨os, ho1, ho2⟩ := findNamed_treeResultC mkids srcs R n _ hf.distinct h hfn
        refine ⟨os, by rw [srcAt]; exact ho1, ?_⟩
        rw [defAt, ho2]
        have hnames := treeObjC_names _ srcs os ho1
        cases os with
        | nil => rfl
        | cons o os2 =>
          have := (hnames o List.mem_cons_self).2
          cases o with
          | defn m2 ws2 => rfl
          | scope m2 k2 => cases this
  | s :: ps, mkids, srcs, R, n, mm, mws, hf, h, hd => by
    rw [defAt] at hd
    cases hfn : findNamedTree mkids s with
    | none => rw [hfn] at hd; cases hd
    | some mo =>
      rw [hfn] at hd
      cases mo with
      | defn m ws => cases hd
      | scope sm kids =>
        simp only at hd
        have hname : sm.name = s := findNamed_name hfn
        have hmem : Obj.scope sm kids ∈ mkids := findNamed_mem hfn
        obtain ⟨os, ho1, ho2⟩ := findNamed_treeResultC mkids srcs R s _ hf.distinct h hfn
        rw [treeObjC] at ho1
        split at ho1
        · cases h3 : treeResultC kids (srcStep srcs sm.name) with
          | error e => rw [h3] at ho1; cases ho1
          | ok r =>
            rw [h3] at ho1
            cases ho1
            obtain ⟨os2, hos1, hos2⟩ := defAt_treeResultC ps kids (srcStep srcs sm.name) r n mm mws
              (TreeMasterC.of_scope (hf.obj _ hmem)) h3 hd
            refine ⟨os2, by rw [srcAt, ← hname]; exact hos1, ?_⟩
            rw [defAt, ho2]
            exact hos2
        · cases ho1

/-- **every matching source is checked**: a source definition reached by the path of a master
    definition and refused by `srcVal` (for a choice: an unknown selected name) makes the whole
    fetch fail, whether or not a later source overrides it -/
theorem treeResultC_error_of_bad_source (ps : List Str) (mkids srcs : List Obj) (n : Str)
    (mm : Meta) (mws : List Word) (hf : TreeMasterC mkids)
    (hd : defAt mkids ps n = some (.defn mm mws)) (d : Obj) (hmem : d ∈ defsNamed n (srcAt srcs ps))
    (err : Err) (hbad : srcVal mm mws d = .error err) :
    ∃ err', treeResultC mkids srcs = .error err' := by
  cases h : treeResultC mkids srcs with
  | error e => exact ⟨e, rfl⟩
  | ok R =>
    exfalso
    obtain ⟨os, ho1, _⟩ := defAt_treeResultC ps mkids srcs R n mm mws hf h hd
    have hn : mm.name = n := (defAt_name ps mkids n _ hd).1
    rw [treeObjC] at ho1
    split at ho1
    · cases ho1
    · rename_i hfe
      unfold firstErrC at hfe
      rw [List.findSome?_eq_none_iff] at hfe
      have hd' := mem_defsNamed.mp hmem
      have := hfe d (mem_activeNamed.mpr ⟨hd'.1, hd'.2.2.1, by rw [hn]; exact hd'.2.2.2⟩)
      rw [hbad] at this
      cases this

/-- the errors of the specification: "incompatible", or an error of `choiceFetch` applied to the
    words of a choice definition of the master -/
def ChoiceErr (err : Err) : Prop :=
  err = incompatibleErr ∨
    ∃ (mm : Meta) (mws sws : List Word) (b : Bool), mm.attrs.get "type" = .conv (.choice b) ∧
      choiceFetch mws (mm.attrs.get "optional") sws false = .error err

mutual
theorem treeObjC_error : ∀ (mo : Obj) (srcs : List Obj) (err : Err),
    treeObjC mo srcs = .error err → ChoiceErr err
  | .defn mm mws, srcs, err, h => by
    rw [treeObjC] at h
    split at h
    · rename_i e2 hfe
      cases h
      unfold firstErrC at hfe
      obtain ⟨ms, _, hms⟩ := List.exists_of_findSome?_eq_some hfe
      have := eq_error_of_errOf hms
      rcases srcVal_error mm mws ms _ this with ⟨_, h2⟩ | ⟨_, b, hb, hc⟩
      · exact .inl h2
      · exact .inr ⟨mm, mws, _, b, hb, hc⟩
    · cases h
  | .scope mm kids, srcs, err, h => by
    rw [treeObjC] at h
    split at h
    · cases h3 : treeResultC kids (srcStep srcs mm.name) with
      | error e =>
        rw [h3] at h
        cases h
        exact treeResultC_error kids _ _ h3
      | ok r => rw [h3] at h; cases h
    · cases h; exact .inl rfl
theorem treeResultC_error : ∀ (mkids : List Obj) (srcs : List Obj) (err : Err),
    treeResultC mkids srcs = .error err → ChoiceErr err
  | [], srcs, err, h => by rw [treeResultC] at h; cases h
  | mo :: rest, srcs, err, h => by
    rw [treeResultC] at h
    cases h1 : treeObjC mo srcs with
    | error e => rw [h1] at h; cases h; exact treeObjC_error mo srcs _ h1
    | ok os =>
      rw [h1] at h
      cases h2 : treeResultC rest srcs with
      | error e => rw [h2] at h; cases h; exact treeResultC_error rest srcs _ h2
      | ok r => rw [h2] at h; cases h
end

/-! ## 7. executable class check -/

mutual
def treeObjCB : Obj → Bool
  | .defn mm _ => !(mm.attrs.get "multiple").truthy && !mm.name.isEmpty && !mm.name.contains '.' && !mm.disabled
  | .scope mm kids =>
    !(mm.attrs.get "multiple").truthy && !mm.name.isEmpty && !mm.name.contains '.' && !mm.disabled &&
      treeKidsCB kids && decide ((kids.map Obj.name).Pairwise (· ≠ ·))
def treeKidsCB : List Obj → Bool
  | [] => true
  | o :: os => treeObjCB o && treeKidsCB os
end

mutual
theorem treeObjCB_sound : ∀ (o : Obj), treeObjCB o = true → TreeObjC o
  | .defn mm mws, h => by
    rw [treeObjCB] at h
    simp only [Bool.and_eq_true, Bool.not_eq_true', List.contains_eq_mem, decide_eq_false_iff_not] at h
    rw [TreeObjC]
    exact ⟨h.1.1.1, str_ne_nil_of_isEmpty h.1.1.2, h.1.2, h.2⟩
  | .scope mm kids, h => by
    rw [treeObjCB] at h
    simp only [Bool.and_eq_true, Bool.not_eq_true', List.contains_eq_mem, decide_eq_false_iff_not,
      decide_eq_true_eq] at h
    rw [TreeObjC]
    exact ⟨h.1.1.1.1.1, str_ne_nil_of_isEmpty h.1.1.1.1.2, h.1.1.1.2, h.1.1.2,
      treeKidsCB_sound kids h.1.2, h.2⟩
theorem treeKidsCB_sound : ∀ (l : List Obj), treeKidsCB l = true → TreeKidsC l
  | [], _ => by rw [TreeKidsC]; trivial
  | o :: os, h => by
    rw [treeKidsCB, Bool.and_eq_true] at h
    rw [TreeKidsC]
    exact ⟨treeObjCB_sound o h.1, treeKidsCB_sound os h.2⟩
end

/-- executable form of `TreeMasterC` with the depth bound of `fetchRoot` -/
def treeMasterCB (mkids : List Obj) : Bool :=
  treeKidsCB mkids && decide ((mkids.map Obj.name).Pairwise (· ≠ ·)) && decide (depthL mkids ≤ 1000)

theorem treeMasterCB_sound (mkids : List Obj) (h : treeMasterCB mkids = true) :
    TreeMasterC mkids ∧ depthL mkids ≤ 1000 := by
  unfold treeMasterCB at h
  simp only [Bool.and_eq_true, decide_eq_true_eq] at h
  exact ⟨⟨treeKidsCB_sound mkids h.1.1, h.1.2⟩, h.2⟩

end Phil
