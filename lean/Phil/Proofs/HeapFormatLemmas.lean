/-
  Helper lemmas for Phil/Props/C17FormatHeap.lean: the heap-level `formatH` (Phil/HeapFormat.lean) only appends
  cells and its result has the shape `ResShape` (Phil/Proofs/HeapFetchLemmas.lean).
-/
import Phil.HeapFormat
import Phil.Proofs.HeapFetchLemmas
namespace Phil.Heap
open Phil

/-- `h'` comes from `h` by allocating cells: no existing cell is written -/
def Grows (h h' : Heap) : Prop := ∃ ext, h' = h ++ ext

theorem Grows.refl (h : Heap) : Grows h h := ⟨[], by simp⟩
theorem Grows.trans {a b c : Heap} (x : Grows a b) (y : Grows b c) : Grows a c := by
  obtain ⟨e1, rfl⟩ := x
  obtain ⟨e2, rfl⟩ := y
  exact ⟨e1 ++ e2, List.append_assoc _ _ _⟩
theorem Grows.alloc (h ext : Heap) : Grows h (h ++ ext) := ⟨ext, rfl⟩
theorem Grows.length_le {h h' : Heap} (g : Grows h h') : h.length ≤ h'.length := by
  obtain ⟨e, rfl⟩ := g
  rw [List.length_append]; omega
theorem Grows.get {h h' : Heap} (g : Grows h h') {x : Nat} {n : Node} (hx : h[x]? = some n) : h'[x]? = some n := by
  obtain ⟨e, rfl⟩ := g
  exact getElem?_append_some e hx
theorem Grows.get_lt {h h' : Heap} (g : Grows h h') {x : Nat} (hx : x < h.length) : h'[x]? = h[x]? := by
  obtain ⟨e, rfl⟩ := g
  exact List.getElem?_append_left hx
theorem Grows.closed {h h' : Heap} (g : Grows h h') {n0 : Nat} (hc : ClosedBelow h n0) (hn : n0 ≤ h.length) :
    ClosedBelow h' n0 := by
  obtain ⟨e, rfl⟩ := g
  exact hc.append hn e
theorem Grows.res {h h' : Heap} (g : Grows h h') {n0 x : Nat} (r : ResShape n0 h x) : ResShape n0 h' x := by
  obtain ⟨e, rfl⟩ := g
  exact r.append e

/-- what the callee one level down guarantees -/
def RecOKF (n0 : Nat) (rec : Nat → PVal → Heap → R (Heap × Nat)) : Prop :=
  ∀ x v h h' r, n0 ≤ h.length → ClosedBelow h n0 → x < n0 →
    rec x v h = .ok (h', r) → Grows h h' ∧ ResShape n0 h' r

/-- the template copy `obj = object.copy(); obj.is_template = ±1` of an old object is a result-shaped new cell -/
theorem fetchTemplate_shape {h h' : Heap} {mid c n0 : Nat} {t : Int} (ht : t = 1 ∨ t = -1) (hmid : mid < n0)
    (hlen : n0 ≤ h.length) (hf : fetchTemplate h mid t = some (h', c)) :
    Grows h h' ∧ ResShape n0 h' c := by
  obtain ⟨n, hn, rfl, rfl⟩ := fetchTemplate_eq' hf
  refine ⟨Grows.alloc _ _, ?_⟩
  cases n with
  | defn m ws p =>
    refine .defn hlen (m := { m with tmpl := t }) (ws := ws) (p := p) ?_
    show (h ++ _)[h.length]? = _
    rw [List.getElem?_append_right (Nat.le_refl _), Nat.sub_self]
    rfl
  | scope m ks p =>
    refine .tmpl (y := mid) (m := m) (ks := ks) (p := p) (t := t) hlen hmid (getElem?_append_some _ hn) ?_ ht
    show (h ++ _)[h.length]? = _
    rw [List.getElem?_append_right (Nat.le_refl _), Nat.sub_self]
    rfl

/-- invariant of the loops of `scope.format` -/
def QF (n0 : Nat) (hA : Heap) (h : Heap) (out : List Nat) : Prop :=
  Grows hA h ∧ ∀ r ∈ out, ResShape n0 h r

theorem QF.push {n0 : Nat} {hA h h1 : Heap} {out : List Nat} {r : Nat} (q : QF n0 hA h out) (g : Grows h h1)
    (hr : ResShape n0 h1 r) : QF n0 hA h1 (out ++ [r]) := by
  refine ⟨q.1.trans g, ?_⟩
  intro x hx
  rcases List.mem_append.mp hx with hx | hx
  · exact g.res (q.2 x hx)
  · simp only [List.mem_singleton] at hx
    subst hx
    exact hr

theorem fmtAppH_spec {rec : Nat → PVal → Heap → R (Heap × Nat)} {n0 : Nat} (hrec : RecOKF n0 rec) {mid : Nat}
    (hmid : mid < n0) (hA : Heap) (hAl : n0 ≤ hA.length) (hcl : ClosedBelow hA n0)
    (acc : Heap × List Nat) (x : PVal) (acc' : Heap × List Nat)
    (hq : QF n0 hA acc.1 acc.2) (hf : fmtAppH rec mid acc x = .ok acc') : QF n0 hA acc'.1 acc'.2 := by
  unfold fmtAppH at hf
  split at hf
  · cases hf
  · rename_i h1 r hr
    simp only [Except.ok.injEq] at hf
    subst hf
    obtain ⟨g, hs⟩ := hrec _ _ _ _ _ (Nat.le_trans hAl hq.1.length_le) (hq.1.closed hcl hAl) hmid hr
    exact hq.push g hs

theorem finnerH_spec {rec : Nat → PVal → Heap → R (Heap × Nat)} {n0 : Nat} (hrec : RecOKF n0 rec) (o : Obj) {mid : Nat}
    (mult : Bool) (hmid : mid < n0) (hA : Heap) (hAl : n0 ≤ hA.length) (hcl : ClosedBelow hA n0)
    (st : Heap × List Nat × List (Str × Bool)) (pi : PVal) (st' : Heap × List Nat × List (Str × Bool))
    (hq : QF n0 hA st.1 st.2.1) (hf : finnerH rec o mid mult st pi = .ok st') : QF n0 hA st'.1 st'.2.1 := by
  have hlen : n0 ≤ st.1.length := Nat.le_trans hAl hq.1.length_le
  have hcl' : ClosedBelow st.1 n0 := hq.1.closed hcl hAl
  unfold finnerH at hf
  dsimp only at hf
  split at hf
  · split at hf
    · simp only [Except.ok.injEq] at hf
      subst hf
      exact hq
    · split at hf
      · split at hf
        · cases hf
        · rename_i h1 r hr
          simp only [Except.ok.injEq] at hf
          subst hf
          obtain ⟨g, hs⟩ := hrec _ _ _ _ _ hlen hcl' hmid hr
          exact hq.push g hs
      · split at hf
        · cases hf
        · split at hf
          · cases hf
          · rename_i h1 c hft
            simp only [Except.ok.injEq] at hf
            subst hf
            obtain ⟨g, hs⟩ := fetchTemplate_shape (.inl rfl) hmid hlen hft
            exact hq.push g hs
        · rename_i l _ _
          split at hf
          · cases hf
          · rename_i acc hpre
            have hqa : QF n0 hA acc.1 acc.2 := by
              split at hpre
              · split at hpre
                · cases hpre
                · rename_i h1 c hft
                  simp only [Except.ok.injEq] at hpre
                  subst hpre
                  obtain ⟨g, hs⟩ := fetchTemplate_shape (.inr rfl) hmid hlen hft
                  exact hq.push g hs
              · simp only [Except.ok.injEq] at hpre
                subst hpre
                exact hq
            split at hf
            · cases hf
            · rename_i h3 out3 hfold
              simp only [Except.ok.injEq] at hf
              subst hf
              exact foldH_inv (fmtAppH rec mid) (fun a => QF n0 hA a.1 a.2)
                (fun a x a' ha hs => fmtAppH_spec hrec hmid hA hAl hcl a x a' ha hs) l acc (h3, out3) hqa hfold
  · cases hf

theorem fstepH_spec {rec : Nat → PVal → Heap → R (Heap × Nat)} {n0 : Nat} (hrec : RecOKF n0 rec)
    (mk : List Nat) (v : PVal) (hmk : ∀ k ∈ mk, k < n0) (hA : Heap) (hAl : n0 ≤ hA.length) (hcl : ClosedBelow hA n0)
    (st : Heap × List Nat × List (Str × Bool)) (io : Nat × Obj) (st' : Heap × List Nat × List (Str × Bool))
    (hq : QF n0 hA st.1 st.2.1) (hf : fstepH rec mk v st io = .ok st') : QF n0 hA st'.1 st'.2.1 := by
  have hlen : n0 ≤ st.1.length := Nat.le_trans hAl hq.1.length_le
  have hcl' : ClosedBelow st.1 n0 := hq.1.closed hcl hAl
  unfold fstepH at hf
  dsimp only at hf
  split at hf
  · cases hf
  · rename_i mid hmidEq
    have hmid : mid < n0 := hmk mid (List.mem_of_getElem? hmidEq)
    split at hf
    · simp only [Except.ok.injEq] at hf
      subst hf
      exact hq
    · split at hf
      · split at hf
        · cases hf
        · rename_i h1 r hr
          simp only [Except.ok.injEq] at hf
          subst hf
          obtain ⟨g, hs⟩ := hrec _ _ _ _ _ hlen hcl' hmid hr
          exact hq.push g hs
      · split at hf
        · cases hf
        · rename_i h1 r hr
          simp only [Except.ok.injEq] at hf
          subst hf
          obtain ⟨g, hs⟩ := hrec _ _ _ _ _ hlen hcl' hmid hr
          exact hq.push g hs
      · split at hf
        · cases hf
        · rename_i pobjs _
          exact foldH_inv _ (fun a => QF n0 hA a.1 a.2.1)
            (fun a x a' ha hs => finnerH_spec hrec io.2 (isMultiple io.2) hmid hA hAl hcl a x a' ha hs)
            pobjs _ st' hq hf

theorem formatH_spec (e : Envs) (n0 : Nat) : ∀ (fuel : Nat), RecOKF n0 (formatH e fuel)
  | 0 => by
    intro x v h h' r _ _ _ hf
    simp only [formatH] at hf
    cases hf
  | fuel + 1 => by
    intro x v h h' r hlen hcl hx hf
    have ih := formatH_spec e n0 fuel
    simp only [formatH] at hf
    split at hf
    · cases hf
    · rename_i m ws p hcell
      split at hf
      · cases hf
      · rename_i o _
        split at hf
        · cases hf
        · rename_i h1 c hcc
          obtain ⟨n, hn, rfl, rfl⟩ := customizedCopy_eq hcc
          simp only [Except.ok.injEq, Prod.mk.injEq] at hf
          obtain ⟨rfl, rfl⟩ := hf
          rw [hcell] at hn
          cases hn
          refine ⟨Grows.alloc _ _, ?_⟩
          refine .defn hlen (m := { m with tmpl := 0 }) (ws := objWords o) (p := p) ?_
          show (h ++ _)[h.length]? = _
          rw [List.getElem?_append_right (Nat.le_refl _), Nat.sub_self]
          rfl
    · rename_i sm mk sp hcell
      have hmk : ∀ k ∈ mk, k < n0 := fun k hk => hcl x _ hx hcell k hk
      split at hf
      · cases hf
      · split at hf
        · cases hf
        · rename_i actives _
          split at hf
          · cases hf
          · rename_i h2 out done hfold
            split at hf
            · cases hf
            · rename_i h3 r' hres
              unfold fetchResult at hres
              obtain ⟨n', hn', rfl, rfl⟩ := customizedCopy_eq hres
              simp only [Except.ok.injEq, Prod.mk.injEq] at hf
              obtain ⟨rfl, rfl⟩ := hf
              have hq := foldH_inv _ (fun a => QF n0 h a.1 a.2.1)
                (fun st io st' hq hs => fstepH_spec ih mk v hmk h hlen hcl st io st' hq hs)
                actives (h, [], []) (h2, out, done) ⟨Grows.refl _, by intro r hr; cases hr⟩ hfold
              obtain ⟨g, hres2⟩ := hq
              simp only at g hres2
              have hcell2 := g.get hcell
              rw [hcell2] at hn'
              cases hn'
              refine ⟨g.trans (Grows.alloc _ _), ?_⟩
              refine .scope (m := { sm with tmpl := 0 }) (ks := out) (p := sp)
                (Nat.le_trans hlen g.length_le) ?_ (fun k hk => (hres2 k hk).append _)
              show (h2 ++ _)[h2.length]? = _
              rw [List.getElem?_append_right (Nat.le_refl _), Nat.sub_self]
              rfl

end Phil.Heap
