/-
  Lemmas behind the attribute round trip, remaining classes (C01 / C19 / C07):

  Part 1: `textwrap.wrap` on ARBITRARY chunk lists: the lines are concatenations of consecutive chunks,
          white-space chunks being dropped at line ends only (`SegW`); hence for a wrapped string
          attribute with RUNS of blanks the re-parsed value `reflowStr` has the same words (`wsNorm`).
  Part 2: the printer ignores the template flag at attributes level ≥ 2 and hides templates with
          `is_template = -1` below (what printing a FETCH RESULT gives).
  Part 3: a `# WARNING: deprecated parameter` line directly after a definition is consumed by the value
          collector of the line before as a trailing comment line; the placement hypothesis
          `depPlacedList` of the parse theorems is removed.
  All new names end in `_ar2` or are new definitions.
-/
import Phil.Proofs.AttrRoundTrip
set_option linter.unusedSimpArgs false
set_option linter.unusedVariables false
namespace Phil

/-! ## Part 1: white-space runs in wrapped free text -/

/-- the maximal blank-free runs of a text, in order (`str.split()` for text whose only white space is
    the blank) -/
def wordsOf : Str → List Str
  | [] => []
  | c :: cs =>
    if c == ' ' then wordsOf cs
    else match cs with
      | [] => [[c]]
      | d :: _ =>
        if d == ' ' then [c] :: wordsOf cs
        else match wordsOf cs with
          | w :: ws => (c :: w) :: ws
          | [] => [[c]]

/-- **collapse runs of blanks to one blank and strip both ends** -/
def wsNorm (s : Str) : Str := joinWith [' '] (wordsOf s)

theorem wordsOf_blank_cons_ar2 (x : Str) : wordsOf (' ' :: x) = wordsOf x := by
  simp [wordsOf]

/-- leading blanks do not matter -/
theorem wordsOf_blanks_ar2 (b x : Str) (hb : ∀ d ∈ b, d = ' ') : wordsOf (b ++ x) = wordsOf x := by
  induction b with
  | nil => rfl
  | cons d b ih =>
    have : d = ' ' := hb d (by simp)
    subst this
    rw [List.cons_append, wordsOf_blank_cons_ar2]
    exact ih (fun d hd => hb d (by simp [hd]))

theorem wordsOf_ne_nil_ar2 (c : Char) (x : Str) (hc : (c == ' ') = false) : wordsOf (c :: x) ≠ [] := by
  cases x with
  | nil => simp [wordsOf, hc]
  | cons d x =>
    rw [wordsOf]
    simp only [hc, Bool.false_eq_true, ↓reduceIte]
    split
    · simp
    · split <;> simp

theorem wordsOf_cons_blank_ar2 (c : Char) (y : Str) (hc : (c == ' ') = false) :
    wordsOf (c :: ' ' :: y) = [c] :: wordsOf (' ' :: y) := by
  simp [wordsOf, hc]

theorem wordsOf_cons_cons_ar2 (c d : Char) (y : Str) (hc : (c == ' ') = false) (hd : (d == ' ') = false) :
    wordsOf (c :: d :: y)
      = (match wordsOf (d :: y) with | w :: ws => (c :: w) :: ws | [] => [[c]]) := by
  rw [wordsOf]
  simp only [hc, hd, Bool.false_eq_true, ↓reduceIte]

/-- **a blank separates**: the words of `a ++ " " ++ b` are those of `a` followed by those of `b` -/
theorem wordsOf_append_blank_ar2 (a b : Str) : wordsOf (a ++ ' ' :: b) = wordsOf a ++ wordsOf b := by
  induction a with
  | nil => simp [wordsOf_blank_cons_ar2, wordsOf]
  | cons c a ih =>
    by_cases hc : (c == ' ') = true
    · have : c = ' ' := by simpa using hc
      subst this
      rw [List.cons_append, wordsOf_blank_cons_ar2, wordsOf_blank_cons_ar2, ih]
    · have hc' : (c == ' ') = false := by simpa using hc
      cases a with
      | nil =>
        simp [wordsOf, hc']
      | cons d a =>
        by_cases hd : (d == ' ') = true
        · have : d = ' ' := by simpa using hd
          subst this
          rw [List.cons_append, List.cons_append, wordsOf_cons_blank_ar2 c _ hc',
            wordsOf_cons_blank_ar2 c _ hc', ← List.cons_append, ih]
          rfl
        · have hd' : (d == ' ') = false := by simpa using hd
          have hne := wordsOf_ne_nil_ar2 d a hd'
          obtain ⟨w, ws, hw⟩ : ∃ w ws, wordsOf (d :: a) = w :: ws := by
            cases h : wordsOf (d :: a) with
            | nil => exact absurd h hne
            | cons w ws => exact ⟨w, ws, rfl⟩
          rw [List.cons_append, List.cons_append, wordsOf_cons_cons_ar2 c d _ hc' hd',
            wordsOf_cons_cons_ar2 c d _ hc' hd', ← List.cons_append, ih, hw]
          rfl

theorem wordsOf_joinWith_ar2 : ∀ (ps : List Str), wordsOf (joinWith [' '] ps) = ps.flatMap wordsOf := by
  intro ps
  induction ps with
  | nil => rfl
  | cons p ps ih =>
    cases ps with
    | nil => simp [joinWith]
    | cons p2 ps =>
      have e : joinWith [' '] (p :: p2 :: ps) = p ++ ' ' :: joinWith [' '] (p2 :: ps) := by simp [joinWith]
      rw [e, wordsOf_append_blank_ar2, ih]
      simp

/-- the concatenation of chunks (as `_wrap_chunks` joins the chunks of a line) -/
def concatS (cs : List Str) : Str := cs.foldr (· ++ ·) []

theorem concatS_cons_ar2 (c : Str) (cs : List Str) : concatS (c :: cs) = c ++ concatS cs := rfl

theorem concatS_append_ar2 (a b : List Str) : concatS (a ++ b) = concatS a ++ concatS b := by
  induction a with
  | nil => rfl
  | cons c a ih => simp [concatS_cons_ar2, ih]

/-- **how `textwrap.wrap` cuts a list of chunks into lines**: a line is the concatenation of
    consecutive chunks; between lines (and at both ends) white-space chunks are dropped; after a line
    comes a white-space chunk or the end. -/
inductive SegW : List Str → List Str → Prop
  | nil : SegW [] []
  | skip (c : Str) (cs ps : List Str) : isWsChunk c = true → SegW cs ps → SegW (c :: cs) ps
  | group (g cs ps : List Str) : g ≠ [] → SegW cs ps →
      (cs = [] ∨ ∃ c r, cs = c :: r ∧ isWsChunk c = true ∧ c ≠ []) → SegW (g ++ cs) (concatS g :: ps)

theorem isWsChunk_blank_ar2 {c : Str} (h : isWsChunk c = true) : ∀ d ∈ c, d = ' ' := by
  intro d hd
  have := (List.all_eq_true.mp h) d hd
  simpa using this

/-- the words of the lines are the words of the text -/
theorem SegW.words_ar2 {cs ps : List Str} (h : SegW cs ps) : ps.flatMap wordsOf = wordsOf (concatS cs) := by
  induction h with
  | nil => rfl
  | skip c cs ps hc _ ih =>
    rw [concatS_cons_ar2, wordsOf_blanks_ar2 c _ (isWsChunk_blank_ar2 hc), ih]
  | group g cs ps _ _ hb ih =>
    rw [List.flatMap_cons, ih, concatS_append_ar2]
    rcases hb with rfl | ⟨c, r, rfl, hc, hne⟩
    · simp [concatS]
      rfl
    · cases c with
      | nil => exact absurd rfl hne
      | cons d ds =>
        have hd : d = ' ' := isWsChunk_blank_ar2 hc d (by simp)
        subst hd
        rw [concatS_cons_ar2, List.cons_append, wordsOf_append_blank_ar2, wordsOf_blank_cons_ar2]

/-! ### `_wrap_chunks` on an arbitrary chunk list -/

/-- no chunk is empty; of two consecutive chunks one is white space (true of `twChunks s`) -/
def sepOK : List Str → Bool
  | [] => true
  | [c] => !c.isEmpty
  | a :: b :: r => !a.isEmpty && (isWsChunk a || isWsChunk b) && sepOK (b :: r)

theorem sepOK_tail_ar2 (a : Str) (r : List Str) (h : sepOK (a :: r) = true) : sepOK r = true := by
  cases r with
  | nil => rfl
  | cons b r => simp only [sepOK, Bool.and_eq_true] at h; exact h.2

theorem sepOK_suffix_ar2 : ∀ (x y : List Str), sepOK (x ++ y) = true → sepOK y = true := by
  intro x
  induction x with
  | nil => intro y h; exact h
  | cons a x ih => intro y h; exact ih y (sepOK_tail_ar2 a _ h)

theorem sepOK_ne_nil_ar2 : ∀ (cs : List Str), sepOK cs = true → ∀ c ∈ cs, c ≠ [] := by
  intro cs
  induction cs with
  | nil => intro _ c hc; cases hc
  | cons a r ih =>
    intro h c hc
    have ha : a ≠ [] := by
      cases r with
      | nil => simp only [sepOK, Bool.not_eq_true'] at h; intro e; subst e; simp at h
      | cons b r =>
        simp only [sepOK, Bool.and_eq_true, Bool.not_eq_true'] at h
        intro e; subst e; simp at h
    rcases List.mem_cons.mp hc with rfl | hc
    · exact ha
    · exact ih (sepOK_tail_ar2 a r h) c hc

theorem sepOK_boundary_ar2 : ∀ (x : List Str) (a b : Str) (r : List Str),
    sepOK (x ++ a :: b :: r) = true → (isWsChunk a || isWsChunk b) = true := by
  intro x
  induction x with
  | nil =>
    intro a b r h
    simp only [List.nil_append, sepOK, Bool.and_eq_true] at h
    exact h.1.2
  | cons c x ih =>
    intro a b r h
    exact ih a b r (sepOK_tail_ar2 c _ h)

theorem twFill_split_ar2 (W : Nat) : ∀ (cs : List Str) (len : Nat) (cur : List Str),
    ∃ X Y, twFill W cs len cur = (cur.reverse ++ X, Y) ∧ cs = X ++ Y ∧
      (X = [] → ∀ ch r, cs = ch :: r → ¬ (len + ch.length ≤ W)) := by
  intro cs
  induction cs with
  | nil => intro len cur; exact ⟨[], [], by simp [twFill], rfl, fun _ ch r h => by cases h⟩
  | cons ch rest ih =>
    intro len cur
    by_cases hfit : len + ch.length ≤ W
    · obtain ⟨X, Y, h1, h2, _⟩ := ih (len + ch.length) (ch :: cur)
      refine ⟨ch :: X, Y, ?_, by rw [h2]; rfl, fun h => by cases h⟩
      simp only [twFill, hfit, ↓reduceIte, h1]
      simp
    · refine ⟨[], ch :: rest, ?_, rfl, ?_⟩
      · simp only [twFill, hfit, ↓reduceIte, List.append_nil]
      · intro _ ch' r e; cases e; exact hfit

/-- a chunk longer than the width goes on a line of its own -/
def adjLong (W : Nat) (cur rest : List Str) : List Str × List Str :=
  match rest with
  | ch :: rest' => if ch.length > W && cur.isEmpty then ([ch], rest') else (cur, rest)
  | [] => (cur, rest)

/-- a trailing white-space chunk of a line is dropped -/
def dropTrail (cur : List Str) : List Str :=
  match cur.reverse with
  | last :: initRev => if isWsChunk last then initRev.reverse else cur
  | [] => cur

/-- one turn of the loop of `_wrap_chunks`, with named parts -/
theorem twWrapChunks_step_ar2 (W fuel : Nat) (c : Str) (cs lines : List Str) :
    twWrapChunks W (fuel + 1) (c :: cs) lines =
      twWrapChunks W fuel
        (adjLong W (twFill W (if isWsChunk c && !lines.isEmpty then cs else c :: cs) 0 []).1
          (twFill W (if isWsChunk c && !lines.isEmpty then cs else c :: cs) 0 []).2).2
        (if (dropTrail (adjLong W (twFill W (if isWsChunk c && !lines.isEmpty then cs else c :: cs) 0 []).1
              (twFill W (if isWsChunk c && !lines.isEmpty then cs else c :: cs) 0 []).2).1).isEmpty then lines
         else concatS (dropTrail (adjLong W (twFill W (if isWsChunk c && !lines.isEmpty then cs else c :: cs) 0 []).1
              (twFill W (if isWsChunk c && !lines.isEmpty then cs else c :: cs) 0 []).2).1) :: lines) := by
  rfl

/-- the last-chunk clean-up of `_wrap_chunks` -/
theorem dropTrail_cases_ar2 (cur : List Str) :
    ∃ cur3, dropTrail cur = cur3 ∧
      ((cur3 = cur ∧ ∀ init last, cur = init ++ [last] → isWsChunk last = false) ∨
       (∃ last, isWsChunk last = true ∧ cur = cur3 ++ [last])) := by
  unfold dropTrail
  cases h : cur.reverse with
  | nil =>
    have : cur = [] := by simpa using h
    subst this
    exact ⟨[], rfl, Or.inl ⟨rfl, fun init last e => by simp at e⟩⟩
  | cons last ir =>
    have hc : cur = ir.reverse ++ [last] := by
      have := congrArg List.reverse h
      simpa using this
    by_cases hw : isWsChunk last = true
    · exact ⟨ir.reverse, by simp [hw], Or.inr ⟨last, hw, hc⟩⟩
    · refine ⟨cur, by simp [hw], Or.inl ⟨rfl, fun init l e => ?_⟩⟩
      rw [hc] at e
      have := List.append_inj' e rfl
      have hl : last = l := by simpa using this.2
      subst hl
      simpa using hw

/-- **`TextWrapper._wrap_chunks` on any chunk list**: the lines are a `SegW` segmentation of the chunks -/
theorem wrapChunks_seg_ar2 (W : Nat) : ∀ (n : Nat) (chunks : List Str), chunks.length ≤ n →
    sepOK chunks = true → ∀ (fuel : Nat) (lines : List Str), chunks.length + 1 ≤ fuel →
    ∃ ps, SegW chunks ps ∧ twWrapChunks W fuel chunks lines = lines.reverse ++ ps := by
  intro n
  induction n with
  | zero =>
    intro chunks hn _ fuel lines hf
    have : chunks = [] := by cases chunks <;> simp_all
    subst this
    obtain ⟨f, rfl⟩ : ∃ f, fuel = f + 1 := ⟨fuel - 1, by simp at hf; omega⟩
    exact ⟨[], SegW.nil, by rw [List.append_nil]; rfl⟩
  | succ n ih =>
    intro chunks hn hsep fuel lines hf
    cases chunks with
    | nil =>
      obtain ⟨f, rfl⟩ : ∃ f, fuel = f + 1 := ⟨fuel - 1, by simp at hf; omega⟩
      exact ⟨[], SegW.nil, by rw [List.append_nil]; rfl⟩
    | cons c cs =>
      obtain ⟨f, rfl⟩ : ∃ f, fuel = f + 1 := ⟨fuel - 1, by simp at hf; omega⟩
      -- the chunks after the optional removal of a leading white-space chunk
      obtain ⟨chunks', hch', hdrop⟩ : ∃ chunks', (if isWsChunk c && !lines.isEmpty then cs else c :: cs) = chunks' ∧
          ((chunks' = cs ∧ isWsChunk c = true) ∨ chunks' = c :: cs) := by
        by_cases hd : (isWsChunk c && !lines.isEmpty) = true
        · refine ⟨cs, by rw [if_pos hd], Or.inl ⟨rfl, ?_⟩⟩
          simp only [Bool.and_eq_true] at hd; exact hd.1
        · exact ⟨c :: cs, by rw [if_neg hd], Or.inr rfl⟩
      have hsep' : sepOK chunks' = true := by
        rcases hdrop with ⟨rfl, _⟩ | rfl
        · exact sepOK_tail_ar2 c _ hsep
        · exact hsep
      have hlen' : chunks'.length ≤ cs.length + 1 := by
        rcases hdrop with ⟨rfl, _⟩ | rfl <;> simp
      obtain ⟨X, Y, hfill, hsplit, hX⟩ := twFill_split_ar2 W chunks' 0 []
      simp only [List.reverse_nil, List.nil_append] at hfill
      -- a chunk longer than the width goes on a line of its own
      obtain ⟨cur2, rest2, hadj, hcr, hprog⟩ : ∃ cur2 rest2,
          adjLong W X Y = (cur2, rest2) ∧ chunks' = cur2 ++ rest2 ∧ (chunks' ≠ [] → cur2 ≠ []) := by
        cases Y with
        | nil =>
          refine ⟨X, [], rfl, hsplit, fun hne e => ?_⟩
          subst e; exact hne (by simpa using hsplit)
        | cons ch rest' =>
          by_cases hl : (decide (ch.length > W) && X.isEmpty) = true
          · have hXe : X = [] := by
              simp only [Bool.and_eq_true] at hl
              cases X with
              | nil => rfl
              | cons _ _ => simp at hl
            subst hXe
            exact ⟨[ch], rest', by simp only [adjLong, hl, ↓reduceIte], by simpa using hsplit, fun _ => by simp⟩
          · refine ⟨X, ch :: rest', by simp only [adjLong, hl, Bool.false_eq_true, ↓reduceIte], hsplit, fun _ e => ?_⟩
            subst e
            have := hX rfl ch rest' (by simpa using hsplit)
            apply hl
            simp only [Bool.and_eq_true, decide_eq_true_eq, List.isEmpty_nil, and_true]
            omega
      obtain ⟨cur3, htrim, hcases⟩ := dropTrail_cases_ar2 cur2
      have hrestlen : rest2.length ≤ n := by
        by_cases hne : chunks' = []
        · have : rest2 = [] := by
            rw [hne] at hcr
            have := congrArg List.length hcr
            simp only [List.length_nil, List.length_append] at this
            cases rest2 with
            | nil => rfl
            | cons _ _ => simp at this
          rw [this]; simp
        · have h2 := hprog hne
          have h3 : cur2.length ≥ 1 := by cases cur2 <;> simp_all
          have h4 := congrArg List.length hcr
          simp only [List.length_append, List.length_cons] at h4 hn hlen'
          omega
      have hrestsep : sepOK rest2 = true := sepOK_suffix_ar2 cur2 rest2 (by rw [← hcr]; exact hsep')
      have hfuel : rest2.length + 1 ≤ f := by
        have h4 := congrArg List.length hcr
        simp only [List.length_append, List.length_cons] at h4 hf hlen'
        by_cases hne : chunks' = []
        · rw [hne] at h4; simp at h4; omega
        · have h2 := hprog hne
          have h3 : cur2.length ≥ 1 := by cases cur2 <;> simp_all
          omega
      obtain ⟨ps', hseg', hrun'⟩ := ih rest2 hrestlen hrestsep f
        (if cur3.isEmpty then lines else concatS cur3 :: lines) hfuel
      -- the segmentation of chunks'
      have hsegc : ∃ ps, SegW chunks' ps ∧
          (if cur3.isEmpty then lines else concatS cur3 :: lines).reverse ++ ps' = lines.reverse ++ ps := by
        rcases hcases with ⟨rfl, hlast⟩ | ⟨last, hlw, hcl⟩
        · by_cases he : cur3 = []
          · subst he
            refine ⟨ps', ?_, by simp⟩
            rw [hcr]; exact hseg'
          · refine ⟨concatS cur3 :: ps', ?_, ?_⟩
            · rw [hcr]
              refine SegW.group cur3 rest2 ps' he hseg' ?_
              cases rest2 with
              | nil => exact Or.inl rfl
              | cons y r =>
                refine Or.inr ⟨y, r, rfl, ?_, ?_⟩
                · obtain ⟨init, l, e⟩ : ∃ init l, cur3 = init ++ [l] := by
                    rcases List.eq_nil_or_concat cur3 with h | ⟨i, l, h⟩
                    · exact absurd h he
                    · exact ⟨i, l, by simpa using h⟩
                  have hb := sepOK_boundary_ar2 init l y r (by rw [hcr, e] at hsep'; simpa using hsep')
                  rw [hlast init l e] at hb
                  simpa using hb
                · exact sepOK_ne_nil_ar2 _ hrestsep y (by simp)
            · have : cur3.isEmpty = false := by cases cur3 <;> simp_all
              simp [this]
        · have hskip : SegW (last :: rest2) ps' := SegW.skip last rest2 ps' hlw hseg'
          have hcr' : chunks' = cur3 ++ (last :: rest2) := by rw [hcr, hcl]; simp
          by_cases he : cur3 = []
          · subst he
            refine ⟨ps', ?_, by simp⟩
            rw [hcr']; exact hskip
          · refine ⟨concatS cur3 :: ps', ?_, ?_⟩
            · rw [hcr']
              refine SegW.group cur3 _ ps' he hskip (Or.inr ⟨last, rest2, rfl, hlw, ?_⟩)
              exact sepOK_ne_nil_ar2 _ hsep' last (by rw [hcr']; simp)
            · have : cur3.isEmpty = false := by cases cur3 <;> simp_all
              simp [this]
      obtain ⟨ps, hsegps, hlines⟩ := hsegc
      refine ⟨ps, ?_, ?_⟩
      · rcases hdrop with ⟨rfl, hcw⟩ | rfl
        · exact SegW.skip c _ ps hcw hsegps
        · exact hsegps
      · rw [twWrapChunks_step_ar2, hch', hfill]
        simp only [hadj, htrim]
        rw [← hlines, ← hrun']

/-! ### the chunks of a text -/

/-- `twChunks` puts one character in front of the chunks of the rest -/
def twCons (c' : Char) : List Str → List Str
  | [] => [[c']]
  | (d :: ds) :: more => if (d == ' ') == (c' == ' ') then (c' :: d :: ds) :: more else [c'] :: (d :: ds) :: more
  | [] :: more => [c'] :: more

theorem twChunks_cons_ar2 (c : Char) (cs : Str) :
    twChunks (c :: cs) = twCons (if isTwWs c then ' ' else c) (twChunks cs) := by
  rw [twChunks]
  cases twChunks cs with
  | nil => rfl
  | cons a more => cases a <;> rfl

/-- a chunk of one kind: non-empty, all blanks or no blank -/
def homog : Str → Bool
  | [] => false
  | d :: ds => ds.all (fun y => (y == ' ') == (d == ' '))

theorem isWsChunk_homog_ar2 (d : Char) (ds : Str) (h : homog (d :: ds) = true) :
    isWsChunk (d :: ds) = (d == ' ') := by
  simp only [homog, List.all_eq_true, beq_iff_eq] at h
  simp only [isWsChunk, List.all_cons]
  cases hd : d == ' ' with
  | false => rfl
  | true =>
    simp only [Bool.true_and, List.all_eq_true]
    intro y hy
    rw [h y hy, hd]

theorem twCons_inv_ar2 (c' : Char) (L : List Str) (hL : ∀ ch ∈ L, homog ch = true) (hs : sepOK L = true) :
    (∀ ch ∈ twCons c' L, homog ch = true) ∧ sepOK (twCons c' L) = true := by
  cases L with
  | nil => simp [twCons, homog, sepOK]
  | cons a more =>
    cases a with
    | nil => have := hL [] (by simp); simp [homog] at this
    | cons d ds =>
      have ha := hL (d :: ds) (by simp)
      have hwa := isWsChunk_homog_ar2 d ds ha
      by_cases hsame : ((d == ' ') == (c' == ' ')) = true
      · have hcls : (d == ' ') = (c' == ' ') := by simpa using hsame
        have hA : homog (c' :: d :: ds) = true := by
          simp only [homog, List.all_cons, Bool.and_eq_true, List.all_eq_true, beq_iff_eq] at ha ⊢
          exact ⟨hcls, fun y hy => by rw [ha y hy, hcls]⟩
        have hwA := isWsChunk_homog_ar2 c' (d :: ds) hA
        simp only [twCons, hsame, ↓reduceIte]
        refine ⟨?_, ?_⟩
        · intro ch hch
          rcases List.mem_cons.mp hch with rfl | hch
          · exact hA
          · exact hL ch (by simp [hch])
        · cases more with
          | nil => simp [sepOK]
          | cons b r =>
            simp only [sepOK, Bool.and_eq_true] at hs ⊢
            refine ⟨⟨by simp, ?_⟩, hs.2⟩
            rw [hwA, ← hcls, ← hwa]; exact hs.1.2
      · have hdiff : ((d == ' ') == (c' == ' ')) = false := by simpa using hsame
        simp only [twCons, hdiff, Bool.false_eq_true, ↓reduceIte]
        refine ⟨?_, ?_⟩
        · intro ch hch
          rcases List.mem_cons.mp hch with rfl | hch
          · simp [homog]
          · exact hL ch hch
        · have h1 : isWsChunk [c'] = (c' == ' ') := by simp [isWsChunk]
          have : (isWsChunk [c'] || isWsChunk (d :: ds)) = true := by
            rw [h1, hwa]
            cases h2 : c' == ' ' <;> cases h3 : d == ' ' <;> simp_all
          have e : sepOK ([c'] :: (d :: ds) :: more)
              = (![c'].isEmpty && (isWsChunk [c'] || isWsChunk (d :: ds)) && sepOK ((d :: ds) :: more)) := rfl
          rw [e, this, hs]; rfl

theorem concatS_twCons_ar2 (c' : Char) (L : List Str) : concatS (twCons c' L) = c' :: concatS L := by
  cases L with
  | nil => rfl
  | cons a more =>
    cases a with
    | nil => rfl
    | cons d ds =>
      simp only [twCons]
      split <;> rfl

/-- the only `textwrap` white space in the text is the blank (no tab, newline, `\r`, `\x0b`, `\x0c`) -/
def noOddWs (s : Str) : Bool := s.all (fun c => !isTwWs c || c == ' ')

/-- **the chunks of any text**: non-empty, of one kind, alternating; for text whose only white space is
    the blank they concatenate to the text -/
theorem twChunks_inv_ar2 : ∀ (s : Str), (∀ ch ∈ twChunks s, homog ch = true) ∧ sepOK (twChunks s) = true := by
  intro s
  induction s with
  | nil => simp [twChunks, sepOK]
  | cons c cs ih =>
    rw [twChunks_cons_ar2]
    exact twCons_inv_ar2 _ _ ih.1 ih.2

theorem concatS_twChunks_ar2 : ∀ (s : Str), noOddWs s = true → concatS (twChunks s) = s := by
  intro s
  induction s with
  | nil => intro _; rfl
  | cons c cs ih =>
    intro h
    simp only [noOddWs, List.all_cons, Bool.and_eq_true, Bool.or_eq_true, Bool.not_eq_true', beq_iff_eq] at h
    rw [twChunks_cons_ar2, concatS_twCons_ar2, ih (by simpa [noOddWs] using h.2)]
    rcases h.1 with h1 | h1
    · simp [h1]
    · subst h1; simp

/-- **`textwrap.wrap` on text with runs of blanks**: the lines have the words of the text -/
theorem twWrap_words_ar2 (s : Str) (hs : noOddWs s = true) (W : Nat) :
    (twWrap s W).flatMap wordsOf = wordsOf s ∧ ∀ b ∈ twWrap s W, ∀ d ∈ b, d ∈ s := by
  obtain ⟨_, hsep⟩ := twChunks_inv_ar2 s
  obtain ⟨ps, hseg, hrun⟩ := wrapChunks_seg_ar2 W (twChunks s).length (twChunks s) (Nat.le_refl _) hsep
    ((twChunks s).length + 1) [] (Nat.le_refl _)
  have hw : twWrap s W = ps := by unfold twWrap; simpa using hrun
  rw [hw]
  refine ⟨by rw [hseg.words_ar2, concatS_twChunks_ar2 s hs], ?_⟩
  have hmem : ∀ {cs ps : List Str}, SegW cs ps → ∀ b ∈ ps, ∀ d ∈ b, d ∈ concatS cs := by
    intro cs ps h
    induction h with
    | nil => intro b hb; cases hb
    | skip c cs ps _ _ ih =>
      intro b hb d hd
      rw [concatS_cons_ar2]; exact List.mem_append_right _ (ih b hb d hd)
    | group g cs ps _ _ _ ih =>
      intro b hb d hd
      rw [concatS_append_ar2]
      rcases List.mem_cons.mp hb with rfl | hb
      · exact List.mem_append_left _ hd
      · exact List.mem_append_right _ (ih b hb d hd)
  intro b hb d hd
  have := hmem hseg b hb d hd
  rwa [concatS_twChunks_ar2 s hs] at this

/-! ### a wrapped string attribute with runs of blanks -/

/-- free text without backslash and double quote (printed inside double quotes without escapes) -/
def noEsc (s : Str) : Bool := s.all (fun c => c != '\\' && c != '"')

theorem escape_id_ar2 (q : Char) : ∀ (b : Str), (∀ d ∈ b, d ≠ '\\' ∧ d ≠ q) → escape q b = b := by
  intro b
  induction b with
  | nil => intro _; rfl
  | cons c cs ih =>
    intro h
    obtain ⟨h1, h2⟩ := h c (by simp)
    have e1 : (c == '\\') = false := by simpa using h1
    have e2 : (c == q) = false := by simpa using h2
    rw [escape]
    simp only [e1, e2, Bool.false_eq_true, ↓reduceIte]
    rw [ih (fun d hd => h d (by simp [hd]))]

/-- **the value the parser reads back from a wrapped string attribute** (escape-free text): the blocks
    of `textwrap.wrap` joined by single blanks -/
def reflowStr (pre : Str) (width : Int) (name : String) (s : Str) : Str :=
  joinWith [' '] (twWrap s (wrapWidth pre width name).toNat)

/-- the condition on a string value that is wrapped and may contain RUNS of blanks: room for
    `textwrap`; the only white space is the blank; at least one word; no backslash, no double quote -/
def strWrapRunsOK (pre : Str) (width : Int) (name : String) (s : Str) : Bool :=
  !strOneLine pre width name s && decide (0 < wrapWidth pre width name) && noOddWs s && noEsc s &&
    !(wordsOf s).isEmpty

theorem noTab_of_noOddWs_ar2 (s : Str) (h1 : noOddWs s = true) : (quoteStr .d1 s).contains '\t' = false := by
  have hmem : ∀ d ∈ quoteStr .d1 s, d ≠ '\t' := by
    intro d hd
    have hq : quoteStr .d1 s = '"' :: (escape '"' s ++ ['"']) := by
      simp [quoteStr, Quote.token, Quote.triple, Quote.char]
    rw [hq] at hd
    simp only [List.mem_cons, List.mem_append, List.not_mem_nil, or_false] at hd
    rcases hd with rfl | hd | rfl
    · decide
    · rcases mem_escape_art '"' s d hd with h | rfl | rfl
      · have := (List.all_eq_true.mp h1) d h
        intro e; subst e
        simp [isTwWs] at this
      · decide
      · decide
    · decide
  cases hc : (quoteStr .d1 s).contains '\t' with
  | false => rfl
  | true =>
    have := List.contains_iff_mem.mp hc
    exact absurd rfl (hmem _ this)

/-- **a wrapped string attribute with runs of blanks**: what is printed, that the parser reads back
    `reflowStr`, and that this value equals the original up to runs of white space -/
theorem attr_line_wrap_runs_ar2 (isDef : Bool) (pre : Str) (hb : Blank pre) (width : Int) (n : String) (s : Str)
    (hk : kindOf isDef n = .str) (h : strWrapRunsOK pre width n s = true) :
    (∃ ls, attrLines pre width n (.str s) = .ok ls ∧ unlines ls = attrLineText pre width n (.str s)) ∧
    ReadsAs (attrTail pre width n (.str s)) (attrValueOf isDef n) (.str (reflowStr pre width n s)) ∧
    wsNorm (reflowStr pre width n s) = wsNorm s := by
  simp only [strWrapRunsOK, Bool.and_eq_true, Bool.not_eq_true', decide_eq_true_eq] at h
  obtain ⟨⟨⟨⟨hnot, hroom⟩, hws⟩, hne⟩, hword⟩ := h
  have htab := noTab_of_noOddWs_ar2 s hws
  have hsesc : ∀ d ∈ s, d ≠ '\\' ∧ d ≠ '"' := by
    intro d hd
    have := (List.all_eq_true.mp hne) d hd
    simpa using this
  have hesc : escape '"' s = s := escape_id_ar2 '"' s hsesc
  obtain ⟨hwords, hmem⟩ := twWrap_words_ar2 s hws (wrapWidth pre width n).toNat
  -- the blocks are their own escaped forms
  have hblocks : twWrap (escape '"' s) (wrapWidth pre width n).toNat
      = (twWrap s (wrapWidth pre width n).toNat).map (escape '"') := by
    rw [hesc]
    symm
    conv => rhs; rw [← List.map_id (twWrap s (wrapWidth pre width n).toNat)]
    apply List.map_congr_left
    intro b hb'
    exact escape_id_ar2 '"' b (fun d hd => hsesc d (hmem b hb' d hd))
  have hpne : twWrap s (wrapWidth pre width n).toNat ≠ [] := by
    intro e
    rw [e] at hwords
    simp only [List.flatMap_nil] at hwords
    rw [← hwords] at hword
    simp at hword
  have hnorm : wsNorm (reflowStr pre width n s) = wsNorm s := by
    unfold wsNorm reflowStr
    rw [wordsOf_joinWith_ar2, hwords]
  have hind : ∀ d ∈ attrIndent pre n, d = ' ' := by
    intro d hd
    simp only [attrIndent, List.mem_append] at hd
    rcases hd with h | h
    · exact hb d h
    · simp only [spaces, List.mem_replicate] at h; exact h.2
  have htail : attrTail pre width n (.str s)
      = quotedSeq (seqOf (attrIndent pre n) (twWrap s (wrapWidth pre width n).toNat)) := by
    simp only [attrTail, hnot, Bool.false_eq_true, ↓reduceIte]
    rw [hblocks, wrapT_seq_art]
  have hquote : strPrinted pre width n s = quoteStr .d1 s := by
    unfold strPrinted
    by_cases hq : strNeedQuote pre width n s = true
    · rw [if_pos hq]
    · exfalso
      have hq' : strNeedQuote pre width n s = false := by simpa using hq
      have hfit : attrFits (attrIndent pre n) width s = true := by
        simp only [strNeedQuote, Bool.or_eq_false_iff, Bool.not_eq_false'] at hq'
        exact hq'.2
      have : strOneLine pre width n s = true := by
        unfold strOneLine strPrinted
        rw [if_neg hq]; exact hfit
      rw [this] at hnot; cases hnot
  refine ⟨?_, ?_, hnorm⟩
  · have hfit' : attrFits (attrIndent pre n) width (strPrinted pre width n s) = false := hnot
    have hinner : ((quoteStr Quote.d1 s).drop 1).take ((quoteStr Quote.d1 s).length - 2) = escape '"' s := by
      simp [quoteStr, Quote.token, Quote.triple, Quote.char]
    have hlines : attrLines pre width n (.str s)
        = .ok (wrapLines (attrHead pre n) (attrIndent pre n) (escape '"' s) (wrapWidth pre width n).toNat) := by
      have hfit'' := hfit'
      unfold strPrinted strNeedQuote at hfit''
      simp only [attrLines]
      rw [if_neg (by simpa using hfit'')]
      have hq2 : (if (!isStdIdent s || lower s == "none".toList || lower s == "auto".toList ||
          !attrFits (attrIndent pre n) width s) = true then quoteStr Quote.d1 s else s) = quoteStr .d1 s := by
        have := hquote
        unfold strPrinted strNeedQuote at this
        exact this
      simp only [hq2, hinner]
      have hroom' : ¬ (width - 2 - ((attrIndent pre n).length : Int) ≤ 0) := by
        unfold wrapWidth at hroom; omega
      rw [if_neg hroom', if_neg (by simpa using htab)]
      rfl
    refine ⟨_, hlines, ?_⟩
    unfold wrapLines
    rw [hblocks]
    cases hp : (twWrap s (wrapWidth pre width n).toNat).map (escape '"') with
    | nil =>
      have : twWrap s (wrapWidth pre width n).toNat = [] := by simpa using hp
      exact absurd this hpne
    | cons b bs =>
      rw [unlines_wrapLines_art, attrLineText, attrTail]
      simp only [hnot, Bool.false_eq_true, ↓reduceIte, hblocks, hp]
  · rw [htail]
    exact readsAs_quotedSeq_art (attrIndent pre n) hind (twWrap s (wrapWidth pre width n).toNat) hpne
      (attrValueOf isDef n) (fun ws => by rw [attrValueOf_kind_art, hk]; rfl)

/-! ## Part 2: templates (printing a fetch result) -/

/-- `is_template = -1` objects are not printed below attributes level 2 -/
def Obj.hiddenT (L : Int) (x : Obj) : Bool := x.meta.tmpl < 0 && L < 2

mutual
/-- what the printer sees of a tree at attributes level `L`: hidden templates removed, every template
    flag cleared (the re-parsed tree has ordinary objects) -/
def Obj.visT (L : Int) : Obj → Obj
  | .defn m ws => .defn { m with tmpl := 0 } ws
  | .scope m os => .scope { m with tmpl := 0 } (visTList L os)
def visTList (L : Int) : List Obj → List Obj
  | [] => []
  | x :: xs => if x.hiddenT L then visTList L xs else x.visT L :: visTList L xs
end

mutual
/-- removing the hidden templates does not change whether a named scope prints as a dotted prefix
    (the first visible child agrees with the first child on `merge_names`) -/
def Obj.tmplWF (L : Int) : Obj → Bool
  | .defn _ _ => true
  | .scope m os => (m.name.isEmpty || firstMerges (visTList L os) == firstMerges os) && tmplWFs L os
def tmplWFs (L : Int) : List Obj → Bool
  | [] => true
  | x :: xs => x.tmplWF L && tmplWFs L xs
end

theorem showScopeBody_tmpl_ar2 (o : ShowOpts) (m : Meta) (fm : Bool) (inner : List Str → Str → R (List Str))
    (merged : List Str) (pre : Str) :
    showScopeBody o { m with tmpl := 0 } fm inner merged pre = showScopeBody o m fm inner merged pre := rfl

theorem showDefn_tmpl_ar2 (o : ShowOpts) (m : Meta) (ws : List Word) (ms : List Str) (pre : Str) :
    showDefn o m ws ms pre
      = if m.tmpl < 0 && o.level < 2 then .ok [] else showDefn o { m with tmpl := 0 } ws ms pre := by
  by_cases hh : (decide (m.tmpl < 0) && decide (o.level < 2)) = true
  · rw [if_pos hh]
    unfold showDefn
    rw [if_pos hh]
  · rw [if_neg hh]
    have h0 : (decide ((0 : Int) < 0) && decide (o.level < 2)) = false := by simp
    unfold showDefn
    rw [if_neg hh]
    simp only [h0, Bool.false_eq_true, ↓reduceIte]

/-- **the printer and the template flag**: an object with `is_template = -1` prints nothing below
    level 2; otherwise the flag is ignored, and so are the hidden templates inside -/
theorem show_visT_ar2 (o : ShowOpts) (x : Obj) :
    x.tmplWF o.level = true → ∀ (ms : List Str) (pre : Str),
      showObj o x ms pre = if x.hiddenT o.level then .ok [] else showObj o (x.visT o.level) ms pre := by
  induction x using Obj.rec
    (motive_2 := fun os => tmplWFs o.level os = true → ∀ (ms : List Str) (pre : Str),
      showObjs o os ms pre = showObjs o (visTList o.level os) ms pre) with
  | defn m ws =>
    intro _ ms pre
    rw [Obj.visT, showObj_defn_eq, showObj_defn_eq]
    exact showDefn_tmpl_ar2 o m ws ms pre
  | scope m os ih =>
    intro hwf ms pre
    simp only [Obj.tmplWF, Bool.and_eq_true, Bool.or_eq_true, beq_iff_eq] at hwf
    have ih' := ih hwf.2
    have hE : (Obj.scope m os).hiddenT o.level = (decide (m.tmpl < 0) && decide (o.level < 2)) := rfl
    rw [Obj.visT, showObj_scope_eq, showObj_scope_eq, hE]
    by_cases hh : (decide (m.tmpl < 0) && decide (o.level < 2)) = true
    · rw [if_pos hh, if_pos hh]
    · rw [if_neg hh, if_neg hh]
      have h0 : (decide ((0 : Int) < 0) && decide (o.level < 2)) = false := by simp
      simp only [h0, Bool.false_eq_true, ↓reduceIte]
      rw [showScopeBody_tmpl_ar2]
      congr 1
      rw [showScopeBody_congr o m _ _ _ (fun ms pre => (ih' ms pre).symm)]
      rcases hwf.1 with hn | hf
      · exact showScopeBody_noname o m _ _ _ hn ms pre
      · rw [hf]
  | nil => rfl
  | cons x xs ihx ihxs =>
    rename_i hwf ms pre
    simp only [tmplWFs, Bool.and_eq_true] at hwf
    rw [showObjs_cons, ihx hwf.1 ms pre, ihxs hwf.2 ms pre, visTList]
    by_cases hh : x.hiddenT o.level = true
    · simp only [hh, ↓reduceIte, catR_nil_left]
    · simp only [hh, Bool.false_eq_true, ↓reduceIte, showObjs_cons]

/-! ## Part 3: the `# WARNING` line of a deprecated definition directly after a definition -/

/-- the text of the warning comment after its `#` -/
def warnBody : Str := " WARNING: deprecated parameter".toList

theorem warnBody_ok_ar2 : commentOk false true warnBody = true := by decide

/-- **The value collector consumes the warning line as a trailing comment line.**  A value or attribute
    line ending in one plain word `w`, followed by a line `ind ++ "# WARNING: deprecated parameter"`:
    `collect_assigned_words` returns the one word; the `#` (on the NEXT line) switches it to comment
    mode, the words of the warning are dropped, and it stops in front of the newline that ends the
    warning line (possibly leaving blanks `tb`) — one line further down than without the warning. -/
theorem collectAssigned_plain_warn_ar2 (w ind Y : Str) (l : Nat) (lead : Word)
    (hlead : lead.line = some l) (hw : plainWord w = true) (hind : Blank ind)
    (hnext : ∀ c, firstNonSpace Y = some c → isQuoteChar c = false) :
    ∃ tb, InlineSpace tb ∧
      collectAssigned ⟨[' '] ++ w ++ (('\n' :: ind) ++ '#' :: (warnBody ++ '\n' :: Y)), l⟩ lead
        = .ok ([{ value := w, quote := none, line := some l }], ⟨tb ++ '\n' :: Y, l + 1⟩) := by
  have hsp2 : ∀ d ∈ '\n' :: ind, isSpace d = true := by
    intro d hd
    rcases List.mem_cons.mp hd with rfl | hd
    · rfl
    · exact hind.isSpace d hd
  have hnl2 : nlCount ('\n' :: ind) = 1 := by rw [nlCount_cons_nl, hind.nlCount]
  have hr : stopsAt valueSettings (('\n' :: ind) ++ '#' :: (warnBody ++ '\n' :: Y)) = true :=
    ends_of_isSpace _ (by rfl)
  have hnw := nextWord_value_plain [' '] w _ l space_blank hw hr
  simp only [nlCount_blank, Nat.add_zero] at hnw
  have hstop' : stopsAt valueSettings (warnBody ++ '\n' :: Y) = true := by rfl
  have hhash : nextWord valueSettings ⟨('\n' :: ind) ++ '#' :: (warnBody ++ '\n' :: Y), l⟩
      = .ok (some ({ value := ['#'], quote := none, line := some (l + 1) },
                   ⟨warnBody ++ '\n' :: Y, l + 1⟩)) := by
    unfold nextWord
    simp only []
    rw [nextWordAux_skip valueSettings ('\n' :: ind) _ hsp2, hnl2]
    have := nextWordAux_plain valueSettings '#' [] (warnBody ++ '\n' :: Y) (l + 1) (by rfl) (by rfl)
      (by rfl) (by rfl) (by intro d hd; simp at hd) hstop'
    simpa using this
  obtain ⟨c, t, rfl, hall, hq, hb, hh⟩ := plainWord_cases hw
  obtain ⟨m, hm, hm2⟩ : ∃ m, ([' '] ++ (c :: t) ++ (('\n' :: ind) ++ '#' :: (warnBody ++ '\n' :: Y))).length + 1 = m + 2
      ∧ warnBody.length + 1 ≤ m := by
    refine ⟨([' '] ++ (c :: t) ++ (('\n' :: ind) ++ '#' :: (warnBody ++ '\n' :: Y))).length - 1, ?_, ?_⟩ <;>
      simp only [List.length_append, List.length_cons] <;> omega
  obtain ⟨tb, htb, hbody⟩ := cAA_comment_body Y (l + 1) hnext warnBody.length warnBody (Nat.le_refl _)
    { value := ['#'], quote := none, line := some (l + 1) } m
    [{ value := c :: t, quote := none, line := some l }] hm2 rfl
    (by rw [isUnq_backslash]; exact warnBody_ok_ar2)
  refine ⟨tb, htb, ?_⟩
  unfold collectAssigned
  simp only []
  rw [hm, cAA_take (m + 1) _ _ lead _ [] hnw rfl (not_special_of_plain hall hh) hb (by rw [hlead]),
    cAA_hash m _ _ _ _ _ hhash rfl rfl, hbody]
  simp

/-- `collect_objects` looks at its position only through the next structural word -/
theorem collectObjects_congr_ci_ar2 (fuel : Nat) (a b : CI) (n : Nat) (stop : Option Word) (prevLine : Nat)
    (acc : List Obj) (pending : Option Obj)
    (h : nextWord structSettings a = nextWord structSettings b)
    (hs : ∃ r, nextWord structSettings b = .ok (some r)) :
    collectObjects fuel { ci := a, nextId := n } stop prevLine acc pending
      = collectObjects fuel { ci := b, nextId := n } stop prevLine acc pending := by
  cases fuel with
  | zero => rfl
  | succ f =>
    obtain ⟨⟨w, ci'⟩, hb⟩ := hs
    have ha := h.trans hb
    have ta : tryPopUnquoted structSettings a = tryPopUnquoted structSettings b := by
      simp [tryPopUnquoted, tryPop, ha, hb]
    cases hq : w.quote with
    | some q =>
      have tb : tryPopUnquoted structSettings b = .error (unquotedErr w) := by
        simp [tryPopUnquoted, tryPop, hb, hq]
      simp [collectObjects, ta, tb]
    | none =>
      have tb : tryPopUnquoted structSettings b = .ok (some (w, ci')) := by
        simp [tryPopUnquoted, tryPop, hb, hq]
      unfold collectObjects
      simp only [ta, tb]

/-- after the value collector has consumed the warning line, `collect_objects` goes on exactly as if
    it stood in front of that line -/
theorem collectObjects_after_warn_ar2 (fuel : Nat) (tb ind Y : Str) (l i : Nat) (stop : Option Word)
    (prevLine : Nat) (acc : List Obj) (pending : Option Obj) (htb : InlineSpace tb) (hind : Blank ind)
    (hs : ∃ r, nextWordAux structSettings false Y (l + 2) = .ok (some r)) :
    collectObjects fuel { ci := ⟨tb ++ '\n' :: Y, l + 1⟩, nextId := i } stop prevLine acc pending
      = collectObjects fuel
          { ci := ⟨'\n' :: (ind ++ ("# WARNING: deprecated parameter\n".toList ++ Y)), l⟩, nextId := i }
          stop prevLine acc pending := by
  have e1 : nextWord structSettings ⟨tb ++ '\n' :: Y, l + 1⟩ = nextWordAux structSettings false Y (l + 2) := by
    rw [nextWord_inline_space structSettings tb _ _ htb, nextWord_newline]
  have e2 : nextWord structSettings ⟨'\n' :: (ind ++ ("# WARNING: deprecated parameter\n".toList ++ Y)), l⟩
      = nextWordAux structSettings false Y (l + 2) := by
    rw [nextWord_newline, nextWordAux_skip structSettings ind _ hind.isSpace, hind.nlCount, warn_skip_art]
  exact collectObjects_congr_ci_ar2 fuel _ _ i stop prevLine acc pending (e1.trans e2.symm) (by rw [e2]; exact hs)

/-- **One turn of `collect_objects` on the last attribute line of a definition followed by the warning
    line of a deprecated definition**: the attribute (one plain word `p`, e.g. `.expert_level = None`,
    `.deprecated = True`) is assigned, the warning line is consumed by the value collector, and
    `collect_objects` continues as if it stood in front of the warning line — the same form as
    `collectObjects_defn_attr_art` gives when no warning line follows. -/
theorem collectObjects_defn_attr_warn_ar2 (fuel : Nat) (stop : Option Word) (prevLine : Nat) (acc : List Obj)
    (d : Obj) (sp : Str) (n : String) (p ind Y : Str) (l i : Nat) (v : AttrVal)
    (hsp : ∀ c ∈ sp, isSpace c = true) (hn : n ∈ defAttrNames) (hp : plainWord p = true)
    (hv : ∀ l', defAttrValue n [{ value := p, quote := none, line := some l' }] = .ok v)
    (hind : Blank ind) (hnext : ∀ c, firstNonSpace Y = some c → isQuoteChar c = false)
    (hs : ∃ r, nextWordAux structSettings false Y (l + nlCount sp + 2) = .ok (some r)) :
    collectObjects (fuel + 1)
        { ci := ⟨sp ++ '.' :: n.toList ++ ' ' :: '=' ::
            (([' '] ++ p) ++ '\n' :: (ind ++ ("# WARNING: deprecated parameter\n".toList ++ Y))), l⟩, nextId := i }
        stop prevLine acc (some d)
      = collectObjects fuel
          { ci := ⟨'\n' :: (ind ++ ("# WARNING: deprecated parameter\n".toList ++ Y)), l + nlCount sp⟩, nextId := i }
          stop (l + nlCount sp) acc
          (some (d.withMeta (fun m => { m with attrs := m.attrs ++ [(n, v)] }))) := by
  have hok : attrNameOK n = true := attrNames_ok_art n (List.mem_append_left _ hn)
  have etext : ([' '] ++ p) ++ '\n' :: (ind ++ ("# WARNING: deprecated parameter\n".toList ++ Y))
      = [' '] ++ p ++ (('\n' :: ind) ++ '#' :: (warnBody ++ '\n' :: Y)) := by
    have ew : "# WARNING: deprecated parameter\n".toList = '#' :: (warnBody ++ ['\n']) := by decide
    rw [ew]
    simp only [List.append_assoc, List.cons_append, List.nil_append]
  rw [etext]
  have h1 := nextWord_attr_name_art sp ('=' :: ([' '] ++ p ++ (('\n' :: ind) ++ '#' :: (warnBody ++ '\n' :: Y)))) n l hsp hok
  have h2 := nextWord_struct_eq [' '] ([' '] ++ p ++ (('\n' :: ind) ++ '#' :: (warnBody ++ '\n' :: Y))) (l + nlCount sp) space_blank
  rw [nlCount_blank, Nat.add_zero] at h2
  have h2' : nextWord structSettings ⟨' ' :: '=' :: ([' '] ++ p ++ (('\n' :: ind) ++ '#' :: (warnBody ++ '\n' :: Y))), l + nlCount sp⟩
      = .ok (some ({ value := ['='], quote := none, line := some (l + nlCount sp) },
                   ⟨[' '] ++ p ++ (('\n' :: ind) ++ '#' :: (warnBody ++ '\n' :: Y)), l + nlCount sp⟩)) := h2
  obtain ⟨tb, htb, h3⟩ := collectAssigned_plain_warn_ar2 p ind Y (l + nlCount sp)
    { value := '.' :: n.toList, quote := none, line := some (l + nlCount sp) } rfl hp hind hnext
  have hcont : defAttrNames.contains n = true := by simpa using hn
  rw [collectObjects_attr_step_art fuel
    { ci := ⟨sp ++ '.' :: n.toList ++ ' ' :: '=' :: ([' '] ++ p ++ (('\n' :: ind) ++ '#' :: (warnBody ++ '\n' :: Y))), l⟩, nextId := i }
    stop prevLine acc d _ _ _ _ _ _ n v h1 rfl (by simp) (by simp) (by simp) (stripBang_of_not_bang _ (by simp))
    (by simp) (by simp [String.ofList_toList]) hcont h2' rfl rfl h3 (hv _)]
  exact collectObjects_after_warn_ar2 fuel tb ind Y (l + nlCount sp) i stop _ acc _ htb hind hs

end Phil
